/-
  C12 — intersection queries are exact for segments and sound for curves.

  All statements are about the model functions of `Model/Geom/Intersect.lean` (the same `def`s
  the correspondence check runs at `Float32`/`Float` against lyon) instantiated at an arbitrary
  linearly ordered field `K`; `Float::signum` is instantiated by the sign function of the field
  (`Lemmas/IxField.lean`), lyon's `EPSILON`/`epsilon_for` and `sqrt`/`pow`/`acos`/`cos` are
  parameters whose laws are stated as hypotheses where used.
-/
import LyonVerif.Model.Geom.Intersect
import LyonVerif.Lemmas.IxField

geom_all Lyon.IxTri
geom_all Lyon.Quad
geom_all Lyon.LineEq
geom_all Lyon.Roots
geom_all Lyon.Cubic

set_option linter.unusedSectionVars false
set_option linter.unusedVariables false

namespace Lyon.C12
open Lyon Scalar Lyon.Ix
variable {K : Type} [Field K] [LinearOrder K] [IsStrictOrderedRing K]

/-! ### Segment × segment -/

/-- **Segment × segment, exact.**  `intersection_t` returns `(t, u)` iff none of the four endpoint
pairs coincide (the code's `==` tests), the segments are not parallel, both parameters are in the
closed unit interval (the code tests `t < 0 || t > |v1×v2|` on the undivided numerators, i.e.
non-strict bounds: touching at an endpoint of ONE segment counts) and they denote the same point. -/
theorem seg_intersection_iff (s o : Seg K) (t u : K) :
    s.intersectionT o = some (t, u) ↔
      ¬ (s.b = o.b ∨ s.a = o.a ∨ s.a = o.b ∨ s.b = o.a)
      ∧ s.toVector.cross o.toVector ≠ 0
      ∧ 0 ≤ t ∧ t ≤ 1 ∧ 0 ≤ u ∧ u ≤ 1
      ∧ s.sample t = o.sample u := by
  unfold Seg.intersectionT
  by_cases hsh : s.sharesEndpoint o = true
  · have := (sharesEndpoint_iff s o).mp hsh
    rw [if_pos hsh]
    constructor
    · intro h; cases h
    · rintro ⟨h, _⟩; exact absurd this h
  · have hsh' : ¬ (s.b = o.b ∨ s.a = o.a ∨ s.a = o.b ∨ s.b = o.a) := fun h => hsh ((sharesEndpoint_iff s o).mpr h)
    rw [if_neg hsh]
    by_cases hd0 : (s.ixDet o == (Scalar.zero : K)) = true
    · have : s.toVector.cross o.toVector = 0 := (beq_zero_iff _).mp hd0
      rw [if_pos hd0]
      constructor
      · intro h; cases h
      · rintro ⟨_, h, _⟩; exact absurd this h
    · rw [if_neg hd0]
      have hd : s.ixDet o ≠ 0 := fun h => hd0 ((beq_zero_iff _).mpr h)
      have hpos : 0 < |s.ixDet o| := abs_pos.mpr hd
      have hT : s.ixT o / |s.ixDet o| = (o.a - s.a).cross o.toVector / s.ixDet o := signed_div _ _ hd
      have hU : s.ixU o / |s.ixDet o| = (o.a - s.a).cross s.toVector / s.ixDet o := signed_div _ _ hd
      have hse := sample_eq_iff s o t u hd
      have hz : (Scalar.zero : K) = 0 := by simp [Scalar.zero]
      have hr : ¬ (s.ixT o < Scalar.zero ∨ s.ixT o > Scalar.abs (s.ixDet o) ∨ s.ixU o < Scalar.zero ∨ s.ixU o > Scalar.abs (s.ixDet o))
          ↔ ((0 ≤ s.ixT o / |s.ixDet o| ∧ s.ixT o / |s.ixDet o| ≤ 1) ∧ (0 ≤ s.ixU o / |s.ixDet o| ∧ s.ixU o / |s.ixDet o| ≤ 1)) := by
        rw [← range_iff _ _ hpos, ← range_iff _ _ hpos, hz, sc_abs]
        tauto
      by_cases hrange : (s.ixT o < Scalar.zero ∨ s.ixT o > Scalar.abs (s.ixDet o) ∨ s.ixU o < Scalar.zero ∨ s.ixU o > Scalar.abs (s.ixDet o))
      · rw [if_pos hrange]
        have hnr := (not_congr hr).mp (not_not.mpr hrange)
        constructor
        · intro h; cases h
        · rintro ⟨_, _, h0, h1, h2, h3, hs⟩
          obtain ⟨ht, hu⟩ := hse.mp hs
          exfalso
          apply hnr
          rw [hT, hU, ← ht, ← hu]
          exact ⟨⟨h0, h1⟩, ⟨h2, h3⟩⟩
      · rw [if_neg hrange]
        have hin := hr.mp hrange
        rw [sc_abs, hT, hU] at *
        constructor
        · intro h
          simp only [Option.some.injEq, Prod.mk.injEq] at h
          obtain ⟨ht, hu⟩ := h
          refine ⟨hsh', hd, ?_, ?_, ?_, ?_, hse.mpr ⟨ht.symm, hu.symm⟩⟩
          · rw [← ht]; exact hin.1.1
          · rw [← ht]; exact hin.1.2
          · rw [← hu]; exact hin.2.1
          · rw [← hu]; exact hin.2.2
        · rintro ⟨_, _, _, _, _, _, hs⟩
          obtain ⟨ht, hu⟩ := hse.mp hs
          rw [ht, hu]

/-- non-vacuity: the crossing diagonals of the unit square -/
example : (⟨⟨0, 0⟩, ⟨1, 1⟩⟩ : Seg ℚ).intersectionT ⟨⟨0, 1⟩, ⟨1, 0⟩⟩ = some (1/2, 1/2) := by
  rw [seg_intersection_iff]
  refine ⟨by simp [P.mk.injEq], by simp only [geom]; norm_num, by norm_num, by norm_num, by norm_num, by norm_num, ?_⟩
  simp only [geom, P.mk.injEq]; norm_num

/-- the reported parameters are the only pair of parameters (in or out of range) at which the two
carrier lines meet: uniqueness of `(t, u)`. -/
theorem seg_intersection_unique (s o : Seg K) (t u t' u' : K)
    (h : s.intersectionT o = some (t, u)) (h' : s.sample t' = o.sample u') : t' = t ∧ u' = u := by
  obtain ⟨_, hd, _, _, _, _, hs⟩ := (seg_intersection_iff s o t u).mp h
  have hd' : s.ixDet o ≠ 0 := hd
  obtain ⟨a1, a2⟩ := (sample_eq_iff s o t u hd').mp hs
  obtain ⟨b1, b2⟩ := (sample_eq_iff s o t' u' hd').mp h'
  exact ⟨b1.trans a1.symm, b2.trans a2.symm⟩

/-- parallel (in particular collinear / overlapping) segments report none -/
theorem seg_parallel_none (s o : Seg K) (h : s.toVector.cross o.toVector = 0) :
    s.intersectionT o = none := by
  cases hr : s.intersectionT o with
  | none => rfl
  | some r =>
    obtain ⟨t, u⟩ := r
    exact absurd h ((seg_intersection_iff s o t u).mp hr).2.1

/-- segments with a common endpoint report none (even when they also cross elsewhere, which for
non-parallel segments cannot happen) -/
theorem seg_shared_endpoint_none (s o : Seg K) (h : s.b = o.b ∨ s.a = o.a ∨ s.a = o.b ∨ s.b = o.a) :
    s.intersectionT o = none := by
  cases hr : s.intersectionT o with
  | none => rfl
  | some r =>
    obtain ⟨t, u⟩ := r
    exact absurd h ((seg_intersection_iff s o t u).mp hr).1

/-- overlapping segments (two different parameter pairs denote common points) report none -/
theorem seg_overlap_none (s o : Seg K) (t u t' u' : K) (h1 : s.sample t = o.sample u)
    (h2 : s.sample t' = o.sample u') (hne : t ≠ t' ∨ u ≠ u') : s.intersectionT o = none := by
  cases hr : s.intersectionT o with
  | none => rfl
  | some r =>
    obtain ⟨t0, u0⟩ := r
    obtain ⟨a1, a2⟩ := seg_intersection_unique s o t0 u0 t u hr h1
    obtain ⟨b1, b2⟩ := seg_intersection_unique s o t0 u0 t' u' hr h2
    rcases hne with h | h
    · exact absurd (a1.trans b1.symm) h
    · exact absurd (a2.trans b2.symm) h

/-- non-vacuity of `seg_overlap_none`: `(0,0)–(2,0)` and `(1,0)–(3,0)` overlap on `[1,2]×{0}` -/
example : (⟨⟨0, 0⟩, ⟨2, 0⟩⟩ : Seg ℚ).sample (1/2) = (⟨⟨1, 0⟩, ⟨3, 0⟩⟩ : Seg ℚ).sample 0
    ∧ (⟨⟨0, 0⟩, ⟨2, 0⟩⟩ : Seg ℚ).sample 1 = (⟨⟨1, 0⟩, ⟨3, 0⟩⟩ : Seg ℚ).sample (1/2) ∧ (1/2 : ℚ) ≠ 1 := by
  refine ⟨?_, ?_, by norm_num⟩ <;> (simp only [geom, P.mk.injEq]; norm_num)

/-- `intersects` ⇔ some pair of parameters in `[0,1]²` denotes a common point, the segments are
not parallel and share no endpoint. -/
theorem seg_intersects_iff (s o : Seg K) :
    s.intersects o = true ↔
      ¬ (s.b = o.b ∨ s.a = o.a ∨ s.a = o.b ∨ s.b = o.a) ∧ s.toVector.cross o.toVector ≠ 0
      ∧ ∃ t u, 0 ≤ t ∧ t ≤ 1 ∧ 0 ≤ u ∧ u ≤ 1 ∧ s.sample t = o.sample u := by
  unfold Seg.intersects
  rw [Option.isSome_iff_exists]
  constructor
  · rintro ⟨⟨t, u⟩, h⟩
    obtain ⟨h1, h2, h3⟩ := (seg_intersection_iff s o t u).mp h
    exact ⟨h1, h2, t, u, h3⟩
  · rintro ⟨h1, h2, t, u, h3⟩
    exact ⟨(t, u), (seg_intersection_iff s o t u).mpr ⟨h1, h2, h3⟩⟩

/-- **The property's wording, literally**: two segments are reported as intersecting exactly when
they share no endpoint (the code's four `==` tests) and cross at a single point, i.e. exactly one
pair of parameters in `[0,1]²` denotes a common point.  (Parallel overlapping segments have
several such pairs or none; a unique common point of parallel segments is a common endpoint.) -/
theorem seg_intersects_iff_unique_crossing (s o : Seg K) :
    s.intersects o = true ↔
      ¬ (s.b = o.b ∨ s.a = o.a ∨ s.a = o.b ∨ s.b = o.a)
      ∧ ∃! p : K × K, 0 ≤ p.1 ∧ p.1 ≤ 1 ∧ 0 ≤ p.2 ∧ p.2 ≤ 1 ∧ s.sample p.1 = o.sample p.2 := by
  rw [seg_intersects_iff]
  constructor
  · rintro ⟨hsh, hd, t, u, h0, h1, h2, h3, hs⟩
    refine ⟨hsh, (t, u), ⟨h0, h1, h2, h3, hs⟩, ?_⟩
    rintro ⟨t', u'⟩ ⟨_, _, _, _, hs'⟩
    have hd' : s.ixDet o ≠ 0 := hd
    obtain ⟨a1, a2⟩ := (sample_eq_iff s o t u hd').mp hs
    obtain ⟨b1, b2⟩ := (sample_eq_iff s o t' u' hd').mp hs'
    simp only [Prod.mk.injEq]
    exact ⟨b1.trans a1.symm, b2.trans a2.symm⟩
  · rintro ⟨hsh, ⟨t, u⟩, ⟨h0, h1, h2, h3, hs⟩, huniq⟩
    simp only at h0 h1 h2 h3 hs
    refine ⟨hsh, ?_, t, u, h0, h1, h2, h3, hs⟩
    intro hd
    have hx := congrArg P.x hs
    have hy := congrArg P.y hs
    simp only [geom, Nat.cast_one] at hx hy hd
    have s0 : s.sample 0 = s.a := by geom_ring
    have s1 : s.sample 1 = s.b := by geom_ring
    have o0 : o.sample 0 = o.a := by geom_ring
    have o1 : o.sample 1 = o.b := by geom_ring
    -- not at a corner of the parameter square: that would be a shared endpoint
    have hnc : ¬ ((t = 0 ∨ t = 1) ∧ (u = 0 ∨ u = 1)) := by
      rintro ⟨ht | ht, hu | hu⟩
      · rw [ht, hu, s0, o0] at hs; exact hsh (Or.inr (Or.inl hs))
      · rw [ht, hu, s0, o1] at hs; exact hsh (Or.inr (Or.inr (Or.inl hs)))
      · rw [ht, hu, s1, o0] at hs; exact hsh (Or.inr (Or.inr (Or.inr hs)))
      · rw [ht, hu, s1, o1] at hs; exact hsh (Or.inl hs)
    -- a second solution (t2, u2) contradicts uniqueness
    have second : ∀ t2 u2 : K, 0 ≤ t2 → t2 ≤ 1 → 0 ≤ u2 → u2 ≤ 1 → s.sample t2 = o.sample u2 →
        (t2 ≠ t ∨ u2 ≠ u) → False := by
      intro t2 u2 a1 a2 a3 a4 hs2 hne
      have := huniq (t2, u2) ⟨a1, a2, a3, a4, hs2⟩
      simp only [Prod.mk.injEq] at this
      rcases hne with h | h
      · exact h this.1
      · exact h this.2
    by_cases hv1 : s.a = s.b
    · -- `s` is a point: every parameter of `s` denotes it
      have hc : ∀ t2 : K, s.sample t2 = s.sample t := by
        intro t2; apply P.ext' <;> (simp only [geom, Nat.cast_one, hv1]; ring)
      by_cases ht : t = 0
      · exact second 1 u zero_le_one (le_refl _) h2 h3 ((hc 1).trans hs) (Or.inl (by rw [ht]; exact one_ne_zero))
      · exact second 0 u (le_refl _) zero_le_one h2 h3 ((hc 0).trans hs) (Or.inl (fun h => ht h.symm))
    by_cases hv2 : o.a = o.b
    · have hc : ∀ u2 : K, o.sample u2 = o.sample u := by
        intro u2; apply P.ext' <;> (simp only [geom, Nat.cast_one, hv2]; ring)
      by_cases hu : u = 0
      · exact second t 1 h0 h1 zero_le_one (le_refl _) (hs.trans (hc 1).symm) (Or.inr (by rw [hu]; exact one_ne_zero))
      · exact second t 0 h0 h1 (le_refl _) zero_le_one (hs.trans (hc 0).symm) (Or.inr (fun h => hu h.symm))
    -- both proper and parallel: slide along the common direction
    have hn1 : 0 < (s.b.x - s.a.x) * (s.b.x - s.a.x) + (s.b.y - s.a.y) * (s.b.y - s.a.y) := by
      by_contra hn
      have e1 : (s.b.x - s.a.x) * (s.b.x - s.a.x) = 0 := by
        linarith [mul_self_nonneg (s.b.x - s.a.x), mul_self_nonneg (s.b.y - s.a.y)]
      have e2 : (s.b.y - s.a.y) * (s.b.y - s.a.y) = 0 := by
        linarith [mul_self_nonneg (s.b.x - s.a.x), mul_self_nonneg (s.b.y - s.a.y)]
      exact hv1 (P.ext' (by linarith [mul_self_eq_zero.mp e1]) (by linarith [mul_self_eq_zero.mp e2]))
    have hn2 : 0 < (o.b.x - o.a.x) * (o.b.x - o.a.x) + (o.b.y - o.a.y) * (o.b.y - o.a.y) := by
      by_contra hn
      have e1 : (o.b.x - o.a.x) * (o.b.x - o.a.x) = 0 := by
        linarith [mul_self_nonneg (o.b.x - o.a.x), mul_self_nonneg (o.b.y - o.a.y)]
      have e2 : (o.b.y - o.a.y) * (o.b.y - o.a.y) = 0 := by
        linarith [mul_self_nonneg (o.b.x - o.a.x), mul_self_nonneg (o.b.y - o.a.y)]
      exact hv2 (P.ext' (by linarith [mul_self_eq_zero.mp e1]) (by linarith [mul_self_eq_zero.mp e2]))
    set α := (s.b.x - s.a.x) * (o.b.x - o.a.x) + (s.b.y - s.a.y) * (o.b.y - o.a.y) with hα
    set β := (s.b.x - s.a.x) * (s.b.x - s.a.x) + (s.b.y - s.a.y) * (s.b.y - s.a.y) with hβ
    have hα0 : α ≠ 0 := by
      intro h0'
      have : α * α = β * ((o.b.x - o.a.x) * (o.b.x - o.a.x) + (o.b.y - o.a.y) * (o.b.y - o.a.y)) := by
        rw [hα, hβ]
        linear_combination (-((s.b.x - s.a.x) * (o.b.y - o.a.y) - (s.b.y - s.a.y) * (o.b.x - o.a.x))) * hd
      rw [h0', mul_zero] at this
      exact absurd this.symm (mul_pos hn1 hn2).ne'
    obtain ⟨ε, hε, b1, b2, b3, b4⟩ := exists_other t u α β hn1 hα0 h0 h1 h2 h3 hnc
    apply second (t + ε * α) (u + ε * β) b1 b2 b3 b4
    · apply P.ext'
      · simp only [geom, Nat.cast_one]
        rw [hα, hβ]
        linear_combination hx + (ε * (s.b.y - s.a.y)) * hd
      · simp only [geom, Nat.cast_one]
        rw [hα, hβ]
        linear_combination hy - (ε * (s.b.x - s.a.x)) * hd
    · right
      intro h
      have : ε * β = 0 := by linear_combination h
      rcases mul_eq_zero.mp this with h' | h'
      · exact hε h'
      · exact hn1.ne' h'

/-- non-vacuity: the diagonals of the unit square cross exactly at `(1/2, 1/2)` and share no
endpoint -/
example : (⟨⟨0, 0⟩, ⟨1, 1⟩⟩ : Seg ℚ).intersects ⟨⟨0, 1⟩, ⟨1, 0⟩⟩ = true := by
  unfold Seg.intersects
  have : (⟨⟨0, 0⟩, ⟨1, 1⟩⟩ : Seg ℚ).intersectionT ⟨⟨0, 1⟩, ⟨1, 0⟩⟩ = some (1/2, 1/2) := by
    rw [seg_intersection_iff]
    refine ⟨by simp [P.mk.injEq], by simp only [geom]; norm_num, by norm_num, by norm_num, by norm_num, by norm_num, ?_⟩
    simp only [geom, P.mk.injEq]; norm_num
  rw [this]; rfl

/-- `intersection` is the point at the reported parameter, and it lies on both segments -/
theorem seg_intersection_point (s o : Seg K) (p : P K) (h : s.intersection o = some p) :
    ∃ t u, s.intersectionT o = some (t, u) ∧ p = s.sample t ∧ p = o.sample u := by
  unfold Seg.intersection at h
  cases hr : s.intersectionT o with
  | none => rw [hr] at h; cases h
  | some r =>
    obtain ⟨t, u⟩ := r
    rw [hr] at h
    simp only [Option.some.injEq] at h
    refine ⟨t, u, rfl, h.symm, ?_⟩
    rw [← h]
    exact ((seg_intersection_iff s o t u).mp hr).2.2.2.2.2.2

/-! ### Segment × line -/

/-- **`line_intersection_t` exact**: `some t` iff the segment is not parallel to the line, `t` is in
the closed unit interval and the point at `t` lies on the line. -/
theorem seg_line_intersection_iff (s : Seg K) (l : Line K) (t : K) :
    s.lineIntersectionT l = some t ↔
      s.toVector.cross l.vector ≠ 0 ∧ 0 ≤ t ∧ t ≤ 1 ∧ l.vector.cross (s.sample t - l.point) = 0 := by
  have e : l.vector.cross (s.sample t - l.point) = (l.point - s.a).cross l.vector - t * s.lineDet l := by
    simp only [geom, Nat.cast_one]; ring
  unfold Seg.lineIntersectionT
  by_cases hd0 : (s.lineDet l == (Scalar.zero : K)) = true
  · have : s.toVector.cross l.vector = 0 := (beq_zero_iff _).mp hd0
    rw [if_pos hd0]
    constructor
    · intro h; cases h
    · rintro ⟨h, _⟩; exact absurd this h
  · rw [if_neg hd0]
    have hd : s.lineDet l ≠ 0 := fun h => hd0 ((beq_zero_iff _).mpr h)
    have hpos : 0 < |s.lineDet l| := abs_pos.mpr hd
    have hT : s.lineT l / |s.lineDet l| = (l.point - s.a).cross l.vector / s.lineDet l := signed_div _ _ hd
    have hz : (Scalar.zero : K) = 0 := by simp [Scalar.zero]
    have hon : l.vector.cross (s.sample t - l.point) = 0 ↔ t = (l.point - s.a).cross l.vector / s.lineDet l := by
      rw [e, sub_eq_zero, eq_div_iff hd]
      exact eq_comm
    have hr : ¬ (s.lineT l < Scalar.zero ∨ s.lineT l > Scalar.abs (s.lineDet l))
        ↔ (0 ≤ s.lineT l / |s.lineDet l| ∧ s.lineT l / |s.lineDet l| ≤ 1) := by
      rw [← range_iff _ _ hpos, hz, sc_abs]
    by_cases hrange : (s.lineT l < Scalar.zero ∨ s.lineT l > Scalar.abs (s.lineDet l))
    · rw [if_pos hrange]
      have hnr := (not_congr hr).mp (not_not.mpr hrange)
      constructor
      · intro h; cases h
      · rintro ⟨_, h0, h1, hs⟩
        exfalso
        apply hnr
        rw [hT, ← hon.mp hs]
        exact ⟨h0, h1⟩
    · rw [if_neg hrange]
      have hin := hr.mp hrange
      rw [sc_abs, hT] at *
      constructor
      · intro h
        simp only [Option.some.injEq] at h
        refine ⟨hd, ?_, ?_, hon.mpr h.symm⟩
        · rw [← h]; exact hin.1
        · rw [← h]; exact hin.2
      · rintro ⟨_, _, _, hs⟩
        rw [hon.mp hs]

/-- non-vacuity: the segment (0,0)–(2,2) meets the vertical line x = 1 at t = 1/2 -/
example : (⟨⟨0, 0⟩, ⟨2, 2⟩⟩ : Seg ℚ).lineIntersectionT ⟨⟨1, 5⟩, ⟨0, 1⟩⟩ = some (1/2) := by
  rw [seg_line_intersection_iff]
  refine ⟨by simp only [geom]; norm_num, by norm_num, by norm_num, ?_⟩
  simp only [geom, Nat.cast_one]; norm_num

/-! ### Line × line -/

/-- **`Line::intersection` lies on both lines** (`cross(vector, p - point) = 0` for both), for any
non-negative `EPSILON`; it reports none exactly when `|det| ≤ EPSILON`. -/
theorem line_intersection_on_both [Eps K] (heps : (0:K) ≤ Eps.epsilon) (l o : Line K) (p : P K)
    (h : l.intersection o = some p) :
    l.vector.cross (p - l.point) = 0 ∧ o.vector.cross (p - o.point) = 0 := by
  unfold Line.intersection at h
  split at h
  · cases h
  · rename_i hdet
    simp only [Option.some.injEq] at h
    have hd : l.det o ≠ 0 := by
      intro h0
      apply hdet
      rw [h0, sc_abs, abs_zero]; exact heps
    have hd' : l.vector.x * o.vector.y - l.vector.y * o.vector.x ≠ 0 := by
      simpa only [geom] using hd
    subst h
    obtain ⟨Dinv, hD1, hD2⟩ : ∃ Dinv, (1:K) / (l.vector.x * o.vector.y - l.vector.y * o.vector.x) = Dinv
        ∧ Dinv * (l.vector.x * o.vector.y - l.vector.y * o.vector.x) = 1 := ⟨_, rfl, by field_simp⟩
    simp only [geom, Nat.cast_one, hD1]
    constructor
    · linear_combination (l.vector.x * l.point.y - l.vector.y * l.point.x) * hD2
    · linear_combination (o.vector.x * o.point.y - o.vector.y * o.point.x) * hD2

/-- non-vacuity: lyon's `EPSILON` values (1e-4, 1e-8) are non-negative -/
example : (0:ℚ) ≤ 1 / 10000 := by norm_num

theorem line_intersection_none_iff [Eps K] (l o : Line K) :
    l.intersection o = none ↔ |l.vector.cross o.vector| ≤ Eps.epsilon := by
  unfold Line.intersection
  split
  · rename_i h; simpa [Line.det, sc_abs] using h
  · rename_i h; simpa [Line.det, sc_abs] using h

/-! ### Triangle -/

/-- **`contains_point` ⇔ strictly inside a non-degenerate triangle**: `p` is a convex combination
of the three vertices with strictly positive weights. -/
theorem triangle_contains_iff (t : IxTri K) (p : P K) :
    t.containsPoint p = true ↔
      t.det ≠ 0 ∧ ∃ wa wb wc : K, 0 < wa ∧ 0 < wb ∧ 0 < wc ∧ wa + wb + wc = 1
        ∧ p.x = wa * t.a.x + wb * t.b.x + wc * t.c.x ∧ p.y = wa * t.a.y + wb * t.b.y + wc * t.c.y := by
  unfold IxTri.containsPoint
  by_cases hd0 : (t.det == (Scalar.zero : K)) = true
  · have : t.det = 0 := (beq_zero_iff _).mp hd0
    rw [if_pos hd0]
    constructor
    · intro h; cases h
    · rintro ⟨h, _⟩; exact absurd this h
  · rw [if_neg hd0]
    have hd : t.det ≠ 0 := fun h => hd0 ((beq_zero_iff _).mpr h)
    have hz : (Scalar.zero : K) = 0 := by simp [Scalar.zero]
    simp only [Bool.and_eq_true, decide_eq_true_eq, hz, gt_iff_lt]
    have hd' : (t.b.x - t.a.x) * (t.c.y - t.a.y) - (t.b.y - t.a.y) * (t.c.x - t.a.x) ≠ 0 := by
      simpa only [geom] using hd
    obtain ⟨Dinv, hD1, hD2⟩ : ∃ Dinv, (1:K) / ((t.b.x - t.a.x) * (t.c.y - t.a.y) - (t.b.y - t.a.y) * (t.c.x - t.a.x)) = Dinv
        ∧ Dinv * ((t.b.x - t.a.x) * (t.c.y - t.a.y) - (t.b.y - t.a.y) * (t.c.x - t.a.x)) = 1 := ⟨_, rfl, by field_simp⟩
    constructor
    · rintro ⟨⟨ha, hb⟩, hc⟩
      refine ⟨hd, t.baryC p, t.baryB p, t.baryA p, hc, hb, ha, ?_, ?_, ?_⟩
      · simp only [IxTri.baryC, geom, Nat.cast_one]; ring
      · simp only [IxTri.baryC, IxTri.baryA, IxTri.baryB, IxTri.det, geom, Nat.cast_one, hD1]
        linear_combination (-(p.x - t.a.x)) * hD2
      · simp only [IxTri.baryC, IxTri.baryA, IxTri.baryB, IxTri.det, geom, Nat.cast_one, hD1]
        linear_combination (-(p.y - t.a.y)) * hD2
    · rintro ⟨_, wa, wb, wc, ha, hb, hc, hsum, hx, hy⟩
      have hwa : wa = 1 - wb - wc := by linear_combination hsum
      have eA : t.baryA p = wc := by
        simp only [IxTri.baryA, IxTri.det, geom, Nat.cast_one, hx, hy, hwa, hD1]
        linear_combination wc * hD2
      have eB : t.baryB p = wb := by
        simp only [IxTri.baryB, IxTri.det, geom, Nat.cast_one, hx, hy, hwa, hD1]
        linear_combination wb * hD2
      have eC : t.baryC p = wa := by
        unfold IxTri.baryC
        rw [eA, eB]
        simp only [geom, Nat.cast_one]
        linear_combination -hsum
      rw [eA, eB, eC]
      exact ⟨⟨hc, hb⟩, ha⟩

example : (⟨⟨0, 0⟩, ⟨1, 0⟩, ⟨0, 1⟩⟩ : IxTri ℚ).containsPoint ⟨1/5, 1/5⟩ = true := by
  rw [triangle_contains_iff]
  refine ⟨by simp only [geom]; norm_num, 3/5, 1/5, 1/5, by norm_num, by norm_num, by norm_num, by norm_num, by norm_num, by norm_num⟩

/-! ### Quadratic Bézier × line

`sqrt` is a parameter; the laws used are hypotheses (`Real.sqrt` satisfies them). -/

section quad
variable [Transc K]

theorem inUnit_iff (t : K) : inUnit t = true ↔ 0 ≤ t ∧ t ≤ 1 := by
  unfold inUnit
  simp [Scalar.zero, Scalar.one]

/-- the polynomial the code solves is the (normalised) line equation evaluated along the curve -/
theorem quad_line_poly (q : Quad K) (e : LineEq K) (t : K) :
    q.liA e * t * t + q.liB e * t + q.liC e = e.a * (q.sample t).x + e.b * (q.sample t).y + e.c := by
  simp only [geom, Nat.cast_one, Nat.cast_ofNat]; ring

/-- the normalised equation vanishes exactly on the line, when `sqrt` of the (positive) squared
length of the direction is non-zero -/
theorem line_equation_iff (l : Line K) (p : P K)
    (hs : Transc.sqrt (-l.vector.y * -l.vector.y + l.vector.x * l.vector.x) ≠ 0) :
    l.equation.a * p.x + l.equation.b * p.y + l.equation.c = 0 ↔ l.vector.cross (p - l.point) = 0 := by
  obtain ⟨Dinv, hD1, hD2⟩ : ∃ Dinv, (1:K) / Transc.sqrt (-l.vector.y * -l.vector.y + l.vector.x * l.vector.x) = Dinv
      ∧ Dinv ≠ 0 := ⟨_, rfl, by rw [one_div]; exact inv_ne_zero hs⟩
  simp only [geom, Nat.cast_one, hD1]
  constructor
  · intro h
    apply mul_left_cancel₀ hD2
    linear_combination h
  · intro h
    linear_combination Dinv * h

theorem qT1_root (hsq : ∀ x : K, 0 ≤ x → Transc.sqrt x * Transc.sqrt x = x) (a b c : K)
    (ha : a ≠ 0) (hd : 0 ≤ Quad.qDelta a b c) :
    a * Quad.qT1 a b c * Quad.qT1 a b c + b * Quad.qT1 a b c + c = 0 := by
  have hr := hsq _ hd
  have hσ := sgn_sq b
  have h : Quad.qT1 a b c * (2 * a) = -b + -(Sgn.signum b) * Transc.sqrt (Quad.qDelta a b c) := by
    unfold Quad.qT1
    simp only [geom, Nat.cast_ofNat]
    exact div_mul_cancel₀ _ (mul_ne_zero two_ne_zero ha)
  have hΔ : Quad.qDelta a b c = b * b - 4 * a * c := by simp only [geom, Nat.cast_ofNat]
  have hr2 := hr.trans hΔ
  set t1 := Quad.qT1 a b c
  set r := Transc.sqrt (Quad.qDelta a b c)
  set σ : K := Sgn.signum b
  apply mul_left_cancel₀ (mul_ne_zero (four_ne_zero (α := K)) ha)
  linear_combination (t1 * (2 * a) + (-b + -σ * r) + 2 * b) * h + (r * r) * hσ + hr2

theorem qT2_root (a b c : K) (ha : a ≠ 0) (h1 : Quad.qT1 a b c ≠ 0)
    (hroot : a * Quad.qT1 a b c * Quad.qT1 a b c + b * Quad.qT1 a b c + c = 0) :
    a * Quad.qT2 a b c * Quad.qT2 a b c + b * Quad.qT2 a b c + c = 0 := by
  have h2 : Quad.qT2 a b c * (a * Quad.qT1 a b c) = c := by
    unfold Quad.qT2
    exact div_mul_cancel₀ _ (mul_ne_zero ha h1)
  set t1 := Quad.qT1 a b c
  set t2 := Quad.qT2 a b c
  apply mul_left_cancel₀ (mul_ne_zero (mul_ne_zero ha h1) h1)
  linear_combination (t2 * (a * t1) + c + b * t1) * h2 + c * hroot

theorem mem_qPush (x y t : K) (h : t ∈ Quad.qPush x y) :
    (t = x ∧ inUnit x = true) ∨ (t = y ∧ inUnit y = true) := by
  unfold Quad.qPush at h
  rw [List.mem_append] at h
  rcases h with h | h
  · by_cases hx : inUnit x = true
    · rw [if_pos hx, List.mem_singleton] at h; exact Or.inl ⟨h, hx⟩
    · rw [if_neg hx] at h; cases h
  · by_cases hy : (inUnit y && !(x == y)) = true
    · rw [if_pos hy, List.mem_singleton] at h
      rw [Bool.and_eq_true] at hy
      exact Or.inr ⟨h, hy.1⟩
    · rw [if_neg hy] at h; cases h

theorem mem_qPush_of (x y t : K) (hu : inUnit t = true) (h : t = x ∨ t = y) : t ∈ Quad.qPush x y := by
  unfold Quad.qPush
  rw [List.mem_append]
  by_cases hx : t = x
  · left; rw [← hx, if_pos hu]; exact List.mem_singleton.mpr rfl
  · have hy : t = y := h.resolve_left hx
    right
    subst hy
    have hne : (x == t) = false := by
      cases hb : (x == t)
      · rfl
      · exact absurd ((sc_beq x t).mp hb).symm hx
    rw [hu, hne]
    exact List.mem_singleton.mpr rfl

/-- **The linear branch (`a = 0`, `b ≠ 0`)**: the single candidate is `-c / b`, the solution of
`b·t + c = 0`; it is returned iff it lies in `[0,1]`. -/
theorem quad_solve_linear (b c : K) (hb : b ≠ 0) :
    Quad.solve 0 b c = if 0 ≤ -c / b ∧ -c / b ≤ 1 then [-c / b] else [] := by
  unfold Quad.solve
  have h0 : ((0:K) == (Scalar.zero : K)) = true := (beq_zero_iff _).mpr rfl
  have hb' : ¬ (b == (Scalar.zero : K)) = true := fun h => hb ((beq_zero_iff _).mp h)
  rw [if_pos h0, if_neg hb']
  by_cases hu : inUnit (-c / b) = true
  · rw [if_pos hu, if_pos ((inUnit_iff _).mp hu)]
  · rw [if_neg hu, if_neg (fun h => hu ((inUnit_iff _).mpr h))]

/-- degenerate branch `a = 0`, `b = 0` (the curve's distance to the line is constant: it misses
the line or lies inside it — no isolated crossing exists): nothing is returned -/
theorem quad_solve_degenerate (c : K) : Quad.solve 0 0 c = [] := by
  unfold Quad.solve
  have h0 : ((0:K) == (Scalar.zero : K)) = true := (beq_zero_iff _).mpr rfl
  rw [if_pos h0, if_pos h0]

/-- soundness of the root computation, quadratic branch (`a ≠ 0`) -/
theorem quad_solve_sound_quadratic (hsq : ∀ x : K, 0 ≤ x → Transc.sqrt x * Transc.sqrt x = x) (a b c : K)
    (ha : a ≠ 0) (t : K) (ht : t ∈ Quad.solve a b c) :
    0 ≤ t ∧ t ≤ 1 ∧ a * t * t + b * t + c = 0 := by
  unfold Quad.solve at ht
  have ha' : ¬ (a == (Scalar.zero : K)) = true := fun h => ha ((beq_zero_iff _).mp h)
  have hz : (Scalar.zero : K) = 0 := by simp [Scalar.zero]
  rw [if_neg ha'] at ht
  by_cases hd : Quad.qDelta a b c ≥ (Scalar.zero : K)
  · rw [if_pos hd] at ht
    rw [hz] at hd
    have r1 := qT1_root hsq a b c ha hd
    by_cases h10 : (Quad.qT1 a b c == (Scalar.zero : K)) = true
    · rw [if_pos h10, List.mem_singleton] at ht
      have : Quad.qT1 a b c = 0 := (beq_zero_iff _).mp h10
      rw [ht, this]
      rw [this] at r1
      exact ⟨le_refl _, zero_le_one, r1⟩
    · rw [if_neg h10] at ht
      have h1 : Quad.qT1 a b c ≠ 0 := fun h => h10 ((beq_zero_iff _).mpr h)
      have r2 := qT2_root a b c ha h1 r1
      have key : (t = Quad.qT1 a b c ∧ inUnit (Quad.qT1 a b c) = true) ∨ (t = Quad.qT2 a b c ∧ inUnit (Quad.qT2 a b c) = true) := by
        by_cases hsw : Quad.qT1 a b c > Quad.qT2 a b c
        · rw [if_pos hsw] at ht; exact (mem_qPush _ _ _ ht).symm
        · rw [if_neg hsw] at ht; exact mem_qPush _ _ _ ht
      rcases key with ⟨e, hu⟩ | ⟨e, hu⟩
      · rw [e]; exact ⟨((inUnit_iff _).mp hu).1, ((inUnit_iff _).mp hu).2, r1⟩
      · rw [e]; exact ⟨((inUnit_iff _).mp hu).1, ((inUnit_iff _).mp hu).2, r2⟩
  · rw [if_neg hd] at ht; cases ht

/-- non-vacuity of the premises of `quad_solve_sound_quadratic` / `quad_solve_complete_quadratic`: `t² − t` has
`a = 1 ≠ 0`, discriminant `1 ≥ 0` and the roots `0`, `1` in range (the `sqrt` laws are those of
`Real.sqrt` on non-negative arguments). -/
example : (1:ℚ) ≠ 0 ∧ (0:ℚ) ≤ (-1) * (-1) - 4 * 1 * 0 ∧ (1:ℚ) * 1 * 1 + (-1) * 1 + 0 = 0 := by norm_num

/-- **Soundness of the root computation, all branches.**  Every returned `t` is in `[0, 1]` and
is a root of `a t² + b t + c`. -/
theorem quad_solve_sound (hsq : ∀ x : K, 0 ≤ x → Transc.sqrt x * Transc.sqrt x = x) (a b c : K)
    (t : K) (ht : t ∈ Quad.solve a b c) : 0 ≤ t ∧ t ≤ 1 ∧ a * t * t + b * t + c = 0 := by
  by_cases ha : a = 0
  · subst ha
    by_cases hb : b = 0
    · subst hb; rw [quad_solve_degenerate] at ht; cases ht
    · rw [quad_solve_linear b c hb] at ht
      split at ht
      · rename_i hu
        rw [List.mem_singleton] at ht
        subst ht
        refine ⟨hu.1, hu.2, ?_⟩
        rw [zero_mul, zero_mul, zero_add, mul_div_cancel₀ _ hb]; ring
      · cases ht
  · exact quad_solve_sound_quadratic hsq a b c ha t ht

/-- **Soundness of `line_intersections_t` (full strength, all branches)**: every returned
parameter is in `[0,1]` and its point lies on the line. -/
theorem quad_line_roots_sound
    (hsq : ∀ x : K, 0 ≤ x → Transc.sqrt x * Transc.sqrt x = x)
    (hs0 : ∀ x : K, 0 < x → Transc.sqrt x ≠ 0)
    (q : Quad K) (l : Line K) (t : K) (ht : t ∈ q.lineIntersectionsT l) :
    0 ≤ t ∧ t ≤ 1 ∧ l.vector.cross (q.sample t - l.point) = 0 := by
  unfold Quad.lineIntersectionsT at ht
  by_cases hv : (l.vector.x == (Scalar.zero : K) && l.vector.y == (Scalar.zero : K)) = true
  · rw [if_pos hv] at ht; cases ht
  · rw [if_neg hv] at ht
    obtain ⟨h0, h1, hr⟩ := quad_solve_sound hsq _ _ _ t ht
    refine ⟨h0, h1, ?_⟩
    rw [quad_line_poly] at hr
    have hpos : 0 < -l.vector.y * -l.vector.y + l.vector.x * l.vector.x := by
      rw [Bool.and_eq_true, beq_zero_iff, beq_zero_iff] at hv
      by_contra hn
      have e : -l.vector.y * -l.vector.y + l.vector.x * l.vector.x = 0 :=
        le_antisymm (not_lt.mp hn) (add_nonneg (mul_self_nonneg _) (mul_self_nonneg _))
      have hy : -l.vector.y * -l.vector.y = 0 := by
        linarith [mul_self_nonneg (-l.vector.y), mul_self_nonneg l.vector.x]
      have hx : l.vector.x * l.vector.x = 0 := by
        linarith [mul_self_nonneg (-l.vector.y), mul_self_nonneg l.vector.x]
      exact hv ⟨mul_self_eq_zero.mp hx, neg_eq_zero.mp (mul_self_eq_zero.mp hy)⟩
    exact (line_equation_iff l _ (hs0 _ hpos)).mp hr

/-- completeness, quadratic branch (`a ≠ 0`): every root in `[0,1]` is returned -/
theorem quad_solve_complete_quadratic (hsq : ∀ x : K, 0 ≤ x → Transc.sqrt x * Transc.sqrt x = x)
    (hs0 : ∀ x : K, 0 ≤ x → 0 ≤ Transc.sqrt x) (a b c t : K) (ha : a ≠ 0)
    (h0 : 0 ≤ t) (h1 : t ≤ 1) (hroot : a * t * t + b * t + c = 0) : t ∈ Quad.solve a b c := by
  unfold Quad.solve
  have ha' : ¬ (a == (Scalar.zero : K)) = true := fun h => ha ((beq_zero_iff _).mp h)
  have hz : (Scalar.zero : K) = 0 := by simp [Scalar.zero]
  have hu : inUnit t = true := (inUnit_iff t).mpr ⟨h0, h1⟩
  have hΔ : Quad.qDelta a b c = b * b - 4 * a * c := by simp only [geom, Nat.cast_ofNat]
  have hΔ' : Quad.qDelta a b c = (2 * a * t + b) * (2 * a * t + b) := by
    rw [hΔ]; linear_combination (-4 * a) * hroot
  have hd : Quad.qDelta a b c ≥ (Scalar.zero : K) := by rw [hz, hΔ']; exact mul_self_nonneg _
  rw [if_neg ha', if_pos hd]
  rw [hz] at hd
  have r1 := qT1_root hsq a b c ha hd
  have hr := hsq _ hd
  have hr0 := hs0 _ hd
  have h : Quad.qT1 a b c * (2 * a) = -b + -(Sgn.signum b) * Transc.sqrt (Quad.qDelta a b c) := by
    unfold Quad.qT1
    simp only [geom, Nat.cast_ofNat]
    exact div_mul_cancel₀ _ (mul_ne_zero two_ne_zero ha)
  by_cases h10 : (Quad.qT1 a b c == (Scalar.zero : K)) = true
  · rw [if_pos h10, List.mem_singleton]
    have e1 : Quad.qT1 a b c = 0 := (beq_zero_iff _).mp h10
    rw [e1, zero_mul] at h
    -- b = 0 and sqrt Δ = 0
    have hb : b = 0 ∧ Transc.sqrt (Quad.qDelta a b c) = 0 := by
      rcases lt_or_ge b 0 with hb | hb
      · rw [sgn_neg hb] at h
        exfalso
        have : Transc.sqrt (Quad.qDelta a b c) = b := by linear_combination -h
        linarith
      · rw [sgn_nonneg hb] at h
        have : Transc.sqrt (Quad.qDelta a b c) = -b := by linear_combination h
        constructor <;> linarith
    have hc : c = 0 := by
      have : Quad.qDelta a b c = 0 := by rw [← hr, hb.2, zero_mul]
      rw [hΔ, hb.1] at this
      have h4 : 4 * a * c = 0 := by linear_combination -this
      rcases mul_eq_zero.mp h4 with h' | h'
      · exact absurd h' (mul_ne_zero four_ne_zero ha)
      · exact h'
    rw [hb.1, hc] at hroot
    have : a * (t * t) = 0 := by linear_combination hroot
    rcases mul_eq_zero.mp this with h' | h'
    · exact absurd h' ha
    · rw [e1]; exact mul_self_eq_zero.mp h'
  · rw [if_neg h10]
    have h1' : Quad.qT1 a b c ≠ 0 := fun h => h10 ((beq_zero_iff _).mpr h)
    have h2 : Quad.qT2 a b c * (a * Quad.qT1 a b c) = c := by
      unfold Quad.qT2
      exact div_mul_cancel₀ _ (mul_ne_zero ha h1')
    have key : t = Quad.qT1 a b c ∨ t = Quad.qT2 a b c := by
      by_cases e : t = Quad.qT1 a b c
      · exact Or.inl e
      · right
        have hne : t - Quad.qT1 a b c ≠ 0 := sub_ne_zero.mpr e
        apply mul_left_cancel₀ (mul_ne_zero (mul_ne_zero ha h1') hne)
        linear_combination (Quad.qT1 a b c) * hroot - (Quad.qT1 a b c) * r1
          - (t - Quad.qT1 a b c) * r1 - (t - Quad.qT1 a b c) * h2
    by_cases hsw : Quad.qT1 a b c > Quad.qT2 a b c
    · rw [if_pos hsw]; exact mem_qPush_of _ _ _ hu key.symm
    · rw [if_neg hsw]; exact mem_qPush_of _ _ _ hu key

/-- **Completeness of the root computation, all branches**: unless `a = b = 0` (constant distance:
no isolated crossing), every root in `[0,1]` is returned. -/
theorem quad_solve_complete (hsq : ∀ x : K, 0 ≤ x → Transc.sqrt x * Transc.sqrt x = x)
    (hs0 : ∀ x : K, 0 ≤ x → 0 ≤ Transc.sqrt x) (a b c t : K) (hab : ¬ (a = 0 ∧ b = 0))
    (h0 : 0 ≤ t) (h1 : t ≤ 1) (hroot : a * t * t + b * t + c = 0) : t ∈ Quad.solve a b c := by
  by_cases ha : a = 0
  · subst ha
    have hb : b ≠ 0 := fun h => hab ⟨rfl, h⟩
    have ht : t = -c / b := by
      rw [eq_div_iff hb]; linear_combination hroot
    rw [quad_solve_linear b c hb, ← ht, if_pos ⟨h0, h1⟩]
    exact List.mem_singleton.mpr rfl
  · exact quad_solve_complete_quadratic hsq hs0 a b c t ha h0 h1 hroot

/-- **Completeness of `line_intersections_t` (all branches)**: a parameter in `[0,1]` whose point
lies on the line is returned, unless the curve keeps a constant distance to the line. -/
theorem quad_line_roots_complete (hsq : ∀ x : K, 0 ≤ x → Transc.sqrt x * Transc.sqrt x = x)
    (hs0 : ∀ x : K, 0 ≤ x → 0 ≤ Transc.sqrt x) (hs1 : ∀ x : K, 0 < x → Transc.sqrt x ≠ 0)
    (q : Quad K) (l : Line K) (hv : ¬ (l.vector.x = 0 ∧ l.vector.y = 0))
    (ha : ¬ (q.liA l.equation = 0 ∧ q.liB l.equation = 0)) (t : K) (h0 : 0 ≤ t) (h1 : t ≤ 1)
    (hon : l.vector.cross (q.sample t - l.point) = 0) : t ∈ q.lineIntersectionsT l := by
  unfold Quad.lineIntersectionsT
  have hv' : ¬ (l.vector.x == (Scalar.zero : K) && l.vector.y == (Scalar.zero : K)) = true := by
    rw [Bool.and_eq_true, beq_zero_iff, beq_zero_iff]; exact hv
  rw [if_neg hv']
  have hpos : 0 < -l.vector.y * -l.vector.y + l.vector.x * l.vector.x := by
    by_contra hn
    have hy : -l.vector.y * -l.vector.y = 0 := by
      linarith [mul_self_nonneg (-l.vector.y), mul_self_nonneg l.vector.x]
    have hx : l.vector.x * l.vector.x = 0 := by
      linarith [mul_self_nonneg (-l.vector.y), mul_self_nonneg l.vector.x]
    exact hv ⟨mul_self_eq_zero.mp hx, neg_eq_zero.mp (mul_self_eq_zero.mp hy)⟩
  apply quad_solve_complete hsq hs0 _ _ _ t ha h0 h1
  rw [quad_line_poly]
  exact (line_equation_iff l _ (hs1 _ hpos)).mpr hon

/-- discriminant-zero case of the quadratic branch: exactly one parameter is returned when the
double root lies in `[0,1]` (the code's `t1 != t2` test removes the copy) -/
theorem quad_solve_double_root (hsq : ∀ x : K, 0 ≤ x → Transc.sqrt x * Transc.sqrt x = x)
    (hs0 : ∀ x : K, 0 ≤ x → 0 ≤ Transc.sqrt x) (a b c : K) (ha : a ≠ 0)
    (hd : Quad.qDelta a b c = 0) (t : K) (ht : t ∈ Quad.solve a b c) : t = -b / (2 * a) := by
  obtain ⟨_, _, hr⟩ := quad_solve_sound hsq a b c t ht
  have hΔ : Quad.qDelta a b c = b * b - 4 * a * c := by simp only [geom, Nat.cast_ofNat]
  rw [hΔ] at hd
  have h2 : (2 * a * t + b) * (2 * a * t + b) = 0 := by linear_combination (4 * a) * hr + hd
  have h3 : 2 * a * t + b = 0 := mul_self_eq_zero.mp h2
  rw [eq_div_iff (mul_ne_zero two_ne_zero ha)]
  linear_combination h3

/- Former witnesses of the linear-branch sign defect (repaired by lyon commit 37d6f3b8, "t = -c/b"):
   parabola (0,0) (1,1) (2,0) against the vertical line x = -1/2 returned [1/4], whose point
   (1/2, 3/8) is not on the line; against x = 1/2 it returned [] although t = 1/4 is a crossing.
   Both were machine-checked here as `quad_line_linear_witness_unsound/_incomplete` while the
   defect existed; `quad_solve_sound`/`quad_solve_complete` now cover the branch. -/

end quad

/-! ### `cubic_polynomial_roots` and cubic × line (partial)

Proved: the linear and quadratic sub-branches (taken when `|a| < epsilon`) return roots of the
TRUNCATED polynomial, hence of the cubic when `a = 0`.  Since lyon commit 6fcbec49 the first root of the one-real-root Cardano branch is proved as well
(`cubic_roots_sound_partial_cardano`).  Missing (named gap): the optional "repeated root" value
and the trigonometric branch (`acos`, `cos` laws); the tie and the oracle cover them.  Former
defects of this function (`cardano-double-root-eps`, `cardano-cancellation`) are recorded as
fixed findings with their witnesses. -/

section cubic
variable [Transc K] [Eps K]

theorem cubic_roots_sound_partial_linear (e a b c d x : K) (he : 0 < e) (ha : |a| < e) (hb : |b| < e)
    (hx : x ∈ Roots.rootsWith e a b c d) : c * x + d = 0 ∧ a * x * x * x + b * x * x + c * x + d = a * x * x * x + b * x * x := by
  unfold Roots.rootsWith at hx
  rw [if_pos (by rw [sc_abs]; exact ha), if_pos (by rw [sc_abs]; exact hb)] at hx
  by_cases hc : Scalar.abs c < e
  · rw [if_pos hc] at hx; cases hx
  · rw [if_neg hc, List.mem_singleton] at hx
    rw [sc_abs, not_lt] at hc
    have hc0 : c ≠ 0 := by
      intro h; rw [h, abs_zero] at hc; exact absurd he (not_lt.mpr hc)
    have h1 : c * x + d = 0 := by
      rw [hx]; field_simp; ring
    exact ⟨h1, by linear_combination h1⟩

theorem cubic_roots_sound_partial_quadratic (hsq : ∀ x : K, 0 ≤ x → Transc.sqrt x * Transc.sqrt x = x)
    (e a b c d x : K) (he : 0 < e) (ha : |a| < e) (hb : ¬ |b| < e) (hΔ : 0 < Roots.qdelta b c d)
    (hx : x ∈ Roots.rootsWith e a b c d) :
    b * x * x + c * x + d = 0 ∧ a * x * x * x + b * x * x + c * x + d = a * x * x * x := by
  unfold Roots.rootsWith at hx
  rw [if_pos (by rw [sc_abs]; exact ha), if_neg (by rw [sc_abs]; exact hb)] at hx
  unfold Roots.quadratic at hx
  have hz : (Scalar.zero : K) = 0 := by simp [Scalar.zero]
  rw [if_pos (by rw [hz]; exact hΔ)] at hx
  have hb0 : b ≠ 0 := by
    intro h; apply hb; rw [h, abs_zero]; exact he
  have hr := hsq _ hΔ.le
  have hΔe : Roots.qdelta b c d = c * c - 4 * b * d := by simp only [geom, Nat.cast_ofNat]
  have hr2 := hr.trans hΔe
  have h2b : (Scalar.two : K) * b ≠ 0 := by
    simp only [geom, Nat.cast_ofNat]; exact mul_ne_zero two_ne_zero hb0
  have h2 : (Scalar.two : K) = 2 := by simp only [geom, Nat.cast_ofNat]
  have key : b * x * x + c * x + d = 0 := by
    rw [List.mem_cons, List.mem_singleton] at hx
    rcases hx with hx | hx
    · have h : x * (2 * b) = -c - Transc.sqrt (Roots.qdelta b c d) := by
        rw [hx, ← h2]; exact div_mul_cancel₀ _ h2b
      set r := Transc.sqrt (Roots.qdelta b c d)
      apply mul_left_cancel₀ (mul_ne_zero (four_ne_zero (α := K)) hb0)
      linear_combination (x * (2 * b) + (-c - r) + 2 * c) * h + hr2
    · have h : x * (2 * b) = -c + Transc.sqrt (Roots.qdelta b c d) := by
        rw [hx, ← h2]; exact div_mul_cancel₀ _ h2b
      set r := Transc.sqrt (Roots.qdelta b c d)
      apply mul_left_cancel₀ (mul_ne_zero (four_ne_zero (α := K)) hb0)
      linear_combination (x * (2 * b) + (-c + r) + 2 * c) * h + hr2
  exact ⟨key, by linear_combination key⟩

/-! #### The repaired Cardano branch (one real root), lyon commit 6fcbec49

With `s·t = −δ0` holding by construction, the first value pushed in the branch `δ0³ + δ1² ≥ 0`
is a root.  Laws used (hypotheses): `sqrt x ≥ 0` and `sqrt x · sqrt x = x` for `x ≥ 0`;
`(pow x (1/3))³ = x` for `x ≥ 0` (so that `signum x · pow |x| (1/3)` is a cube root of `x`). -/

/-- Cardano's identity with the product relation: if `O·B = −δ0`, `B³ = δ1 + ρ` and
`ρ² = δ0³ + δ1²`, then `y = B + O` solves the depressed cubic `y³ + 3δ0·y − 2δ1 = 0`. -/
theorem cardano_alg (B O d0 d1 ρ : K) (hB : B ≠ 0) (h1 : O * B = -d0) (h2 : B ^ 3 = d1 + ρ)
    (h3 : ρ * ρ = d0 ^ 3 + d1 * d1) : (B + O) ^ 3 + 3 * d0 * (B + O) - 2 * d1 = 0 := by
  apply mul_left_cancel₀ (pow_ne_zero 3 hB)
  linear_combination (B ^ 3 + ρ - d1) * h2 + h3
    + ((O * B + d0) ^ 2 - 3 * (O * B + d0) * d0 + 3 * d0 ^ 2 + 3 * B ^ 3 * (B + O)) * h1

/-- `x.signum() * |x|.powf(1/3)` cubes back to `x` -/
theorem cbrtS_cube (hpow : ∀ x : K, 0 ≤ x → Transc.pow x (Roots.frac13 : K) ^ 3 = x) (x : K) :
    Roots.cbrtS x ^ 3 = x := by
  unfold Roots.cbrtS
  rw [sc_abs, mul_pow, hpow _ (abs_nonneg x)]
  have h := sgn_sq x
  have h2 := sgn_mul_abs x
  calc Sgn.signum x ^ 3 * |x| = (Sgn.signum x * Sgn.signum x) * (Sgn.signum x * |x|) := by ring
    _ = x := by rw [h, h2, one_mul]

/-- `s + t` of the repaired code solves the depressed cubic -/
theorem cardano_sum_root (hs0 : ∀ x : K, 0 ≤ x → 0 ≤ Transc.sqrt x)
    (hsq : ∀ x : K, 0 ≤ x → Transc.sqrt x * Transc.sqrt x = x)
    (hpow : ∀ x : K, 0 ≤ x → Transc.pow x (Roots.frac13 : K) ^ 3 = x)
    (d0 d1 : K) (hΔ : 0 ≤ Roots.delta01 d0 d1) :
    (Roots.cS d0 d1 + Roots.cT d0 d1) ^ 3 + 3 * d0 * (Roots.cS d0 d1 + Roots.cT d0 d1) - 2 * d1 = 0 := by
  have hz : (Scalar.zero : K) = 0 := by simp [Scalar.zero]
  have hsum : Roots.cS d0 d1 + Roots.cT d0 d1 = Roots.cBig d0 d1 + Roots.cOther d0 d1 := by
    unfold Roots.cS Roots.cT
    split
    · rfl
    · exact add_comm _ _
  rw [hsum]
  have hr := hsq _ hΔ
  have hr0 := hs0 _ hΔ
  have hΔe : Roots.delta01 d0 d1 = d0 ^ 3 + d1 * d1 := by unfold Roots.delta01; ring
  -- B³ = δ1 + ρ with ρ = ±sqrt Δ
  obtain ⟨ρ, hρ, hB3, hzero⟩ : ∃ ρ : K, ρ * ρ = d0 ^ 3 + d1 * d1 ∧ Roots.cBig d0 d1 ^ 3 = d1 + ρ
      ∧ (d1 + ρ = 0 → d1 = 0 ∧ ρ = 0) := by
    unfold Roots.cBig
    by_cases h : d1 ≥ (Scalar.zero : K)
    · rw [if_pos h]
      rw [hz] at h
      refine ⟨Transc.sqrt (Roots.delta01 d0 d1), by rw [hr, hΔe], cbrtS_cube hpow _, ?_⟩
      intro h0; constructor <;> linarith
    · rw [if_neg h]
      rw [hz, ge_iff_le, not_le] at h
      refine ⟨-Transc.sqrt (Roots.delta01 d0 d1), by rw [neg_mul_neg, hr, hΔe], ?_, ?_⟩
      · rw [cbrtS_cube hpow]; ring
      · intro h0; exfalso; linarith
  by_cases hB : Roots.cBig d0 d1 = 0
  · have hO : Roots.cOther d0 d1 = 0 := by
      unfold Roots.cOther; rw [if_pos ((beq_zero_iff _).mpr hB)]; exact hz
    rw [hB] at hB3
    have h0 : d1 + ρ = 0 := by rw [← hB3]; ring
    obtain ⟨e1, e2⟩ := hzero h0
    rw [hB, hO, e1]; ring
  · have hO : Roots.cOther d0 d1 * Roots.cBig d0 d1 = -d0 := by
      unfold Roots.cOther
      rw [if_neg (fun h => hB ((beq_zero_iff _).mp h))]
      exact div_mul_cancel₀ _ hB
    exact cardano_alg _ _ d0 d1 ρ hB hO hB3 hρ

/-- substitution `x = y − bn/3`: the normalised cubic in `x` is the depressed cubic in `y` -/
theorem depressed_eq (bn cn dn y : K) :
    (-bn * Roots.frac13 + y) ^ 3 + bn * (-bn * Roots.frac13 + y) ^ 2 + cn * (-bn * Roots.frac13 + y) + dn
      = y ^ 3 + 3 * Roots.delta0 bn cn * y - 2 * Roots.delta1 bn cn dn := by
  simp only [geom, Nat.cast_ofNat, Nat.cast_one]
  ring

/-- **Soundness of the repaired one-real-root branch (partial)**: when `|a| ≥ ε` and
`δ0³ + δ1² ≥ 0`, the FIRST value returned by `cubic_polynomial_roots` is a root of
`a x³ + b x² + c x + d`.  Partial: the optional second value (the "repeated root", exact only when
`s = t`) and the trigonometric branch (`acos`/`cos` laws) are not covered. -/
theorem cubic_roots_sound_partial_cardano (hs0 : ∀ x : K, 0 ≤ x → 0 ≤ Transc.sqrt x)
    (hsq : ∀ x : K, 0 ≤ x → Transc.sqrt x * Transc.sqrt x = x)
    (hpow : ∀ x : K, 0 ≤ x → Transc.pow x (Roots.frac13 : K) ^ 3 = x)
    (e a b c d : K) (he : 0 < e) (ha : ¬ |a| < e)
    (hΔ : 0 ≤ Roots.delta01 (Roots.delta0 (b / a) (c / a)) (Roots.delta1 (b / a) (c / a) (d / a))) :
    ∃ x rest, Roots.rootsWith e a b c d = x :: rest ∧ a * x ^ 3 + b * x ^ 2 + c * x + d = 0 := by
  have hz : (Scalar.zero : K) = 0 := by simp [Scalar.zero]
  have ha0 : a ≠ 0 := by
    intro h; apply ha; rw [h, abs_zero]; exact he
  unfold Roots.rootsWith
  rw [if_neg (by rw [sc_abs]; exact ha)]
  unfold Roots.cardano
  rw [if_pos (by rw [hz]; exact hΔ)]
  unfold Roots.cardano1
  refine ⟨_, _, List.singleton_append, ?_⟩
  have h := cardano_sum_root hs0 hsq hpow _ _ hΔ
  have hd := depressed_eq (b / a) (c / a) (d / a)
    (Roots.cS (Roots.delta0 (b / a) (c / a)) (Roots.delta1 (b / a) (c / a) (d / a))
      + Roots.cT (Roots.delta0 (b / a) (c / a)) (Roots.delta1 (b / a) (c / a) (d / a)))
  rw [h] at hd
  set x := -(b / a) * Roots.frac13
    + (Roots.cS (Roots.delta0 (b / a) (c / a)) (Roots.delta1 (b / a) (c / a) (d / a))
      + Roots.cT (Roots.delta0 (b / a) (c / a)) (Roots.delta1 (b / a) (c / a) (d / a)))
  have e1 : a * x ^ 3 + b * x ^ 2 + c * x + d = a * (x ^ 3 + b / a * x ^ 2 + c / a * x + d / a) := by
    field_simp
  rw [e1, hd, mul_zero]

/-- non-vacuity: `x³ − 1` has `δ0 = 0`, `δ1 = 1/2`, `δ0³ + δ1² = 1/4 ≥ 0` -/
example : (0:ℚ) ≤ 0 * 0 * 0 + (1/2) * (1/2) := by norm_num

/-- the polynomial handed to the root finder vanishes exactly at the parameters whose point lies
on the line (no normalisation here: `cross(vector, p - point)` itself) -/
theorem cubic_line_poly (c : Cubic K) (l : Line K) (t : K) :
    c.liCoefA l * t * t * t + c.liCoefB l * t * t + c.liCoefC l * t + c.liCoefD l
      = -(l.vector.cross (c.sample t - l.point)) := by
  simp only [geom, Nat.cast_one, Nat.cast_ofNat]; ring

/-- every parameter returned by the cubic × line query is in `[0,1]` (range only; "on the line"
holds in the sub-branches above, not in general) -/
theorem cubic_line_roots_in_range (c : Cubic K) (l : Line K) (t : K) (ht : t ∈ c.lineIntersectionsT l) :
    0 ≤ t ∧ t ≤ 1 := by
  unfold Cubic.lineIntersectionsT at ht
  split at ht
  · cases ht
  · split at ht
    · cases ht
    · unfold Cubic.lineRoots at ht
      exact (inUnit_iff t).mp (List.mem_filter.mp ht).2

/-- in a field every length is finite: the query is "normalise, then solve", with the single
exception of a zero length -/
theorem cubic_line_unfold (hfin : ∀ x : K, Transc.isFinite x = true) (c : Cubic K) (l : Line K) :
    c.lineIntersectionsT l = if Cubic.lineLen l = 0 then [] else c.lineRoots (Cubic.unitLine l) := by
  unfold Cubic.lineIntersectionsT
  by_cases h : Cubic.lineLen l = 0
  · rw [if_pos ((beq_zero_iff _).mpr h), if_pos h]
  · rw [if_neg (fun hh => h ((beq_zero_iff _).mp hh)), if_neg h, hfin]
    simp

/-- for a non-zero length the polynomial solved for the normalised line vanishes exactly at the
parameters whose point lies on the ORIGINAL line -/
theorem cubic_line_unit_on_line (c : Cubic K) (l : Line K) (t : K) (h : Cubic.lineLen l ≠ 0) :
    c.liCoefA (Cubic.unitLine l) * t * t * t + c.liCoefB (Cubic.unitLine l) * t * t
        + c.liCoefC (Cubic.unitLine l) * t + c.liCoefD (Cubic.unitLine l) = 0
      ↔ l.vector.cross (c.sample t - l.point) = 0 := by
  rw [cubic_line_poly, neg_eq_zero]
  have e : (Cubic.unitLine l).vector.cross (c.sample t - (Cubic.unitLine l).point)
      = l.vector.cross (c.sample t - l.point) / Cubic.lineLen l := by
    simp only [Cubic.unitLine, P.cross, P.sdiv, P.sub_def]
    field_simp
  rw [e, div_eq_zero_iff]
  constructor
  · rintro (h' | h')
    · exact h'
    · exact absurd h' h
  · intro h'; exact Or.inl h'

theorem sqrt_mul_sq (hs0 : ∀ x : K, 0 ≤ x → 0 ≤ Transc.sqrt x)
    (hsq : ∀ x : K, 0 ≤ x → Transc.sqrt x * Transc.sqrt x = x) (k L : K) (hk : 0 ≤ k) (hL : 0 ≤ L) :
    Transc.sqrt (k * k * L) = k * Transc.sqrt L := by
  have hkL : 0 ≤ k * k * L := mul_nonneg (mul_nonneg hk hk) hL
  have h1 := hsq _ hkL
  have h2 := hsq _ hL
  have ha := hs0 _ hkL
  have hb : 0 ≤ k * Transc.sqrt L := mul_nonneg hk (hs0 _ hL)
  have : (Transc.sqrt (k * k * L)) ^ 2 = (k * Transc.sqrt L) ^ 2 := by
    rw [pow_two, h1, mul_pow, pow_two (Transc.sqrt L), h2]; ring
  exact (sq_eq_sq₀ ha hb).mp this

/-- a zero direction vector does not define a line: nothing is returned -/
theorem cubic_line_zero_vector_none (hsq : ∀ x : K, 0 ≤ x → Transc.sqrt x * Transc.sqrt x = x)
    (c : Cubic K) (l : Line K) (hx : l.vector.x = 0) (hy : l.vector.y = 0) :
    c.lineIntersectionsT l = [] := by
  have h0 : Cubic.lineLen l = 0 := by
    unfold Cubic.lineLen
    have e : l.vector.sqLen = 0 := by simp only [P.sqLen, hx, hy]; ring
    rw [e]
    exact mul_self_eq_zero.mp (hsq 0 (le_refl _))
  unfold Cubic.lineIntersectionsT
  rw [if_pos ((beq_zero_iff _).mpr h0)]

/-- **The result does not depend on the (positive) length of the line's direction vector**
(true since lyon commit ba950a71; before it every line with `|vector|² < EPSILON` got the answer
"no intersection": witness cubic (0,0) (1,2) (2,-2) (3,0), line through (3/2,0) with vector
(0,1/200), crossing at t = 1/2 — formerly `cubic_line_short_vector_witness`). -/
theorem cubic_line_scale_invariant (hs0 : ∀ x : K, 0 ≤ x → 0 ≤ Transc.sqrt x)
    (hsq : ∀ x : K, 0 ≤ x → Transc.sqrt x * Transc.sqrt x = x)
    (hfin : ∀ x : K, Transc.isFinite x = true) (c : Cubic K) (l : Line K) (k : K) (hk : 0 < k) :
    c.lineIntersectionsT ⟨l.point, l.vector.smul k⟩ = c.lineIntersectionsT l := by
  have hL : 0 ≤ l.vector.sqLen := by
    simp only [P.sqLen]; exact add_nonneg (mul_self_nonneg _) (mul_self_nonneg _)
  have e1 : (l.vector.smul k).sqLen = k * k * l.vector.sqLen := by
    simp only [P.sqLen, P.smul]; ring
  have hlen : Cubic.lineLen ⟨l.point, l.vector.smul k⟩ = k * Cubic.lineLen l := by
    unfold Cubic.lineLen
    rw [e1]
    exact sqrt_mul_sq hs0 hsq k _ hk.le hL
  rw [cubic_line_unfold hfin, cubic_line_unfold hfin, hlen]
  by_cases h0 : Cubic.lineLen l = 0
  · rw [if_pos h0, if_pos (by rw [h0, mul_zero])]
  · rw [if_neg h0, if_neg (mul_ne_zero hk.ne' h0)]
    have eu : Cubic.unitLine ⟨l.point, l.vector.smul k⟩ = Cubic.unitLine l := by
      unfold Cubic.unitLine
      rw [hlen]
      simp only [P.smul, P.sdiv, Line.mk.injEq, P.mk.injEq, true_and]
      have hk' := hk.ne'
      constructor <;> field_simp
    rw [eu]

/-- non-vacuity: `k = 1/200 > 0` (the former witness's scaling) -/
example : (0:ℚ) < 1 / 200 := by norm_num

end cubic

end Lyon.C12
