/-
  C16, fifth part — with the concrete flatteners of lyon_geom (`Model/Path/AdaptersConcrete.lean`):

  1. `flatten_cubic_within_tolerance_concrete`: the tolerance clause for every CUBIC of a
     flattened path, from C09b: the adapter emits, for the cubic event `(a, c1, c2, b)` of the
     original path (a = the true previous endpoint), lyon_geom's flattening `l` of that cubic at
     the adapter's tolerance, and
       * PROVED (no hypothesis on the curve): the quadratic pieces `for_each_quadratic_bezier`
         chooses are each within `0.4·tol` of the cubic over their range and cover `[0, 1]`
         (`cubic_quads_within_split_tolerance`; laws `CubicLaws`, count below 2³²);
       * REMAINING hypothesis, exactly one: each quadratic piece's own flattening at `0.6·tol` is
         within `tolq` of the piece (`hq`) — then every point of the cubic is within
         `tolq + 0.4·tol` of `l`; or, per input, the verified certificate `Cubic.flatCert tol`
         `≤ k²` — then within `k·0.6·tol + 0.4·tol` (`k = 1`: the property's clause).  `hq` with
         `tolq = 0.6·tol` is C09's named gap (Levien's step estimate, finding approx-integral).
     ARCS do not occur in `PathBuilder` programs (begin / line / quadratic / cubic / end only).
     `SvgPathBuilder::arc_to` / `relative_arc_to` (`WithSvg`) turn an SVG arc into QUADRATICS
     (`Arc::for_each_quadratic_bezier`) before the wrapped builder sees anything, and
     `add_circle` / `add_ellipse` / `add_rounded_rectangle` into cubics (`Props/C16d.lean`), so
     through `Flattened` an arc is covered by `flatten_within_tolerance_concrete` /
     this theorem for those curves — relative to the quadratics/cubics, NOT to the true arc: the
     arc → Bézier approximation error is not controlled by the flattening tolerance (C15/C09b).
  2. `flatten_keeps_endpoints_concrete_any`: the builder-side endpoint statement for EVERY scalar
     type with `1 == 1` and ALL programs, cubics included, under the per-curve hypothesis
     `cubic.sample(1) = cubic.to` in that scalar type (`cubicSampleOk`; a theorem in every field:
     `cubicSampleOk_field`, so this generalises `flatten_keeps_endpoints_concrete`).
  3. `flatten_transform_reflection_concrete`: orientation-REVERSING similarities (mirror images):
     `Transformed` then `Flattened` at `s·tol` = `Flattened` at `tol` then `Transformed`, call for
     call, provided the sign test `(parabola_from < 0) == (parabola_to < 0)` of
     `FlatteningParameters::new` is symmetric for every quadratic met (`reflGenericRun`: it is
     unless exactly one of the two parameters is 0).  At 0 it is not:
     `flatten_reflection_asymmetric_at_zero` (the two count estimates), observed in f32 on
     `from (0,0) ctrl (1,0) to (2,±1)` at tolerance 0.0573: 2 segments vs 3 for the mirror image.
  4. `quad_t_increasing_kernel_instance`, `cubic_t_increasing_kernel_instance`: the
     t-monotonicity theorems applied to flattenings COMPUTED IN THE KERNEL (4 resp. 8 callbacks)
     with computable non-field functions satisfying the assumed laws.
-/
import LyonVerif.Props.C16c
import LyonVerif.Lemmas.AdaptersConcreteTol
import LyonVerif.Lemmas.AdaptersConcreteCbAny
import LyonVerif.Lemmas.AdaptersConcreteSimNeg
import LyonVerif.Lemmas.AdaptersConcreteKernel
import LyonVerif.Lemmas.AdaptersConcreteReal

set_option linter.unusedSectionVars false
set_option linter.unusedVariables false

namespace Lyon.C16
open Lyon Lyon.Path Lyon.Adapt Scalar Lyon.Flat

/-! ## 1. Cubics of a path: tolerance -/

section field
variable {K : Type} [Field K] [LinearOrder K] [IsStrictOrderedRing K] [Transc K] [FlatConst K]

theorem flatten_cubic_within_tolerance_concrete (L : CubicLaws K) (tol : K)
    (htol : 0 < tol * FlatConst.value 4 1) (o : P K) (n : Nat)
    (prog out : List (Call (P K) (List K))) (hn : WellNested prog)
    (h : flatBuilderC tol o n prog = some out) (a c1 c2 b : P K)
    (hev : Event.cubic a c1 c2 b ∈ specEvents prog)
    (hlt : (⟨a, c1, c2, b⟩ : Cubic K).numQuadraticsImpl (tol * FlatConst.value 4 1) < 4294967296) :
    ∃ l : List (FlatSeg K), Cubic.forEachFlattenedWithT ⟨a, c1, c2, b⟩ tol = some l ∧
      (cbPoints (cbModel tol)).cubic a c1 c2 b = l.map (·.b) ∧
      -- the split into quadratics: proved
      ((∀ p ∈ (⟨a, c1, c2, b⟩ : Cubic K).forEachQuadraticWithT (tol * FlatConst.value 4 1),
          ∀ u : K, 0 ≤ u → u ≤ 1 →
          ((⟨a, c1, c2, b⟩ : Cubic K).sample (p.2.1 + u * (p.2.2 - p.2.1)) - p.1.sample u).sqLen
            ≤ (tol * FlatConst.value 4 1) * (tol * FlatConst.value 4 1)) ∧
       (∀ t : K, 0 ≤ t → t ≤ 1 →
          ∃ p ∈ (⟨a, c1, c2, b⟩ : Cubic K).forEachQuadraticWithT (tol * FlatConst.value 4 1),
          ∃ u : K, 0 ≤ u ∧ u ≤ 1 ∧ t = p.2.1 + u * (p.2.2 - p.2.1))) ∧
      -- given the per-quadratic bound `tolq`: the whole cubic within `tolq + 0.4·tol`
      (∀ tolq : K, 0 ≤ tolq →
        (∀ p ∈ (⟨a, c1, c2, b⟩ : Cubic K).forEachQuadraticWithT (tol * FlatConst.value 4 1), ∀ lq,
          p.1.forEachFlattenedWithT (tol * FlatConst.value 6 1) = some lq →
          ∀ u : K, 0 ≤ u → u ≤ 1 → ∃ sg ∈ lq, ∃ s : K, 0 ≤ s ∧ s ≤ 1 ∧
            (p.1.sample u - sg.a.lerp sg.b s).sqLen ≤ tolq * tolq) →
        ∀ t : K, 0 ≤ t → t ≤ 1 → ∃ sg ∈ l, ∃ s : K, 0 ≤ s ∧ s ≤ 1 ∧
          ((⟨a, c1, c2, b⟩ : Cubic K).sample t - sg.a.lerp sg.b s).sqLen
            ≤ (tolq + tol * FlatConst.value 4 1) * (tolq + tol * FlatConst.value 4 1)) ∧
      -- given the verified certificate: within `k·0.6·tol + 0.4·tol`
      (∀ k : K, 0 ≤ k → 0 < tol * FlatConst.value 6 1 → ∀ r : Bool × K,
        (⟨a, c1, c2, b⟩ : Cubic K).flatCert tol = some r → r.2 ≤ k * k →
        ∀ t : K, 0 ≤ t → t ≤ 1 → ∃ sg ∈ l, ∃ s : K, 0 ≤ s ∧ s ≤ 1 ∧
          ((⟨a, c1, c2, b⟩ : Cubic K).sample t - sg.a.lerp sg.b s).sqLen
            ≤ (k * (tol * FlatConst.value 6 1) + tol * FlatConst.value 4 1)
              * (k * (tol * FlatConst.value 6 1) + tol * FlatConst.value 4 1)) := by
  have hok : cbOkRun tol o prog = true := by
    unfold flatBuilderC at h
    split at h
    · assumption
    · cases h
  have hp : cbOkPlain tol (specEvents prog) = true :=
    cbOkPlain_of_run tol none o prog hn (by intro f c h; cases h) hok
  have hq := cbOkPlain_cubic_mem tol _ hp a c1 c2 b hev
  simp only [cbOkCubic, Option.isSome_iff_exists] at hq
  obtain ⟨l, hl⟩ := hq
  have hceil : ∀ x : K, x ≤ Transc.ceil x := L.le_ceil
  have hpow := L.pow_sixth
    (((((⟨a, c1, c2, b⟩ : Cubic K).b - (⟨a, c1, c2, b⟩ : Cubic K).c2.smul 3)
      + (⟨a, c1, c2, b⟩ : Cubic K).c1.smul 3) - (⟨a, c1, c2, b⟩ : Cubic K).a).sqLen
      / (432 * (tol * FlatConst.value 4 1) * (tol * FlatConst.value 4 1)))
    (div_nonneg (sqLen_nonneg _) (by positivity))
  have hcast := numQuadratics_cast L.toCountLaws ⟨a, c1, c2, b⟩ (tol * FlatConst.value 4 1) hlt
  refine ⟨l, hl, by simp [cbPoints, cbModel, hl, segOf, Function.comp_def], ?_, ?_, ?_⟩
  · exact C09.cubic_quads_within_split_tolerance ⟨a, c1, c2, b⟩ _ htol hceil hpow hcast
  · intro tolq htq hq t ht0 ht1
    exact C09.cubic_flat_within_tolerance_of_quad_flattening ⟨a, c1, c2, b⟩ tol tolq l hl htq htol
      hceil hpow hcast hq t ht0 ht1
  · intro k hk ht6 r hr hrk t ht0 ht1
    exact C09.cubic_flat_within_tolerance_of_certificate ⟨a, c1, c2, b⟩ tol k l hl hk htol ht6
      hceil hpow hcast r hr hrk t ht0 ht1

end field

/-! ## 2. Endpoints, every scalar type, cubics included -/

section any
variable {α : Type} [Scalar α] [Transc α] [FlatConst α]

theorem flatten_keeps_endpoints_concrete_any (hone : ((one : α) == one) = true) (tol : α)
    (o : P α) (n : Nat) (prog out : List (Call (P α) (List α)))
    (hs : cubicSampleOk o prog) (h : flatBuilderC tol o n prog = some out) :
    List.Sublist (endpoints prog) (endpoints out) ∧
    out.filter Call.isMark = prog.filter Call.isMark := by
  unfold flatBuilderC at h
  split at h
  · rename_i hok
    cases Option.some.inj h
    refine ⟨?_, marks_flatRun _ _ prog⟩
    have e : flatBuilder (cbModel tol) o n prog = flatBuilder (cbTotS tol) o n prog :=
      flatRun_cbTotS tol (FlatB.init o n) prog hok hs
    rw [e]
    exact keeps_run_any hone (cbTotS tol) (cbTot_quad_ends tol) (cbTotS_cubic_ends hone tol) _ prog
  · cases h

end any

/-! ## 3. Mirror images -/

section field
variable {K : Type} [Field K] [LinearOrder K] [IsStrictOrderedRing K] [Transc K] [FlatConst K]

/-- the sign test of `FlatteningParameters::new` is symmetric for every quadratic the
builder-side adapter flattens (quadratic calls, and the quadratic approximations of cubic
calls), starting from `current_position = cur` -/
def reflGenericRun (tol : K) : P K → List (Call (P K) (List K)) → Prop
  | _, [] => True
  | _, .begin p _ :: r => reflGenericRun tol p r
  | _, .line p _ :: r => reflGenericRun tol p r
  | cur, .quad c p _ :: r =>
    ParabolaGeneric (parabolaFromOf ⟨cur, c, p⟩) (parabolaToOf ⟨cur, c, p⟩) ∧ reflGenericRun tol p r
  | cur, .cubic c1 c2 p _ :: r =>
    QuadsGeneric ((⟨cur, c1, c2, p⟩ : Cubic K).forEachQuadraticWithT (tol * FlatConst.value 4 1))
      ∧ reflGenericRun tol p r
  | cur, .end_ _ :: r => reflGenericRun tol cur r

theorem flatRun_reflection (hsq : SqrtScales K) (m : Xf K) (s : K) (hm : IsSimNeg m s) (tol : K)
    (st : FlatB (P K) K) (prog : List (Call (P K) (List K))) (hg : reflGenericRun tol st.cur prog) :
    cbOkRun (s * tol) (m.apply st.cur) (prog.map (mapCall m.apply)) = cbOkRun tol st.cur prog ∧
    FlatB.run (cbModel (s * tol)) ⟨m.apply st.cur, st.prev⟩ (prog.map (mapCall m.apply))
      = (FlatB.run (cbModel tol) st prog).map (mapCall m.apply) := by
  induction prog generalizing st with
  | nil => exact ⟨rfl, rfl⟩
  | cons c r ih =>
    cases c with
    | begin p a =>
      obtain ⟨h1, h2⟩ := ih ⟨p, a⟩ hg
      exact ⟨by simpa [cbOkRun, mapCall] using h1, by simpa [FlatB.run, FlatB.step, mapCall] using h2⟩
    | line p a =>
      obtain ⟨h1, h2⟩ := ih ⟨p, a⟩ hg
      exact ⟨by simpa [cbOkRun, mapCall] using h1, by simpa [FlatB.run, FlatB.step, mapCall] using h2⟩
    | end_ cl =>
      obtain ⟨h1, h2⟩ := ih st hg
      exact ⟨by simpa [cbOkRun, mapCall] using h1, by simpa [FlatB.run, FlatB.step, mapCall] using h2⟩
    | quad k p a =>
      obtain ⟨hq, hrest⟩ := hg
      obtain ⟨h1, h2⟩ := ih ⟨p, a⟩ hrest
      have hf := quad_flatten_simneg hsq m s hm ⟨st.cur, k, p⟩ tol hq
      simp only [Quad.transformed] at hf
      have hseg : (cbModel (s * tol)).quad (m.apply st.cur) (m.apply k) (m.apply p)
          = ((cbModel tol).quad st.cur k p).map (mapSeg m.apply) := by
        simp only [cbModel, hf]
        cases Quad.forEachFlattenedWithT (⟨st.cur, k, p⟩ : Quad K) tol with
        | none => rfl
        | some l => simp [segOf, mapSeg, mapFlat, Function.comp_def]
      refine ⟨?_, ?_⟩
      · simp only [List.map_cons, mapCall, cbOkRun, cbOkQuad, hf, Option.isSome_map]
        simp only at h1
        rw [h1]
      · simp only [List.map_cons, mapCall, FlatB.run, FlatB.step, List.map_append, hseg,
          emitLines_mapSeg]
        simp only at h2
        rw [h2]
    | cubic k1 k2 p a =>
      obtain ⟨hq, hrest⟩ := hg
      obtain ⟨h1, h2⟩ := ih ⟨p, a⟩ hrest
      have hf := cubic_flatten_simneg hsq m s hm ⟨st.cur, k1, k2, p⟩ tol hq
      simp only [Cubic.transformed] at hf
      have hseg : (cbModel (s * tol)).cubic (m.apply st.cur) (m.apply k1) (m.apply k2) (m.apply p)
          = ((cbModel tol).cubic st.cur k1 k2 p).map (mapSeg m.apply) := by
        simp only [cbModel, hf]
        cases Cubic.forEachFlattenedWithT (⟨st.cur, k1, k2, p⟩ : Cubic K) tol with
        | none => rfl
        | some l => simp [segOf, mapSeg, mapFlat, Function.comp_def]
      refine ⟨?_, ?_⟩
      · simp only [List.map_cons, mapCall, cbOkRun, cbOkCubic, hf, Option.isSome_map]
        simp only at h1
        rw [h1]
      · simp only [List.map_cons, mapCall, FlatB.run, FlatB.step, List.map_append, hseg,
          emitLines_mapSeg]
        simp only at h2
        rw [h2]

/-- **flatten_transform_reflection_concrete**: for an orientation-REVERSING similarity `m` of
scale `s` (`m = [[a, b], [b, −a]] + translation`): `builder.flattened(s·tol).transformed(m)` hands
down exactly the transformed calls of `builder.transformed(m).flattened(tol)` (and panics iff it
does), for every program on which the flattener's sign test is symmetric (`reflGenericRun`). -/
theorem flatten_transform_reflection_concrete (hsq : SqrtScales K) (m : Xf K) (s : K)
    (hm : IsSimNeg m s) (tol : K) (o : P K) (n : Nat) (prog : List (Call (P K) (List K)))
    (hg : reflGenericRun tol o prog) :
    flatBuilderC (s * tol) (m.apply o) n (xfBuilder m.apply prog)
      = (flatBuilderC tol o n prog).map (xfBuilder m.apply) := by
  obtain ⟨h1, h2⟩ := flatRun_reflection hsq m s hm tol (FlatB.init o n) prog hg
  unfold flatBuilderC
  rw [xfBuilder]
  simp only [FlatB.init] at h1 h2
  rw [h1]
  split
  · simp only [Option.map_some, Option.some.injEq, flatBuilder, xfBuilder, FlatB.init]
    exact h2
  · rfl

/-- **flatten_reflection_asymmetric_at_zero**: why `reflGenericRun` is needed.  A quadratic that
starts at the vertex of its parabola (`parabola_from = 0 < parabola_to`; e.g.
`from (0,0) ctrl (1,0) to (2,1)`) gets the estimate `½·|Δ|·sqrt(scale/tol)`; its mirror image
(`−0`, `−parabola_to`) fails the test `(0 < 0) == (−pt < 0)` and gets the cusp estimate
`½·|Δ| / approx_parabola_integral(sqrt(tol/scale))` — a different real number in general, so the
counts may differ (in f32: 2 vs 3 segments at tolerance 0.0573 for the example). -/
theorem flatten_reflection_asymmetric_at_zero (pt d sc tol : K) (hpt : 0 < pt) :
    FlatParams.countEstimate 0 pt d sc tol = half * Scalar.abs d * Transc.sqrt (sc / tol) ∧
    FlatParams.countEstimate (-0) (-pt) (-d) sc tol
      = half * Scalar.abs d / approxParabolaIntegral (Transc.sqrt (tol / sc)) ∧
    ¬ ParabolaGeneric (0 : K) pt :=
  ⟨(count_estimate_asymmetric_at_zero pt d sc tol hpt).1,
   (count_estimate_asymmetric_at_zero pt d sc tol hpt).2, by
    unfold ParabolaGeneric
    simp [hpt, not_lt.mpr (le_of_lt hpt)]⟩

end field

/-! ## 4. The t-monotonicity theorems on kernel-computed flattenings -/

/-- **quad_t_increasing_kernel_instance**: `from (0,0) ctrl (1,1) to (2,0)` at tolerance 1/8 with
the computable functions `kTransc` (which satisfy `SqrtLaws`, `CeilLaws`): the flattener, RUN IN
THE KERNEL, makes four callbacks with these `t.end`s — and `quad_flat_t_increasing` applies to
exactly that run: the list is increasing from 0 and ends with 1. -/
theorem quad_t_increasing_kernel_instance :
    ∃ l, @Quad.forEachFlattenedWithT ℚ fieldScalar kTransc kConst ⟨⟨0, 0⟩, ⟨1, 1⟩, ⟨2, 0⟩⟩ (1 / 8)
        = some l ∧
      l.map (·.t1) = [37828146494727661061 / 132562585978910644244, 1 / 2,
        94734439484182983183 / 132562585978910644244, 1] ∧
      IncrFrom 0 (l.map (·.t1)) ∧ (l.map (·.t1)).getLastD 0 = 1 := by
  have h := kQuad_ts
  cases hl : @Quad.forEachFlattenedWithT ℚ fieldScalar kTransc kConst ⟨⟨0, 0⟩, ⟨1, 1⟩, ⟨2, 0⟩⟩ (1 / 8) with
  | none => rw [hl] at h; cases h
  | some l =>
    rw [hl] at h
    have hm : l.map (·.t1) = _ := Option.some.inj h
    obtain ⟨h1, h2⟩ := @quad_flat_t_increasing ℚ _ _ _ kTransc kConst kSqrtLaws kCeilLaws _ _ l hl
    exact ⟨l, rfl, hm, h1, h2⟩

/-- **cubic_t_increasing_kernel_instance**: `from (0,0) ctrl (1,3) (3,3) to (4,0)` at tolerance
1/5: two quadratics, eight callbacks (computed in the kernel), increasing from 0, ending with 1 -/
theorem cubic_t_increasing_kernel_instance :
    ∃ l, @Cubic.forEachFlattenedWithT ℚ fieldScalar kTransc kConst
        ⟨⟨0, 0⟩, ⟨1, 3⟩, ⟨3, 3⟩, ⟨4, 0⟩⟩ (1 / 5) = some l ∧ l.length = 8 ∧
      IncrFrom 0 (l.map (·.t1)) ∧ (l.map (·.t1)).getLastD 0 = 1 := by
  have h := kCubic_ts
  cases hl : @Cubic.forEachFlattenedWithT ℚ fieldScalar kTransc kConst
      ⟨⟨0, 0⟩, ⟨1, 3⟩, ⟨3, 3⟩, ⟨4, 0⟩⟩ (1 / 5) with
  | none => rw [hl] at h; cases h
  | some l =>
    rw [hl] at h
    have hm : l.length = 8 := Option.some.inj h
    obtain ⟨h1, h2⟩ := @cubic_flat_t_increasing ℚ _ _ _ kTransc kConst kSqrtLaws kCeilLaws _ _ l hl
    exact ⟨l, rfl, hm, h1, h2⟩

/-! ## Non-vacuity of the hypotheses (over ℝ with the genuine `sqrt`, `powf`, `ceil`, `floor`) -/

section Examples
attribute [local instance 2000] fieldScalar

/-- hypotheses of `flatten_cubic_within_tolerance_concrete` on the program `exProgC` (a cubic
with two attributes): the laws, the tolerance, a cubic event of the path, the count below 2³² -/
example : @CubicLaws ℝ _ _ _ exRealTransc exRealConst
    ∧ (0 : ℝ) < 1 / 10 * @FlatConst.value ℝ exRealConst 4 1
    ∧ WellNested exProgC
    ∧ (∃ out, @flatBuilderC ℝ _ exRealTransc exRealConst (1 / 10) ⟨0, 0⟩ 2 exProgC = some out)
    ∧ Event.cubic (⟨0, 0⟩ : P ℝ) ⟨0, 0⟩ ⟨0, 0⟩ ⟨0, 0⟩ ∈ specEvents exProgC
    ∧ @Cubic.numQuadraticsImpl ℝ _ exRealTransc (⟨⟨0, 0⟩, ⟨0, 0⟩, ⟨0, 0⟩, ⟨0, 0⟩⟩ : Cubic ℝ)
        ((1 / 10 : ℝ) * @FlatConst.value ℝ exRealConst 4 1) < 4294967296 := by
  refine ⟨real_cubicLaws, ?_, by simp [exProgC, WellNested, wellNestedFrom], exBuilderOkC,
    by simp [exProgC, specEvents, specFrom], ?_⟩
  · show (0 : ℝ) < 1 / 10 * (((4 : ℕ) : ℝ) / 10 ^ 1); norm_num
  · rw [exNumQuadratics]; norm_num

/-- hypotheses of `flatten_keeps_endpoints_concrete_any` (at a field the per-curve hypothesis is a
theorem; the statement is aimed at `Float32`, where it holds of finite coordinates) -/
example : (((one : ℝ)) == one) = true
    ∧ cubicSampleOk (⟨0, 0⟩ : P ℝ) exProgC
    ∧ ∃ out, @flatBuilderC ℝ _ exRealTransc exRealConst (1 / 10) ⟨0, 0⟩ 2 exProgC = some out :=
  ⟨exOne, by let _ := exRealTransc; let _ := exRealConst; exact cubicSampleOk_field _ _, exBuilderOkC⟩

/-- hypotheses of `flatten_transform_reflection_concrete`: the `sqrt` law, a mirror map of scale
5, and the program `exProg` — for its quadratic `(0,0) (1,1/8) (2,0)`: `parabola_from = 1/16`,
`parabola_to = −1/16`, both away from 0 -/
example : @SqrtScales ℝ _ _ _ exRealTransc ∧ IsSimNeg (⟨3, 4, 4, -3, 1, 2⟩ : Xf ℝ) 5
    ∧ @reflGenericRun ℝ _ _ exRealTransc exRealConst (1 / 10) ⟨0, 0⟩ exProg := by
  refine ⟨real_sqrtScales, exSimNeg, ?_⟩
  let _ := exRealTransc; let _ := exRealConst
  simp only [exProg, reflGenericRun, and_true]
  apply parabolaGeneric_of_ne
  · simp only [parabolaFromOf, ddOf, FlatParams.flatCross, geom]; norm_num
  · simp only [parabolaToOf, ddOf, FlatParams.flatCross, geom]; norm_num

/-- hypothesis of `flatten_reflection_asymmetric_at_zero` -/
example : (0 : ℚ) < 1 / 2 := by norm_num

end Examples

end Lyon.C16
