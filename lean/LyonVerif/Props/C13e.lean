/-
  C13e — the oracle's `direction` clause as a theorem, for QUADRATICS: the polar angle of a quadratic
  piece about the centre differs from the arc's angle at the same parameter by at most `0.03·|δ|`
  (`δ` = the step, `|δ| ≤ π/4`), in the unit-circle frame of the ellipse.

  With `s = sin(δ/2)`, `c = cos(δ/2)`, `τ = tan(δ/2)` the piece that starts at angle `a₁` is, in the
  unit-circle frame, the rotation by `a₁` of `(qX t, qY t)` (`quad_unit_rotated_real`; `a₁ = 0`:
  `quad_unit_coords_real`), so its polar angle is `a₁ + θ(t)`, `θ(t) = arctan(qY t / qX t)`, while the
  arc's angle at the piece parameter `t` is `a₁ + t·δ`.

  * `quad_angular_offset_real`: `|θ(t) − t·δ| ≤ 0.03·|δ|` for `|δ| ≤ π/4`, `t ∈ [0,1]`
    (mean value theorem `angle_offset_of_rate` with the exact angular velocity
    `quad_angular_velocity_real` and `|θ' − δ| ≤ 0.06·|δ|`: `quad_rate_bounds_real`, i.e.
    `tan x ≤ 1.06 x` on `[0, π/8]` and `4 sin δ ≥ 0.94 δ (3 + cos δ)`).
  * `arc_quads_angular_offset_real`: every quadratic emitted for a real arc is such a piece with
    `δ = stepQ arc`, `|δ| ≤ π/4`; hence the bound holds for every emitted quadratic.
  The measured maximum is `5.43·10⁻³·|δ|`; `0.03` is the oracle's constant.  Cubics: not done.
-/
import LyonVerif.Lemmas.SvgArcRealOffset

set_option linter.unusedSectionVars false
set_option linter.unusedVariables false
set_option linter.unusedSimpArgs false

namespace Lyon.C13
open Lyon Scalar ArcConv

/-- the piece-relative polar angle of the quadratic piece with step `δ` at parameter `t` -/
noncomputable def quadTheta (d t : ℝ) : ℝ :=
  Real.arctan (qY (Real.sin (d / 2)) (Real.cos (d / 2)) (Real.tan (d * Scalar.half)) t / qX (Real.sin (d / 2)) t)

theorem quad_angular_offset_nonneg_real (d t : ℝ) (h0 : 0 ≤ d) (h1 : d ≤ Real.pi / 4)
    (ht0 : 0 ≤ t) (ht1 : t ≤ 1) : |quadTheta d t - t * d| ≤ 3 / 100 * d := by
  have hpi := Real.pi_pos
  have hdabs : |d| ≤ Real.pi / 4 := by rw [abs_of_nonneg h0]; exact h1
  obtain ⟨hu, hcos, hsin, htan, hcp, hK⟩ := half_angle_real d hdabs
  have hXpos : ∀ x ∈ Set.Icc (0 : ℝ) 1, qX (Real.sin (d / 2)) x ≠ 0 := by
    intro x hx
    have : 0 < qX (Real.sin (d / 2)) x := by
      unfold qX
      have h1 : x ^ 2 ≤ 1 := by nlinarith [hx.1, hx.2]
      nlinarith [mul_self_nonneg (Real.sin (d / 2))]
    exact ne_of_gt this
  have key := angle_offset_of_rate (quadTheta d)
    (fun t => 2 * Real.tan (d * Scalar.half) * (1 - 2 * (Real.sin (d / 2) * Real.sin (d / 2)) * (t * (1 - t)))
        / (1 + (2 * Real.sin (d / 2) * Real.tan (d * Scalar.half) * (t * (1 - t))) ^ 2))
    d (6 / 100 * d)
    (fun x hx => quad_angular_velocity_real _ _ _ x hu htan (hXpos x hx))
    (by simp [quadTheta, qX, qY])
    (by
      have hcd : 0 < Real.cos d := by linarith
      have : qY (Real.sin (d / 2)) (Real.cos (d / 2)) (Real.tan (d * Scalar.half)) 1 / qX (Real.sin (d / 2)) 1
          = Real.tan d := by
        rw [Real.tan_eq_sin_div_cos d, hsin, hcos]; simp only [qX, qY]; ring
      show Real.arctan _ = d
      rw [this, Real.arctan_tan (by linarith) (by linarith)])
    (fun x hx => quad_rate_bounds_real d x h0 h1 hx.1 hx.2) t ⟨ht0, ht1⟩
  have := key.2.2
  linarith

/-- **`quad_angular_offset_real`**: `|θ(t) − t·δ| ≤ 0.03·|δ|` for every step `|δ| ≤ π/4` and `t ∈ [0,1]` -/
theorem quad_angular_offset_real (d t : ℝ) (hd : |d| ≤ Real.pi / 4) (ht0 : 0 ≤ t) (ht1 : t ≤ 1) :
    |quadTheta d t - t * d| ≤ 3 / 100 * |d| := by
  obtain ⟨l, u⟩ := abs_le.mp hd
  rcases le_total 0 d with h | h
  · rw [abs_of_nonneg h]; exact quad_angular_offset_nonneg_real d t h u ht0 ht1
  · have hh : (Scalar.half : ℝ) = 1 / 2 := sc_half
    have e : quadTheta d t = -quadTheta (-d) t := by
      simp only [quadTheta, hh]
      rw [show -d / 2 = -(d / 2) by ring, show -d * (1 / 2) = -(d * (1 / 2)) by ring,
        Real.sin_neg, Real.cos_neg, Real.tan_neg, ← Real.arctan_neg]
      congr 1
      simp only [qX, qY]; ring
    have := quad_angular_offset_nonneg_real (-d) t (by linarith) (by linarith) ht0 ht1
    rw [abs_of_nonpos h, e]
    have e2 : -quadTheta (-d) t - t * d = -(quadTheta (-d) t - t * -d) := by ring
    rw [e2, abs_neg]; exact this

/-- the quadratic piece that starts at angle `a₁` is the rotation by `a₁` of `(qX, qY)`: its polar
angle is `a₁ + quadTheta δ t` -/
theorem quad_unit_rotated_real (arc : Arc ℝ) (a1 d t : ℝ) (hd : |d| ≤ Real.pi / 4) :
    (quadAt (unitArc arc) a1 d).sample t
      = ⟨Real.cos a1 * qX (Real.sin (d / 2)) t
            - Real.sin a1 * qY (Real.sin (d / 2)) (Real.cos (d / 2)) (Real.tan (d * Scalar.half)) t,
         Real.sin a1 * qX (Real.sin (d / 2)) t
            + Real.cos a1 * qY (Real.sin (d / 2)) (Real.cos (d / 2)) (Real.tan (d * Scalar.half)) t⟩ := by
  obtain ⟨hu, hcos, hsin, htan, hcp, _⟩ := half_angle_real d hd
  apply P.ext' <;>
  · simp only [quadAt, quadCtrl, Quad.sample, pointAt, tangentAtAngle, unitArc, Arc.sampleEllipse,
      Arc.rotate, geom, transc_cos_real, transc_sin_real, transc_tan_real, Real.cos_zero, Real.sin_zero,
      Real.cos_add, Real.sin_add, hcos, hsin, qX, qY, Nat.cast_ofNat, Nat.cast_one]
    ring

/-- **`arc_quads_angular_offset_real`**: every quadratic emitted for a real arc is, in the unit-circle
frame of the ellipse (`ellMap`), the rotation by its start angle of `(qX, qY)` with `δ = stepQ arc`,
`|δ| ≤ π/4`; its polar angle `a₁ + θ(t)` differs from the arc's angle `a₁ + t·δ` by at most `0.03·|δ|`. -/
theorem arc_quads_angular_offset_real (arc : Arc ℝ) (x : Quad ℝ × ℝ × ℝ) (hx : x ∈ quadsWithT arc)
    (t : ℝ) (ht0 : 0 ≤ t) (ht1 : t ≤ 1) :
    ∃ a1 : ℝ, x.1.sample t = ellMap arc
        ⟨Real.cos a1 * qX (Real.sin (stepQ arc / 2)) t
            - Real.sin a1 * qY (Real.sin (stepQ arc / 2)) (Real.cos (stepQ arc / 2)) (Real.tan (stepQ arc * Scalar.half)) t,
         Real.sin a1 * qX (Real.sin (stepQ arc / 2)) t
            + Real.cos a1 * qY (Real.sin (stepQ arc / 2)) (Real.cos (stepQ arc / 2)) (Real.tan (stepQ arc * Scalar.half)) t⟩
      ∧ |quadTheta (stepQ arc) t - t * stepQ arc| ≤ 3 / 100 * |stepQ arc| := by
  obtain ⟨hq, _, b, _⟩ := emitted_pieces_real arc
  obtain ⟨a1, e⟩ := hq x hx
  refine ⟨a1, ?_, quad_angular_offset_real _ t b ht0 ht1⟩
  rw [e, quad_piece_affine_image arc a1 _ t Real.cos_zero Real.sin_zero, quad_unit_rotated_real arc a1 _ t b]

/-- non-vacuity: a 45° step and `t = 1/3` satisfy the hypotheses -/
example : |Real.pi / 4| ≤ Real.pi / 4 ∧ (0 : ℝ) ≤ 1 / 3 ∧ (1 / 3 : ℝ) ≤ 1 := by
  refine ⟨?_, by norm_num, by norm_num⟩
  rw [abs_of_pos (by have := Real.pi_pos; positivity)]

end Lyon.C13
