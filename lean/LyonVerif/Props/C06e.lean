/-
  C06e — clipped `LineJoin::MiterClip` joins: the geometric core and the model-level closed form.

  * `corner_clip` (`Lemmas/StrokeCoverGeo.lean`) and the generalised `end_corner` / `start_corner`
    (`Lemmas/StrokeCoverEdge.lean`): the corner argument of the cover proof now holds for a join whose outer
    trapezoid corners are shifted by `κ·tan(θ/2)` half widths beyond the join, ANY `κ ∈ [0, 1]` (`κ = 0`
    bevel-shaped, `κ = 1` kept miter, `0 < κ < 1` clipped `MiterClip`): a point of an edge's rectangle beyond its
    trapezoid lies in the join triangle `(outer end + shift, inner miter point, outer start − shift)` or in the
    neighbouring trapezoid.  `JointData` (`Lemmas/StrokeCoverAsm.lean`) carries `κ ∈ [0,1]`; the committed cover
    theorems are re-proved through the generalised lemmas (`clipped_corner_covered` restates the lemma here).
  * `miter_clip_join_left_partial`: in the COMPLETE model, a `MiterClip` join at a left turn whose miter exceeds the limit
    (`miter_limit ≥ 1`, exact `Line::intersection`, `eps < w/2`) gets: inner (positive) side the single vertex
    `j + normal·w/2`; outer (negative) side two vertices `j − perp(t0)·w/2 + t0·lam`, `j − perp(t1)·w/2 − t1·lam`
    with `lam·tan(θ/2) = w/2·(miter_limit·|normal| − 1)` and `0 ≤ lam ≤ w/2·tan(θ/2)`, i.e. `κ = lam/(w/2·tan) ∈ [0,1]`.
  `_partial`: what is still missing for cover / reach of POLYLINES with clipped joins is threading this outer shift
  through the corner-shift functions `sA0 … sB1`, the cap lemmas and the reach bound (they assume shift `0` on a
  two-vertex side); the right-turn case of the closed form is symmetric and not written out.  Until then polylines
  with clipped `MiterClip` joins stay translation validation.
-/
import LyonVerif.Props.C06d
import Mathlib.Analysis.SpecialFunctions.Sqrt

set_option linter.unusedSectionVars false
set_option linter.unusedVariables false

namespace Lyon.C06e
open Lyon Scalar Lyon.Stroke Lyon.Stroke.Full Lyon.C05 Lyon.C06 Lyon.C06b Lyon.C06d
open Lyon.StrokeQuad (Ix clipIntersections lineIntersection clipSide Side2)

section
variable {K : Type} [Field K] [LinearOrder K] [IsStrictOrderedRing K] [Transc K]

/-- **the corner argument for a join with shifted outer corners** (`κ ∈ [0,1]`; see `end_corner`) -/
theorem clipped_corner_covered (E : P K × P K × P K → Prop) (j t0 t1 : P K) (hw ε c σ τ κ : K)
    (hε : ε * ε = 1) (hτ : σ = τ * (1 + c)) (hcs : c * c + σ * σ = 1) (hc : 0 < 1 + c) (hσ : 0 ≤ σ)
    (hκ : 0 ≤ κ ∧ κ ≤ 1) (hrot : t1 = t0.smul c + (perp t0).smul (ε * σ))
    (hJ : κ < 1 → ∀ q, InTri q (j - (perp t0).smul (ε * hw) + t0.smul (κ * τ * hw),
      j + (perp t0).smul (ε * hw) - t0.smul (τ * hw),
      j - (perp t1).smul (ε * hw) - t1.smul (κ * τ * hw)) → Cov E q)
    (hT1 : ∀ x' y', -1 ≤ y' → y' ≤ 1 → τ * ((1 + y') - κ * (1 - y')) / 2 ≤ x' → x' ≤ 1 + τ →
      Cov E (j + t1.smul (hw * x') + (perp t1).smul (ε * hw * y')))
    (x y : K) (hy : -1 ≤ y) (hy1 : y ≤ 1) (hx0 : x ≤ 0) (hx : -(τ * ((1 + y) - κ * (1 - y)) / 2) ≤ x) :
    Cov E (j + t0.smul (hw * x) + (perp t0).smul (ε * hw * y)) :=
  end_corner E j t0 t1 hw ε c σ τ κ hε hτ hcs hc hσ hκ hrot hJ hT1 x y hy hy1 hx0 hx

open Lyon.StrokeQuad (joinSidesT foldTest frontSide)

/-- **a clipped `MiterClip` join at a left turn, in closed form** (component model `joinSidesT`, which IS the
complete model's `compute_join_side_positions_fixed_width` by `C06c.complete_model_join_is_component_model`).
`t0`, `t1` unit tangents, `cross ≥ 0`, no fold, miter limit exceeded, `miter_limit ≥ 1`, `eps < w/2`. -/
theorem miter_clip_join_left_partial (eps : K) (heps : 0 ≤ eps)
    (hs0 : ∀ x : K, 0 ≤ x → 0 ≤ Transc.sqrt x) (hs : ∀ x : K, 0 ≤ x → Transc.sqrt x * Transc.sqrt x = x)
    (t0 t1 j : P K) (l0 l1 hw ml : K) (hu0 : t0.sqLen = 1) (hu1 : t1.sqLen = 1)
    (hg : ¬ (t0 + t1).sqLen < normalEpsilon) (hx : t0.cross t1 ≥ 0)
    (hexc : miterLimitIsExceeded (-(computeNormal t0 t1)) ml = true)
    (hf : foldTest false t0 t1 (computeNormal t0 t1) ((-(computeNormal t0 t1)).smul hw) l0 l1 = false)
    (hml : 1 ≤ ml) (hhw : 0 < hw) (hepsw : eps < hw) :
    ∃ lam : K, lam * (t0.cross t1 / (1 + t0.dot t1)) = hw * (ml * Transc.sqrt (-(computeNormal t0 t1)).sqLen - 1)
      ∧ 0 ≤ lam ∧ lam ≤ hw * (t0.cross t1 / (1 + t0.dot t1))
      ∧ (joinSidesT (lineIntersection eps) t0 t1 l0 l1 j hw ml .miterClip).pos.single = some (j + (computeNormal t0 t1).smul hw)
      ∧ (joinSidesT (lineIntersection eps) t0 t1 l0 l1 j hw ml .miterClip).neg.prev = j - (perp t0).smul hw + t0.smul lam
      ∧ (joinSidesT (lineIntersection eps) t0 t1 l0 l1 j hw ml .miterClip).neg.next = j - (perp t1).smul hw - t1.smul lam
      ∧ (joinSidesT (lineIntersection eps) t0 t1 l0 l1 j hw ml .miterClip).neg.single = none
      ∧ (joinSidesT (lineIntersection eps) t0 t1 l0 l1 j hw ml .miterClip).foldPos = false
      ∧ (joinSidesT (lineIntersection eps) t0 t1 l0 l1 j hw ml .miterClip).foldNeg = false := by
  obtain ⟨hc, hN0, hN1⟩ := normal_closed hs0 hs t0 t1 hu0 hu1 hg
  obtain ⟨τ, hτd⟩ : ∃ τ : K, τ = t0.cross t1 / (1 + t0.dot t1) := ⟨_, rfl⟩
  rw [← hτd] at hN0 hN1 ⊢
  have hτ0 : 0 ≤ τ := by rw [hτd]; exact div_nonneg hx (le_of_lt hc)
  generalize hNdef : computeNormal t0 t1 = N at hN0 hN1 hexc hf ⊢
  -- the front normal `F = −N`
  have hsq : (-N).sqLen = 1 + τ * τ := by
    rw [hN0]; simp only [perp, geom] at hu0 ⊢; linear_combination (1 + τ * τ) * hu0
  have hF0 : (-N).dot t0 = τ := by
    rw [hN0]; simp only [perp, geom] at hu0 ⊢; linear_combination τ * hu0
  have hF1 : (-N).dot t1 = -τ := by
    rw [hN1]; simp only [perp, geom] at hu1 ⊢; linear_combination (-τ) * hu1
  have hP0 : (perp t0).dot (-N) = -1 := by
    rw [hN0]; simp only [perp, geom] at hu0 ⊢; linear_combination (-1 : K) * hu0
  have hP1 : (perp t1).dot (-N) = -1 := by
    rw [hN1]; simp only [perp, geom] at hu1 ⊢; linear_combination (-1 : K) * hu1
  have hexc' : (-N).sqLen > ml * ml * 4 := by
    have := hexc
    unfold miterLimitIsExceeded at this
    have h4 : (four : K) = 4 := by simp only [geom]; norm_num
    rw [h4] at this
    exact of_decide_eq_true this
  rw [hsq] at hexc'
  have hτ3 : 3 < τ * τ := by nlinarith
  have hτ1 : 1 < τ := by nlinarith
  have hτpos : 0 < τ := by linarith
  have hnn : (0 : K) ≤ (-N).sqLen := by rw [hsq]; nlinarith
  have hr0' := hs0 _ hnn
  have hrr := hs _ hnn
  have hr0 : 0 < Transc.sqrt (-N).sqLen := by
    rcases eq_or_lt_of_le hr0' with h | h
    · rw [← h] at hrr; rw [hsq] at hrr; nlinarith
    · exact h
  obtain ⟨lam, c1, c2, c3, c4, _⟩ := miter_clip_side_points_partial eps heps j t0 t1 (-N) hw ml 1 τ (by ring) hu0 hu1 hτpos hhw
    hF0 hF1 hP0 hP1 hr0 hrr (by nlinarith)
  -- between the bevel corner and the miter tip
  generalize hrdef : Transc.sqrt (-N).sqLen = r at hr0 hrr c1
  rw [hsq] at hrr
  have hb := miter_clip_between_partial hw ml τ r lam hhw hτpos (le_of_lt hr0) hrr c1 (by nlinarith) (by nlinarith)
  -- the model's branch
  have hf' : foldTest ((decide (Lyon.StrokeQuad.Join.miterClip = .miter) || decide (Lyon.StrokeQuad.Join.miterClip = .miterClip))
      && !miterLimitIsExceeded (-N) ml) t0 t1 N ((-N).smul hw) l0 l1 = false := by
    rw [hexc]; simpa using hf
  have hx' : t0.cross t1 ≥ 0 := hx
  rw [← hNdef] at hf'
  obtain ⟨s1, s2, s3, _, _, s6⟩ := join_sides_nofold_left (lineIntersection eps) t0 t1 j l0 l1 hw ml .miterClip hx' hf'
  rw [hNdef] at s1 s6
  rw [hexc] at s6
  have hfs : frontSide (lineIntersection eps) .miterClip
      ((decide (Lyon.StrokeQuad.Join.miterClip = .miter) || decide (Lyon.StrokeQuad.Join.miterClip = .miterClip)) && !true)
      ⟨j - (perp t0).smul hw, j - (perp t1).smul hw, none⟩ j (-N) (j - N.smul hw) (ml * hw)
      = clipSide (lineIntersection eps) ⟨j - (perp t0).smul hw, j - (perp t1).smul hw, none⟩ j (-N) (ml * hw) := by
    simp [frontSide]
  rw [hfs] at s6
  simp only [one_mul] at c2 c3 c4
  refine ⟨lam, c1, hb.1, hb.2.1, s1, ?_, ?_, ?_, s2, s3⟩
  · rw [s6]; exact c2
  · rw [s6]; exact c3
  · rw [s6]; exact c4

end

/-! ### non-vacuity -/

section Examples
open Lyon.StrokeQuad (joinSidesT foldTest frontSide)
attribute [local instance] Lyon.C05.realTransc

/-- the hypotheses of `clipped_corner_covered` are satisfiable: a 90° left turn (`c = 0`, `σ = τ = 1`) with the outer
corners shifted by half the miter (`κ = 1/2`), every triangle "emitted" -/
example : Cov (fun _ : P ℝ × P ℝ × P ℝ => True)
    ((⟨0, 0⟩ : P ℝ) + (⟨1, 0⟩ : P ℝ).smul (1 * (-1 / 4)) + (perp (⟨1, 0⟩ : P ℝ)).smul (1 * 1 * (1 / 2))) := by
  have hcov : ∀ q : P ℝ, Cov (fun _ : P ℝ × P ℝ × P ℝ => True) q := fun q =>
    ⟨(q, q, q), trivial, 1, 0, 0, by norm_num, by norm_num, by norm_num, by norm_num, by simp, by simp⟩
  exact clipped_corner_covered (K := ℝ) _ ⟨0, 0⟩ ⟨1, 0⟩ ⟨0, 1⟩ 1 1 0 1 1 (1 / 2) (by norm_num) (by norm_num) (by norm_num)
    (by norm_num) (by norm_num) ⟨by norm_num, by norm_num⟩ (by apply P.ext' <;> simp [perp, geom])
    (fun _ q _ => hcov q) (fun _ _ _ _ _ _ => hcov _) (-1 / 4) (1 / 2) (by norm_num) (by norm_num) (by norm_num) (by norm_num)

/-- the hypotheses of `miter_clip_join_left_partial` hold over `ℝ` for the 5-12-13 left turn
`(12/13, 5/13) → (−12/13, 5/13)` (`tan(θ/2) = 12/5`, `|normal|² = 169/25 > 4`), `miter_limit = 1`, `w/2 = 1/2`, edges of length 10 -/
example (j : P ℝ) : ∃ lam : ℝ, 0 ≤ lam ∧
    (joinSidesT (lineIntersection (1 / 10 ^ 8)) (⟨12 / 13, 5 / 13⟩ : P ℝ) ⟨-12 / 13, 5 / 13⟩ 10 10 j (1 / 2) 1 .miterClip).neg.prev
      = j - (perp (⟨12 / 13, 5 / 13⟩ : P ℝ)).smul (1 / 2) + (⟨12 / 13, 5 / 13⟩ : P ℝ).smul lam := by
  have hs0 : ∀ x : ℝ, 0 ≤ x → 0 ≤ Transc.sqrt x := fun x _ => Real.sqrt_nonneg x
  have hs : ∀ x : ℝ, 0 ≤ x → Transc.sqrt x * Transc.sqrt x = x := fun x hx => Real.mul_self_sqrt hx
  have hu0 : (⟨12 / 13, 5 / 13⟩ : P ℝ).sqLen = 1 := by simp only [geom]; norm_num
  have hu1 : (⟨-12 / 13, 5 / 13⟩ : P ℝ).sqLen = 1 := by simp only [geom]; norm_num
  have hg : ¬ ((⟨12 / 13, 5 / 13⟩ : P ℝ) + ⟨-12 / 13, 5 / 13⟩).sqLen < normalEpsilon := by
    rw [normalEpsilon_eq]; simp only [geom]; norm_num
  obtain ⟨hc, hN0, hN1⟩ := normal_closed hs0 hs _ _ hu0 hu1 hg
  have hτ : (⟨12 / 13, 5 / 13⟩ : P ℝ).cross ⟨-12 / 13, 5 / 13⟩ / (1 + (⟨12 / 13, 5 / 13⟩ : P ℝ).dot ⟨-12 / 13, 5 / 13⟩) = 12 / 5 := by
    simp only [geom]; norm_num
  rw [hτ] at hN0 hN1
  have hN : computeNormal (⟨12 / 13, 5 / 13⟩ : P ℝ) ⟨-12 / 13, 5 / 13⟩ = ⟨-13 / 5, 0⟩ := by
    rw [hN0]; apply P.ext' <;> simp only [perp, geom] <;> norm_num
  obtain ⟨lam, _, h0, _, _, h5, _⟩ := miter_clip_join_left_partial (K := ℝ) (1 / 10 ^ 8) (by positivity) hs0 hs
    ⟨12 / 13, 5 / 13⟩ ⟨-12 / 13, 5 / 13⟩ j 10 10 (1 / 2) 1 hu0 hu1 hg (by simp only [geom]; norm_num)
    (by rw [hN]; simp [miterLimitIsExceeded, geom]; norm_num)
    (by rw [hN]; simp [foldTest, geom]; norm_num)
    (le_refl _) (by norm_num) (by norm_num)
  exact ⟨lam, h0, h5⟩

end Examples

end Lyon.C06e
