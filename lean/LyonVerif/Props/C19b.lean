/-
  C19, histories of the `PathMeasurements` object itself.

  The property quantifies over histories.  `Props/C19.lean` covers the history of a SAMPLER (its
  cursor).  This file covers the history of the measurements object: `initialize` /
  `initialize_with_path` / `initialize_with_path_slice` recycle the two vectors of an object that
  was initialised before with other paths (`Model/Algo/MeasureInit.lean` models the recycling with
  the `Vec` operations the code uses).

  * `pushEdges_eq`                 the loop of `initialize` appends the fresh table to whatever vector
                                   it was handed (so everything depends on that vector being cleared);
  * `measure_initialize_fresh`     initialising ANY used object gives exactly the object `from_path`
                                   builds: the state is a function of path and tolerance only;
  * `measure_replay_last`          after any life, the object is the one built from the LAST path;
  * `recycled_sampler_eq_mk`       hence every sampler of a recycled object is the sampler
                                   `Measure.mk` gives — all theorems of `Props/C19.lean` apply;
  * `recycled_sample_never_panics`, `recycled_length_eq_approx_length`,
    `recycled_table_mono_zero`     … spelled out for three of them, at full strength;
  * `length_blind_to_stale_prefix` why `length()` alone can never notice a table that was not
                                   cleared (the reason the history has to be explored by samples);
  * `sampler_without_attributes_same_geometry`  a sampler made by `create_sampler` (store `()`) moves
                                   its cursor and returns positions and tangents exactly as the one
                                   made by `create_sampler_with_attributes`; its attributes are empty.
-/
import LyonVerif.Props.C19
import LyonVerif.Model.Algo.MeasureInit

set_option linter.unusedSectionVars false
set_option linter.unusedVariables false
set_option linter.unusedSimpArgs false

namespace Lyon.C19
open Lyon Lyon.Measure Scalar

variable {K : Type} [Field K] [LinearOrder K] [IsStrictOrderedRing K]

/-! ### the loop of `initialize` pushes onto the vector it is handed -/

theorem pushManyOnto_eq (es : List (K × K)) : ∀ (acc : List (Edge K)) (d : K) (i : Nat),
    pushManyOnto acc d i es = acc ++ pushMany d i es := by
  induction es with
  | nil => intro acc d i; simp [pushManyOnto, pushMany]
  | cons x r ih =>
    intro acc d i
    obtain ⟨l, t⟩ := x
    simp [pushManyOnto, pushMany, vpush, ih]

/-- **pushEdges_eq.**  The `for (index, event) …` loop of `initialize`, run on ANY vector `acc`,
leaves `acc` followed by the table of the path (`init1`, the table all of `Props/C19.lean` is about).
Nothing in the loop looks at, or removes, what was in the vector before. -/
theorem pushEdges_eq (steps : List (Step K)) : ∀ (acc : List (Edge K)) (d : K) (i : Nat),
    pushEdges acc d i steps = acc ++ init1 d i steps := by
  induction steps with
  | nil => intro acc d i; simp [pushEdges, init1]
  | cons s r ih =>
    intro acc d i
    cases s with
    | skip => simp [pushEdges, init1, ih]
    | mark => simp [pushEdges, init1, vpush, ih]
    | add l => simp [pushEdges, init1, vpush, ih]
    | many es => simp [pushEdges, init1, pushManyOnto_eq, ih]

/-! ### initialising a used object -/

/-- the state after `initialize`, whatever the object held before -/
theorem initialize_state [Transc K] [FlatConst K] (used : PM K) (path : List (Ev K)) (tolerance : K) :
    (used.initialize path tolerance).events = path ∧
    (used.initialize path tolerance).edges
      = initTable (Scalar.max tolerance (Scalar.ofSci 1 4)) path := by
  constructor
  · simp [PM.initialize, refillEvents, vextend, vclear, vtake]
  · simp only [PM.initialize, refillEvents, recycleEdges, vextend, vclear, vtake, pushEdges_eq,
      initTable, List.nil_append]

/-- **measure_initialize_fresh.**  Initialising ANY used `PathMeasurements` object — whatever paths,
tolerances and attribute counts it was initialised with before, through whichever entry points —
gives exactly the object `from_path` builds for the new path: events and edge table are a function
of the path and the tolerance only. -/
theorem measure_initialize_fresh [Transc K] [FlatConst K] (used : PM K) (tolerance : K)
    (cmds : List (Cmd K)) :
    used.initializeWithPath tolerance cmds = PM.fromPath tolerance cmds := by
  have h1 := initialize_state used (evsOf cmds) tolerance
  have h2 := initialize_state (PM.empty : PM K) (evsOf cmds) tolerance
  unfold PM.initializeWithPath PM.fromPath
  cases hu : used.initialize (evsOf cmds) tolerance with
  | mk ev ed =>
    cases he : (PM.empty : PM K).initialize (evsOf cmds) tolerance with
    | mk ev2 ed2 =>
      rw [hu] at h1; rw [he] at h2
      simp only at h1 h2
      rw [h1.1, h1.2, h2.1, h2.2]

/-- **measure_replay_last.**  After a whole life (`hist`: any list of earlier initialisations of
any starting object) followed by one more initialisation, the object is the one `from_path` builds
from that LAST path: nothing of the life before survives. -/
theorem measure_replay_last [Transc K] [FlatConst K] (start : PM K) (hist : List (Init K))
    (tolerance : K) (cmds : List (Cmd K)) :
    (start.replay (hist ++ [⟨tolerance, cmds⟩])) = PM.fromPath tolerance cmds := by
  induction hist generalizing start with
  | nil => simp [PM.replay, measure_initialize_fresh]
  | cons h r ih => simp only [List.cons_append, PM.replay]; exact ih _

/-- **recycled_sampler_eq_mk.**  The sampler view (`create_sampler_with_attributes`) of a recycled
object is the `Measure.mk` of `Props/C19.lean`: every theorem there (cursor bracketing, history
independence of the cursor, `sample_at_distance`, `split_lengths_add`, …) is a theorem about
samplers of recycled objects. -/
theorem recycled_sampler_eq_mk [Transc K] [FlatConst K] (used : PM K) (nattr : Nat) (tolerance : K)
    (cmds : List (Cmd K)) :
    (used.initializeWithPath tolerance cmds).sampler nattr true = Measure.mk nattr tolerance cmds := by
  obtain ⟨h1, h2⟩ := initialize_state used (evsOf cmds) tolerance
  simp only [PM.sampler, PM.initializeWithPath, if_true, Measure.mk, h1, h2]

/-- the measured length of a recycled object is the fresh one -/
theorem recycled_length [Transc K] [FlatConst K] (used : PM K) (tolerance : K) (cmds : List (Cmd K)) :
    (used.initializeWithPath tolerance cmds).length = (PM.fromPath tolerance cmds).length := by
  rw [measure_initialize_fresh]

/-- **recycled_length_eq_approx_length** (`length_eq_approx_length` for recycled objects): for a
polyline path, `length()` of an object with any history equals `approximate_length` of the path. -/
theorem recycled_length_eq_approx_length [Transc K] [FlatConst K] (used : PM K) (tolerance tol2 : K)
    (cmds : List (Cmd K)) (hpoly : ∀ e ∈ evsOf cmds, e.isPoly = true) :
    (used.initializeWithPath tolerance cmds).length = approxLength tol2 (evsOf cmds) := by
  obtain ⟨_, h2⟩ := initialize_state used (evsOf cmds) tolerance
  simp only [PM.length, PM.initializeWithPath, h2]
  exact length_eq_approx_length _ tol2 (evsOf cmds) hpoly

/-- **recycled_table_mono_zero** (`initTable_mono_zero` for recycled objects): the table of an
object with any history, initialised with a polyline path that starts with `Begin`, is
non-decreasing and starts at 0 — in particular no distance of an earlier path is left in it. -/
theorem recycled_table_mono_zero [Transc K] [FlatConst K] (used : PM K) (tolerance : K)
    (hsqrt : ∀ x : K, 0 ≤ Transc.sqrt x) (p : P K) (a : List K) (evs : List (Ev K))
    (hpoly : ∀ e ∈ evs, e.isPoly = true) :
    Mono (used.initialize (.begin p a :: evs) tolerance).edges ∧
    dAt (used.initialize (.begin p a :: evs) tolerance).edges 0 = 0 := by
  rw [(initialize_state used _ tolerance).2]
  exact initTable_mono_zero _ hsqrt p a evs hpoly

/-- **recycled_sample_never_panics** (`sample_never_panics` for recycled objects, hypotheses about
the table discharged): on an object with ANY history, initialised with a polyline path starting with
`Begin`, a sampler with any good cursor (any query history, by `cursor_history_on_positive_edges`)
answers `sample` at any distance and sample type without reaching `unreachable!()`, and interpolates
on an entry of positive length. -/
theorem recycled_sample_never_panics [Transc K] [FlatConst K] (used : PM K) (nattr : Nat)
    (tolerance : K) (hsqrt : ∀ x : K, 0 ≤ Transc.sqrt x) (p : P K) (a : List K) (evs : List (Ev K))
    (hpoly : ∀ e ∈ evs, e.isPoly = true) (c : Nat) (normalized : Bool) (d : K)
    (hc : c < (used.initialize (.begin p a :: evs) tolerance).edges.length)
    (hgood : GoodCursor (used.initialize (.begin p a :: evs) tolerance).edges c) :
    (sampleImpl ((used.initialize (.begin p a :: evs) tolerance).sampler nattr true) c normalized d).2
      ≠ .panic := by
  obtain ⟨h1, h2⟩ := initialize_state used (.begin p a :: evs) tolerance
  obtain ⟨hm, h0⟩ := recycled_table_mono_zero used tolerance hsqrt p a evs hpoly
  have hpoly2 : ∀ e ∈ (Ev.begin p a :: evs), e.isPoly = true := by
    intro e he
    rcases List.mem_cons.mp he with h | h
    · rw [h]; rfl
    · exact hpoly e h
  simp only [PM.sampler, if_true]
  exact (sample_never_panics (Scalar.max tolerance (Scalar.ofSci 1 4))
    ⟨(used.initialize (.begin p a :: evs) tolerance).events,
     (used.initialize (.begin p a :: evs) tolerance).edges, nattr⟩
    (by simp only [h1, h2]) (by simp only [h1]; exact hpoly2) c normalized d h0 hm hc hgood).1

/-! ### why the history has to be explored by samples: `length()` is blind to a stale table -/

/-- **length_blind_to_stale_prefix.**  `length()` reads the last entry only: whatever is left in
front of a non-empty fresh table (e.g. the table of an earlier path, had it not been cleared) does
not change the measured length.  A defect in the recycling is invisible to every length identity of
the property; it shows in `sample` / `split_range`, which search the whole table. -/
theorem length_blind_to_stale_prefix (stale fresh : List (Edge K)) (h : fresh ≠ []) :
    length (stale ++ fresh) = length fresh := by
  rw [length_eq_last, length_eq_last, List.getLast?_append_of_ne_nil _ h]

/-- …and the loop of `initialize` on an uncleared vector produces exactly such a table -/
theorem pushEdges_length_blind (stale : List (Edge K)) (steps : List (Step K))
    (h : init1 (0 : K) 0 steps ≠ []) :
    length (pushEdges stale (0 : K) 0 steps) = length (init1 (0 : K) 0 steps) := by
  rw [pushEdges_eq]; exact length_blind_to_stale_prefix _ _ h

/-! ### samplers without attributes (`create_sampler`: attribute store `()`) -/

theorem toSegment_noAttrs (e : Ev K) :
    toSegment e.noAttrs = (toSegment e).map (fun s => (s.1, [], [])) := by
  cases e with
  | begin p a => rfl
  | line f t af at_ => rfl
  | quad f c t af at_ => rfl
  | cubic f c1 c2 t af at_ => rfl
  | end_ l f al af cl => cases cl <;> rfl

theorem evAt_noAttrs (pm : PM K) (n : Nat) (i : Nat) :
    evAt (pm.sampler n false) i = (evAt (pm.sampler n true) i).noAttrs := by
  simp only [evAt, PM.sampler, Bool.false_eq_true, if_false, if_true, List.getD_eq_getElem?_getD,
    List.getElem?_map]
  cases pm.events[i]? <;> simp [Ev.noAttrs]

/-- position and tangent of a `SampleOut` -/
def _root_.Lyon.Measure.SampleOut.geometry : SampleOut K → Option (P K × P K)
  | .ok pos tan _ => some (pos, tan)
  | .panic => none

/-- attributes of a `SampleOut` -/
def _root_.Lyon.Measure.SampleOut.attrs : SampleOut K → List K
  | .ok _ _ a => a
  | .panic => []

/-- **sampler_without_attributes_same_geometry.**  For every measurements object, cursor, sample
type and distance: the sampler made by `create_sampler` moves its cursor exactly as the one made by
`create_sampler_with_attributes`, returns the same position and tangent (or panics in the same
cases), and — on a path of positive length — carries no attributes. -/
theorem sampler_without_attributes_same_geometry [Transc K] (pm : PM K) (n : Nat) (c : Nat)
    (normalized : Bool) (d : K) :
    (sampleImpl (pm.sampler n false) c normalized d).1 = (sampleImpl (pm.sampler n true) c normalized d).1 ∧
    (sampleImpl (pm.sampler n false) c normalized d).2.geometry
      = (sampleImpl (pm.sampler n true) c normalized d).2.geometry ∧
    (length pm.edges ≠ 0 → (sampleImpl (pm.sampler n false) c normalized d).2.attrs = []) := by
  have hE : (pm.sampler n false).edges = pm.edges := by simp [PM.sampler]
  have hE2 : (pm.sampler n true).edges = pm.edges := by simp [PM.sampler]
  unfold sampleImpl
  rw [hE, hE2]
  by_cases hz : (length pm.edges == (Scalar.zero : K)) = true
  · rw [if_pos hz, if_pos hz]
    refine ⟨rfl, ?_, fun h => absurd (by rw [sc_beq] at hz; simpa using hz) h⟩
    simp only [sampleZeroLength, PM.sampler, Bool.false_eq_true, if_false, if_true]
    cases pm.events with
    | nil => simp [SampleOut.geometry]
    | cons e r => cases e <;> simp [Ev.noAttrs, SampleOut.geometry]
  · rw [if_neg hz, if_neg hz]
    refine ⟨rfl, ?_, fun _ => ?_⟩
    · simp only [sampleOn, hE, hE2, evAt_noAttrs pm n, toSegment_noAttrs]
      cases toSegment (evAt (pm.sampler n true) (eAt pm.edges
        (moveCursor pm.edges c (clampDist normalized (length pm.edges) d))).index) with
      | none => simp [SampleOut.geometry]
      | some s => obtain ⟨sg, af, at_⟩ := s; simp [SampleOut.geometry]
    · simp only [sampleOn, hE, evAt_noAttrs pm n, toSegment_noAttrs]
      cases toSegment (evAt (pm.sampler n true) (eAt pm.edges
        (moveCursor pm.edges c (clampDist normalized (length pm.edges) d))).index) with
      | none => simp [SampleOut.attrs]
      | some s => obtain ⟨sg, af, at_⟩ := s; simp [SampleOut.attrs, interp]

/-! ### non-vacuity -/

section Examples

/-- a used object: the table of `begin(0,0) line_to(1,0) line_to(1,2)` (distances 0, 1, 3) and
three stale events -/
noncomputable def exUsed : PM ℚ :=
  ⟨[.begin ⟨0, 0⟩ [], .line ⟨0, 0⟩ ⟨1, 0⟩ [] [], .line ⟨1, 0⟩ ⟨1, 2⟩ [] []], exTable⟩

/-- hypotheses of `length_blind_to_stale_prefix` / `pushEdges_length_blind`: the stale table
`exTable` in front of the fresh table of `begin, line (length 5)`: the length reads 5, while entry 1
of the uncleared vector is still the stale distance 1 -/
example : init1 (0 : ℚ) 0 [.mark, .add 5] ≠ [] ∧
    length (pushEdges exTable (0 : ℚ) 0 [.mark, .add 5]) = 5 ∧
    dAt (pushEdges exTable (0 : ℚ) 0 [.mark, .add 5]) 1 = 1 ∧
    dAt (init1 (0 : ℚ) 0 [.mark, .add 5]) 1 = 5 := by
  have o : (Scalar.one : ℚ) = 1 := by simp
  have hT : init1 (0 : ℚ) 0 [.mark, .add 5] = [⟨0, 0, 1⟩, ⟨5, 1, 1⟩] := by
    simp [init1, o]
  refine ⟨by rw [hT]; simp, ?_, ?_, ?_⟩
  · rw [pushEdges_length_blind _ _ (by rw [hT]; simp), hT, length_eq _ (by simp)]
    simp [dAt, eAt]
  · rw [pushEdges_eq, hT]; simp [exTable, dAt, eAt]
  · rw [hT]; simp [dAt, eAt]

/-- hypotheses of `recycled_length_eq_approx_length` / `recycled_table_mono_zero` /
`recycled_sample_never_panics`: a polyline path starting with `Begin`, the used object `exUsed`,
cursor 0 (a fresh sampler) -/
example [Transc ℚ] [FlatConst ℚ] :
    (∀ e ∈ ([.line ⟨0, 0⟩ ⟨5, 0⟩ [] []] : List (Ev ℚ)), e.isPoly = true) ∧
    0 < (exUsed.initialize (.begin ⟨0, 0⟩ [] :: [.line ⟨0, 0⟩ ⟨5, 0⟩ [] []]) 0).edges.length ∧
    GoodCursor (exUsed.initialize (.begin ⟨0, 0⟩ [] :: [.line ⟨0, 0⟩ ⟨5, 0⟩ [] []]) 0).edges 0 := by
  refine ⟨by intro e he; simp at he; rw [he]; rfl, ?_, Or.inl rfl⟩
  rw [(initialize_state exUsed _ 0).2]
  simp [initTable, init1, stepOf]

end Examples

end Lyon.C19
