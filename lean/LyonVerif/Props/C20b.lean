/-
  C20b — the Hatcher's HISTORY: a `Hatcher` that has served earlier calls behaves like a new one.

  C20's statement quantifies over paths × angle × spacing × uv origin × tolerance; the theorems of
  `Props/C20.lean` are about one call of the one-call model (`Model/Algo/Hatch.lean`, which starts
  from `active := []`, `row := 0`).  The real `Hatcher` is an object whose fields survive a call
  (`events`, `active_edges`, `transform`, `compute_tangents`, `segment`, `uv_origin`), and
  `hatch` has early `return`s (pattern offset `<= 0`) that leave the sweep's state as it was in the
  middle of the path.  `Model/Algo/HatchObj.lean` models exactly that (every function reads the
  object's fields); this file proves that nothing of a used object's state reaches the output:

  * `hatch_used_is_model`       `Hatcher::hatch` on ANY object state, for every options / builder /
                                fuel / edge list, runs as the one-call model does (builder state,
                                rows, offsets, stop flag — the whole `St`)
  * `hatch_history_fresh`       `hatch_path` on any object state = `hatch_path` on `Hatcher::new()`
  * `dot_history_fresh`         the same for `dot_path`
  * `…_curved_…`                the same for event streams with curves
  * `call_on_used_is_fresh`, `history_calls_fresh`
                                every call of every history (any mix of `hatch_path` / `dot_path`,
                                any paths, options, patterns, also calls ended early by their pattern
                                and paths without edges) emits what the same call emits on a new
                                Hatcher
  * `used_row_is_evenodd_path`, `used_empty_path_no_output`
                                C20's even-odd theorem and the empty-path clause, restated for a call
                                on a used object (any theorem of `Props/C20.lean` transfers the same way)

  The first six need NO arithmetic law: they hold over every `[Scalar α] [Transc α]`, so also at
  `Float32`, where the tie runs (the bit-for-bit comparison of whole histories checks the
  translation, not this fact).  They quantify over ALL object states, in particular over every
  state an early `return` can leave behind.
-/
import LyonVerif.Model.Algo.HatchObj
import LyonVerif.Lemmas.HatchObj
import LyonVerif.Props.C20

set_option linter.unusedSectionVars false
set_option linter.unusedVariables false
set_option linter.unusedSimpArgs false

namespace Lyon.C20b
open Lyon Lyon.Hatch Scalar

section generic
variable {α : Type} [Scalar α] [Transc α] {σ : Type}

/-- **hatch_used_is_model.**  `Hatcher::hatch` called on a Hatcher in ANY state `h` (whatever
earlier calls — complete, ended early by their pattern, on empty paths — left in `active_edges`,
`segment`, `transform`, `uv_origin`, `compute_tangents`, `events`) produces the state the one-call
model produces: same builder state (every `next_offset` / `add_segment` call, in order, with the
same arguments), same rows, offsets, stop and fuel flags, same final active list and row count. -/
theorem hatch_used_is_model (h : Obj α) (o : Options α) (nan : P α) (B : Builder σ α) (fuel : Nat)
    (edges : List (Seg α)) (b0 : σ) :
    (objHatch h o nan B fuel edges b0).map OSt.toSt = hatch (mkCfg o nan) B fuel edges b0 :=
  objHatch_sim h o nan B fuel edges b0

/-- `hatch_path` on any object state runs as the one-call model's `hatchPath` -/
theorem hatch_path_used_is_model (h : Obj α) (o : Options α) (nan : P α) (B : Builder σ α)
    (fuel : Nat) (evs : List (PEv α)) (b0 : σ) :
    (objHatchPath h o nan B fuel evs b0).map OSt.toSt = hatchPath o nan B fuel evs b0 := by
  unfold objHatchPath hatchPath
  rw [setPath_eq, ← hatch_used_is_model { h with events := [] } o nan B fuel _ b0]
  rw [Option.map_map]
  rfl

/-- **hatch_history_fresh.**  For every object state and every input / options / pattern, a
`hatch_path` call on a used Hatcher emits what a new Hatcher emits. -/
theorem hatch_history_fresh (h : Obj α) (o : Options α) (nan : P α) (B : Builder σ α)
    (fuel : Nat) (evs : List (PEv α)) (b0 : σ) :
    (objHatchPath h o nan B fuel evs b0).map OSt.toSt
      = (objHatchPath (Obj.fresh nan) o nan B fuel evs b0).map OSt.toSt := by
  rw [hatch_path_used_is_model, hatch_path_used_is_model]

/-- what the builder saw, in particular -/
theorem hatch_history_fresh_output (h : Obj α) (o : Options α) (nan : P α) (B : Builder σ α)
    (fuel : Nat) (evs : List (PEv α)) (b0 : σ) :
    (objHatchPath h o nan B fuel evs b0).map (·.b)
      = (objHatchPath (Obj.fresh nan) o nan B fuel evs b0).map (·.b) := by
  have := congrArg (Option.map (fun s : St σ α => s.b)) (hatch_history_fresh h o nan B fuel evs b0)
  simpa [Option.map_map, Function.comp_def, OSt.toSt] using this

/-- `dot_path` on any object state runs as the one-call model's `dotPath` -/
theorem dot_path_used_is_model (h : Obj α) (angle : α) (uvo nan : P α) (pat : DotPat α)
    (fuel : Nat) (evs : List (PEv α)) :
    (objDotPath h angle uvo nan pat fuel evs).map OSt.toSt = dotPath angle uvo nan pat fuel evs :=
  hatch_path_used_is_model h ⟨angle, uvo, false⟩ nan (h2d pat fuel) fuel evs ⟨[], 0, false⟩

/-- **dot_history_fresh.**  The same for `dot_path` (the `HatchesToDots` adapter is made anew per
call; the Hatcher underneath is the used one). -/
theorem dot_history_fresh (h : Obj α) (angle : α) (uvo nan : P α) (pat : DotPat α)
    (fuel : Nat) (evs : List (PEv α)) :
    (objDotPath h angle uvo nan pat fuel evs).map OSt.toSt
      = (objDotPath (Obj.fresh nan) angle uvo nan pat fuel evs).map OSt.toSt := by
  rw [dot_path_used_is_model, dot_path_used_is_model]

/-- what survives a call (1): `self.events` holds the call's own sorted edge list — nothing of an
earlier path (`set_path` clears the vector first) -/
theorem used_events_are_the_calls (h : Obj α) (o : Options α) (nan : P α) (B : Builder σ α)
    (fuel : Nat) (evs : List (PEv α)) (b0 : σ) (s : OSt σ α)
    (hs : objHatchPath h o nan B fuel evs b0 = some s) :
    s.h.events = buildEvents (Transc.cos o.angle) (Transc.sin o.angle) evs := by
  unfold objHatchPath at hs
  rw [setPath_eq] at hs
  cases hr : objHatch { h with events := [] } o nan B fuel
      (buildEvents (Transc.cos o.angle) (Transc.sin o.angle) evs) b0 with
  | none => rw [hr] at hs; simp at hs
  | some r =>
    rw [hr] at hs
    simp only [Option.map_some, Option.some.injEq] at hs
    rw [← hs]
    rfl

/-- what survives a call (2): a call ended early by its pattern (`stop`) leaves its active list —
the one of the row it stopped on — in the object; this is the state the next call starts from
(and, by `hatch_used_is_model`, clears before reading). -/
theorem used_active_is_the_calls (h : Obj α) (o : Options α) (nan : P α) (B : Builder σ α)
    (fuel : Nat) (evs : List (PEv α)) (b0 : σ) (s : OSt σ α) (st : St σ α)
    (hs : objHatchPath h o nan B fuel evs b0 = some s)
    (hm : hatchPath o nan B fuel evs b0 = some st) :
    s.h.active = st.active ∧ s.h.seg.row = st.row := by
  have := hatch_path_used_is_model h o nan B fuel evs b0
  rw [hs, hm] at this
  simp only [Option.map_some, Option.some.injEq] at this
  rw [← this]
  exact ⟨rfl, rfl⟩

section curved
variable [FlatConst α]

/-- `hatch_path` on any event stream (curves included), any object state -/
theorem hatch_path_curved_used_is_model (h : Obj α) (o : Options α) (tol : α) (nan : P α)
    (B : Builder σ α) (fuel : Nat) (evs : List (CEv α)) (b0 : σ) :
    (objHatchPathCurved h o tol nan B fuel evs b0).map OSt.toSt
      = hatchPathCurved o tol nan B fuel evs b0 := by
  unfold objHatchPathCurved hatchPathCurved
  cases flattenEvents tol evs ⟨zero, zero⟩ with
  | none => rfl
  | some pe => exact hatch_path_used_is_model h o nan B fuel pe b0

/-- `dot_path` on any event stream (curves included), any object state -/
theorem dot_path_curved_used_is_model (h : Obj α) (angle tol : α) (uvo nan : P α)
    (pat : DotPat α) (fuel : Nat) (evs : List (CEv α)) :
    (objDotPathCurved h angle tol uvo nan pat fuel evs).map OSt.toSt
      = dotPathCurved angle tol uvo nan pat fuel evs := by
  unfold objDotPathCurved dotPathCurved
  cases flattenEvents tol evs ⟨zero, zero⟩ with
  | none => rfl
  | some pe => exact dot_path_used_is_model h angle uvo nan pat fuel pe

/-- **call_on_used_is_fresh.**  The trace of a call (either entry point, any path / options /
pattern) on a Hatcher in any state is the trace of that call on a new Hatcher. -/
theorem call_on_used_is_fresh (nan : P α) (fuel : Nat) (h : Obj α) (c : Call α) :
    (c.run nan fuel h).1 = c.runFresh nan fuel := by
  cases c with
  | hatch o tol offs evs =>
    have := hatch_path_curved_used_is_model h o tol nan (logHatch offs) fuel evs []
    simp only [Call.run, Call.runFresh]
    cases hr : objHatchPathCurved h o tol nan (logHatch offs) fuel evs [] with
    | none =>
      rw [hr] at this
      simp only [Option.map_none] at this
      rw [← this]; rfl
    | some s =>
      rw [hr] at this
      simp only [Option.map_some] at this
      rw [← this]; rfl
  | dots angle uvo tol pat evs =>
    have := dot_path_curved_used_is_model h angle tol uvo nan pat fuel evs
    simp only [Call.run, Call.runFresh]
    cases hr : objDotPathCurved h angle tol uvo nan pat fuel evs with
    | none =>
      rw [hr] at this
      simp only [Option.map_none] at this
      rw [← this]; rfl
    | some s =>
      rw [hr] at this
      simp only [Option.map_some] at this
      rw [← this]; rfl

/-- **history_calls_fresh.**  The traces of a whole history run on ONE Hatcher — starting from any
state — are, call by call, the traces of the same calls each run on its own new Hatcher (up to the
first panic, where a history ends). -/
theorem history_calls_fresh (nan : P α) (fuel : Nat) :
    ∀ (cs : List (Call α)) (h : Obj α),
      runHistory nan fuel h cs = cutAtPanic (cs.map (Call.runFresh nan fuel)) := by
  intro cs
  induction cs with
  | nil => intro h; rfl
  | cons c cs ih =>
    intro h
    have hc := call_on_used_is_fresh nan fuel h c
    simp only [runHistory, List.map_cons, cutAtPanic]
    rw [← hc]
    cases hp : (c.run nan fuel h).1.isPanic
    · simp only [Bool.false_eq_true, if_false]
      rw [ih]
    · simp only [if_true]

/-- the k-th call of a history that does not panic: its trace is the fresh-Hatcher trace -/
theorem history_call_k_fresh (nan : P α) (fuel : Nat) (cs : List (Call α)) (h : Obj α)
    (hnp : ∀ c ∈ cs, (Call.runFresh nan fuel c).isPanic = false) :
    runHistory nan fuel h cs = cs.map (Call.runFresh nan fuel) := by
  rw [history_calls_fresh]
  induction cs with
  | nil => rfl
  | cons c cs ih =>
    simp only [List.map_cons, cutAtPanic, hnp c (List.mem_cons_self ..), Bool.false_eq_true, if_false]
    rw [ih (fun d hd => hnp d (List.mem_cons_of_mem _ hd))]

end curved
end generic

/-! ### C20's theorems on a used Hatcher -/

section field
variable {K : Type} [Field K] [LinearOrder K] [IsStrictOrderedRing K] [Transc K] {σ : Type}

/-- **used_row_is_evenodd_path.**  C20's main clause for a call on a Hatcher in ANY state: on every
hatched row, a point is strictly inside an emitted segment iff the even-odd crossing count of the
call's OWN path left of it is odd (no stale edge of an earlier path is counted). -/
theorem used_row_is_evenodd_path (h : Obj K) (o : Options K) (nan : P K) (B : Builder σ K)
    (fuel : Nat) (sps : List (P K × List (P K))) (b0 : σ) (s : OSt σ K)
    (hs : objHatchPath h o nan B fuel (pathEvents sps) b0 = some s) (r : Row K) (hr : r ∈ s.rows)
    (x : K)
    (hx : ∀ e ∈ buildEvents (Transc.cos o.angle) (Transc.sin o.angle) (pathEvents sps),
      e.a.y ≤ r.y → r.y < e.b.y → solveX e r.y ≠ x) :
    (∃ sg ∈ r.segs, sg.xa < x ∧ x < sg.xb) ↔
      crossingsLeft (buildEvents (Transc.cos o.angle) (Transc.sin o.angle) (pathEvents sps)) x r.y % 2 = 1 := by
  have hm := hatch_path_used_is_model h o nan B fuel (pathEvents sps) b0
  rw [hs] at hm
  exact Lyon.C20.row_is_evenodd_path o nan B fuel sps b0 s.toSt hm.symm r hr x hx

/-- **used_empty_path_no_output.**  An empty path on a used Hatcher: no builder call, no panic. -/
theorem used_empty_path_no_output (h : Obj K) (o : Options K) (nan : P K) (B : Builder σ K)
    (fuel : Nat) (b0 : σ) :
    ∃ s, objHatchPath h o nan B fuel [] b0 = some s ∧ s.b = b0 ∧ s.offs = [] ∧ s.rows = [] := by
  have hm := hatch_path_used_is_model h o nan B fuel [] b0
  rw [(Lyon.C20.empty_path_no_output_path o nan B fuel b0).1] at hm
  cases hr : objHatchPath h o nan B fuel [] b0 with
  | none => rw [hr] at hm; simp at hm
  | some s =>
    rw [hr] at hm
    simp only [Option.map_some, Option.some.injEq] at hm
    refine ⟨s, rfl, ?_, ?_, ?_⟩
    · have := congrArg St.b hm; exact this
    · have := congrArg St.offs hm; exact this
    · have := congrArg St.rows hm; exact this

/-- non-vacuity of `used_row_is_evenodd_path`'s premise `objHatchPath … = some s`: the call returns
on every object state (the `unwrap` is behind the `is_empty` guard) -/
theorem used_hatch_total (h : Obj K) (o : Options K) (nan : P K) (B : Builder σ K) (fuel : Nat)
    (evs : List (PEv K)) (b0 : σ) : ∃ s, objHatchPath h o nan B fuel evs b0 = some s := by
  have hm := hatch_path_used_is_model h o nan B fuel evs b0
  cases hr : objHatchPath h o nan B fuel evs b0 with
  | some s => exact ⟨s, rfl⟩
  | none =>
    rw [hr] at hm
    have ht := Lyon.C20.hatch_total (mkCfg o nan) B fuel
      (buildEvents (Transc.cos o.angle) (Transc.sin o.angle) evs) b0
    unfold hatchPath at hm
    rw [← hm] at ht
    simp at ht

/-! ### Non-vacuity (over `ℚ`, with `Lyon.C20.exTransc`: `cos = sin = id`) -/

section Examples
open Lyon.C20

/-- a Hatcher as an early `return` can leave it: a stale active edge of an earlier path that spans
the rows of the next one (`x = -5`, `y ∈ [-5, 50)`), 7 rows hatched, tangents on, another
transform and uv origin -/
noncomputable def exUsed : Obj ℚ :=
  { events := [⟨⟨-5, -5⟩, ⟨-5, 50⟩⟩], active := [⟨⟨-5, -5⟩, ⟨-5, 50⟩⟩], tr := 3, ct := true,
    seg := { xa := 4, xb := 6, pa := ⟨4, 4⟩, ua := 4, ta := ⟨1, 0⟩, pb := ⟨6, 4⟩, ub := 6,
             tb := ⟨0, 1⟩, row := 7, v := 4 },
    uvo := ⟨9, 9⟩ }

/-- hypotheses of `used_row_is_evenodd_path` / `used_active_is_the_calls` (edge-list level): on
`exUsed` — evaluated directly on the OBJECT model, not through the theorems — `hatch` of the two
vertical sides of the square (0,0)–(2,2) with a regular pattern of interval 1 returns, records the
row `y = 1` as row 0 with the single segment `(0, 2)` (the stale edge at `x = -5` is not counted),
and `x = 1` lies inside it. -/
example : ∃ s, objHatch exUsed ⟨-1, ⟨0, 0⟩, false⟩ ⟨0, 0⟩ (regularHatch (1:ℚ)) 2 exEdges [] = some s ∧
    s.stop = false ∧ s.h.seg.row = 1 ∧
    ∃ r ∈ s.rows, r.y = 1 ∧ r.idx = 0 ∧ r.segs.length = 1 ∧ ∃ sg ∈ r.segs, sg.xa < 1 ∧ 1 < sg.xb := by
  refine ⟨_, rfl, ?_⟩
  have h1 : (Ordering.gt != Ordering.lt) = true := by decide
  norm_num [exEdges, exUsed, regularHatch, logHatch, objFinish, objHatchEdges, objRowsWhile,
    objRowStep, objHatchLine, objLineLoop, objInit, objPrologue, objSweep, vclear, bumpRow, consFst,
    writeSeg, objTangent, sortActive, isort, insertBy, solveX, Seg.x, Seg.solveTForY, updateSweep,
    cmpPos, sc_beq, sc_max, List.filter, h1]

/-- … and `hatch_path` returns on `exUsed` for every options / builder / event stream (premise
`objHatchPath … = some s` of `used_events_are_the_calls`, `used_active_is_the_calls`,
`used_row_is_evenodd_path`) -/
example (o : Options ℚ) (B : Builder Unit ℚ) (evs : List (PEv ℚ)) :
    ∃ s, objHatchPath exUsed o ⟨0, 0⟩ B 5 evs () = some s :=
  used_hatch_total exUsed o ⟨0, 0⟩ B 5 evs ()

/-- hypothesis of `history_call_k_fresh`: a history of two polygonal calls (a `hatch_path` ended
by its pattern at row 1, then a `dot_path`) in which no call panics -/
example [FlatConst ℚ] :
    ∀ c ∈ [Call.hatch ⟨(1:ℚ), ⟨0, 0⟩, true⟩ (1/10) (fun r => if r = 1 then 0 else 1)
             [.begin ⟨0, 0⟩, .line ⟨4, 0⟩, .line ⟨0, 4⟩, .close],
           Call.dots (1:ℚ) ⟨0, 0⟩ (1/10) (regularDots (1/2) 1)
             [.begin ⟨1, 1⟩, .line ⟨3, 1⟩, .line ⟨1, 3⟩, .close]],
      (Call.runFresh (⟨0, 0⟩ : P ℚ) 5 c).isPanic = false := by
  intro c hc
  simp only [List.mem_cons, List.not_mem_nil, or_false] at hc
  rcases hc with rfl | rfl
  · simp only [Call.runFresh, hatchPathCurved, flattenEvents, Option.map_some, hatchPath]
    have ht := hatch_total (mkCfg ⟨(1:ℚ), ⟨0, 0⟩, true⟩ ⟨0, 0⟩)
      (logHatch (fun r => if r = 1 then (0:ℚ) else 1)) 5
      (buildEvents (Transc.cos (1:ℚ)) (Transc.sin (1:ℚ))
        [.begin ⟨0, 0⟩, .line ⟨4, 0⟩, .line ⟨0, 4⟩, .close]) []
    obtain ⟨st, hst⟩ := Option.isSome_iff_exists.mp ht
    rw [hst]; rfl
  · simp only [Call.runFresh, dotPathCurved, flattenEvents, Option.map_some, dotPath, hatchPath]
    have ht := hatch_total (mkCfg ⟨(1:ℚ), ⟨0, 0⟩, false⟩ ⟨0, 0⟩)
      (h2d (regularDots (1/2 : ℚ) 1) 5) 5
      (buildEvents (Transc.cos (1:ℚ)) (Transc.sin (1:ℚ))
        [.begin ⟨1, 1⟩, .line ⟨3, 1⟩, .line ⟨1, 3⟩, .close]) ⟨[], 0, false⟩
    obtain ⟨st, hst⟩ := Option.isSome_iff_exists.mp ht
    rw [hst]; rfl

end Examples

end field

end Lyon.C20b
