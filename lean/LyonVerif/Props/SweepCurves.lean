/-
  Theorems about the event-queue builder on CURVES (`Model/Tess/SweepCurves.lean`:
  `quadSegment` / `cubicSegment` = `EventQueueBuilder::{quadratic_bezier_segment,
  cubic_bezier_segment}` with the flattening of `Model/Geom/Flatten.lean` inside), over any
  linearly ordered field; `sqrt`, `ceil`, … are parameters (`Transc K`), no law of theirs is used.

  * `quad_flip_sample` / `cubic_flip_sample` — the curve with its ends (and control points)
    swapped, at `1 - t`, is the curve at `t`: the identity behind `needs_swap`.
  * `quadSegment_rep` — FULL STRENGTH, no hypothesis on the flattening: every record
    `quadratic_bezier_segment` stores for the curve `C` from the current point satisfies the
    representation invariant of C07 with respect to the ORIGINAL curve: its position is `C t0`,
    its `to` is `C t1` — whichever way the curve points, i.e. also when it is flattened from its
    end (the property behind fix 8662f1bc), and for every tolerance.
    (For cubics the analogous statement is false in exact arithmetic and not claimed: the pieces'
    end points lie on the approximating quadratics, not on the cubic.)
  * `curve_edges_fold` / `quadSegment_ranges_tile` / `cubicSegment_ranges_tile` — the t-ranges:
    the flattening's pieces tile `[0,1]` in order (a chain from parameter 0 to parameter 1, from
    the curve's start point to its end point), and the edge records stored for the curve carry,
    read in the direction of the flattening (`flatRange`), exactly the ranges of the
    non-degenerate pieces in order — `t` itself for a curve flattened from its start, `1 - t` for
    one flattened from its end, so that read along the ORIGINAL curve they tile `[0,1]` from 1
    down to 0; older records are untouched.
  Everything is proved (kernel-checked); every theorem with hypotheses has a non-vacuity example.
-/
import LyonVerif.Lemmas.SweepCurves

set_option linter.unusedSectionVars false
set_option linter.unusedVariables false
set_option linter.unusedSimpArgs false

namespace Lyon.SweepCurvesProps
open Lyon Lyon.Scalar Lyon.Sources Lyon.SweepCurves Lyon.Flat

variable {K : Type} [Field K] [LinearOrder K] [IsStrictOrderedRing K]

/-! ### the flip identities -/

/-- the quadratic with its ends swapped, at `1 - t`, is the original at `t` -/
theorem quad_flip_sample (a c b : P K) (t : K) :
    (⟨b, c, a⟩ : Quad K).sample (1 - t) = (⟨a, c, b⟩ : Quad K).sample t := by
  cases a; cases c; cases b; geom_ring

/-- the cubic with its ends and its control points swapped, at `1 - t`, is the original at `t` -/
theorem cubic_flip_sample (a c1 c2 b : P K) (t : K) :
    (⟨b, c2, c1, a⟩ : Cubic K).sample (1 - t) = (⟨a, c1, c2, b⟩ : Cubic K).sample t := by
  cases a; cases c1; cases c2; cases b; geom_ring

/-! ### the stored edge records and their ranges -/

/-- `curveSegment`: with `l` the flattening used (of the curve, or of the flipped curve when
`needs_swap`), the edge records added are the non-degenerate pieces of `l` in order -/
theorem curveSegment_edges (b : Builder K) (dest : P K) (toId : Nat) (l : List (Piece K)) :
    (edgesOf (b.curveSegment dest toId l l).recs).map
        (flatRange (if isAfter b.current dest then -1 else 1))
      = ((l.filter nondeg).map (storedRange (isAfter b.current dest))).reverse
        ++ (edgesOf b.recs).map (flatRange (if isAfter b.current dest then -1 else 1)) := by
  unfold Builder.curveSegment
  simp only [ite_self]
  rw [curveTail_edges, curve_edges_fold _ _ (by split <;> decide)]

/-! ### the t-ranges stored for a curve -/

section flat
variable [Transc K] [FlatConst K]

/-- **`quadratic_bezier_segment`: the t-ranges.**  If the call returns, there is the flattening
`l` it used — of the curve from the current point, or of the swapped curve when the curve points
against the sweep — which tiles `[0,1]` from the (possibly swapped) start point to the end point;
the edge records stored by the call are, newest first, the non-degenerate pieces of `l`, carrying
the range `t0..t1` (flattened from the start) resp. `1-t0..1-t1` (flattened from the end) in
flattening direction; the records stored before are unchanged. -/
theorem quadSegment_ranges_tile (b : Builder K) (tol : K) (ctrl dest : P K) (toId : Nat) (b' : Builder K)
    (h : quadSegment b tol ctrl dest toId = some b') :
    ∃ l : List (FlatSeg K),
      Tiles (if isAfter b.current dest then dest else b.current)
            (if isAfter b.current dest then b.current else dest) l ∧
      (edgesOf b'.recs).map (flatRange (if isAfter b.current dest then -1 else 1))
        = ((l.filter (fun s => !(s.a == s.b))).map
              (fun s => (pieceT (isAfter b.current dest) s.t0, pieceT (isAfter b.current dest) s.t1))).reverse
          ++ (edgesOf b.recs).map (flatRange (if isAfter b.current dest then -1 else 1)) := by
  unfold quadSegment at h
  simp only at h
  split at h
  · cases h
  · rename_i l hl
    cases h
    refine ⟨l, ?_, ?_⟩
    · have := quad_tiles _ tol l hl
      by_cases hs : isAfter b.current dest = true
      · simpa [hs] using this
      · simpa [hs] using this
    · rw [curveSegment_edges, toPieces_filter_map]

/-- **`cubic_bezier_segment`: the t-ranges** (as `quadSegment_ranges_tile`; the swapped cubic
also swaps its control points) -/
theorem cubicSegment_ranges_tile (b : Builder K) (tol : K) (c1 c2 dest : P K) (toId : Nat) (b' : Builder K)
    (h : cubicSegment b tol c1 c2 dest toId = some b') :
    ∃ l : List (FlatSeg K),
      Tiles (if isAfter b.current dest then dest else b.current)
            (if isAfter b.current dest then b.current else dest) l ∧
      (edgesOf b'.recs).map (flatRange (if isAfter b.current dest then -1 else 1))
        = ((l.filter (fun s => !(s.a == s.b))).map
              (fun s => (pieceT (isAfter b.current dest) s.t0, pieceT (isAfter b.current dest) s.t1))).reverse
          ++ (edgesOf b.recs).map (flatRange (if isAfter b.current dest then -1 else 1)) := by
  unfold cubicSegment at h
  simp only at h
  split at h
  · cases h
  · rename_i l hl
    cases h
    refine ⟨l, ?_, ?_⟩
    · have := cubic_tiles _ tol l hl
      by_cases hs : isAfter b.current dest = true
      · simpa [hs] using this
      · simpa [hs] using this
    · rw [curveSegment_edges, toPieces_filter_map]

/-! ### the stored parameters are those of the ORIGINAL curve -/

/-- **`quadratic_bezier_segment` establishes the representation invariant**, full strength: every
record stored by the call (edge records of the pieces, vertex events on the curve, the vertex
event of the curve's origin) has its position at `C t0` and its `to` at `C t1` for the ORIGINAL
quadratic `C` from the current point through `ctrl` to `dest` — also when the curve points against
the sweep and is flattened from its end, for every tolerance and every segment count. -/
theorem quadSegment_rep (b : Builder K) (tol : K) (ctrl dest : P K) (toId : Nat) (b' : Builder K)
    (h : quadSegment b tol ctrl dest toId = some b') :
    ∀ r ∈ b'.recs, r ∈ b.recs ∨ C07.RepRec (Quad.sample ⟨b.current, ctrl, dest⟩) r := by
  unfold quadSegment at h
  simp only at h
  split at h
  · cases h
  · rename_i l hl
    cases h
    have hon := quad_flat_ends_on _ tol l hl
    unfold Builder.curveSegment
    simp only [ite_self]
    apply C07.rep_curve_tail _ b.recs b _ b.current dest toId _ (quad_sample_zero ⟨b.current, ctrl, dest⟩).symm
    apply C07.rep_curve_fold _ b.recs _ _ toId (toPieces l)
    · intro p hp
      simp only [toPieces, List.mem_map] at hp
      obtain ⟨s, hs, rfl⟩ := hp
      obtain ⟨ha, hb⟩ := hon s hs
      by_cases hsw : isAfter b.current dest = true
      · simp only [hsw, ↓reduceIte] at ha hb
        simp only [hsw, pieceT, ↓reduceIte, show (one : K) = 1 from sc_one]
        rw [quad_flip_sample dest ctrl b.current, quad_flip_sample dest ctrl b.current]
        exact ⟨ha, hb⟩
      · have hsw' : isAfter b.current dest = false := by simpa using hsw
        simp only [hsw', Bool.false_eq_true, ↓reduceIte] at ha hb
        simp only [hsw', pieceT, Bool.false_eq_true, ↓reduceIte]
        exact ⟨ha, hb⟩
    · intro r hr; exact Or.inl hr

end flat

/-! ### a curve within the tolerance of its chord is stored as one piece; non-vacuity -/

section linear
variable [Transc K] [FlatConst K]

/-- a quadratic whose control point is its start point is `is_linear` for every tolerance -/
theorem isLinear_ctrl_at_start (a b : P K) (tol : K) : (⟨a, a, b⟩ : Quad K).isLinear tol = true := by
  have h : segSqDist a b a = 0 := by
    cases a; cases b
    simp [segSqDist, segClosestPoint, geom]
  simp only [Quad.isLinear, h, decide_eq_true_eq]
  have : (0 : K) ≤ tol * tol := mul_self_nonneg tol
  simp only [geom] at *
  nlinarith

/-- `is_linear` curves are one piece `from → to` with range `0..1` (`toNat 0 = 0` is the one law of
the float-to-integer cast that is used) -/
theorem quad_flat_linear (q : Quad K) (tol : K) (hl : q.isLinear tol = true) (h0 : Transc.toNat (0 : K) = 0) :
    q.forEachFlattenedWithT tol = some [⟨q.a, q.b, 0, 1⟩] := by
  have hz : (zero : K) = 0 := sc_zero
  have ho : (one : K) = 1 := sc_one
  simp only [Quad.forEachFlattenedWithT, FlatParams.new, hl, ↓reduceIte, FlatParams.linear, toU32]
  rw [if_pos (by simp only [geom, hz, ho]; constructor <;> norm_num)]
  simp [Quad.flatWith, Quad.flatLoop, hz, ho, h0]

end linear

section examples

/-- a trivial `Transc` / `FlatConst` on ℚ for the examples (`sqrt`, `ceil`, … are parameters of the
theorems; the curve below is `is_linear`, so the flattening only consults `toNat 0`) -/
instance exTransc : Transc ℚ where
  sqrt x := x
  cbrt x := x
  sin _ := 0
  cos _ := 1
  tan _ := 0
  acos _ := 0
  atan2 _ _ := 0
  pow x _ := x
  log2 x := x
  ln x := x
  floor x := x
  ceil x := x
  toNat _ := 0
  fmod x _ := x
  eps := 0
  pi := 3
  isNaN _ := false
  isFinite _ := true

instance exFlatConst : FlatConst ℚ where
  epsilon := 1 / 10000
  value m e := (m : ℚ) / 10 ^ e
  d4 := 1 / 5

/-- non-vacuity of the hypothesis `quadSegment … = some b'` in the interesting direction: a
quadratic drawn AGAINST the sweep, from (0,2) up to (0,0) (control point at its end): it is
flattened from its end, as the one piece `(0,0) → (0,2)` of the swapped curve -/
example :
    let b0 : Builder ℚ := Builder.init.begin ⟨0, 2⟩ 7
    isAfter b0.current (⟨0, 0⟩ : P ℚ) = true ∧
    quadSegment b0 (1/10) ⟨0, 0⟩ ⟨0, 0⟩ 8
      = some (b0.curveSegment ⟨0, 0⟩ 8 [⟨⟨0, 0⟩, ⟨0, 2⟩, 0, 1⟩] [⟨⟨0, 0⟩, ⟨0, 2⟩, 0, 1⟩]) := by
  intro b0
  have ha : isAfter b0.current (⟨0, 0⟩ : P ℚ) = true := by
    simp [b0, Builder.begin, isAfter]
  refine ⟨ha, ?_⟩
  have hq := quad_flat_linear (⟨⟨0, 0⟩, ⟨0, 0⟩, ⟨0, 2⟩⟩ : Quad ℚ) (1/10) (isLinear_ctrl_at_start _ _ _)
    (by simp [Transc.toNat])
  unfold quadSegment
  simp only [ha, ↓reduceIte]
  have hc : b0.current = ⟨0, 2⟩ := rfl
  rw [hc, hq]
  rfl

example : (⟨⟨0, 0⟩, ⟨0, 1⟩, ⟨0, 2⟩⟩ : Quad ℚ).sample (1 - 1/4) = (⟨⟨0, 2⟩, ⟨0, 1⟩, ⟨0, 0⟩⟩ : Quad ℚ).sample (1/4) :=
  quad_flip_sample _ _ _ _

example : (⟨⟨0, 0⟩, ⟨1, 1⟩, ⟨3, 1⟩, ⟨4, 2⟩⟩ : Cubic ℚ).sample (1 - 1/4)
    = (⟨⟨4, 2⟩, ⟨3, 1⟩, ⟨1, 1⟩, ⟨0, 0⟩⟩ : Cubic ℚ).sample (1/4) :=
  cubic_flip_sample _ _ _ _ _

/-- `curveSegment_edges` on that instance: the one stored edge record carries, in flattening
direction, the range `1 - 0 .. 1 - 1` of the original curve -/
example :
    let b0 : Builder ℚ := Builder.init.begin ⟨0, 2⟩ 7
    (edgesOf (b0.curveSegment ⟨0, 0⟩ 8 [⟨⟨0, 0⟩, ⟨0, 2⟩, 0, 1⟩] [⟨⟨0, 0⟩, ⟨0, 2⟩, 0, 1⟩]).recs).map (flatRange (-1))
      = [((1 : ℚ), (0 : ℚ))] := by
  intro b0
  have ha : isAfter b0.current (⟨0, 0⟩ : P ℚ) = true := by
    simp [b0, Builder.begin, isAfter]
  have h := curveSegment_edges b0 ⟨0, 0⟩ 8 [⟨⟨0, 0⟩, ⟨0, 2⟩, 0, 1⟩]
  simp only [ha, ↓reduceIte] at h
  rw [h]
  simp [nondeg, storedRange, pieceT, edgesOf, b0, Builder.begin, Builder.init, C07.beq_P]

/-- non-vacuity for the cubic: the straight cubic from (0,3) UP to (0,0) is flattened from its end
as the one piece `(0,0) → (0,3)` of the swapped cubic (control points swapped too) -/
example :
    let b0 : Builder ℚ := Builder.init.begin ⟨0, 3⟩ 7
    isAfter b0.current (⟨0, 0⟩ : P ℚ) = true ∧
    cubicSegment b0 (1/10) ⟨0, 2⟩ ⟨0, 1⟩ ⟨0, 0⟩ 8
      = some (b0.curveSegment ⟨0, 0⟩ 8 [⟨⟨0, 0⟩, ⟨0, 3⟩, 0, 1⟩] [⟨⟨0, 0⟩, ⟨0, 3⟩, 0, 1⟩]) := by
  intro b0
  have ha : isAfter b0.current (⟨0, 0⟩ : P ℚ) = true := by
    simp [b0, Builder.begin, isAfter]
  refine ⟨ha, ?_⟩
  have hc : b0.current = ⟨0, 3⟩ := rfl
  unfold cubicSegment
  rw [hc] at ha ⊢
  simp only [ha, ↓reduceIte]
  have hq : (⟨⟨0, 0⟩, ⟨0, 1⟩, ⟨0, 2⟩, ⟨0, 3⟩⟩ : Cubic ℚ).forEachFlattenedWithT (1/10)
      = some [⟨⟨0, 0⟩, ⟨0, 3⟩, 0, 1⟩] := by
    simp [Cubic.forEachFlattenedWithT, Cubic.forEachQuadraticWithT, Cubic.numQuadraticsImpl, toU32,
      Transc.toNat, Transc.ceil, Transc.pow, geom]
    norm_num [FlatConst.value, Cubic.quadsLoop, Cubic.flatQuadsT, Cubic.splitRange, Cubic.toQuadratic,
      Cubic.sample, geom]
    have hl : (⟨⟨0, 0⟩, ⟨0, 3 / 2⟩, ⟨0, 3⟩⟩ : Quad ℚ).isLinear (3 / 50) = true := by
      simp [Quad.isLinear, segSqDist, segClosestPoint, geom]
      norm_num
    have hql := quad_flat_linear (⟨⟨0, 0⟩, ⟨0, 3 / 2⟩, ⟨0, 3⟩⟩ : Quad ℚ) (3 / 50) hl rfl
    simp only [Quad.forEachFlattenedWithT] at hql
    rw [hql]
    simp [Cubic.rerange, geom]
  rw [hq]
  rfl

end examples

end Lyon.SweepCurvesProps
