/-
  C10 (growth) — the analytic half of "curve operations are consistent with evaluation":
  the derivative is the slope of the sampled curve (`HasDerivAt` over ℝ), and the length of a
  quadratic (closed form of `QuadraticBezierSegment::length`, `Model/Geom/Length.lean`) is the
  arclength integral, hence additive under splitting.

  What is proved: (ii) `derivative_hasDerivAt` (Seg/Quad/Cubic, from the Taylor identities of
  `Props/C10.lean`); (i) `quad_length_closed_form`: in the branch where the code evaluates its closed
  form with the logarithm, `q.length = ∫₀¹ |Q'(t)| dt` over ℝ (fundamental theorem of calculus on the
  code's primitive, `quad_primitive_hasDerivAt`); (iii) `length_additive_of_integral` (exact
  arclength of the pieces of `split(t)` adds up, all quadratics) and `quad_length_additive` (the
  code's `length` is exactly additive when all three segments are in the closed-form branch).

  What is NOT proved (named gaps, covered by the oracle's tolerance only):
  * the "almost straight" branch (`a < 1e-4·c`) is a 3-point Gauss–Legendre quadrature — an
    approximation by design, no exact statement exists;
  * the "sharp turn" branch (`b·a^(-1/2) + 2√c < EPSILON`) drops the logarithmic term; that is exact
    only at a true cusp (`4ac = b²`), otherwise an `O(EPSILON)` approximation;
  * `a = 0` (degree-one parameterisation) is excluded by `ClosedFormBranch` (`a^(-1/2)` is taken);
  * cubic / arc `approximate_length` are sums over an approximation and have no exact counterpart;
  * IEEE rounding (e.g. `a+b+c` cancelling to a negative number → NaN) is outside the theorems.

  Everything is stated about the model `def`s of `Model/Geom/{Basic,Length}.lean` instantiated at
  `ℝ` (the same `def`s the driver runs at `Float32`/`Float` and compares bit-for-bit with lyon).
-/
import LyonVerif.Props.C10
import LyonVerif.Model.Geom.Length
import LyonVerif.Lemmas.ArcLength

set_option linter.unusedSectionVars false
set_option linter.unusedVariables false

geom_all Lyon.Quad

namespace Lyon.C10
open Lyon Scalar Lyon.ArcLen

/-! ### (ii) the derivative is the slope of the sampled curve, analytically -/

theorem seg_derivative_hasDerivAt (s : Seg ℝ) (t : ℝ) :
    HasDerivAt (fun u => (s.sample u).x) s.toVector.x t ∧
    HasDerivAt (fun u => (s.sample u).y) s.toVector.y t := by
  constructor
  · refine hasDerivAt_of_taylor _ t (s.sample t).x _ 0 0 fun h => ?_
    rw [congrArg P.x (seg_derivative_slope s t h)]; simp only [geom]; ring
  · refine hasDerivAt_of_taylor _ t (s.sample t).y _ 0 0 fun h => ?_
    rw [congrArg P.y (seg_derivative_slope s t h)]; simp only [geom]; ring

/-- `QuadraticBezierSegment::derivative(t)` is the derivative of `sample` at `t`, coordinate-wise
(from the exact Taylor identity `quad_derivative_slope`). -/
theorem quad_derivative_hasDerivAt (q : Quad ℝ) (t : ℝ) :
    HasDerivAt (fun u => (q.sample u).x) (q.derivative t).x t ∧
    HasDerivAt (fun u => (q.sample u).y) (q.derivative t).y t := by
  constructor
  · refine hasDerivAt_of_taylor _ t (q.sample t).x _ ((q.a - q.c.smul 2) + q.b).x 0 fun h => ?_
    rw [congrArg P.x (quad_derivative_slope q t h)]; simp only [geom]; ring
  · refine hasDerivAt_of_taylor _ t (q.sample t).y _ ((q.a - q.c.smul 2) + q.b).y 0 fun h => ?_
    rw [congrArg P.y (quad_derivative_slope q t h)]; simp only [geom]; ring

/-- `CubicBezierSegment::derivative(t)` is the derivative of `sample` at `t`, coordinate-wise
(from the exact Taylor identity `cubic_derivative_slope`). -/
theorem cubic_derivative_hasDerivAt (c : Cubic ℝ) (t : ℝ) :
    HasDerivAt (fun u => (c.sample u).x) (c.derivative t).x t ∧
    HasDerivAt (fun u => (c.sample u).y) (c.derivative t).y t := by
  constructor
  · refine hasDerivAt_of_taylor _ t (c.sample t).x _
      (((c.a - c.c1.smul 2) + c.c2).smul (3 * (1 - t)) + ((c.c1 - c.c2.smul 2) + c.b).smul (3 * t)).x
      ((((c.b - c.c2.smul 3) + c.c1.smul 3) - c.a).x) fun h => ?_
    rw [congrArg P.x (cubic_derivative_slope c t h)]; simp only [geom]
  · refine hasDerivAt_of_taylor _ t (c.sample t).y _
      (((c.a - c.c1.smul 2) + c.c2).smul (3 * (1 - t)) + ((c.c1 - c.c2.smul 2) + c.b).smul (3 * t)).y
      ((((c.b - c.c2.smul 3) + c.c1.smul 3) - c.a).y) fun h => ?_
    rw [congrArg P.y (cubic_derivative_slope c t h)]; simp only [geom]

/-- The property's "the derivative matches the slope of the sampled curve" in analytic form, for
the three polynomial segment types at once; `dx`/`dy` and `x`/`y` are the same numbers
(`quad_dxdy_components`, `quad_xy_components`, …), so the scalar accessors are covered too. -/
theorem derivative_hasDerivAt :
    (∀ (s : Seg ℝ) (t : ℝ), HasDerivAt (fun u => (s.sample u).x) s.toVector.x t ∧
        HasDerivAt (fun u => (s.sample u).y) s.toVector.y t) ∧
    (∀ (q : Quad ℝ) (t : ℝ), HasDerivAt (fun u => (q.sample u).x) (q.derivative t).x t ∧
        HasDerivAt (fun u => (q.sample u).y) (q.derivative t).y t) ∧
    (∀ (c : Cubic ℝ) (t : ℝ), HasDerivAt (fun u => (c.sample u).x) (c.derivative t).x t ∧
        HasDerivAt (fun u => (c.sample u).y) (c.derivative t).y t) :=
  ⟨seg_derivative_hasDerivAt, quad_derivative_hasDerivAt, cubic_derivative_hasDerivAt⟩

/-- the scalar accessors: `x(t)` has derivative `dx(t)`, `y(t)` has derivative `dy(t)` -/
theorem quad_dx_dy_hasDerivAt (q : Quad ℝ) (t : ℝ) :
    HasDerivAt q.x (q.dx t) t ∧ HasDerivAt q.y (q.dy t) t := by
  have h := quad_derivative_hasDerivAt q t
  have ex : q.x = fun u => (q.sample u).x := funext fun u => (quad_xy_components q u).1
  have ey : q.y = fun u => (q.sample u).y := funext fun u => (quad_xy_components q u).2
  rw [ex, ey, (quad_dxdy_components q t).1, (quad_dxdy_components q t).2]
  exact h

theorem cubic_dx_dy_hasDerivAt (c : Cubic ℝ) (t : ℝ) :
    HasDerivAt c.x (c.dx t) t ∧ HasDerivAt c.y (c.dy t) t := by
  have h := cubic_derivative_hasDerivAt c t
  have ex : c.x = fun u => (c.sample u).x := funext fun u => (cubic_xy_components c u).1
  have ey : c.y = fun u => (c.sample u).y := funext fun u => (cubic_xy_components c u).2
  rw [ex, ey, (cubic_dxdy_components c t).1, (cubic_dxdy_components c t).2]
  exact h


/-! ### (i) `QuadraticBezierSegment::length` is the arclength integral

`sqrt`, `powf`, `ln` are parameters of the model (`[Transc ℝ]`); the theorems assume they are the
real functions (`IsRealTransc`). `[FlatConst ℝ]` (lyon's `EPSILON`, `S::value`) stays arbitrary. -/

open Real Lyon.ArcLen

/-- the model's libm parameters are the real `√`, `x^y`, `log` -/
structure IsRealTransc [Transc ℝ] : Prop where
  sqrt_eq : ∀ x : ℝ, Transc.sqrt x = √x
  pow_eq : ∀ x y : ℝ, Transc.pow x y = x ^ y
  ln_eq : ∀ x : ℝ, Transc.ln x = Real.log x

/-- `|Q'(t)|`: euclidean norm of `QuadraticBezierSegment::derivative(t)` -/
noncomputable def speed (q : Quad ℝ) (t : ℝ) : ℝ :=
  √((q.derivative t).x * (q.derivative t).x + (q.derivative t).y * (q.derivative t).y)

/-- exact arclength of `q` between parameters `x` and `y` -/
noncomputable def arclen (q : Quad ℝ) (x y : ℝ) : ℝ := ∫ t in x..y, speed q t

section
variable [Transc ℝ] [FlatConst ℝ]

/-- the code's coefficients: `|Q'(t)|² = 4·(a t² + b t + c)` with `a = |d2|²`, `b = 2 d2·d1`, `c = |d1|²` -/
theorem quad_speed_eq (q : Quad ℝ) (t : ℝ) : speed q t = 2 * √(qP q.lenA q.lenB q.lenC t) := by
  have e : (q.derivative t).x * (q.derivative t).x + (q.derivative t).y * (q.derivative t).y
      = (2 * 2) * qP q.lenA q.lenB q.lenC t := by
    simp only [qP, geom]; ring
  rw [speed, e, Real.sqrt_mul (by norm_num), Real.sqrt_mul_self (by norm_num)]

/-- Lagrange: `4ac − b² = 4·(d2 × d1)² ≥ 0` (Cauchy–Schwarz for the code's coefficients) -/
theorem quad_len_disc (q : Quad ℝ) : q.lenB * q.lenB ≤ 4 * q.lenA * q.lenC := by
  have e : 4 * q.lenA * q.lenC - q.lenB * q.lenB = 4 * (q.lenD2.cross q.lenD1 * q.lenD2.cross q.lenD1) := by
    simp only [geom]; ring
  nlinarith [mul_self_nonneg (q.lenD2.cross q.lenD1)]

/-- The code takes the closed-form branch with the logarithm: not "almost straight", a genuine
parabola (`a > 0`), and not a "sharp turn" (`b·a^(-1/2) + 2√c ≥ EPSILON`). -/
def ClosedFormBranch (q : Quad ℝ) : Prop :=
  q.almostStraight = false ∧ 0 < q.lenA ∧ FlatConst.epsilon ≤ q.lenB * (√q.lenA)⁻¹ + 2 * √q.lenC

/-- the closed form on coefficients is `qF 1 − qF 0` for the primitive `qF` of `Lemmas/ArcLength.lean` -/
theorem lengthClosed_eq_primitive (hT : IsRealTransc) {a b c : ℝ} (ha : 0 < a) (hD : b * b ≤ 4 * a * c)
    (hε : 0 < (FlatConst.epsilon : ℝ)) (hns : FlatConst.epsilon ≤ b * (√a)⁻¹ + 2 * √c) :
    Quad.lengthClosed a b c = qF a b c 1 - qF a b c 0 := by
  have h5 : ((5:ℝ) / 10 ^ 1) = 1 / 2 := by norm_num
  have hr : 0 < √a := Real.sqrt_pos.mpr ha
  have hrr : √a * √a = a := Real.mul_self_sqrt ha.le
  have hbr : ¬ (b * (√a)⁻¹ + 2 * √c < FlatConst.epsilon) := not_lt.mpr hns
  have hP0 : qP a b c 0 = c := by simp [qP]
  have hP1 : qP a b c 1 = a + b + c := by simp [qP]
  have hd0 : qdP a b 0 = b := by simp [qdP]
  have hd1 : qdP a b 1 = 2 * a + b := by simp [qdP]
  have hG0 : qG a b c 0 = √a * (b * (√a)⁻¹ + 2 * √c) := by
    rw [qG, hP0, hd0]; field_simp; ring
  have hG0pos : 0 < b * (√a)⁻¹ + 2 * √c := lt_of_lt_of_le hε hns
  have hG0pos' : 0 < qG a b c 0 := by rw [hG0]; exact mul_pos hr hG0pos
  have hG1 : qG a b c 1 = √a * ((2 * a + b) * (√a)⁻¹ + 2 * √(a + b + c)) := by
    rw [qG, hP1, hd1]; field_simp; ring
  have hG1pos' : 0 < qG a b c 1 := G_pos ha hD hG0pos' zero_le_one
  have hlog : Real.log (((2 * a + b) * (√a)⁻¹ + 2 * √(a + b + c)) / (b * (√a)⁻¹ + 2 * √c))
      = Real.log (qG a b c 1) - Real.log (qG a b c 0) := by
    rw [← Real.log_div hG1pos'.ne' hG0pos'.ne', hG0, hG1, mul_div_mul_left _ _ hr.ne']
  simp only [Quad.lengthClosed, geom, hT.sqrt_eq, hT.pow_eq, hT.ln_eq, Nat.cast_ofNat, h5,
    rpow_neg_half ha, if_neg hbr]
  rw [hlog, qF, qF, hP0, hP1, hd0, hd1]
  generalize Real.log (qG a b c 1) = L1
  generalize Real.log (qG a b c 0) = L0
  generalize √(a + b + c) = S1
  generalize √c = S0
  have ha' : a = √a * √a := hrr.symm
  generalize √a = r at *
  subst ha'
  field_simp
  ring

/-- in the closed-form branch the code's "not a sharp turn" quantity is `qG 0 / √a`, so `qG > 0` on `[0, ∞)` -/
theorem closedForm_G0_pos (q : Quad ℝ) (hε : 0 < (FlatConst.epsilon : ℝ)) (h : ClosedFormBranch q) :
    0 < qG q.lenA q.lenB q.lenC 0 := by
  obtain ⟨_, ha, hns⟩ := h
  have hr : 0 < √q.lenA := Real.sqrt_pos.mpr ha
  have e : qG q.lenA q.lenB q.lenC 0 = √q.lenA * (q.lenB * (√q.lenA)⁻¹ + 2 * √q.lenC) := by
    simp only [qG, qP, qdP]; field_simp; ring_nf
  rw [e]; exact mul_pos hr (lt_of_lt_of_le hε hns)

/-- **The primitive used by the code differentiates to the speed** (algebraic core, independent of
the integral): for `t ≥ 0`, `d/dt qF(a,b,c)(t) = |Q'(t)|`. -/
theorem quad_primitive_hasDerivAt (q : Quad ℝ) (hε : 0 < (FlatConst.epsilon : ℝ)) (h : ClosedFormBranch q)
    {t : ℝ} (ht : 0 ≤ t) : HasDerivAt (qF q.lenA q.lenB q.lenC) (speed q t) t := by
  rw [quad_speed_eq]
  exact hasDerivAt_F h.2.1 (quad_len_disc q) (G_pos h.2.1 (quad_len_disc q) (closedForm_G0_pos q hε h) ht)

/-- exact arclength between non-negative parameters through the code's primitive -/
theorem arclen_eq_primitive (q : Quad ℝ) (hε : 0 < (FlatConst.epsilon : ℝ)) (h : ClosedFormBranch q)
    {x y : ℝ} (hx : 0 ≤ x) (hy : 0 ≤ y) :
    arclen q x y = qF q.lenA q.lenB q.lenC y - qF q.lenA q.lenB q.lenC x := by
  have e : (fun t => speed q t) = fun t => 2 * √(qP q.lenA q.lenB q.lenC t) := funext (quad_speed_eq q)
  rw [arclen, e]
  exact integral_speed h.2.1 (quad_len_disc q) (closedForm_G0_pos q hε h) hx hy

/-- **`QuadraticBezierSegment::length` is the arclength**: whenever the code evaluates its closed
form with the logarithm (`ClosedFormBranch`), the value it returns equals `∫₀¹ |Q'(t)| dt` — over ℝ,
with `sqrt`/`powf`/`ln` the real functions. -/
theorem quad_length_closed_form (hT : IsRealTransc) (q : Quad ℝ) (hε : 0 < (FlatConst.epsilon : ℝ))
    (h : ClosedFormBranch q) : q.length = ∫ t in (0:ℝ)..1, speed q t := by
  have e := arclen_eq_primitive q hε h (le_refl 0) zero_le_one
  rw [arclen] at e
  rw [e, Quad.length, h.1]
  exact lengthClosed_eq_primitive hT h.2.1 (quad_len_disc q) hε h.2.2

/-! ### (iii) additivity of the length under splitting -/

/-- the exact arclength is additive over adjacent parameter ranges -/
theorem arclen_add (q : Quad ℝ) (x y z : ℝ) : arclen q x y + arclen q y z = arclen q x z := by
  have hc : Continuous (speed q) := by
    have e : speed q = fun t => 2 * √(qP q.lenA q.lenB q.lenC t) := funext (quad_speed_eq q)
    rw [e]; exact continuous_speed _ _ _
  exact intervalIntegral.integral_add_adjacent_intervals (hc.intervalIntegrable _ _) (hc.intervalIntegrable _ _)

/-- the speed of the first piece of `split(t)` at `u` is `t·|Q'(t u)|` (`t ≥ 0`) -/
theorem speed_split_left (q : Quad ℝ) {t : ℝ} (ht : 0 ≤ t) (u : ℝ) :
    speed (q.split t).1 u = t * speed q (t * u) := by
  have e : ((q.split t).1.derivative u).x * ((q.split t).1.derivative u).x
        + ((q.split t).1.derivative u).y * ((q.split t).1.derivative u).y
      = (t * t) * ((q.derivative (t * u)).x * (q.derivative (t * u)).x
        + (q.derivative (t * u)).y * (q.derivative (t * u)).y) := by
    simp only [geom]; ring
  rw [speed, e, Real.sqrt_mul (mul_self_nonneg t), Real.sqrt_mul_self ht, speed]

/-- the speed of the second piece of `split(t)` at `u` is `(1−t)·|Q'(t + (1−t) u)|` (`t ≤ 1`) -/
theorem speed_split_right (q : Quad ℝ) {t : ℝ} (ht : t ≤ 1) (u : ℝ) :
    speed (q.split t).2 u = (1 - t) * speed q (t + (1 - t) * u) := by
  have e : ((q.split t).2.derivative u).x * ((q.split t).2.derivative u).x
        + ((q.split t).2.derivative u).y * ((q.split t).2.derivative u).y
      = ((1 - t) * (1 - t)) * ((q.derivative (t + (1 - t) * u)).x * (q.derivative (t + (1 - t) * u)).x
        + (q.derivative (t + (1 - t) * u)).y * (q.derivative (t + (1 - t) * u)).y) := by
    simp only [geom]; ring
  rw [speed, e, Real.sqrt_mul (mul_self_nonneg (1 - t)), Real.sqrt_mul_self (by linarith), speed]

/-- the arclength of the pieces of `split(t)` are the arclengths of `q` over `[0,t]` and `[t,1]` -/
theorem arclen_split (q : Quad ℝ) {t : ℝ} (h0 : 0 ≤ t) (h1 : t ≤ 1) :
    arclen (q.split t).1 0 1 = arclen q 0 t ∧ arclen (q.split t).2 0 1 = arclen q t 1 := by
  constructor
  · have e : (fun u => speed (q.split t).1 u) = fun u => t * speed q (t * u) :=
      funext (speed_split_left q h0)
    rw [arclen, e, intervalIntegral.integral_const_mul, intervalIntegral.mul_integral_comp_mul_left, arclen]
    simp
  · have e : (fun u => speed (q.split t).2 u) = fun u => (1 - t) * speed q (t + (1 - t) * u) :=
      funext (speed_split_right q h1)
    rw [arclen, e, intervalIntegral.integral_const_mul, intervalIntegral.mul_integral_comp_add_mul, arclen]
    simp

/-- **Lengths of the pieces add up to the length of the whole** (exact arclength, any quadratic,
`t ∈ [0,1]`): `len(left) + len(right) = len(whole)`. -/
theorem length_additive_of_integral (q : Quad ℝ) {t : ℝ} (h0 : 0 ≤ t) (h1 : t ≤ 1) :
    arclen (q.split t).1 0 1 + arclen (q.split t).2 0 1 = arclen q 0 1 := by
  rw [(arclen_split q h0 h1).1, (arclen_split q h0 h1).2, arclen_add]

/-- Corollary for the code: when the whole and both pieces of `split(t)` are evaluated by the
closed form, `QuadraticBezierSegment::length` is exactly additive over ℝ — the theorem behind the
oracle clause `quad.length/additive` (whose tolerance then only has to cover rounding and the two
approximate branches). -/
theorem quad_length_additive (hT : IsRealTransc) (q : Quad ℝ) (hε : 0 < (FlatConst.epsilon : ℝ))
    {t : ℝ} (h0 : 0 ≤ t) (h1 : t ≤ 1) (h : ClosedFormBranch q)
    (hl : ClosedFormBranch (q.split t).1) (hr : ClosedFormBranch (q.split t).2) :
    (q.split t).1.length + (q.split t).2.length = q.length := by
  rw [quad_length_closed_form hT _ hε h, quad_length_closed_form hT _ hε hl,
    quad_length_closed_form hT _ hε hr]
  exact length_additive_of_integral q h0 h1

end

/-! ### Non-vacuity: the real instances and a concrete quadratic in the closed-form branch -/

/-- `sqrt`, `powf`, `ln` as the real functions (the other fields are irrelevant here) -/
@[reducible] noncomputable def realTransc : Transc ℝ where
  sqrt := Real.sqrt
  cbrt := fun x => x
  sin := Real.sin
  cos := Real.cos
  tan := Real.tan
  acos := Real.arccos
  atan2 := fun _ _ => 0
  pow := fun x y => x ^ y
  log2 := fun x => Real.log x / Real.log 2
  ln := Real.log
  floor := fun x => (⌊x⌋ : ℝ)
  ceil := fun x => (⌈x⌉ : ℝ)
  toNat := fun x => ⌊x⌋₊
  fmod := fun x _ => x
  eps := 0
  pi := Real.pi
  isNaN := fun _ => false
  isFinite := fun _ => true

/-- lyon's `f32` constants as exact decimals -/
@[reducible] noncomputable def realFlatConst : FlatConst ℝ where
  epsilon := 1 / 10 ^ 4
  value := fun m e => (m : ℝ) / 10 ^ e
  d4 := (67 / 100) ^ 4

theorem realTransc_isReal : @IsRealTransc realTransc :=
  @IsRealTransc.mk realTransc (fun _ => rfl) (fun _ _ => rfl) (fun _ => rfl)

/-- `from (0,0) ctrl (1,0) to (2,2)`: `a = 4`, `b = 0`, `c = 1`; not almost straight, `b/√a + 2√c = 2 ≥ 1e-4` -/
theorem closedFormBranch_example : @ClosedFormBranch realFlatConst ⟨⟨0, 0⟩, ⟨1, 0⟩, ⟨2, 2⟩⟩ := by
  let _ := realTransc; let _ := realFlatConst
  have h4 : √(4:ℝ) = 2 := by
    rw [show (4:ℝ) = 2 * 2 by norm_num]; exact Real.sqrt_mul_self (by norm_num)
  have hA : (⟨⟨0, 0⟩, ⟨1, 0⟩, ⟨2, 2⟩⟩ : Quad ℝ).lenA = 4 := by simp only [geom]; norm_num
  have hB : (⟨⟨0, 0⟩, ⟨1, 0⟩, ⟨2, 2⟩⟩ : Quad ℝ).lenB = 0 := by simp only [geom]; norm_num
  have hC : (⟨⟨0, 0⟩, ⟨1, 0⟩, ⟨2, 2⟩⟩ : Quad ℝ).lenC = 1 := by simp only [geom]; norm_num
  refine ⟨?_, ?_, ?_⟩
  · simp only [Quad.almostStraight, hA, hC, decide_eq_false_iff_not, not_lt]
    show (FlatConst.value 1 4 : ℝ) * 1 ≤ 4
    show ((1:ℕ) : ℝ) / 10 ^ 4 * 1 ≤ 4
    norm_num
  · rw [hA]; norm_num
  · rw [hA, hB, hC, h4, Real.sqrt_one]
    show (1:ℝ) / 10 ^ 4 ≤ _
    norm_num

theorem realFlatConst_eps_pos : (0:ℝ) < (@FlatConst.epsilon ℝ realFlatConst) := by
  show (0:ℝ) < 1 / 10 ^ 4
  norm_num

/-- `quad_length_closed_form` instantiated: all hypotheses are satisfied by the real instances and
the quadratic `(0,0) (1,0) (2,2)` -/
example : @Quad.length ℝ _ realTransc realFlatConst ⟨⟨0, 0⟩, ⟨1, 0⟩, ⟨2, 2⟩⟩
    = ∫ t in (0:ℝ)..1, speed ⟨⟨0, 0⟩, ⟨1, 0⟩, ⟨2, 2⟩⟩ t :=
  @quad_length_closed_form realTransc realFlatConst realTransc_isReal _ realFlatConst_eps_pos
    closedFormBranch_example

/-- parameters in range for `arclen_split` / `length_additive_of_integral` / `quad_length_additive` -/
example : (0:ℝ) ≤ 1/4 ∧ (1/4:ℝ) ≤ 1 := by norm_num

section
variable [Transc ℝ] [FlatConst ℝ]
end

end Lyon.C10
