/-
  C10 (growth) — the analytic half of "curve operations are consistent with evaluation":
  the derivative is the slope of the sampled curve (`HasDerivAt` over ℝ), and the length of a
  quadratic (closed form of `QuadraticBezierSegment::length`, `Model/Geom/Length.lean`) is the
  arclength integral, hence additive under splitting.

  What is proved: (ii) `derivative_hasDerivAt` (Seg/Quad/Cubic, from the Taylor identities of
  `Props/C10.lean`); (i) `quad_length_closed_form`: in the branch where the code evaluates its closed
  form with the logarithm, `q.length = ∫₀¹ |Q'(t)| dt` over ℝ (fundamental theorem of calculus on the
  code's primitive, `quad_primitive_hasDerivAt`); (iii) `length_additive_of_integral` (exact
  arclength of the pieces of `split(t)` adds up, all quadratics) and `quad_length_additive` (the
  code's `length` is exactly additive when all three segments are in the closed-form branch).

  The model is that of /repo 7d678f98 (`sqrt(a+b+c)` computed as `|to − ctrl|`, `2a+b` as
  `2 d2·(to − ctrl)`, sharp-turn test `b·a^(-1/2) + 2√c ≤ EPSILON·2√c` relative to the size of the
  curve, guarded logarithm `num > 0`, quadrature on differences, `a ≤ 1e-4·c`).  Over ℝ the new
  operands are the old ones (`quad_len_d3_sq`, `quad_len_d23`: ring identities) and the guard
  `num > 0` is implied by the sharp-turn test (`closedForm_num_pos`), so `ClosedFormBranch` has no
  extra hypothesis.  What the fix newly guarantees, over any ordered field with `sqrt` a parameter:
  `quad_length_point` (a point has length 0), `quad_length_additive_ends` (additive over `split(0)`
  and `split(1)` for EVERY quadratic), `lengthStraight_translate` / `quad_length_translate` (the
  result depends on differences of the control points only).

  What is NOT proved (named gaps, covered by the oracle's tolerance only):
  * the "almost straight" branch (`a ≤ 1e-4·c`) is a 3-point Gauss–Legendre quadrature — an
    approximation by design, no exact statement exists (beyond the point curve);
  * the "sharp turn" branch (`b·a^(-1/2) + 2√c ≤ EPSILON·2√c`) drops the logarithmic term; that is
    exact only at a true cusp (`4ac = b²`), otherwise an `O(EPSILON)` relative approximation;
  * `a = 0` (degree-one parameterisation) is excluded by `ClosedFormBranch` (`a^(-1/2)` is taken);
    with `FlatConst.value 1 4 > 0` such a curve is in the quadrature branch anyway;
  * cubic / arc `approximate_length` are sums over an approximation and have no exact counterpart;
  * IEEE rounding, overflow and underflow are outside the theorems (open finding
    C10-quad-length-underflow: `4ca − b²` underflows in f32 for curves smaller than ~5e-8).

  Everything is stated about the model `def`s of `Model/Geom/{Basic,Length}.lean` instantiated at
  `ℝ` (the same `def`s the driver runs at `Float32`/`Float` and compares bit-for-bit with lyon).
-/
import LyonVerif.Props.C10
import LyonVerif.Model.Geom.Length
import LyonVerif.Lemmas.ArcLength

set_option linter.unusedSectionVars false
set_option linter.unusedVariables false

geom_all Lyon.Quad

namespace Lyon.C10
open Lyon Scalar Lyon.ArcLen

/-! ### (ii) the derivative is the slope of the sampled curve, analytically -/

theorem seg_derivative_hasDerivAt (s : Seg ℝ) (t : ℝ) :
    HasDerivAt (fun u => (s.sample u).x) s.toVector.x t ∧
    HasDerivAt (fun u => (s.sample u).y) s.toVector.y t := by
  constructor
  · refine hasDerivAt_of_taylor _ t (s.sample t).x _ 0 0 fun h => ?_
    rw [congrArg P.x (seg_derivative_slope s t h)]; simp only [geom]; ring
  · refine hasDerivAt_of_taylor _ t (s.sample t).y _ 0 0 fun h => ?_
    rw [congrArg P.y (seg_derivative_slope s t h)]; simp only [geom]; ring

/-- `QuadraticBezierSegment::derivative(t)` is the derivative of `sample` at `t`, coordinate-wise
(from the exact Taylor identity `quad_derivative_slope`). -/
theorem quad_derivative_hasDerivAt (q : Quad ℝ) (t : ℝ) :
    HasDerivAt (fun u => (q.sample u).x) (q.derivative t).x t ∧
    HasDerivAt (fun u => (q.sample u).y) (q.derivative t).y t := by
  constructor
  · refine hasDerivAt_of_taylor _ t (q.sample t).x _ ((q.a - q.c.smul 2) + q.b).x 0 fun h => ?_
    rw [congrArg P.x (quad_derivative_slope q t h)]; simp only [geom]; ring
  · refine hasDerivAt_of_taylor _ t (q.sample t).y _ ((q.a - q.c.smul 2) + q.b).y 0 fun h => ?_
    rw [congrArg P.y (quad_derivative_slope q t h)]; simp only [geom]; ring

/-- `CubicBezierSegment::derivative(t)` is the derivative of `sample` at `t`, coordinate-wise
(from the exact Taylor identity `cubic_derivative_slope`). -/
theorem cubic_derivative_hasDerivAt (c : Cubic ℝ) (t : ℝ) :
    HasDerivAt (fun u => (c.sample u).x) (c.derivative t).x t ∧
    HasDerivAt (fun u => (c.sample u).y) (c.derivative t).y t := by
  constructor
  · refine hasDerivAt_of_taylor _ t (c.sample t).x _
      (((c.a - c.c1.smul 2) + c.c2).smul (3 * (1 - t)) + ((c.c1 - c.c2.smul 2) + c.b).smul (3 * t)).x
      ((((c.b - c.c2.smul 3) + c.c1.smul 3) - c.a).x) fun h => ?_
    rw [congrArg P.x (cubic_derivative_slope c t h)]; simp only [geom]
  · refine hasDerivAt_of_taylor _ t (c.sample t).y _
      (((c.a - c.c1.smul 2) + c.c2).smul (3 * (1 - t)) + ((c.c1 - c.c2.smul 2) + c.b).smul (3 * t)).y
      ((((c.b - c.c2.smul 3) + c.c1.smul 3) - c.a).y) fun h => ?_
    rw [congrArg P.y (cubic_derivative_slope c t h)]; simp only [geom]

/-- The property's "the derivative matches the slope of the sampled curve" in analytic form, for
the three polynomial segment types at once; `dx`/`dy` and `x`/`y` are the same numbers
(`quad_dxdy_components`, `quad_xy_components`, …), so the scalar accessors are covered too. -/
theorem derivative_hasDerivAt :
    (∀ (s : Seg ℝ) (t : ℝ), HasDerivAt (fun u => (s.sample u).x) s.toVector.x t ∧
        HasDerivAt (fun u => (s.sample u).y) s.toVector.y t) ∧
    (∀ (q : Quad ℝ) (t : ℝ), HasDerivAt (fun u => (q.sample u).x) (q.derivative t).x t ∧
        HasDerivAt (fun u => (q.sample u).y) (q.derivative t).y t) ∧
    (∀ (c : Cubic ℝ) (t : ℝ), HasDerivAt (fun u => (c.sample u).x) (c.derivative t).x t ∧
        HasDerivAt (fun u => (c.sample u).y) (c.derivative t).y t) :=
  ⟨seg_derivative_hasDerivAt, quad_derivative_hasDerivAt, cubic_derivative_hasDerivAt⟩

/-- the scalar accessors: `x(t)` has derivative `dx(t)`, `y(t)` has derivative `dy(t)` -/
theorem quad_dx_dy_hasDerivAt (q : Quad ℝ) (t : ℝ) :
    HasDerivAt q.x (q.dx t) t ∧ HasDerivAt q.y (q.dy t) t := by
  have h := quad_derivative_hasDerivAt q t
  have ex : q.x = fun u => (q.sample u).x := funext fun u => (quad_xy_components q u).1
  have ey : q.y = fun u => (q.sample u).y := funext fun u => (quad_xy_components q u).2
  rw [ex, ey, (quad_dxdy_components q t).1, (quad_dxdy_components q t).2]
  exact h

theorem cubic_dx_dy_hasDerivAt (c : Cubic ℝ) (t : ℝ) :
    HasDerivAt c.x (c.dx t) t ∧ HasDerivAt c.y (c.dy t) t := by
  have h := cubic_derivative_hasDerivAt c t
  have ex : c.x = fun u => (c.sample u).x := funext fun u => (cubic_xy_components c u).1
  have ey : c.y = fun u => (c.sample u).y := funext fun u => (cubic_xy_components c u).2
  rw [ex, ey, (cubic_dxdy_components c t).1, (cubic_dxdy_components c t).2]
  exact h


/-! ### (i) `QuadraticBezierSegment::length` is the arclength integral

`sqrt`, `powf`, `ln` are parameters of the model (`[Transc ℝ]`); the theorems assume they are the
real functions (`IsRealTransc`). `[FlatConst ℝ]` (lyon's `EPSILON`, `S::value`) stays arbitrary. -/

open Real Lyon.ArcLen

/-- the model's libm parameters are the real `√`, `x^y`, `log` -/
structure IsRealTransc [Transc ℝ] : Prop where
  sqrt_eq : ∀ x : ℝ, Transc.sqrt x = √x
  pow_eq : ∀ x y : ℝ, Transc.pow x y = x ^ y
  ln_eq : ∀ x : ℝ, Transc.ln x = Real.log x

/-- `|Q'(t)|`: euclidean norm of `QuadraticBezierSegment::derivative(t)` -/
noncomputable def speed (q : Quad ℝ) (t : ℝ) : ℝ :=
  √((q.derivative t).x * (q.derivative t).x + (q.derivative t).y * (q.derivative t).y)

/-- exact arclength of `q` between parameters `x` and `y` -/
noncomputable def arclen (q : Quad ℝ) (x y : ℝ) : ℝ := ∫ t in x..y, speed q t

section
variable [Transc ℝ] [FlatConst ℝ]

/-- the code's coefficients: `|Q'(t)|² = 4·(a t² + b t + c)` with `a = |d2|²`, `b = 2 d2·d1`, `c = |d1|²` -/
theorem quad_speed_eq (q : Quad ℝ) (t : ℝ) : speed q t = 2 * √(qP q.lenA q.lenB q.lenC t) := by
  have e : (q.derivative t).x * (q.derivative t).x + (q.derivative t).y * (q.derivative t).y
      = (2 * 2) * qP q.lenA q.lenB q.lenC t := by
    simp only [qP, geom]; ring
  rw [speed, e, Real.sqrt_mul (by norm_num), Real.sqrt_mul_self (by norm_num)]

/-- Lagrange: `4ac − b² = 4·(d2 × d1)² ≥ 0` (Cauchy–Schwarz for the code's coefficients) -/
theorem quad_len_disc (q : Quad ℝ) : q.lenB * q.lenB ≤ 4 * q.lenA * q.lenC := by
  have e : 4 * q.lenA * q.lenC - q.lenB * q.lenB = 4 * (q.lenD2.cross q.lenD1 * q.lenD2.cross q.lenD1) := by
    simp only [geom]; ring
  nlinarith [mul_self_nonneg (q.lenD2.cross q.lenD1)]

/-- The code takes the closed-form branch with the logarithm: not "almost straight", a genuine
parabola (`a > 0`), and not a "sharp turn" (`b·a^(-1/2) + 2√c > EPSILON·2√c`, the test is relative
to the size of the curve).  The other half of the code's test, `num > 0`, is not a hypothesis: it
follows (`closedForm_num_pos`). -/
def ClosedFormBranch (q : Quad ℝ) : Prop :=
  q.almostStraight = false ∧ 0 < q.lenA ∧
    FlatConst.epsilon * (2 * √q.lenC) < q.lenB * (√q.lenA)⁻¹ + 2 * √q.lenC

/-- bridge to the code's cancellation-free operands: `|to − ctrl|² = a + b + c` -/
theorem quad_len_d3_sq (q : Quad ℝ) : q.lenD3.sqLen = q.lenA + q.lenB + q.lenC := by
  simp only [geom]; ring

/-- bridge: `2 d2·(to − ctrl) = 2a + b` -/
theorem quad_len_d23 (q : Quad ℝ) : 2 * q.lenD2.dot q.lenD3 = 2 * q.lenA + q.lenB := by
  simp only [geom]; ring

/-- `sqr_abc = d3.length()` is `√(a + b + c)` -/
theorem quad_len_d3_len (hT : IsRealTransc) (q : Quad ℝ) : q.lenD3.len = √(q.lenA + q.lenB + q.lenC) := by
  rw [P.len, hT.sqrt_eq, quad_len_d3_sq]

/-- the logarithm's numerator `num = 2 d2·d3 / √a + 2|d3|` is `qG 1 / √a`, positive as soon as the
"not a sharp turn" quantity `qG 0 / √a` is -/
theorem closedForm_num_pos {a b c e : ℝ} (ha : 0 < a) (hD : b * b ≤ 4 * a * c)
    (h0 : 0 < b * (√a)⁻¹ + 2 * √c) (he : 2 * e = 2 * a + b) :
    0 < 2 * e * (√a)⁻¹ + 2 * √(a + b + c) := by
  have hr : 0 < √a := Real.sqrt_pos.mpr ha
  have hG0 : qG a b c 0 = √a * (b * (√a)⁻¹ + 2 * √c) := by
    simp only [qG, qP, qdP]; field_simp; ring_nf
  have hG1 : qG a b c 1 = √a * (2 * e * (√a)⁻¹ + 2 * √(a + b + c)) := by
    rw [he]; simp only [qG, qP, qdP]; field_simp; ring_nf
  have hG1pos : 0 < qG a b c 1 := G_pos ha hD (by rw [hG0]; exact mul_pos hr h0) zero_le_one
  rw [hG1] at hG1pos
  exact (mul_pos_iff_of_pos_left hr).mp hG1pos

/-- the closed form on coefficients is `qF 1 − qF 0` for the primitive `qF` of `Lemmas/ArcLength.lean`;
`s`, `e` are the code's cancellation-free operands `|to − ctrl|` and `d2·(to − ctrl)` -/
theorem lengthClosed_eq_primitive (hT : IsRealTransc) {a b c s e : ℝ} (ha : 0 < a) (hD : b * b ≤ 4 * a * c)
    (hε : 0 ≤ (FlatConst.epsilon : ℝ)) (hns : FlatConst.epsilon * (2 * √c) < b * (√a)⁻¹ + 2 * √c)
    (hs : s = √(a + b + c)) (he : 2 * e = 2 * a + b) :
    Quad.lengthClosed a b c s e = qF a b c 1 - qF a b c 0 := by
  subst hs
  have h5 : ((5:ℝ) / 10 ^ 1) = 1 / 2 := by norm_num
  have hr : 0 < √a := Real.sqrt_pos.mpr ha
  have hrr : √a * √a = a := Real.mul_self_sqrt ha.le
  have hG0pos : 0 < b * (√a)⁻¹ + 2 * √c :=
    lt_of_le_of_lt (mul_nonneg hε (mul_nonneg (by norm_num) (Real.sqrt_nonneg c))) hns
  have hnum : 0 < 2 * e * (√a)⁻¹ + 2 * √(a + b + c) := closedForm_num_pos ha hD hG0pos he
  have hbr : ¬ (b * (√a)⁻¹ + 2 * √c ≤ FlatConst.epsilon * (2 * √c)
      ∨ ¬ (0 < 2 * e * (√a)⁻¹ + 2 * √(a + b + c))) :=
    not_or.mpr ⟨not_le.mpr hns, not_not.mpr hnum⟩
  have hP0 : qP a b c 0 = c := by simp [qP]
  have hP1 : qP a b c 1 = a + b + c := by simp [qP]
  have hd0 : qdP a b 0 = b := by simp [qdP]
  have hd1 : qdP a b 1 = 2 * a + b := by simp [qdP]
  have hG0 : qG a b c 0 = √a * (b * (√a)⁻¹ + 2 * √c) := by
    rw [qG, hP0, hd0]; field_simp; ring
  have hG0pos' : 0 < qG a b c 0 := by rw [hG0]; exact mul_pos hr hG0pos
  have hG1 : qG a b c 1 = √a * (2 * e * (√a)⁻¹ + 2 * √(a + b + c)) := by
    rw [qG, hP1, hd1, he]; field_simp; ring
  have hG1pos' : 0 < qG a b c 1 := G_pos ha hD hG0pos' zero_le_one
  have hlog : Real.log ((2 * e * (√a)⁻¹ + 2 * √(a + b + c)) / (b * (√a)⁻¹ + 2 * √c))
      = Real.log (qG a b c 1) - Real.log (qG a b c 0) := by
    rw [← Real.log_div hG1pos'.ne' hG0pos'.ne', hG0, hG1, mul_div_mul_left _ _ hr.ne']
  simp only [Quad.lengthClosed, geom, hT.sqrt_eq, hT.pow_eq, hT.ln_eq, Nat.cast_ofNat, Nat.cast_zero, h5,
    rpow_neg_half ha, if_neg hbr]
  rw [hlog, qF, qF, hP0, hP1, hd0, hd1]
  generalize Real.log (qG a b c 1) = L1
  generalize Real.log (qG a b c 0) = L0
  generalize √(a + b + c) = S1
  generalize √c = S0
  have ha' : a = √a * √a := hrr.symm
  generalize √a = r at *
  subst ha'
  field_simp
  ring

/-- in the closed-form branch the code's "not a sharp turn" quantity is `qG 0 / √a`, so `qG > 0` on `[0, ∞)` -/
theorem closedForm_G0_pos (q : Quad ℝ) (hε : 0 ≤ (FlatConst.epsilon : ℝ)) (h : ClosedFormBranch q) :
    0 < qG q.lenA q.lenB q.lenC 0 := by
  obtain ⟨_, ha, hns⟩ := h
  have hr : 0 < √q.lenA := Real.sqrt_pos.mpr ha
  have e : qG q.lenA q.lenB q.lenC 0 = √q.lenA * (q.lenB * (√q.lenA)⁻¹ + 2 * √q.lenC) := by
    simp only [qG, qP, qdP]; field_simp; ring_nf
  rw [e]
  exact mul_pos hr (lt_of_le_of_lt
    (mul_nonneg hε (mul_nonneg (by norm_num) (Real.sqrt_nonneg q.lenC))) hns)

/-- **The primitive used by the code differentiates to the speed** (algebraic core, independent of
the integral): for `t ≥ 0`, `d/dt qF(a,b,c)(t) = |Q'(t)|`. -/
theorem quad_primitive_hasDerivAt (q : Quad ℝ) (hε : 0 ≤ (FlatConst.epsilon : ℝ)) (h : ClosedFormBranch q)
    {t : ℝ} (ht : 0 ≤ t) : HasDerivAt (qF q.lenA q.lenB q.lenC) (speed q t) t := by
  rw [quad_speed_eq]
  exact hasDerivAt_F h.2.1 (quad_len_disc q) (G_pos h.2.1 (quad_len_disc q) (closedForm_G0_pos q hε h) ht)

/-- exact arclength between non-negative parameters through the code's primitive -/
theorem arclen_eq_primitive (q : Quad ℝ) (hε : 0 ≤ (FlatConst.epsilon : ℝ)) (h : ClosedFormBranch q)
    {x y : ℝ} (hx : 0 ≤ x) (hy : 0 ≤ y) :
    arclen q x y = qF q.lenA q.lenB q.lenC y - qF q.lenA q.lenB q.lenC x := by
  have e : (fun t => speed q t) = fun t => 2 * √(qP q.lenA q.lenB q.lenC t) := funext (quad_speed_eq q)
  rw [arclen, e]
  exact integral_speed h.2.1 (quad_len_disc q) (closedForm_G0_pos q hε h) hx hy

/-- **`QuadraticBezierSegment::length` is the arclength**: whenever the code evaluates its closed
form with the logarithm (`ClosedFormBranch`), the value it returns equals `∫₀¹ |Q'(t)| dt` — over ℝ,
with `sqrt`/`powf`/`ln` the real functions. -/
theorem quad_length_closed_form (hT : IsRealTransc) (q : Quad ℝ) (hε : 0 ≤ (FlatConst.epsilon : ℝ))
    (h : ClosedFormBranch q) : q.length = ∫ t in (0:ℝ)..1, speed q t := by
  have e := arclen_eq_primitive q hε h (le_refl 0) zero_le_one
  rw [arclen] at e
  rw [e, Quad.length, h.1]
  exact lengthClosed_eq_primitive hT h.2.1 (quad_len_disc q) hε h.2.2 (quad_len_d3_len hT q)
    (quad_len_d23 q)

/-! ### (iii) additivity of the length under splitting -/

/-- the exact arclength is additive over adjacent parameter ranges -/
theorem arclen_add (q : Quad ℝ) (x y z : ℝ) : arclen q x y + arclen q y z = arclen q x z := by
  have hc : Continuous (speed q) := by
    have e : speed q = fun t => 2 * √(qP q.lenA q.lenB q.lenC t) := funext (quad_speed_eq q)
    rw [e]; exact continuous_speed _ _ _
  exact intervalIntegral.integral_add_adjacent_intervals (hc.intervalIntegrable _ _) (hc.intervalIntegrable _ _)

/-- the speed of the first piece of `split(t)` at `u` is `t·|Q'(t u)|` (`t ≥ 0`) -/
theorem speed_split_left (q : Quad ℝ) {t : ℝ} (ht : 0 ≤ t) (u : ℝ) :
    speed (q.split t).1 u = t * speed q (t * u) := by
  have e : ((q.split t).1.derivative u).x * ((q.split t).1.derivative u).x
        + ((q.split t).1.derivative u).y * ((q.split t).1.derivative u).y
      = (t * t) * ((q.derivative (t * u)).x * (q.derivative (t * u)).x
        + (q.derivative (t * u)).y * (q.derivative (t * u)).y) := by
    simp only [geom]; ring
  rw [speed, e, Real.sqrt_mul (mul_self_nonneg t), Real.sqrt_mul_self ht, speed]

/-- the speed of the second piece of `split(t)` at `u` is `(1−t)·|Q'(t + (1−t) u)|` (`t ≤ 1`) -/
theorem speed_split_right (q : Quad ℝ) {t : ℝ} (ht : t ≤ 1) (u : ℝ) :
    speed (q.split t).2 u = (1 - t) * speed q (t + (1 - t) * u) := by
  have e : ((q.split t).2.derivative u).x * ((q.split t).2.derivative u).x
        + ((q.split t).2.derivative u).y * ((q.split t).2.derivative u).y
      = ((1 - t) * (1 - t)) * ((q.derivative (t + (1 - t) * u)).x * (q.derivative (t + (1 - t) * u)).x
        + (q.derivative (t + (1 - t) * u)).y * (q.derivative (t + (1 - t) * u)).y) := by
    simp only [geom]; ring
  rw [speed, e, Real.sqrt_mul (mul_self_nonneg (1 - t)), Real.sqrt_mul_self (by linarith), speed]

/-- the arclength of the pieces of `split(t)` are the arclengths of `q` over `[0,t]` and `[t,1]` -/
theorem arclen_split (q : Quad ℝ) {t : ℝ} (h0 : 0 ≤ t) (h1 : t ≤ 1) :
    arclen (q.split t).1 0 1 = arclen q 0 t ∧ arclen (q.split t).2 0 1 = arclen q t 1 := by
  constructor
  · have e : (fun u => speed (q.split t).1 u) = fun u => t * speed q (t * u) :=
      funext (speed_split_left q h0)
    rw [arclen, e, intervalIntegral.integral_const_mul, intervalIntegral.mul_integral_comp_mul_left, arclen]
    simp
  · have e : (fun u => speed (q.split t).2 u) = fun u => (1 - t) * speed q (t + (1 - t) * u) :=
      funext (speed_split_right q h1)
    rw [arclen, e, intervalIntegral.integral_const_mul, intervalIntegral.mul_integral_comp_add_mul, arclen]
    simp

/-- **Lengths of the pieces add up to the length of the whole** (exact arclength, any quadratic,
`t ∈ [0,1]`): `len(left) + len(right) = len(whole)`. -/
theorem length_additive_of_integral (q : Quad ℝ) {t : ℝ} (h0 : 0 ≤ t) (h1 : t ≤ 1) :
    arclen (q.split t).1 0 1 + arclen (q.split t).2 0 1 = arclen q 0 1 := by
  rw [(arclen_split q h0 h1).1, (arclen_split q h0 h1).2, arclen_add]

/-- Corollary for the code: when the whole and both pieces of `split(t)` are evaluated by the
closed form, `QuadraticBezierSegment::length` is exactly additive over ℝ — the theorem behind the
oracle clause `quad.length/additive` (whose tolerance then only has to cover rounding and the two
approximate branches). -/
theorem quad_length_additive (hT : IsRealTransc) (q : Quad ℝ) (hε : 0 ≤ (FlatConst.epsilon : ℝ))
    {t : ℝ} (h0 : 0 ≤ t) (h1 : t ≤ 1) (h : ClosedFormBranch q)
    (hl : ClosedFormBranch (q.split t).1) (hr : ClosedFormBranch (q.split t).2) :
    (q.split t).1.length + (q.split t).2.length = q.length := by
  rw [quad_length_closed_form hT _ hε h, quad_length_closed_form hT _ hε hl,
    quad_length_closed_form hT _ hε hr]
  exact length_additive_of_integral q h0 h1

end

/-! ### What /repo fix 7d678f98 newly guarantees: degenerate curves and position independence

Over any ordered field, `sqrt` a parameter (the only law used: `sqrt 0 = 0`, for the point curve). -/

section Degenerate
variable {K : Type} [Field K] [LinearOrder K] [IsStrictOrderedRing K] [Transc K] [FlatConst K]

/-- **A point has length zero** (`from = ctrl = to`): `a = c = 0` passes the test `a ≤ 1e-4·c`, the
quadrature of three zero vectors is `3·sqrt 0`.  (Before the fix the closed form was taken:
`0^(-1/2)·0`, NaN in floats.) -/
theorem quad_length_point (h0 : Transc.sqrt (0:K) = 0) (p : P K) : (⟨p, p, p⟩ : Quad K).length = 0 := by
  have hs : (⟨p, p, p⟩ : Quad K).almostStraight = true := by
    simp only [Quad.almostStraight, decide_eq_true_eq, geom, Nat.cast_ofNat, sub_self, mul_zero,
      add_zero]
    ring_nf; exact le_refl _
  rw [Quad.length, hs, if_pos rfl]
  simp only [Quad.lengthStraight, P.len, geom, sub_self, zero_mul, mul_zero, add_zero, h0]

/-- the first piece of `split(0)` and the second piece of `split(1)` are points, so (with
`quad_length_point`) they have length zero … -/
theorem quad_split_ends_are_points (q : Quad K) :
    (q.split 0).1 = ⟨q.a, q.a, q.a⟩ ∧ (q.split 1).2 = ⟨q.b, q.b, q.b⟩ := by
  constructor
  · show (⟨q.a, q.a.lerp q.c 0, q.sample 0⟩ : Quad K) = _
    congr 1 <;> geom_ring
  · show (⟨q.sample 1, q.c.lerp q.b 1, q.b⟩ : Quad K) = _
    congr 1 <;> geom_ring

/-- … and the other piece is the whole curve: **`length` is additive over `split(0)` and
`split(1)` for every quadratic**, in whichever branch it is evaluated (no `ClosedFormBranch`
hypothesis; before the fix the point piece made the sum NaN in floats). -/
theorem quad_length_additive_ends (h0 : Transc.sqrt (0:K) = 0) (q : Quad K) :
    (q.split 0).1.length + (q.split 0).2.length = q.length ∧
    (q.split 1).1.length + (q.split 1).2.length = q.length := by
  have e0 : (q.split 0).2 = q := by
    show (⟨q.sample 0, q.c.lerp q.b 0, q.b⟩ : Quad K) = _
    cases q; congr 1 <;> geom_ring
  have e1 : (q.split 1).1 = q := by
    show (⟨q.a, q.a.lerp q.c 1, q.sample 1⟩ : Quad K) = _
    cases q; congr 1 <;> geom_ring
  rw [(quad_split_ends_are_points q).1, (quad_split_ends_are_points q).2, e0, e1,
    quad_length_point h0, quad_length_point h0, zero_add, add_zero]
  exact ⟨rfl, rfl⟩

/-- `q` moved by the vector `v` -/
noncomputable def translate (q : Quad K) (v : P K) : Quad K := ⟨q.a + v, q.c + v, q.b + v⟩

/-- the code's operands are differences: they do not see the position of the curve -/
theorem quad_len_operands_translate (q : Quad K) (v : P K) :
    (translate q v).lenD1 = q.lenD1 ∧ (translate q v).lenD2 = q.lenD2 ∧
    (translate q v).lenD3 = q.lenD3 ∧ (translate q v).b - (translate q v).a = q.b - q.a := by
  refine ⟨?_, ?_, ?_, ?_⟩ <;> simp only [translate] <;> geom_ring

/-- **The quadrature branch depends only on differences of the control points** (any `sqrt`):
moving the curve does not change `lengthStraight`.  (Before the fix the weights
`−0.492943519233745, 0.430331482911935, 0.0626120363218102` were applied to absolute positions; they
do not sum to zero exactly, and in `f64` they are `f32`-rounded: the error grew with the distance
from the origin.) -/
theorem lengthStraight_translate (q : Quad K) (v : P K) :
    (translate q v).lengthStraight = q.lengthStraight := by
  obtain ⟨h1, _, h3, hc⟩ := quad_len_operands_translate q v
  simp only [Quad.lengthStraight, h1, h3, hc]

/-- the whole of `QuadraticBezierSegment::length` is translation invariant (all three branches) -/
theorem quad_length_translate (q : Quad K) (v : P K) : (translate q v).length = q.length := by
  obtain ⟨h1, h2, h3, _⟩ := quad_len_operands_translate q v
  have hA : (translate q v).lenA = q.lenA := by rw [Quad.lenA, h2, Quad.lenA]
  have hB : (translate q v).lenB = q.lenB := by rw [Quad.lenB, h1, h2, Quad.lenB]
  have hC : (translate q v).lenC = q.lenC := by rw [Quad.lenC, h1, Quad.lenC]
  have hS : (translate q v).almostStraight = q.almostStraight := by
    rw [Quad.almostStraight, hA, hC, Quad.almostStraight]
  rw [Quad.length, hS, lengthStraight_translate, hA, hB, hC, h2, h3, Quad.length]

end Degenerate

/-! ### Non-vacuity: the real instances and a concrete quadratic in the closed-form branch -/

/-- `sqrt`, `powf`, `ln` as the real functions (the other fields are irrelevant here) -/
@[reducible] noncomputable def realTransc : Transc ℝ where
  sqrt := Real.sqrt
  cbrt := fun x => x
  sin := Real.sin
  cos := Real.cos
  tan := Real.tan
  acos := Real.arccos
  atan2 := fun _ _ => 0
  pow := fun x y => x ^ y
  log2 := fun x => Real.log x / Real.log 2
  ln := Real.log
  floor := fun x => (⌊x⌋ : ℝ)
  ceil := fun x => (⌈x⌉ : ℝ)
  toNat := fun x => ⌊x⌋₊
  fmod := fun x _ => x
  eps := 0
  pi := Real.pi
  isNaN := fun _ => false
  isFinite := fun _ => true

/-- lyon's `f32` constants as exact decimals -/
@[reducible] noncomputable def realFlatConst : FlatConst ℝ where
  epsilon := 1 / 10 ^ 4
  value := fun m e => (m : ℝ) / 10 ^ e
  d4 := (67 / 100) ^ 4

theorem realTransc_isReal : @IsRealTransc realTransc :=
  @IsRealTransc.mk realTransc (fun _ => rfl) (fun _ _ => rfl) (fun _ => rfl)

/-- `from (0,0) ctrl (1,0) to (2,2)`: `a = 4`, `b = 0`, `c = 1`; not almost straight, `b/√a + 2√c = 2 > 1e-4·2√c` -/
theorem closedFormBranch_example : @ClosedFormBranch realFlatConst ⟨⟨0, 0⟩, ⟨1, 0⟩, ⟨2, 2⟩⟩ := by
  let _ := realTransc; let _ := realFlatConst
  have h4 : √(4:ℝ) = 2 := by
    rw [show (4:ℝ) = 2 * 2 by norm_num]; exact Real.sqrt_mul_self (by norm_num)
  have hA : (⟨⟨0, 0⟩, ⟨1, 0⟩, ⟨2, 2⟩⟩ : Quad ℝ).lenA = 4 := by simp only [geom]; norm_num
  have hB : (⟨⟨0, 0⟩, ⟨1, 0⟩, ⟨2, 2⟩⟩ : Quad ℝ).lenB = 0 := by simp only [geom]; norm_num
  have hC : (⟨⟨0, 0⟩, ⟨1, 0⟩, ⟨2, 2⟩⟩ : Quad ℝ).lenC = 1 := by simp only [geom]; norm_num
  refine ⟨?_, ?_, ?_⟩
  · simp only [Quad.almostStraight, hA, hC, decide_eq_false_iff_not, not_le]
    show (FlatConst.value 1 4 : ℝ) * 1 < 4
    show ((1:ℕ) : ℝ) / 10 ^ 4 * 1 < 4
    norm_num
  · rw [hA]; norm_num
  · rw [hA, hB, hC, h4, Real.sqrt_one]
    show (1:ℝ) / 10 ^ 4 * (2 * 1) < _
    norm_num

theorem realFlatConst_eps_pos : (0:ℝ) ≤ (@FlatConst.epsilon ℝ realFlatConst) := by
  show (0:ℝ) ≤ 1 / 10 ^ 4
  norm_num

/-- `quad_length_closed_form` instantiated: all hypotheses are satisfied by the real instances and
the quadratic `(0,0) (1,0) (2,2)` -/
example : @Quad.length ℝ _ realTransc realFlatConst ⟨⟨0, 0⟩, ⟨1, 0⟩, ⟨2, 2⟩⟩
    = ∫ t in (0:ℝ)..1, speed ⟨⟨0, 0⟩, ⟨1, 0⟩, ⟨2, 2⟩⟩ t :=
  @quad_length_closed_form realTransc realFlatConst realTransc_isReal _ realFlatConst_eps_pos
    closedFormBranch_example

/-- parameters in range for `arclen_split` / `length_additive_of_integral` / `quad_length_additive` -/
example : (0:ℝ) ≤ 1/4 ∧ (1/4:ℝ) ≤ 1 := by norm_num

/-- the hypothesis of `quad_length_point` / `quad_length_additive_ends` holds for the real `√` -/
example : @Transc.sqrt ℝ realTransc 0 = 0 := Real.sqrt_zero

/-- `quad_length_point` instantiated: the point `(3, 4)` has length `0` -/
example : @Quad.length ℝ _ realTransc realFlatConst ⟨⟨3, 4⟩, ⟨3, 4⟩, ⟨3, 4⟩⟩ = 0 :=
  @quad_length_point ℝ _ _ _ realTransc realFlatConst Real.sqrt_zero ⟨3, 4⟩

end Lyon.C10
