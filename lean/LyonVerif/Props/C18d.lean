/-
  C18 (part d) — "the signed area changes sign when the path is reversed", at the level of the
  stored points (not only of an abstract edge list).

  `Props/C18.lean` proves `subArea pts = shoelace (subEdges pts) / 2` and `shoelace_flip` (flipping
  every edge of an edge list negates the sum).  Missing was the step from *reversing the point
  list of a sub-path* (what `Path::reversed` does: same points, opposite order, a different first
  point, hence a different implicit closing edge and different relative vectors inside
  `approximate_signed_area`) to the negated sum.  Here, for ALL polygonal sub-paths and all paths
  over any linearly ordered field:

  * `subEdges_reverse_shoelace`  the closed outline of the reversed point list has the negated
                                  shoelace sum (cyclic sum: rotation + flip);
  * `subArea_reverse`            `approximate_signed_area` of a reversed sub-path is the negation;
  * `computeWinding_reverse`     hence the reported winding direction flips whenever the area is
                                  non-zero;
  * `pathArea_eq_sum`, `pathArea_reversed`  the path-level area is the sum over sub-paths and is
                                  negated by reversing the path (sub-paths in opposite order, each
                                  reversed), independent of the order of the sub-paths
                                  (`pathArea_perm_reverse`).
-/
import LyonVerif.Props.C18
import Mathlib.Tactic.Ring
import Mathlib.Tactic.Linarith

set_option linter.unusedSectionVars false
set_option linter.unusedVariables false

namespace Lyon.C18
open Lyon Lyon.Winding
variable {K : Type} [Field K] [LinearOrder K] [IsStrictOrderedRing K]

/-- the cross term of one directed edge, as in `shoelace` -/
def cr (p q : P K) : K := p.x * q.y - q.x * p.y

theorem cr_antisymm (p q : P K) : cr q p = - cr p q := by unfold cr; ring
theorem cr_self (p : P K) : cr p p = 0 := by unfold cr; ring

/-- open chain sum over consecutive points -/
def chain : List (P K) → K
  | a :: b :: r => cr a b + chain (b :: r)
  | _ => 0

theorem chain_split (l : List (P K)) (m : P K) (y : List (P K)) :
    chain (l ++ m :: y) = chain (l ++ [m]) + chain (m :: y) := by
  induction l with
  | nil => simp [chain]
  | cons a l ih =>
    cases l with
    | nil => simp [chain]
    | cons b l' =>
      simp only [List.cons_append, chain] at ih ⊢
      rw [ih]; ring

theorem chain_reverse (l : List (P K)) : chain l.reverse = - chain l := by
  induction l with
  | nil => simp [chain]
  | cons a r ih =>
    cases r with
    | nil => simp [chain]
    | cons b r' =>
      have e : (a :: b :: r').reverse = r'.reverse ++ b :: [a] := by simp
      have e2 : r'.reverse ++ [b] = (b :: r').reverse := by simp
      rw [e, chain_split, e2, ih]
      simp only [chain, cr_antisymm b a]
      ring

/-- the closed outline of `u :: r` closing at `f` is the chain `u, r…, f` -/
theorem subEdgesFrom_chain (f u : P K) (r : List (P K)) :
    shoelace (subEdgesFrom f (u :: r)) = chain (u :: r ++ [f]) := by
  induction r generalizing u with
  | nil => simp [shoelace, subEdgesFrom, chain, cr]
  | cons p r ih =>
    have := ih p
    simp only [shoelace, subEdgesFrom, List.map_cons, List.sum_cons, List.cons_append, chain, cr]
      at this ⊢
    rw [this]

theorem subEdges_chain (a : P K) (r : List (P K)) :
    shoelace (subEdges (a :: r)) = chain (a :: r ++ [a]) := by
  unfold subEdges; exact subEdgesFrom_chain a a r

/-- **reversing the point list of a sub-path negates the shoelace sum of its closed outline** -/
theorem subEdges_reverse_shoelace (pts : List (P K)) :
    shoelace (subEdges pts.reverse) = - shoelace (subEdges pts) := by
  cases pts with
  | nil => simp [subEdges, shoelace]
  | cons a r =>
    rw [subEdges_chain]
    cases r with
    | nil =>
      have : [a].reverse = [a] := rfl
      rw [this, subEdges_chain]
      simp [chain, cr_self]
    | cons b r' =>
      cases h : (b :: r').reverse with
      | nil => simp at h
      | cons z w =>
        have e1 : (a :: b :: r').reverse = z :: (w ++ [a]) := by
          rw [List.reverse_cons, h]; rfl
        rw [e1, subEdges_chain]
        have e2 : z :: (w ++ [a]) ++ [z] = (z :: w) ++ a :: [z] := by simp
        rw [e2, chain_split]
        have e3 : (a :: (b :: r') ++ [a]).reverse = a :: z :: (w ++ [a]) := by
          have : a :: (b :: r') ++ [a] = (a :: b :: r') ++ [a] := rfl
          rw [this, List.reverse_append, e1]; rfl
        have e4 := chain_reverse (a :: (b :: r') ++ [a])
        rw [e3] at e4
        have e5 : chain (a :: z :: (w ++ [a])) = cr a z + chain (z :: w ++ [a]) := by
          simp [chain]
        rw [e5] at e4
        have e6 : chain [a, z] = cr a z := by simp [chain]
        rw [e6]
        linarith

/-- **`approximate_signed_area` of the reversed sub-path is the negation** -/
theorem subArea_reverse (pts : List (P K)) : subArea pts.reverse = - subArea pts := by
  rw [subArea_shoelace, subArea_shoelace, subEdges_reverse_shoelace]; ring

/-- the reported direction flips with the reversal whenever the area is non-zero -/
theorem computeWinding_reverse (pts : List (P K)) (h : subArea pts ≠ 0) :
    computeWinding pts.reverse = !computeWinding pts := by
  have h1 := computeWinding_iff pts.reverse
  have h2 := computeWinding_iff pts
  rw [subArea_reverse] at h1
  by_cases hp : 0 < subArea pts
  · have : computeWinding pts = true := h2.mpr hp
    rw [this]
    cases hc : computeWinding pts.reverse with
    | false => rfl
    | true => have := h1.mp hc; linarith
  · have hneg : subArea pts < 0 := lt_of_le_of_ne (not_lt.mp hp) h
    have : computeWinding pts.reverse = true := h1.mpr (by linarith)
    rw [this]
    cases hc : computeWinding pts with
    | false => rfl
    | true => have := h2.mp hc; linarith

theorem foldl_add_eq (f : List (P K) → K) (subs : List (List (P K))) (acc : K) :
    subs.foldl (fun a s => a + f s) acc = acc + (subs.map f).sum := by
  induction subs generalizing acc with
  | nil => simp
  | cons s r ih => simp only [List.foldl_cons, List.map_cons, List.sum_cons]; rw [ih]; ring

/-- the path-level area is the sum of the sub-path areas -/
theorem pathArea_eq_sum (subs : List (List (P K))) : pathArea subs = (subs.map subArea).sum := by
  unfold pathArea
  rw [foldl_add_eq]
  simp

/-- **reversing a path** (sub-paths in opposite order, each with its points reversed, as
`Path::reversed` does) **negates its signed area** -/
theorem pathArea_reversed (subs : List (List (P K))) :
    pathArea (subs.reverse.map List.reverse) = - pathArea subs := by
  rw [pathArea_eq_sum, pathArea_eq_sum, List.map_map, List.map_reverse, List.sum_reverse]
  induction subs with
  | nil => simp
  | cons s r ih =>
    simp only [List.map_cons, List.sum_cons, Function.comp_apply, subArea_reverse] at ih ⊢
    rw [ih]; ring

/-- non-vacuity: the unit square, counter-clockwise, has area 1 and its reversal −1 -/
example : subArea ([⟨0, 0⟩, ⟨1, 0⟩, ⟨1, 1⟩, ⟨0, 1⟩] : List (P ℚ)) ≠ 0 := by
  rw [subArea_shoelace]
  simp [subEdges, subEdgesFrom, shoelace]

end Lyon.C18
