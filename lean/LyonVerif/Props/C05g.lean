/-
  C05g — the advancement clause, continued.

  §1  OPEN polyline sub-paths at full strength (every scalar type, floats included; only
      `is_nan(NaN) = true` is assumed): ANY points — also points within the merge threshold of the last
      kept point (dropped by `fixed_width_step_impl`), a sub-path whose points all merge into the first
      one (the empty cap), a `begin` directly followed by `end` — all joins and caps, any number of
      sub-paths, started in any idle state.  The table ranges over the KEPT points (`keptFrom`):
      `stroke_open_path_advancement`, `subpath_advancement_merged`; over an ordered field with
      `sqrt ≥ 0` the advancements are `≥` the start value and never decrease along the whole path
      (`pathTableM_ge`, `pathTableM_sorted`).
      NOT covered, hence no unqualified `stroke_path_advancement`: CLOSED sub-paths (`close()`: the
      join at the last kept point and, re-created with the start value, the two vertices of
      `closeVertices` at the first point, whose join carries start + perimeter; if the first point is
      within merge distance of the last kept one that point is moved onto it).
  §2  Curves, run level (window bookkeeping): endpoints that wait for their advancement — what
      `quadratic_bezier_to` / `cubic_bezier_to` feed (`quadPoints_adv_nan`, `cubicPoints_adv_nan`) — and
      are not merged leave the window with pending advancement `chordSum`: the start value plus the sum
      of the flattened chord lengths (`curve_window_advancement`, both branches of
      `fixed_width_step_impl`: `flattened_step` and `compute_join_side_positions_fixed_width`);
      `chordSum` grows with every chord when `sqrt ≥ 0` (`chordSum_snoc`, `chordSum_ge`).
-/
import LyonVerif.Lemmas.StrokeAdvCurve
import LyonVerif.Props.C05f

set_option linter.unusedSectionVars false
set_option linter.unusedVariables false

namespace Lyon.C05g
open Lyon Scalar Lyon.Stroke Lyon.Stroke.Full Lyon.C05 Lyon.C05b Lyon.C05c

/-! ## §1 open polyline sub-paths with merged points -/

section Adv
variable {α : Type} [Scalar α] [Transc α] [Asin α] [FlatConst α]

/-- **one open polyline sub-path, any points, started in any idle state**: every vertex it emits names
a KEPT point `k` (the first point, or a `line_to` point not within the merge threshold of the kept
point before it), sits on it, and reports `advTable`'s entry `k` started at the current
`sub_path_start_advancement`; afterwards the run is idle and `sub_path_start_advancement` is the
table's last entry (unchanged when a single point was kept) -/
theorem subpath_advancement_merged (e : Env α) (store : Nat → List α) (hfw : e.o.varWidth = false)
    (hnan : Transc.isNaN (nan : α) = true) (r0 : Run α) (h0 : Idle r0)
    (i0 : Nat) (p0 : P α) (pts : List (Nat × P α)) :
    Idle (runFrom e store r0 (subEvsM i0 p0 pts))
    ∧ Emits (AdvOK (advTable r0.st.subPathStartAdvancement ((i0, p0) :: keptFrom e.thr p0 pts)))
        r0.st.out (runFrom e store r0 (subEvsM i0 p0 pts)).st.out
    ∧ ((advTable r0.st.subPathStartAdvancement ((i0, p0) :: keptFrom e.thr p0 pts)).getLast?).map (·.2.2)
        = some (runFrom e store r0 (subEvsM i0 p0 pts)).st.subPathStartAdvancement :=
  subpath_advancement_m e store hfw hnan r0 h0 i0 p0 pts

/-- **advancement along a whole path of OPEN polyline sub-paths — no hypothesis on the points**, all
joins and caps, every scalar type: every vertex names a kept point of some sub-path, sits on it and
reports that point's entry of `pathTableM`: `0` at the very first point, within a sub-path the lengths
of the kept edges added up, each sub-path continuing at the value the previous one ended with. -/
theorem stroke_open_path_advancement (e : Env α) (store : Nat → List α) (hfw : e.o.varWidth = false)
    (hnan : Transc.isNaN (nan : α) = true) (subs : List (SubM α)) :
    ∀ v ∈ (runEvents e store (pathEvsM subs)).st.out.verts,
      ∃ t ∈ pathTableM e.thr zero subs,
        v.src = .endpoint t.1 ∧ v.positionOnPath = t.2.1 ∧ v.advancement = t.2.2 :=
  path_advancement_m e store hfw hnan subs

end Adv

section AdvField
variable {K : Type} [Field K] [LinearOrder K] [IsStrictOrderedRing K] [Transc K]
open Lyon.C05d (advTable_ge advTable_sorted)
open Lyon.C05f (le_lastAdv)

theorem pathTableM_ge (hs0 : ∀ x : K, 0 ≤ x → 0 ≤ Transc.sqrt x) (thr : K) :
    ∀ (subs : List (SubM K)) (a : K), ∀ t ∈ pathTableM thr a subs, a ≤ t.2.2 := by
  intro subs
  induction subs with
  | nil => intro a t ht; simp [pathTableM] at ht
  | cons s r ih =>
    intro a t ht
    simp only [pathTableM, List.mem_append] at ht
    rcases ht with ht | ht
    · exact advTable_ge hs0 _ a t ht
    · exact le_trans (le_lastAdv hs0 a _).1 (ih _ t ht)

/-- **monotone along the whole path** (kept points) -/
theorem pathTableM_sorted (hs0 : ∀ x : K, 0 ≤ x → 0 ≤ Transc.sqrt x) (thr : K) :
    ∀ (subs : List (SubM K)) (a : K), ((pathTableM thr a subs).map (·.2.2)).Pairwise (· ≤ ·) := by
  intro subs
  induction subs with
  | nil => intro a; simp [pathTableM]
  | cons s r ih =>
    intro a
    simp only [pathTableM, List.map_append, List.pairwise_append]
    refine ⟨advTable_sorted hs0 _ a, ih _, ?_⟩
    intro x hx y hy
    simp only [List.mem_map] at hx hy
    obtain ⟨t, ht, rfl⟩ := hx
    obtain ⟨u, hu, rfl⟩ := hy
    exact le_trans ((le_lastAdv hs0 a _).2 t ht) (pathTableM_ge hs0 thr r _ u hu)

end AdvField

/-! ## §2 curves -/

section Curves
variable {α : Type} [Scalar α] [Transc α]

/-- **the window accumulates the flattened chord lengths** (fixed width; `flattened_step` or the
ordinary join, whichever `fixed_width_step_impl` takes): the window holds `a, b` (`b` the point the
curve starts at, its advancement pending or already `a.advancement + |b − a|`); feeding endpoints
`l` that wait for their advancement and are not merged leaves `a', b'` with `b'` at the last point
fed and `a'.advancement + |b' − a'| = chordSum (a.advancement + |b − a|) b (positions of l)`: the
advancement of the point the curve starts at plus the sum of the chord lengths — the value the
curve's end point gets as soon as it is the middle of a join or the end of the sub-path -/
theorem curve_window_advancement {e : Env α} (hnan : Transc.isNaN (nan : α) = true) (l : List (EP α))
    (st : St α) (a b : EP α) (hwf : WF st.buf) (hab : st.buf.lastTwo = some (a, b))
    (hadv : b.advancement = nan ∨ b.advancement = a.advancement + len (b.position - a.position))
    (hl : ∀ q ∈ l, q.advancement = nan) (hap : ApartL e.thr b.position (l.map (·.position))) :
    ∃ a' b', (l.foldl (fun s q => (fwStep e s q).1) st).buf.lastTwo = some (a', b')
      ∧ b'.position = (b.position :: l.map (·.position)).getLast (by simp)
      ∧ a'.advancement + len (b'.position - a'.position)
          = chordSum (a.advancement + len (b.position - a.position)) b.position (l.map (·.position)) := by
  obtain ⟨a', b', g1, _, _, g4, g5⟩ := feed_adv_any hnan l st a b hwf hab hadv hl hap
  exact ⟨a', b', g1, g4, g5⟩

variable [FlatConst α]

/-- the endpoints a quadratic contributes wait for their advancement -/
theorem quadPoints_adv_nan {q : Quad α} {tol : α} {a b : Nat} {hwAt : α → α} {lj : LineJoin} {l : List (EP α)}
    (h : quadPoints q tol a b hwAt lj = some l) : ∀ x ∈ l, x.advancement = nan := by
  unfold quadPoints at h
  cases hf : flattenQuad q tol with
  | none => rw [hf] at h; simp at h
  | some l0 =>
    rw [hf] at h
    simp only [Option.map_some, Option.some.injEq] at h
    subst h
    intro x hx
    simp only [List.mem_map] at hx
    obtain ⟨f, _, rfl⟩ := hx
    rfl

/-- … and so do those of a cubic -/
theorem cubicPoints_adv_nan {q : Cubic α} {tol : α} {a b : Nat} {hwAt : α → α} {lj : LineJoin} {l : List (EP α)}
    (h : cubicPoints q tol a b hwAt lj = some l) : ∀ x ∈ l, x.advancement = nan := by
  unfold cubicPoints at h
  cases hf : q.forEachFlattenedWithT tol with
  | none => rw [hf] at h; simp at h
  | some l0 =>
    rw [hf] at h
    simp only [Option.map_some, Option.some.injEq] at h
    subst h
    intro x hx
    simp only [List.mem_map] at hx
    obtain ⟨f, _, rfl⟩ := hx
    rfl

end Curves

section CurvesField
variable {K : Type} [Field K] [LinearOrder K] [IsStrictOrderedRing K] [Transc K]

/-- one more chord adds its length -/
theorem chordSum_snoc (a : K) : ∀ (l : List (P K)) (p q : P K),
    chordSum a p (l ++ [q]) = chordSum a p l + len (q - (p :: l).getLast (by simp)) := by
  intro l
  induction l generalizing a with
  | nil => intro p q; simp [chordSum]
  | cons x xs ih =>
    intro p q
    simp only [List.cons_append, chordSum]
    rw [ih]
    simp

/-- **monotone along the curve**: with `sqrt ≥ 0` the accumulated advancement never decreases -/
theorem chordSum_ge (hs0 : ∀ x : K, 0 ≤ x → 0 ≤ Transc.sqrt x) :
    ∀ (l : List (P K)) (a : K) (p : P K), a ≤ chordSum a p l := by
  intro l
  induction l with
  | nil => intro a p; exact le_refl _
  | cons x xs ih =>
    intro a p
    have h : (0 : K) ≤ len (x - p) :=
      hs0 _ (by simp only [geom]; exact add_nonneg (mul_self_nonneg _) (mul_self_nonneg _))
    exact le_trans (le_add_of_nonneg_right h) (ih _ x)

end CurvesField

/-! ## non-vacuity -/

section Examples
open Lyon.C05d (toyNaN)
attribute [local instance] toyNaN toyAsin toyFlat

/-- a path whose first sub-path has a point within the merge threshold of the one before it
(`(3,4)` then `(3, 4 + 1/1000)`), and whose second sub-path collapses to a single point -/
def exSubsM : List (SubM ℚ) :=
  [⟨0, ⟨0, 0⟩, [(1, ⟨3, 4⟩), (2, ⟨3, 4 + 1 / 1000⟩), (3, ⟨3, 10⟩)]⟩, ⟨4, ⟨7, 7⟩, [(5, ⟨7, 7⟩)]⟩]

example : (pathTableM (1 / 200 : ℚ) 0 exSubsM).map (fun t => (t.1, t.2.2)) = [(0, 0), (1, 5), (3, 11), (4, 11)] := by
  decide +kernel

example : chordSum (0 : ℚ) ⟨0, 0⟩ [⟨3, 4⟩, ⟨3, 10⟩, ⟨11, 16⟩] = 21 := by decide +kernel

end Examples

end Lyon.C05g
