/-
  C06b — the triangles the COMPLETE stroker model emits cover the rectangle of every segment.

  `Props/C06.lean` proves the component algebra (quad covers trapezoid, miter vector, cap clipping);
  `Props/C05c.lean` / `C05d.lean` prove index validity of the complete model `Model/Tess/StrokeFull.lean`
  (tied bit for bit to lyon by the families `full`, `fulle` of C05 and `stroke2` of C06).  This file
  joins the two: a theorem about the OUTPUT of the complete model.

  * `stroke_polyline_emission_shape` (`Lemmas/StrokeCover{Shape,Loop,Run}.lean`): on an open fixed-width
    polyline without merged points and folding joins, non-round join and caps, the run
    `begin, line_to …, end(false)` emits — as index triples over vertices emitted at exactly these
    positions — the two triangles of `add_edge_triangles` of every edge, between the cap corners
    (`tessellate_first_edge` / `tessellate_last_edge`) and the side points
    `compute_join_side_positions_fixed_width` stored, and the triangle of `tessellate_join` of every
    join that has one.  Any scalar field; no law of `sqrt` needed.
  * `stroke_polyline_covers_rectangles`: over an ordered field with the `sqrt` laws and the exact
    `Line::intersection`, Bevel or Miter join, butt or square caps, in the no-fold regime `Regime` (a
    decidable conjunction of comparisons of numbers the model computes): for every segment `k` and
    every point `q = p_k + s·(p_{k+1} − p_k) + u·n_k`, `0 ≤ s ≤ 1`, `|u| ≤ 1`, `n_k = perp(t_k)·w/2`, the
    output contains an index triple whose three emitted vertex positions span a triangle containing `q`.
    (`Lemmas/StrokeCoverGeo.lean`, `StrokeCoverEdge.lean`: corner lemmas; `StrokeCoverJoin.lean`: the side
    points in closed form; `StrokeCoverAsm.lean`: assembly.)
  * `stroke_polyline_covers_tessellate`: the same for what `StrokeTessellator::tessellate`
    (`tessellateFw`) returns on the path `begin p0, line_to p1, …, end(false)`.
  * `stroke_polyline_reach` (`Lemmas/StrokeCoverReach.lean`): the emission shape is exhaustive (`Emitted.only`:
    the run emits no other index triple), and every emitted triangle stays within `w/2·√(1 + M²)` of the
    SEGMENT of its edge, `M` the largest outward shift of the edge's quad corners in half widths:
    `stroke_reach_factor_bevel` (Bevel: `M = 0`, or `1` on an edge with a square cap: factors 1, √2),
    `stroke_reach_factor` (Miter: `M ≤ |tan(θ/2)|`, i.e. the miter length `1/cos(θ/2)`).
  * non-vacuity: `exRegime` — the 3-4-5 polyline `(0,0) (12,16) (32,16) (44,32)`, width 2, over `ℝ` with the
    real square root satisfies every hypothesis; the theorems are instantiated on it.
  NOT covered (left to the slab checker on real output): `LineJoin::MiterClip` and `Round`, round caps,
  closed sub-paths, variable width, curves, merged points, the fold regime, rounding.
-/
import LyonVerif.Lemmas.StrokeCoverReach
import LyonVerif.Lemmas.StrokeCoverFold
import Mathlib.Analysis.SpecialFunctions.Sqrt
import Mathlib.Tactic.IntervalCases

set_option linter.unusedSectionVars false
set_option linter.unusedVariables false

namespace Lyon.C06b
open Lyon Scalar Lyon.Stroke Lyon.Stroke.Full Lyon.C05 Lyon.C05b Lyon.C05c Lyon.C06
open Lyon.StrokeQuad (lineIntersection)

section
variable {K : Type} [Field K] [LinearOrder K] [IsStrictOrderedRing K] [Transc K] [Asin K] [FlatConst K]

/-- **emission shape of the complete model** (see `Emitted`): any ordered field, every `sqrt` -/
theorem stroke_polyline_emission_shape (e : Env K) (store : Nat → List K) (hfw : e.o.varWidth = false)
    (hj : e.o.join ≠ .round) (hs : e.o.startCap ≠ .round) (he : e.o.endCap ≠ .round) (hw0 : e.hwFw ≠ 0)
    (pt : Nat → P K) (n : Nat) (hn : 1 ≤ n)
    (hfar : ∀ i, i < n → pointsAreTooClose e.thr (pt i) (pt (i + 1)) = false)
    (hnf : ∀ i, 1 ≤ i → i < n → noFoldAt e (pt (i - 1)) (pt i) (pt (i + 1))) :
    Emitted e pt n (runEvents e store (polyEvs pt n)).st.out :=
  run_emitted e store hfw (Or.inl hj) hs he hw0 pt n hn hfar hnf

/-- **`stroke_polyline_covers_rectangles`.**  Complete stroker model, open polyline `pt 0 … pt n`
(`n ≥ 1` edges), fixed width `w = 2·e.hwFw > 0`, Bevel, Miter or MiterClip join (any miter limit; `≥ 1` and
`eps < w/2` for MiterClip: `CoverHyp.clip`; kept AND clipped miters) or Round join, butt, square or round
caps (independently; Round join / cap: with the law `cos² + sin² = 1`, see `Props/C06f.lean`), exact arithmetic (`sqrt x ≥ 0`, `sqrt x² = x`; `Line::intersection` with guard
`eps ≥ 0`), in the no-fold regime `Regime e eps pt n`:
for every segment `k < n` and every point `q = p_k + s·(p_{k+1} − p_k) + u·perp(t_k)·w/2` of its
rectangle (`0 ≤ s ≤ 1`, `−1 ≤ u ≤ 1`) the output contains an index triple `t` whose three vertices
exist and whose emitted positions (`StrokeVertex::position`) span a triangle containing `q`. -/
theorem stroke_polyline_covers_rectangles (e : Env K) (eps : K) (h : CoverHyp e eps) (store : Nat → List K)
    (pt : Nat → P K) (n : Nat) (hn : 1 ≤ n) (hr : Regime e eps pt n)
    (k : Nat) (hk : k < n) (s u : K) (hs : 0 ≤ s) (hs1 : s ≤ 1) (hu : -1 ≤ u) (hu1 : u ≤ 1) :
    ∃ t ∈ (runEvents e store (polyEvs pt n)).st.out.tris, ∃ v1 v2 v3 : VData K,
      (runEvents e store (polyEvs pt n)).st.out.verts[t.1]? = some v1
      ∧ (runEvents e store (polyEvs pt n)).st.out.verts[t.2.1]? = some v2
      ∧ (runEvents e store (polyEvs pt n)).st.out.verts[t.2.2]? = some v3
      ∧ InTri (bandPoint (pt k) (pt (k + 1)) ((perp (eT pt k)).smul e.hwFw) s u)
          (v1.read.position, v2.read.position, v3.read.position) := by
  obtain ⟨T, ⟨t, ht, ⟨v1, e1, p1⟩, ⟨v2, e2, p2⟩, ⟨v3, e3, p3⟩⟩, hin⟩ :=
    edge_cover h hr (regime_emitted h store hn hr) k hk s u hs hs1 hu hu1
  refine ⟨t, ht, v1, v2, v3, e1, e2, e3, ?_⟩
  have : (v1.read.position, v2.read.position, v3.read.position) = T := by
    show (v1.position, v2.position, v3.position) = T
    rw [p1, p2, p3]
  rw [this]; exact hin

/-- **`stroke_polyline_reach`** (the other half of the property, same regime).  EVERY index triple the run
emits (`Emitted.only`: the edge quads and join triangles are all there is) has three existing vertices, and
every point of the triangle they span lies within `w/2 · √(1 + M_k²)` of the SEGMENT `p_k p_{k+1}` of some edge
`k` (`NearSeg`: there is `x ∈ [0, |p_{k+1} − p_k|]` with `|q − (p_k + t_k·x)|² ≤ reachSq`), where
`reachSq = (w/2)²·(1 + outK²)` and `outK` is the largest outward shift of that edge's quad corners in half
widths: see `stroke_reach_factor_bevel` (`0` resp. the cap's `1` for a square cap: factors 1 and √2) and
`stroke_reach_factor` (at most `|tan(θ/2)|` at a join: the miter length `1/cos(θ/2)`). -/
theorem stroke_polyline_reach (e : Env K) (eps : K) (h : CoverHyp e eps) (store : Nat → List K)
    (pt : Nat → P K) (n : Nat) (hn : 1 ≤ n) (hr : Regime e eps pt n)
    (t : Stroke.Tri) (ht : t ∈ (runEvents e store (polyEvs pt n)).st.out.tris) :
    ∃ k, k < n ∧ ∃ v1 v2 v3 : VData K,
      (runEvents e store (polyEvs pt n)).st.out.verts[t.1]? = some v1
      ∧ (runEvents e store (polyEvs pt n)).st.out.verts[t.2.1]? = some v2
      ∧ (runEvents e store (polyEvs pt n)).st.out.verts[t.2.2]? = some v3
      ∧ ∀ q, InTri q (v1.read.position, v2.read.position, v3.read.position) →
          NearSeg (pt k) (eT pt k) (eL pt k) (reachSq e pt n k) q :=
  tri_reach h hr (regime_emitted h store hn hr) t ht

/-- the reach factor with a Bevel join: `reachSq ≤ (w/2)²·(1 + c²)`, `c = 1` if the edge carries a square cap,
else `0` — factor 1 along the path, √2 at a square cap -/
theorem stroke_reach_factor_bevel (e : Env K) (eps : K) (h : CoverHyp e eps) (pt : Nat → P K) (n : Nat)
    (hr : Regime e eps pt n) (hb : e.o.join = .bevel) (k : Nat) (hk : k < n) :
    reachSq e pt n k ≤ e.hwFw * e.hwFw * (1 + (Max.max (if k = 0 then capU e.o.startCap else 0)
      (if k + 1 = n then capU e.o.endCap else 0)) ^ 2) := by
  have h1 := outK_bevel h hr (Or.inl hb) k hk
  have h0 := (outK_bounds e pt n k).1
  have hw := h.hw
  unfold reachSq
  have : outK e pt n k * outK e pt n k ≤ (Max.max (if k = 0 then capU e.o.startCap else 0)
      (if k + 1 = n then capU e.o.endCap else 0)) ^ 2 := by nlinarith
  nlinarith [mul_pos hw hw]

/-- the reach factor in general (Miter joins): at most the miter length at the edge's ends —
`reachSq ≤ (w/2)²·(1 + m²)`, `m` the larger of `|tan(θ/2)|` at the two ends (`1` resp. `0` for a square
resp. butt cap there); `1 + tan²(θ/2) = 1/cos²(θ/2)` -/
theorem stroke_reach_factor (e : Env K) (eps : K) (h : CoverHyp e eps) (pt : Nat → P K) (n : Nat)
    (k : Nat) (hk : k < n) :
    reachSq e pt n k ≤ e.hwFw * e.hwFw * (1 + (Max.max (if k = 0 then capU e.o.startCap else tauAbs pt n k)
      (if k + 1 = n then capU e.o.endCap else tauAbs pt n (k + 1))) ^ 2) := by
  have h1 := outK_le e pt n k hk
  have h0 := (outK_bounds e pt n k).1
  have hw := h.hw
  unfold reachSq
  have : outK e pt n k * outK e pt n k ≤ (Max.max (if k = 0 then capU e.o.startCap else tauAbs pt n k)
      (if k + 1 = n then capU e.o.endCap else tauAbs pt n (k + 1))) ^ 2 := by nlinarith
  nlinarith [mul_pos hw hw]

/-- **no join folds in the regime**: the model's own fold test (one conjunct of `Regime`) is implied by the
others — `RegimeCore` (no merged points, edges longer than `eps`, no U-turn, every edge at least
`w/2·(|tan(θ_a/2)| + |tan(θ_b/2)| + 1)` long) is the whole regime.  (`compute_join_side_positions_fixed_width`
folds only if the front miter point lies beyond both neighbouring edges or the miter vector vanishes.) -/
theorem regime_core_suffices (e : Env K) (eps : K) (h : CoverHyp e eps) (pt : Nat → P K) (n : Nat)
    (hr : RegimeCore e eps pt n) : Regime e eps pt n :=
  regime_of_core h.sqrt_nonneg h.sqrt_sq h.eps_nonneg h.hw hr

/-- **the public entry point**: whatever `StrokeTessellator::tessellate` (`tessellate_fw`) returns on the
path `begin p_0, line_to p_1, …, line_to p_n, end(false)` covers every segment's rectangle.  `e` is the
environment with the fixed-width flag forced, as `tessellate_fw` does. -/
theorem stroke_polyline_covers_tessellate (e : Env K) (eps : K)
    (h : CoverHyp { e with o := { e.o with varWidth := false } } eps)
    (pt : Nat → P K) (n : Nat) (hn : 1 ≤ n) (hr : Regime { e with o := { e.o with varWidth := false } } eps pt n)
    (out : Out K) (ho : tessellateFw e (polyPath pt n) = some out)
    (k : Nat) (hk : k < n) (s u : K) (hs : 0 ≤ s) (hs1 : s ≤ 1) (hu : -1 ≤ u) (hu1 : u ≤ 1) :
    ∃ t ∈ out.tris, ∃ v1 v2 v3 : VData K,
      out.verts[t.1]? = some v1 ∧ out.verts[t.2.1]? = some v2 ∧ out.verts[t.2.2]? = some v3
      ∧ InTri (bandPoint (pt k) (pt (k + 1)) ((perp (eT pt k)).smul (e.o.lineWidth * half)) s u)
          (v1.read.position, v2.read.position, v3.read.position) := by
  unfold tessellateFw at ho
  rw [assignIds_polyPath pt n hn] at ho
  rw [tessellateIds_out2 ho]
  exact stroke_polyline_covers_rectangles _ eps h _ pt n hn hr k hk s u hs hs1 hu hu1

end

/-! ### non-vacuity: a concrete polyline over `ℝ` in the regime, evaluated through the model

Width 2 (`w/2 = 1`), 3-4-5 directions: `(0,0) → (12,16) → (32,16) → (44,32)`: three edges of length 20
with unit tangents `(3/5, 4/5)`, `(1, 0)`, `(3/5, 4/5)`; a right turn then a left turn, both with
`cos = 3/5`, `|tan(θ/2)| = 1/2`; Bevel join, butt start cap, square end cap. -/

section Real
attribute [local instance] Lyon.C05.realTransc
@[instance_reducible] noncomputable def realAsin : Asin ℝ := ⟨id⟩
@[instance_reducible] noncomputable def realFlat : FlatConst ℝ := ⟨1 / 10000, fun m e => (m : ℝ) / 10 ^ e, 1 / 5⟩
attribute [local instance] realAsin realFlat

/-- the example polyline -/
noncomputable def exPt : Nat → P ℝ
  | 0 => ⟨0, 0⟩
  | 1 => ⟨12, 16⟩
  | 2 => ⟨32, 16⟩
  | _ => ⟨44, 32⟩

/-- tolerance 0.1, width 2, miter limit 4, join `lj`, butt / square caps, fixed width -/
noncomputable def exEnvJ (lj : LineJoin) : Env ℝ :=
  Env.new ⟨1 / 10, 2, 4, lj, .butt, .square, false, 0⟩ (lineIntersection (1 / 10 ^ 8))
/-- … with the Bevel join -/
noncomputable abbrev exEnv : Env ℝ := exEnvJ .bevel

theorem len_of_sq (v : P ℝ) (L : ℝ) (hL : 0 ≤ L) (h : v.sqLen = L ^ 2) : len v = L := by
  show Real.sqrt _ = L
  rw [h]; exact Real.sqrt_sq hL

theorem exHypJ (lj : LineJoin) (hlj : lj = .bevel ∨ lj = .miter ∨ lj = .miterClip ∨ lj = .round) : CoverHyp (exEnvJ lj) (1 / 10 ^ 8) where
  sqrt_nonneg := fun x _ => Real.sqrt_nonneg x
  sqrt_sq := fun x hx => Real.mul_self_sqrt hx
  ix_eq := rfl
  eps_nonneg := by positivity
  fw := rfl
  join := by
    rcases hlj with h | h | h | h
    · exact Or.inl h
    · exact Or.inr (Or.inl h)
    · exact Or.inr (Or.inr (Or.inl h))
    · refine Or.inr (Or.inr (Or.inr ⟨h, fun x => ?_⟩))
      show Real.cos x * Real.cos x + Real.sin x * Real.sin x = 1
      have := Real.cos_sq_add_sin_sq x; nlinarith
  clip := fun _ => by
    constructor
    · show (1 : ℝ) ≤ 4; norm_num
    · show (1 / 10 ^ 8 : ℝ) < 2 * half
      have : (half : ℝ) = 1 / 2 := sc_half
      rw [this]; norm_num
  scap := Or.inl (by show Lyon.StrokeQuad.Cap.butt ≠ .round; decide)
  ecap := Or.inl (by show Lyon.StrokeQuad.Cap.square ≠ .round; decide)
  hw := by
    show (0 : ℝ) < 2 * half
    have : (half : ℝ) = 1 / 2 := sc_half
    rw [this]; norm_num

theorem exL0 : eL exPt 0 = 20 := len_of_sq _ 20 (by norm_num) (by simp only [exPt, geom]; norm_num)
theorem exL1 : eL exPt 1 = 20 := len_of_sq _ 20 (by norm_num) (by simp only [exPt, geom]; norm_num)
theorem exL2 : eL exPt 2 = 20 := len_of_sq _ 20 (by norm_num) (by simp only [exPt, geom]; norm_num)

theorem exT0 : eT exPt 0 = ⟨3 / 5, 4 / 5⟩ := by
  have : len (exPt (0 + 1) - exPt 0) = 20 := exL0
  unfold eT; rw [this]; apply P.ext' <;> simp only [exPt, geom] <;> norm_num
theorem exT1 : eT exPt 1 = ⟨1, 0⟩ := by
  have : len (exPt (1 + 1) - exPt 1) = 20 := exL1
  unfold eT; rw [this]; apply P.ext' <;> simp only [exPt, geom] <;> norm_num
theorem exT2 : eT exPt 2 = ⟨3 / 5, 4 / 5⟩ := by
  have : len (exPt (2 + 1) - exPt 2) = 20 := exL2
  unfold eT; rw [this]; apply P.ext' <;> simp only [exPt, geom] <;> norm_num

theorem exHyp : CoverHyp exEnv (1 / 10 ^ 8) := exHypJ _ (Or.inl rfl)

theorem exTau0 : jtau exPt 0 = -1 / 2 := by
  unfold jtau; rw [exT0, exT1]; simp only [geom]; norm_num
theorem exTau1 : jtau exPt 1 = 1 / 2 := by
  unfold jtau; rw [exT1, exT2]; simp only [geom]; norm_num

/-- the example polyline is in the regime, for every join kind -/
theorem exRegimeJ (lj : LineJoin) : Regime (exEnvJ lj) (1 / 10 ^ 8) exPt 3 := by
  have hhw : (exEnvJ lj).hwFw = 1 := by
    show (2 : ℝ) * half = 1
    have : (half : ℝ) = 1 / 2 := sc_half
    rw [this]; norm_num
  refine ⟨?_, ?_, ?_, ?_, ?_⟩
  · intro i hi
    interval_cases i <;>
      (simp [exEnvJ, exPt, pointsAreTooClose, Env.new, squareMergeThreshold, geom]; norm_num)
  · intro i hi
    interval_cases i
    · rw [exL0]; norm_num
    · rw [exL1]; norm_num
    · rw [exL2]; norm_num
  · intro i hi
    interval_cases i
    · rw [exT0, exT1, normalEpsilon_eq]; simp only [geom]; norm_num
    · rw [exT1, exT2, normalEpsilon_eq]; simp only [geom]; norm_num
  · intro i hi
    interval_cases i
    · apply noFoldAt_of_dot_nonneg
      have h1 : (exPt (0 + 1 + 1) - exPt (0 + 1)).sdiv (len (exPt (0 + 1 + 1) - exPt (0 + 1))) = eT exPt 1 := rfl
      have h0 : (exPt (0 + 1) - exPt 0).sdiv (len (exPt (0 + 1) - exPt 0)) = eT exPt 0 := rfl
      rw [h1, h0, exT0, exT1]; simp only [geom]; norm_num
    · apply noFoldAt_of_dot_nonneg
      have h1 : (exPt (1 + 1 + 1) - exPt (1 + 1)).sdiv (len (exPt (1 + 1 + 1) - exPt (1 + 1))) = eT exPt 2 := rfl
      have h0 : (exPt (1 + 1) - exPt 1).sdiv (len (exPt (1 + 1) - exPt 1)) = eT exPt 1 := rfl
      rw [h1, h0, exT1, exT2]; simp only [geom]; norm_num
  · intro i hi
    rw [hhw]
    interval_cases i
    · simp only [tauAbs]; norm_num; rw [exL0, exTau0]; norm_num [abs_of_neg]
    · simp only [tauAbs]; norm_num; rw [exL1, exTau0, exTau1]; norm_num [abs_of_neg, abs_of_pos]
    · simp only [tauAbs]; norm_num; rw [exL2, exTau1]; norm_num [abs_of_pos]

theorem exRegime : Regime exEnv (1 / 10 ^ 8) exPt 3 := exRegimeJ _

/-- … so every point of the three rectangles lies in a triangle the complete model emits, e.g. the
point `s = 1`, `u = −1` of the first edge: the corner of its rectangle at the join `(12,16)` on the INSIDE of
the right turn, which lies OUTSIDE that edge's own quad (the inner side is shortened to the miter point) -/
example (store : Nat → List ℝ) :
    ∃ t ∈ (runEvents exEnv store (polyEvs exPt 3)).st.out.tris, ∃ v1 v2 v3 : VData ℝ,
      (runEvents exEnv store (polyEvs exPt 3)).st.out.verts[t.1]? = some v1
      ∧ (runEvents exEnv store (polyEvs exPt 3)).st.out.verts[t.2.1]? = some v2
      ∧ (runEvents exEnv store (polyEvs exPt 3)).st.out.verts[t.2.2]? = some v3
      ∧ InTri (bandPoint (exPt 0) (exPt 1) ((perp (eT exPt 0)).smul exEnv.hwFw) 1 (-1))
          (v1.read.position, v2.read.position, v3.read.position) :=
  stroke_polyline_covers_rectangles exEnv _ exHyp store exPt 3 (by norm_num) exRegime 0 (by norm_num) 1 (-1)
    (by norm_num) (by norm_num) (by norm_num) (by norm_num)

/-- … and every triangle of that stroke stays within the reach of its edge's segment; with the Bevel join
of `exEnv` the squared reach of the middle edge is at most `(w/2)² = 1` (factor 1), that of the last edge
(square cap) at most `2` (factor √2) -/
example (store : Nat → List ℝ) (t : Stroke.Tri) (ht : t ∈ (runEvents exEnv store (polyEvs exPt 3)).st.out.tris) :
    ∃ k, k < 3 ∧ ∃ v1 v2 v3 : VData ℝ,
      (runEvents exEnv store (polyEvs exPt 3)).st.out.verts[t.1]? = some v1
      ∧ (runEvents exEnv store (polyEvs exPt 3)).st.out.verts[t.2.1]? = some v2
      ∧ (runEvents exEnv store (polyEvs exPt 3)).st.out.verts[t.2.2]? = some v3
      ∧ ∀ q, InTri q (v1.read.position, v2.read.position, v3.read.position) →
          NearSeg (exPt k) (eT exPt k) (eL exPt k) (reachSq exEnv exPt 3 k) q :=
  stroke_polyline_reach exEnv _ exHyp store exPt 3 (by norm_num) exRegime t ht

example : reachSq exEnv exPt 3 1 ≤ exEnv.hwFw * exEnv.hwFw * (1 + 0 ^ 2)
    ∧ reachSq exEnv exPt 3 2 ≤ exEnv.hwFw * exEnv.hwFw * (1 + 1 ^ 2) := by
  constructor
  · have := stroke_reach_factor_bevel exEnv _ exHyp exPt 3 exRegime rfl 1 (by norm_num)
    simpa using this
  · have := stroke_reach_factor_bevel exEnv _ exHyp exPt 3 exRegime rfl 2 (by norm_num)
    simpa [exEnvJ, Env.new, capU] using this

/-- the Miter join (limit 4; both miters are kept: `|normal|² = 5/4 ≤ 64`): the same polyline is in the regime
and covered; the reach of the middle edge is at most the miter length, `(w/2)²·(1 + (1/2)²)` -/
example (store : Nat → List ℝ) (s u : ℝ) (hs : 0 ≤ s) (hs1 : s ≤ 1) (hu : -1 ≤ u) (hu1 : u ≤ 1) :
    ∃ t ∈ (runEvents (exEnvJ .miter) store (polyEvs exPt 3)).st.out.tris, ∃ v1 v2 v3 : VData ℝ,
      (runEvents (exEnvJ .miter) store (polyEvs exPt 3)).st.out.verts[t.1]? = some v1
      ∧ (runEvents (exEnvJ .miter) store (polyEvs exPt 3)).st.out.verts[t.2.1]? = some v2
      ∧ (runEvents (exEnvJ .miter) store (polyEvs exPt 3)).st.out.verts[t.2.2]? = some v3
      ∧ InTri (bandPoint (exPt 1) (exPt 2) ((perp (eT exPt 1)).smul (exEnvJ .miter).hwFw) s u)
          (v1.read.position, v2.read.position, v3.read.position) :=
  stroke_polyline_covers_rectangles (exEnvJ .miter) _ (exHypJ _ (Or.inr (Or.inl rfl))) store exPt 3 (by norm_num) (exRegimeJ _)
    1 (by norm_num) s u hs hs1 hu hu1

example : reachSq (exEnvJ .miter) exPt 3 1 ≤ (exEnvJ .miter).hwFw * (exEnvJ .miter).hwFw * (1 + (1 / 2) ^ 2) := by
  have := stroke_reach_factor (exEnvJ .miter) _ (exHypJ _ (Or.inr (Or.inl rfl))) exPt 3 1 (by norm_num)
  have e1 : tauAbs exPt 3 1 = 1 / 2 := by
    simp only [tauAbs]; norm_num; rw [exTau0]; norm_num [abs_of_neg]
  have e2 : tauAbs exPt 3 (1 + 1) = 1 / 2 := by
    simp only [tauAbs]; norm_num; rw [exTau1]; norm_num [abs_of_pos]
  rw [e1, e2] at this
  simpa using this

/-- `LineJoin::MiterClip` (miter limit 4: both miters of this polyline are kept) -/
example (store : Nat → List ℝ) (s u : ℝ) (hs : 0 ≤ s) (hs1 : s ≤ 1) (hu : -1 ≤ u) (hu1 : u ≤ 1) :
    ∃ t ∈ (runEvents (exEnvJ .miterClip) store (polyEvs exPt 3)).st.out.tris, ∃ v1 v2 v3 : VData ℝ,
      (runEvents (exEnvJ .miterClip) store (polyEvs exPt 3)).st.out.verts[t.1]? = some v1
      ∧ (runEvents (exEnvJ .miterClip) store (polyEvs exPt 3)).st.out.verts[t.2.1]? = some v2
      ∧ (runEvents (exEnvJ .miterClip) store (polyEvs exPt 3)).st.out.verts[t.2.2]? = some v3
      ∧ InTri (bandPoint (exPt 0) (exPt 1) ((perp (eT exPt 0)).smul (exEnvJ .miterClip).hwFw) s u)
          (v1.read.position, v2.read.position, v3.read.position) :=
  stroke_polyline_covers_rectangles (exEnvJ .miterClip) _ (exHypJ _ (Or.inr (Or.inr (Or.inl rfl)))) store exPt 3 (by norm_num)
    (exRegimeJ _) 0 (by norm_num) s u hs hs1 hu hu1

/-- the hypotheses of `stroke_polyline_emission_shape` hold for the example (they are part of `exRegime`) -/
example (store : Nat → List ℝ) : Emitted exEnv exPt 3 (runEvents exEnv store (polyEvs exPt 3)).st.out :=
  stroke_polyline_emission_shape exEnv store rfl (by decide) (by decide) (by decide) (ne_of_gt exHyp.hw) exPt 3
    (by norm_num) exRegime.1
    (fun i h1 h2 => by
      obtain ⟨i', rfl⟩ : ∃ i', i = i' + 1 := ⟨i - 1, by omega⟩
      exact exRegime.2.2.2.1 i' (by omega))

/-- the regime without the fold test, and the fold test it implies -/
example : RegimeCore exEnv (1 / 10 ^ 8) exPt 3 ∧ Regime exEnv (1 / 10 ^ 8) exPt 3 :=
  have hc : RegimeCore exEnv (1 / 10 ^ 8) exPt 3 := ⟨exRegime.1, exRegime.2.1, exRegime.2.2.1, exRegime.2.2.2.2⟩
  ⟨hc, regime_core_suffices exEnv _ exHyp exPt 3 hc⟩

/-- the public entry point on the example path: whatever `tessellate` returns covers the rectangles -/
example (out : Out ℝ) (ho : tessellateFw exEnv (polyPath exPt 3) = some out) :
    ∃ t ∈ out.tris, ∃ v1 v2 v3 : VData ℝ,
      out.verts[t.1]? = some v1 ∧ out.verts[t.2.1]? = some v2 ∧ out.verts[t.2.2]? = some v3
      ∧ InTri (bandPoint (exPt 2) (exPt 3) ((perp (eT exPt 2)).smul (exEnv.o.lineWidth * half)) (1 / 2) (1 / 3))
          (v1.read.position, v2.read.position, v3.read.position) :=
  stroke_polyline_covers_tessellate exEnv _ exHyp exPt 3 (by norm_num) exRegime out ho 2 (by norm_num) (1 / 2) (1 / 3)
    (by norm_num) (by norm_num) (by norm_num) (by norm_num)

end Real

end Lyon.C06b
