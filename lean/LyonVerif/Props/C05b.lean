/-
  C05b — the discrete polyline skeleton `Lyon.Stroke.Poly` (`Model/Tess/StrokeParts.lean`): lyon's
  stroke tessellator for fixed-width polylines with bevel joins and butt caps, reduced to the
  vertex ids it hands out and the triangles it emits.

  The statements are discrete: they hold for EVERY scalar type (`[Scalar α] [Transc α]`, floats
  included); the numeric decisions (`joinShape`, `isTooClose`) enter as arbitrary Booleans.  The
  one numeric fact used is that `points_are_too_close` is a function: asked twice about the same two
  positions it answers the same (this is why the second step of `close` is never merged, and why
  `VertexId(u32::MAX)` — `Poly.unsetId` — of a point that never became a join cannot reach a
  triangle there).

  Helper definitions (`Lemmas/StrokePoly.lean`): `grow`, `MeshOp`, `MeshExt`, `MeshSteps`, `MeshOK`,
  `vertsOf`, `trisOf`, `Inv` (the window invariant), `feedPts`, `joinVerts`, `joinCost`, `foldCount`,
  `NoMerge`, `NoFold`.
-/
import LyonVerif.Model.Tess.StrokeParts
import LyonVerif.Lemmas.Field
import LyonVerif.Lemmas.StrokeParts
import LyonVerif.Lemmas.StrokePoly
import Mathlib.Tactic.NormNum

set_option linter.unusedSectionVars false
set_option linter.unusedVariables false

namespace Lyon.C05b
open Lyon Scalar Lyon.Stroke Lyon.Stroke.Poly Lyon.C05

variable {α : Type} [Scalar α] [Transc α]

/-! ## §1 ids are fresh and valid -/

/-- `poly_ids_fresh_and_valid`.  For the mesh `m` of a whole path:
(a) ids are positions in the vertex list: `nextId = verts.length`;
(b) every triangle has three pairwise distinct ids, all of them `< nextId`;
(c) freshness: the output splits into consecutive blocks, one per operation of the tessellator
    (a join, the last edge, the first edge, the closing edge; at most 4 vertices and 4 triangles
    each), such that every triangle of a block only references ids handed out up to the end of
    the vertices of the same block: no triangle refers to a vertex that is added later.
    (`MeshSteps` is the same statement as an inductive relation.) -/
theorem poly_ids_fresh_and_valid (tolerance lineWidth : α) (subs : List (List (P α) × Bool)) :
    let m := Poly.path tolerance lineWidth subs
    m.nextId = m.verts.length
    ∧ (∀ t ∈ m.tris, Tri.Distinct t ∧ Tri.Below t m.nextId)
    ∧ MeshSteps ⟨0, [], []⟩ m
    ∧ ∃ bs : List (List (Nat × Side) × List Tri), m.verts = vertsOf bs ∧ m.tris = trisOf bs
        ∧ ∀ pre b post, bs = pre ++ b :: post → b.1.length ≤ 4 ∧ b.2.length ≤ 4
          ∧ ∀ t ∈ b.2, Tri.Distinct t ∧ Tri.Below t ((vertsOf pre).length + b.1.length) := by
  have hs := path_spec tolerance lineWidth subs
  have hok : MeshOK (Poly.path tolerance lineWidth subs) := hs.ext.ok ⟨rfl, by simp⟩
  obtain ⟨bs, e, hb⟩ := hs.trace
  refine ⟨hok.1, hok.2, hs, bs, by rw [e]; simp [grow], by rw [e]; simp [grow], ?_⟩
  intro pre b post h
  simpa using hb pre b post h

/-- `VertexId(u32::MAX)`, the default of `SidePoints::{prev,next}_vertex`, never reaches a triangle
(as long as fewer than `u32::MAX` vertices were emitted, i.e. as long as ids fit `u32` at all) -/
theorem poly_unset_id_unused (tolerance lineWidth : α) (subs : List (List (P α) × Bool))
    (h : (Poly.path tolerance lineWidth subs).verts.length ≤ Poly.unsetId) :
    ∀ t ∈ (Poly.path tolerance lineWidth subs).tris,
      t.1 ≠ Poly.unsetId ∧ t.2.1 ≠ Poly.unsetId ∧ t.2.2 ≠ Poly.unsetId := by
  intro t ht
  obtain ⟨ha, hb, _⟩ := poly_ids_fresh_and_valid tolerance lineWidth subs
  obtain ⟨_, h1, h2, h3⟩ := hb t ht
  rw [ha] at h1 h2 h3
  exact ⟨by omega, by omega, by omega⟩

/-! ### per operation

`Inv thr st` is the window invariant (see `Lemmas/StrokePoly.lean`): it holds for the initial
state and is kept by every step, so it holds for every state a sub-path reaches
(`poly_inv_reachable`).  `MeshOp m m'`: `m'` is `m` plus at most 4 vertices and 4 triangles, and
every one of these new triangles is proper and below `m'.nextId` — the `nextId` reached at the end
of this very operation.  `MeshExt` is the same without the size bounds; `MeshSteps` a run of `MeshOp`s. -/

/-- the invariant holds in every state reached by feeding points to a fresh state -/
theorem poly_inv_reachable (thr hw : α) (m : Mesh) (src : Nat) (pts : List (P α)) :
    Inv thr (feedPts thr hw (State.new m) src pts).1 :=
  (feedPts_spec thr hw pts (State.new m) src (Inv.new thr m)).1

/-- one join (`stepJoin`): a single operation — its triangles (edge triangles towards the previous
join and the interior triangles of the join) only use ids below the `nextId` reached after the
join's own 3 or 4 vertices -/
theorem poly_stepJoin_fresh {thr : α} {st : State α} (hI : Inv thr st) (hw : α) (next : Pt α) :
    MeshOp st.mesh (stepJoin hw st next).mesh := by
  by_cases hc : st.buf.count < 2
  · have : stepJoin hw st next = st := by unfold stepJoin; rw [lastTwo_none hc]
    rw [this]; exact ⟨[], [], (grow_nil _).symm, by simp, by simp, by simp⟩
  · obtain ⟨x, y, hxy⟩ := hI.wf.lastTwo_some (by omega)
    exact (stepJoin_spec hI hxy hw next).1

/-- `step` (`fixed_width_step_impl`): keeps the invariant, extends the mesh by at most one operation -/
theorem poly_step_fresh {thr : α} {st : State α} (hI : Inv thr st) (hw : α) (p : P α) (src : Nat) :
    Inv thr (step thr hw st (Pt.new p src)).1
    ∧ MeshSteps st.mesh (step thr hw st (Pt.new p src)).1.mesh
    ∧ MeshExt st.mesh (step thr hw st (Pt.new p src)).1.mesh := by
  obtain ⟨a, b, _⟩ := step_spec hI hw (Pt.new p src) (Or.inl (raw_new p src))
  exact ⟨a, b, b.ext⟩

/-- `end_with_caps`: two operations (last edge, first edge); all triangles it adds are below the
`nextId` it reaches -/
theorem poly_endWithCaps_fresh {thr : α} {st : State α} (hI : Inv thr st) :
    MeshSteps st.mesh (endWithCaps st) ∧ MeshExt st.mesh (endWithCaps st) :=
  ⟨(endWithCaps_spec hI).1, (endWithCaps_spec hI).1.ext⟩

/-- `close`: up to two joins and the closing edge; all triangles it adds are below the `nextId`
it reaches -/
theorem poly_close_fresh {thr : α} {st : State α} (hI : Inv thr st) (hw : α) :
    MeshSteps st.mesh (close thr hw st) ∧ MeshExt st.mesh (close thr hw st) :=
  ⟨close_spec hI hw, (close_spec hI hw).ext⟩

theorem poly_finish_fresh {thr : α} {st : State α} (hI : Inv thr st) (hw : α) (closed : Bool) :
    MeshSteps st.mesh (finish thr hw st closed) ∧ MeshExt st.mesh (finish thr hw st closed) :=
  ⟨finish_spec hI hw closed, (finish_spec hI hw closed).ext⟩

theorem poly_subPath_fresh (thr hw : α) (m : Mesh) (src : Nat) (pts : List (P α)) (closed : Bool) :
    MeshSteps m (subPath thr hw m src pts closed) ∧ MeshExt m (subPath thr hw m src pts closed) :=
  ⟨subPath_spec thr hw m src pts closed, (subPath_spec thr hw m src pts closed).ext⟩

theorem poly_path_fresh (tolerance lineWidth : α) (subs : List (List (P α) × Bool)) :
    MeshExt ⟨0, [], []⟩ (Poly.path tolerance lineWidth subs) :=
  (path_spec tolerance lineWidth subs).ext

/-! ## §2 vertex count of an open sub-path without merged points -/

/-- one open sub-path with `n ≥ 2` points, none of which is merged, appended to any mesh:
4 cap vertices plus, per interior join, 3 vertices (4 if the join folds) -/
theorem poly_subpath_vertex_count (thr hw : α) (m : Mesh) (src : Nat) (pts : List (P α))
    (h2 : 2 ≤ pts.length) (hm : NoMerge thr pts) :
    (subPath thr hw m src pts false).verts.length = m.verts.length + 4 + joinCost hw pts :=
  subPath_open_verts thr hw m src pts h2 hm

/-- `poly_vertex_count`: a path that is one open sub-path with `n ≥ 2` points, no merges:
`verts.length = 4 + Σ_joins (if fold then 4 else 3)` -/
theorem poly_vertex_count (tolerance lineWidth : α) (pts : List (P α)) (h2 : 2 ≤ pts.length)
    (hm : NoMerge (squareMergeThreshold tolerance lineWidth) pts) :
    (Poly.path tolerance lineWidth [(pts, false)]).verts.length
      = 4 + joinCost (lineWidth * half) pts := by
  have := subPath_open_verts (squareMergeThreshold tolerance lineWidth) (lineWidth * half)
    ⟨0, [], []⟩ 0 pts h2 hm
  simpa [Poly.path] using this

/-- the same with the joins counted: `4 + 3·(n − 2) + #folds` -/
theorem poly_vertex_count_folds (tolerance lineWidth : α) (pts : List (P α)) (h2 : 2 ≤ pts.length)
    (hm : NoMerge (squareMergeThreshold tolerance lineWidth) pts) :
    (Poly.path tolerance lineWidth [(pts, false)]).verts.length
      = 4 + 3 * (pts.length - 2) + foldCount (lineWidth * half) pts := by
  rw [poly_vertex_count tolerance lineWidth pts h2 hm, joinCost_eq]; omega

/-- no join folds: `4 + 3·(n − 2)` -/
theorem poly_vertex_count_no_fold (tolerance lineWidth : α) (pts : List (P α)) (h2 : 2 ≤ pts.length)
    (hm : NoMerge (squareMergeThreshold tolerance lineWidth) pts)
    (hf : NoFold (lineWidth * half) pts) :
    (Poly.path tolerance lineWidth [(pts, false)]).verts.length = 4 + 3 * (pts.length - 2) := by
  rw [poly_vertex_count_folds tolerance lineWidth pts h2 hm, foldCount_noFold _ _ hf, Nat.add_zero]

/-! ## §3 concrete instances

At `α := ℚ` (the field instance of `Scalar`) so that the kernel can evaluate the model; `toyTransc`
is a `Transc ℚ` whose `sqrt` is exact on the segment lengths used below.  The same inputs at
`α := Float` give the same vertex counts and triangle lists (checked with `#eval`). -/

section Examples
attribute [local instance] toyTransc

/-- hypotheses of `poly_vertex_count` / `poly_vertex_count_no_fold` on a 4-point polyline
(three sides of a square, tolerance 0.1, width 1) -/
example : NoMerge (squareMergeThreshold (1/10 : ℚ) 1) [⟨0,0⟩, ⟨10,0⟩, ⟨10,10⟩, ⟨0,10⟩] := by
  simp [NoMerge, pointsAreTooClose, squareMergeThreshold, geom]
  norm_num

/-- right-angle joins never fold, whatever `sqrt` is -/
example [Transc ℚ] : NoFold ((1 : ℚ) * half) [⟨0,0⟩, ⟨10,0⟩, ⟨10,10⟩, ⟨0,10⟩] := by
  simp [NoFold, joinShape, geom]

/-- … so that polyline has `4 + 3·2 = 10` vertices (by the theorem, for every `Transc ℚ`) -/
example [Transc ℚ] :
    (Poly.path (1/10 : ℚ) 1 [([⟨0,0⟩, ⟨10,0⟩, ⟨10,10⟩, ⟨0,10⟩], false)]).verts.length = 10 := by
  rw [poly_vertex_count_no_fold _ _ _ (by simp)]
  · rfl
  · simp [NoMerge, pointsAreTooClose, squareMergeThreshold, geom]; norm_num
  · simp [NoFold, joinShape, geom]

/-- the same by evaluating the model -/
example : (Poly.path (1/10 : ℚ) 1 [([⟨0,0⟩, ⟨10,0⟩, ⟨10,10⟩, ⟨0,10⟩], false)]).verts.length = 10 := by
  decide +kernel

/-- a join that folds (the polyline turns back on itself): `4 + 4` vertices -/
example : joinCost ((1 : ℚ) * half) [⟨0,0⟩, ⟨10,0⟩, ⟨0,0⟩] = 4
    ∧ (Poly.path (1/10 : ℚ) 1 [([⟨0,0⟩, ⟨10,0⟩, ⟨0,0⟩], false)]).verts.length = 8 := by
  decide +kernel

/-- one fold and one ordinary join: `4 + 4 + 3` -/
example : foldCount ((1 : ℚ) * half) [⟨0,0⟩, ⟨10,0⟩, ⟨0,0⟩, ⟨0,10⟩] = 1
    ∧ (Poly.path (1/10 : ℚ) 1 [([⟨0,0⟩, ⟨10,0⟩, ⟨0,0⟩, ⟨0,10⟩], false)]).verts.length = 11 := by
  decide +kernel

/-- a closed square followed by an open segment: the mesh `poly_ids_fresh_and_valid` talks about -/
example : (Poly.path (1/10 : ℚ) 1 [([⟨0,0⟩, ⟨10,0⟩, ⟨10,10⟩, ⟨0,10⟩], true), ([⟨20,0⟩, ⟨30,0⟩], false)]).tris
    = [(0, 2, 1), (1, 2, 5), (1, 5, 3), (3, 5, 4), (4, 5, 8), (4, 8, 6), (6, 8, 7), (7, 8, 11),
       (7, 11, 9), (9, 11, 10), (13, 12, 2), (13, 2, 0), (17, 16, 14), (17, 14, 15)] := by
  decide +kernel

/-- `close` with a merged last point (the `fixUp` branch): the last input point is too close to
the first one; still 14 vertices and no unset id in any triangle -/
example :
    let m := Poly.path (1/10 : ℚ) 1 [([⟨0,0⟩, ⟨10,0⟩, ⟨10,10⟩, ⟨0,10⟩, ⟨0,1/1000⟩], true)]
    m.verts.length = 14 ∧ ∀ t ∈ m.tris, t.1 < 14 ∧ t.2.1 < 14 ∧ t.2.2 < 14 := by
  decide +kernel

/-- the hypothesis `Inv` of the per-operation theorems on a concrete reachable state
(three points fed, window full) -/
example : Inv (1/100 : ℚ) (feedPts (1/100 : ℚ) (1/2) (State.new ⟨0, [], []⟩) 0 [⟨0,0⟩, ⟨10,0⟩, ⟨10,10⟩]).1 :=
  poly_inv_reachable _ _ _ _ _

example : (feedPts (1/100 : ℚ) (1/2) (State.new ⟨0, [], []⟩) 0 [⟨0,0⟩, ⟨10,0⟩, ⟨10,10⟩]).1.buf.count = 3 := by
  decide +kernel

end Examples

end Lyon.C05b
