/-
  C11 — bounding boxes and extrema are conservative and tight; monotone splits hold.

  All statements are about the model functions of `Model/Geom/Extrema.lean` (the same `def`s the
  correspondence check runs at `Float32`/`Float` against lyon) instantiated at an arbitrary linearly
  ordered field `K`.  `sqrt`, `sin`, `cos`, `tan`, `atan`, `fmod`, `π` are parameters; the laws used
  are hypotheses of the theorems that use them (each has a satisfying instance in the examples at
  the end).  Helper lemmas are in `Lemmas/Extrema.lean`.

  Full strength (every control polygon, every `t ∈ [0,1]`):
    quadratics and cubics — the exact box contains the curve and is touched on all four sides at
      the reported parameters (which lie in [0,1] and are extremal); reported local extrema are
      exactly the interior critical points (cubics: for the cancellation-free root form, which is
      shown to give the same two roots); fast ⊇ exact ⊇ curve; monotone ranges partition [0,1];
      every piece is monotone in x and y; the control-point clamp is the identity on the pieces, so
      they retrace the curve; `is_*_monotonic` are sound;
    lines, triangles — box contains / is the hull;
    arcs — emitted extremum parameters for both sweep signs (sound, and complete within one turn);
      fast box contains the arc for any rotation / centre; exact box contains the arc for both
      sweep signs, from a hypothesis characterising the extremal angles;
    paths — `aabb` fold = order-independent join of the event boxes; contains every point of every
      segment; path-level fast ⊇ exact for well-formed event lists.

    paths (cont.) — `aabb_box_contains`: every point of every segment of every finite path (end
      points left of the `f32::MAX` start sentinel) is in the box; the empty path gets the zero box
      (`aabb_empty`);
    fit — `fit_box` maps the source box into the destination (`fit_box_maps_src_into_dst` for
      Stretch/Min, `fit_box_stretch` corner to corner, `fit_box_max_covers`,
      `fit_box_horizontal_vertical`, `fit_box_uniform` aspect, `fit_box_center`), and
      `fit_path_inside_dst`: every point of the fitted path lies in the destination box;
    over ℝ — `cubic_box_contains_real` (sqrt laws discharged by `Real.sqrt`); the arc hypotheses
      are discharged in `Props/C11Real.lean` (`arc_box_contains_real`).

  History: four genuine defects of lyon were found by this check (three with machine-checked
  `…_witness` theorems, one pure floating-point cancellation) and repaired upstream-style in /repo:
  3f341fdf (arc negative-sweep parameters), c4f6194c (arc fast box about the centre),
  67fbe059 (cubic roots without cancellation), 821d0dd7 (cubic monotone pieces: end-tangent clamp).
  The former witnesses are described in the section comments below; the model mirrors the
  repaired code and the witnesses are replaced by the full-strength statements.

  Not theorems: anything about IEEE rounding (oracle envelope).  Over an abstract field the
  ellipse's extremal angles enter `arc_box_contains` as a hypothesis; over ℝ they are proved
  (`Props/C11Real.lean`).
-/
import LyonVerif.Model.Geom.Extrema
import LyonVerif.Lemmas.Field
import LyonVerif.Lemmas.Extrema
import Mathlib.Tactic.NormNum
import Mathlib.Data.Rat.Floor
import Mathlib.Analysis.SpecialFunctions.Sqrt

set_option linter.unusedSectionVars false
set_option linter.unusedVariables false
set_option linter.unusedSimpArgs false
set_option linter.style.haveILetI false
set_option warn.classDefReducibility false

geom_all Lyon.Fit

namespace Lyon.C11

open Lyon


variable {K : Type} [Field K] [LinearOrder K] [IsStrictOrderedRing K]


/-! ## Quadratic Bézier segments: the property's statements -/


/-- **Conservative.** The exact bounding box contains every point of the curve (`t ∈ [0,1]`). -/
theorem quad_box_contains (q : Quad K) (t : K) (h0 : 0 ≤ t) (h1 : t ≤ 1) :
    Box.Contains q.boundingBox (q.sample t) := by
  unfold Box.Contains
  rw [quad_sample_x, quad_sample_y]
  have hx := q1_range_contains q.a.x q.c.x q.b.x t h0 h1
  have hy := q1_range_contains q.a.y q.c.y q.b.y t h0 h1
  exact ⟨hx.1, hx.2, hy.1, hy.2⟩


/-- **Tight.** Each of the four sides of the exact box is touched by the curve, at the reported
extremum parameters, which lie in `[0,1]`. -/
theorem quad_box_touched (q : Quad K) :
    (0 ≤ q.xMinimumT ∧ q.xMinimumT ≤ 1 ∧ (q.sample q.xMinimumT).x = q.boundingBox.min.x) ∧
    (0 ≤ q.xMaximumT ∧ q.xMaximumT ≤ 1 ∧ (q.sample q.xMaximumT).x = q.boundingBox.max.x) ∧
    (0 ≤ q.yMinimumT ∧ q.yMinimumT ≤ 1 ∧ (q.sample q.yMinimumT).y = q.boundingBox.min.y) ∧
    (0 ≤ q.yMaximumT ∧ q.yMaximumT ≤ 1 ∧ (q.sample q.yMaximumT).y = q.boundingBox.max.y) := by
  refine ⟨⟨(q1_minT _ _ _).1.1, (q1_minT _ _ _).1.2, ?_⟩, ⟨(q1_maxT _ _ _).1.1, (q1_maxT _ _ _).1.2, ?_⟩,
    ⟨(q1_minT _ _ _).1.1, (q1_minT _ _ _).1.2, ?_⟩, ⟨(q1_maxT _ _ _).1.1, (q1_maxT _ _ _).1.2, ?_⟩⟩
  · rw [quad_sample_x]; rfl
  · rw [quad_sample_x]; rfl
  · rw [quad_sample_y]; rfl
  · rw [quad_sample_y]; rfl


/-- **Extremum parameters are where the coordinate is extremal** over the whole of `[0,1]`. -/
theorem quad_extremum_params_extremal (q : Quad K) (t : K) (h0 : 0 ≤ t) (h1 : t ≤ 1) :
    q.x q.xMinimumT ≤ q.x t ∧ q.x t ≤ q.x q.xMaximumT ∧
    q.y q.yMinimumT ≤ q.y t ∧ q.y t ≤ q.y q.yMaximumT :=
  ⟨(q1_minT _ _ _).2 t h0 h1, (q1_maxT _ _ _).2 t h0 h1, (q1_minT _ _ _).2 t h0 h1, (q1_maxT _ _ _).2 t h0 h1⟩


/-- a reported local extremum is an interior critical point of its coordinate -/
theorem quad_extremum_is_critical (q : Quad K) (t : K) :
    (q.localXExtremumT = some t → 0 < t ∧ t < 1 ∧ q.dx t = 0) ∧
    (q.localYExtremumT = some t → 0 < t ∧ t < 1 ∧ q.dy t = 0) := by
  constructor <;> intro h
  · obtain ⟨_, e, p0, p1⟩ := q1_localExt_facts h
    refine ⟨p0, p1, ?_⟩; rw [quad_dx_eq]; unfold qd; linear_combination 2 * e
  · obtain ⟨_, e, p0, p1⟩ := q1_localExt_facts h
    refine ⟨p0, p1, ?_⟩; rw [quad_dy_eq]; unfold qd; linear_combination 2 * e


/-- conversely every interior critical point of a genuinely quadratic coordinate is reported -/
theorem quad_critical_is_reported (q : Quad K) (t : K) (h0 : 0 < t) (h1 : t < 1) :
    (q.a.x - 2 * q.c.x + q.b.x ≠ 0 → q.dx t = 0 → q.localXExtremumT = some t) ∧
    (q.a.y - 2 * q.c.y + q.b.y ≠ 0 → q.dy t = 0 → q.localYExtremumT = some t) := by
  constructor <;> intro hD hd
  · rw [quad_dx_eq] at hd; unfold qd at hd
    exact (q1_localExt_some _ _ _ _).2 ⟨hD, eq_div_of_mul_eq hD (by linear_combination (1/2 : K) * hd), h0, h1⟩
  · rw [quad_dy_eq] at hd; unfold qd at hd
    exact (q1_localExt_some _ _ _ _).2 ⟨hD, eq_div_of_mul_eq hD (by linear_combination (1/2 : K) * hd), h0, h1⟩


/-- the fast box (hull of the control points) contains the curve -/
theorem quad_fast_box_contains (q : Quad K) (t : K) (h0 : 0 ≤ t) (h1 : t ≤ 1) :
    Box.Contains q.fastBoundingBox (q.sample t) := by
  unfold Box.Contains
  rw [quad_sample_x, quad_sample_y]
  have hx := q1_fast_range_contains q.a.x q.c.x q.b.x t h0 h1
  have hy := q1_fast_range_contains q.a.y q.c.y q.b.y t h0 h1
  exact ⟨hx.1, hx.2, hy.1, hy.2⟩


/-- **fast ⊇ exact** -/
theorem quad_fast_contains_exact (q : Quad K) : Box.Inside q.boundingBox q.fastBoundingBox :=
  ⟨(q1_fast_contains_exact _ _ _).1, (q1_fast_contains_exact _ _ _).2,
   (q1_fast_contains_exact _ _ _).1, (q1_fast_contains_exact _ _ _).2⟩


/-- **Monotone ranges partition `[0,1]`**: they abut, in order, from 0 to 1, each of positive length. -/
theorem quad_monotone_ranges_partition (q : Quad K) : Chain 0 q.monotonicRanges 1 := by
  obtain ⟨t0, t1, e, h0, h1, ho, _⟩ := quad_ranges_eq q
  rw [e]; exact (monoRangesOf_spec t0 t1 h0 h1 ho).1


/-- **Each piece is monotone**: on every reported range both `x` and `y` are monotone. -/
theorem quad_monotone_piece_monotone (q : Quad K) : ∀ r ∈ q.monotonicRanges,
    MonoOn q.x r.1 r.2 ∧ MonoOn q.y r.1 r.2 := by
  intro r hr
  obtain ⟨a0, a1, a2, gx, gy⟩ := quad_ranges_good q r hr
  exact ⟨q1_mono a0 (le_of_lt a1) a2 gx, q1_mono a0 (le_of_lt a1) a2 gy⟩


/-- **The control-point clamp is the identity** on the reported ranges (exact arithmetic): the
pieces handed out by `for_each_monotonic` are exactly `split_range` of the reported ranges. -/
theorem quad_clamp_noop (q : Quad K) :
    q.monotonicPieces = q.monotonicRanges.map (fun r => q.splitRange r.1 r.2) := by
  unfold Quad.monotonicPieces
  apply List.map_congr_left
  intro r hr
  obtain ⟨a0, a1, a2, gx, gy⟩ := quad_ranges_good q r hr
  obtain ⟨ea, eb, ecx, ecy⟩ := quad_splitRange_ctrl q r.1 r.2
  have hx := q1_clamp_noop a0 (le_of_lt a1) a2 gx
  have hy := q1_clamp_noop a0 (le_of_lt a1) a2 gy
  unfold Quad.clampXY
  rw [ea, eb, quad_sample_x, quad_sample_x, quad_sample_y, quad_sample_y, ecx, ecy, hx, hy]
  rw [← ecx, ← ecy]
  cases h : q.splitRange r.1 r.2 with
  | mk a c b =>
    rw [h] at ea eb
    simp only at ea eb
    rw [← ea, ← eb]


/-- **The pieces retrace the curve**: piece `r` sampled at `u` is the curve at `r.1 + (r.2-r.1)·u`
(all `u`). -/
theorem quad_pieces_retrace (q : Quad K) : ∀ r ∈ q.monotonicRanges, ∀ u : K,
    (Quad.clampXY (q.splitRange r.1 r.2)).sample u = q.sample (r.1 + (r.2 - r.1) * u) := by
  intro r hr u
  have h := quad_clamp_noop q
  unfold Quad.monotonicPieces at h
  have h2 := List.map_inj_left.1 h r hr
  rw [h2]
  geom_ring


/-- `for_each_x_monotonic_range` / `for_each_y_monotonic_range`: the ranges partition `[0,1]` and
the coordinate is monotone on each -/
theorem quad_xy_monotone_ranges (q : Quad K) :
    (Chain 0 q.xMonotonicRanges 1 ∧ ∀ r ∈ q.xMonotonicRanges, MonoOn q.x r.1 r.2) ∧
    (Chain 0 q.yMonotonicRanges 1 ∧ ∀ r ∈ q.yMonotonicRanges, MonoOn q.y r.1 r.2) := by
  have fx : ∀ s, q.localXExtremumT = some s → 0 < s ∧ s < 1 := fun s h =>
    ⟨(q1_localExt_facts h).2.2.1, (q1_localExt_facts h).2.2.2⟩
  have fy : ∀ s, q.localYExtremumT = some s → 0 < s ∧ s < 1 := fun s h =>
    ⟨(q1_localExt_facts h).2.2.1, (q1_localExt_facts h).2.2.2⟩
  refine ⟨⟨(rangesAt_spec _ fx).1, fun r hr => ?_⟩, ⟨(rangesAt_spec _ fy).1, fun r hr => ?_⟩⟩
  · obtain ⟨a0, a1, a2, g⟩ := (rangesAt_spec _ fx).2 r hr
    exact q1_mono a0 (le_of_lt a1) a2 g
  · obtain ⟨a0, a1, a2, g⟩ := (rangesAt_spec _ fy).2 r hr
    exact q1_mono a0 (le_of_lt a1) a2 g


/-- `is_x_monotonic` / `is_y_monotonic` / `is_monotonic` are sound -/
theorem quad_is_monotonic_sound (q : Quad K) :
    (q.isXMonotonic = true → MonoOn q.x 0 1) ∧ (q.isYMonotonic = true → MonoOn q.y 0 1) ∧
    (q.isMonotonic = true → MonoOn q.x 0 1 ∧ MonoOn q.y 0 1) := by
  have hx : q.isXMonotonic = true → MonoOn q.x 0 1 := by
    intro h
    have hn : q.localXExtremumT = none := by simpa [Quad.isXMonotonic] using h
    exact q1_mono (le_refl _) (by norm_num) (le_refl _) (fun t ht => by have h' := hn.symm.trans ht; cases h')
  have hy : q.isYMonotonic = true → MonoOn q.y 0 1 := by
    intro h
    have hn : q.localYExtremumT = none := by simpa [Quad.isYMonotonic] using h
    exact q1_mono (le_refl _) (by norm_num) (le_refl _) (fun t ht => by have h' := hn.symm.trans ht; cases h')
  refine ⟨hx, hy, fun h => ?_⟩
  simp only [Quad.isMonotonic, Bool.and_eq_true] at h
  exact ⟨hx h.1, hy h.2⟩


/-- `for_each_x_monotonic` (which clamps `ctrl.x`) and `for_each_y_monotonic` hand out exactly the
`split_range` of their ranges: the clamp is the identity in exact arithmetic -/
theorem quad_xy_clamp_noop (q : Quad K) :
    q.xMonotonicPieces = q.xMonotonicRanges.map (fun r => q.splitRange r.1 r.2) ∧
    q.yMonotonicPieces = q.yMonotonicRanges.map (fun r => q.splitRange r.1 r.2) := by
  constructor
  · unfold Quad.xMonotonicPieces Quad.xMonotonicRanges
    rcases hx : q.localXExtremumT with _ | t
    · simp only [Quad.rangesAt, List.map_cons, List.map_nil, Scalar.zero, Scalar.one, sc_zero, sc_one]
      congr 1
      apply quad_ext <;> geom_ring
    · obtain ⟨_, _, p0, p1⟩ := q1_localExt_facts hx
      have g : ∀ s, Quad1.localExt q.a.x q.c.x q.b.x = some s → s = t := by
        intro s hs; have : q.localXExtremumT = some s := hs
        rw [hx] at this; cases this; rfl
      have h1 := q1_clamp_noop (a := q.a.x) (c := q.c.x) (b := q.b.x) (lo := 0) (hi := t) (le_refl _)
        (le_of_lt p0) (le_of_lt p1) (fun s hs => by right; rw [g s hs])
      have h2 := q1_clamp_noop (a := q.a.x) (c := q.c.x) (b := q.b.x) (lo := t) (hi := 1) (le_of_lt p0)
        (le_of_lt p1) (le_refl _) (fun s hs => by left; rw [g s hs])
      simp only [Quad.rangesAt, List.map_cons, List.map_nil, Scalar.zero, Scalar.one, sc_zero, sc_one]
      rw [(quad_split_eq_splitRange q t).1, (quad_split_eq_splitRange q t).2]
      obtain ⟨ea, eb, ecx, _⟩ := quad_splitRange_ctrl q 0 t
      obtain ⟨ea', eb', ecx', _⟩ := quad_splitRange_ctrl q t 1
      have c1 : Quad.clampX (q.splitRange 0 t) = q.splitRange 0 t := by
        unfold Quad.clampX
        rw [ea, eb, quad_sample_x, quad_sample_x, ecx, h1, ← ecx]
        cases h : q.splitRange 0 t with
        | mk a c b => rw [h] at ea eb; simp only at ea eb; rw [← ea, ← eb]
      have c2 : Quad.clampX (q.splitRange t 1) = q.splitRange t 1 := by
        unfold Quad.clampX
        rw [ea', eb', quad_sample_x, quad_sample_x, ecx', h2, ← ecx']
        cases h : q.splitRange t 1 with
        | mk a c b => rw [h] at ea' eb'; simp only at ea' eb'; rw [← ea', ← eb']
      rw [c1, c2]
  · unfold Quad.yMonotonicPieces Quad.yMonotonicRanges
    rcases hy : q.localYExtremumT with _ | t
    · simp only [Quad.rangesAt, List.map_cons, List.map_nil, Scalar.zero, Scalar.one, sc_zero, sc_one]
      congr 1
      apply quad_ext <;> geom_ring
    · simp only [Quad.rangesAt, List.map_cons, List.map_nil, Scalar.zero, Scalar.one, sc_zero, sc_one]
      rw [(quad_split_eq_splitRange q t).1, (quad_split_eq_splitRange q t).2]


/-! ## Elliptic arcs

`sin`, `cos`, `tan`, `atan`, `fmod`, `π` are parameters (`[Transc K] [Atan K]`); the laws used are
hypotheses, all true of the real functions.

History.  Two statements of this section were false of lyon before the fixes and were kept as
machine-checked witnesses:
* `arc_extremum_params_neg_witness` / `arc_box_neg_sweep_witness` — centre (0,0), radii (10,10),
  start 1/2, sweep −2: `for_each_local_x_extremum_t` emitted `(2π − 1/2)/2 ≈ 2.89` instead of `1/4`
  and the box's `max.x` stayed below `x(1/4) = 10`.  Repaired by lyon commit 3f341fdf
  (`(two_pi − a) / abs_sweep`); the full statement is now `arc_extremum_params`.
* `arc_fast_box_witness` — centre (100,0), radii (10,5), quarter-turn rotation: fast box
  `(−5,90)–(5,110)` while the arc starts at `(100,10)`.  Repaired by lyon commit c4f6194c (rotate the
  radii box about the origin, then translate); the full statement is now `arc_fast_box_contains`. -/


section arc

variable [Transc K]

theorem two_pi_eq : (Scalar.two : K) * Transc.pi = tau := by
  simp only [Scalar.two, sc_two]; unfold tau; ring

/-- positive sweep, soundness: every emitted parameter lies in `[0,1)` and its angle is `a1` or
`a2` up to a multiple of `2π` -/
theorem arc_extremum_params_pos_sound (L : AngleLaws K) (arc : Arc K) (a1 a2 : K) (hs : 0 < arc.sweep) :
    ∀ t ∈ arc.extremumInner a1 a2, 0 ≤ t ∧ t < 1 ∧
      ∃ k : ℤ, arc.getAngle t = a1 + k * tau ∨ arc.getAngle t = a2 + k * tau := by
  intro t ht
  have habs : Scalar.abs arc.sweep = arc.sweep := by rw [sc_abs]; exact abs_of_pos hs
  have key : ∀ b a : K, (∃ k : ℤ, b = (a - arc.start) + k * tau) → 0 ≤ b →
      t ∈ Arc.emitPos b arc.sweep → 0 ≤ t ∧ t < 1 ∧ ∃ k : ℤ, arc.getAngle t = a + k * tau := by
    intro b a ⟨k, hk⟩ hb0 hm
    unfold Arc.emitPos at hm
    split_ifs at hm with hlt
    · simp only [List.mem_singleton] at hm
      subst hm
      refine ⟨div_nonneg hb0 (le_of_lt hs), (div_lt_one hs).2 hlt, k, ?_⟩
      unfold Arc.getAngle
      rw [mul_div_cancel₀ _ (ne_of_gt hs), hk]; ring
    · simp at hm
  have hge : arc.sweep ≥ Scalar.zero := by simp only [Scalar.zero, sc_zero]; exact le_of_lt hs
  unfold Arc.extremumInner at ht
  simp only [habs, if_pos hge, List.mem_append] at ht
  have c1 := L.cong (a1 - arc.start)
  have c2 := L.cong (a2 - arc.start)
  have r1 := (L.range (a1 - arc.start)).1
  have r2 := (L.range (a2 - arc.start)).1
  unfold Arc.ordFst Arc.ordSnd at ht
  split_ifs at ht with hsw
  · rcases ht with ht | ht
    · obtain ⟨p, q, k, e⟩ := key _ a2 c2 r2 ht; exact ⟨p, q, k, Or.inr e⟩
    · obtain ⟨p, q, k, e⟩ := key _ a1 c1 r1 ht; exact ⟨p, q, k, Or.inl e⟩
  · rcases ht with ht | ht
    · obtain ⟨p, q, k, e⟩ := key _ a1 c1 r1 ht; exact ⟨p, q, k, Or.inl e⟩
    · obtain ⟨p, q, k, e⟩ := key _ a2 c2 r2 ht; exact ⟨p, q, k, Or.inr e⟩

/-- positive sweep `≤ 2π`, completeness: every `t ∈ [0,1)` whose angle is `a1` or `a2` (mod `2π`)
is emitted -/
theorem arc_extremum_params_pos_complete (L : AngleLaws K) (arc : Arc K) (a1 a2 : K)
    (hs : 0 < arc.sweep) (hs2 : arc.sweep ≤ tau) (t : K) (h0 : 0 ≤ t) (h1 : t < 1) (k : ℤ)
    (h : arc.getAngle t = a1 + k * tau ∨ arc.getAngle t = a2 + k * tau) :
    t ∈ arc.extremumInner a1 a2 := by
  have habs : Scalar.abs arc.sweep = arc.sweep := by rw [sc_abs]; exact abs_of_pos hs
  have hge : arc.sweep ≥ Scalar.zero := by simp only [Scalar.zero, sc_zero]; exact le_of_lt hs
  have st0 : 0 ≤ arc.sweep * t := mul_nonneg (le_of_lt hs) h0
  have st1 : arc.sweep * t < arc.sweep := by
    have := mul_lt_mul_of_pos_left h1 hs; linarith
  have key : ∀ a : K, arc.getAngle t = a + k * tau → t ∈ Arc.emitPos (Arc.positive (a - arc.start)) arc.sweep := by
    intro a ha
    have hp : Arc.positive (a - arc.start) = arc.sweep * t := by
      apply positive_unique L _ _ st0 (lt_of_lt_of_le st1 hs2) (k)
      unfold Arc.getAngle at ha; linear_combination ha
    unfold Arc.emitPos
    rw [hp, if_pos st1, List.mem_singleton, mul_div_cancel_left₀ _ (ne_of_gt hs)]
  unfold Arc.extremumInner
  simp only [habs, if_pos hge, List.mem_append]
  unfold Arc.ordFst Arc.ordSnd
  split_ifs with hsw
  · rcases h with h | h
    · right; exact key a1 h
    · left; exact key a2 h
  · rcases h with h | h
    · left; exact key a1 h
    · right; exact key a2 h

/-- negative sweep, soundness (true since lyon commit 3f341fdf) -/
theorem arc_extremum_params_neg_sound (L : AngleLaws K) (arc : Arc K) (a1 a2 : K) (hs : arc.sweep < 0) :
    ∀ t ∈ arc.extremumInner a1 a2, 0 ≤ t ∧ t < 1 ∧
      ∃ k : ℤ, arc.getAngle t = a1 + k * tau ∨ arc.getAngle t = a2 + k * tau := by
  intro t ht
  have habs : Scalar.abs arc.sweep = -arc.sweep := by rw [sc_abs]; exact abs_of_neg hs
  have hn : 0 < -arc.sweep := by linarith
  have key : ∀ b a : K, (∃ k : ℤ, b = (a - arc.start) + k * tau) → b < tau →
      t ∈ Arc.emitNeg b (-arc.sweep) tau → 0 ≤ t ∧ t < 1 ∧ ∃ k : ℤ, arc.getAngle t = a + k * tau := by
    intro b a ⟨k, hk⟩ hb1 hm
    unfold Arc.emitNeg at hm
    split_ifs at hm with hgt
    · simp only [List.mem_singleton] at hm
      subst hm
      refine ⟨div_nonneg (by linarith) (le_of_lt hn), (div_lt_one hn).2 (by linarith), k - 1, ?_⟩
      unfold Arc.getAngle
      have e : arc.sweep * ((tau - b) / -arc.sweep) = -(tau - b) := by
        have : arc.sweep ≠ 0 := ne_of_lt hs
        field_simp
      rw [e, hk]; push_cast; ring
    · simp at hm
  have hge : ¬ (arc.sweep ≥ Scalar.zero) := by simp only [Scalar.zero, sc_zero]; exact not_le.2 hs
  unfold Arc.extremumInner at ht
  simp only [habs, if_neg hge, List.mem_append, two_pi_eq] at ht
  have c1 := L.cong (a1 - arc.start)
  have c2 := L.cong (a2 - arc.start)
  have r1 := (L.range (a1 - arc.start)).2
  have r2 := (L.range (a2 - arc.start)).2
  unfold Arc.ordFst Arc.ordSnd at ht
  split_ifs at ht with hsw
  · rcases ht with ht | ht
    · obtain ⟨p, q, k, e⟩ := key _ a2 c2 r2 ht; exact ⟨p, q, k, Or.inr e⟩
    · obtain ⟨p, q, k, e⟩ := key _ a1 c1 r1 ht; exact ⟨p, q, k, Or.inl e⟩
  · rcases ht with ht | ht
    · obtain ⟨p, q, k, e⟩ := key _ a1 c1 r1 ht; exact ⟨p, q, k, Or.inl e⟩
    · obtain ⟨p, q, k, e⟩ := key _ a2 c2 r2 ht; exact ⟨p, q, k, Or.inr e⟩

/-- negative sweep `≥ −2π`, completeness: every `t ∈ (0,1)` whose angle is `a1` or `a2` (mod `2π`)
is emitted -/
theorem arc_extremum_params_neg_complete (L : AngleLaws K) (arc : Arc K) (a1 a2 : K)
    (hs : arc.sweep < 0) (hs2 : -tau ≤ arc.sweep) (t : K) (h0 : 0 < t) (h1 : t < 1) (k : ℤ)
    (h : arc.getAngle t = a1 + k * tau ∨ arc.getAngle t = a2 + k * tau) :
    t ∈ arc.extremumInner a1 a2 := by
  have habs : Scalar.abs arc.sweep = -arc.sweep := by rw [sc_abs]; exact abs_of_neg hs
  have hge : ¬ (arc.sweep ≥ Scalar.zero) := by simp only [Scalar.zero, sc_zero]; exact not_le.2 hs
  have st0 : arc.sweep * t < 0 := mul_neg_of_neg_of_pos hs h0
  have st1 : arc.sweep < arc.sweep * t := by
    have := mul_lt_mul_of_neg_left h1 hs; linarith
  have key : ∀ a : K, arc.getAngle t = a + k * tau →
      t ∈ Arc.emitNeg (Arc.positive (a - arc.start)) (-arc.sweep) tau := by
    intro a ha
    have hp : Arc.positive (a - arc.start) = tau + arc.sweep * t := by
      apply positive_unique L _ _ (by linarith) (by linarith) (k + 1)
      unfold Arc.getAngle at ha; push_cast; linear_combination ha
    unfold Arc.emitNeg
    have hc : tau + arc.sweep * t > tau - -arc.sweep := by linarith
    rw [hp, if_pos hc, List.mem_singleton]
    have : arc.sweep ≠ 0 := ne_of_lt hs
    field_simp
    ring
  unfold Arc.extremumInner
  simp only [habs, if_neg hge, List.mem_append, two_pi_eq]
  unfold Arc.ordFst Arc.ordSnd
  split_ifs with hsw
  · rcases h with h | h
    · right; exact key a1 h
    · left; exact key a2 h
  · rcases h with h | h
    · left; exact key a1 h
    · right; exact key a2 h

/-- **Arc extremum parameters, both sweep signs.**  For `sweep ≠ 0` every parameter emitted by
`for_each_extremum_inner(a1, a2)` lies in `[0,1)` and its angle is `a1` or `a2` up to a multiple of
`2π`; and for `|sweep| ≤ 2π` every `t ∈ (0,1)` with such an angle is emitted. -/
theorem arc_extremum_params (L : AngleLaws K) (arc : Arc K) (a1 a2 : K) (hs : arc.sweep ≠ 0) :
    (∀ t ∈ arc.extremumInner a1 a2, 0 ≤ t ∧ t < 1 ∧
      ∃ k : ℤ, arc.getAngle t = a1 + k * tau ∨ arc.getAngle t = a2 + k * tau) ∧
    (|arc.sweep| ≤ tau → ∀ t, 0 < t → t < 1 → ∀ k : ℤ,
      (arc.getAngle t = a1 + k * tau ∨ arc.getAngle t = a2 + k * tau) → t ∈ arc.extremumInner a1 a2) := by
  rcases lt_or_gt_of_ne hs with hneg | hpos
  · refine ⟨arc_extremum_params_neg_sound L arc a1 a2 hneg, fun hb t h0 h1 k h => ?_⟩
    exact arc_extremum_params_neg_complete L arc a1 a2 hneg (by rw [abs_of_neg hneg] at hb; linarith) t h0 h1 k h
  · refine ⟨arc_extremum_params_pos_sound L arc a1 a2 hpos, fun hb t h0 h1 k h => ?_⟩
    exact arc_extremum_params_pos_complete L arc a1 a2 hpos (by rw [abs_of_pos hpos] at hb; exact hb) t (le_of_lt h0) h1 k h

/-- **`fast_bounding_box` contains the arc — any rotation, any centre, any radii** (true since
lyon commit c4f6194c).  Only `|cos|, |sin| ≤ 1` at the sampled angle is used: the point
`(rx cos θ, ry sin θ)` is a bilinear combination of the four corners `(±rx, ±ry)`, the rotation is
linear, and `Box2D::from_points` bounds the four rotated corners. -/
theorem arc_fast_box_contains (arc : Arc K) (t : K)
    (hc : |Transc.cos (arc.getAngle t)| ≤ 1) (hs : |Transc.sin (arc.getAngle t)| ≤ 1) :
    Box.Contains arc.fastBoundingBox (arc.sample t) := by
  have hpts := fromPoints_contains
    ((Arc.rotationXf arc.xrot).apply ((⟨Scalar.zero, Scalar.zero⟩ : P K) - arc.radii))
    [(Arc.rotationXf arc.xrot).apply ((⟨Scalar.zero, Scalar.zero⟩ : P K) + arc.radii),
     (Arc.rotationXf arc.xrot).apply ⟨((⟨Scalar.zero, Scalar.zero⟩ : P K) + arc.radii).x, ((⟨Scalar.zero, Scalar.zero⟩ : P K) - arc.radii).y⟩,
     (Arc.rotationXf arc.xrot).apply ⟨((⟨Scalar.zero, Scalar.zero⟩ : P K) - arc.radii).x, ((⟨Scalar.zero, Scalar.zero⟩ : P K) + arc.radii).y⟩]
  have q0 := hpts _ (List.mem_cons_self ..)
  have q1 := hpts _ (List.mem_cons_of_mem _ (List.mem_cons_self ..))
  have q2 := hpts _ (List.mem_cons_of_mem _ (List.mem_cons_of_mem _ (List.mem_cons_self ..)))
  have q3 := hpts _ (List.mem_cons_of_mem _ (List.mem_cons_of_mem _ (List.mem_cons_of_mem _ (List.mem_cons_self ..))))
  unfold Arc.fastBoundingBox Arc.translateBox Arc.outerTransformedBox
  set B := Box.fromPoints ((Arc.rotationXf arc.xrot).apply ((⟨Scalar.zero, Scalar.zero⟩ : P K) - arc.radii)) _ with hB
  simp only [Box.Contains, Arc.rotationXf, Xf.apply, P.add_def, P.sub_def, Scalar.zero, sc_zero, zero_sub,
    zero_add, add_zero, neg_mul, mul_neg, neg_neg] at q0 q1 q2 q3
  simp only [Box.Contains, Arc.sample, Arc.sampleEllipse, Arc.rotate, P.add_def]
  set c := Transc.cos arc.xrot
  set s := Transc.sin arc.xrot
  set u := Transc.cos (arc.getAngle t)
  set v := Transc.sin (arc.getAngle t)
  have hx := hull4 u v (arc.radii.x * c) (-(arc.radii.y * s)) B.min.x B.max.x hc hs
    ⟨by linarith [q1.1], by linarith [q1.2.1]⟩ ⟨by linarith [q2.1], by linarith [q2.2.1]⟩
    ⟨by linarith [q3.1], by linarith [q3.2.1]⟩ ⟨by linarith [q0.1], by linarith [q0.2.1]⟩
  have hy := hull4 u v (arc.radii.x * s) (arc.radii.y * c) B.min.y B.max.y hc hs
    ⟨by linarith [q1.2.2.1], by linarith [q1.2.2.2]⟩ ⟨by linarith [q2.2.2.1], by linarith [q2.2.2.2]⟩
    ⟨by linarith [q3.2.2.1], by linarith [q3.2.2.2]⟩ ⟨by linarith [q0.2.2.1], by linarith [q0.2.2.2]⟩
  have ex : arc.radii.x * u * c - arc.radii.y * v * s = u * (arc.radii.x * c) + v * (-(arc.radii.y * s)) := by ring
  have ey : arc.radii.y * v * c + arc.radii.x * u * s = u * (arc.radii.x * s) + v * (arc.radii.y * c) := by ring
  rw [ex, ey]
  refine ⟨by linarith [hx.1], by linarith [hx.2], by linarith [hy.1], by linarith [hy.2]⟩

variable [Atan K]

theorem foldl_growX_spec (arc : Arc K) (l : List K) : ∀ r0 : K × K,
    (l.foldl arc.growX r0).1 ≤ r0.1 ∧ r0.2 ≤ (l.foldl arc.growX r0).2 ∧
    ∀ t ∈ l, (l.foldl arc.growX r0).1 ≤ (arc.sample t).x ∧ (arc.sample t).x ≤ (l.foldl arc.growX r0).2 := by
  induction l with
  | nil => intro r0; exact ⟨le_refl _, le_refl _, fun t ht => by simp at ht⟩
  | cons s r ih =>
    intro r0
    rw [List.foldl_cons]
    obtain ⟨i1, i2, i3⟩ := ih (arc.growX r0 s)
    have g1 : (arc.growX r0 s).1 ≤ r0.1 ∧ (arc.growX r0 s).1 ≤ (arc.sample s).x := by
      simp only [Arc.growX, sc_min]; exact ⟨min_le_left _ _, min_le_right _ _⟩
    have g2 : r0.2 ≤ (arc.growX r0 s).2 ∧ (arc.sample s).x ≤ (arc.growX r0 s).2 := by
      simp only [Arc.growX, sc_max]; exact ⟨le_max_left _ _, le_max_right _ _⟩
    refine ⟨le_trans i1 g1.1, le_trans g2.1 i2, fun t ht => ?_⟩
    rcases List.mem_cons.1 ht with rfl | ht
    · exact ⟨le_trans i1 g1.2, le_trans g2.2 i2⟩
    · exact i3 t ht

theorem foldl_growY_spec (arc : Arc K) (l : List K) : ∀ r0 : K × K,
    (l.foldl arc.growY r0).1 ≤ r0.1 ∧ r0.2 ≤ (l.foldl arc.growY r0).2 ∧
    ∀ t ∈ l, (l.foldl arc.growY r0).1 ≤ (arc.sample t).y ∧ (arc.sample t).y ≤ (l.foldl arc.growY r0).2 := by
  induction l with
  | nil => intro r0; exact ⟨le_refl _, le_refl _, fun t ht => by simp at ht⟩
  | cons s r ih =>
    intro r0
    rw [List.foldl_cons]
    obtain ⟨i1, i2, i3⟩ := ih (arc.growY r0 s)
    have g1 : (arc.growY r0 s).1 ≤ r0.1 ∧ (arc.growY r0 s).1 ≤ (arc.sample s).y := by
      simp only [Arc.growY, sc_min]; exact ⟨min_le_left _ _, min_le_right _ _⟩
    have g2 : r0.2 ≤ (arc.growY r0 s).2 ∧ (arc.sample s).y ≤ (arc.growY r0 s).2 := by
      simp only [Arc.growY, sc_max]; exact ⟨le_max_left _ _, le_max_right _ _⟩
    refine ⟨le_trans i1 g1.1, le_trans g2.1 i2, fun t ht => ?_⟩
    rcases List.mem_cons.1 ht with rfl | ht
    · exact ⟨le_trans i1 g1.2, le_trans g2.2 i2⟩
    · exact i3 t ht

/-- the bracket argument shared by both coordinates: a function that is monotone on every
parameter range free of the angles `a1`, `a2` (mod `2π`) is bounded on `[0,1]` by its values at
`0`, `1` and at the emitted parameters -/
theorem arc_coord_bounded (L : AngleLaws K) (arc : Arc K) (a1 a2 : K) (hs : arc.sweep ≠ 0)
    (hb : |arc.sweep| ≤ tau) (f : K → K)
    (hm : ∀ lo hi, 0 ≤ lo → lo ≤ hi → hi ≤ 1 →
      (∀ s, lo < s → s < hi → ∀ k : ℤ, ¬ (arc.getAngle s = a1 + k * tau ∨ arc.getAngle s = a2 + k * tau)) →
      MonoOn f lo hi)
    (m M : K) (h0 : m ≤ f 0 ∧ f 0 ≤ M) (h1 : m ≤ f 1 ∧ f 1 ≤ M)
    (hl : ∀ s ∈ arc.extremumInner a1 a2, m ≤ f s ∧ f s ≤ M)
    (t : K) (ht0 : 0 ≤ t) (ht1 : t ≤ 1) : m ≤ f t ∧ f t ≤ M := by
  obtain ⟨sound, complete⟩ := arc_extremum_params L arc a1 a2 hs
  obtain ⟨lo, hi, b1, b2, b3, b4, b5⟩ := exists_bracket (arc.extremumInner a1 a2) t ht0 ht1
  have lo0 : 0 ≤ lo := by
    rcases b1 with rfl | b1
    · exact le_refl _
    · exact (sound lo b1).1
  have hi1 : hi ≤ 1 := by
    rcases b2 with rfl | b2
    · exact le_refl _
    · exact le_of_lt (sound hi b2).2.1
  have flo : m ≤ f lo ∧ f lo ≤ M := by
    rcases b1 with rfl | b1
    · exact h0
    · exact hl lo b1
  have fhi : m ≤ f hi ∧ f hi ≤ M := by
    rcases b2 with rfl | b2
    · exact h1
    · exact hl hi b2
  have free : ∀ s, lo < s → s < hi → ∀ k : ℤ,
      ¬ (arc.getAngle s = a1 + k * tau ∨ arc.getAngle s = a2 + k * tau) := by
    intro s p q k hk
    have hmem := complete hb s (by linarith) (by linarith) k hk
    rcases b5 s hmem with c | c <;> linarith
  rcases hm lo hi lo0 (le_trans b3 b4) hi1 free with mo | mo
  · have m1 := mo lo t (le_refl _) b3 b4
    have m2 := mo t hi b3 b4 (le_refl _)
    exact ⟨le_trans flo.1 m1, le_trans m2 fhi.2⟩
  · have m1 := mo lo t (le_refl _) b3 b4
    have m2 := mo t hi b3 b4 (le_refl _)
    exact ⟨le_trans fhi.1 m2, le_trans m1 flo.2⟩

/-- **The exact bounding box of an arc contains the arc — both sweep signs** (`0 < |sweep| ≤ 2π`).
The ellipse enters through one hypothesis per coordinate, characterising the extremal angles: the
coordinate of `sample` is monotone on every parameter range that avoids the angles
`x_ext_angle`, `π + x_ext_angle` (resp. the y ones) modulo `2π` in its interior — for the real
ellipse this is `dx/dθ = 0 ⇔ tan θ = −(ry/rx) tan φ`.  (Before lyon commit 3f341fdf the statement
was false for negative sweeps: `arc_box_neg_sweep_witness`.) -/
theorem arc_box_contains (L : AngleLaws K) (arc : Arc K) (hs : arc.sweep ≠ 0) (hb : |arc.sweep| ≤ tau)
    (hmx : ∀ lo hi, 0 ≤ lo → lo ≤ hi → hi ≤ 1 →
      (∀ s, lo < s → s < hi → ∀ k : ℤ, ¬ (arc.getAngle s = arc.xExtAngle + k * tau ∨
        arc.getAngle s = (Transc.pi + arc.xExtAngle) + k * tau)) →
      MonoOn (fun s => (arc.sample s).x) lo hi)
    (hmy : ∀ lo hi, 0 ≤ lo → lo ≤ hi → hi ≤ 1 →
      (∀ s, lo < s → s < hi → ∀ k : ℤ, ¬ (arc.getAngle s = arc.yExtAngle + k * tau ∨
        arc.getAngle s = (Transc.pi + arc.yExtAngle) + k * tau)) →
      MonoOn (fun s => (arc.sample s).y) lo hi)
    (t : K) (h0 : 0 ≤ t) (h1 : t ≤ 1) : Box.Contains arc.boundingBox (arc.sample t) := by
  obtain ⟨x1, x2, x3⟩ := foldl_growX_spec arc arc.localXExtremaT
    (emin (arc.sample Scalar.zero).x (arc.sample Scalar.one).x, emax (arc.sample Scalar.zero).x (arc.sample Scalar.one).x)
  obtain ⟨y1, y2, y3⟩ := foldl_growY_spec arc arc.localYExtremaT
    (emin (arc.sample Scalar.zero).y (arc.sample Scalar.one).y, emax (arc.sample Scalar.zero).y (arc.sample Scalar.one).y)
  simp only [emin_eq, emax_eq, Scalar.zero, Scalar.one, sc_zero, sc_one] at x1 x2 x3 y1 y2 y3
  have ex : arc.boundingRangeX = List.foldl arc.growX
      (min (arc.sample 0).x (arc.sample 1).x, max (arc.sample 0).x (arc.sample 1).x) arc.localXExtremaT := by
    simp only [Arc.boundingRangeX, emin_eq, emax_eq, Scalar.zero, Scalar.one, sc_zero, sc_one]
  have ey : arc.boundingRangeY = List.foldl arc.growY
      (min (arc.sample 0).y (arc.sample 1).y, max (arc.sample 0).y (arc.sample 1).y) arc.localYExtremaT := by
    simp only [Arc.boundingRangeY, emin_eq, emax_eq, Scalar.zero, Scalar.one, sc_zero, sc_one]
  have hx := arc_coord_bounded L arc arc.xExtAngle (Transc.pi + arc.xExtAngle) hs hb
    (fun s => (arc.sample s).x) hmx _ _
    ⟨le_trans x1 (min_le_left _ _), le_trans (le_max_left _ _) x2⟩
    ⟨le_trans x1 (min_le_right _ _), le_trans (le_max_right _ _) x2⟩ x3 t h0 h1
  have hy := arc_coord_bounded L arc arc.yExtAngle (Transc.pi + arc.yExtAngle) hs hb
    (fun s => (arc.sample s).y) hmy _ _
    ⟨le_trans y1 (min_le_left _ _), le_trans (le_max_left _ _) y2⟩
    ⟨le_trans y1 (min_le_right _ _), le_trans (le_max_right _ _) y2⟩ y3 t h0 h1
  simp only [Box.Contains, Arc.boundingBox, Box.ofRanges, ex, ey]
  exact ⟨hx.1, hx.2, hy.1, hy.2⟩

end arc


/-! ## Cubic Bézier segments

History.  Two defects of lyon were found here and repaired:
* `cubic_clamp_distorts_witness` — `for_each_monotonic` clamped both control points into the
  coordinate range of the piece's endpoints; the monotone cubic `(0,0) (1,1) (−1,2) (4,3)` came out
  with `ctrl2.x = 0` instead of `−1` (at `u = 1/2`: `x = 7/8` instead of `1/2`).  Repaired by lyon
  commit 821d0dd7 (only the end tangents are clamped); the full statements are now
  `cubic_clamp_noop` / `cubic_pieces_retrace`.
* the root formula `(−b ∓ √d)/(2a)` cancelled in floating point for `|4ac| ≪ b²` (no field-level
  witness: it is correct in exact arithmetic).  Repaired by lyon commit 67fbe059
  (`q = −(b + sgn(b)√d)/2`, roots `q/a`, `c/q`); `cubic_root_form` states that these are the same
  two roots and `cubic_critical_roots` is proved for the new form. -/


/-- the fast box (hull of the control points) contains the curve -/
theorem cubic_fast_box_contains [Transc K] (c : Cubic K) (t : K) (h0 : 0 ≤ t) (h1 : t ≤ 1) :
    Box.Contains c.fastBoundingBox (c.sample t) := by
  unfold Box.Contains
  rw [cubic_sample_x, cubic_sample_y]
  have hx := c1_fast_range_contains c.a.x c.c1.x c.c2.x c.b.x t h0 h1
  have hy := c1_fast_range_contains c.a.y c.c1.y c.c2.y c.b.y t h0 h1
  exact ⟨hx.1, hx.2, hy.1, hy.2⟩


section roots

variable [Transc K]

/-- **The repaired root form gives the same two roots**: with `s = √d > 0`, `s² = b² − 4ac`,
`a ≠ 0`, the value `q = −(b + sgn(b)·s)/2` is non-zero and `{q/a, c/q} = {(−b−s)/(2a), (−b+s)/(2a)}`. -/
theorem cubic_root_form (a b c s : K) (ha : a ≠ 0) (hs : s * s = b * b - 4 * a * c) (hpos : 0 < s) :
    Cubic1.rootQ b s ≠ 0 ∧
    ((Cubic1.rootQ b s / a = (-b - s) / (2 * a) ∧ c / Cubic1.rootQ b s = (-b + s) / (2 * a)) ∨
     (Cubic1.rootQ b s / a = (-b + s) / (2 * a) ∧ c / Cubic1.rootQ b s = (-b - s) / (2 * a))) :=
  rootQ_roots a b c s ha hs hpos

/-- **Cubic critical parameters are roots of the derivative**: a parameter is reported by
`for_each_local_x_extremum_t` iff it lies in `(0,1)` and `dx` vanishes there (for a coordinate
whose derivative is not identically zero); likewise for `y`.  Hypotheses on `sqrt`:
`√d·√d = d` and `√d ≥ 0` for `d ≥ 0`. -/
theorem cubic_critical_roots (hsq : ∀ d : K, 0 ≤ d → Transc.sqrt d * Transc.sqrt d = d)
    (hs0 : ∀ d : K, 0 ≤ d → 0 ≤ Transc.sqrt d) (c : Cubic K) (t : K) :
    ((Cubic1.ca c.a.x c.c1.x c.c2.x c.b.x ≠ 0 ∨ Cubic1.cb c.a.x c.c1.x c.c2.x ≠ 0) →
      (t ∈ c.localXExtremaT ↔ (0 < t ∧ t < 1 ∧ c.dx t = 0))) ∧
    ((Cubic1.ca c.a.y c.c1.y c.c2.y c.b.y ≠ 0 ∨ Cubic1.cb c.a.y c.c1.y c.c2.y ≠ 0) →
      (t ∈ c.localYExtremaT ↔ (0 < t ∧ t < 1 ∧ c.dy t = 0))) := by
  constructor <;> intro h
  · rw [cubic_dx_eq]; exact c1_extremaOf_iff hsq hs0 _ _ _ t h
  · rw [cubic_dy_eq]; exact c1_extremaOf_iff hsq hs0 _ _ _ t h

/-- reported parameters are interior critical points, with no side condition -/
theorem cubic_extremum_is_critical (hsq : ∀ d : K, 0 ≤ d → Transc.sqrt d * Transc.sqrt d = d)
    (hs0 : ∀ d : K, 0 ≤ d → 0 ≤ Transc.sqrt d) (c : Cubic K) (t : K) :
    (t ∈ c.localXExtremaT → 0 < t ∧ t < 1 ∧ c.dx t = 0) ∧
    (t ∈ c.localYExtremaT → 0 < t ∧ t < 1 ∧ c.dy t = 0) := by
  have gen : ∀ a b cc : K, t ∈ Cubic1.extremaOf a b cc → 0 < t ∧ t < 1 ∧ a * t^2 + b * t + cc = 0 := by
    intro a b cc h
    by_cases hnz : a ≠ 0 ∨ b ≠ 0
    · exact (c1_extremaOf_iff hsq hs0 a b cc t hnz).1 h
    · rw [not_or, not_not, not_not] at hnz
      unfold Cubic1.extremaOf at h
      simp only [sc_beq, bne_iff, Scalar.zero, sc_zero] at h
      rw [if_pos hnz.1, if_neg (not_not.2 hnz.2)] at h
      simp at h
  constructor <;> intro h
  · rw [cubic_dx_eq]; exact gen _ _ _ h
  · rw [cubic_dy_eq]; exact gen _ _ _ h

end roots


section cubicranges

variable [Transc K]

/-- **Conservative.**  The exact bounding box of a cubic contains every point of the curve
(`t ∈ [0,1]`): between consecutive critical parameters the derivative keeps its sign (a sign
change of a quadratic forces a root, which would have been reported), so by Simpson's identity
the coordinate is monotone there and bounded by its values at the neighbouring critical
parameters / ends, all of which the box contains. -/
theorem cubic_box_contains (hsq : ∀ d : K, 0 ≤ d → Transc.sqrt d * Transc.sqrt d = d)
    (hs0 : ∀ d : K, 0 ≤ d → 0 ≤ Transc.sqrt d) (c : Cubic K) (t : K) (h0 : 0 ≤ t) (h1 : t ≤ 1) :
    Box.Contains c.boundingBox (c.sample t) := by
  unfold Box.Contains
  rw [cubic_sample_x, cubic_sample_y]
  have hx := c1_range_contains hsq hs0 c.a.x c.c1.x c.c2.x c.b.x t h0 h1
  have hy := c1_range_contains hsq hs0 c.a.y c.c1.y c.c2.y c.b.y t h0 h1
  exact ⟨hx.1, hx.2, hy.1, hy.2⟩

/-- **Tight.**  Each side of the exact box is touched by the curve at the reported extremum
parameter, which lies in `[0,1]`. -/
theorem cubic_box_touched (c : Cubic K) :
    (0 ≤ c.xMinimumT ∧ c.xMinimumT ≤ 1 ∧ (c.sample c.xMinimumT).x = c.boundingBox.min.x) ∧
    (0 ≤ c.xMaximumT ∧ c.xMaximumT ≤ 1 ∧ (c.sample c.xMaximumT).x = c.boundingBox.max.x) ∧
    (0 ≤ c.yMinimumT ∧ c.yMinimumT ≤ 1 ∧ (c.sample c.yMinimumT).y = c.boundingBox.min.y) ∧
    (0 ≤ c.yMaximumT ∧ c.yMaximumT ≤ 1 ∧ (c.sample c.yMaximumT).y = c.boundingBox.max.y) := by
  obtain ⟨x1, x2, _⟩ := c1_range_partial c.a.x c.c1.x c.c2.x c.b.x
  obtain ⟨y1, y2, _⟩ := c1_range_partial c.a.y c.c1.y c.c2.y c.b.y
  exact ⟨⟨x2.1, x2.2, by rw [cubic_sample_x]; rfl⟩, ⟨x1.1, x1.2, by rw [cubic_sample_x]; rfl⟩,
    ⟨y2.1, y2.2, by rw [cubic_sample_y]; rfl⟩, ⟨y1.1, y1.2, by rw [cubic_sample_y]; rfl⟩⟩

/-- **Extremum parameters are where the coordinate is extremal** over the whole of `[0,1]`. -/
theorem cubic_extremum_params_extremal (hsq : ∀ d : K, 0 ≤ d → Transc.sqrt d * Transc.sqrt d = d)
    (hs0 : ∀ d : K, 0 ≤ d → 0 ≤ Transc.sqrt d) (c : Cubic K) (t : K) (h0 : 0 ≤ t) (h1 : t ≤ 1) :
    c.x c.xMinimumT ≤ c.x t ∧ c.x t ≤ c.x c.xMaximumT ∧
    c.y c.yMinimumT ≤ c.y t ∧ c.y t ≤ c.y c.yMaximumT :=
  ⟨(c1_range_contains hsq hs0 _ _ _ _ t h0 h1).1, (c1_range_contains hsq hs0 _ _ _ _ t h0 h1).2,
   (c1_range_contains hsq hs0 _ _ _ _ t h0 h1).1, (c1_range_contains hsq hs0 _ _ _ _ t h0 h1).2⟩

/-- **fast ⊇ exact** -/
theorem cubic_fast_contains_exact (c : Cubic K) : Box.Inside c.boundingBox c.fastBoundingBox := by
  obtain ⟨x1, x2, _⟩ := c1_range_partial c.a.x c.c1.x c.c2.x c.b.x
  obtain ⟨y1, y2, _⟩ := c1_range_partial c.a.y c.c1.y c.c2.y c.b.y
  exact ⟨(c1_fast_range_contains _ _ _ _ _ x2.1 x2.2).1, (c1_fast_range_contains _ _ _ _ _ x1.1 x1.2).2,
    (c1_fast_range_contains _ _ _ _ _ y2.1 y2.2).1, (c1_fast_range_contains _ _ _ _ _ y1.1 y1.2).2⟩

/-- **Monotone ranges of a cubic partition `[0,1]`** (`for_each_monotonic_range`,
`for_each_x_monotonic_range`, `for_each_y_monotonic_range`): consecutive, from 0 to 1, each of
positive length. -/
theorem cubic_monotone_ranges_partition (hsq : ∀ d : K, 0 ≤ d → Transc.sqrt d * Transc.sqrt d = d)
    (hs0 : ∀ d : K, 0 ≤ d → 0 ≤ Transc.sqrt d) (c : Cubic K) :
    Chain 0 c.monotonicRanges 1 ∧ Chain 0 c.xMonotonicRanges 1 ∧ Chain 0 c.yMonotonicRanges 1 := by
  have one : ∀ a b cc : K, Chain 0 (Cubic.rangesAll Scalar.zero (Cubic1.extremaOf a b cc)) 1 := by
    intro a b cc
    simp only [Scalar.zero, sc_zero]
    apply rangesAll_chain
    · rw [List.pairwise_cons]
      exact ⟨fun x hx => (c1_extremaOf_interior _ _ _ x hx).1, c1_extremaOf_strict hsq hs0 a b cc⟩
    · intro x hx
      rcases List.mem_cons.1 hx with rfl | hx
      · norm_num
      · exact (c1_extremaOf_interior _ _ _ x hx).2
  refine ⟨?_, one _ _ _, one _ _ _⟩
  unfold Cubic.monotonicRanges
  simp only [Scalar.zero, sc_zero]
  obtain ⟨hs, hm⟩ := sortAsc_spec (c.localXExtremaT ++ c.localYExtremaT)
  have hint : ∀ x ∈ Cubic.sortAsc (c.localXExtremaT ++ c.localYExtremaT), 0 < x ∧ x < 1 := by
    intro x hx
    rw [hm, List.mem_append] at hx
    rcases hx with hx | hx <;> exact c1_extremaOf_interior _ _ _ x hx
  apply rangesSkip_chain
  · rw [List.pairwise_cons]; exact ⟨fun x hx => le_of_lt (hint x hx).1, hs⟩
  · intro x hx
    rcases List.mem_cons.1 hx with rfl | hx
    · norm_num
    · exact (hint x hx).2

/-- every range reported by `for_each_monotonic_range` lies in `[0,1]`, has positive length and
no reported x- or y- critical parameter in its interior -/
theorem cubic_ranges_good (c : Cubic K) : ∀ r ∈ c.monotonicRanges,
    0 ≤ r.1 ∧ r.1 < r.2 ∧ r.2 ≤ 1 ∧
    (∀ s ∈ c.localXExtremaT, s ≤ r.1 ∨ r.2 ≤ s) ∧ (∀ s ∈ c.localYExtremaT, s ≤ r.1 ∨ r.2 ≤ s) := by
  intro r hr
  unfold Cubic.monotonicRanges at hr
  simp only [Scalar.zero, sc_zero] at hr
  obtain ⟨hs, hm⟩ := sortAsc_spec (c.localXExtremaT ++ c.localYExtremaT)
  have hint : ∀ x ∈ Cubic.sortAsc (c.localXExtremaT ++ c.localYExtremaT), 0 < x ∧ x < 1 := by
    intro x hx
    rw [hm, List.mem_append] at hx
    rcases hx with hx | hx <;> exact c1_extremaOf_interior _ _ _ x hx
  obtain ⟨b1, b2, b3, b4⟩ := rangesSkip_good _ 0
    (by rw [List.pairwise_cons]; exact ⟨fun x hx => le_of_lt (hint x hx).1, hs⟩)
    (by intro x hx
        rcases List.mem_cons.1 hx with rfl | hx
        · norm_num
        · exact (hint x hx).2) r hr
  refine ⟨b1, b2, b3, fun s hsx => b4 s ?_, fun s hsy => b4 s ?_⟩
  · rw [hm, List.mem_append]; exact Or.inl hsx
  · rw [hm, List.mem_append]; exact Or.inr hsy

/-- **Each piece is monotone**: on every range reported by `for_each_monotonic_range` both `x`
and `y` are monotone. -/
theorem cubic_monotone_piece_monotone (hsq : ∀ d : K, 0 ≤ d → Transc.sqrt d * Transc.sqrt d = d)
    (hs0 : ∀ d : K, 0 ≤ d → 0 ≤ Transc.sqrt d) (c : Cubic K) : ∀ r ∈ c.monotonicRanges,
    MonoOn c.x r.1 r.2 ∧ MonoOn c.y r.1 r.2 := by
  intro r hr
  obtain ⟨a0, a1, a2, gx, gy⟩ := cubic_ranges_good c r hr
  exact ⟨c1_mono hsq hs0 _ _ _ _ r.1 r.2 a0 a2 gx, c1_mono hsq hs0 _ _ _ _ r.1 r.2 a0 a2 gy⟩

theorem clampX_noop_of (hsq : ∀ d : K, 0 ≤ d → Transc.sqrt d * Transc.sqrt d = d)
    (hs0 : ∀ d : K, 0 ≤ d → 0 ≤ Transc.sqrt d) (c : Cubic K) (lo hi : K)
    (h0 : 0 ≤ lo) (hlh : lo ≤ hi) (h1 : hi ≤ 1) (gx : ∀ s ∈ c.localXExtremaT, s ≤ lo ∨ hi ≤ s) :
    Cubic.clampEnd1 (c.splitRange lo hi).c1.x (c.splitRange lo hi).a.x (c.splitRange lo hi).b.x
      = (c.splitRange lo hi).c1.x ∧
    Cubic.clampEnd2 (c.splitRange lo hi).c2.x (c.splitRange lo hi).a.x (c.splitRange lo hi).b.x
      = (c.splitRange lo hi).c2.x := by
  obtain ⟨ea, eb, e1x, e2x, _, _⟩ := cubic_splitRange_ctrl c lo hi
  have n := c1_clamp_noop hlh (c1_sign_const hsq hs0 _ _ _ _ lo hi h0 h1 gx)
  rw [ea, eb, cubic_sample_x, cubic_sample_x, e1x, e2x]
  exact n

theorem clampY_noop_of (hsq : ∀ d : K, 0 ≤ d → Transc.sqrt d * Transc.sqrt d = d)
    (hs0 : ∀ d : K, 0 ≤ d → 0 ≤ Transc.sqrt d) (c : Cubic K) (lo hi : K)
    (h0 : 0 ≤ lo) (hlh : lo ≤ hi) (h1 : hi ≤ 1) (gy : ∀ s ∈ c.localYExtremaT, s ≤ lo ∨ hi ≤ s) :
    Cubic.clampEnd1 (c.splitRange lo hi).c1.y (c.splitRange lo hi).a.y (c.splitRange lo hi).b.y
      = (c.splitRange lo hi).c1.y ∧
    Cubic.clampEnd2 (c.splitRange lo hi).c2.y (c.splitRange lo hi).a.y (c.splitRange lo hi).b.y
      = (c.splitRange lo hi).c2.y := by
  obtain ⟨ea, eb, _, _, e1y, e2y⟩ := cubic_splitRange_ctrl c lo hi
  have n := c1_clamp_noop hlh (c1_sign_const hsq hs0 _ _ _ _ lo hi h0 h1 gy)
  rw [ea, eb, cubic_sample_y, cubic_sample_y, e1y, e2y]
  exact n

/-- **The end-tangent clamp is the identity on every monotone piece** (exact arithmetic): the
pieces handed out by `for_each_monotonic` are exactly `split_range` of the reported ranges. -/
theorem cubic_clamp_noop (hsq : ∀ d : K, 0 ≤ d → Transc.sqrt d * Transc.sqrt d = d)
    (hs0 : ∀ d : K, 0 ≤ d → 0 ≤ Transc.sqrt d) (c : Cubic K) :
    c.monotonicPieces = c.monotonicRanges.map (fun r => c.splitRange r.1 r.2) := by
  unfold Cubic.monotonicPieces
  apply List.map_congr_left
  intro r hr
  obtain ⟨a0, a1, a2, gx, gy⟩ := cubic_ranges_good c r hr
  obtain ⟨x1, x2⟩ := clampX_noop_of hsq hs0 c r.1 r.2 a0 (le_of_lt a1) a2 gx
  obtain ⟨y1, y2⟩ := clampY_noop_of hsq hs0 c r.1 r.2 a0 (le_of_lt a1) a2 gy
  unfold Cubic.clampXY
  rw [x1, x2, y1, y2]

/-- **The pieces retrace the curve**: piece `r` sampled at `u` is the curve at `r.1 + (r.2−r.1)·u`. -/
theorem cubic_pieces_retrace (hsq : ∀ d : K, 0 ≤ d → Transc.sqrt d * Transc.sqrt d = d)
    (hs0 : ∀ d : K, 0 ≤ d → 0 ≤ Transc.sqrt d) (c : Cubic K) : ∀ r ∈ c.monotonicRanges, ∀ u : K,
    (Cubic.clampXY (c.splitRange r.1 r.2)).sample u = c.sample (r.1 + (r.2 - r.1) * u) := by
  intro r hr u
  have h := cubic_clamp_noop hsq hs0 c
  unfold Cubic.monotonicPieces at h
  rw [List.map_inj_left.1 h r hr]
  geom_ring

/-- the x- / y- only variants: ranges partition `[0,1]` (see `cubic_monotone_ranges_partition`),
the coordinate is monotone on each, and the clamped pieces are exactly `split_range` of the ranges -/
theorem cubic_xy_monotone (hsq : ∀ d : K, 0 ≤ d → Transc.sqrt d * Transc.sqrt d = d)
    (hs0 : ∀ d : K, 0 ≤ d → 0 ≤ Transc.sqrt d) (c : Cubic K) :
    (∀ r ∈ c.xMonotonicRanges, MonoOn c.x r.1 r.2) ∧ (∀ r ∈ c.yMonotonicRanges, MonoOn c.y r.1 r.2) ∧
    c.xMonotonicPieces = c.xMonotonicRanges.map (fun r => c.splitRange r.1 r.2) ∧
    c.yMonotonicPieces = c.yMonotonicRanges.map (fun r => c.splitRange r.1 r.2) := by
  have good : ∀ a b cc : K, ∀ r ∈ Cubic.rangesAll Scalar.zero (Cubic1.extremaOf a b cc),
      0 ≤ r.1 ∧ r.1 < r.2 ∧ r.2 ≤ 1 ∧ ∀ x ∈ Cubic1.extremaOf a b cc, x ≤ r.1 ∨ r.2 ≤ x := by
    intro a b cc r hr
    simp only [Scalar.zero, sc_zero] at hr
    exact rangesAll_good _ 0
      (by rw [List.pairwise_cons]
          exact ⟨fun x hx => (c1_extremaOf_interior _ _ _ x hx).1, c1_extremaOf_strict hsq hs0 a b cc⟩)
      (by intro x hx
          rcases List.mem_cons.1 hx with rfl | hx
          · norm_num
          · exact (c1_extremaOf_interior _ _ _ x hx).2) r hr
  refine ⟨fun r hr => ?_, fun r hr => ?_, ?_, ?_⟩
  · obtain ⟨a0, a1, a2, g⟩ := good _ _ _ r hr
    exact c1_mono hsq hs0 _ _ _ _ r.1 r.2 a0 a2 g
  · obtain ⟨a0, a1, a2, g⟩ := good _ _ _ r hr
    exact c1_mono hsq hs0 _ _ _ _ r.1 r.2 a0 a2 g
  · unfold Cubic.xMonotonicPieces
    apply List.map_congr_left
    intro r hr
    obtain ⟨a0, a1, a2, g⟩ := good _ _ _ r hr
    obtain ⟨x1, x2⟩ := clampX_noop_of hsq hs0 c r.1 r.2 a0 (le_of_lt a1) a2 g
    unfold Cubic.clampX
    rw [x1, x2]
  · unfold Cubic.yMonotonicPieces
    apply List.map_congr_left
    intro r hr
    obtain ⟨a0, a1, a2, g⟩ := good _ _ _ r hr
    obtain ⟨y1, y2⟩ := clampY_noop_of hsq hs0 c r.1 r.2 a0 (le_of_lt a1) a2 g
    unfold Cubic.clampY
    rw [y1, y2]

/-- `is_x_monotonic` / `is_y_monotonic` / `is_monotonic` are sound -/
theorem cubic_is_monotonic_sound (hsq : ∀ d : K, 0 ≤ d → Transc.sqrt d * Transc.sqrt d = d)
    (hs0 : ∀ d : K, 0 ≤ d → 0 ≤ Transc.sqrt d) (c : Cubic K) :
    (c.isXMonotonic = true → MonoOn c.x 0 1) ∧ (c.isYMonotonic = true → MonoOn c.y 0 1) ∧
    (c.isMonotonic = true → MonoOn c.x 0 1 ∧ MonoOn c.y 0 1) := by
  have hx : c.isXMonotonic = true → MonoOn c.x 0 1 := by
    intro h
    have hn : c.localXExtremaT = [] := by simpa [Cubic.isXMonotonic] using h
    exact c1_mono hsq hs0 _ _ _ _ 0 1 (le_refl _) (le_refl _)
      (fun t ht => by have : t ∈ c.localXExtremaT := ht; rw [hn] at this; simp at this)
  have hy : c.isYMonotonic = true → MonoOn c.y 0 1 := by
    intro h
    have hn : c.localYExtremaT = [] := by simpa [Cubic.isYMonotonic] using h
    exact c1_mono hsq hs0 _ _ _ _ 0 1 (le_refl _) (le_refl _)
      (fun t ht => by have : t ∈ c.localYExtremaT := ht; rw [hn] at this; simp at this)
  refine ⟨hx, hy, fun h => ?_⟩
  simp only [Cubic.isMonotonic, Bool.and_eq_true] at h
  exact ⟨hx h.1, hy h.2⟩

end cubicranges


/-! ## Line segments, triangles -/


/-- the box of a line segment is spanned by its endpoints (tight) and contains the segment -/
theorem seg_box (s : Seg K) :
    s.boundingBox = ⟨⟨min s.a.x s.b.x, min s.a.y s.b.y⟩, ⟨max s.a.x s.b.x, max s.a.y s.b.y⟩⟩ ∧
    ∀ t, 0 ≤ t → t ≤ 1 → Box.Contains s.boundingBox (s.sample t) := by
  have e : s.boundingBox = ⟨⟨min s.a.x s.b.x, min s.a.y s.b.y⟩, ⟨max s.a.x s.b.x, max s.a.y s.b.y⟩⟩ := by
    simp only [Seg.boundingBox, Seg.boundingRangeX, Seg.boundingRangeY, Box.ofRanges, minMax_eq]
  refine ⟨e, fun t h0 h1 => ?_⟩
  rw [e]
  simp only [Box.Contains, Seg.sample, P.lerp, Scalar.one, sc_one]
  have u : 0 ≤ 1 - t := by linarith
  have ax := min_le_left s.a.x s.b.x
  have bx := min_le_right s.a.x s.b.x
  have ay := min_le_left s.a.y s.b.y
  have by' := min_le_right s.a.y s.b.y
  have ax' := le_max_left s.a.x s.b.x
  have bx' := le_max_right s.a.x s.b.x
  have ay' := le_max_left s.a.y s.b.y
  have by'' := le_max_right s.a.y s.b.y
  refine ⟨?_, ?_, ?_, ?_⟩
  · nlinarith [mul_le_mul_of_nonneg_left ax u, mul_le_mul_of_nonneg_left bx h0]
  · nlinarith [mul_le_mul_of_nonneg_left ax' u, mul_le_mul_of_nonneg_left bx' h0]
  · nlinarith [mul_le_mul_of_nonneg_left ay u, mul_le_mul_of_nonneg_left by' h0]
  · nlinarith [mul_le_mul_of_nonneg_left ay' u, mul_le_mul_of_nonneg_left by'' h0]


/-- the box of a triangle is spanned by its vertices and contains every convex combination -/
theorem tri_box (t : Tri K) :
    t.boundingBox = ⟨⟨min (min t.a.x t.b.x) t.c.x, min (min t.a.y t.b.y) t.c.y⟩,
                     ⟨max (max t.a.x t.b.x) t.c.x, max (max t.a.y t.b.y) t.c.y⟩⟩ ∧
    ∀ u v w : K, 0 ≤ u → 0 ≤ v → 0 ≤ w → u + v + w = 1 →
      Box.Contains t.boundingBox ⟨u * t.a.x + v * t.b.x + w * t.c.x, u * t.a.y + v * t.b.y + w * t.c.y⟩ := by
  have e : t.boundingBox = ⟨⟨min (min t.a.x t.b.x) t.c.x, min (min t.a.y t.b.y) t.c.y⟩,
                     ⟨max (max t.a.x t.b.x) t.c.x, max (max t.a.y t.b.y) t.c.y⟩⟩ := by
    simp only [Tri.boundingBox, Tri.boundingRangeX, Tri.boundingRangeY, Box.ofRanges, sc_min, sc_max]
  refine ⟨e, fun u v w hu hv hw hs => ?_⟩
  rw [e]
  simp only [Box.Contains]
  have key : ∀ (a b c m : K), m ≤ a → m ≤ b → m ≤ c → m ≤ u * a + v * b + w * c := by
    intro a b c m ha hb hc
    have h1 := mul_le_mul_of_nonneg_left ha hu
    have h2 := mul_le_mul_of_nonneg_left hb hv
    have h3 := mul_le_mul_of_nonneg_left hc hw
    have hm : m = u * m + v * m + w * m := by rw [← add_mul, ← add_mul, hs, one_mul]
    linarith
  have key2 : ∀ (a b c m : K), a ≤ m → b ≤ m → c ≤ m → u * a + v * b + w * c ≤ m := by
    intro a b c m ha hb hc
    have h1 := mul_le_mul_of_nonneg_left ha hu
    have h2 := mul_le_mul_of_nonneg_left hb hv
    have h3 := mul_le_mul_of_nonneg_left hc hw
    have hm : m = u * m + v * m + w * m := by rw [← add_mul, ← add_mul, hs, one_mul]
    linarith
  refine ⟨key _ _ _ _ ?_ ?_ ?_, key2 _ _ _ _ ?_ ?_ ?_, key _ _ _ _ ?_ ?_ ?_, key2 _ _ _ _ ?_ ?_ ?_⟩
  · exact le_trans (min_le_left _ _) (min_le_left _ _)
  · exact le_trans (min_le_left _ _) (min_le_right _ _)
  · exact min_le_right _ _
  · exact le_trans (le_max_left _ _) (le_max_left _ _)
  · exact le_trans (le_max_right _ _) (le_max_left _ _)
  · exact le_max_right _ _
  · exact le_trans (min_le_left _ _) (min_le_left _ _)
  · exact le_trans (min_le_left _ _) (min_le_right _ _)
  · exact min_le_right _ _
  · exact le_trans (le_max_left _ _) (le_max_left _ _)
  · exact le_trans (le_max_right _ _) (le_max_left _ _)
  · exact le_max_right _ _


/-- **Tight**: every side of a segment's box passes through an endpoint -/
theorem seg_box_touched (s : Seg K) :
    (s.boundingBox.min.x = s.a.x ∨ s.boundingBox.min.x = s.b.x) ∧
    (s.boundingBox.max.x = s.a.x ∨ s.boundingBox.max.x = s.b.x) ∧
    (s.boundingBox.min.y = s.a.y ∨ s.boundingBox.min.y = s.b.y) ∧
    (s.boundingBox.max.y = s.a.y ∨ s.boundingBox.max.y = s.b.y) := by
  rw [(seg_box s).1]
  exact ⟨min_choice _ _, max_choice _ _, min_choice _ _, max_choice _ _⟩

/-- **Tight**: every side of a triangle's box passes through a vertex -/
theorem tri_box_touched (t : Tri K) :
    (t.boundingBox.min.x = t.a.x ∨ t.boundingBox.min.x = t.b.x ∨ t.boundingBox.min.x = t.c.x) ∧
    (t.boundingBox.max.x = t.a.x ∨ t.boundingBox.max.x = t.b.x ∨ t.boundingBox.max.x = t.c.x) ∧
    (t.boundingBox.min.y = t.a.y ∨ t.boundingBox.min.y = t.b.y ∨ t.boundingBox.min.y = t.c.y) ∧
    (t.boundingBox.max.y = t.a.y ∨ t.boundingBox.max.y = t.b.y ∨ t.boundingBox.max.y = t.c.y) := by
  rw [(tri_box t).1]
  have m3 : ∀ a b c : K, min (min a b) c = a ∨ min (min a b) c = b ∨ min (min a b) c = c := by
    intro a b c
    rcases min_choice (min a b) c with h | h
    · rcases min_choice a b with h' | h'
      · left; rw [h, h']
      · right; left; rw [h, h']
    · right; right; exact h
  have M3 : ∀ a b c : K, max (max a b) c = a ∨ max (max a b) c = b ∨ max (max a b) c = c := by
    intro a b c
    rcases max_choice (max a b) c with h | h
    · rcases max_choice a b with h' | h'
      · left; rw [h, h']
      · right; left; rw [h, h']
    · right; right; exact h
  exact ⟨m3 _ _ _, M3 _ _ _, m3 _ _ _, M3 _ _ _⟩


/-! ## `lyon_algorithms::fit` -/

/-- what `fit_box` does to a point: `(p − src_centre) · scale + dst_centre`, coordinate-wise -/
theorem fitBox_apply (src dst : Box K) (style : FitStyle) (p : P K) :
    (Fit.fitBox src dst style).apply p =
      ⟨(p.x - (src.min.x + src.max.x) / 2) *
          (Fit.pickScale (Fit.width dst / Fit.width src) (Fit.height dst / Fit.height src) style).x
          + (dst.min.x + dst.max.x) / 2,
       (p.y - (src.min.y + src.max.y) / 2) *
          (Fit.pickScale (Fit.width dst / Fit.width src) (Fit.height dst / Fit.height src) style).y
          + (dst.min.y + dst.max.y) / 2⟩ := by
  simp only [Fit.fitBox, Xf.andThen, Xf.translation, Xf.scale, Xf.apply, P.lerp, Scalar.zero, Scalar.one,
    Scalar.half, sc_zero, sc_one, sc_half]
  apply P.ext' <;> simp only <;> ring

/-- the source centre goes to the destination centre, for every style -/
theorem fit_box_center (src dst : Box K) (style : FitStyle) :
    (Fit.fitBox src dst style).apply ⟨(src.min.x + src.max.x) / 2, (src.min.y + src.max.y) / 2⟩ =
      ⟨(dst.min.x + dst.max.x) / 2, (dst.min.y + dst.max.y) / 2⟩ := by
  rw [fitBox_apply]; apply P.ext' <;> simp

/-- the uniform styles preserve the aspect ratio: one scale factor, no shear, no rotation -/
theorem fit_box_uniform (src dst : Box K) (style : FitStyle) (h : style ≠ .stretch) :
    (Fit.fitBox src dst style).m11 = (Fit.fitBox src dst style).m22 ∧
    (Fit.fitBox src dst style).m12 = 0 ∧ (Fit.fitBox src dst style).m21 = 0 := by
  cases style <;>
    simp only [Fit.fitBox, Fit.pickScale, Xf.andThen, Xf.translation, Xf.scale, Scalar.zero, Scalar.one,
      sc_zero, sc_one, ne_eq, not_true_eq_false] at h ⊢ <;>
    refine ⟨by ring, by ring, by ring⟩

/-- `Stretch` maps the source box onto the destination box, corner to corner -/
theorem fit_box_stretch (src dst : Box K) (hw : Fit.width src ≠ 0) (hh : Fit.height src ≠ 0) :
    (Fit.fitBox src dst .stretch).apply src.min = dst.min ∧
    (Fit.fitBox src dst .stretch).apply src.max = dst.max := by
  rw [fitBox_apply, fitBox_apply]
  simp only [Fit.pickScale, Fit.width, Fit.height] at hw hh ⊢
  constructor <;> apply P.ext' <;> simp only <;> field_simp <;> ring

/-- **`fit_box` maps the source box into the destination box** for the styles `Stretch` and `Min`
(source of positive width and height, destination not inverted) -/
theorem fit_box_maps_src_into_dst (src dst : Box K) (style : FitStyle)
    (hst : style = .stretch ∨ style = .min)
    (hw : 0 < Fit.width src) (hh : 0 < Fit.height src) (hdw : 0 ≤ Fit.width dst) (hdh : 0 ≤ Fit.height dst)
    (p : P K) (hp : Box.Contains src p) : Box.Contains dst ((Fit.fitBox src dst style).apply p) := by
  rw [fitBox_apply]
  have rx : 0 ≤ Fit.width dst / Fit.width src := div_nonneg hdw (le_of_lt hw)
  have ry : 0 ≤ Fit.height dst / Fit.height src := div_nonneg hdh (le_of_lt hh)
  have ex : Fit.width dst / Fit.width src * Fit.width src = Fit.width dst := div_mul_cancel₀ _ (ne_of_gt hw)
  have ey : Fit.height dst / Fit.height src * Fit.height src = Fit.height dst := div_mul_cancel₀ _ (ne_of_gt hh)
  -- the chosen scale factors are non-negative and do not exceed the stretch factors
  have hs : (0 ≤ (Fit.pickScale (Fit.width dst / Fit.width src) (Fit.height dst / Fit.height src) style).x ∧
      (Fit.pickScale (Fit.width dst / Fit.width src) (Fit.height dst / Fit.height src) style).x ≤ Fit.width dst / Fit.width src) ∧
      (0 ≤ (Fit.pickScale (Fit.width dst / Fit.width src) (Fit.height dst / Fit.height src) style).y ∧
      (Fit.pickScale (Fit.width dst / Fit.width src) (Fit.height dst / Fit.height src) style).y ≤ Fit.height dst / Fit.height src) := by
    rcases hst with rfl | rfl
    · exact ⟨⟨rx, le_refl _⟩, ⟨ry, le_refl _⟩⟩
    · simp only [Fit.pickScale, sc_min]
      exact ⟨⟨le_min rx ry, min_le_left _ _⟩, ⟨le_min rx ry, min_le_right _ _⟩⟩
  set sx := (Fit.pickScale (Fit.width dst / Fit.width src) (Fit.height dst / Fit.height src) style).x
  set sy := (Fit.pickScale (Fit.width dst / Fit.width src) (Fit.height dst / Fit.height src) style).y
  obtain ⟨⟨sx0, sx1⟩, ⟨sy0, sy1⟩⟩ := hs
  have bx : sx * Fit.width src ≤ Fit.width dst := by
    have := mul_le_mul_of_nonneg_right sx1 (le_of_lt hw); linarith
  have by' : sy * Fit.height src ≤ Fit.height dst := by
    have := mul_le_mul_of_nonneg_right sy1 (le_of_lt hh); linarith
  simp only [Fit.width, Fit.height] at bx by' hw hh
  obtain ⟨p1, p2, p3, p4⟩ := hp
  have a1 := mul_le_mul_of_nonneg_right p1 sx0
  have a2 := mul_le_mul_of_nonneg_right p2 sx0
  have a3 := mul_le_mul_of_nonneg_right p3 sy0
  have a4 := mul_le_mul_of_nonneg_right p4 sy0
  refine ⟨?_, ?_, ?_, ?_⟩ <;> simp only <;> nlinarith

/-- `Max` covers the destination box: the image of the source box reaches at least as far as the
destination box on every side -/
theorem fit_box_max_covers (src dst : Box K) (hw : 0 < Fit.width src) (hh : 0 < Fit.height src) :
    ((Fit.fitBox src dst .max).apply src.min).x ≤ dst.min.x ∧ dst.max.x ≤ ((Fit.fitBox src dst .max).apply src.max).x ∧
    ((Fit.fitBox src dst .max).apply src.min).y ≤ dst.min.y ∧ dst.max.y ≤ ((Fit.fitBox src dst .max).apply src.max).y := by
  rw [fitBox_apply, fitBox_apply]
  simp only [Fit.pickScale, sc_max]
  have ex : Fit.width dst / Fit.width src * Fit.width src = Fit.width dst := div_mul_cancel₀ _ (ne_of_gt hw)
  have ey : Fit.height dst / Fit.height src * Fit.height src = Fit.height dst := div_mul_cancel₀ _ (ne_of_gt hh)
  have m1 := mul_le_mul_of_nonneg_right (le_max_left (Fit.width dst / Fit.width src) (Fit.height dst / Fit.height src)) (le_of_lt hw)
  have m2 := mul_le_mul_of_nonneg_right (le_max_right (Fit.width dst / Fit.width src) (Fit.height dst / Fit.height src)) (le_of_lt hh)
  simp only [Fit.width, Fit.height] at ex ey m1 m2 hw hh ⊢
  refine ⟨?_, ?_, ?_, ?_⟩ <;> nlinarith

/-- `Horizontal` / `Vertical` match the destination's width resp. height exactly -/
theorem fit_box_horizontal_vertical (src dst : Box K) (hw : Fit.width src ≠ 0) (hh : Fit.height src ≠ 0) :
    (((Fit.fitBox src dst .horizontal).apply src.min).x = dst.min.x ∧
     ((Fit.fitBox src dst .horizontal).apply src.max).x = dst.max.x) ∧
    (((Fit.fitBox src dst .vertical).apply src.min).y = dst.min.y ∧
     ((Fit.fitBox src dst .vertical).apply src.max).y = dst.max.y) := by
  rw [fitBox_apply, fitBox_apply, fitBox_apply, fitBox_apply]
  simp only [Fit.pickScale, Fit.width, Fit.height] at hw hh ⊢
  refine ⟨⟨?_, ?_⟩, ⟨?_, ?_⟩⟩ <;> field_simp <;> ring




/-! ## Paths: `lyon_algorithms::aabb` -/


section aabb

variable [Transc K]

/-- **`aabb::bounding_box` is the join of the event boxes** (before the empty-path test) … -/
theorem aabb_fold (b0 : Box K) (evs : List (PEv K)) :
    evs.foldl Aabb.tightStep b0 = (evs.filterMap tightBox).foldl boxJoin b0 := by
  induction evs generalizing b0 with
  | nil => rfl
  | cons e r ih =>
    rw [List.foldl_cons, ih, tightStep_eq]
    cases h : tightBox e <;> simp [List.filterMap_cons, h]

/-- … **and does not depend on the order of the events.** -/
theorem aabb_fold_perm (b0 : Box K) (l1 l2 : List (PEv K)) (h : l1.Perm l2) :
    l1.foldl Aabb.tightStep b0 = l2.foldl Aabb.tightStep b0 := by
  rw [aabb_fold, aabb_fold]
  exact (h.filterMap tightBox).foldl_eq' (fun x _ y _ z => join_right_comm z x y) b0

/-- **The path box contains every point of every segment.**  For every quadratic and cubic event
of the path and every `t ∈ [0,1]` the sampled point lies in `aabb::bounding_box`, and every
`begin`/`line_to` endpoint does (so every line segment does: boxes are convex).
Hypothesis `hne`: the accumulated minimum is not the sentinel `(MAX, MAX)` — lyon returns the zero
box in that case.  `aabb_box_contains` below discharges `hne` for every path whose coordinates
are below the sentinel. -/
theorem aabb_box_contains_of_not_sentinel (hsq : ∀ d : K, 0 ≤ d → Transc.sqrt d * Transc.sqrt d = d)
    (hs0 : ∀ d : K, 0 ≤ d → 0 ≤ Transc.sqrt d) (big : K) (evs : List (PEv K))
    (hne : ¬ ((evs.foldl Aabb.tightStep (Aabb.start big)).min == (⟨big, big⟩ : P K)) = true) :
    (∀ f c p, PEv.quad f c p ∈ evs → ∀ t, 0 ≤ t → t ≤ 1 →
      Box.Contains (Aabb.boundingBox big evs) (Quad.sample ⟨f, c, p⟩ t)) ∧
    (∀ f c1 c2 p, PEv.cubic f c1 c2 p ∈ evs → ∀ t, 0 ≤ t → t ≤ 1 →
      Box.Contains (Aabb.boundingBox big evs) (Cubic.sample ⟨f, c1, c2, p⟩ t)) ∧
    (∀ p, PEv.begin p ∈ evs → Box.Contains (Aabb.boundingBox big evs) p) ∧
    (∀ f p, PEv.line f p ∈ evs → Box.Contains (Aabb.boundingBox big evs) p) := by
  have hb : Aabb.boundingBox big evs = (evs.filterMap tightBox).foldl boxJoin (Aabb.start big) := by
    unfold Aabb.boundingBox Aabb.finish
    rw [if_neg hne, aabb_fold]
  have hin : ∀ e ∈ evs, ∀ x, tightBox e = some x → Box.Inside x (Aabb.boundingBox big evs) := by
    intro e he x hx
    rw [hb]
    exact (foldl_join_inside _ _).2 x (List.mem_filterMap.2 ⟨e, he, hx⟩)
  refine ⟨?_, ?_, ?_, ?_⟩
  · intro f c p he t h0 h1
    exact contains_mono (hin _ he _ rfl) (quad_box_contains ⟨f, c, p⟩ t h0 h1)
  · intro f c1 c2 p he t h0 h1
    exact contains_mono (hin _ he _ rfl) (cubic_box_contains hsq hs0 ⟨f, c1, c2, p⟩ t h0 h1)
  · intro p he
    exact contains_mono (hin _ he ⟨p, p⟩ rfl) ⟨le_refl _, le_refl _, le_refl _, le_refl _⟩
  · intro f p he
    exact contains_mono (hin _ he ⟨p, p⟩ rfl) ⟨le_refl _, le_refl _, le_refl _, le_refl _⟩

/-- the invariant behind `aabb_fast_contains_exact` -/
theorem aabb_fast_inv (evs : List (PEv K)) : ∀ (T F : Box K) (cur : Option (P K)),
    Box.Inside T F → (∀ q, cur = some q → Box.Contains F q) → WellFormed cur evs →
    Box.Inside (evs.foldl Aabb.tightStep T) (evs.foldl Aabb.fastStep F) := by
  induction evs with
  | nil => intro T F cur h _ _; exact h
  | cons e r ih =>
    intro T F cur hTF hcur hw
    rw [List.foldl_cons, List.foldl_cons]
    have pt : ∀ p : P K, Box.Inside ⟨T.min.pmin p, T.max.pmax p⟩ ⟨F.min.pmin p, F.max.pmax p⟩ ∧
        Box.Contains (⟨F.min.pmin p, F.max.pmax p⟩ : Box K) p := by
      intro p
      simp only [Box.Inside, Box.Contains, P.pmin, P.pmax, emin_eq, emax_eq]
      exact ⟨⟨min_le_min_right _ hTF.1, max_le_max_right _ hTF.2.1, min_le_min_right _ hTF.2.2.1,
        max_le_max_right _ hTF.2.2.2⟩, min_le_right _ _, le_max_right _ _, min_le_right _ _, le_max_right _ _⟩
    cases e with
    | begin p =>
      exact ih _ _ (some p) (pt p).1 (fun q hq => by cases hq; exact (pt p).2) hw
    | end_ => exact ih _ _ cur hTF hcur hw
    | line f p =>
      cases cur with
      | none => exact absurd hw (by simp [WellFormed])
      | some q => exact ih _ _ (some p) (pt p).1 (fun q' hq => by cases hq; exact (pt p).2) hw.2
    | quad f c p =>
      cases cur with
      | none => exact absurd hw (by simp [WellFormed])
      | some q =>
        obtain ⟨hf, hw'⟩ := hw
        have hq := hcur q rfl
        rw [← hf] at hq
        have hfe := quad_fast_contains_exact (⟨f, c, p⟩ : Quad K)
        simp only [Box.Inside, Quad.fastBoundingBox, Quad.fastBoundingRangeX, Quad.fastBoundingRangeY,
          Quad1.fastRange, Box.ofRanges, sc_min, sc_max] at hfe
        apply ih _ _ (some p) _ _ hw'
        · simp only [Aabb.tightStep, Aabb.fastStep, Box.Inside, P.pmin, P.pmax, emin_eq, emax_eq]
          refine ⟨le_min (le_trans (min_le_left _ _) hTF.1) (le_trans ?_ hfe.1),
            max_le (le_trans hTF.2.1 (le_max_left _ _)) (le_trans hfe.2.1 ?_),
            le_min (le_trans (min_le_left _ _) hTF.2.2.1) (le_trans ?_ hfe.2.2.1),
            max_le (le_trans hTF.2.2.2 (le_max_left _ _)) (le_trans hfe.2.2.2 ?_)⟩
          · exact le_min (le_min (le_trans (min_le_left _ _) hq.1) (le_trans (min_le_right _ _) (min_le_left _ _)))
              (le_trans (min_le_right _ _) (min_le_right _ _))
          · exact max_le (max_le (le_trans hq.2.1 (le_max_left _ _)) (le_trans (le_max_left _ _) (le_max_right _ _)))
              (le_trans (le_max_right _ _) (le_max_right _ _))
          · exact le_min (le_min (le_trans (min_le_left _ _) hq.2.2.1) (le_trans (min_le_right _ _) (min_le_left _ _)))
              (le_trans (min_le_right _ _) (min_le_right _ _))
          · exact max_le (max_le (le_trans hq.2.2.2 (le_max_left _ _)) (le_trans (le_max_left _ _) (le_max_right _ _)))
              (le_trans (le_max_right _ _) (le_max_right _ _))
        · intro q' hq'; cases hq'
          simp only [Aabb.fastStep, Box.Contains, P.pmin, P.pmax, emin_eq, emax_eq]
          exact ⟨le_trans (min_le_right _ _) (min_le_right _ _), le_trans (le_max_right _ _) (le_max_right _ _),
            le_trans (min_le_right _ _) (min_le_right _ _), le_trans (le_max_right _ _) (le_max_right _ _)⟩
    | cubic f c1 c2 p =>
      cases cur with
      | none => exact absurd hw (by simp [WellFormed])
      | some q =>
        obtain ⟨hf, hw'⟩ := hw
        have hq := hcur q rfl
        rw [← hf] at hq
        have hfe := cubic_fast_contains_exact (⟨f, c1, c2, p⟩ : Cubic K)
        simp only [Box.Inside, Cubic.fastBoundingBox, Cubic.fastBoundingRangeX, Cubic.fastBoundingRangeY,
          Cubic1.fastRange, Box.ofRanges, sc_min, sc_max] at hfe
        apply ih _ _ (some p) _ _ hw'
        · simp only [Aabb.tightStep, Aabb.fastStep, Box.Inside, P.pmin, P.pmax, emin_eq, emax_eq]
          refine ⟨le_min (le_trans (min_le_left _ _) hTF.1) (le_trans ?_ hfe.1),
            max_le (le_trans hTF.2.1 (le_max_left _ _)) (le_trans hfe.2.1 ?_),
            le_min (le_trans (min_le_left _ _) hTF.2.2.1) (le_trans ?_ hfe.2.2.1),
            max_le (le_trans hTF.2.2.2 (le_max_left _ _)) (le_trans hfe.2.2.2 ?_)⟩
          · exact le_min (le_min (le_min (le_trans (min_le_left _ _) hq.1)
                (le_trans (min_le_right _ _) (min_le_left _ _)))
              (le_trans (min_le_right _ _) (le_trans (min_le_right _ _) (min_le_left _ _))))
              (le_trans (min_le_right _ _) (le_trans (min_le_right _ _) (min_le_right _ _)))
          · exact max_le (max_le (max_le (le_trans hq.2.1 (le_max_left _ _))
                (le_trans (le_max_left _ _) (le_max_right _ _)))
              (le_trans (le_trans (le_max_left _ _) (le_max_right _ _)) (le_max_right _ _)))
              (le_trans (le_trans (le_max_right _ _) (le_max_right _ _)) (le_max_right _ _))
          · exact le_min (le_min (le_min (le_trans (min_le_left _ _) hq.2.2.1)
                (le_trans (min_le_right _ _) (min_le_left _ _)))
              (le_trans (min_le_right _ _) (le_trans (min_le_right _ _) (min_le_left _ _))))
              (le_trans (min_le_right _ _) (le_trans (min_le_right _ _) (min_le_right _ _)))
          · exact max_le (max_le (max_le (le_trans hq.2.2.2 (le_max_left _ _))
                (le_trans (le_max_left _ _) (le_max_right _ _)))
              (le_trans (le_trans (le_max_left _ _) (le_max_right _ _)) (le_max_right _ _)))
              (le_trans (le_trans (le_max_right _ _) (le_max_right _ _)) (le_max_right _ _))
        · intro q' hq'; cases hq'
          simp only [Aabb.fastStep, Box.Contains, P.pmin, P.pmax, emin_eq, emax_eq]
          exact ⟨le_trans (min_le_right _ _) (le_trans (min_le_right _ _) (min_le_right _ _)),
            le_trans (le_trans (le_max_right _ _) (le_max_right _ _)) (le_max_right _ _),
            le_trans (min_le_right _ _) (le_trans (min_le_right _ _) (min_le_right _ _)),
            le_trans (le_trans (le_max_right _ _) (le_max_right _ _)) (le_max_right _ _)⟩

/-- **Path level: fast ⊇ exact.**  For an event list as `Path::iter` yields it (every segment
starts at the current point), the accumulated `aabb::fast_bounding_box` contains the accumulated
`aabb::bounding_box`; `fast_bounding_box` never looks at `from`, it relies on the previous event
having contributed it. -/
theorem aabb_fast_contains_exact (big : K) (evs : List (PEv K)) (hw : WellFormed none evs) :
    Box.Inside (evs.foldl Aabb.tightStep (Aabb.start big)) (evs.foldl Aabb.fastStep (Aabb.start big)) :=
  aabb_fast_inv evs _ _ none (inside_refl _) (fun q hq => by cases hq) hw

/-- the point an event ends at -/
def endPoint : PEv K → Option (P K)
  | .begin p => some p
  | .line _ p => some p
  | .quad _ _ p => some p
  | .cubic _ _ _ p => some p
  | .end_ => none

/-- an event's box reaches at least as far left as the event's end point -/
theorem tightBox_min_le_end (e : PEv K) (x : Box K) (p : P K)
    (hx : tightBox e = some x) (hp : endPoint e = some p) : x.min.x ≤ p.x := by
  cases e with
  | begin q => cases hx; cases hp; exact le_refl _
  | line f q => cases hx; cases hp; exact le_refl _
  | end_ => cases hp
  | quad f c q =>
    cases hx; cases hp
    have := (q1_minT f.x c.x p.x).2 1 (by norm_num) (le_refl _)
    rw [q1_ev1] at this
    exact this
  | cubic f c1 c2 q =>
    cases hx; cases hp
    have := ((c1_range_partial f.x c1.x c2.x p.x).2.2 1 (Or.inr (Or.inl rfl))).1
    rw [c1_ev1] at this
    exact this

/-- **What the code returns for the empty path**: the zero box. -/
theorem aabb_empty (big : K) :
    Aabb.boundingBox big [] = ⟨⟨0, 0⟩, ⟨0, 0⟩⟩ ∧ Aabb.fastBoundingBox big [] = ⟨⟨0, 0⟩, ⟨0, 0⟩⟩ := by
  have h : ((⟨big, big⟩ : P K) == (⟨big, big⟩ : P K)) = true := by
    show P.beq _ _ = true
    simp [P.beq, sc_beq]
  constructor <;>
    simp only [Aabb.boundingBox, Aabb.fastBoundingBox, List.foldl_nil, Aabb.finish, Aabb.start, h, if_true,
      Scalar.zero, sc_zero]

/-- a path with a contributing event whose end point is left of `big` does not hit the sentinel test -/
theorem aabb_not_sentinel (big : K) (evs : List (PEv K)) (e : PEv K) (he : e ∈ evs) (x : Box K) (p : P K)
    (hx : tightBox e = some x) (hp : endPoint e = some p) (hlt : p.x < big) :
    ¬ ((evs.foldl Aabb.tightStep (Aabb.start big)).min == (⟨big, big⟩ : P K)) = true := by
  intro hc
  have hin : Box.Inside x ((evs.filterMap tightBox).foldl boxJoin (Aabb.start big)) :=
    (foldl_join_inside _ _).2 x (List.mem_filterMap.2 ⟨e, he, hx⟩)
  rw [← aabb_fold] at hin
  have h1 := hin.1
  have h2 := tightBox_min_le_end e x p hx hp
  have hb : (evs.foldl Aabb.tightStep (Aabb.start big)).min.x = big := by
    have : P.beq (evs.foldl Aabb.tightStep (Aabb.start big)).min ⟨big, big⟩ = true := hc
    simp only [P.beq, Bool.and_eq_true, sc_beq] at this
    exact this.1
  linarith

/-- **The path box contains every point of every segment — for every path** whose coordinates
are below the start sentinel `big` (`f32::MAX` in lyon; `hfin` asks it of the end points only).
The statement is about paths with at least one event by its form (it speaks of events of the
path); the empty path gets the zero box (`aabb_empty`). -/
theorem aabb_box_contains (hsq : ∀ d : K, 0 ≤ d → Transc.sqrt d * Transc.sqrt d = d)
    (hs0 : ∀ d : K, 0 ≤ d → 0 ≤ Transc.sqrt d) (big : K) (evs : List (PEv K))
    (hfin : ∀ e ∈ evs, ∀ p, endPoint e = some p → p.x < big) :
    (∀ f c p, PEv.quad f c p ∈ evs → ∀ t, 0 ≤ t → t ≤ 1 →
      Box.Contains (Aabb.boundingBox big evs) (Quad.sample ⟨f, c, p⟩ t)) ∧
    (∀ f c1 c2 p, PEv.cubic f c1 c2 p ∈ evs → ∀ t, 0 ≤ t → t ≤ 1 →
      Box.Contains (Aabb.boundingBox big evs) (Cubic.sample ⟨f, c1, c2, p⟩ t)) ∧
    (∀ p, PEv.begin p ∈ evs → Box.Contains (Aabb.boundingBox big evs) p) ∧
    (∀ f p, PEv.line f p ∈ evs → Box.Contains (Aabb.boundingBox big evs) p) := by
  refine ⟨?_, ?_, ?_, ?_⟩
  · intro f c p he
    exact (aabb_box_contains_of_not_sentinel hsq hs0 big evs
      (aabb_not_sentinel big evs _ he _ p rfl rfl (hfin _ he p rfl))).1 f c p he
  · intro f c1 c2 p he
    exact (aabb_box_contains_of_not_sentinel hsq hs0 big evs
      (aabb_not_sentinel big evs _ he _ p rfl rfl (hfin _ he p rfl))).2.1 f c1 c2 p he
  · intro p he
    exact (aabb_box_contains_of_not_sentinel hsq hs0 big evs
      (aabb_not_sentinel big evs _ he _ p rfl rfl (hfin _ he p rfl))).2.2.1 p he
  · intro f p he
    exact (aabb_box_contains_of_not_sentinel hsq hs0 big evs
      (aabb_not_sentinel big evs _ he _ p rfl rfl (hfin _ he p rfl))).2.2.2 f p he


/-- **`fit_path` puts the whole path inside the destination box** (`Stretch`, `Min`): every event
of the fitted path is the transformed event, and every point of every fitted segment lies in
`dst` — the path box contains the source points (`aabb_box_contains`), `fit_box` maps that box
into `dst`, and an affine map commutes with Bézier evaluation. -/
theorem fit_path_inside_dst (hsq : ∀ d : K, 0 ≤ d → Transc.sqrt d * Transc.sqrt d = d)
    (hs0 : ∀ d : K, 0 ≤ d → 0 ≤ Transc.sqrt d) (big : K) (evs : List (PEv K)) (dst : Box K)
    (style : FitStyle) (hst : style = .stretch ∨ style = .min)
    (hfin : ∀ e ∈ evs, ∀ p, endPoint e = some p → p.x < big)
    (hw : 0 < Fit.width (Aabb.boundingBox big evs)) (hh : 0 < Fit.height (Aabb.boundingBox big evs))
    (hdw : 0 ≤ Fit.width dst) (hdh : 0 ≤ Fit.height dst) :
    (∀ e ∈ evs, Fit.mapEv (Fit.fitBox (Aabb.boundingBox big evs) dst style) e ∈ Fit.fitPath big evs dst style) ∧
    (∀ f c p, PEv.quad f c p ∈ evs → ∀ t, 0 ≤ t → t ≤ 1 → Box.Contains dst
      (((⟨f, c, p⟩ : Quad K).transformed (Fit.fitBox (Aabb.boundingBox big evs) dst style)).sample t)) ∧
    (∀ f c1 c2 p, PEv.cubic f c1 c2 p ∈ evs → ∀ t, 0 ≤ t → t ≤ 1 → Box.Contains dst
      (((⟨f, c1, c2, p⟩ : Cubic K).transformed (Fit.fitBox (Aabb.boundingBox big evs) dst style)).sample t)) ∧
    (∀ p, PEv.begin p ∈ evs → Box.Contains dst ((Fit.fitBox (Aabb.boundingBox big evs) dst style).apply p)) ∧
    (∀ f p, PEv.line f p ∈ evs → Box.Contains dst ((Fit.fitBox (Aabb.boundingBox big evs) dst style).apply p)) := by
  obtain ⟨cq, cc, cb, cl⟩ := aabb_box_contains hsq hs0 big evs hfin
  have into := fit_box_maps_src_into_dst (Aabb.boundingBox big evs) dst style hst hw hh hdw hdh
  refine ⟨fun e he => List.mem_map_of_mem he, ?_, ?_, fun p he => into p (cb p he), fun f p he => into p (cl f p he)⟩
  · intro f c p he t h0 h1
    have e : ((⟨f, c, p⟩ : Quad K).transformed (Fit.fitBox (Aabb.boundingBox big evs) dst style)).sample t =
        (Fit.fitBox (Aabb.boundingBox big evs) dst style).apply ((⟨f, c, p⟩ : Quad K).sample t) := by geom_ring
    rw [e]; exact into _ (cq f c p he t h0 h1)
  · intro f c1 c2 p he t h0 h1
    have e : ((⟨f, c1, c2, p⟩ : Cubic K).transformed (Fit.fitBox (Aabb.boundingBox big evs) dst style)).sample t =
        (Fit.fitBox (Aabb.boundingBox big evs) dst style).apply ((⟨f, c1, c2, p⟩ : Cubic K).sample t) := by geom_ring
    rw [e]; exact into _ (cc f c1 c2 p he t h0 h1)


end aabb


/-! ## Non-vacuity: concrete instances satisfying the hypotheses used above -/


/-- `quad_box_contains` etc.: a parameter in range -/
example : (0:ℚ) ≤ 1/3 ∧ (1/3:ℚ) ≤ 1 := by norm_num

/-- a quadratic with a reported interior x-extremum: `(0,0) (2,1) (1,0)` has `local_x_extremum_t = 2/3` -/
example : Quad.localXExtremumT (⟨⟨0, 0⟩, ⟨2, 1⟩, ⟨1, 0⟩⟩ : Quad ℚ) = some (2/3) := by
  show Quad1.localExt (0:ℚ) 2 1 = some (2/3)
  rw [q1_localExt_some]; norm_num

/-- `AngleLaws` holds for the toy `Transc ℚ` (π := 22/7, `fmod x y := x − y⌊x/y⌋`), so the arc
theorems are not vacuous -/
example : @AngleLaws ℚ _ _ _ toyTransc := by
  letI := toyTransc
  have hτ : (0:ℚ) < 22/7 + 22/7 := by norm_num
  have hpos : ∀ x : ℚ, @Arc.positive ℚ _ toyTransc x = x - (22/7 + 22/7) * (⌊x / (22/7 + 22/7)⌋ : ℚ) ∧
      0 ≤ x - (22/7 + 22/7) * (⌊x / (22/7 + 22/7)⌋ : ℚ) ∧
      x - (22/7 + 22/7) * (⌊x / (22/7 + 22/7)⌋ : ℚ) < 22/7 + 22/7 := by
    intro x
    have h1 : ((⌊x / (22/7 + 22/7)⌋ : ℤ) : ℚ) ≤ x / (22/7 + 22/7) := Int.floor_le _
    have h2 : x / (22/7 + 22/7) < (⌊x / (22/7 + 22/7)⌋ : ℚ) + 1 := Int.lt_floor_add_one _
    rw [le_div_iff₀ hτ] at h1
    rw [div_lt_iff₀ hτ] at h2
    have nn : 0 ≤ x - (22/7 + 22/7) * (⌊x / (22/7 + 22/7)⌋ : ℚ) := by linarith
    refine ⟨?_, nn, by linarith⟩
    show (if Transc.fmod x (Transc.pi + Transc.pi) < Scalar.zero then _ else _) = _
    have : ¬ (Transc.fmod x (Transc.pi + Transc.pi) < (Scalar.zero : ℚ)) := by
      show ¬ (x - (22/7 + 22/7) * (⌊x / (22/7 + 22/7)⌋ : ℚ) < ((0 : ℕ) : ℚ))
      rw [Nat.cast_zero, not_lt]; exact nn
    rw [if_neg this]; rfl
  refine ⟨by show (3:ℚ) < 22/7; norm_num, by show (22/7:ℚ) < 4; norm_num, fun x => ?_, fun x => ?_⟩
  · exact ⟨(hpos x).1 ▸ (hpos x).2.1, (hpos x).1 ▸ (hpos x).2.2⟩
  · refine ⟨-⌊x / (22/7 + 22/7)⌋, ?_⟩
    rw [(hpos x).1]
    show _ = x + ((-⌊x / (22/7 + 22/7)⌋ : ℤ) : ℚ) * (22/7 + 22/7)
    push_cast; ring

/-- a `Transc ℝ` whose `sqrt` is the real square root (everything else is irrelevant here) -/
noncomputable def realSqrtTransc : Transc ℝ where
  sqrt := Real.sqrt
  cbrt := fun _ => 0
  sin := fun _ => 0
  cos := fun _ => 0
  tan := fun _ => 0
  acos := fun _ => 0
  atan2 := fun _ _ => 0
  pow := fun _ _ => 0
  log2 := fun _ => 0
  ln := fun _ => 0
  floor := fun x => x
  ceil := fun x => x
  toNat := fun _ => 0
  fmod := fun x _ => x
  eps := 0
  pi := 0
  isNaN := fun _ => false
  isFinite := fun _ => true

/-- the two `sqrt` laws assumed by the cubic theorems hold for the real square root -/
example : (∀ d : ℝ, 0 ≤ d → realSqrtTransc.sqrt d * realSqrtTransc.sqrt d = d) ∧
    (∀ d : ℝ, 0 ≤ d → 0 ≤ realSqrtTransc.sqrt d) :=
  ⟨fun _ h => Real.mul_self_sqrt h, fun d _ => Real.sqrt_nonneg d⟩

/-- **`cubic_box_contains` over ℝ**: the two `sqrt` laws are discharged by `Real.sqrt`, so the
exact box of every real cubic contains the curve, with no hypothesis left -/
theorem cubic_box_contains_real (c : @Cubic ℝ) (t : ℝ) (h0 : 0 ≤ t) (h1 : t ≤ 1) :
    Box.Contains (@Cubic.boundingBox ℝ _ realSqrtTransc c) (c.sample t) :=
  @cubic_box_contains ℝ _ _ _ realSqrtTransc (fun _ h => Real.mul_self_sqrt h) (fun d _ => Real.sqrt_nonneg d) c t h0 h1


/-- a cubic coordinate whose derivative is not identically zero (side condition of `cubic_critical_roots`) -/
example : Cubic1.ca (0:ℚ) 3 (-2) 1 ≠ 0 ∨ Cubic1.cb (0:ℚ) 3 (-2) ≠ 0 := by
  left; rw [c1_ca]; norm_num

/-- `cubic_root_form`: `a = 1, b = -3, c = 2` (roots 1 and 2), `s = 1` -/
example : (1:ℚ) ≠ 0 ∧ (1:ℚ) * 1 = (-3) * (-3) - 4 * 1 * 2 ∧ (0:ℚ) < 1 := by norm_num

/-- arcs of both sweep signs within one turn, and a parameter in range (`arc_extremum_params`) -/
example : (2:ℚ) ≠ 0 ∧ |(2:ℚ)| ≤ 22/7 + 22/7 ∧ (-2:ℚ) ≠ 0 ∧ |(-2:ℚ)| ≤ 22/7 + 22/7 ∧ (0:ℚ) < 1/4 ∧ (1/4:ℚ) < 1 := by
  refine ⟨by norm_num, ?_, by norm_num, ?_, by norm_num, by norm_num⟩
  · rw [abs_of_pos (by norm_num)]; norm_num
  · rw [abs_of_neg (by norm_num)]; norm_num

/-- a well-formed event list (`aabb_fast_contains_exact`) -/
example : WellFormed (K := ℚ) none
    [PEv.begin ⟨0, 0⟩, PEv.line ⟨0, 0⟩ ⟨1, 0⟩, PEv.quad ⟨1, 0⟩ ⟨2, 1⟩ ⟨1, 2⟩, PEv.end_] := by
  simp [WellFormed]

end Lyon.C11
