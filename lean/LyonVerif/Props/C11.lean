import LyonVerif.Model.Geom.Extrema
import LyonVerif.Lemmas.Field

namespace Lyon.C11
theorem stub : True := trivial
end Lyon.C11
