/-
  C11 — bounding boxes and extrema are conservative and tight; monotone splits hold.

  All statements are about the model functions of `Model/Geom/Extrema.lean` (the same `def`s the
  correspondence check runs at `Float32`/`Float` against lyon) instantiated at an arbitrary linearly
  ordered field `K`.  `sqrt`, `sin`, `cos`, `tan`, `atan`, `fmod`, `π` are parameters; the laws used
  are hypotheses of the theorems that use them.

  Full strength (every control polygon, every `t ∈ [0,1]`):
    quadratics — exact box contains the curve and is touched on all four sides at the reported
      parameters (which lie in [0,1] and are extremal); reported local extrema are exactly the
      interior critical points; fast ⊇ exact ⊇ curve; monotone ranges partition [0,1]; every piece
      is monotone in x and y; the control-point clamp is the identity, so the pieces retrace the curve;
    cubics — fast box contains the curve; emitted parameters are exactly the roots of the
      derivative in (0,1) (sqrt laws as hypotheses), in increasing order; the ranges partition [0,1];
    lines, triangles — box contains / is the hull; paths — `aabb` fold = join of the event boxes.

  `_partial` / `_witness` (genuine lyon defects, see findings.d/C11.json):
    arc extremum parameters: true for positive sweeps (`arc_extremum_params_pos_partial`,
      `…_complete_partial`), false for negative ones (`arc_extremum_params_neg_witness`,
      `arc_box_neg_sweep_witness`);
    arc fast box: true without rotation (`arc_fast_box_contains_partial`), false with rotation off
      the origin (`arc_fast_box_witness`);
    cubic monotone pieces: the clamp changes a monotone cubic (`cubic_clamp_distorts_witness`).
  A fourth finding has no field-level witness because the algorithm is right in exact arithmetic
  (`cubic_critical_roots`): the quadratic formula in `for_each_local_extremum` cancels in floating
  point when the derivative's leading coefficient is tiny (`C11-cubic-extremum-cancellation`); it
  is visible to the oracle on the real implementation and reproduced bit-for-bit by the model.

  Not theorems (oracle only, named gaps): anything about IEEE rounding; the exact cubic box
  containing the curve *between* critical points (`cubic_box_partial` covers ends, critical
  points, parameters in range, attainment); the exact arc box for positive sweeps (needs the
  characterisation of the ellipse's extremal angles through tan/atan).
-/
import LyonVerif.Model.Geom.Extrema
import LyonVerif.Lemmas.Field
import LyonVerif.Lemmas.Extrema
import Mathlib.Tactic.NormNum
import Mathlib.Data.Rat.Floor

set_option linter.unusedSectionVars false
set_option linter.unusedVariables false
set_option linter.unusedSimpArgs false
set_option linter.style.haveILetI false
set_option warn.classDefReducibility false


namespace Lyon.C11

open Lyon


variable {K : Type} [Field K] [LinearOrder K] [IsStrictOrderedRing K]


/-! ## Quadratic Bézier segments: the property's statements -/


/-- **Conservative.** The exact bounding box contains every point of the curve (`t ∈ [0,1]`). -/
theorem quad_box_contains (q : Quad K) (t : K) (h0 : 0 ≤ t) (h1 : t ≤ 1) :
    Box.Contains q.boundingBox (q.sample t) := by
  unfold Box.Contains
  rw [quad_sample_x, quad_sample_y]
  have hx := q1_range_contains q.a.x q.c.x q.b.x t h0 h1
  have hy := q1_range_contains q.a.y q.c.y q.b.y t h0 h1
  exact ⟨hx.1, hx.2, hy.1, hy.2⟩


/-- **Tight.** Each of the four sides of the exact box is touched by the curve, at the reported
extremum parameters, which lie in `[0,1]`. -/
theorem quad_box_touched (q : Quad K) :
    (0 ≤ q.xMinimumT ∧ q.xMinimumT ≤ 1 ∧ (q.sample q.xMinimumT).x = q.boundingBox.min.x) ∧
    (0 ≤ q.xMaximumT ∧ q.xMaximumT ≤ 1 ∧ (q.sample q.xMaximumT).x = q.boundingBox.max.x) ∧
    (0 ≤ q.yMinimumT ∧ q.yMinimumT ≤ 1 ∧ (q.sample q.yMinimumT).y = q.boundingBox.min.y) ∧
    (0 ≤ q.yMaximumT ∧ q.yMaximumT ≤ 1 ∧ (q.sample q.yMaximumT).y = q.boundingBox.max.y) := by
  refine ⟨⟨(q1_minT _ _ _).1.1, (q1_minT _ _ _).1.2, ?_⟩, ⟨(q1_maxT _ _ _).1.1, (q1_maxT _ _ _).1.2, ?_⟩,
    ⟨(q1_minT _ _ _).1.1, (q1_minT _ _ _).1.2, ?_⟩, ⟨(q1_maxT _ _ _).1.1, (q1_maxT _ _ _).1.2, ?_⟩⟩
  · rw [quad_sample_x]; rfl
  · rw [quad_sample_x]; rfl
  · rw [quad_sample_y]; rfl
  · rw [quad_sample_y]; rfl


/-- **Extremum parameters are where the coordinate is extremal** over the whole of `[0,1]`. -/
theorem quad_extremum_params_extremal (q : Quad K) (t : K) (h0 : 0 ≤ t) (h1 : t ≤ 1) :
    q.x q.xMinimumT ≤ q.x t ∧ q.x t ≤ q.x q.xMaximumT ∧
    q.y q.yMinimumT ≤ q.y t ∧ q.y t ≤ q.y q.yMaximumT :=
  ⟨(q1_minT _ _ _).2 t h0 h1, (q1_maxT _ _ _).2 t h0 h1, (q1_minT _ _ _).2 t h0 h1, (q1_maxT _ _ _).2 t h0 h1⟩


/-- a reported local extremum is an interior critical point of its coordinate -/
theorem quad_extremum_is_critical (q : Quad K) (t : K) :
    (q.localXExtremumT = some t → 0 < t ∧ t < 1 ∧ q.dx t = 0) ∧
    (q.localYExtremumT = some t → 0 < t ∧ t < 1 ∧ q.dy t = 0) := by
  constructor <;> intro h
  · obtain ⟨_, e, p0, p1⟩ := q1_localExt_facts h
    refine ⟨p0, p1, ?_⟩; rw [quad_dx_eq]; unfold qd; linear_combination 2 * e
  · obtain ⟨_, e, p0, p1⟩ := q1_localExt_facts h
    refine ⟨p0, p1, ?_⟩; rw [quad_dy_eq]; unfold qd; linear_combination 2 * e


/-- conversely every interior critical point of a genuinely quadratic coordinate is reported -/
theorem quad_critical_is_reported (q : Quad K) (t : K) (h0 : 0 < t) (h1 : t < 1) :
    (q.a.x - 2 * q.c.x + q.b.x ≠ 0 → q.dx t = 0 → q.localXExtremumT = some t) ∧
    (q.a.y - 2 * q.c.y + q.b.y ≠ 0 → q.dy t = 0 → q.localYExtremumT = some t) := by
  constructor <;> intro hD hd
  · rw [quad_dx_eq] at hd; unfold qd at hd
    exact (q1_localExt_some _ _ _ _).2 ⟨hD, eq_div_of_mul_eq hD (by linear_combination (1/2 : K) * hd), h0, h1⟩
  · rw [quad_dy_eq] at hd; unfold qd at hd
    exact (q1_localExt_some _ _ _ _).2 ⟨hD, eq_div_of_mul_eq hD (by linear_combination (1/2 : K) * hd), h0, h1⟩


/-- the fast box (hull of the control points) contains the curve -/
theorem quad_fast_box_contains (q : Quad K) (t : K) (h0 : 0 ≤ t) (h1 : t ≤ 1) :
    Box.Contains q.fastBoundingBox (q.sample t) := by
  unfold Box.Contains
  rw [quad_sample_x, quad_sample_y]
  have hx := q1_fast_range_contains q.a.x q.c.x q.b.x t h0 h1
  have hy := q1_fast_range_contains q.a.y q.c.y q.b.y t h0 h1
  exact ⟨hx.1, hx.2, hy.1, hy.2⟩


/-- **fast ⊇ exact** -/
theorem quad_fast_contains_exact (q : Quad K) : Box.Inside q.boundingBox q.fastBoundingBox :=
  ⟨(q1_fast_contains_exact _ _ _).1, (q1_fast_contains_exact _ _ _).2,
   (q1_fast_contains_exact _ _ _).1, (q1_fast_contains_exact _ _ _).2⟩


/-- **Monotone ranges partition `[0,1]`**: they abut, in order, from 0 to 1, each of positive length. -/
theorem quad_monotone_ranges_partition (q : Quad K) : Chain 0 q.monotonicRanges 1 := by
  obtain ⟨t0, t1, e, h0, h1, ho, _⟩ := quad_ranges_eq q
  rw [e]; exact (monoRangesOf_spec t0 t1 h0 h1 ho).1


/-- **Each piece is monotone**: on every reported range both `x` and `y` are monotone. -/
theorem quad_monotone_piece_monotone (q : Quad K) : ∀ r ∈ q.monotonicRanges,
    MonoOn q.x r.1 r.2 ∧ MonoOn q.y r.1 r.2 := by
  intro r hr
  obtain ⟨a0, a1, a2, gx, gy⟩ := quad_ranges_good q r hr
  exact ⟨q1_mono a0 (le_of_lt a1) a2 gx, q1_mono a0 (le_of_lt a1) a2 gy⟩


/-- **The control-point clamp is the identity** on the reported ranges (exact arithmetic): the
pieces handed out by `for_each_monotonic` are exactly `split_range` of the reported ranges. -/
theorem quad_clamp_noop (q : Quad K) :
    q.monotonicPieces = q.monotonicRanges.map (fun r => q.splitRange r.1 r.2) := by
  unfold Quad.monotonicPieces
  apply List.map_congr_left
  intro r hr
  obtain ⟨a0, a1, a2, gx, gy⟩ := quad_ranges_good q r hr
  obtain ⟨ea, eb, ecx, ecy⟩ := quad_splitRange_ctrl q r.1 r.2
  have hx := q1_clamp_noop a0 (le_of_lt a1) a2 gx
  have hy := q1_clamp_noop a0 (le_of_lt a1) a2 gy
  unfold Quad.clampXY
  rw [ea, eb, quad_sample_x, quad_sample_x, quad_sample_y, quad_sample_y, ecx, ecy, hx, hy]
  rw [← ecx, ← ecy]
  cases h : q.splitRange r.1 r.2 with
  | mk a c b =>
    rw [h] at ea eb
    simp only at ea eb
    rw [← ea, ← eb]


/-- **The pieces retrace the curve**: piece `r` sampled at `u` is the curve at `r.1 + (r.2-r.1)·u`
(all `u`). -/
theorem quad_pieces_retrace (q : Quad K) : ∀ r ∈ q.monotonicRanges, ∀ u : K,
    (Quad.clampXY (q.splitRange r.1 r.2)).sample u = q.sample (r.1 + (r.2 - r.1) * u) := by
  intro r hr u
  have h := quad_clamp_noop q
  unfold Quad.monotonicPieces at h
  have h2 := List.map_inj_left.1 h r hr
  rw [h2]
  geom_ring


/-- `for_each_x_monotonic_range` / `for_each_y_monotonic_range`: the ranges partition `[0,1]` and
the coordinate is monotone on each -/
theorem quad_xy_monotone_ranges (q : Quad K) :
    (Chain 0 q.xMonotonicRanges 1 ∧ ∀ r ∈ q.xMonotonicRanges, MonoOn q.x r.1 r.2) ∧
    (Chain 0 q.yMonotonicRanges 1 ∧ ∀ r ∈ q.yMonotonicRanges, MonoOn q.y r.1 r.2) := by
  have fx : ∀ s, q.localXExtremumT = some s → 0 < s ∧ s < 1 := fun s h =>
    ⟨(q1_localExt_facts h).2.2.1, (q1_localExt_facts h).2.2.2⟩
  have fy : ∀ s, q.localYExtremumT = some s → 0 < s ∧ s < 1 := fun s h =>
    ⟨(q1_localExt_facts h).2.2.1, (q1_localExt_facts h).2.2.2⟩
  refine ⟨⟨(rangesAt_spec _ fx).1, fun r hr => ?_⟩, ⟨(rangesAt_spec _ fy).1, fun r hr => ?_⟩⟩
  · obtain ⟨a0, a1, a2, g⟩ := (rangesAt_spec _ fx).2 r hr
    exact q1_mono a0 (le_of_lt a1) a2 g
  · obtain ⟨a0, a1, a2, g⟩ := (rangesAt_spec _ fy).2 r hr
    exact q1_mono a0 (le_of_lt a1) a2 g


/-- `is_x_monotonic` / `is_y_monotonic` / `is_monotonic` are sound -/
theorem quad_is_monotonic_sound (q : Quad K) :
    (q.isXMonotonic = true → MonoOn q.x 0 1) ∧ (q.isYMonotonic = true → MonoOn q.y 0 1) ∧
    (q.isMonotonic = true → MonoOn q.x 0 1 ∧ MonoOn q.y 0 1) := by
  have hx : q.isXMonotonic = true → MonoOn q.x 0 1 := by
    intro h
    have hn : q.localXExtremumT = none := by simpa [Quad.isXMonotonic] using h
    exact q1_mono (le_refl _) (by norm_num) (le_refl _) (fun t ht => by have h' := hn.symm.trans ht; cases h')
  have hy : q.isYMonotonic = true → MonoOn q.y 0 1 := by
    intro h
    have hn : q.localYExtremumT = none := by simpa [Quad.isYMonotonic] using h
    exact q1_mono (le_refl _) (by norm_num) (le_refl _) (fun t ht => by have h' := hn.symm.trans ht; cases h')
  refine ⟨hx, hy, fun h => ?_⟩
  simp only [Quad.isMonotonic, Bool.and_eq_true] at h
  exact ⟨hx h.1, hy h.2⟩


/-- `for_each_x_monotonic` (which clamps `ctrl.x`) and `for_each_y_monotonic` hand out exactly the
`split_range` of their ranges: the clamp is the identity in exact arithmetic -/
theorem quad_xy_clamp_noop (q : Quad K) :
    q.xMonotonicPieces = q.xMonotonicRanges.map (fun r => q.splitRange r.1 r.2) ∧
    q.yMonotonicPieces = q.yMonotonicRanges.map (fun r => q.splitRange r.1 r.2) := by
  constructor
  · unfold Quad.xMonotonicPieces Quad.xMonotonicRanges
    rcases hx : q.localXExtremumT with _ | t
    · simp only [Quad.rangesAt, List.map_cons, List.map_nil, Scalar.zero, Scalar.one, sc_zero, sc_one]
      congr 1
      apply quad_ext <;> geom_ring
    · obtain ⟨_, _, p0, p1⟩ := q1_localExt_facts hx
      have g : ∀ s, Quad1.localExt q.a.x q.c.x q.b.x = some s → s = t := by
        intro s hs; have : q.localXExtremumT = some s := hs
        rw [hx] at this; cases this; rfl
      have h1 := q1_clamp_noop (a := q.a.x) (c := q.c.x) (b := q.b.x) (lo := 0) (hi := t) (le_refl _)
        (le_of_lt p0) (le_of_lt p1) (fun s hs => by right; rw [g s hs])
      have h2 := q1_clamp_noop (a := q.a.x) (c := q.c.x) (b := q.b.x) (lo := t) (hi := 1) (le_of_lt p0)
        (le_of_lt p1) (le_refl _) (fun s hs => by left; rw [g s hs])
      simp only [Quad.rangesAt, List.map_cons, List.map_nil, Scalar.zero, Scalar.one, sc_zero, sc_one]
      rw [(quad_split_eq_splitRange q t).1, (quad_split_eq_splitRange q t).2]
      obtain ⟨ea, eb, ecx, _⟩ := quad_splitRange_ctrl q 0 t
      obtain ⟨ea', eb', ecx', _⟩ := quad_splitRange_ctrl q t 1
      have c1 : Quad.clampX (q.splitRange 0 t) = q.splitRange 0 t := by
        unfold Quad.clampX
        rw [ea, eb, quad_sample_x, quad_sample_x, ecx, h1, ← ecx]
        cases h : q.splitRange 0 t with
        | mk a c b => rw [h] at ea eb; simp only at ea eb; rw [← ea, ← eb]
      have c2 : Quad.clampX (q.splitRange t 1) = q.splitRange t 1 := by
        unfold Quad.clampX
        rw [ea', eb', quad_sample_x, quad_sample_x, ecx', h2, ← ecx']
        cases h : q.splitRange t 1 with
        | mk a c b => rw [h] at ea' eb'; simp only at ea' eb'; rw [← ea', ← eb']
      rw [c1, c2]
  · unfold Quad.yMonotonicPieces Quad.yMonotonicRanges
    rcases hy : q.localYExtremumT with _ | t
    · simp only [Quad.rangesAt, List.map_cons, List.map_nil, Scalar.zero, Scalar.one, sc_zero, sc_one]
      congr 1
      apply quad_ext <;> geom_ring
    · simp only [Quad.rangesAt, List.map_cons, List.map_nil, Scalar.zero, Scalar.one, sc_zero, sc_one]
      rw [(quad_split_eq_splitRange q t).1, (quad_split_eq_splitRange q t).2]


/-! ## Elliptic arcs

`sin`, `cos`, `tan`, `atan`, `fmod`, `π` are parameters (`[Transc K] [Atan K]`); the laws used are
hypotheses, all true of the real functions. -/


section arc

variable [Transc K]


/-- **Arc extremum parameters, positive sweep (the `_partial` of the full statement).**
For `sweep > 0` every parameter emitted by `for_each_extremum_inner(a1, a2)` lies in `[0,1)` and
its angle is `a1` or `a2` up to a multiple of `2π`.
The full statement (all sweeps) is false of the current code: `arc_extremum_params_neg_witness`. -/
theorem arc_extremum_params_pos_partial (L : AngleLaws K) (arc : Arc K) (a1 a2 : K) (hs : 0 < arc.sweep) :
    ∀ t ∈ arc.extremumInner a1 a2, 0 ≤ t ∧ t < 1 ∧
      ∃ k : ℤ, arc.getAngle t = a1 + k * tau ∨ arc.getAngle t = a2 + k * tau := by
  intro t ht
  have habs : Scalar.abs arc.sweep = arc.sweep := by rw [sc_abs]; exact abs_of_pos hs
  have key : ∀ b a : K, (∃ k : ℤ, b = (a - arc.start) + k * tau) → 0 ≤ b →
      t ∈ Arc.emitPos b arc.sweep → 0 ≤ t ∧ t < 1 ∧ ∃ k : ℤ, arc.getAngle t = a + k * tau := by
    intro b a ⟨k, hk⟩ hb0 hm
    unfold Arc.emitPos at hm
    split_ifs at hm with hlt
    · simp only [List.mem_singleton] at hm
      subst hm
      refine ⟨div_nonneg hb0 (le_of_lt hs), (div_lt_one hs).2 hlt, k, ?_⟩
      unfold Arc.getAngle
      rw [mul_div_cancel₀ _ (ne_of_gt hs), hk]; ring
    · simp at hm
  have hge : arc.sweep ≥ Scalar.zero := by simp only [Scalar.zero, sc_zero]; exact le_of_lt hs
  unfold Arc.extremumInner at ht
  simp only [habs, if_pos hge, List.mem_append] at ht
  have c1 := L.cong (a1 - arc.start)
  have c2 := L.cong (a2 - arc.start)
  have r1 := (L.range (a1 - arc.start)).1
  have r2 := (L.range (a2 - arc.start)).1
  unfold Arc.ordFst Arc.ordSnd at ht
  split_ifs at ht with hsw
  · rcases ht with ht | ht
    · obtain ⟨p, q, k, e⟩ := key _ a2 c2 r2 ht; exact ⟨p, q, k, Or.inr e⟩
    · obtain ⟨p, q, k, e⟩ := key _ a1 c1 r1 ht; exact ⟨p, q, k, Or.inl e⟩
  · rcases ht with ht | ht
    · obtain ⟨p, q, k, e⟩ := key _ a1 c1 r1 ht; exact ⟨p, q, k, Or.inl e⟩
    · obtain ⟨p, q, k, e⟩ := key _ a2 c2 r2 ht; exact ⟨p, q, k, Or.inr e⟩


/-- … and for `0 < sweep ≤ 2π` nothing is missed: every `t ∈ [0,1)` whose angle is `a1` or `a2`
(mod `2π`) is emitted. -/
theorem arc_extremum_params_pos_complete_partial (L : AngleLaws K) (arc : Arc K) (a1 a2 : K)
    (hs : 0 < arc.sweep) (hs2 : arc.sweep ≤ tau) (t : K) (h0 : 0 ≤ t) (h1 : t < 1) (k : ℤ)
    (h : arc.getAngle t = a1 + k * tau ∨ arc.getAngle t = a2 + k * tau) :
    t ∈ arc.extremumInner a1 a2 := by
  have habs : Scalar.abs arc.sweep = arc.sweep := by rw [sc_abs]; exact abs_of_pos hs
  have hge : arc.sweep ≥ Scalar.zero := by simp only [Scalar.zero, sc_zero]; exact le_of_lt hs
  have st0 : 0 ≤ arc.sweep * t := mul_nonneg (le_of_lt hs) h0
  have st1 : arc.sweep * t < arc.sweep := by
    have := mul_lt_mul_of_pos_left h1 hs; linarith
  have key : ∀ a : K, arc.getAngle t = a + k * tau → t ∈ Arc.emitPos (Arc.positive (a - arc.start)) arc.sweep := by
    intro a ha
    have hp : Arc.positive (a - arc.start) = arc.sweep * t := by
      apply positive_unique L _ _ st0 (lt_of_lt_of_le st1 hs2) (k)
      unfold Arc.getAngle at ha; linear_combination ha
    unfold Arc.emitPos
    rw [hp, if_pos st1, List.mem_singleton, mul_div_cancel_left₀ _ (ne_of_gt hs)]
  unfold Arc.extremumInner
  simp only [habs, if_pos hge, List.mem_append]
  unfold Arc.ordFst Arc.ordSnd
  split_ifs with hsw
  · rcases h with h | h
    · right; exact key a1 h
    · left; exact key a2 h
  · rcases h with h | h
    · left; exact key a1 h
    · right; exact key a2 h


variable [Atan K]


/-- **Witness: the arc extremum statement is false for negative sweeps.**
For the arc above lyon's `for_each_local_x_extremum_t` emits exactly one parameter,
`(2π − 1/2)/2 ≈ 2.89 > 1`, although the x-extremum (angle `0 = x_ext_angle`) is reached at
`t = 1/4 ∈ [0,1]`, which is not emitted. -/
theorem arc_extremum_params_neg_witness (L : AngleLaws K)
    (htan : Transc.tan (0 : K) = 0) (hatan : Atan.atan (0 : K) = 0) :
    (negArc (K := K)).localXExtremaT = [((2 : K) * Transc.pi - 1/2) / 2] ∧
    (1 : K) < ((2 : K) * Transc.pi - 1/2) / 2 ∧
    (negArc (K := K)).getAngle (1/4) = (negArc (K := K)).xExtAngle ∧
    (1/4 : K) ∉ (negArc (K := K)).localXExtremaT := by
  have p3 := L.pi_gt
  have p4 := L.pi_lt
  have hx : (negArc (K := K)).xExtAngle = 0 := by
    simp only [Arc.xExtAngle, negArc, htan, mul_zero, zero_div, hatan, neg_zero]
  have hb1 : Arc.positive ((0 : K) - 1/2) = 2 * Transc.pi - 1/2 := by
    apply positive_unique L _ _ (by linarith) (by unfold tau; linarith) 1
    unfold tau; push_cast; ring
  have hb2 : Arc.positive ((Transc.pi + 0 : K) - 1/2) = Transc.pi - 1/2 := by
    apply positive_unique L _ _ (by linarith) (by unfold tau; linarith) 0
    push_cast; ring
  have hlist : (negArc (K := K)).localXExtremaT = [((2 : K) * Transc.pi - 1/2) / 2] := by
    unfold Arc.localXExtremaT
    rw [hx]
    unfold Arc.extremumInner
    simp only [negArc, hb1, hb2, Arc.signum, Arc.ordFst, Arc.ordSnd, Arc.emitNeg, sc_abs,
      Scalar.zero, Scalar.one, Scalar.two, sc_zero, sc_one, sc_two]
    have a1 : |(-2 : K)| = 2 := by rw [abs_neg]; exact abs_of_pos (by norm_num)
    rw [a1]
    have c0 : ¬ ((-2 : K) ≥ 0) := by norm_num
    have c1 : (-2 : K) < 0 := by norm_num
    have c2 : ¬ ((2 * Transc.pi - 1/2) * (-1 : K) > (Transc.pi - 1/2) * (-1 : K)) := by
      rw [gt_iff_lt, not_lt]; linarith
    have c3 : (2 * Transc.pi - 1/2 : K) > 2 * Transc.pi - 2 := by linarith
    have c4 : ¬ ((Transc.pi - 1/2 : K) > 2 * Transc.pi - 2) := by rw [gt_iff_lt, not_lt]; linarith
    simp only [c0, c1, c2, c3, c4, if_true, if_false, List.append_nil, List.nil_append, List.cons_append]
  refine ⟨hlist, ?_, ?_, ?_⟩
  · rw [lt_div_iff₀ (by norm_num)]; linarith
  · rw [hx]; simp only [Arc.getAngle, negArc]; norm_num
  · rw [hlist, List.mem_singleton]
    intro h
    have : ((2 : K) * Transc.pi - 1/2) / 2 = 1/4 := h.symm
    rw [div_eq_iff (by norm_num)] at this
    linarith


/-- **Witness: the exact bounding box of that arc misses part of it.**  With `cos 0 = 1`,
`sin 0 = 0` and `cos x < 1` for `0 < |x| < 2π`, the box's `max.x` is below `x(1/4) = 10`. -/
theorem arc_box_neg_sweep_witness (L : AngleLaws K)
    (htan : Transc.tan (0 : K) = 0) (hatan : Atan.atan (0 : K) = 0)
    (hc0 : Transc.cos (0 : K) = 1) (hs0 : Transc.sin (0 : K) = 0)
    (hcos : ∀ x : K, x ≠ 0 → |x| < tau → Transc.cos x < 1) :
    (negArc (K := K)).boundingBox.max.x < ((negArc (K := K)).sample (1/4)).x ∧
    ¬ Box.Contains (negArc (K := K)).boundingBox ((negArc (K := K)).sample (1/4)) := by
  have p3 := L.pi_gt
  have p4 := L.pi_lt
  obtain ⟨hlist, _, _, _⟩ := arc_extremum_params_neg_witness L htan hatan
  have sx : ∀ t : K, ((negArc (K := K)).sample t).x = 10 * Transc.cos (1/2 + -2 * t) := by
    intro t
    simp only [Arc.sample, Arc.sampleEllipse, Arc.rotate, Arc.getAngle, negArc, P.add_def, hc0, hs0]
    ring
  have hmain : (negArc (K := K)).boundingBox.max.x < 10 := by
    simp only [Arc.boundingBox, Box.ofRanges, Arc.boundingRangeX, hlist, List.foldl_cons, List.foldl_nil,
      Arc.growX, sx, emax_eq, sc_max, Scalar.zero, Scalar.one, sc_zero, sc_one]
    have k1 : Transc.cos ((1/2 : K) + -2 * 0) < 1 :=
      hcos _ (by norm_num) (by rw [abs_of_pos (by norm_num)]; unfold tau; linarith)
    have k2 : Transc.cos ((1/2 : K) + -2 * 1) < 1 :=
      hcos _ (by norm_num) (by
        rw [show (1/2 : K) + -2 * 1 = -(3/2) by norm_num, abs_neg, abs_of_pos (by norm_num)]
        unfold tau; linarith)
    have k3 : Transc.cos ((1/2 : K) + -2 * ((2 * Transc.pi - 1/2) / 2)) < 1 :=
      hcos _ (by intro h; have : (1 : K) - 2 * Transc.pi = 0 := by linear_combination h
                 linarith) (by
        rw [show (1/2 : K) + -2 * ((2 * Transc.pi - 1/2) / 2) = -(2 * Transc.pi - 1) by ring, abs_neg,
          abs_of_pos (by linarith)]
        unfold tau; linarith)
    rw [max_lt_iff, max_lt_iff]
    refine ⟨⟨?_, ?_⟩, ?_⟩ <;> linarith
  have hval : ((negArc (K := K)).sample (1/4)).x = 10 := by
    rw [sx, show (1/2 : K) + -2 * (1/4) = 0 by norm_num, hc0]; norm_num
  refine ⟨by rw [hval]; exact hmain, ?_⟩
  intro hcon
  have := hcon.2.1
  rw [hval] at this
  exact absurd hmain (not_lt.2 this)


/-- **Witness: `fast_bounding_box` does not contain the arc.**  The box around the centre is
rotated about the origin: the result is `(−5,90)–(5,110)` while the arc starts at `(100,10)`. -/
theorem arc_fast_box_witness (sweep r : K)
    (hcr : Transc.cos r = 0) (hsr : Transc.sin r = 1)
    (hc0 : Transc.cos (0 : K) = 1) (hs0 : Transc.sin (0 : K) = 0) :
    (offArc sweep r).fastBoundingBox = ⟨⟨-5, 90⟩, ⟨5, 110⟩⟩ ∧
    (offArc sweep r).sample 0 = ⟨100, 10⟩ ∧
    ¬ Box.Contains (offArc sweep r).fastBoundingBox ((offArc sweep r).sample 0) := by
  have hb : (offArc sweep r).fastBoundingBox = ⟨⟨-5, 90⟩, ⟨5, 110⟩⟩ := by
    simp only [Arc.fastBoundingBox, Arc.outerTransformedBox, Arc.rotationXf, Box.fromPoints, Xf.apply,
      offArc, hcr, hsr, P.add_def, P.sub_def, List.foldl_cons, List.foldl_nil, Box.grow,
      Scalar.zero, sc_zero]
    norm_num
  have hp : (offArc sweep r).sample 0 = ⟨100, 10⟩ := by
    simp only [Arc.sample, Arc.sampleEllipse, Arc.rotate, Arc.getAngle, offArc, P.add_def, hcr, hsr,
      mul_zero, add_zero, hc0, hs0]
    norm_num
  refine ⟨hb, hp, ?_⟩
  rw [hb, hp]
  intro h
  have := h.2.1
  norm_num at this


/-- **`fast_bounding_box` contains the arc when there is no rotation (the `_partial`).**
With `cos x_rotation = 1`, `sin x_rotation = 0`, non-negative radii and `|cos|, |sin| ≤ 1` at the
sampled angle, the fast box contains the sample.  (For `x_rotation ≠ 0` and a centre off the
origin the statement is false of the current code: `arc_fast_box_witness`.) -/
theorem arc_fast_box_contains_partial (arc : Arc K) (t : K)
    (hcr : Transc.cos arc.xrot = 1) (hsr : Transc.sin arc.xrot = 0)
    (hrx : 0 ≤ arc.radii.x) (hry : 0 ≤ arc.radii.y)
    (hc : |Transc.cos (arc.getAngle t)| ≤ 1) (hs : |Transc.sin (arc.getAngle t)| ≤ 1) :
    Box.Contains arc.fastBoundingBox (arc.sample t) := by
  have hb : arc.fastBoundingBox = ⟨arc.center - arc.radii, arc.center + arc.radii⟩ := by
    have h1 : arc.center.x - arc.radii.x ≤ arc.center.x + arc.radii.x := by linarith
    have h2 : arc.center.y - arc.radii.y ≤ arc.center.y + arc.radii.y := by linarith
    simp only [Arc.fastBoundingBox, Arc.outerTransformedBox, Arc.rotationXf, Box.fromPoints, Xf.apply,
      hcr, hsr, P.add_def, P.sub_def, List.foldl_cons, List.foldl_nil, grow_eq, Scalar.zero, sc_zero,
      mul_one, mul_zero, sub_zero, add_zero, zero_add,
      min_eq_left h1, min_eq_right h1, max_eq_left h1, max_eq_right h1,
      min_eq_left h2, min_eq_right h2, max_eq_left h2, max_eq_right h2, min_self, max_self]
  rw [hb]
  have hp : arc.sample t = ⟨arc.center.x + arc.radii.x * Transc.cos (arc.getAngle t),
      arc.center.y + arc.radii.y * Transc.sin (arc.getAngle t)⟩ := by
    simp only [Arc.sample, Arc.sampleEllipse, Arc.rotate, P.add_def, hcr, hsr, mul_one, mul_zero, sub_zero,
      add_zero]
  rw [hp]
  obtain ⟨c0, c1⟩ := abs_le.1 hc
  obtain ⟨s0, s1⟩ := abs_le.1 hs
  simp only [Box.Contains, P.add_def, P.sub_def]
  have m1 := mul_le_mul_of_nonneg_left c1 hrx
  have m2 := mul_le_mul_of_nonneg_left c0 hrx
  have m3 := mul_le_mul_of_nonneg_left s1 hry
  have m4 := mul_le_mul_of_nonneg_left s0 hry
  refine ⟨by linarith, by linarith, by linarith, by linarith⟩


end arc


/-! ## Cubic Bézier segments -/


/-- the fast box (hull of the control points) contains the curve -/
theorem cubic_fast_box_contains [Transc K] (c : Cubic K) (t : K) (h0 : 0 ≤ t) (h1 : t ≤ 1) :
    Box.Contains c.fastBoundingBox (c.sample t) := by
  unfold Box.Contains
  rw [cubic_sample_x, cubic_sample_y]
  have hx := c1_fast_range_contains c.a.x c.c1.x c.c2.x c.b.x t h0 h1
  have hy := c1_fast_range_contains c.a.y c.c1.y c.c2.y c.b.y t h0 h1
  exact ⟨hx.1, hx.2, hy.1, hy.2⟩


section roots

variable [Transc K]


/-- **Cubic critical parameters are roots of the derivative**: a parameter is reported by
`for_each_local_x_extremum_t` iff it lies in `(0,1)` and `dx` vanishes there (for a coordinate
whose derivative is not identically zero); likewise for `y`. -/
theorem cubic_critical_roots (hsq : ∀ d : K, 0 ≤ d → Transc.sqrt d * Transc.sqrt d = d) (c : Cubic K) (t : K) :
    ((Cubic1.ca c.a.x c.c1.x c.c2.x c.b.x ≠ 0 ∨ Cubic1.cb c.a.x c.c1.x c.c2.x ≠ 0) →
      (t ∈ c.localXExtremaT ↔ (0 < t ∧ t < 1 ∧ c.dx t = 0))) ∧
    ((Cubic1.ca c.a.y c.c1.y c.c2.y c.b.y ≠ 0 ∨ Cubic1.cb c.a.y c.c1.y c.c2.y ≠ 0) →
      (t ∈ c.localYExtremaT ↔ (0 < t ∧ t < 1 ∧ c.dy t = 0))) := by
  constructor <;> intro h
  · rw [cubic_dx_eq]; exact c1_extremaOf_iff hsq _ _ _ t h
  · rw [cubic_dy_eq]; exact c1_extremaOf_iff hsq _ _ _ t h


/-- reported parameters are interior critical points, with no side condition -/
theorem cubic_extremum_is_critical (hsq : ∀ d : K, 0 ≤ d → Transc.sqrt d * Transc.sqrt d = d)
    (c : Cubic K) (t : K) :
    (t ∈ c.localXExtremaT → 0 < t ∧ t < 1 ∧ c.dx t = 0) ∧
    (t ∈ c.localYExtremaT → 0 < t ∧ t < 1 ∧ c.dy t = 0) := by
  have gen : ∀ a b cc : K, t ∈ Cubic1.extremaOf a b cc → 0 < t ∧ t < 1 ∧ a * t^2 + b * t + cc = 0 := by
    intro a b cc h
    by_cases hnz : a ≠ 0 ∨ b ≠ 0
    · exact (c1_extremaOf_iff hsq a b cc t hnz).1 h
    · rw [not_or, not_not, not_not] at hnz
      unfold Cubic1.extremaOf at h
      simp only [sc_beq, bne_iff, Scalar.zero, sc_zero] at h
      rw [if_pos hnz.1, if_neg (not_not.2 hnz.2)] at h
      simp at h
  constructor <;> intro h
  · rw [cubic_dx_eq]; exact gen _ _ _ h
  · rw [cubic_dy_eq]; exact gen _ _ _ h


end roots


section cubicranges

variable [Transc K]


/-- **Monotone ranges of a cubic partition `[0,1]`** (`for_each_monotonic_range`,
`for_each_x_monotonic_range`, `for_each_y_monotonic_range`): consecutive, from 0 to 1, each of
positive length. -/
theorem cubic_monotone_ranges_partition (hsq : ∀ d : K, 0 ≤ d → Transc.sqrt d * Transc.sqrt d = d)
    (c : Cubic K) :
    Chain 0 c.monotonicRanges 1 ∧ Chain 0 c.xMonotonicRanges 1 ∧ Chain 0 c.yMonotonicRanges 1 := by
  have one : ∀ a b cc : K, Chain 0 (Cubic.rangesAll Scalar.zero (Cubic1.extremaOf a b cc)) 1 := by
    intro a b cc
    simp only [Scalar.zero, sc_zero]
    apply rangesAll_chain
    · rw [List.pairwise_cons]
      exact ⟨fun x hx => (c1_extremaOf_interior _ _ _ x hx).1, c1_extremaOf_strict hsq a b cc⟩
    · intro x hx
      rcases List.mem_cons.1 hx with rfl | hx
      · norm_num
      · exact (c1_extremaOf_interior _ _ _ x hx).2
  refine ⟨?_, one _ _ _, one _ _ _⟩
  unfold Cubic.monotonicRanges
  simp only [Scalar.zero, sc_zero]
  obtain ⟨hs, hm⟩ := sortAsc_spec (c.localXExtremaT ++ c.localYExtremaT)
  have hint : ∀ x ∈ Cubic.sortAsc (c.localXExtremaT ++ c.localYExtremaT), 0 < x ∧ x < 1 := by
    intro x hx
    rw [hm, List.mem_append] at hx
    rcases hx with hx | hx <;> exact c1_extremaOf_interior _ _ _ x hx
  apply rangesSkip_chain
  · rw [List.pairwise_cons]; exact ⟨fun x hx => le_of_lt (hint x hx).1, hs⟩
  · intro x hx
    rcases List.mem_cons.1 hx with rfl | hx
    · norm_num
    · exact (hint x hx).2


/-- **Exact box of a cubic (`_partial`).**  The four sides are attained at the reported
parameters, which lie in `[0,1]` (so the box is *tight*: it is inside the hull of the curve and
inside the fast box), and the box contains both endpoints and the curve points at all reported
critical parameters.  Missing for the full statement: that the curve stays inside *between*
consecutive critical parameters (monotonicity of a cubic whose derivative has no root in an
interval); this part is covered by the oracle's dense sampling only. -/
theorem cubic_box_partial (c : Cubic K) :
    (0 ≤ c.xMinimumT ∧ c.xMinimumT ≤ 1 ∧ (c.sample c.xMinimumT).x = c.boundingBox.min.x) ∧
    (0 ≤ c.xMaximumT ∧ c.xMaximumT ≤ 1 ∧ (c.sample c.xMaximumT).x = c.boundingBox.max.x) ∧
    (0 ≤ c.yMinimumT ∧ c.yMinimumT ≤ 1 ∧ (c.sample c.yMinimumT).y = c.boundingBox.min.y) ∧
    (0 ≤ c.yMaximumT ∧ c.yMaximumT ≤ 1 ∧ (c.sample c.yMaximumT).y = c.boundingBox.max.y) ∧
    Box.Contains c.boundingBox (c.sample 0) ∧ Box.Contains c.boundingBox (c.sample 1) ∧
    (∀ t ∈ c.localXExtremaT, c.boundingBox.min.x ≤ (c.sample t).x ∧ (c.sample t).x ≤ c.boundingBox.max.x) ∧
    (∀ t ∈ c.localYExtremaT, c.boundingBox.min.y ≤ (c.sample t).y ∧ (c.sample t).y ≤ c.boundingBox.max.y) ∧
    Box.Inside c.boundingBox c.fastBoundingBox := by
  obtain ⟨x1, x2, x3⟩ := c1_range_partial c.a.x c.c1.x c.c2.x c.b.x
  obtain ⟨y1, y2, y3⟩ := c1_range_partial c.a.y c.c1.y c.c2.y c.b.y
  refine ⟨⟨x2.1, x2.2, by rw [cubic_sample_x]; rfl⟩, ⟨x1.1, x1.2, by rw [cubic_sample_x]; rfl⟩,
    ⟨y2.1, y2.2, by rw [cubic_sample_y]; rfl⟩, ⟨y1.1, y1.2, by rw [cubic_sample_y]; rfl⟩, ?_, ?_, ?_, ?_, ?_⟩
  · unfold Box.Contains; rw [cubic_sample_x, cubic_sample_y]
    exact ⟨(x3 0 (Or.inl rfl)).1, (x3 0 (Or.inl rfl)).2, (y3 0 (Or.inl rfl)).1, (y3 0 (Or.inl rfl)).2⟩
  · unfold Box.Contains; rw [cubic_sample_x, cubic_sample_y]
    exact ⟨(x3 1 (Or.inr (Or.inl rfl))).1, (x3 1 (Or.inr (Or.inl rfl))).2,
      (y3 1 (Or.inr (Or.inl rfl))).1, (y3 1 (Or.inr (Or.inl rfl))).2⟩
  · intro t ht; rw [cubic_sample_x]; exact x3 t (Or.inr (Or.inr ht))
  · intro t ht; rw [cubic_sample_y]; exact y3 t (Or.inr (Or.inr ht))
  · exact ⟨(c1_fast_range_contains _ _ _ _ _ x2.1 x2.2).1, (c1_fast_range_contains _ _ _ _ _ x1.1 x1.2).2,
      (c1_fast_range_contains _ _ _ _ _ y2.1 y2.2).1, (c1_fast_range_contains _ _ _ _ _ y1.1 y1.2).2⟩


/-- **Witness: `for_each_monotonic` does not retrace a monotone cubic.**  The cubic
`(0,0) (1,1) (−1,2) (4,3)` has no x- or y-extremum and both coordinates are monotone on `[0,1]`;
lyon reports the single range `0..1`, but the piece it hands out has `ctrl2.x` clamped from `−1`
to `0`, and at `u = 1/2` it is at `x = 7/8` where the curve is at `x = 1/2`.  (For quadratics the
clamp is the identity: `quad_clamp_noop`.) -/
theorem cubic_clamp_distorts_witness :
    (clampCubic (K := K)).localXExtremaT = [] ∧ (clampCubic (K := K)).localYExtremaT = [] ∧
    (clampCubic (K := K)).monotonicRanges = [(0, 1)] ∧
    MonoOn (clampCubic (K := K)).x 0 1 ∧ MonoOn (clampCubic (K := K)).y 0 1 ∧
    (clampCubic (K := K)).monotonicPieces = [⟨⟨0, 0⟩, ⟨1, 1⟩, ⟨0, 2⟩, ⟨4, 3⟩⟩] ∧
    (∀ p ∈ (clampCubic (K := K)).monotonicPieces,
      (p.sample (1/2)).x = 7/8 ∧ ((clampCubic (K := K)).sample (0 + (1 - 0) * (1/2))).x = 1/2) := by
  have hx : (clampCubic (K := K)).localXExtremaT = [] := by
    simp only [Cubic.localXExtremaT, Cubic1.localExtrema, Cubic1.extremaOf, Cubic1.disc, c1_ca, c1_cb, c1_cc,
      clampCubic, sc_beq, bne_iff, Scalar.zero, Scalar.four, sc_zero, sc_four]
    norm_num
  have hy : (clampCubic (K := K)).localYExtremaT = [] := by
    simp only [Cubic.localYExtremaT, Cubic1.localExtrema, Cubic1.extremaOf, Cubic1.disc, c1_ca, c1_cb, c1_cc,
      clampCubic, sc_beq, bne_iff, Scalar.zero, Scalar.four, sc_zero, sc_four]
    norm_num
  have hr : (clampCubic (K := K)).monotonicRanges = [(0, 1)] := by
    simp only [Cubic.monotonicRanges, hx, hy, List.append_nil, Cubic.sortAsc, List.foldr_nil,
      Cubic.rangesSkip, Scalar.zero, Scalar.one, sc_zero, sc_one]
  have hsr : (clampCubic (K := K)).splitRange 0 1 = clampCubic := by
    unfold clampCubic
    simp only [Cubic.splitRange, Cubic.mk.injEq]
    refine ⟨?_, ?_, ?_, ?_⟩ <;> (apply P.ext' <;> (simp only [geom, Nat.cast_ofNat, Nat.cast_one, Nat.cast_zero]; norm_num))
  have hp : (clampCubic (K := K)).monotonicPieces = [⟨⟨0, 0⟩, ⟨1, 1⟩, ⟨0, 2⟩, ⟨4, 3⟩⟩] := by
    unfold Cubic.monotonicPieces
    rw [hr]
    simp only [List.map_cons, List.map_nil, hsr]
    simp only [Cubic.clampXY, clampCubic, clampTo, sc_min, sc_max, Cubic.mk.injEq, List.cons.injEq, and_true]
    refine ⟨trivial, ?_, ?_⟩ <;> (apply P.ext' <;> norm_num)
  refine ⟨hx, hy, hr, ?_, ?_, hp, ?_⟩
  · left; intro s u h0 h1 h2
    rw [cubic_x_eq, cubic_x_eq, c1_ev, c1_ev]
    simp only [clampCubic]
    nlinarith [mul_nonneg (sub_nonneg.2 h1) (sq_nonneg (u + s - 3/5)),
      mul_nonneg (sub_nonneg.2 h1) (sq_nonneg (u - s)), sub_nonneg.2 h1]
  · left; intro s u h0 h1 h2
    rw [cubic_y_eq, cubic_y_eq, c1_ev, c1_ev]
    simp only [clampCubic]
    nlinarith
  · intro p hp'
    rw [hp, List.mem_singleton] at hp'
    subst hp'
    constructor
    · rw [cubic_sample_x, c1_ev]; norm_num
    · rw [cubic_sample_x, c1_ev]; simp only [clampCubic]; norm_num


end cubicranges


/-! ## Line segments, triangles -/


/-- the box of a line segment is spanned by its endpoints (tight) and contains the segment -/
theorem seg_box (s : Seg K) :
    s.boundingBox = ⟨⟨min s.a.x s.b.x, min s.a.y s.b.y⟩, ⟨max s.a.x s.b.x, max s.a.y s.b.y⟩⟩ ∧
    ∀ t, 0 ≤ t → t ≤ 1 → Box.Contains s.boundingBox (s.sample t) := by
  have e : s.boundingBox = ⟨⟨min s.a.x s.b.x, min s.a.y s.b.y⟩, ⟨max s.a.x s.b.x, max s.a.y s.b.y⟩⟩ := by
    simp only [Seg.boundingBox, Seg.boundingRangeX, Seg.boundingRangeY, Box.ofRanges, minMax_eq]
  refine ⟨e, fun t h0 h1 => ?_⟩
  rw [e]
  simp only [Box.Contains, Seg.sample, P.lerp, Scalar.one, sc_one]
  have u : 0 ≤ 1 - t := by linarith
  have ax := min_le_left s.a.x s.b.x
  have bx := min_le_right s.a.x s.b.x
  have ay := min_le_left s.a.y s.b.y
  have by' := min_le_right s.a.y s.b.y
  have ax' := le_max_left s.a.x s.b.x
  have bx' := le_max_right s.a.x s.b.x
  have ay' := le_max_left s.a.y s.b.y
  have by'' := le_max_right s.a.y s.b.y
  refine ⟨?_, ?_, ?_, ?_⟩
  · nlinarith [mul_le_mul_of_nonneg_left ax u, mul_le_mul_of_nonneg_left bx h0]
  · nlinarith [mul_le_mul_of_nonneg_left ax' u, mul_le_mul_of_nonneg_left bx' h0]
  · nlinarith [mul_le_mul_of_nonneg_left ay u, mul_le_mul_of_nonneg_left by' h0]
  · nlinarith [mul_le_mul_of_nonneg_left ay' u, mul_le_mul_of_nonneg_left by'' h0]


/-- the box of a triangle is spanned by its vertices and contains every convex combination -/
theorem tri_box (t : Tri K) :
    t.boundingBox = ⟨⟨min (min t.a.x t.b.x) t.c.x, min (min t.a.y t.b.y) t.c.y⟩,
                     ⟨max (max t.a.x t.b.x) t.c.x, max (max t.a.y t.b.y) t.c.y⟩⟩ ∧
    ∀ u v w : K, 0 ≤ u → 0 ≤ v → 0 ≤ w → u + v + w = 1 →
      Box.Contains t.boundingBox ⟨u * t.a.x + v * t.b.x + w * t.c.x, u * t.a.y + v * t.b.y + w * t.c.y⟩ := by
  have e : t.boundingBox = ⟨⟨min (min t.a.x t.b.x) t.c.x, min (min t.a.y t.b.y) t.c.y⟩,
                     ⟨max (max t.a.x t.b.x) t.c.x, max (max t.a.y t.b.y) t.c.y⟩⟩ := by
    simp only [Tri.boundingBox, Tri.boundingRangeX, Tri.boundingRangeY, Box.ofRanges, sc_min, sc_max]
  refine ⟨e, fun u v w hu hv hw hs => ?_⟩
  rw [e]
  simp only [Box.Contains]
  have key : ∀ (a b c m : K), m ≤ a → m ≤ b → m ≤ c → m ≤ u * a + v * b + w * c := by
    intro a b c m ha hb hc
    have h1 := mul_le_mul_of_nonneg_left ha hu
    have h2 := mul_le_mul_of_nonneg_left hb hv
    have h3 := mul_le_mul_of_nonneg_left hc hw
    have hm : m = u * m + v * m + w * m := by rw [← add_mul, ← add_mul, hs, one_mul]
    linarith
  have key2 : ∀ (a b c m : K), a ≤ m → b ≤ m → c ≤ m → u * a + v * b + w * c ≤ m := by
    intro a b c m ha hb hc
    have h1 := mul_le_mul_of_nonneg_left ha hu
    have h2 := mul_le_mul_of_nonneg_left hb hv
    have h3 := mul_le_mul_of_nonneg_left hc hw
    have hm : m = u * m + v * m + w * m := by rw [← add_mul, ← add_mul, hs, one_mul]
    linarith
  refine ⟨key _ _ _ _ ?_ ?_ ?_, key2 _ _ _ _ ?_ ?_ ?_, key _ _ _ _ ?_ ?_ ?_, key2 _ _ _ _ ?_ ?_ ?_⟩
  · exact le_trans (min_le_left _ _) (min_le_left _ _)
  · exact le_trans (min_le_left _ _) (min_le_right _ _)
  · exact min_le_right _ _
  · exact le_trans (le_max_left _ _) (le_max_left _ _)
  · exact le_trans (le_max_right _ _) (le_max_left _ _)
  · exact le_max_right _ _
  · exact le_trans (min_le_left _ _) (min_le_left _ _)
  · exact le_trans (min_le_left _ _) (min_le_right _ _)
  · exact min_le_right _ _
  · exact le_trans (le_max_left _ _) (le_max_left _ _)
  · exact le_trans (le_max_right _ _) (le_max_left _ _)
  · exact le_max_right _ _


/-! ## Paths: `lyon_algorithms::aabb` -/


section aabb

variable [Transc K]


/-- **`aabb::bounding_box` is the join of the event boxes** (before the empty-path test) … -/
theorem aabb_fold (b0 : Box K) (evs : List (PEv K)) :
    evs.foldl Aabb.tightStep b0 = (evs.filterMap tightBox).foldl boxJoin b0 := by
  induction evs generalizing b0 with
  | nil => rfl
  | cons e r ih =>
    rw [List.foldl_cons, ih, tightStep_eq]
    cases h : tightBox e <;> simp [List.filterMap_cons, h]


/-- … **and does not depend on the order of the events.** -/
theorem aabb_fold_perm (b0 : Box K) (l1 l2 : List (PEv K)) (h : l1.Perm l2) :
    l1.foldl Aabb.tightStep b0 = l2.foldl Aabb.tightStep b0 := by
  rw [aabb_fold, aabb_fold]
  exact (h.filterMap tightBox).foldl_eq' (fun x _ y _ z => join_right_comm z x y) b0


/-- **The path box contains every point of every segment (`_partial`).**  For every quadratic
event of the path and every `t ∈ [0,1]` the sampled point lies in `aabb::bounding_box`, and every
`begin`/`line_to` endpoint does.  Hypothesis `hne`: the accumulated minimum is not the sentinel
`(MAX, MAX)` — lyon returns the zero box in that case (empty path; also a path sitting exactly at
`f32::MAX`, for which the statement is false).  Cubic events: the cubic's own box is inside the
path box (`aabb_fold` + `foldl_join_inside`); that the cubic's box contains the cubic between
critical points is not a theorem (see `cubic_box_partial`). -/
theorem aabb_box_contains_partial (big : K) (evs : List (PEv K))
    (hne : ¬ ((evs.foldl Aabb.tightStep (Aabb.start big)).min == (⟨big, big⟩ : P K)) = true) :
    (∀ f c p, PEv.quad f c p ∈ evs → ∀ t, 0 ≤ t → t ≤ 1 →
      Box.Contains (Aabb.boundingBox big evs) (Quad.sample ⟨f, c, p⟩ t)) ∧
    (∀ p, PEv.begin p ∈ evs → Box.Contains (Aabb.boundingBox big evs) p) ∧
    (∀ f p, PEv.line f p ∈ evs → Box.Contains (Aabb.boundingBox big evs) p) ∧
    (∀ f c1 c2 p, PEv.cubic f c1 c2 p ∈ evs →
      Box.Inside (Cubic.boundingBox ⟨f, c1, c2, p⟩) (Aabb.boundingBox big evs)) := by
  have hb : Aabb.boundingBox big evs = (evs.filterMap tightBox).foldl boxJoin (Aabb.start big) := by
    unfold Aabb.boundingBox Aabb.finish
    rw [if_neg hne, aabb_fold]
  have hin : ∀ e ∈ evs, ∀ x, tightBox e = some x → Box.Inside x (Aabb.boundingBox big evs) := by
    intro e he x hx
    rw [hb]
    exact (foldl_join_inside _ _).2 x (List.mem_filterMap.2 ⟨e, he, hx⟩)
  have cont : ∀ {x b : Box K} {p : P K}, Box.Inside x b → Box.Contains x p → Box.Contains b p := by
    intro x b p h1 h2
    exact ⟨le_trans h1.1 h2.1, le_trans h2.2.1 h1.2.1, le_trans h1.2.2.1 h2.2.2.1, le_trans h2.2.2.2 h1.2.2.2⟩
  refine ⟨?_, ?_, ?_, ?_⟩
  · intro f c p he t h0 h1
    exact cont (hin _ he _ rfl) (quad_box_contains ⟨f, c, p⟩ t h0 h1)
  · intro p he
    exact cont (hin _ he ⟨p, p⟩ rfl) ⟨le_refl _, le_refl _, le_refl _, le_refl _⟩
  · intro f p he
    exact cont (hin _ he ⟨p, p⟩ rfl) ⟨le_refl _, le_refl _, le_refl _, le_refl _⟩
  · intro f c1 c2 p he
    exact hin _ he _ rfl


end aabb


/-! ## Non-vacuity: concrete instances satisfying the hypotheses used above -/


/-- `quad_box_contains` etc.: a parameter in range -/
example : (0:ℚ) ≤ 1/3 ∧ (1/3:ℚ) ≤ 1 := by norm_num


/-- a quadratic with a reported interior x-extremum: `(0,0) (2,1) (1,0)` has `local_x_extremum_t = 2/3` -/
example : Quad.localXExtremumT (⟨⟨0, 0⟩, ⟨2, 1⟩, ⟨1, 0⟩⟩ : Quad ℚ) = some (2/3) := by
  show Quad1.localExt (0:ℚ) 2 1 = some (2/3)
  rw [q1_localExt_some]; norm_num


/-- `AngleLaws` holds for the toy instance (so the arc theorems are not vacuous) -/
example : @AngleLaws ℚ _ _ _ toyTransc := by
  letI := toyTransc
  have hτ : (0:ℚ) < 22/7 + 22/7 := by norm_num
  have hpos : ∀ x : ℚ, @Arc.positive ℚ _ toyTransc x = x - (22/7 + 22/7) * (⌊x / (22/7 + 22/7)⌋ : ℚ) ∧
      0 ≤ x - (22/7 + 22/7) * (⌊x / (22/7 + 22/7)⌋ : ℚ) ∧
      x - (22/7 + 22/7) * (⌊x / (22/7 + 22/7)⌋ : ℚ) < 22/7 + 22/7 := by
    intro x
    have h1 : ((⌊x / (22/7 + 22/7)⌋ : ℤ) : ℚ) ≤ x / (22/7 + 22/7) := Int.floor_le _
    have h2 : x / (22/7 + 22/7) < (⌊x / (22/7 + 22/7)⌋ : ℚ) + 1 := Int.lt_floor_add_one _
    rw [le_div_iff₀ hτ] at h1
    rw [div_lt_iff₀ hτ] at h2
    have nn : 0 ≤ x - (22/7 + 22/7) * (⌊x / (22/7 + 22/7)⌋ : ℚ) := by linarith
    refine ⟨?_, nn, by linarith⟩
    show (if Transc.fmod x (Transc.pi + Transc.pi) < Scalar.zero then _ else _) = _
    have : ¬ (Transc.fmod x (Transc.pi + Transc.pi) < (Scalar.zero : ℚ)) := by
      show ¬ (x - (22/7 + 22/7) * (⌊x / (22/7 + 22/7)⌋ : ℚ) < ((0 : ℕ) : ℚ))
      rw [Nat.cast_zero, not_lt]; exact nn
    rw [if_neg this]; rfl
  refine ⟨by show (3:ℚ) < 22/7; norm_num, by show (22/7:ℚ) < 4; norm_num, fun x => ?_, fun x => ?_⟩
  · exact ⟨(hpos x).1 ▸ (hpos x).2.1, (hpos x).1 ▸ (hpos x).2.2⟩
  · refine ⟨-⌊x / (22/7 + 22/7)⌋, ?_⟩
    rw [(hpos x).1]
    show _ = x + ((-⌊x / (22/7 + 22/7)⌋ : ℤ) : ℚ) * (22/7 + 22/7)
    push_cast; ring


/-- the `sqrt` law used by the cubic theorems holds e.g. at `d = 4` for the toy instance, and the
side conditions of the arc witnesses (`tan 0 = 0`, `cos 0 = 1`, `sin 0 = 0`) hold there too -/
example : toyTransc.sqrt 4 * toyTransc.sqrt 4 = 4 ∧ toyTransc.tan 0 = 0 ∧ toyTransc.cos 0 = 1 ∧
    toyTransc.sin 0 = 0 := by
  refine ⟨?_, rfl, ?_, rfl⟩
  · show (if (4:ℚ) = 4 then (2:ℚ) else 0) * (if (4:ℚ) = 4 then (2:ℚ) else 0) = 4
    norm_num
  · show (if (0:ℚ) = 0 then (1:ℚ) else 0) = 1
    norm_num


/-- a cubic coordinate with two interior critical points: `0, 3, -2, 1` has derivative
`3(13 t² − 16 t + 3)... ` — here simply: the derivative is not identically zero -/
example : Cubic1.ca (0:ℚ) 3 (-2) 1 ≠ 0 ∨ Cubic1.cb (0:ℚ) 3 (-2) ≠ 0 := by
  left; rw [c1_ca]; norm_num


/-- a positive-sweep arc and a parameter in range (hypotheses of the `_pos_partial` theorems) -/
example : (0:ℚ) < 2 ∧ (2:ℚ) ≤ 22/7 + 22/7 ∧ (0:ℚ) ≤ 1/4 ∧ (1/4:ℚ) < 1 := by norm_num


end Lyon.C11

