/-
  C15 — SVG-style builder (`WithSvg`): any command sequence gives a well-formed path with SVG
  semantics.

  All statements are about `Model/Path/Svg.lean` (the `def`s the driver runs at `Float32` against
  the real `WithSvg` on every check), for EVERY finite command sequence, every operand, and every
  arc geometry `g : Geo α ρ` (the arc → quadratics conversion is a parameter).

  * `svg_trace_wellnested`      the wrapped builder sees `(begin edge* end)*` — full strength.
  * `svg_trace_prefix_valid`    … and never a call out of place before `build` either.
  * `svg_path_wellformed`       the events those calls denote are a well-formed path.
  * `relative_is_offset`, `hv_lines`, `close_returns_to_start`, `implicit_move_to`
                                the individual SVG rules, as equations on single steps.
  * `smooth_reflects_same_kind` smooth control point = reflection iff the previous command was a
                                curve of the same kind, else the current point — for EVERY previous
                                command, arcs included.
  * `svg_semantics`             whole-sequence refinement: for EVERY sequence the calls are exactly
                                those of the SVG reference semantics (`Model/Path/SvgSpec.lean`).

  Both were `…_partial` (arcs excluded, with `decide`-checked counterexamples) until lyon commit
  059d9c0c ("WithSvg::arc resets last_ctrl …") repaired finding `C15-smooth-after-arc`; the model
  mirrors the repaired code and the former witnesses are kept below as comments.
  The only algebra needed is `hα : ∀ a, a + (a - a) = a` (reflecting the current point about
  itself): true in ℤ, in every additive group, and for finite IEEE numbers.

  Not covered by theorems: the numeric geometry of arcs (`Geo`: start point, pieces, end point) —
  the oracle checks on the real code that an arc starts at the current point and ends at its
  target (finding `C15-elliptic-arc-start-angle`, repaired by lyon commit 20bcfb88, lived
  there); IEEE rounding of `cur + v`.
-/
import LyonVerif.Lemmas.Svg

set_option linter.unusedSectionVars false
set_option linter.unusedVariables false

namespace Lyon.C15
open Lyon.Path Lyon.Svg

variable {α ρ : Type} [Add α] [Sub α]

/-! ### Protocol -/

/-- For every finite command sequence followed by `build`, the calls received by the wrapped
builder are `(begin edge* end)*`. -/
theorem svg_trace_wellnested (g : Geo α ρ) (zero : α) (cmds : List (Cmd α ρ)) :
    WellNested (runBuild g zero cmds) := by
  obtain ⟨b, hn, hi⟩ := run_nest g cmds (inv_init zero)
  have := nestState_append_of hn (endIfNeeded_nest hi)
  exact (wellNestedFrom_iff_nestState false _).2 this

/-- Before `build`, too, no call is ever out of place (so `build` "at any point" is safe), and the
adapter's `need_moveto` flag / `last_cmd` say whether the wrapped builder is inside a sub-path. -/
theorem svg_trace_prefix_valid (g : Geo α ρ) (zero : α) (cmds : List (Cmd α ρ)) :
    ∃ b, nestState false (run g (St.init zero) cmds).2 = some b ∧
      (run g (St.init zero) cmds).1.needMoveTo = !b ∧
      decide ((run g (St.init zero) cmds).1.lastCmd.code ≤ Verb.begin.code) = b := by
  obtain ⟨b, hn, hi⟩ := run_nest g cmds (inv_init zero)
  exact ⟨b, hn, hi.1, hi.2⟩

/-- The path events denoted by the calls (`Trace.specEvents`) form a well-formed path: every
edge starts where the previous one ended, every `End` names the sub-path's first point. -/
theorem svg_path_wellformed [DecidableEq α] (g : Geo α ρ) (zero : α) (cmds : List (Cmd α ρ)) :
    WellFormed (specEvents (runBuild g zero cmds)) :=
  specEvents_wellFormed _ (svg_trace_wellnested g zero cmds)

/-! ### The SVG rules, one step at a time -/

/-- Each relative command is its absolute form at `current + v` (all operands offset). -/
theorem relative_is_offset (g : Geo α ρ) (s : St α) (a b v : Pt α) (r : ρ) :
    step g s (.relMoveTo v) = step g s (.moveTo (s.cur + v)) ∧
    step g s (.relLineTo v) = step g s (.lineTo (s.cur + v)) ∧
    step g s (.relQuadTo a v) = step g s (.quadTo (s.cur + a) (s.cur + v)) ∧
    step g s (.relCubicTo a b v) = step g s (.cubicTo (s.cur + a) (s.cur + b) (s.cur + v)) ∧
    step g s (.smoothRelQuadTo v) = step g s (.smoothQuadTo (s.cur + v)) ∧
    step g s (.smoothRelCubicTo b v) = step g s (.smoothCubicTo (s.cur + b) (s.cur + v)) ∧
    step g s (.relArcTo r v) = step g s (.arcTo r (s.cur + v)) :=
  ⟨rfl, rfl, rfl, rfl, rfl, rfl, rfl⟩

/-- `H`/`h`/`V`/`v` are lines that keep the other coordinate of the current point. -/
theorem hv_lines (g : Geo α ρ) (s : St α) (t : α) :
    step g s (.hLineTo t) = step g s (.lineTo ⟨t, s.cur.y⟩) ∧
    step g s (.relHLineTo t) = step g s (.lineTo ⟨s.cur.x + t, s.cur.y⟩) ∧
    step g s (.vLineTo t) = step g s (.lineTo ⟨s.cur.x, t⟩) ∧
    step g s (.relVLineTo t) = step g s (.lineTo ⟨s.cur.x, s.cur.y + t⟩) :=
  ⟨rfl, rfl, rfl, rfl⟩

/-- Inside a sub-path, `close` ends it closed and the current point returns to the sub-path's
start; a second `close` does nothing. -/
theorem close_returns_to_start (g : Geo α ρ) (s : St α) (h : s.needMoveTo = false) :
    (step g s .close).2 = [.end_ true] ∧ (step g s .close).1.cur = s.first ∧
      (step g s .close).1.first = s.first ∧
      step g (step g s .close).1 .close = ((step g s .close).1, []) := by
  simp [step, close, h]

/-- States reached by command sequences: an open sub-path means the path is not empty. -/
theorem reachable_open_nonempty (g : Geo α ρ) (zero : α) (cmds : List (Cmd α ρ)) :
    (run g (St.init zero) cmds).1.needMoveTo = false →
      (run g (St.init zero) cmds).1.isEmpty = false :=
  run_NE g cmds (ne_init zero)

/-- A drawing command issued while no sub-path is open (`need_moveto`).
* On an empty path (nothing started yet) it is *replaced* by `move_to(to)`: the path then starts
  at the command's target.  This is lyon's documented convention (`SvgPathBuilder::line_to`);
  SVG has no rule here (path data must start with a move-to).
* Otherwise (after a `close`) a new sub-path is begun at the previous sub-path's start — the SVG
  rule "the next subpath starts at the same initial point as the current subpath" — and the
  edge is drawn from there. -/
theorem implicit_move_to (g : Geo α ρ) (s : St α) (hn : s.needMoveTo = true) (c1 c2 p : Pt α) :
    (s.isEmpty = true →
      step g s (.lineTo p) = moveTo s p ∧ step g s (.quadTo c1 p) = moveTo s p ∧
      step g s (.cubicTo c1 c2 p) = moveTo s p) ∧
    (s.isEmpty = false →
      (step g s (.lineTo p)).2 = endIfNeeded s ++ [.begin s.first (), .line p ()] ∧
      (step g s (.quadTo c1 p)).2 = endIfNeeded s ++ [.begin s.first (), .quad c1 p ()] ∧
      (step g s (.cubicTo c1 c2 p)).2 = endIfNeeded s ++ [.begin s.first (), .cubic c1 c2 p ()]) := by
  constructor <;> intro he <;>
    simp [step, lineTo, quadTo, cubicTo, beginIfNeeded, hn, he, moveTo]

/-- … at the very beginning: the path starts at the target, nothing else is emitted. -/
theorem implicit_move_to_first (g : Geo α ρ) (zero : α) (p : Pt α) :
    (step g (St.init zero) (.lineTo p)).2 = [.begin p ()] ∧
      (step g (St.init zero) (.lineTo p)).1.cur = p ∧
      (step g (St.init zero) (.lineTo p)).1.first = p := by
  simp [step, lineTo, beginIfNeeded, St.init, moveTo, endIfNeeded, Verb.code]

/-- … after a `close` of an open sub-path of a non-empty path: begin at that sub-path's start. -/
theorem implicit_move_to_after_close (g : Geo α ρ) (s : St α) (hn : s.needMoveTo = false)
    (he : s.isEmpty = false) (p : Pt α) :
    (step g (step g s .close).1 (.lineTo p)).2 = [.begin s.first (), .line p ()] ∧
      (step g (step g s .close).1 (.lineTo p)).1.cur = p := by
  simp [step, close, hn, he, lineTo, beginIfNeeded, moveTo, endIfNeeded, Verb.code]

/-! ### Smooth commands -/

/-- second control point (absolute) if `c` is a cubic-kind command (`C c S s`) -/
def cubicKind (s : St α) : Cmd α ρ → Option (Pt α)
  | .cubicTo _ c2 _ => some c2
  | .relCubicTo _ c2 _ => some (s.cur + c2)
  | .smoothCubicTo c2 _ => some c2
  | .smoothRelCubicTo c2 _ => some (s.cur + c2)
  | _ => none

/-- control point (absolute) if `c` is a quadratic-kind command (`Q q T t`) -/
def quadKind (s : St α) : Cmd α ρ → Option (Pt α)
  | .quadTo c _ => some c
  | .relQuadTo c _ => some (s.cur + c)
  | .smoothQuadTo _ => some (smoothQuadCtrl s)
  | .smoothRelQuadTo _ => some (smoothQuadCtrl s)
  | _ => none

/-- what SVG prescribes for the implicit control point of the NEXT smooth command, given the
previous command's kind (`k = some ctrl` if it was a curve of the same kind) -/
def reflected (cur : Pt α) : Option (Pt α) → Pt α
  | some k => cur + (cur - k)
  | none => cur

/-- The implicit control point of a smooth command is `current + (current − ctrl)`
(= `2·current − ctrl`, see `reflection_is_2c_minus_ctrl`) iff the previous command `c` was a
curve of the same kind, with `ctrl` that command's (second) control point; otherwise — after a
move, line, close, curve of the other kind, or ARC — it is the current point.
First part: `c` was actually drawn, i.e. it is not the first command of an empty path (which is
replaced by a move-to: then the control point is the current point, second part).
`hi` is the reachable-state invariant of `svg_trace_prefix_valid` (`need_moveto` ⇒ `last_cmd` is
`Close`/`End`); `hα` see the file header. -/
theorem smooth_reflects_same_kind (hα : ∀ a : α, a + (a - a) = a) (g : Geo α ρ) (s : St α)
    (c : Cmd α ρ) (hi : s.needMoveTo = true → Verb.begin.code < s.lastCmd.code) :
    (¬(s.needMoveTo = true ∧ s.isEmpty = true) →
      smoothCubicCtrl (step g s c).1 = reflected (step g s c).1.cur (cubicKind s c) ∧
      smoothQuadCtrl (step g s c).1 = reflected (step g s c).1.cur (quadKind s c)) ∧
    ((s.needMoveTo = true ∧ s.isEmpty = true) →
      smoothCubicCtrl (step g s c).1 = (step g s c).1.cur ∧
      smoothQuadCtrl (step g s c).1 = (step g s c).1.cur) := by
  -- a state whose `last_ctrl` is the current point reflects nothing, whatever `last_cmd` says
  have self_refl : ∀ t : St α, t.lastCtrl = t.cur →
      smoothCubicCtrl t = t.cur ∧ smoothQuadCtrl t = t.cur := by
    intro t ht
    unfold smoothCubicCtrl smoothQuadCtrl
    cases hl : t.lastCmd <;> simp [ht, pt_refl hα]
  -- arc commands that go through `arc`
  have harc : ∀ o : ArcOut α, smoothCubicCtrl (arc s o).1 = (arc s o).1.cur ∧
      smoothQuadCtrl (arc s o).1 = (arc s o).1.cur :=
    fun o => self_refl _ (arc_lastCtrl s o)
  -- everything else (including straight-line arcs, which are `line_to`)
  have hline : ∀ p : Pt α,
      (¬(s.needMoveTo = true ∧ s.isEmpty = true) →
        smoothCubicCtrl (lineTo s p).1 = (lineTo s p).1.cur ∧
        smoothQuadCtrl (lineTo s p).1 = (lineTo s p).1.cur) ∧
      ((s.needMoveTo = true ∧ s.isEmpty = true) →
        smoothCubicCtrl (lineTo s p).1 = (lineTo s p).1.cur ∧
        smoothQuadCtrl (lineTo s p).1 = (lineTo s p).1.cur) := by
    intro p
    constructor
    · intro hd
      cases hn : s.needMoveTo <;> cases he : s.isEmpty <;>
        first
        | (exfalso; exact hd ⟨hn, he⟩)
        | simp [lineTo, beginIfNeeded, moveTo, hn, he, smoothCubicCtrl, smoothQuadCtrl]
    · rintro ⟨hn, he⟩
      simp [lineTo, beginIfNeeded, moveTo, hn, he, smoothCubicCtrl, smoothQuadCtrl]
  have harcTo : ∀ (p : Pt α) (o : SvgArcOut α),
      (¬(s.needMoveTo = true ∧ s.isEmpty = true) →
        smoothCubicCtrl (arcTo s p o).1 = (arcTo s p o).1.cur ∧
        smoothQuadCtrl (arcTo s p o).1 = (arcTo s p o).1.cur) ∧
      ((s.needMoveTo = true ∧ s.isEmpty = true) →
        smoothCubicCtrl (arcTo s p o).1 = (arcTo s p o).1.cur ∧
        smoothQuadCtrl (arcTo s p o).1 = (arcTo s p o).1.cur) := by
    intro p o
    cases o with
    | straight => exact hline p
    | arc o => exact ⟨fun _ => harc o, fun _ => harc o⟩
  cases c with
  | arcTo r p => simpa [step, reflected, cubicKind, quadKind] using harcTo p _
  | relArcTo r v => simpa [step, reflected, cubicKind, quadKind] using harcTo _ _
  | arc r => exact ⟨fun _ => by simpa [step, reflected, cubicKind, quadKind] using harc _,
      fun _ => by simpa [step] using harc _⟩
  | _ =>
    clear harcTo hline harc self_refl
    constructor
    · intro hd
      cases hn : s.needMoveTo <;> cases he : s.isEmpty <;>
        first
        | (exfalso; exact hd ⟨hn, he⟩)
        | (cases hl : s.lastCmd <;>
            simp_all [step, moveTo, close, lineTo, quadTo, cubicTo, beginIfNeeded,
              smoothCubicCtrl, smoothQuadCtrl, reflected, cubicKind, quadKind, relToAbs,
              Verb.code])
    · rintro ⟨hn, he⟩
      cases hl : s.lastCmd <;>
        simp_all [step, moveTo, close, lineTo, quadTo, cubicTo, beginIfNeeded,
          smoothCubicCtrl, smoothQuadCtrl, Verb.code]

/-- `current + (current − ctrl)` is `2·current − ctrl` (over the integers, the lattice the tie
runs on). -/
theorem reflection_is_2c_minus_ctrl (cur k : Pt Int) :
    reflected cur (some k) = ⟨2 * cur.x - k.x, 2 * cur.y - k.y⟩ := by
  show (⟨cur.x + (cur.x - k.x), cur.y + (cur.y - k.y)⟩ : Pt Int) = _
  congr 1 <;> omega

/-! #### A smooth command after an arc (the former defect) -/

/-- a toy arc geometry: every `arc_to` is one quadratic starting at the current point -/
def wGeo : Geo Int Unit where
  center _ _ := .skip
  endpoint _ cur to := .arc (.curve cur true [(⟨15, 5⟩, to)])

/-- `M0,0 C0,10 10,10 10,0 A… 20,0 S30,10 30,0` -/
def wCmds : List (Cmd Int Unit) :=
  [.moveTo ⟨0, 0⟩, .cubicTo ⟨0, 10⟩ ⟨10, 10⟩ ⟨10, 0⟩, .arcTo () ⟨20, 0⟩,
   .smoothCubicTo ⟨30, 10⟩ ⟨30, 0⟩]

/-
  Former witness (true of the model of lyon BEFORE commit 059d9c0c, no longer true):

    theorem smooth_reflects_same_kind_witness :
        (run wGeo (St.init 0) (wCmds.take 3)).1.cur = ⟨20, 0⟩ ∧
        smoothCubicCtrl (run wGeo (St.init 0) (wCmds.take 3)).1 = ⟨30, 0⟩ ∧
        runBuild wGeo 0 wCmds = [… .cubic ⟨30, 0⟩ ⟨30, 10⟩ ⟨30, 0⟩ (), .end_ false]
    theorem svg_semantics_witness :
        runBuild wGeo 0 wCmds ≠ specBuild wGeo 0 wCmds

  `arc` overwrote `last_ctrl` with the position where the arc started and left `last_cmd` at
  `CubicTo`, so the smooth cubic reflected (10,0) about (20,0).  The same sequence now:
-/
theorem smooth_after_arc_repaired :
    (run wGeo (St.init 0) (wCmds.take 3)).1.cur = ⟨20, 0⟩ ∧
    (run wGeo (St.init 0) (wCmds.take 3)).1.lastCmd = .cubicTo ∧
    smoothCubicCtrl (run wGeo (St.init 0) (wCmds.take 3)).1 = ⟨20, 0⟩ ∧
    runBuild wGeo 0 wCmds =
      [.begin ⟨0, 0⟩ (), .cubic ⟨0, 10⟩ ⟨10, 10⟩ ⟨10, 0⟩ (), .line ⟨10, 0⟩ (),
       .quad ⟨15, 5⟩ ⟨20, 0⟩ (), .cubic ⟨20, 0⟩ ⟨30, 10⟩ ⟨30, 0⟩ (), .end_ false] := by
  decide

/-! ### Whole sequences against the SVG reference semantics -/

/-- For EVERY command sequence, the calls received by the wrapped builder (including those of
`build`) are exactly the ones the SVG reference semantics prescribes, and the current point
agrees.  (Was `svg_semantics_partial`, restricted to sequences without a smooth command directly
after an arc, before lyon commit 059d9c0c.) -/
theorem svg_semantics (hα : ∀ a : α, a + (a - a) = a) (g : Geo α ρ) (zero : α)
    (cmds : List (Cmd α ρ)) :
    runBuild g zero cmds = specBuild g zero cmds ∧
      (run g (St.init zero) cmds).1.cur = (Spec.run g (Spec.init zero) cmds).1.cur := by
  obtain ⟨e, s⟩ := sim_run hα g cmds (sim_init zero)
  exact ⟨by simp [runBuild, specBuild, e, sim_endIfNeeded s], s.cur⟩

/-! ### Non-vacuity -/

/-- the algebraic hypothesis `hα` holds on the integers -/
example : ∀ a : Int, a + (a - a) = a := by intro a; omega

/-- relative, smooth, H/V, close, draw-after-close, arc and smooth-after-arc commands -/
def exCmds : List (Cmd Int Unit) :=
  [.lineTo ⟨1, 0⟩, .relCubicTo ⟨0, 3⟩ ⟨3, 3⟩ ⟨3, 0⟩, .smoothCubicTo ⟨7, 5⟩ ⟨9, 1⟩, .hLineTo 2,
   .close, .relQuadTo ⟨1, 1⟩ ⟨2, 0⟩, .smoothRelQuadTo ⟨2, 0⟩, .arcTo () ⟨0, 0⟩,
   .smoothQuadTo ⟨5, 5⟩]

example : runBuild wGeo 0 exCmds = specBuild wGeo 0 exCmds := by decide

example : runBuild wGeo 0 exCmds =
    [.begin ⟨1, 0⟩ (), .cubic ⟨1, 3⟩ ⟨4, 3⟩ ⟨4, 0⟩ (), .cubic ⟨4, -3⟩ ⟨7, 5⟩ ⟨9, 1⟩ (),
     .line ⟨2, 1⟩ (), .end_ true, .begin ⟨1, 0⟩ (), .quad ⟨2, 1⟩ ⟨3, 0⟩ (), .quad ⟨4, -1⟩ ⟨5, 0⟩ (),
     .line ⟨5, 0⟩ (), .quad ⟨15, 5⟩ ⟨0, 0⟩ (), .quad ⟨0, 0⟩ ⟨5, 5⟩ (), .end_ false] := by decide

/-- hypotheses of `close_returns_to_start` / `implicit_move_to_after_close` -/
example : (run wGeo (St.init 0) (exCmds.take 4)).1.needMoveTo = false ∧
    (run wGeo (St.init 0) (exCmds.take 4)).1.isEmpty = false := by decide

/-- hypothesis of `implicit_move_to` (both cases) -/
example : (St.init (0 : Int)).needMoveTo = true ∧ (St.init (0 : Int)).isEmpty = true ∧
    (run wGeo (St.init 0) (exCmds.take 5)).1.needMoveTo = true ∧
    (run wGeo (St.init 0) (exCmds.take 5)).1.isEmpty = false := by decide

/-- hypotheses of `smooth_reflects_same_kind` -/
example :
    ((run wGeo (St.init 0) (exCmds.take 1)).1.needMoveTo = true →
      Verb.begin.code < (run wGeo (St.init 0) (exCmds.take 1)).1.lastCmd.code) ∧
    ¬((run wGeo (St.init 0) (exCmds.take 1)).1.needMoveTo = true ∧
      (run wGeo (St.init 0) (exCmds.take 1)).1.isEmpty = true) := by decide

end Lyon.C15
