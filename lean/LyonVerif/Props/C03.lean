import LyonVerif.Model.Tess.BasicShapes
namespace Lyon.C03
theorem placeholder : (1:Nat) = 1 := rfl
end Lyon.C03
