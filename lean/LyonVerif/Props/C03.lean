/-
  C03 — curved paths and built-in shapes are filled to within the requested tolerance.

  Component theorems about the model of `basic_shapes.rs` (`Model/Tess/BasicShapes.lean`, whose
  vertex and index buffers are compared bit-for-bit with `tessellate_rectangle` /
  `tessellate_circle` on every run):

  * `rect_covers_box`, `rect_inside_box`  the two triangles of `fill_rectangle` cover exactly the box
  * `border_counts`, `circle_counts`      a circle tessellated with recursion depth n has
                                          4·2ⁿ vertices and 4·2ⁿ − 2 triangles
  * `circle_vertices_on_circle`           every vertex is at distance exactly r from the centre
                                          (given cos² + sin² = 1)
  * `circle_tris_distinct`                every triangle has three pairwise distinct, valid ids
  * `depth_floor_insufficient_witness` / `depth_ceil_sufficient`   the arithmetic core of the
                                          repaired defect (`.log2() as u32` truncates: 2^⌊log₂ n⌋
                                          can be < n; with the ceiling 2^⌈log₂ n⌉ ≥ n)

  Whether curved paths in general (Béziers through the sweep, ellipses, rounded rectangles, two
  sub-paths sharing a curved edge) are filled within the tolerance is decided per explored input by
  the slab checker against an independent certified flattening of the exact boundary — translation
  validation, not a theorem about the sweep.
-/
import LyonVerif.Model.Tess.BasicShapes
import LyonVerif.Lemmas.Field

set_option linter.unusedSectionVars false
set_option linter.unusedVariables false

geom_all Lyon.Shapes

namespace Lyon.C03
open Lyon Lyon.Shapes

variable {K : Type} [Field K] [LinearOrder K] [IsStrictOrderedRing K]

/-! ### rectangle -/

/-- closed triangle membership by the signs of the three edge functions -/
def inTri (a b c p : P K) : Prop :=
  (0 ≤ (b - a).cross (p - a) ∧ 0 ≤ (c - b).cross (p - b) ∧ 0 ≤ (a - c).cross (p - c)) ∨
  ((b - a).cross (p - a) ≤ 0 ∧ (c - b).cross (p - b) ≤ 0 ∧ (a - c).cross (p - c) ≤ 0)

theorem rect_mesh [Transc K] (mn mx : P K) :
    (fillRectangle mn mx).verts = [mn, ⟨mn.x, mx.y⟩, mx, ⟨mx.x, mn.y⟩] ∧
    (fillRectangle mn mx).tris = [(0, 1, 2), (0, 2, 3)] := ⟨rfl, rfl⟩

/-- **The two triangles cover the box**: every point of the (closed) box lies in one of them. -/
theorem rect_covers_box (mn mx p : P K) (hx : mn.x ≤ mx.x) (hy : mn.y ≤ mx.y)
    (h1 : mn.x ≤ p.x) (h2 : p.x ≤ mx.x) (h3 : mn.y ≤ p.y) (h4 : p.y ≤ mx.y) :
    inTri mn ⟨mn.x, mx.y⟩ mx p ∨ inTri mn mx ⟨mx.x, mn.y⟩ p := by
  -- which side of the diagonal mn → mx
  by_cases hd : 0 ≤ (mx - mn).cross (p - mn)
  · left; right
    simp only [geom] at hd ⊢
    refine ⟨?_, ?_, ?_⟩ <;> nlinarith
  · right; right
    push_neg at hd
    simp only [geom] at hd ⊢
    refine ⟨?_, ?_, ?_⟩ <;> nlinarith

/-- **…and nothing else**: a point of either triangle is in the box. -/
theorem rect_inside_box (mn mx p : P K) (hx : mn.x < mx.x) (hy : mn.y < mx.y)
    (h : inTri mn ⟨mn.x, mx.y⟩ mx p ∨ inTri mn mx ⟨mx.x, mn.y⟩ p) :
    mn.x ≤ p.x ∧ p.x ≤ mx.x ∧ mn.y ≤ p.y ∧ p.y ≤ mx.y := by
  have hw : 0 < mx.x - mn.x := by linarith
  have hh : 0 < mx.y - mn.y := by linarith
  simp only [inTri, geom] at h
  rcases h with (⟨a, b, c⟩ | ⟨a, b, c⟩) | (⟨a, b, c⟩ | ⟨a, b, c⟩)
  all_goals
    refine ⟨?_, ?_, ?_, ?_⟩ <;> by_contra hc <;> push_neg at hc <;> nlinarith

/-! ### circle: structure -/

section circle
variable [Transc K]

theorem border_counts (c : P K) (a0 a1 r : K) (va vb n : Nat) (m : Mesh K) :
    (fillBorderRadius c a0 a1 r va vb n m).verts.length = m.verts.length + (2 ^ n - 1) ∧
    (fillBorderRadius c a0 a1 r va vb n m).tris.length = m.tris.length + (2 ^ n - 1) := by
  induction n generalizing a0 a1 va vb m with
  | zero => simp [fillBorderRadius]
  | succ n ih =>
    simp only [fillBorderRadius]
    have h1 := ih a0 ((a0 + a1) * Scalar.half) va m.verts.length
      ⟨m.verts ++ [c + (⟨Transc.cos ((a0 + a1) * Scalar.half), Transc.sin ((a0 + a1) * Scalar.half)⟩ : P K).smul r],
        m.tris ++ [(vb, m.verts.length, va)]⟩
    have h2 := ih ((a0 + a1) * Scalar.half) a1 m.verts.length vb
      (fillBorderRadius c a0 ((a0 + a1) * Scalar.half) r va m.verts.length n
        ⟨m.verts ++ [c + (⟨Transc.cos ((a0 + a1) * Scalar.half), Transc.sin ((a0 + a1) * Scalar.half)⟩ : P K).smul r],
          m.tris ++ [(vb, m.verts.length, va)]⟩)
    simp only [List.length_append, List.length_cons, List.length_nil] at h1 h2
    have hp : 2 ^ (n + 1) = 2 ^ n + 2 ^ n := by rw [pow_succ]; ring
    have hpos : 1 ≤ 2 ^ n := Nat.one_le_two_pow
    constructor
    · rw [h2.1, h1.1, hp]; omega
    · rw [h2.2, h1.2, hp]; omega

/-- **Counts**: a circle of non-zero radius tessellated with recursion depth
`n = circleRecursions` has `4·2ⁿ` vertices and `4·2ⁿ − 2` triangles. -/
theorem circle_counts (c : P K) (r tol : K) (m : Mesh K) (h : fillCircle c r tol = some m) :
    m.verts.length = 4 * 2 ^ circleRecursions (Scalar.abs r) tol ∧
    m.tris.length + 2 = 4 * 2 ^ circleRecursions (Scalar.abs r) tol := by
  unfold fillCircle at h
  simp only [] at h
  split at h
  · exact absurd h (by simp)
  · injection h with h
    subst h
    have hpos : 1 ≤ 2 ^ circleRecursions (Scalar.abs r) tol := Nat.one_le_two_pow
    simp only [border_counts, List.length_cons, List.length_nil]
    constructor <;> omega

/-- all vertices produced by `fill_border_radius` lie on the circle -/
def OnCircle (c : P K) (r : K) (p : P K) : Prop :=
  (p.x - c.x) * (p.x - c.x) + (p.y - c.y) * (p.y - c.y) = r * r

theorem border_on_circle (hcs : ∀ a : K, Transc.cos a * Transc.cos a + Transc.sin a * Transc.sin a = 1)
    (c : P K) (a0 a1 r : K) (va vb n : Nat) (m : Mesh K) (h : ∀ p ∈ m.verts, OnCircle c r p) :
    ∀ p ∈ (fillBorderRadius c a0 a1 r va vb n m).verts, OnCircle c r p := by
  induction n generalizing a0 a1 va vb m with
  | zero => simpa [fillBorderRadius] using h
  | succ n ih =>
    simp only [fillBorderRadius]
    apply ih
    apply ih
    intro p hp
    simp only [List.mem_append, List.mem_cons, List.not_mem_nil, or_false] at hp
    rcases hp with hp | hp
    · exact h p hp
    · subst hp
      have := hcs ((a0 + a1) * Scalar.half)
      simp only [OnCircle, geom] at this ⊢
      have e : ∀ (x y : K), (c.x + x * r - c.x) * (c.x + x * r - c.x) + (c.y + y * r - c.y) * (c.y + y * r - c.y)
          = r * r * (x * x + y * y) := by intros; ring
      rw [e, this]; ring

/-- **Every vertex of the circle tessellation is exactly on the circle** of radius `|r|` around
the centre (over a field, given `cos² + sin² = 1`). -/
theorem circle_vertices_on_circle
    (hcs : ∀ a : K, Transc.cos a * Transc.cos a + Transc.sin a * Transc.sin a = 1)
    (c : P K) (r tol : K) (m : Mesh K) (h : fillCircle c r tol = some m) :
    ∀ p ∈ m.verts, OnCircle c (Scalar.abs r) p := by
  unfold fillCircle at h
  simp only [] at h
  split at h
  · exact absurd h (by simp)
  · injection h with h
    subst h
    apply border_on_circle hcs
    apply border_on_circle hcs
    apply border_on_circle hcs
    apply border_on_circle hcs
    intro p hp
    simp only [List.mem_cons, List.not_mem_nil, or_false] at hp
    rcases hp with hp | hp | hp | hp <;> subst hp <;> simp only [OnCircle, geom] <;> ring

/-! ### circle: triangles reference three distinct, existing vertices -/

def TriOK (nv : Nat) (t : Tri) : Prop :=
  t.1 ≠ t.2.1 ∧ t.2.1 ≠ t.2.2 ∧ t.1 ≠ t.2.2 ∧ t.1 < nv ∧ t.2.1 < nv ∧ t.2.2 < nv

theorem triOK_mono {n n' : Nat} (h : n ≤ n') {t : Tri} (ht : TriOK n t) : TriOK n' t := by
  obtain ⟨a, b, c, d, e, f⟩ := ht
  exact ⟨a, b, c, by omega, by omega, by omega⟩

theorem border_tris_ok (c : P K) (a0 a1 r : K) (va vb n : Nat) (m : Mesh K)
    (hab : va ≠ vb) (ha : va < m.verts.length) (hb : vb < m.verts.length)
    (h : ∀ t ∈ m.tris, TriOK m.verts.length t) :
    ∀ t ∈ (fillBorderRadius c a0 a1 r va vb n m).tris,
      TriOK (fillBorderRadius c a0 a1 r va vb n m).verts.length t := by
  induction n generalizing a0 a1 va vb m with
  | zero => simpa [fillBorderRadius] using h
  | succ n ih =>
    simp only [fillBorderRadius]
    set mid := (a0 + a1) * Scalar.half
    set m1 : Mesh K := ⟨m.verts ++ [c + (⟨Transc.cos mid, Transc.sin mid⟩ : P K).smul r],
      m.tris ++ [(vb, m.verts.length, va)]⟩ with hm1
    have hlen1 : m1.verts.length = m.verts.length + 1 := by simp [hm1]
    have h1 : ∀ t ∈ m1.tris, TriOK m1.verts.length t := by
      intro t ht
      simp only [hm1, List.mem_append, List.mem_cons, List.not_mem_nil, or_false] at ht
      rcases ht with ht | ht
      · exact triOK_mono (by omega) (h t ht)
      · subst ht
        show vb ≠ m.verts.length ∧ m.verts.length ≠ va ∧ vb ≠ va ∧ vb < m1.verts.length
          ∧ m.verts.length < m1.verts.length ∧ va < m1.verts.length
        refine ⟨by omega, by omega, fun e => hab e.symm, by omega, by omega, by omega⟩
    set m2 := fillBorderRadius c a0 mid r va m.verts.length n m1 with hm2
    have hlen2 : m1.verts.length ≤ m2.verts.length := by
      rw [hm2, (border_counts c a0 mid r va m.verts.length n m1).1]; omega
    have h2 : ∀ t ∈ m2.tris, TriOK m2.verts.length t :=
      ih a0 mid va m.verts.length m1 (by omega) (by omega) (by omega) h1
    exact ih mid a1 m.verts.length vb m2 (by omega) (by omega) (by omega) h2

/-- **Every triangle of the circle tessellation references three pairwise distinct vertices
that exist.** -/
theorem circle_tris_distinct (c : P K) (r tol : K) (m : Mesh K) (h : fillCircle c r tol = some m) :
    ∀ t ∈ m.tris, TriOK m.verts.length t := by
  unfold fillCircle at h
  simp only [] at h
  split at h
  · exact absurd h (by simp)
  · injection h with h
    subst h
    have len : ∀ (a0 a1 : K) (va vb n : Nat) (mm : Mesh K),
        mm.verts.length ≤ (fillBorderRadius c a0 a1 (Scalar.abs r) va vb n mm).verts.length := by
      intro a0 a1 va vb n mm; rw [(border_counts c a0 a1 _ va vb n mm).1]; omega
    apply border_tris_ok (hab := by decide)
    · exact lt_of_lt_of_le (by simp) (le_trans (len _ _ _ _ _ _) (le_trans (len _ _ _ _ _ _) (len _ _ _ _ _ _)))
    · exact lt_of_lt_of_le (by simp) (le_trans (len _ _ _ _ _ _) (le_trans (len _ _ _ _ _ _) (len _ _ _ _ _ _)))
    apply border_tris_ok (hab := by decide)
    · exact lt_of_lt_of_le (by simp) (le_trans (len _ _ _ _ _ _) (len _ _ _ _ _ _))
    · exact lt_of_lt_of_le (by simp) (le_trans (len _ _ _ _ _ _) (len _ _ _ _ _ _))
    apply border_tris_ok (hab := by decide)
    · exact lt_of_lt_of_le (by simp) (len _ _ _ _ _ _)
    · exact lt_of_lt_of_le (by simp) (len _ _ _ _ _ _)
    apply border_tris_ok (hab := by decide) (ha := by simp) (hb := by simp)
    intro t ht
    simp only [List.mem_cons, List.not_mem_nil, or_false] at ht
    rcases ht with ht | ht <;> subst ht <;> simp [TriOK]

end circle

/-! ### the arithmetic of the recursion depth (the repaired defect) -/

/-- truncating the logarithm can give too few segments: `2^⌊log₂ 79⌋ = 64 < 79`
(r = 100, tolerance 0.01 needs 79 segments per quadrant; the old code produced 64). -/
theorem depth_floor_insufficient_witness : 2 ^ Nat.log2 79 < 79 := by decide

/-- with the ceiling there are always enough: `n ≤ 2^⌈log₂ n⌉` -/
theorem depth_ceil_sufficient (n : Nat) : n ≤ 2 ^ (if n ≤ 1 then 0 else Nat.log2 (n - 1) + 1) := by
  split
  · omega
  · have h := Nat.lt_log2_self (n := n - 1)
    omega

/-! ### non-vacuity -/

example : inTri (⟨0, 0⟩ : P ℚ) ⟨0, 2⟩ ⟨2, 2⟩ ⟨1/2, 1⟩ := by
  right; simp [geom]; norm_num

end Lyon.C03
