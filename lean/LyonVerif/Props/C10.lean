/-
  C10 — curve operations are consistent with evaluation.

  All statements are about the model functions of `Model/Geom/Basic.lean` (the same `def`s the
  correspondence check runs at `Float32`/`Float` against lyon) instantiated at an arbitrary
  linearly ordered field `K`.  They hold for *all* control points and *all* parameters — they
  are polynomial identities, so no range restriction on `t`, `u`, `a`, `b` is needed.

  What is not a theorem here: anything about IEEE rounding (covered by the oracle with a
  forward-error envelope), and additivity of `length` for quadratics/cubics, which lyon
  computes by closed form / quadrature approximations (`…length_additive` is proved for line
  segments; the curved case is checked by the oracle within tolerance — named gap).
-/
import LyonVerif.Model.Geom.Basic
import LyonVerif.Lemmas.Field

set_option linter.unusedSectionVars false
set_option linter.unusedVariables false

geom_all Lyon.Seg
geom_all Lyon.Quad
geom_all Lyon.Cubic
geom_all Lyon.Xf
geom_all Lyon.Arc

namespace Lyon.C10
open Lyon Scalar

variable {K : Type} [Field K] [LinearOrder K] [IsStrictOrderedRing K]

/-! ### Line segments -/

theorem seg_split_left (s : Seg K) (t u : K) : (s.split t).1.sample u = s.sample (t * u) := by
  geom_ring
theorem seg_split_right (s : Seg K) (t u : K) :
    (s.split t).2.sample u = s.sample (t + (1 - t) * u) := by
  geom_ring
theorem seg_before_after_eq_split (s : Seg K) (t : K) :
    s.beforeSplit t = (s.split t).1 ∧ s.afterSplit t = (s.split t).2 := ⟨rfl, rfl⟩
theorem seg_split_range_sample (s : Seg K) (a b u : K) :
    (s.splitRange a b).sample u = s.sample (a + (b - a) * u) := by
  geom_ring
theorem seg_flip_sample (s : Seg K) (u : K) : s.flip.sample u = s.sample (1 - u) := by
  geom_ring
theorem seg_xy_components (s : Seg K) (t : K) : s.x t = (s.sample t).x ∧ s.y t = (s.sample t).y := by
  constructor <;> geom_ring
theorem seg_transformed_sample (s : Seg K) (m : Xf K) (t : K) :
    (s.transformed m).sample t = m.apply (s.sample t) := by
  geom_ring
/-- the "derivative" of a segment (its vector) is the exact slope of `sample` -/
theorem seg_derivative_slope (s : Seg K) (t h : K) :
    s.sample (t + h) = s.sample t + s.toVector.smul h := by
  geom_ring

/-! ### Quadratic Bézier segments -/

theorem quad_split_left (q : Quad K) (t u : K) : (q.split t).1.sample u = q.sample (t * u) := by
  geom_ring
theorem quad_split_right (q : Quad K) (t u : K) :
    (q.split t).2.sample u = q.sample (t + (1 - t) * u) := by
  geom_ring
theorem quad_before_after_eq_split (q : Quad K) (t : K) :
    q.beforeSplit t = (q.split t).1 ∧ q.afterSplit t = (q.split t).2 := ⟨rfl, rfl⟩
theorem quad_split_range_sample (q : Quad K) (a b u : K) :
    (q.splitRange a b).sample u = q.sample (a + (b - a) * u) := by
  geom_ring
theorem quad_flip_sample (q : Quad K) (u : K) : q.flip.sample u = q.sample (1 - u) := by
  geom_ring
theorem quad_xy_components (q : Quad K) (t : K) : q.x t = (q.sample t).x ∧ q.y t = (q.sample t).y := by
  constructor <;> geom_ring
theorem quad_dxdy_components (q : Quad K) (t : K) :
    q.dx t = (q.derivative t).x ∧ q.dy t = (q.derivative t).y := by
  constructor <;> geom_ring
theorem quad_to_cubic_sample (q : Quad K) (t : K) : q.toCubic.sample t = q.sample t := by
  geom_ring
theorem quad_to_quadratic_to_cubic (q : Quad K) : q.toCubic.toQuadratic = q := by
  cases q with | mk a c b =>
  simp only [Quad.toCubic, Cubic.toQuadratic, Quad.mk.injEq]
  refine ⟨trivial, ?_, trivial⟩
  geom_ring
theorem quad_transformed_sample (q : Quad K) (m : Xf K) (t : K) :
    (q.transformed m).sample t = m.apply (q.sample t) := by
  geom_ring
theorem quad_baseline (q : Quad K) : q.baseline.sample 0 = q.sample 0 ∧ q.baseline.sample 1 = q.sample 1 := by
  constructor <;> geom_ring
/-- `derivative` is the slope of the sampled curve: exact second-order Taylor expansion with the
explicit (constant) remainder `h²·(from − 2·ctrl + to)`. -/
theorem quad_derivative_slope (q : Quad K) (t h : K) :
    q.sample (t + h) = q.sample t + (q.derivative t).smul h
      + ((q.a - q.c.smul 2) + q.b).smul (h * h) := by
  geom_ring

/-! ### Cubic Bézier segments -/

theorem cubic_split_left (c : Cubic K) (t u : K) : (c.split t).1.sample u = c.sample (t * u) := by
  geom_ring
theorem cubic_split_right (c : Cubic K) (t u : K) :
    (c.split t).2.sample u = c.sample (t + (1 - t) * u) := by
  geom_ring
theorem cubic_before_after_eq_split (c : Cubic K) (t : K) :
    c.beforeSplit t = (c.split t).1 ∧ c.afterSplit t = (c.split t).2 := ⟨rfl, rfl⟩
theorem cubic_split_range_sample (c : Cubic K) (a b u : K) :
    (c.splitRange a b).sample u = c.sample (a + (b - a) * u) := by
  geom_ring
theorem cubic_flip_sample (c : Cubic K) (u : K) : c.flip.sample u = c.sample (1 - u) := by
  geom_ring
theorem cubic_xy_components (c : Cubic K) (t : K) : c.x t = (c.sample t).x ∧ c.y t = (c.sample t).y := by
  constructor <;> geom_ring
theorem cubic_dxdy_components (c : Cubic K) (t : K) :
    c.dx t = (c.derivative t).x ∧ c.dy t = (c.derivative t).y := by
  constructor <;> geom_ring
theorem cubic_transformed_sample (c : Cubic K) (m : Xf K) (t : K) :
    (c.transformed m).sample t = m.apply (c.sample t) := by
  geom_ring
theorem cubic_baseline (c : Cubic K) : c.baseline.sample 0 = c.sample 0 ∧ c.baseline.sample 1 = c.sample 1 := by
  constructor <;> geom_ring
/-- `derivative` is the slope of the sampled curve: exact Taylor expansion; the remainder is
`h²·(R₂ + h·R₃)` with `R₃ = to − 3·ctrl2 + 3·ctrl1 − from` and
`R₂ = 3(1−t)·(from − 2 ctrl1 + ctrl2) + 3t·(ctrl1 − 2 ctrl2 + to)`. -/
theorem cubic_derivative_slope (c : Cubic K) (t h : K) :
    c.sample (t + h) = c.sample t + (c.derivative t).smul h
      + ((((c.a - c.c1.smul 2) + c.c2).smul (3 * (1 - t)) + ((c.c1 - c.c2.smul 2) + c.b).smul (3 * t))
          + (((c.b - c.c2.smul 3) + c.c1.smul 3) - c.a).smul h).smul (h * h) := by
  geom_ring

/-! ### Elliptic arcs.  `sin`/`cos` are arbitrary functions (`[Transc K]` is a parameter), so the
statements hold for every "ellipse function of the angle": they are identities on angles. -/

section arc
variable [Transc K]

theorem arc_angle_split_left (a : Arc K) (t u : K) : (a.split t).1.getAngle u = a.getAngle (t * u) := by
  geom_ring
theorem arc_angle_split_right (a : Arc K) (t u : K) :
    (a.split t).2.getAngle u = a.getAngle (t + (1 - t) * u) := by
  geom_ring
theorem arc_sample_of_angle (a b : Arc K) (t u : K) (hc : a.center = b.center) (hr : a.radii = b.radii)
    (hx : a.xrot = b.xrot) (h : a.getAngle t = b.getAngle u) : a.sample t = b.sample u := by
  simp only [Arc.sample, hc, hr, hx, h]
theorem arc_split_left (a : Arc K) (t u : K) : (a.split t).1.sample u = a.sample (t * u) :=
  arc_sample_of_angle _ _ _ _ rfl rfl rfl (arc_angle_split_left a t u)
theorem arc_split_right (a : Arc K) (t u : K) : (a.split t).2.sample u = a.sample (t + (1 - t) * u) :=
  arc_sample_of_angle _ _ _ _ rfl rfl rfl (arc_angle_split_right a t u)
theorem arc_before_after_eq_split (a : Arc K) (t : K) :
    a.beforeSplit t = (a.split t).1 ∧ a.afterSplit t = (a.split t).2 := ⟨rfl, rfl⟩
theorem arc_split_range_sample (a : Arc K) (x y u : K) :
    (a.splitRange x y).sample u = a.sample (x + (y - x) * u) :=
  arc_sample_of_angle _ _ _ _ rfl rfl rfl (by geom_ring)
theorem arc_flip_sample (a : Arc K) (u : K) : a.flip.sample u = a.sample (1 - u) :=
  arc_sample_of_angle _ _ _ _ rfl rfl rfl (by geom_ring)
end arc

/-! ### Length of line segments is additive under splitting (`t ∈ [0,1]`).
`sqrt` is a parameter; the two laws used are hypotheses (satisfied by `Real.sqrt`). -/

theorem seg_length_additive [Transc K] (hs0 : ∀ x : K, 0 ≤ x → 0 ≤ Transc.sqrt x)
    (hsq : ∀ x : K, 0 ≤ x → Transc.sqrt x * Transc.sqrt x = x)
    (s : Seg K) (t : K) (h0 : 0 ≤ t) (h1 : t ≤ 1) :
    (s.split t).1.length + (s.split t).2.length = s.length := by
  have key : ∀ (c L : K), 0 ≤ c → 0 ≤ L → Transc.sqrt (c * c * L) = c * Transc.sqrt L := by
    intro c L hc hL
    have hcL : 0 ≤ c * c * L := mul_nonneg (mul_nonneg hc hc) hL
    have h1' := hsq _ hcL
    have h2' := hsq _ hL
    have ha := hs0 _ hcL
    have hb : 0 ≤ c * Transc.sqrt L := mul_nonneg hc (hs0 _ hL)
    have : (Transc.sqrt (c * c * L)) ^ 2 = (c * Transc.sqrt L) ^ 2 := by
      rw [pow_two, h1', mul_pow, pow_two (Transc.sqrt L), h2']; ring
    exact (sq_eq_sq₀ ha hb).mp this
  have hL : 0 ≤ (s.b.x - s.a.x) * (s.b.x - s.a.x) + (s.b.y - s.a.y) * (s.b.y - s.a.y) :=
    add_nonneg (mul_self_nonneg _) (mul_self_nonneg _)
  have e1 : (s.split t).1.length = t * s.length := by
    simp only [Seg.length, Seg.split, Seg.sample, Seg.toVector, P.sqLen, P.lerp, P.sub_def, geom,
      Nat.cast_one]
    rw [← key t _ h0 hL]; congr 1; ring
  have e2 : (s.split t).2.length = (1 - t) * s.length := by
    simp only [Seg.length, Seg.split, Seg.sample, Seg.toVector, P.sqLen, P.lerp, P.sub_def, geom,
      Nat.cast_one]
    rw [← key (1 - t) _ (by linarith) hL]; congr 1; ring
  rw [e1, e2]; ring

/-- non-vacuity of `seg_length_additive`'s premises: a concrete parameter in range. -/
example : (0:ℚ) ≤ 1/4 ∧ (1/4:ℚ) ≤ 1 := by norm_num

end Lyon.C10
