/-
  C05f — the advancement clause of C05 on the complete stroker model, and the variable-width premise
  (R2) discharged.

  §1  Advancement of POLYLINES (every scalar type, floats included; the sums are the model's own
      additions in the model's order, tied bit for bit to lyon; only `is_nan(NaN) = true` is assumed):
      `stroke_polyline_advancement_open`  one open sub-path at the start of a tessellation, ALL joins
          and caps (round ones included: arc fans and round caps inherit `self.vertex`): every vertex
          names an endpoint `k`, sits on it and reports entry `k` of `advTable`:
          `0, a_{k-1} + |p_k − p_{k-1}|`;
      `stroke_path_advancement`  a whole path of open sub-paths: what lyon does is NOT a restart at each
          `begin` — `begin` hands out `sub_path_start_advancement`, which `end_with_caps` sets to the
          advancement of the last point: the advancement runs on through the path (`pathTable`);
      `subpath_advancement_idle`  the same for a sub-path started in any idle state (reused
          tessellator state between sub-paths), with the state afterwards.
      Over an ordered field with `sqrt ≥ 0`: every entry is `≥` the start and the entries never
      decrease along the whole path (`pathTable_ge`, `pathTable_sorted`).
      `_partial` / not covered: merged points (the table would range over the KEPT points) and closed
      sub-paths (the first endpoint then carries two advancements: the start value on the vertices
      `close()` re-creates and start + perimeter on its join) — explored by the oracle clause
      `stroke/advancement-arc-length`.
  §2  Curves: what the model does.  `flattened_step` gives the join `prev.advancement + |chord|` and the
      next point `join.advancement + |next chord|` (when they are still NaN), and its two vertices carry
      the join's value: the advancement accumulates the flattened chord lengths
      (`flattened_step_advancement`), monotonically when `sqrt ≥ 0` (`flattened_step_advancement_mono`).
  §3  (R2): `SkipApart` is a theorem over ordered fields (`skipApart_field`), so the variable-width
      theorems need no arithmetic premise there: `stroke_indices_valid_variable_field`,
      `prog_indices_valid_variable_field`.
  Not attempted: "finite positions" as NaN-freedom at Float32 — the model's Float32 operations are
  opaque to the kernel, and over a field every value is finite; a "no division by zero is reachable"
  statement would have to enumerate the divisions of the model by hand (no such inventory exists).
-/
import LyonVerif.Lemmas.StrokeAdvPath
import LyonVerif.Props.C05e

set_option linter.unusedSectionVars false
set_option linter.unusedVariables false

namespace Lyon.C05f
open Lyon Scalar Lyon.Stroke Lyon.Stroke.Full Lyon.C05 Lyon.C05b Lyon.C05c

/-! ## §1 polylines -/

section Adv
variable {α : Type} [Scalar α] [Transc α] [Asin α] [FlatConst α]

/-- **advancement of an open polyline sub-path, all joins and caps, every scalar type** -/
theorem stroke_polyline_advancement_open (e : Env α) (store : Nat → List α) (hfw : e.o.varWidth = false)
    (hnan : Transc.isNaN (nan : α) = true)
    (i0 i1 : Nat) (p0 p1 : P α) (rest : List (Nat × P α))
    (hm : NoMerge e.thr (p0 :: p1 :: rest.map (·.2))) :
    ∀ v ∈ (runEvents e store (IdEv.begin i0 p0 :: IdEv.line i1 p1 :: (lineEvs rest ++ [IdEv.end_ false]))).st.out.verts,
      ∃ t ∈ advTable zero ((i0, p0) :: (i1, p1) :: rest),
        v.src = .endpoint t.1 ∧ v.positionOnPath = t.2.1 ∧ v.advancement = t.2.2 :=
  polyline_advancement e store hfw hnan i0 i1 p0 p1 rest hm

/-- **a sub-path started in any idle state** (nothing in the window: a new tessellator, or after any
earlier sub-path was ended): its vertices agree with the table started at the current
`sub_path_start_advancement`; afterwards the run is idle and `sub_path_start_advancement` is the
table's last entry -/
theorem subpath_advancement_idle (e : Env α) (store : Nat → List α) (hfw : e.o.varWidth = false)
    (hnan : Transc.isNaN (nan : α) = true) (r0 : Run α) (h0 : Idle r0)
    (i0 i1 : Nat) (p0 p1 : P α) (rest : List (Nat × P α))
    (hm : NoMerge e.thr (p0 :: p1 :: rest.map (·.2))) :
    Idle (runFrom e store r0 (subEvs i0 i1 p0 p1 rest))
    ∧ Emits (AdvOK (advTable r0.st.subPathStartAdvancement ((i0, p0) :: (i1, p1) :: rest)))
        r0.st.out (runFrom e store r0 (subEvs i0 i1 p0 p1 rest)).st.out
    ∧ ((advTable r0.st.subPathStartAdvancement ((i0, p0) :: (i1, p1) :: rest)).getLast?).map (·.2.2)
        = some (runFrom e store r0 (subEvs i0 i1 p0 p1 rest)).st.subPathStartAdvancement :=
  subpath_advancement e store hfw hnan r0 h0 i0 i1 p0 p1 rest hm

/-- **advancement along a whole path of open polyline sub-paths**, all joins and caps, every scalar
type: every vertex names an endpoint of some sub-path, sits on it and reports that endpoint's entry
of `pathTable 0`: within a sub-path the edge lengths are added up, and each sub-path starts at the
value the previous one ended with.
`_partial`: merged points and closed sub-paths are not covered (see the header). -/
theorem stroke_path_advancement_partial (e : Env α) (store : Nat → List α) (hfw : e.o.varWidth = false)
    (hnan : Transc.isNaN (nan : α) = true) (subs : List (SubP α))
    (hm : ∀ s ∈ subs, NoMerge e.thr (s.pts.map (·.2))) :
    ∀ v ∈ (runEvents e store (pathEvs subs)).st.out.verts,
      ∃ t ∈ pathTable zero subs, v.src = .endpoint t.1 ∧ v.positionOnPath = t.2.1 ∧ v.advancement = t.2.2 :=
  path_advancement e store hfw hnan subs hm

end Adv

section AdvField
variable {K : Type} [Field K] [LinearOrder K] [IsStrictOrderedRing K] [Transc K]
open Lyon.C05d (advTable_ge advTable_sorted)

theorem le_lastAdv (hs0 : ∀ x : K, 0 ≤ x → 0 ≤ Transc.sqrt x) (a : K) (pts : List (Nat × P K)) :
    a ≤ lastAdv a (advTable a pts) ∧ ∀ t ∈ advTable a pts, t.2.2 ≤ lastAdv a (advTable a pts) := by
  unfold lastAdv
  cases hl : (advTable a pts).getLast? with
  | none =>
    have : advTable a pts = [] := List.getLast?_eq_none_iff.mp hl
    simp [this]
  | some y =>
    have hy : y ∈ advTable a pts := List.mem_of_getLast? hl
    refine ⟨advTable_ge hs0 pts a y hy, ?_⟩
    intro t ht
    show t.2.2 ≤ y.2.2
    have hsorted := advTable_sorted hs0 pts a
    -- every element of a sorted list is below its last element
    have key : ∀ (l : List K), l.Pairwise (· ≤ ·) → ∀ x ∈ l, ∀ z, l.getLast? = some z → x ≤ z := by
      intro l
      induction l with
      | nil => intro _ x hx; simp at hx
      | cons u us ih =>
        intro hp x hx z hz
        rw [List.pairwise_cons] at hp
        cases us with
        | nil =>
          simp at hz hx; subst hz; subst hx; exact le_refl _
        | cons w ws =>
          have hz' : (w :: ws).getLast? = some z := by simpa [List.getLast?_cons_cons] using hz
          rcases List.mem_cons.mp hx with rfl | hx'
          · exact hp.1 z (List.mem_of_getLast? hz')
          · exact ih hp.2 x hx' z hz'
    exact key _ hsorted t.2.2 (List.mem_map.mpr ⟨t, ht, rfl⟩) y.2.2 (by rw [List.getLast?_map, hl]; rfl)

/-- every advancement of the path's table is at least the start value (`0 ≤ length`) -/
theorem pathTable_ge (hs0 : ∀ x : K, 0 ≤ x → 0 ≤ Transc.sqrt x) :
    ∀ (subs : List (SubP K)) (a : K), ∀ t ∈ pathTable a subs, a ≤ t.2.2 := by
  intro subs
  induction subs with
  | nil => intro a t ht; simp [pathTable] at ht
  | cons s r ih =>
    intro a t ht
    simp only [pathTable, List.mem_append] at ht
    rcases ht with ht | ht
    · exact advTable_ge hs0 _ a t ht
    · exact le_trans (le_lastAdv hs0 a s.pts).1 (ih _ t ht)

/-- **monotone along the whole path**: the advancements of the path's table never decrease -/
theorem pathTable_sorted (hs0 : ∀ x : K, 0 ≤ x → 0 ≤ Transc.sqrt x) :
    ∀ (subs : List (SubP K)) (a : K), ((pathTable a subs).map (·.2.2)).Pairwise (· ≤ ·) := by
  intro subs
  induction subs with
  | nil => intro a; simp [pathTable]
  | cons s r ih =>
    intro a
    simp only [pathTable, List.map_append, List.pairwise_append]
    refine ⟨advTable_sorted hs0 _ a, ih _, ?_⟩
    intro x hx y hy
    simp only [List.mem_map] at hx hy
    obtain ⟨t, ht, rfl⟩ := hx
    obtain ⟨u, hu, rfl⟩ := hy
    exact le_trans ((le_lastAdv hs0 a s.pts).2 t ht) (pathTable_ge hs0 r _ u hu)

end AdvField

/-! ## §2 curves: what `flattened_step` does with the advancement -/

section Curves
variable {α : Type} [Scalar α] [Transc α]

/-- the advancement `flattened_step` gives its join: `prev.advancement + |chord|` if still NaN -/
def flatJoinAdv (prev join : EP α) : α :=
  if Transc.isNaN join.advancement then prev.advancement + len (join.position - prev.position)
  else join.advancement

/-- the advancement `flattened_step` leaves in the join and in the next point
(`join.advancement + |next chord|` if still NaN), and the one its two vertices carry -/
theorem flattened_step_advancement (prev join next : EP α) (d : VData α) (o : Out α) :
    (flattenedStep prev join next d o).join.advancement = flatJoinAdv prev join
    ∧ (flattenedStep prev join next d o).next.advancement
        = (if Transc.isNaN next.advancement then flatJoinAdv prev join + len (next.position - join.position)
           else next.advancement)
    ∧ ((flattenedStep prev join next d o).skip = false →
        ∃ v1 v2 : VData α, (flattenedStep prev join next d o).out.verts = o.verts ++ [v1, v2]
          ∧ v1.advancement = flatJoinAdv prev join ∧ v2.advancement = flatJoinAdv prev join) := by
  unfold flatJoinAdv
  refine ⟨?_, ?_, ?_⟩
  · unfold flattenedStep; simp only []; split_ifs <;> rfl
  · unfold flattenedStep; simp only []; split_ifs <;> rfl
  · intro h
    have h1 : (flattenedStep prev join next d o).join.advancement
        = (if Transc.isNaN join.advancement then prev.advancement + len (join.position - prev.position)
           else join.advancement) := by
      unfold flattenedStep; simp only []; split_ifs <;> rfl
    obtain ⟨jAdv, nAdv, p0, p1, nrm, c, dc, e⟩ := flattenedStep_shape prev join next d o
    rw [e] at h h1 ⊢
    by_cases hc : c
    · rw [if_pos hc] at h; simp at h
    · rw [if_neg hc] at h1 ⊢
      have h1' : jAdv = (if Transc.isNaN join.advancement then prev.advancement + len (join.position - prev.position)
           else join.advancement) := h1
      exact ⟨{ d with advancement := jAdv, normal := nrm, side := .positive },
        { d with advancement := jAdv, normal := -nrm, side := .negative }, by simp [Out.addVertex], h1', h1'⟩

end Curves

section CurvesField
variable {K : Type} [Field K] [LinearOrder K] [IsStrictOrderedRing K] [Transc K]

/-- along a flattened curve the advancement accumulates the chord lengths and never decreases: for a
join and a next point that are still waiting for their advancement (`is_nan`),
`prev.advancement ≤ join.advancement = prev.advancement + |chord| ≤ next.advancement` -/
theorem flattened_step_advancement_mono (hs0 : ∀ x : K, 0 ≤ x → 0 ≤ Transc.sqrt x)
    (prev join next : EP K) (d : VData K) (o : Out K)
    (hj : Transc.isNaN join.advancement = true) (hn : Transc.isNaN next.advancement = true) :
    (flattenedStep prev join next d o).join.advancement = prev.advancement + len (join.position - prev.position)
    ∧ (flattenedStep prev join next d o).next.advancement
        = prev.advancement + len (join.position - prev.position) + len (next.position - join.position)
    ∧ prev.advancement ≤ (flattenedStep prev join next d o).join.advancement
    ∧ (flattenedStep prev join next d o).join.advancement ≤ (flattenedStep prev join next d o).next.advancement := by
  obtain ⟨h1, h2, _⟩ := flattened_step_advancement prev join next d o
  unfold flatJoinAdv at h1 h2
  rw [hj] at h1 h2
  rw [hn] at h2
  simp only [if_true] at h1 h2
  have l1 : (0 : K) ≤ len (join.position - prev.position) :=
    hs0 _ (by simp only [geom]; exact add_nonneg (mul_self_nonneg _) (mul_self_nonneg _))
  have l2 : (0 : K) ≤ len (next.position - join.position) :=
    hs0 _ (by simp only [geom]; exact add_nonneg (mul_self_nonneg _) (mul_self_nonneg _))
  refine ⟨h1, h2, ?_, ?_⟩
  · rw [h1]; exact le_add_of_nonneg_right l1
  · rw [h1, h2]; exact le_add_of_nonneg_right l2

end CurvesField

/-! ## §3 (R2) over ordered fields -/

section R2
open Lyon.Stroke.Prog Lyon.C05e
variable {K : Type} [Field K] [LinearOrder K] [IsStrictOrderedRing K] [Transc K] [Asin K] [FlatConst K]

/-- **variable width, ordered fields, all event lists (curves included), every join**: no arithmetic
premise — `SkipApart` (a skipped join moves away from the point before it) is `skipApart_field` -/
theorem stroke_indices_valid_variable_field (e : Env K) (store : Nat → List K) (evs : List (IdEv K))
    (hvw : e.o.varWidth = true) :
    VSteps (VertexOK e store (evIds evs)) (Out.empty 0) (runEvents e store evs).st.out :=
  stroke_indices_valid_variable e store evs hvw (skipApart_field e.thr)

/-- the same for `StrokeBuilder` programs (`Props/C05e.lean`) -/
theorem prog_indices_valid_variable_field (o : Opts K) (ix : Lyon.StrokeQuad.Ix K) (cmds : List (Cmd K))
    (hvw : o.varWidth = true) :
    VSteps (ProgVertexOK (expand ⟨o, 0⟩ cmds)) (Out.empty 0) (runProg o ix cmds).st.out :=
  Lyon.C05e.prog_indices_valid_variable o ix cmds hvw (skipApart_field _)

end R2

/-! ## non-vacuity -/

section Examples
open Lyon.C05d (toyNaN)
attribute [local instance] toyNaN toyAsin toyFlat

/-- two open sub-paths, `(0,0) → (3,4) → (3,10)` and `(0,0) → (0,5)`: the second continues at `11` -/
def exSubs : List (SubP ℚ) := [⟨0, 1, ⟨0, 0⟩, ⟨3, 4⟩, [(2, ⟨3, 10⟩)]⟩, ⟨3, 4, ⟨0, 0⟩, ⟨0, 5⟩, []⟩]

example : (pathTable (0 : ℚ) exSubs).map (·.2.2) = [0, 5, 11, 11, 16] := by decide +kernel

/-- hypotheses of `stroke_path_advancement_partial` (round join and caps allowed) -/
example : Transc.isNaN (nan : ℚ) = true := by
  show decide ((nan : ℚ) = 0) = true
  simp [nan, geom]

example : ∀ s ∈ exSubs, NoMerge (Env.new (⟨1 / 10, 1, 4, .round, .round, .round, false, 0⟩ : Opts ℚ)
    (fun _ _ _ _ => none)).thr (s.pts.map (·.2)) := by
  intro s hs
  simp only [exSubs, List.mem_cons, List.mem_nil_iff, or_false] at hs
  rcases hs with rfl | rfl <;>
    (simp [SubP.pts, NoMerge, pointsAreTooClose, Env.new, squareMergeThreshold, geom]; norm_num)

/-- hypotheses of `flattened_step_advancement_mono`: endpoints still waiting for their advancement -/
example : Transc.isNaN (EP.mk' (⟨1, 0⟩ : P ℚ) 1 nan .miter (.edge 0 1 (1 / 2)) true).advancement = true := by
  show decide ((nan : ℚ) = 0) = true
  simp [nan, geom]

end Examples

end Lyon.C05f
