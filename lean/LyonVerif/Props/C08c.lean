/-
  C08 — the STROKE tessellator on the complete stroker model (`Model/Tess/StrokeFull.lean`, tied by
  family `full:32` of C05), composed with the reset prologues of `stroke.rs`
  (`Model/Tess/ResetStroke.lean`).

  The object holds an attribute buffer and the builder's attribute store, nothing else; a call
  clears both before `StrokeBuilderImpl::new` sees them and the whole builder state is created inside
  the call.  Hence (`stroke_full_call_fresh`, `stroke_history_fresh_full`): the complete output — every
  `add_stroke_vertex` with all accessors and interpolated attributes, every `add_triangle`, in order —
  of a call after ANY history equals that of a new tessellator.  The proofs are one-liners because
  the code is as simple as that; the point of the theorem is that it is about the FULL tied model
  and not about an abstract core.
-/
import LyonVerif.Model.Tess.ResetStroke
import LyonVerif.Lemmas.Reset

set_option linter.unusedSectionVars false
set_option linter.unusedVariables false

namespace Lyon.C08
open Lyon Lyon.Reset Lyon.Stroke.Full
open Lyon.StrokeQuad (Ix)

variable {α : Type} [Scalar α] [Transc α] [Asin α] [FlatConst α]

/-- `SimpleAttributeStore::reset(n)` forgets the store: data, ids and attribute count -/
theorem store_reset_fresh (s : Store α) (n : Nat) : s.reset n = (Store.new 0 : Store α).reset n := rfl

/-- the ids handed out and the attributes read back after a reset do not depend on the old store -/
theorem store_feed_fresh (s : Store α) (n : Nat) (attrs : List (List α)) :
    storeFeed (s.reset n) attrs = storeFeed ((Store.new 0 : Store α).reset n) attrs := rfl

/-- the stale store is really there before the reset -/
theorem store_stale_witness :
    let used : Store Int' := ((Store.new 2 : Store Int').add [⟨5⟩, ⟨6⟩]).1
    storeGet used 0 = [⟨5⟩, ⟨6⟩] ∧ storeGet (used.reset 2) 0 = [] := by decide

/-- **One call of a used `StrokeTessellator` = the same call of a new one**, on the full model:
every entry point, every option set, every path (lines and curves), fixed or variable width, any
attribute vectors. -/
theorem stroke_full_call_fresh (ix : Ix α) (t : StrokeT α) (c : StrokeCall α) :
    (strokeFullCall ix t c).2 = (strokeFullCall ix StrokeT.new c).2 := by
  unfold strokeFullCall
  cases c.entry <;> rfl

theorem strokeObj_stateless (ix : Ix α) : Stateless (strokeObj ix) := by
  intro s s' c
  show (strokeFullCall ix s c).2 = (strokeFullCall ix s' c).2
  rw [stroke_full_call_fresh ix s, stroke_full_call_fresh ix s']

/-- **After every history** (any calls, any entry points, builders dropped without `build`,
whatever they left in the buffer and the store) the next call's complete output is a new
tessellator's. -/
theorem stroke_history_fresh_full (ix : Ix α) (t0 : StrokeT α) (hist : List (StrokeCall α)) (c : StrokeCall α) :
    ((strokeObj ix).call ((strokeObj ix).run t0 hist) c).2 = ((strokeObj ix).call StrokeT.new c).2 :=
  strokeObj_stateless ix _ _ c

theorem stroke_history_outputs_full (ix : Ix α) (t0 : StrokeT α) (hist : List (StrokeCall α)) :
    (strokeObj ix).outputs t0 hist = hist.map (fun c => ((strokeObj ix).call StrokeT.new c).2) :=
  (strokeObj_stateless ix).outputs StrokeT.new hist t0

end Lyon.C08
