/-
  C06d — `LineJoin::MiterClip`.

  * Joins whose miter stays within the limit are tessellated exactly like `Miter` joins; this case is part of the
    regimes of `Props/C06b.lean` / `C06c.lean` (`keptAt`), so `stroke_polyline_covers_rectangles`,
    `stroke_polyline_reach`, `stroke_polygon_covers_rectangles`, `stroke_polygon_reach` hold for `MiterClip` there.
  * CLIPPED joins (miter limit exceeded): `miter_clip_side_points_partial` gives the two front side points
    `get_clip_intersections` computes, in closed form: on the two outer offset lines, `lam` beyond the end of the
    incoming edge resp. before the start of the outgoing one, `lam·|tan(θ/2)| = w/2·(miter_limit·|normal| − 1)`, both ON
    the clip line (distance `miter_limit·w/2` from the join along the miter direction: the reach of the clipped join
    in that direction), at squared distance `(w/2)² + lam²` from the join; `miter_clip_between_partial`: for
    `1 ≤ miter_limit·|normal|` and `miter_limit ≤ |normal|` (implied by lyon's test `|normal|² > 4·miter_limit²` and
    `miter_limit ≥ 1`) `0 ≤ lam ≤ w/2·|tan(θ/2)|`: the clipped corner lies between the bevel corner and the miter tip.
    `_partial`: the cover / reach theorems for polylines with clipped `MiterClip` joins are NOT proved (missing:
    the corner lemma for a join triangle with shifted outer corners, `JClosed` / `JointData` with a third shape);
    they stay translation validation.  Through `C06c.complete_model_join_is_component_model` the statement about
    `StrokeQuad.clipSide` is a statement about the complete model's `compute_join_side_positions_fixed_width`.
-/
import LyonVerif.Lemmas.StrokeCoverClip
import LyonVerif.Props.C06c
import Mathlib.Analysis.SpecialFunctions.Sqrt

set_option linter.unusedSectionVars false
set_option linter.unusedVariables false

namespace Lyon.C06d
open Lyon Scalar Lyon.Stroke Lyon.Stroke.Full Lyon.C06b
open Lyon.StrokeQuad (Ix clipIntersections lineIntersection clipSide Side2)

section
variable {K : Type} [Field K] [LinearOrder K] [IsStrictOrderedRing K] [Transc K]

/-- **the clipped front side of a `MiterClip` join.**  `t0`, `t1` unit tangents, `F` the front (outer) miter
normal with `F·t0 = T > 0`, `F·t1 = −T`, `perp(t0)·F = perp(t1)·F = −ε` (`ε = ±1`: the front side is the side `−ε`),
`r = |F|`; `hw·T > eps` (the determinant guard of `Line::intersection`). -/
theorem miter_clip_side_points_partial (eps : K) (heps : 0 ≤ eps) (j t0 t1 F : P K) (hw ml ε T : K)
    (hε : ε * ε = 1) (hu0 : t0.sqLen = 1) (hu1 : t1.sqLen = 1) (hT : 0 < T) (hw0 : 0 < hw)
    (hF0 : F.dot t0 = T) (hF1 : F.dot t1 = -T) (hP0 : (perp t0).dot F = -ε) (hP1 : (perp t1).dot F = -ε)
    (hr0 : 0 < Transc.sqrt F.sqLen) (hrr : Transc.sqrt F.sqLen * Transc.sqrt F.sqLen = F.sqLen)
    (hdet : eps < hw * T) :
    ∃ lam : K, lam * T = hw * (ml * Transc.sqrt F.sqLen - 1)
      ∧ (clipSide (lineIntersection eps) ⟨j - (perp t0).smul (ε * hw), j - (perp t1).smul (ε * hw), none⟩ j F (ml * hw)).prev
          = j - (perp t0).smul (ε * hw) + t0.smul lam
      ∧ (clipSide (lineIntersection eps) ⟨j - (perp t0).smul (ε * hw), j - (perp t1).smul (ε * hw), none⟩ j F (ml * hw)).next
          = j - (perp t1).smul (ε * hw) - t1.smul lam
      ∧ (clipSide (lineIntersection eps) ⟨j - (perp t0).smul (ε * hw), j - (perp t1).smul (ε * hw), none⟩ j F (ml * hw)).single = none
      ∧ ((j - (perp t0).smul (ε * hw) + t0.smul lam) - j).dot F = ml * hw * Transc.sqrt F.sqLen
      ∧ ((j - (perp t1).smul (ε * hw) - t1.smul lam) - j).dot F = ml * hw * Transc.sqrt F.sqLen
      ∧ ((j - (perp t0).smul (ε * hw) + t0.smul lam) - j).sqLen = hw * hw + lam * lam
      ∧ ((j - (perp t1).smul (ε * hw) - t1.smul lam) - j).sqLen = hw * hw + lam * lam := by
  have hεabs : |ε| = 1 := by
    rcases mul_self_eq_one_iff.mp hε with h | h <;> rw [h] <;> simp
  have hm : -(ε * hw) ≠ 0 := by
    intro h
    have : ε * hw = 0 := by linarith
    rcases mul_eq_zero.mp this with h1 | h1
    · rw [h1] at hε; simp at hε
    · exact absurd h1 (ne_of_gt hw0)
  have hd0 : eps < |-(ε * hw) * F.dot t0| := by
    rw [hF0, show -(ε * hw) * T = -(ε * (hw * T)) by ring, abs_neg, abs_mul, hεabs, one_mul,
      abs_of_pos (mul_pos hw0 hT)]
    exact hdet
  have hd1 : eps < |-(ε * hw) * F.dot t1| := by
    rw [hF1, show -(ε * hw) * -T = ε * (hw * T) by ring, abs_mul, hεabs, one_mul, abs_of_pos (mul_pos hw0 hT)]
    exact hdet
  obtain ⟨lam0, a1, a2, a3, a4⟩ := clip_point eps heps ((perp t1).smul (-(ε * hw))) F t0 (-(ε * hw)) (ml * hw) hu0 hm hr0 hrr hd0
  obtain ⟨lam1, b1, b2, b3, b4⟩ := clip_point eps heps ((perp t0).smul (-(ε * hw))) F t1 (-(ε * hw)) (ml * hw) hu1 hm hr0 hrr hd1
  rw [hF0, hP0] at a2
  rw [hF1, hP1] at b2
  have hl0 : lam0 * T = hw * (ml * Transc.sqrt F.sqLen - 1) := by
    linear_combination a2 - hw * hε
  have hl1 : lam1 = -lam0 := by
    have : (lam0 + lam1) * T = 0 := by linear_combination a2 - b2
    rcases mul_eq_zero.mp this with h | h
    · linarith
    · exact absurd h (ne_of_gt hT)
  have e0 : (j - (perp t0).smul (ε * hw)) - j = (perp t0).smul (-(ε * hw)) := by
    apply P.ext' <;> simp only [geom] <;> ring
  have e1 : (j - (perp t1).smul (ε * hw)) - j = (perp t1).smul (-(ε * hw)) := by
    apply P.ext' <;> simp only [geom] <;> ring
  have c1 : (clipIntersections (lineIntersection eps) ((perp t0).smul (-(ε * hw))) ((perp t1).smul (-(ε * hw))) F (ml * hw)).1
      = (perp t0).smul (-(ε * hw)) + t0.smul lam0 := a1
  have c2 : (clipIntersections (lineIntersection eps) ((perp t0).smul (-(ε * hw))) ((perp t1).smul (-(ε * hw))) F (ml * hw)).2
      = (perp t1).smul (-(ε * hw)) + t1.smul lam1 := b1
  refine ⟨lam0, hl0, ?_, ?_, rfl, ?_, ?_, ?_, ?_⟩
  · show j + (clipIntersections (lineIntersection eps) ((j - (perp t0).smul (ε * hw)) - j) ((j - (perp t1).smul (ε * hw)) - j) F (ml * hw)).1 = _
    rw [e0, e1, c1]; apply P.ext' <;> simp only [geom] <;> ring
  · show j + (clipIntersections (lineIntersection eps) ((j - (perp t0).smul (ε * hw)) - j) ((j - (perp t1).smul (ε * hw)) - j) F (ml * hw)).2 = _
    rw [e0, e1, c2, hl1]; apply P.ext' <;> simp only [geom] <;> ring
  · have : (j - (perp t0).smul (ε * hw) + t0.smul lam0) - j = (perp t0).smul (-(ε * hw)) + t0.smul lam0 := by
      apply P.ext' <;> simp only [geom] <;> ring
    rw [this, a3]
  · have : (j - (perp t1).smul (ε * hw) - t1.smul lam0) - j = (perp t1).smul (-(ε * hw)) + t1.smul lam1 := by
      rw [hl1]; apply P.ext' <;> simp only [geom] <;> ring
    rw [this, b3]
  · have : (j - (perp t0).smul (ε * hw) + t0.smul lam0) - j = (perp t0).smul (-(ε * hw)) + t0.smul lam0 := by
      apply P.ext' <;> simp only [geom] <;> ring
    rw [this, a4]; linear_combination (hw * hw) * hε
  · have : (j - (perp t1).smul (ε * hw) - t1.smul lam0) - j = (perp t1).smul (-(ε * hw)) + t1.smul lam1 := by
      rw [hl1]; apply P.ext' <;> simp only [geom] <;> ring
    rw [this, b4, hl1]; linear_combination (hw * hw) * hε

/-- the clipped corner lies between the bevel corner (`lam = 0`) and the miter tip (`lam = hw·T`): its distance
from the join is between `w/2` and the miter length `w/2·√(1+T²)`.  `r = |F|`, `r² = 1 + T²`. -/
theorem miter_clip_between_partial (hw ml T r lam : K) (hw0 : 0 < hw) (hT : 0 < T) (hr0 : 0 ≤ r) (hr : r * r = 1 + T * T)
    (hlam : lam * T = hw * (ml * r - 1)) (h1 : 1 ≤ ml * r) (h2 : ml ≤ r) :
    0 ≤ lam ∧ lam ≤ hw * T ∧ hw * hw ≤ hw * hw + lam * lam ∧ hw * hw + lam * lam ≤ hw * hw * (1 + T * T) := by
  have hl0 : 0 ≤ lam := by
    by_contra hneg
    have : lam * T < 0 := mul_neg_of_neg_of_pos (lt_of_not_ge hneg) hT
    have : 0 ≤ hw * (ml * r - 1) := mul_nonneg (le_of_lt hw0) (by linarith)
    linarith
  have hle : lam ≤ hw * T := by
    have : ml * r ≤ r * r := mul_le_mul_of_nonneg_right h2 hr0
    have h3 : lam * T ≤ hw * T * T := by
      rw [hlam]
      have : ml * r - 1 ≤ T * T := by linarith
      nlinarith
    by_contra hgt
    have : hw * T * T < lam * T := mul_lt_mul_of_pos_right (lt_of_not_ge hgt) hT
    linarith
  refine ⟨hl0, hle, by nlinarith [mul_self_nonneg lam], ?_⟩
  have : lam * lam ≤ hw * T * (hw * T) := mul_le_mul hle hle hl0 (le_of_lt (mul_pos hw0 hT))
  nlinarith

end

/-! ### non-vacuity: the 5-12-13 left turn `(12/13, 5/13) → (−12/13, 5/13)` (about 135°), `tan(θ/2) = 12/5`, front
normal `(13/5, 0)`, `|normal|² = 169/25 > 4 = (2·miter_limit)²` for `miter_limit = 1`: clipped -/

section Real
attribute [local instance] Lyon.C05.realTransc

example (j : P ℝ) : ∃ lam : ℝ, lam * (12 / 5) = 1 / 2 * (1 * Transc.sqrt (⟨13 / 5, 0⟩ : P ℝ).sqLen - 1)
    ∧ (clipSide (lineIntersection (1 / 10 ^ 8))
        ⟨j - (perp (⟨12 / 13, 5 / 13⟩ : P ℝ)).smul (1 * (1 / 2)), j - (perp (⟨-12 / 13, 5 / 13⟩ : P ℝ)).smul (1 * (1 / 2)), none⟩
        j ⟨13 / 5, 0⟩ (1 * (1 / 2))).prev
      = j - (perp (⟨12 / 13, 5 / 13⟩ : P ℝ)).smul (1 * (1 / 2)) + (⟨12 / 13, 5 / 13⟩ : P ℝ).smul lam := by
  have hsq : (0 : ℝ) < (⟨13 / 5, 0⟩ : P ℝ).sqLen := by simp only [geom]; norm_num
  obtain ⟨lam, h1, h2, _⟩ := miter_clip_side_points_partial (K := ℝ) (1 / 10 ^ 8) (by positivity) j ⟨12 / 13, 5 / 13⟩
    ⟨-12 / 13, 5 / 13⟩ ⟨13 / 5, 0⟩ (1 / 2) 1 1 (12 / 5) (by norm_num) (by simp only [geom]; norm_num)
    (by simp only [geom]; norm_num) (by norm_num) (by norm_num) (by simp only [geom]; norm_num)
    (by simp only [geom]; norm_num) (by simp only [perp, geom]; norm_num) (by simp only [perp, geom]; norm_num)
    (Real.sqrt_pos.mpr hsq) (Real.mul_self_sqrt (le_of_lt hsq)) (by norm_num)
  exact ⟨lam, h1, h2⟩

example : (0 : ℝ) ≤ 1 / 3 ∧ (1 / 3 : ℝ) ≤ 1 / 2 * (12 / 5) ∧ (1 / 2 : ℝ) * (1 / 2) ≤ 1 / 2 * (1 / 2) + 1 / 3 * (1 / 3)
    ∧ (1 / 2 : ℝ) * (1 / 2) + 1 / 3 * (1 / 3) ≤ 1 / 2 * (1 / 2) * (1 + 12 / 5 * (12 / 5)) :=
  miter_clip_between_partial (1 / 2) 1 (12 / 5) (13 / 5) (1 / 3) (by norm_num) (by norm_num) (by norm_num) (by norm_num)
    (by norm_num) (by norm_num) (by norm_num)

end Real

end Lyon.C06d
