/-
  C12 (part e) — segment × axis-aligned line, exact.

  `LineSegment::horizontal_line_intersection_t / vertical_line_intersection_t`
  (crates/geom/src/line.rs, via `axis_aligned_intersection_1d`) are the queries the hatcher and the
  clippers use against rows / columns.  The model functions `Seg.axis1d`,
  `Seg.horizontalLineIntersectionT`, `Seg.verticalLineIntersectionT` (Model/Geom/Intersect.lean) are
  run bit for bit against lyon by the C12 tie (family `seg`, token group `axis`).  Over any linearly
  ordered field, for ALL segments and ALL rows:

  * exactness: a parameter is returned iff the segment is not parallel to the line and the line's
    coordinate lies between the two end coordinates (closed range), and then it is THE parameter
    `(v − a)/(b − a)` — in [0,1], and the segment's coordinate at that parameter is exactly `v`
    (whichever way the segment runs: the `swap` of the code is transparent);
  * a segment parallel to the line (level for a row, vertical for a column) reports none, also when
    it lies ON the line ("parallel or overlapping segments report none");
  * the point returned by `horizontal_line_intersection` has ordinate y and lies on the segment.
-/
import LyonVerif.Model.Geom.Intersect
import LyonVerif.Lemmas.IxField
import Mathlib.Tactic.NormNum
import Mathlib.Tactic.FieldSimp
import Mathlib.Tactic.Linarith

geom_all Lyon.Seg

set_option linter.unusedSectionVars false
set_option linter.unusedVariables false

namespace Lyon.C12
open Lyon Scalar
variable {K : Type} [Field K] [LinearOrder K] [IsStrictOrderedRing K]

theorem e_zeroK : (Scalar.zero : K) = 0 := by simp
theorem e_oneK : (Scalar.one : K) = 1 := by simp
theorem e_beq_zero_iff (d : K) : ((d == (Scalar.zero : K)) = true) ↔ d = 0 := by
  rw [e_zeroK]; exact sc_beq _ _

/-- the un-swapped core on `a < b`: returns `d = (v-a)/(b-a)` (or `1-d`) iff `a ≤ v ≤ b` -/
theorem axis1dCore_some_iff (a b v : K) (swap : Bool) (hab : a < b) (t : K) :
    Seg.axis1dCore a b v swap = some t ↔
      (a ≤ v ∧ v ≤ b) ∧ t = (if swap then 1 - (v - a) / (b - a) else (v - a) / (b - a)) := by
  have hpos : 0 < b - a := sub_pos.mpr hab
  have hne : b - a ≠ 0 := ne_of_gt hpos
  unfold Seg.axis1dCore
  rw [if_neg (fun h => hne ((e_beq_zero_iff _).mp h)), e_zeroK, e_oneK]
  have h0 : (v - a) / (b - a) < 0 ↔ v < a := by
    rw [div_neg_iff]
    constructor
    · rintro (⟨_, h⟩ | ⟨h, _⟩)
      · exact absurd h (not_lt.mpr (le_of_lt hpos))
      · linarith
    · intro h; exact Or.inr ⟨by linarith, hpos⟩
  have h1 : (v - a) / (b - a) > 1 ↔ b < v := by
    rw [gt_iff_lt, one_lt_div hpos]
    constructor <;> intro h <;> linarith
  by_cases hout : (v - a) / (b - a) < 0 ∨ (v - a) / (b - a) > 1
  · rw [if_pos hout]
    constructor
    · intro h; cases h
    · rintro ⟨⟨hl, hr⟩, _⟩
      rcases hout with h | h
      · exact absurd (h0.mp h) (not_lt.mpr hl)
      · exact absurd (h1.mp h) (not_lt.mpr hr)
  · rw [if_neg hout]
    have hin : a ≤ v ∧ v ≤ b := by
      constructor
      · by_contra h; exact hout (Or.inl (h0.mpr (not_le.mp h)))
      · by_contra h; exact hout (Or.inr (h1.mpr (not_le.mp h)))
    constructor
    · intro h
      refine ⟨hin, ?_⟩
      cases swap <;> simp_all
    · rintro ⟨_, ht⟩
      cases swap <;> simp_all

/-- degenerate core: equal end coordinates report none -/
theorem axis1dCore_eq_none (a v : K) (swap : Bool) : Seg.axis1dCore a a v swap = none := by
  unfold Seg.axis1dCore
  rw [if_pos ((e_beq_zero_iff _).mpr (sub_self a))]

/-- **`axis_aligned_intersection_1d`, exact**: a parameter comes back iff the end coordinates
differ and `v` lies between them (closed), and it is `(v − a)/(b − a)` whichever way round -/
theorem axis1d_some_iff (a b v t : K) :
    Seg.axis1d a b v = some t ↔
      a ≠ b ∧ (Min.min a b ≤ v ∧ v ≤ Max.max a b) ∧ t = (v - a) / (b - a) := by
  unfold Seg.axis1d
  by_cases hgt : a > b
  · rw [if_pos hgt, axis1dCore_some_iff b a v true hgt t]
    have hne : a - b ≠ 0 := ne_of_gt (sub_pos.mpr hgt)
    have hne' : b - a ≠ 0 := by intro h; apply hne; linarith
    have e : 1 - (v - b) / (a - b) = (v - a) / (b - a) := by
      field_simp
      ring
    rw [min_eq_right (le_of_lt hgt), max_eq_left (le_of_lt hgt)]
    simp only [if_true, e]
    constructor
    · rintro ⟨h, ht⟩; exact ⟨ne_of_gt hgt, h, ht⟩
    · rintro ⟨_, h, ht⟩; exact ⟨h, ht⟩
  · rw [if_neg hgt]
    have hle : a ≤ b := not_lt.mp hgt
    rcases lt_or_eq_of_le hle with hlt | heq
    · rw [axis1dCore_some_iff a b v false hlt t, min_eq_left hle, max_eq_right hle]
      simp only [Bool.false_eq_true, if_false]
      constructor
      · rintro ⟨h, ht⟩; exact ⟨ne_of_lt hlt, h, ht⟩
      · rintro ⟨_, h, ht⟩; exact ⟨h, ht⟩
    · subst heq
      rw [axis1dCore_eq_none]
      constructor
      · intro h; cases h
      · rintro ⟨h, _⟩; exact absurd rfl h

/-- the returned parameter is in the closed unit interval -/
theorem axis1d_unit (a b v t : K) (h : Seg.axis1d a b v = some t) : 0 ≤ t ∧ t ≤ 1 := by
  obtain ⟨hne, ⟨hl, hr⟩, ht⟩ := (axis1d_some_iff a b v t).mp h
  subst ht
  rcases lt_or_gt_of_ne hne with hab | hab
  · have hpos : 0 < b - a := sub_pos.mpr hab
    rw [min_eq_left (le_of_lt hab)] at hl
    rw [max_eq_right (le_of_lt hab)] at hr
    exact ⟨div_nonneg (by linarith) (le_of_lt hpos), (div_le_one hpos).mpr (by linarith)⟩
  · have hneg : b - a < 0 := sub_neg.mpr hab
    rw [min_eq_right (le_of_lt hab)] at hl
    rw [max_eq_left (le_of_lt hab)] at hr
    exact ⟨div_nonneg_of_nonpos (by linarith) (le_of_lt hneg),
      (div_le_one_of_neg hneg).mpr (by linarith)⟩

/-- …and it locates the coordinate: `a (1 − t) + b t = v` -/
theorem axis1d_locates (a b v t : K) (h : Seg.axis1d a b v = some t) : a * (1 - t) + b * t = v := by
  obtain ⟨hne, _, ht⟩ := (axis1d_some_iff a b v t).mp h
  subst ht
  have hne' : b - a ≠ 0 := sub_ne_zero.mpr (Ne.symm hne)
  field_simp
  ring

/-- **row × segment, sound**: the reported parameter is in [0,1] and the segment's ordinate
there is exactly `y` -/
theorem horizontal_line_intersection_sound (s : Seg K) (y t : K)
    (h : s.horizontalLineIntersectionT y = some t) : (0 ≤ t ∧ t ≤ 1) ∧ s.y t = y := by
  unfold Seg.horizontalLineIntersectionT at h
  refine ⟨axis1d_unit _ _ _ _ h, ?_⟩
  have := axis1d_locates _ _ _ _ h
  unfold Seg.y; rw [e_oneK]; exact this

theorem vertical_line_intersection_sound (s : Seg K) (x t : K)
    (h : s.verticalLineIntersectionT x = some t) : (0 ≤ t ∧ t ≤ 1) ∧ s.x t = x := by
  unfold Seg.verticalLineIntersectionT at h
  refine ⟨axis1d_unit _ _ _ _ h, ?_⟩
  have := axis1d_locates _ _ _ _ h
  unfold Seg.x; rw [e_oneK]; exact this

/-- **row × segment, complete**: a segment that is not level and whose ordinates straddle `y`
(closed range) is reported, at the unique parameter -/
theorem horizontal_line_intersection_complete (s : Seg K) (y : K) (hne : s.a.y ≠ s.b.y)
    (hl : Min.min s.a.y s.b.y ≤ y) (hr : y ≤ Max.max s.a.y s.b.y) :
    s.horizontalLineIntersectionT y = some ((y - s.a.y) / (s.b.y - s.a.y)) := by
  unfold Seg.horizontalLineIntersectionT
  exact (axis1d_some_iff _ _ _ _).mpr ⟨hne, ⟨hl, hr⟩, rfl⟩

theorem vertical_line_intersection_complete (s : Seg K) (x : K) (hne : s.a.x ≠ s.b.x)
    (hl : Min.min s.a.x s.b.x ≤ x) (hr : x ≤ Max.max s.a.x s.b.x) :
    s.verticalLineIntersectionT x = some ((x - s.a.x) / (s.b.x - s.a.x)) := by
  unfold Seg.verticalLineIntersectionT
  exact (axis1d_some_iff _ _ _ _).mpr ⟨hne, ⟨hl, hr⟩, rfl⟩

/-- a level segment reports none against every row — also the row it lies on -/
theorem horizontal_line_intersection_level_none (s : Seg K) (y : K) (h : s.a.y = s.b.y) :
    s.horizontalLineIntersectionT y = none := by
  unfold Seg.horizontalLineIntersectionT
  cases hq : Seg.axis1d s.a.y s.b.y y with
  | none => rfl
  | some t => exact absurd h ((axis1d_some_iff _ _ _ _).mp hq).1

theorem vertical_line_intersection_vertical_none (s : Seg K) (x : K) (h : s.a.x = s.b.x) :
    s.verticalLineIntersectionT x = none := by
  unfold Seg.verticalLineIntersectionT
  cases hq : Seg.axis1d s.a.x s.b.x x with
  | none => rfl
  | some t => exact absurd h ((axis1d_some_iff _ _ _ _).mp hq).1

/-- a row outside the segment's ordinate range reports none -/
theorem horizontal_line_intersection_outside_none (s : Seg K) (y : K)
    (h : y < Min.min s.a.y s.b.y ∨ Max.max s.a.y s.b.y < y) :
    s.horizontalLineIntersectionT y = none := by
  unfold Seg.horizontalLineIntersectionT
  cases hq : Seg.axis1d s.a.y s.b.y y with
  | none => rfl
  | some t =>
    obtain ⟨_, ⟨hl, hr⟩, _⟩ := (axis1d_some_iff _ _ _ _).mp hq
    rcases h with h | h
    · exact absurd hl (not_le.mpr h)
    · exact absurd hr (not_le.mpr h)

/-! non-vacuity -/
example : (⟨⟨0, 4⟩, ⟨2, 0⟩⟩ : Seg ℚ).horizontalLineIntersectionT 1 = some (3 / 4) := by
  rw [horizontal_line_intersection_complete _ _ (by norm_num) (by norm_num) (by norm_num)]
  norm_num
example : (⟨⟨0, 4⟩, ⟨2, 4⟩⟩ : Seg ℚ).horizontalLineIntersectionT 4 = none :=
  horizontal_line_intersection_level_none _ _ rfl

end Lyon.C12
