/-
  C05h — the advancement clause for POLYLINE paths with open AND closed sub-paths (every scalar
  type, floats included; only `is_nan(NaN) = true` is assumed; no hypothesis on the points).

  `stroke_close_advancement` (`close()`, window full — three or more kept points): which vertex carries
  which advancement.  With `a, l` the last two kept points, `A_l = A_a + |l − a|` (the table's last
  entry), `F` the first point (start value `s0`):
    * first point NOT within merge distance of `l`: the join at `l` carries `A_l`; the join at the
      first point carries `A_l + |p0 − l|` (start + perimeter); the two re-created vertices
      (`closeVertices`) carry the start value `s0`;
    * first point within merge distance of `l`: `l` is moved onto `p0` (keeps its endpoint id); its
      join sits on `p0` and carries `A_a + |p0 − a|`; the first point gets no join; the two re-created
      vertices carry `s0` under `l`'s id.
    `close()` leaves `sub_path_start_advancement` alone.
  `subpath_advancement_closed`: one sub-path (open or closed, any points) from any idle state: the
    table over the kept points plus the extra entries `CloseX`; a closed sub-path with fewer than
    three kept points is ended by `end_with_caps` (a single kept point always gets the empty cap).
  `stroke_path_advancement`: a whole polyline path: every vertex satisfies `PathAdv`: it agrees with
    the table of some sub-path, each sub-path starting where the previous table ended or — after a
    closed sub-path on which `close()` ran — at that sub-path's own start value.
  Corollaries keep the earlier names' content: `stroke_open_path_advancement` (C05g) is the case of
  open sub-paths.
-/
import LyonVerif.Lemmas.StrokeAdvClose
import LyonVerif.Props.C05g

set_option linter.unusedSectionVars false
set_option linter.unusedVariables false

namespace Lyon.C05h
open Lyon Scalar Lyon.Stroke Lyon.Stroke.Full Lyon.C05 Lyon.C05b Lyon.C05c

section
variable {α : Type} [Scalar α] [Transc α] [Asin α] [FlatConst α]

/-- **`close()`: which emitted vertex carries which advancement** (see the header) -/
theorem stroke_close_advancement {e : Env α} (hnan : Transc.isNaN (nan : α) = true) {st : St α} {a' b' F f1 : EP α}
    {p0 P1 : P α} (hwf : WF st.buf) (hab : st.buf.lastTwo = some (a', b')) (hc3 : st.buf.count = 3)
    (hfs : st.firsts = [F, f1]) (hf1 : f1.position = P1) (hFp : F.position = p0) (hFf : Fresh e F)
    (hb : Fresh e b') (hbadv : b'.advancement = nan)
    (hP : pointsAreTooClose e.thr p0 P1 = false) :
    (pointsAreTooClose e.thr b'.position p0 = false →
      Emits (fun v => SiteOK b'.src b'.position (a'.advancement + len (b'.position - a'.position)) v
          ∨ SiteOK F.src p0 (a'.advancement + len (b'.position - a'.position) + len (p0 - b'.position)) v
          ∨ SiteOK F.src p0 F.advancement v) st.out (close (fwStep e) st).out)
    ∧ (pointsAreTooClose e.thr b'.position p0 = true →
      Emits (fun v => SiteOK b'.src p0 (a'.advancement + len (p0 - a'.position)) v
          ∨ SiteOK b'.src p0 F.advancement v) st.out (close (fwStep e) st).out)
    ∧ WF (close (fwStep e) st).buf
    ∧ (close (fwStep e) st).subPathStartAdvancement = st.subPathStartAdvancement :=
  close_advs hnan hwf hab hc3 hfs hf1 hFp hFf hb hbadv hP

/-- **one polyline sub-path, open or closed, any points, started in any idle state** -/
theorem subpath_advancement_closed (e : Env α) (store : Nat → List α) (hfw : e.o.varWidth = false)
    (hnan : Transc.isNaN (nan : α) = true) (r0 : Run α) (h0 : Idle r0)
    (i0 : Nat) (p0 : P α) (pts : List (Nat × P α)) (closed : Bool) :
    ∃ X, (closed = false → X = [])
      ∧ CloseX e.thr r0.st.subPathStartAdvancement i0 p0
          (advTable r0.st.subPathStartAdvancement ((i0, p0) :: keptFrom e.thr p0 pts)) X
      ∧ Idle (runFrom e store r0 (subEvsC i0 p0 pts closed))
      ∧ Emits (AdvOK (advTable r0.st.subPathStartAdvancement ((i0, p0) :: keptFrom e.thr p0 pts) ++ X))
          r0.st.out (runFrom e store r0 (subEvsC i0 p0 pts closed)).st.out
      ∧ ((runFrom e store r0 (subEvsC i0 p0 pts closed)).st.subPathStartAdvancement
            = lastAdv r0.st.subPathStartAdvancement
                (advTable r0.st.subPathStartAdvancement ((i0, p0) :: keptFrom e.thr p0 pts))
         ∨ (closed = true ∧ (runFrom e store r0 (subEvsC i0 p0 pts closed)).st.subPathStartAdvancement
            = r0.st.subPathStartAdvancement)) :=
  subpath_advancement_c e store hfw hnan r0 h0 i0 p0 pts closed

/-- **`stroke_path_advancement`: polyline paths with open and closed sub-paths, no hypothesis on the
points**, fixed width, all joins and caps, every scalar type: every emitted vertex satisfies
`PathAdv e.thr 0 subs` (see the header and `Lemmas/StrokeAdvClose.lean`) -/
theorem stroke_path_advancement (e : Env α) (store : Nat → List α) (hfw : e.o.varWidth = false)
    (hnan : Transc.isNaN (nan : α) = true) (subs : List (SubC α)) :
    ∀ v ∈ (runEvents e store (pathEvsC subs)).st.out.verts, PathAdv e.thr zero subs v :=
  path_advancement_c e store hfw hnan subs

end

/-! ## non-vacuity: the extra entries of a closed triangle -/

section Examples
open Lyon.C05d (toyNaN)
attribute [local instance] toyNaN toyAsin toyFlat

/-- the closed 3-4-5 triangle `(0,0) → (3,0) → (3,4)`: table `0, 3, 7`; the closing edge has length `5`,
so the first point's join carries `7 + 5 = 12` (start + perimeter) and `close()` runs (three kept points) -/
example : (advTable (0 : ℚ) ((0, ⟨0, 0⟩) :: keptFrom (1 / 200) ⟨0, 0⟩ [(1, ⟨3, 0⟩), (2, ⟨3, 4⟩)])).map (·.2.2) = [0, 3, 7]
    ∧ len ((⟨0, 0⟩ : P ℚ) - ⟨3, 4⟩) = 5
    ∧ pointsAreTooClose (1 / 200 : ℚ) ⟨3, 4⟩ ⟨0, 0⟩ = false := by
  decide +kernel

end Examples

end Lyon.C05h
