/-
  C09, part c — PROOF-GRADE per-input verdicts for the within-tolerance clause of quadratic and cubic
  flattening: soundness of the exact checker `Lyon.FlatChk.chkFlat` / `chkFlatCubic`
  (Model/Geom/FlattenCertExact.lean) that `model_c09` runs, on exact rationals, on the segments the
  REAL `for_each_flattened_with_t` emitted (harness family `chk_flat`).

  * `chk_flat_sound`: for every quadratic `q`, numbers `tol k eps` and segment list `l` over any
    ordered field: if `chkFlat q tol k eps l` accepts then
      - the segments are chained from `(q.a, 0)` to `(q.b, 1)`: each starts exactly where the previous
        one ended, the parameter ranges abut, are strictly increasing and lie in `[0,1]`;
      - both end points of every segment are within `eps` of the curve point at the segment's own
        parameters (every vertex within `eps` of the curve);
      - EVERY curve point `q.sample t`, `t ∈ [0,1]`, is within `k·tol + eps` of an emitted segment.
    Nothing is assumed about where `l` comes from — no flattening model is involved.
  * `chk_flat_sound_rat`: the same for the executable instance `Scalar ℚ` of Model/RatScalar.lean
    (`ratScalar_eq_fieldScalar_c09`: it IS the field instance at `ℚ`).
  * `chk_flat_cubic_sound(_rat)`: cubic `c`, lyon's quadratic pieces with their ranges and segments:
    acceptance ⟹ the ranges tile `[0,1]`, and every point of the cubic is within
    `k·tolq + k·tolc + 2·eps` of an emitted segment (`tolq = 0.6·tol`, `tolc = 0.4·tol` as lyon
    computes them; through `cubic_piece_deviation`, the `432` of `num_quadratics_impl`).
  * `hairpin_chord_bound`: the tightened bound of a chord whose perpendicular foot leaves the chord
    (goal 3): `devSq` is never above the parametric bound `|Δ²dd|²/16` that the float certificate of
    Props/C09b.lean falls back to, and `dev_core` proves it sound.
  * `chk_hull_quad_sound(_rat)`, `chk_hull_cubic_sound(_rat)`: the second, CONVEX-HULL certificate
    (`chkHull`): every sub-range of every emitted segment's parameter range has all its control points
    (`split_range`, exact) within `√r2` of ONE emitted segment (its own or a neighbour) ⟹ every curve
    point is within `√r2` of the polyline AS EMITTED (no allowance for the rounding of the vertices,
    cubics directly — without the 0.4/0.6 split and its triangle inequality —, hairpins whose overshoot
    runs along a neighbouring segment included). Used for the inputs the chord certificate leaves
    undecided.
  * `chk_flat_violation_sound(_rat)`: the converse certificate `farFrom (q.sample t) r2 l`: the curve
    point at the concrete parameter `t` is farther than `√r2` from EVERY point of EVERY emitted
    segment — a certified failing input when `r2 = (tol + eps)²`.
-/
import LyonVerif.Lemmas.FlattenCertExactList
import LyonVerif.Lemmas.FlattenCertExactHull
import LyonVerif.Model.RatScalar

set_option linter.unusedSectionVars false
set_option linter.unusedVariables false

namespace Lyon.C09
open Lyon Scalar Lyon.Flat Lyon.FlatChk

-- In this file every `Scalar` instance is the ordered-field one; the executable rational instance
-- is only referred to by name (`ratScalar_eq_fieldScalar_c09`).
attribute [-instance] Lyon.instScalarRat

variable {K : Type} [Field K] [LinearOrder K] [IsStrictOrderedRing K]

/-! ## Quadratic -/

/-- **chk_flat_sound** (translation validation of one flattened quadratic, any ordered field). -/
theorem chk_flat_sound (q : Quad K) (tol k eps : K) (l : List (FlatSeg K))
    (h : chkFlat q tol k eps l = true) :
    (l ≠ [] ∧ Chain q.a 0 l ∧ lastPt q.a l = q.b ∧ lastT 0 l = 1
      ∧ ∀ sg ∈ l, 0 ≤ sg.t0 ∧ sg.t0 < sg.t1 ∧ sg.t1 ≤ 1)
    ∧ (∀ sg ∈ l, (sg.a - q.sample sg.t0).sqLen ≤ eps * eps ∧ (sg.b - q.sample sg.t1).sqLen ≤ eps * eps)
    ∧ ∀ t : K, 0 ≤ t → t ≤ 1 → ∃ sg ∈ l, ∃ s2 : K, 0 ≤ s2 ∧ s2 ≤ 1 ∧
        (q.sample t - sg.a.lerp sg.b s2).sqLen ≤ (k * tol + eps) * (k * tol + eps) := by
  simp only [chkFlat, Bool.and_eq_true, decide_eq_true_eq, sc_zero, sc_one] at h
  obtain ⟨⟨⟨⟨he, hkt⟩, hch⟩, hv⟩, hd⟩ := h
  obtain ⟨hne, hchain, hlp, hlt, hinc⟩ := chainOK_spec q.a 0 q.b 1 l hch
  obtain ⟨_, hrange⟩ := chain_params_range q.a 0 l hchain hinc
  have hvs := flatVtxSq_le q _ l hv
  have hds := flatDevSq_le q _ l hd
  refine ⟨⟨hne, hchain, hlp, hlt, ?_⟩, hvs, ?_⟩
  · intro sg hsg
    obtain ⟨r1, r2⟩ := hrange sg hsg
    rw [hlt] at r2
    exact ⟨r1, hinc sg hsg, r2⟩
  · intro t ht0 ht1
    obtain ⟨sg, hsg, s, hs0, hs1, rfl⟩ := chain_cover q.a 0 1 l hchain hne hlt t ht0 ht1
    obtain ⟨ha, hb⟩ := hvs sg hsg
    obtain ⟨s2, h1, h2, h3⟩ := seg_sound q sg (k * tol) eps hkt he (hds sg hsg) ha hb s hs0 hs1
    exact ⟨sg, hsg, s2, h1, h2, h3⟩

/-- **chk_flat_violation_sound** (certified failing input): if `farFrom (q.sample t) r2 l` holds, the
curve point at parameter `t` is farther than `√r2` from every point of every emitted segment. -/
theorem chk_flat_violation_sound (q : Quad K) (t r2 : K) (l : List (FlatSeg K))
    (h : farFrom (q.sample t) r2 l = true) :
    ∀ sg ∈ l, ∀ s : K, 0 ≤ s → s ≤ 1 → r2 < (q.sample t - sg.a.lerp sg.b s).sqLen :=
  far_from_sound (q.sample t) r2 l h

/-- the two certificates exclude each other: an accepted input has no certified violation at the
radius `(k·tol + eps)²` -/
theorem chk_flat_exclusive (q : Quad K) (tol k eps t : K) (l : List (FlatSeg K))
    (h : chkFlat q tol k eps l = true) (ht0 : 0 ≤ t) (ht1 : t ≤ 1) :
    farFrom (q.sample t) ((k * tol + eps) * (k * tol + eps)) l = false := by
  by_contra hf
  rw [Bool.not_eq_false] at hf
  obtain ⟨sg, hsg, s2, h0, h1, h2⟩ := (chk_flat_sound q tol k eps l h).2.2 t ht0 ht1
  exact absurd h2 (not_le.mpr (far_from_sound _ _ l hf sg hsg s2 h0 h1))

/-! ## Hairpin chords (the foot of the perpendicular leaves the chord) -/

/-- **hairpin_chord_bound**: the deviation bound of one chord, for all three kinds of chords
(degenerate, perpendicular, hairpin): every point `lerp(A,B,s) − s(1−s)·dd` of the curve over the
chord is within `√devSq` of the chord `AB` — for a hairpin chord (`|dd·v| > |v|²`) `devSq` is
`max(perpSq, hairEndSq)`: the perpendicular bound where the foot is on the chord, the distance to the
nearer end point where it is not. -/
theorem hairpin_chord_bound (A B dd : P K) (s : K) (hs0 : 0 ≤ s) (hs1 : s ≤ 1) :
    ∃ s2 : K, 0 ≤ s2 ∧ s2 ≤ 1 ∧
      ((A.lerp B s + dd.smul (-(s * (1 - s)))) - A.lerp B s2).sqLen ≤ devSq (B - A) dd :=
  dev_core A B dd s hs0 hs1

/-- on a hairpin chord the bound is `max(perpSq, hairEndSq)` (what the checker evaluates) -/
theorem hairpin_chord_bound_eq (v dd : P K) (hv : 0 < v.sqLen) (hk : v.sqLen < |dd.dot v|) :
    devSq v dd = Max.max (perpSq v dd) (hairEndSq v dd) := by
  simp only [devSq, sc_zero, sc_abs, sc_max, if_pos hv, if_neg (not_le.mpr hk)]

/-- **hairpin_tighter_than_parametric**: the exact bound is never above the parametric bound
`|dd|²/16` (the fallback of the float certificate `Quad.chordParamSq`, Props/C09b.lean) — so every
input the parametric certificate accepts is accepted by the exact checker. -/
theorem hairpin_tighter_than_parametric (v dd : P K) : devSq v dd ≤ dd.sqLen / 16 := by
  have hlag : dd.sqLen * v.sqLen = dd.dot v * dd.dot v + dd.cross v * dd.cross v := by
    simp only [geom]; ring
  unfold devSq
  simp only [sc_zero, sc_abs, sc_max]
  simp only [ofNat_eq, Nat.cast_ofNat]
  by_cases hv : 0 < v.sqLen
  · rw [if_pos hv]
    have hperp : perpSq v dd ≤ dd.sqLen / 16 := by
      simp only [perpSq, ofNat_eq, Nat.cast_ofNat]
      rw [div_le_div_iff₀ (by positivity) (by norm_num)]
      nlinarith [mul_self_nonneg (dd.dot v)]
    by_cases hk : |dd.dot v| ≤ v.sqLen
    · rw [if_pos hk]; exact hperp
    · rw [if_neg hk]
      refine max_le hperp ?_
      -- hairEndSq ≤ |dd|²/16
      obtain ⟨vv, hvv⟩ : ∃ x : K, x = v.sqLen := ⟨_, rfl⟩
      obtain ⟨a, ha⟩ : ∃ x : K, x = |dd.dot v| := ⟨_, rfl⟩
      obtain ⟨cr2, hcr⟩ : ∃ x : K, x = dd.cross v * dd.cross v := ⟨_, rfl⟩
      have haa : dd.dot v * dd.dot v = a * a := by rw [ha, abs_mul_abs_self]
      have hvv0 : 0 < vv := by rw [hvv]; exact hv
      have hav : vv < a := by rw [ha, hvv]; exact not_le.mp hk
      have ha0 : 0 < a := lt_trans hvv0 hav
      have hcr0 : 0 ≤ cr2 := by rw [hcr]; exact mul_self_nonneg _
      have hW : hairW v dd ≤ 1 / 4 ∧ 0 ≤ hairW v dd := by
        simp only [hairW, hairEx, sc_abs, sc_two, sc_one, sc_four]
        rw [← ha, ← hvv, haa]
        split_ifs with h2
        · constructor
          · rw [div_le_iff₀ (mul_pos ha0 ha0)]
            nlinarith [sq_nonneg (a - 2 * vv)]
          · exact div_nonneg (mul_nonneg (by linarith) (le_of_lt hvv0)) (le_of_lt (mul_pos ha0 ha0))
        · exact ⟨le_refl _, by norm_num⟩
      have hW2 : hairW v dd * hairW v dd ≤ 1 / 16 := by
        have := mul_self_le_mul_self hW.2 hW.1
        linarith
      have hlag2 : dd.sqLen = (a * a + cr2) / vv := by
        rw [eq_div_iff (ne_of_gt hvv0), hvv, hcr, ← haa]; exact hlag
      simp only [hairEndSq, hairAlongSq, hairEx, sc_abs, ofNat_eq, Nat.cast_ofNat]
      rw [← ha, ← hvv, ← hcr, haa, hlag2]
      have e1 : hairW v dd * hairW v dd * cr2 / vv ≤ 1 / 16 * cr2 / vv :=
        div_le_div_of_nonneg_right (mul_le_mul_of_nonneg_right hW2 hcr0) (le_of_lt hvv0)
      have e2 : (a - vv) * (a - vv) * ((a - vv) * (a - vv)) / (16 * (a * a) * vv) ≤ (a * a) / 16 / vv := by
        rw [div_div, div_le_div_iff₀ (by positivity) (by positivity)]
        have h1 : (a - vv) * (a - vv) ≤ a * a := by nlinarith
        have h2 : 0 ≤ (a - vv) * (a - vv) := mul_self_nonneg _
        have h3 : (a - vv) * (a - vv) * ((a - vv) * (a - vv)) ≤ (a * a) * (a * a) :=
          mul_le_mul h1 h1 h2 (le_of_lt (mul_pos ha0 ha0))
        nlinarith [mul_pos (mul_pos ha0 ha0) hvv0]
      calc hairW v dd * hairW v dd * cr2 / vv + (a - vv) * (a - vv) * ((a - vv) * (a - vv)) / (16 * (a * a) * vv)
          ≤ 1 / 16 * cr2 / vv + (a * a) / 16 / vv := add_le_add e1 e2
        _ = (a * a + cr2) / vv / 16 := by field_simp; ring
  · rw [if_neg hv]

/-! ## Cubic -/

/-- **chk_flat_cubic_sound** (translation validation of one flattened cubic, any ordered field): if
`chkFlatCubic c tolq tolc k eps ps` accepts the pieces `ps` (lyon's quadratics with their ranges on
the cubic and their emitted segments) then the ranges tile `[0,1]` in order, each piece satisfies
`chk_flat_sound`, and every point of the cubic is within `k·tolq + k·tolc + 2·eps` of a segment. -/
theorem chk_flat_cubic_sound (c : Cubic K) (tolq tolc k eps : K) (ps : List (Piece K))
    (h : chkFlatCubic c tolq tolc k eps ps = true) :
    (∀ pc ∈ ps, 0 ≤ pc.t0 ∧ pc.t0 < pc.t1 ∧ pc.t1 ≤ 1 ∧ chkFlat pc.q tolq k eps pc.l = true)
    ∧ ∀ t : K, 0 ≤ t → t ≤ 1 → ∃ pc ∈ ps, ∃ sg ∈ pc.l, ∃ s : K, 0 ≤ s ∧ s ≤ 1 ∧
        (c.sample t - sg.a.lerp sg.b s).sqLen
          ≤ (k * tolq + k * tolc + 2 * eps) * (k * tolq + k * tolc + 2 * eps) := by
  simp only [chkFlatCubic, Bool.and_eq_true, decide_eq_true_eq, sc_zero, List.all_eq_true] at h
  obtain ⟨⟨⟨⟨⟨he, hkq⟩, hkc⟩, hr⟩, _⟩, hall⟩ := h
  have hpc : ∀ pc ∈ ps, pieceCtrlSq c pc ≤ eps * eps ∧ pieceDevSq c pc ≤ (k * tolc) * (k * tolc)
      ∧ chkFlat pc.q tolq k eps pc.l = true := by
    intro pc hp
    have := hall pc hp
    simp only [pieceOK, Bool.and_eq_true, decide_eq_true_eq] at this
    exact ⟨this.1.1, this.1.2, this.2⟩
  refine ⟨?_, ?_⟩
  · intro pc hp
    obtain ⟨r1, r2, r3⟩ := rangesOK_range 0 ps hr pc hp
    exact ⟨r1, r2, r3, (hpc pc hp).2.2⟩
  · intro t ht0 ht1
    obtain ⟨pc, hp, hlt, hx0, hx1⟩ := rangesOK_cover 0 ps hr t ht0 ht1
    obtain ⟨hctrl, hdev, hchk⟩ := hpc pc hp
    have hd : 0 < pc.t1 - pc.t0 := by linarith
    -- local parameter
    obtain ⟨u, hu⟩ : ∃ u : K, u = (t - pc.t0) / (pc.t1 - pc.t0) := ⟨_, rfl⟩
    have hu0 : 0 ≤ u := by rw [hu]; exact div_nonneg (by linarith) (le_of_lt hd)
    have hu1 : u ≤ 1 := by rw [hu, div_le_one hd]; linarith
    have htu : t = pc.t0 + u * (pc.t1 - pc.t0) := by
      rw [hu, div_mul_cancel₀ _ (ne_of_gt hd)]; ring
    -- cubic → exact quadratic of the sub-range
    have h1 : (c.sample t - (pieceExact c pc).sample u).sqLen ≤ (k * tolc) * (k * tolc) := by
      rw [htu]
      refine le_trans (cubic_piece_deviation c pc.t0 pc.t1 u hu0 hu1) (le_trans (le_of_eq ?_) hdev)
      simp only [pieceDevSq, thirdDiff, ofNat_eq, Nat.cast_ofNat]
      ring
    -- exact quadratic → emitted quadratic
    have h2 : ((pieceExact c pc).sample u - pc.q.sample u).sqLen ≤ eps * eps := by
      simp only [pieceCtrlSq, sc_max] at hctrl
      exact quad_ctrl_shift pc.q (pieceExact c pc) (eps * eps) u hu0 hu1
        (le_trans (le_max_left _ _) hctrl)
        (le_trans (le_max_left _ _) (le_trans (le_max_right _ _) hctrl))
        (le_trans (le_max_right _ _) (le_trans (le_max_right _ _) hctrl))
    -- emitted quadratic → emitted segment
    obtain ⟨sg, hsg, s, hs0, hs1, h3⟩ := (chk_flat_sound pc.q tolq k eps pc.l hchk).2.2 u hu0 hu1
    refine ⟨pc, hp, sg, hsg, s, hs0, hs1, ?_⟩
    have e : c.sample t - sg.a.lerp sg.b s
        = ((c.sample t - (pieceExact c pc).sample u) + ((pieceExact c pc).sample u - pc.q.sample u))
          + (pc.q.sample u - sg.a.lerp sg.b s) := by
      apply P.ext' <;> simp only [P.add_def, P.sub_def] <;> ring
    rw [e]
    have h12 := sq_triangle _ _ (k * tolc) eps hkc he h1 h2
    have := sq_triangle _ _ (k * tolc + eps) (k * tolq + eps) (add_nonneg hkc he) (add_nonneg hkq he) h12 h3
    refine le_trans this (le_of_eq ?_)
    ring

/-- every vertex of an accepted cubic flattening is within `k·tolc + 2·eps` of the cubic, at the
parameter `T0 + u·(T1 − T0)` its piece and local parameter name -/
theorem chk_flat_cubic_vertices (c : Cubic K) (tolq tolc k eps : K) (ps : List (Piece K))
    (h : chkFlatCubic c tolq tolc k eps ps = true) :
    ∀ pc ∈ ps, ∀ sg ∈ pc.l,
      (sg.b - c.sample (pc.t0 + sg.t1 * (pc.t1 - pc.t0))).sqLen
        ≤ (k * tolc + 2 * eps) * (k * tolc + 2 * eps) := by
  intro pc hp sg hsg
  obtain ⟨hpcs, _⟩ := chk_flat_cubic_sound c tolq tolc k eps ps h
  obtain ⟨_, _, _, hchk⟩ := hpcs pc hp
  simp only [chkFlatCubic, Bool.and_eq_true, decide_eq_true_eq, sc_zero, List.all_eq_true] at h
  obtain ⟨⟨⟨⟨⟨he, hkq⟩, hkc⟩, hr⟩, _⟩, hall⟩ := h
  have := hall pc hp
  simp only [pieceOK, Bool.and_eq_true, decide_eq_true_eq] at this
  obtain ⟨⟨hctrl, hdev⟩, _⟩ := this
  obtain ⟨⟨_, _, _, _, hrng⟩, hv, _⟩ := chk_flat_sound pc.q tolq k eps pc.l hchk
  obtain ⟨u0, _, u1⟩ := hrng sg hsg
  have hu0 : 0 ≤ sg.t1 := by linarith
  have h1 : (c.sample (pc.t0 + sg.t1 * (pc.t1 - pc.t0)) - (pieceExact c pc).sample sg.t1).sqLen
      ≤ (k * tolc) * (k * tolc) := by
    refine le_trans (cubic_piece_deviation c pc.t0 pc.t1 sg.t1 hu0 u1) (le_trans (le_of_eq ?_) hdev)
    simp only [pieceDevSq, thirdDiff, ofNat_eq, Nat.cast_ofNat]
    ring
  have h2 : ((pieceExact c pc).sample sg.t1 - pc.q.sample sg.t1).sqLen ≤ eps * eps := by
    simp only [pieceCtrlSq, sc_max] at hctrl
    exact quad_ctrl_shift pc.q (pieceExact c pc) (eps * eps) sg.t1 hu0 u1
      (le_trans (le_max_left _ _) hctrl)
      (le_trans (le_max_left _ _) (le_trans (le_max_right _ _) hctrl))
      (le_trans (le_max_right _ _) (le_trans (le_max_right _ _) hctrl))
  have h3 : (pc.q.sample sg.t1 - sg.b).sqLen ≤ eps * eps := by
    have := (hv sg hsg).2
    have e : (pc.q.sample sg.t1 - sg.b).sqLen = (sg.b - pc.q.sample sg.t1).sqLen := by
      simp only [geom]; ring
    rw [e]; exact this
  have e : sg.b - c.sample (pc.t0 + sg.t1 * (pc.t1 - pc.t0))
      = -(((c.sample (pc.t0 + sg.t1 * (pc.t1 - pc.t0)) - (pieceExact c pc).sample sg.t1)
          + ((pieceExact c pc).sample sg.t1 - pc.q.sample sg.t1)) + (pc.q.sample sg.t1 - sg.b)) := by
    apply P.ext' <;> simp only [P.add_def, P.sub_def, P.neg_def] <;> ring
  have eneg : ∀ w : P K, (-w).sqLen = w.sqLen := by intro w; simp only [geom]; ring
  rw [e, eneg]
  have h12 := sq_triangle _ _ (k * tolc) eps hkc he h1 h2
  have := sq_triangle _ _ (k * tolc + eps) eps (add_nonneg hkc he) he h12 h3
  refine le_trans this (le_of_eq ?_)
  ring

/-- certified failing input for a cubic: the point of the cubic at the concrete parameter `t` is
farther than `√r2` from every point of every emitted segment of every piece -/
theorem chk_flat_cubic_violation_sound (c : Cubic K) (t r2 : K) (ps : List (Piece K))
    (h : farFrom (c.sample t) r2 (allSegs ps) = true) :
    ∀ pc ∈ ps, ∀ sg ∈ pc.l, ∀ s : K, 0 ≤ s → s ≤ 1 → r2 < (c.sample t - sg.a.lerp sg.b s).sqLen := by
  intro pc hp sg hsg
  exact far_from_sound (c.sample t) r2 _ h sg (by
    simp only [allSegs, List.mem_flatMap]; exact ⟨pc, hp, hsg⟩)


/-! ## The convex-hull certificate -/

/-- **chk_hull_quad_sound**: if `chkHullQuad q r2 ms w l` accepts the segments `l` then they are
chained exactly from `(q.a, 0)` to `(q.b, 1)` with strictly increasing ranges in `[0,1]`, every
emitted end point is within `√r2` of the curve point at its parameter, and EVERY curve point is within
`√r2` of an emitted segment — for every list `ms` of subdivision counts and every window `w`. -/
theorem chk_hull_quad_sound (q : Quad K) (r2 : K) (ms : List Nat) (w : Nat) (l : List (FlatSeg K))
    (h : chkHullQuad q r2 ms w l = true) :
    (l ≠ [] ∧ Chain q.a 0 l ∧ lastPt q.a l = q.b ∧ lastT 0 l = 1
      ∧ ∀ sg ∈ l, 0 ≤ sg.t0 ∧ sg.t0 < sg.t1 ∧ sg.t1 ≤ 1)
    ∧ (∀ sg ∈ l, (sg.b - q.sample sg.t1).sqLen ≤ r2)
    ∧ ∀ t : K, 0 ≤ t → t ≤ 1 → ∃ sg ∈ l, ∃ s2 : K, 0 ≤ s2 ∧ s2 ≤ 1 ∧
        (q.sample t - sg.a.lerp sg.b s2).sqLen ≤ r2 :=
  hull_sound q.sample (quadCtrl q) (quad_hull_law q) q.a q.b r2 ms w l h

/-- **chk_hull_cubic_sound**: the same for a cubic and the segments of `for_each_flattened_with_t`
with their parameter ranges on the cubic — directly, without the quadratic pieces. -/
theorem chk_hull_cubic_sound (c : Cubic K) (r2 : K) (ms : List Nat) (w : Nat) (l : List (FlatSeg K))
    (h : chkHullCubic c r2 ms w l = true) :
    (l ≠ [] ∧ Chain c.a 0 l ∧ lastPt c.a l = c.b ∧ lastT 0 l = 1
      ∧ ∀ sg ∈ l, 0 ≤ sg.t0 ∧ sg.t0 < sg.t1 ∧ sg.t1 ≤ 1)
    ∧ (∀ sg ∈ l, (sg.b - c.sample sg.t1).sqLen ≤ r2)
    ∧ ∀ t : K, 0 ≤ t → t ≤ 1 → ∃ sg ∈ l, ∃ s2 : K, 0 ≤ s2 ∧ s2 ≤ 1 ∧
        (c.sample t - sg.a.lerp sg.b s2).sqLen ≤ r2 :=
  hull_sound c.sample (cubicCtrl c) (cubic_hull_law c) c.a c.b r2 ms w l h

/-- the convex-hull property the certificate rests on: a point of a cubic (quadratic) over a
sub-range is within `√d` of a segment if the control points of `split_range` of that sub-range are -/
theorem bezier_sub_range_in_band (c : Cubic K) (q : Quad K) (a b : P K) (d τ0 τ1 u : K) (h0 : 0 ≤ u) (h1 : u ≤ 1) :
    ((∀ p ∈ cubicCtrl c τ0 τ1, Slab.sqDistSeg p a b ≤ d) → Slab.sqDistSeg (c.sample (τ0 + u * (τ1 - τ0))) a b ≤ d)
    ∧ ((∀ p ∈ quadCtrl q τ0 τ1, Slab.sqDistSeg p a b ≤ d) → Slab.sqDistSeg (q.sample (τ0 + u * (τ1 - τ0))) a b ≤ d) :=
  ⟨cubic_hull_law c a b d τ0 τ1 u h0 h1, quad_hull_law q a b d τ0 τ1 u h0 h1⟩

/-! ## The executable instance -/

/-- **The rational instance the executable runs is the field instance at `ℚ`**: `chkFlat` /
`chkFlatCubic` / `farFrom` as compiled into `model_c09` (Model/RatScalar.lean) are the functions the
theorems above speak about. -/
theorem ratScalar_eq_fieldScalar_c09 : (instScalarRat : Scalar ℚ) = fieldScalar := by
  unfold instScalarRat fieldScalar
  congr
  funext a
  split_ifs with h
  · exact (abs_of_neg h).symm
  · exact (abs_of_nonneg (not_lt.mp h)).symm

/-- `chk_flat_sound` for the executable checker on rationals -/
theorem chk_flat_sound_rat (q : Quad ℚ) (tol k eps : ℚ) (l : List (FlatSeg ℚ))
    (h : @chkFlat ℚ instScalarRat q tol k eps l = true) :
    (l ≠ [] ∧ Chain q.a 0 l ∧ lastPt q.a l = q.b ∧ lastT 0 l = 1
      ∧ ∀ sg ∈ l, 0 ≤ sg.t0 ∧ sg.t0 < sg.t1 ∧ sg.t1 ≤ 1)
    ∧ (∀ sg ∈ l, (sg.a - q.sample sg.t0).sqLen ≤ eps * eps ∧ (sg.b - q.sample sg.t1).sqLen ≤ eps * eps)
    ∧ ∀ t : ℚ, 0 ≤ t → t ≤ 1 → ∃ sg ∈ l, ∃ s2 : ℚ, 0 ≤ s2 ∧ s2 ≤ 1 ∧
        (q.sample t - sg.a.lerp sg.b s2).sqLen ≤ (k * tol + eps) * (k * tol + eps) := by
  rw [ratScalar_eq_fieldScalar_c09] at h
  exact chk_flat_sound q tol k eps l h

/-- `chk_flat_cubic_sound` for the executable checker on rationals -/
theorem chk_flat_cubic_sound_rat (c : Cubic ℚ) (tolq tolc k eps : ℚ) (ps : List (Piece ℚ))
    (h : @chkFlatCubic ℚ instScalarRat c tolq tolc k eps ps = true) :
    (∀ pc ∈ ps, 0 ≤ pc.t0 ∧ pc.t0 < pc.t1 ∧ pc.t1 ≤ 1 ∧ chkFlat pc.q tolq k eps pc.l = true)
    ∧ ∀ t : ℚ, 0 ≤ t → t ≤ 1 → ∃ pc ∈ ps, ∃ sg ∈ pc.l, ∃ s : ℚ, 0 ≤ s ∧ s ≤ 1 ∧
        (c.sample t - sg.a.lerp sg.b s).sqLen
          ≤ (k * tolq + k * tolc + 2 * eps) * (k * tolq + k * tolc + 2 * eps) := by
  rw [ratScalar_eq_fieldScalar_c09] at h
  exact chk_flat_cubic_sound c tolq tolc k eps ps h


/-- `chk_hull_quad_sound` for the executable checker on rationals -/
theorem chk_hull_quad_sound_rat (q : Quad ℚ) (r2 : ℚ) (ms : List Nat) (w : Nat) (l : List (FlatSeg ℚ))
    (h : @chkHullQuad ℚ instScalarRat q r2 ms w l = true) :
    (l ≠ [] ∧ Chain q.a 0 l ∧ lastPt q.a l = q.b ∧ lastT 0 l = 1
      ∧ ∀ sg ∈ l, 0 ≤ sg.t0 ∧ sg.t0 < sg.t1 ∧ sg.t1 ≤ 1)
    ∧ (∀ sg ∈ l, (sg.b - q.sample sg.t1).sqLen ≤ r2)
    ∧ ∀ t : ℚ, 0 ≤ t → t ≤ 1 → ∃ sg ∈ l, ∃ s2 : ℚ, 0 ≤ s2 ∧ s2 ≤ 1 ∧
        (q.sample t - sg.a.lerp sg.b s2).sqLen ≤ r2 := by
  rw [ratScalar_eq_fieldScalar_c09] at h
  exact chk_hull_quad_sound q r2 ms w l h

/-- `chk_hull_cubic_sound` for the executable checker on rationals -/
theorem chk_hull_cubic_sound_rat (c : Cubic ℚ) (r2 : ℚ) (ms : List Nat) (w : Nat) (l : List (FlatSeg ℚ))
    (h : @chkHullCubic ℚ instScalarRat c r2 ms w l = true) :
    (l ≠ [] ∧ Chain c.a 0 l ∧ lastPt c.a l = c.b ∧ lastT 0 l = 1
      ∧ ∀ sg ∈ l, 0 ≤ sg.t0 ∧ sg.t0 < sg.t1 ∧ sg.t1 ≤ 1)
    ∧ (∀ sg ∈ l, (sg.b - c.sample sg.t1).sqLen ≤ r2)
    ∧ ∀ t : ℚ, 0 ≤ t → t ≤ 1 → ∃ sg ∈ l, ∃ s2 : ℚ, 0 ≤ s2 ∧ s2 ≤ 1 ∧
        (c.sample t - sg.a.lerp sg.b s2).sqLen ≤ r2 := by
  rw [ratScalar_eq_fieldScalar_c09] at h
  exact chk_hull_cubic_sound c r2 ms w l h

/-- `chk_flat_violation_sound` for the executable checker on rationals -/
theorem chk_flat_violation_sound_rat (q : Quad ℚ) (t r2 : ℚ) (l : List (FlatSeg ℚ))
    (h : @farFrom ℚ instScalarRat (@Quad.sample ℚ instScalarRat q t) r2 l = true) :
    ∀ sg ∈ l, ∀ s : ℚ, 0 ≤ s → s ≤ 1 → r2 < (q.sample t - sg.a.lerp sg.b s).sqLen := by
  rw [ratScalar_eq_fieldScalar_c09] at h
  exact chk_flat_violation_sound q t r2 l h

/-- `chk_flat_cubic_violation_sound` for the executable checker on rationals -/
theorem chk_flat_cubic_violation_sound_rat (c : Cubic ℚ) (t r2 : ℚ) (ps : List (Piece ℚ))
    (h : @farFrom ℚ instScalarRat (@Cubic.sample ℚ instScalarRat c t) r2 (allSegs ps) = true) :
    ∀ pc ∈ ps, ∀ sg ∈ pc.l, ∀ s : ℚ, 0 ≤ s → s ≤ 1 → r2 < (c.sample t - sg.a.lerp sg.b s).sqLen := by
  rw [ratScalar_eq_fieldScalar_c09] at h
  exact chk_flat_cubic_violation_sound c t r2 ps h

/-! ## What the driver evaluates -/

section driver
variable {α : Type} [Scalar α]

/-- the driver (Drive/FlatChkIO.lean) computes every segment's bound once and folds the maximum:
that IS `flatDevSq` (every scalar type, in particular the executable `ℚ`) -/
theorem flat_dev_sq_eq_foldr (q : Quad α) (l : List (FlatSeg α)) :
    flatDevSq q l = (l.map (segDevSq q)).foldr Scalar.max Scalar.zero := by
  induction l with
  | nil => rfl
  | cons sg r ih => simp only [flatDevSq, List.map_cons, List.foldr_cons, ih]

end driver

/-! ## Non-vacuity (concrete inputs, evaluated inside the logic) -/

section examples

/-- `chk_flat_sound(_rat)`: `from (0,0) ctrl (1,1) to (2,0)` cut at `t = 1/2` (chords
`(0,0)→(1,1/2)→(2,0)`), tolerance `1/8`, `k = 1`, `eps = 0` is ACCEPTED (both chords perpendicular,
squared deviation bound `1/80 ≤ 1/64`) — for the field instance and for the executable one -/
example : chkFlat (⟨⟨0,0⟩,⟨1,1⟩,⟨2,0⟩⟩ : Quad ℚ) (1/8) 1 0
    [⟨⟨0,0⟩,⟨1,1/2⟩,0,1/2⟩, ⟨⟨1,1/2⟩,⟨2,0⟩,1/2,1⟩] = true := by
  simp only [chkFlat, chainOK, flatVtxSq, flatDevSq, segVtxSq, segDevSq, segV, segDD, devSq, perpSq,
    hairEndSq, hairW, hairEx, hairAlongSq, Quad.secondDiff, Quad.sample, p_beq, sc_beq, geom,
    Bool.and_eq_true, decide_eq_true_eq]
  norm_num

example : @chkFlat ℚ instScalarRat (⟨⟨0,0⟩,⟨1,1⟩,⟨2,0⟩⟩ : Quad ℚ) (1/8) 1 0
    [⟨⟨0,0⟩,⟨1,1/2⟩,0,1/2⟩, ⟨⟨1,1/2⟩,⟨2,0⟩,1/2,1⟩] = true := by
  rw [ratScalar_eq_fieldScalar_c09]
  simp only [chkFlat, chainOK, flatVtxSq, flatDevSq, segVtxSq, segDevSq, segV, segDD, devSq, perpSq,
    hairEndSq, hairW, hairEx, hairAlongSq, Quad.secondDiff, Quad.sample, p_beq, sc_beq, geom,
    Bool.and_eq_true, decide_eq_true_eq]
  norm_num

/-- a rounded vertex: the middle vertex moved by `(0, 1/1000)` is accepted with `eps = 1/1000` and
`k = 1` (the deviation is measured from the EXACT chord, `eps` carries the vertex) and rejected
with `eps = 0` -/
example : chkFlat (⟨⟨0,0⟩,⟨1,1⟩,⟨2,0⟩⟩ : Quad ℚ) (1/8) 1 (1/1000)
    [⟨⟨0,0⟩,⟨1,501/1000⟩,0,1/2⟩, ⟨⟨1,501/1000⟩,⟨2,0⟩,1/2,1⟩] = true
  ∧ chkFlat (⟨⟨0,0⟩,⟨1,1⟩,⟨2,0⟩⟩ : Quad ℚ) (1/8) 1 0
    [⟨⟨0,0⟩,⟨1,501/1000⟩,0,1/2⟩, ⟨⟨1,501/1000⟩,⟨2,0⟩,1/2,1⟩] = false := by
  constructor
  · simp only [chkFlat, chainOK, flatVtxSq, flatDevSq, segVtxSq, segDevSq, segV, segDD, devSq, perpSq,
      hairEndSq, hairW, hairEx, hairAlongSq, Quad.secondDiff, Quad.sample, p_beq, sc_beq, geom,
      Bool.and_eq_true, decide_eq_true_eq]
    norm_num
  · simp only [chkFlat, chainOK, flatVtxSq, flatDevSq, segVtxSq, segDevSq, segV, segDD, devSq, perpSq,
      hairEndSq, hairW, hairEx, hairAlongSq, Quad.secondDiff, Quad.sample, geom]
    norm_num

/-- `hairpin_chord_bound(_eq)`, `hairpin_tighter_than_parametric`: the chord `v = (1,0)` with
`dd = (3,1)` is a hairpin chord (`κ = 3`): `devSq = 25/144` where the parametric bound is `10/16`;
with `dd = (3/2,1)` (`κ = 3/2 ≤ 2`) the end-point stretch is so short that the perpendicular bound
`1/16` is the maximum (parametric: `13/64`) -/
example : (0:ℚ) < (⟨1,0⟩ : P ℚ).sqLen ∧ (⟨1,0⟩ : P ℚ).sqLen < |(⟨3,1⟩ : P ℚ).dot ⟨1,0⟩|
    ∧ devSq (⟨1,0⟩ : P ℚ) ⟨3,1⟩ = 25 / 144 ∧ (⟨3,1⟩ : P ℚ).sqLen / 16 = 10 / 16
    ∧ devSq (⟨1,0⟩ : P ℚ) ⟨3/2,1⟩ = 1 / 16 := by
  simp only [devSq, perpSq, hairEndSq, hairW, hairEx, hairAlongSq, geom]
  norm_num

/-- `chk_flat_violation_sound(_rat)` / `chk_flat_exclusive`: the witness of the collinear-overshoot
finding, `from (0,0) ctrl (1000,0) to (1/100,0)` emitted as ONE segment: the curve point at `t = 1/2`
(`x = 500.0025`) is farther than `1/10` from it -/
example : farFrom ((⟨⟨0,0⟩,⟨1000,0⟩,⟨1/100,0⟩⟩ : Quad ℚ).sample (1/2)) ((1/10) * (1/10))
    [⟨⟨0,0⟩,⟨1/100,0⟩,0,1⟩] = true := by
  simp only [farFrom, Slab.sqDistSeg, Quad.sample, List.all_cons, List.all_nil, sc_beq, geom]
  norm_num

/-- `chk_flat_cubic_sound(_rat)`, `chk_flat_cubic_vertices`: the cubic `(0,0) (1,3) (3,3) (4,0)` as
ONE piece `(0,0) (2,9/2) (4,0)` over `[0,1]` (its exact `to_quadratic`; `|D|² = 4`, piece deviation
`4/432 ≤ (1/5)²`) flattened into two chords at `u = 1/2` (bound `81/580 ≤ (2/5)²`) is accepted with
`tolq = 2/5`, `tolc = 1/5`, `k = 1`, `eps = 0` -/
example : chkFlatCubic (⟨⟨0,0⟩,⟨1,3⟩,⟨3,3⟩,⟨4,0⟩⟩ : Cubic ℚ) (2/5) (1/5) 1 0
    [⟨⟨⟨0,0⟩,⟨2,9/2⟩,⟨4,0⟩⟩, 0, 1, [⟨⟨0,0⟩,⟨2,9/4⟩,0,1/2⟩, ⟨⟨2,9/4⟩,⟨4,0⟩,1/2,1⟩]⟩] = true := by
  simp only [chkFlatCubic, rangesOK, joinsOK, pieceOK, pieceCtrlSq, pieceDevSq, pieceExact, thirdDiff,
    Cubic.splitRange, Cubic.toQuadratic, Cubic.sample, List.all_cons, List.all_nil,
    chkFlat, chainOK, flatVtxSq, flatDevSq, segVtxSq, segDevSq, segV, segDD, devSq, perpSq,
    hairEndSq, hairW, hairEx, hairAlongSq, Quad.secondDiff, Quad.sample, p_beq, sc_beq, geom,
    Bool.and_eq_true, decide_eq_true_eq]
  norm_num

/-- `chk_flat_cubic_violation_sound(_rat)`: the same cubic emitted as the single segment
`(0,0)→(4,0)`: its point at `t = 1/2`, `(2, 9/4)`, is farther than `2` from it -/
example : farFrom ((⟨⟨0,0⟩,⟨1,3⟩,⟨3,3⟩,⟨4,0⟩⟩ : Cubic ℚ).sample (1/2)) (2 * 2)
    (allSegs [⟨⟨⟨0,0⟩,⟨2,9/2⟩,⟨4,0⟩⟩, 0, 1, [⟨⟨0,0⟩,⟨4,0⟩,0,1⟩]⟩]) = true := by
  simp only [farFrom, allSegs, List.flatMap_cons, List.flatMap_nil, List.append_nil, Slab.sqDistSeg,
    Cubic.sample, List.all_cons, List.all_nil, sc_beq, geom]
  norm_num

/-- the `_rat` theorems' hypotheses, for the executable instance: the same three inputs -/
example : @farFrom ℚ instScalarRat (@Quad.sample ℚ instScalarRat (⟨⟨0,0⟩,⟨1000,0⟩,⟨1/100,0⟩⟩ : Quad ℚ) (1/2))
    ((1/10) * (1/10)) [⟨⟨0,0⟩,⟨1/100,0⟩,0,1⟩] = true := by
  rw [ratScalar_eq_fieldScalar_c09]
  simp only [farFrom, Slab.sqDistSeg, Quad.sample, List.all_cons, List.all_nil, sc_beq, geom]
  norm_num

example : @chkFlatCubic ℚ instScalarRat (⟨⟨0,0⟩,⟨1,3⟩,⟨3,3⟩,⟨4,0⟩⟩ : Cubic ℚ) (2/5) (1/5) 1 0
    [⟨⟨⟨0,0⟩,⟨2,9/2⟩,⟨4,0⟩⟩, 0, 1, [⟨⟨0,0⟩,⟨2,9/4⟩,0,1/2⟩, ⟨⟨2,9/4⟩,⟨4,0⟩,1/2,1⟩]⟩] = true := by
  rw [ratScalar_eq_fieldScalar_c09]
  simp only [chkFlatCubic, rangesOK, joinsOK, pieceOK, pieceCtrlSq, pieceDevSq, pieceExact, thirdDiff,
    Cubic.splitRange, Cubic.toQuadratic, Cubic.sample, List.all_cons, List.all_nil,
    chkFlat, chainOK, flatVtxSq, flatDevSq, segVtxSq, segDevSq, segV, segDD, devSq, perpSq,
    hairEndSq, hairW, hairEx, hairAlongSq, Quad.secondDiff, Quad.sample, p_beq, sc_beq, geom,
    Bool.and_eq_true, decide_eq_true_eq]
  norm_num

example : @farFrom ℚ instScalarRat (@Cubic.sample ℚ instScalarRat (⟨⟨0,0⟩,⟨1,3⟩,⟨3,3⟩,⟨4,0⟩⟩ : Cubic ℚ) (1/2)) (2 * 2)
    (allSegs [⟨⟨⟨0,0⟩,⟨2,9/2⟩,⟨4,0⟩⟩, 0, 1, [⟨⟨0,0⟩,⟨4,0⟩,0,1⟩]⟩]) = true := by
  rw [ratScalar_eq_fieldScalar_c09]
  simp only [farFrom, allSegs, List.flatMap_cons, List.flatMap_nil, List.append_nil, Slab.sqDistSeg,
    Cubic.sample, List.all_cons, List.all_nil, sc_beq, geom]
  norm_num

/-- `chk_hull_quad_sound(_rat)`: the quadratic `(0,0) (1,1/10) (2,0)` emitted as ONE segment, one
sub-range (`ms = [1]`), no neighbours, `r2 = (1/8)²`: accepted (the control point is `1/10` from the
chord); with `r2 = (1/20)²` the same segment has a certified violation at `t = 1/2` (the curve point
`(1, 1/20)`… is exactly `1/20` away: not a violation; at `r2 = (1/25)²` it is) -/
example : chkHullQuad (⟨⟨0,0⟩,⟨1,1/10⟩,⟨2,0⟩⟩ : Quad ℚ) ((1/8) * (1/8)) [1] 0 [⟨⟨0,0⟩,⟨2,0⟩,0,1⟩] = true
    ∧ farFrom ((⟨⟨0,0⟩,⟨1,1/10⟩,⟨2,0⟩⟩ : Quad ℚ).sample (1/2)) ((1/25) * (1/25)) [⟨⟨0,0⟩,⟨2,0⟩,0,1⟩] = true := by
  constructor
  · simp only [chkHullQuad, chkHull, chainOK, vtxNear, hullAll, chordHullOK, candidates, window, rangeCovered,
      ptsNear, subParam, quadCtrl, Quad.splitRange, Quad.sample, Slab.sqDistSeg, List.all_cons, List.all_nil,
      List.any_cons, List.any_nil, List.range, List.range.loop, p_beq, sc_beq, geom,
      Bool.and_eq_true, Bool.or_eq_true, decide_eq_true_eq]
    norm_num
  · simp only [farFrom, Slab.sqDistSeg, Quad.sample, List.all_cons, List.all_nil, sc_beq, geom]
    norm_num

/-- `chk_hull_cubic_sound(_rat)`: the cubic `(0,0) (1,1/10) (2,1/10) (3,0)` emitted as ONE segment,
`ms = [1]`, `r2 = (1/8)²`: accepted -/
example : chkHullCubic (⟨⟨0,0⟩,⟨1,1/10⟩,⟨2,1/10⟩,⟨3,0⟩⟩ : Cubic ℚ) ((1/8) * (1/8)) [1] 0
    [⟨⟨0,0⟩,⟨3,0⟩,0,1⟩] = true := by
  simp only [chkHullCubic, chkHull, chainOK, vtxNear, hullAll, chordHullOK, candidates, window, rangeCovered,
    ptsNear, subParam, cubicCtrl, Cubic.splitRange, Cubic.sample, Quad.sample, Slab.sqDistSeg, List.all_cons,
    List.all_nil, List.any_cons, List.any_nil, List.range, List.range.loop, p_beq, sc_beq,
    geom, Bool.and_eq_true, Bool.or_eq_true, decide_eq_true_eq]
  norm_num

example : @chkHullCubic ℚ instScalarRat (⟨⟨0,0⟩,⟨1,1/10⟩,⟨2,1/10⟩,⟨3,0⟩⟩ : Cubic ℚ) ((1/8) * (1/8)) [1] 0
    [⟨⟨0,0⟩,⟨3,0⟩,0,1⟩] = true := by
  rw [ratScalar_eq_fieldScalar_c09]
  simp only [chkHullCubic, chkHull, chainOK, vtxNear, hullAll, chordHullOK, candidates, window, rangeCovered,
    ptsNear, subParam, cubicCtrl, Cubic.splitRange, Cubic.sample, Quad.sample, Slab.sqDistSeg, List.all_cons,
    List.all_nil, List.any_cons, List.any_nil, List.range, List.range.loop, p_beq, sc_beq,
    geom, Bool.and_eq_true, Bool.or_eq_true, decide_eq_true_eq]
  norm_num

end examples

end Lyon.C09
