/-
  C16, second part — the adapters with the CONCRETE curve flatteners of lyon_geom.

  `Props/C16.lean` states the flattening clauses for an arbitrary flattener `F` / `G` under the
  hypotheses `EndsAtTo`, `ChainedToEnd`, `IterEndsAtTo`.  Here the flatteners are the ones the
  adapters really call — `cbModel tol` (`for_each_flattened_with_t`, callback form) and
  `itModel fuel tol` (the `Flattened` iterators) of `Model/Path/AdaptersConcrete.lean`, i.e. the
  model of `Model/Geom/Flatten.lean` that C09 is about and that the `e2e` family of the C16 tie
  runs bit for bit against the real adapters — and the hypotheses are DISCHARGED from C09's
  theorems (`quad_flat_connected`, `quad_flat_ranges`, `cubic_flat_connected`,
  `quad_iter_final`/`cubic_iter_last_point` in their whole-run form `quadIter_ends`,
  `cubicIter_ends`).

  The only outcome of lyon_geom that is not a list of lines is explicit: the `…C` adapters are
  `none` when lyon_geom panics on a curve (`count.to_u32().unwrap()`, `to_i32().unwrap()`) or a
  curve iterator is still running after `fuel` pulls; every theorem reads
  "`flat…C … = some out` → the property holds of `out`".

  Scalar types:
  * iterator side (`iterator::Flattened`): EVERY scalar type `α` whose `==` accepts `1 == 1`
    (`Float32` included) — `iter_flatten_keeps_endpoints_concrete`, `flatIter_wellformed_concrete`,
    `nesting_orders_iter_concrete`;
  * builder side, programs without `cubic_bezier_to`: every such scalar type
    (`flatten_keeps_endpoints_concrete_quads`);
  * builder side with cubics, `for_each_flattened`, interpolation: ordered fields (C09's cubic
    callback statement uses `sample 1 = to`, the interpolation is field arithmetic).

  `flatten_commutes_builder_iter_concrete` holds for programs WITHOUT cubics (and needs the
  integer laws `CountLaws` of `ceil`/`to_u32`/`EPSILON`): for a cubic the two lyon_geom entry
  points yield different points — `cubic_builder_iter_differ` (exact difference; an observation,
  the property does not ask the flattening stages to agree point for point).
-/
import LyonVerif.Props.C16
import LyonVerif.Lemmas.AdaptersConcreteIter
import LyonVerif.Lemmas.AdaptersConcreteCb
import LyonVerif.Lemmas.AdaptersConcreteAgree
import LyonVerif.Lemmas.AdaptersConcreteEx
import LyonVerif.Lemmas.AdaptersConcreteReal

set_option linter.unusedSectionVars false
set_option linter.unusedVariables false

namespace Lyon.C16
open Lyon Lyon.Path Lyon.Adapt Scalar

/-! ## The hypotheses of `Props/C16.lean`, discharged -/

section any
variable {α : Type} [Scalar α] [Transc α] [FlatConst α]

/-- `IterEndsAtTo` for lyon_geom's `Flattened` iterators (every curve whose iterator finishes
within the fuel; `itTot` = `itModel` there) — every scalar type with `1 == 1` -/
theorem itTot_iterEndsAtTo (hone : ((one : α) == one) = true) (fuel : Nat) (tol : α) :
    IterEndsAtTo (itTot fuel tol) :=
  itTot_ends hone fuel tol

/-- the concrete iterators themselves: a finished curve iterator has yielded `… ++ [to]` -/
theorem itModel_ends_at_to (hone : ((one : α) == one) = true) (fuel : Nat) (tol : α) :
    (∀ a c b, itOkQuad fuel tol a c b = true → ∃ l, (itModel fuel tol).quad a c b = l ++ [b]) ∧
    (∀ a c d b, itOkCubic fuel tol a c d b = true → ∃ l, (itModel fuel tol).cubic a c d b = l ++ [b]) :=
  ⟨fun a c b h => itModel_quad_ends fuel tol a c b h,
   fun a c d b h => itModel_cubic_ends hone fuel tol a c d b h⟩

end any

section field
variable {K : Type} [Field K] [LinearOrder K] [IsStrictOrderedRing K] [Transc K] [FlatConst K]

/-- `EndsAtTo` for lyon_geom's callback flatteners (C09 `quad_flat_connected/ranges`,
`cubic_flat_connected`) -/
theorem cbTot_endsAtTo (tol : K) : EndsAtTo (cbTot tol) :=
  ⟨cbTot_quad_ends_field tol, cbTot_cubic_ends tol⟩

/-- `ChainedToEnd` for them (C09 clause `connected`) -/
theorem cbTot_chainedToEnd (tol : K) : ChainedToEnd (cbTot tol) :=
  ⟨cbTot_endsAtTo tol, cbTot_quad_chained tol, cbTot_cubic_chained tol⟩

/-- the concrete callback flatteners themselves, on every curve lyon_geom does not panic on -/
theorem cbModel_ends_at_to (tol : K) :
    (∀ a c b, cbOkQuad tol a c b = true → ∃ l x, (cbModel tol).quad a c b = l ++ [⟨x, b, 1⟩]) ∧
    (∀ a c d b, cbOkCubic tol a c d b = true →
      ∃ l x, (cbModel tol).cubic a c d b = l ++ [⟨x, b, 1⟩]) := by
  refine ⟨fun a c b h => ?_, fun a c d b h => cbModel_cubic_ends tol a c d b h⟩
  obtain ⟨l, x, hl⟩ := cbModel_quad_ends tol a c b h
  exact ⟨l, x, by rw [hl, show (one : K) = 1 from sc_one]⟩

end field

/-! ## 1. Endpoints are kept exactly, in order, with their attributes -/

section field
variable {K : Type} [Field K] [LinearOrder K] [IsStrictOrderedRing K] [Transc K] [FlatConst K]

/-- **flatten_keeps_endpoints_concrete**: `Flattened::new(inner, tol)` with lyon_geom's own
flattener, for EVERY program, tolerance and attribute count: if lyon_geom does not panic, the
calls `inner` receives contain every original endpoint, exactly, in order, with its original
attributes, and the sub-path marks unchanged.  No hypothesis on the flattener is left. -/
theorem flatten_keeps_endpoints_concrete (tol : K) (o : P K) (n : Nat)
    (prog out : List (Call (P K) (List K))) (h : flatBuilderC tol o n prog = some out) :
    List.Sublist (endpoints prog) (endpoints out) ∧
    out.filter Call.isMark = prog.filter Call.isMark := by
  unfold flatBuilderC at h
  split at h
  · rename_i hok
    cases Option.some.inj h
    have e : flatBuilder (cbModel tol) o n prog = flatBuilder (cbTot tol) o n prog :=
      flatRun_cbTot tol (FlatB.init o n) prog hok
    rw [e]
    exact flatten_keeps_endpoints (cbTot tol) (cbTot_endsAtTo tol) o n prog
  · cases h

end field

section any
variable {α : Type} [Scalar α] [Transc α] [FlatConst α]

/-- the builder-side statement for EVERY scalar type with `1 == 1` (so also in `Float32`
arithmetic, where "exactly" is not a triviality), for programs without `cubic_bezier_to`:
the quadratic callback flattener's last callback is `(to, 1.0)` by construction, and
`t.end == 1.0` then selects the call's own attributes. -/
theorem flatten_keeps_endpoints_concrete_quads (hone : ((one : α) == one) = true) (tol : α)
    (o : P α) (n : Nat) (prog out : List (Call (P α) (List α))) (hnc : noCubic prog = true)
    (h : flatBuilderC tol o n prog = some out) :
    List.Sublist (endpoints prog) (endpoints out) ∧
    out.filter Call.isMark = prog.filter Call.isMark := by
  unfold flatBuilderC at h
  split at h
  · rename_i hok
    cases Option.some.inj h
    refine ⟨?_, marks_flatRun _ _ prog⟩
    have e : flatBuilder (cbModel tol) o n prog = flatBuilder (cbTotQ tol) o n prog :=
      flatRun_cbTotQ tol (FlatB.init o n) prog hok hnc
    rw [e]
    exact keeps_run_any hone (cbTotQ tol) (cbTot_quad_ends tol) (fun a _ _ b => ⟨[], a, rfl⟩) _ prog
  · cases h

/-- **iter_flatten_keeps_endpoints_concrete**: `events.flattened(tol)` with lyon_geom's own
`Flattened` iterators keeps every endpoint the stream visits, exactly and in order — every
scalar type with `1 == 1`, every event stream, quadratics AND cubics (repair e20d2048). -/
theorem iter_flatten_keeps_endpoints_concrete (hone : ((one : α) == one) = true) (fuel : Nat)
    (tol : α) (evs out : List (Event (P α))) (h : flatIterC fuel tol evs = some out) :
    List.Sublist (eventEndpoints evs) (eventEndpoints out) := by
  unfold flatIterC at h
  split at h
  · rename_i hok
    cases Option.some.inj h
    rw [flatIter_itTot fuel tol evs hok]
    exact iter_flatten_keeps_endpoints (itTot fuel tol) (itTot_iterEndsAtTo hone fuel tol) evs
  · cases h

/-! ## 5. The iterator-side flattened stream is a well-formed path -/

/-- **flatIter_wellformed_concrete**: `iterator::Flattened` over lyon_geom's own iterators maps
a well-formed event stream to a well-formed one (every line starts where the previous one
ended, `End` names the last and the first point) — every scalar type with `1 == 1`; equality of
points is the structural one (`instBEqOfDecidableEq`, classical for `Float32`; NOT the IEEE `==`
of `P.instBEq`, for which a NaN coordinate is not equal to itself). -/
theorem flatIter_wellformed_concrete [DecidableEq (P α)] (hone : ((one : α) == one) = true)
    (fuel : Nat) (tol : α) (evs out : List (Event (P α)))
    (hw : @WellFormed (P α) instBEqOfDecidableEq evs)
    (h : flatIterC fuel tol evs = some out) : @WellFormed (P α) instBEqOfDecidableEq out := by
  unfold flatIterC at h
  split at h
  · rename_i hok
    cases Option.some.inj h
    rw [flatIter_itTot fuel tol evs hok]
    exact flatIter_wellformed (itTot fuel tol) (itTot_iterEndsAtTo hone fuel tol) evs hw
  · cases h

end any

/-! ## 4. Both nesting orders -/

section field
variable {K : Type} [Field K] [LinearOrder K] [IsStrictOrderedRing K] [Transc K] [FlatConst K]

/-- **nesting_orders_concrete**: `Transformed<Flattened<_>>`-then-… i.e. flatten (tolerance
`tol`, in the source space) then transform by the affine map `m`, and transform then flatten
(tolerance `tol2`, in the target space), with lyon_geom's own flattener on both routes: both
keep every original endpoint — transformed by `m`, with its original attributes, in order.
(The inserted points differ: the tolerance is applied in different spaces; see
`flatten_similarity_…` for when they coincide.) -/
theorem nesting_orders_concrete (m : Xf K) (tol tol2 : K) (o o2 : P K) (n : Nat)
    (prog out1 out2 : List (Call (P K) (List K)))
    (h1 : flatBuilderC tol o n prog = some out1)
    (h2 : flatBuilderC tol2 o2 n (xfBuilder m.apply prog) = some out2) :
    List.Sublist ((endpoints prog).map fun e => (m.apply e.1, e.2))
      (endpoints (xfBuilder m.apply out1)) ∧
    List.Sublist ((endpoints prog).map fun e => (m.apply e.1, e.2)) (endpoints out2) := by
  constructor
  · rw [xfBuilder, endpoints_map]
    exact (flatten_keeps_endpoints_concrete tol o n prog out1 h1).1.map _
  · have := (flatten_keeps_endpoints_concrete tol2 o2 n _ out2 h2).1
    rwa [xfBuilder, endpoints_map] at this

end field

section any
variable {α : Type} [Scalar α] [Transc α] [FlatConst α]

/-- the same for the iterator-side adapters, every scalar type with `1 == 1`, every point map -/
theorem nesting_orders_iter_concrete (hone : ((one : α) == one) = true) (g : P α → P α)
    (fuel : Nat) (tol tol2 : α) (evs out1 out2 : List (Event (P α)))
    (h1 : flatIterC fuel tol evs = some out1)
    (h2 : flatIterC fuel tol2 (xfIter g evs) = some out2) :
    List.Sublist ((eventEndpoints evs).map g) (eventEndpoints (xfIter g out1)) ∧
    List.Sublist ((eventEndpoints evs).map g) (eventEndpoints out2) := by
  constructor
  · rw [xfIter, eventEndpoints_map]
    exact (iter_flatten_keeps_endpoints_concrete hone fuel tol evs out1 h1).map _
  · have := iter_flatten_keeps_endpoints_concrete hone fuel tol2 _ out2 h2
    rwa [xfIter, eventEndpoints_map] at this

end any

/-! ## 3. Attributes of the inserted points -/

section field
variable {K : Type} [Field K] [LinearOrder K] [IsStrictOrderedRing K] [Transc K] [FlatConst K]

/-- **flatten_attr_interp_concrete**: with lyon_geom's own flattener, for every program whose
endpoints carry `n` attributes, what `Flattened` hands down IS the reference flattening: for a
curve from an endpoint with attributes `a_from` to one with `a_to` it emits, for each callback
`(line.to, t.end)` of `for_each_flattened_with_t(tol)` on the curve from the TRUE current
endpoint, the call `line_to(line.to, (1−t)·a_from + t·a_to)` (`interp_is_lerp`); the last
callback has `t = 1` and carries exactly `a_to` (`flatten_keeps_endpoints_concrete`). -/
theorem flatten_attr_interp_concrete (tol : K) (o : P K) (n : Nat)
    (prog out : List (Call (P K) (List K))) (hlen : attrsLen n prog = true)
    (h : flatBuilderC tol o n prog = some out) :
    out = flatSpec (cbModel tol) o n prog := by
  unfold flatBuilderC at h
  split at h
  · cases Option.some.inj h
    exact flatten_attr_interp (cbModel tol) o n prog hlen
  · cases h

/-! ## 2. Flattening while building = flattening while iterating -/

/-- builder-side `Flattened` = `for_each_flattened` over the stored, unflattened path,
ATTRIBUTES INCLUDED, with lyon_geom's own flattener, for every well-nested program (cubics
included: both sides call the same callback form): if the builder side does not panic, neither
does `for_each_flattened`, and it yields exactly what `iter_with_attributes` shows of the path
built through `Flattened`. -/
theorem flatten_commutes_with_attributes_concrete (tol : K) (o : P K) (n : Nat)
    (prog out : List (Call (P K) (List K))) (hn : WellNested prog) (hlen : attrsLen n prog = true)
    (h : flatBuilderC tol o n prog = some out) :
    flatAttrIterC tol (attrEvents prog) = some (attrEvents out) := by
  unfold flatBuilderC at h
  split at h
  · rename_i hok
    cases Option.some.inj h
    have hev : cbOkEvents tol (attrEvents prog) = true :=
      cbOkEvents_of_run tol none o prog hn (by intro f c h; cases h) hok
    have e : flatBuilder (cbModel tol) o n prog = flatBuilder (cbTot tol) o n prog :=
      flatRun_cbTot tol (FlatB.init o n) prog hok
    simp only [flatAttrIterC, hev, if_true, Option.some.injEq]
    rw [flatAttrIter_cbTot tol _ hev, e]
    exact (flatten_commutes_with_attributes (cbTot tol) (cbTot_chainedToEnd tol) o n prog hn hlen).symm
  · cases h

/-- the simulation behind `flatten_commutes_builder_iter_concrete` -/
theorem flatRun_events_concrete (L : CountLaws K) (fuel : Nat) (tol : K)
    (st : Option (P K × P K)) (s : FlatB (P K) K) (prog : List (Call (P K) (List K)))
    (hn : wellNestedFrom st.isSome prog = true) (hs : ∀ f c, st = some (f, c) → s.cur = c)
    (hnc : noCubic prog = true) (hcb : cbOkRun tol s.cur prog = true)
    (hit : itOkEvents fuel tol (specFrom st prog) = true) :
    specFrom st (FlatB.run (cbModel tol) s prog) = flatIter (itModel fuel tol) (specFrom st prog) := by
  induction prog generalizing st s with
  | nil => cases st <;> simp [FlatB.run, specFrom, flatIter]
  | cons c r ih =>
    cases st with
    | none =>
      cases c with
      | begin p a =>
        simp only [cbOkRun] at hcb; simp only [noCubic] at hnc
        simp only [specFrom, itOkEvents] at hit
        have := ih (some (p, p)) ⟨p, a⟩ (by simpa [wellNestedFrom] using hn)
          (by intro f c h; cases h; rfl) hnc hcb hit
        simpa [FlatB.run, FlatB.step, specFrom, flatIter] using this
      | line p a => simp [wellNestedFrom] at hn
      | quad k p a => simp [wellNestedFrom] at hn
      | cubic k1 k2 p a => simp [wellNestedFrom] at hn
      | end_ cl => simp [wellNestedFrom] at hn
    | some fc =>
      obtain ⟨f, c0⟩ := fc
      have hcur : s.cur = c0 := hs f c0 rfl
      cases c with
      | begin p a => simp [wellNestedFrom] at hn
      | line p a =>
        simp only [cbOkRun] at hcb; simp only [noCubic] at hnc
        simp only [specFrom, itOkEvents] at hit
        have := ih (some (f, p)) ⟨p, a⟩ (by simpa [wellNestedFrom] using hn)
          (by intro f c h; cases h; rfl) hnc hcb hit
        simpa [FlatB.run, FlatB.step, specFrom, flatIter] using this
      | quad k p a =>
        simp only [cbOkRun, Bool.and_eq_true] at hcb; simp only [noCubic] at hnc
        simp only [specFrom, itOkEvents, Bool.and_eq_true] at hit
        rw [hcur] at hcb
        obtain ⟨l, x, hl⟩ := cbModel_quad_ends tol c0 k p hcb.1
        have hagree := quad_iter_eq_callback L fuel tol c0 k p hcb.1 hit.1
        have := ih (some (f, p)) ⟨p, a⟩ (by simpa [wellNestedFrom] using hn)
          (by intro f c h; cases h; rfl) hnc hcb.2 hit.2
        simp only [FlatB.run, FlatB.step, specFrom, flatIter, hcur, hagree, hl,
          specFrom_emitLines_snoc, this]
      | cubic k1 k2 p a => simp [noCubic] at hnc
      | end_ cl =>
        simp only [cbOkRun] at hcb; simp only [noCubic] at hnc
        simp only [specFrom, itOkEvents] at hit
        have := ih none s (by simpa [wellNestedFrom] using hn) (by intro f c h; cases h) hnc hcb hit
        simpa [FlatB.run, FlatB.step, specFrom, flatIter] using this

/-- **flatten_commutes_builder_iter_concrete**: with lyon_geom's own flatteners, flattening
while building and flattening while iterating give the same path (positions): for every
well-nested program WITHOUT `cubic_bezier_to`, the events denoted by what `Flattened` hands
down are exactly what `path.iter().flattened(tol)` yields over the unflattened path.
Needs `CountLaws` (the count is an integer that `to_u32` converts exactly, `0 ≤ EPSILON < 1`):
the callback form loops `for _ in 1..count`, the iterator stops at `i >= count − EPSILON`.
For cubics the statement is FALSE of lyon (`cubic_builder_iter_differ`). -/
theorem flatten_commutes_builder_iter_concrete (L : CountLaws K) (fuel : Nat) (tol : K)
    (o : P K) (n : Nat) (prog out : List (Call (P K) (List K))) (evs : List (Event (P K)))
    (hn : WellNested prog) (hnc : noCubic prog = true)
    (h1 : flatBuilderC tol o n prog = some out)
    (h2 : flatIterC fuel tol (specEvents prog) = some evs) :
    specEvents out = evs := by
  unfold flatBuilderC at h1
  unfold flatIterC at h2
  split at h1
  · rename_i hcb
    split at h2
    · rename_i hit
      cases Option.some.inj h1
      cases Option.some.inj h2
      exact flatRun_events_concrete L fuel tol none (FlatB.init o n) prog hn
        (by intro f c h; cases h) hnc hcb hit
    · cases h2
  · cases h1

end field

section cubic
variable {K : Type} [Field K] [LinearOrder K] [IsStrictOrderedRing K]

/-- **cubic_builder_iter_differ** (observation, not a violation of C16): for a cubic, sub-range
`[t0, t1]` and inner parameter `t`, the point `iterator::Flattened` emits (lyon_geom's cubic
`Flattened` samples the CUBIC at `t0 + t·(t1−t0)`) minus the point `builder::Flattened` emits
(`for_each_flattened_with_t` flattens the QUADRATIC approximation of the sub-range) is
`½·t(1−t)(1−2t)·(t1−t0)³·(P3 − 3P2 + 3P1 − P0)`. -/
theorem cubic_builder_iter_differ (c : Cubic K) (t0 t1 t : K) :
    c.sample (t0 + t * (t1 - t0)) - (c.splitRange t0 t1).toQuadratic.sample t
      = (((c.b - c.c2.smul 3) + c.c1.smul 3) - c.a).smul
          (1 / 2 * (t * (1 - t) * (1 - 2 * t)) * ((t1 - t0) * (t1 - t0) * (t1 - t0))) :=
  cubic_iter_vs_callback_point c t0 t1 t

end cubic

/-! ## Non-vacuity of the hypotheses

On `ℚ`, with the toy `sqrt`/`ceil`/`to_u32` of `Lemmas/Flatten.lean` (`toyTransc`, `toyConst`)
resp. the genuine `ceil`/`floor` (`ratCeilTransc`), on the program
`begin (0,0) [1]; quadratic_bezier_to (1,1/8) (2,0) [3]; line_to (3,0) [4]; end(close)` at
tolerance `1/10` (the quadratic is accepted by `is_linear`: one callback). -/

section Examples
open Lyon.Flat
attribute [local instance 2000] fieldScalar

/-- hypotheses of `flatten_keeps_endpoints_concrete`, `flatten_attr_interp_concrete`,
`flatten_commutes_with_attributes_concrete` -/
example : (∃ out, @flatBuilderC ℚ _ toyTransc toyConst (1 / 10) ⟨0, 0⟩ 1 exProg = some out)
    ∧ attrsLen 1 (exProg (K := ℚ)) = true ∧ WellNested (exProg (K := ℚ)) :=
  ⟨exBuilderOk toyTransc toyConst, by simp [exProg, attrsLen], by simp [exProg, WellNested, wellNestedFrom]⟩

/-- hypotheses of `flatten_keeps_endpoints_concrete_quads` -/
example : (((one : ℚ)) == one) = true ∧ noCubic (exProg (K := ℚ)) = true
    ∧ ∃ out, @flatBuilderC ℚ _ toyTransc toyConst (1 / 10) ⟨0, 0⟩ 1 exProg = some out :=
  ⟨exOne, by simp [exProg, noCubic], exBuilderOk toyTransc toyConst⟩

/-- hypotheses of `iter_flatten_keeps_endpoints_concrete` and `flatIter_wellformed_concrete` -/
example : (((one : ℚ)) == one) = true
    ∧ (∃ out, @flatIterC ℚ _ toyTransc toyConst 2 (1 / 10) (specEvents exProg) = some out)
    ∧ @WellFormed (P ℚ) (@instBEqOfDecidableEq _ (Classical.decEq _)) (specEvents exProg) := by
  refine ⟨exOne, exIterOk toyTransc toyConst (by show (0 : ℚ) - 1 / 10000 ≤ 1; norm_num), ?_⟩
  let _ : DecidableEq (P ℚ) := Classical.decEq _
  simp [exProg, specEvents, specFrom, WellFormed, wellFormedFrom]

/-- hypotheses of `nesting_orders_concrete`: scale by 2 and translate by (1,1); the transformed
quadratic `(1,1) (3,5/4) (5,1)` is flattened at tolerance `1/5` -/
example : (∃ out1, @flatBuilderC ℚ _ toyTransc toyConst (1 / 10) ⟨0, 0⟩ 1 exProg = some out1)
    ∧ ∃ out2, @flatBuilderC ℚ _ toyTransc toyConst (1 / 5) ⟨0, 0⟩ 1
        (xfBuilder (Xf.apply ⟨2, 0, 0, 2, 1, 1⟩) exProg) = some out2 := by
  refine ⟨exBuilderOk toyTransc toyConst, _, if_pos ?_⟩
  have e : xfBuilder (Xf.apply (⟨2, 0, 0, 2, 1, 1⟩ : Xf ℚ)) exProg
      = [.begin ⟨1, 1⟩ [1], .quad ⟨3, 5 / 4⟩ ⟨5, 1⟩ [3], .line ⟨7, 1⟩ [4], .end_ true] := by
    simp only [xfBuilder, exProg, List.map_cons, List.map_nil, mapCall, Xf.apply]
    norm_num
  rw [e]
  simp only [cbOkRun, Bool.and_eq_true, and_true]
  exact @cbOkQuad_of_isLinear ℚ _ _ _ toyTransc toyConst _ _ _ _ exLinear2

/-- hypotheses of `nesting_orders_iter_concrete` (the identity as point map) -/
example : (∃ out1, @flatIterC ℚ _ toyTransc toyConst 2 (1 / 10) (specEvents exProg) = some out1)
    ∧ ∃ out2, @flatIterC ℚ _ toyTransc toyConst 2 (1 / 10) (xfIter id (specEvents exProg)) = some out2 := by
  have h := exIterOk toyTransc toyConst (by show (0 : ℚ) - 1 / 10000 ≤ 1; norm_num)
  refine ⟨h, ?_⟩
  have e : xfIter id (specEvents (exProg (K := ℚ))) = specEvents (exProg (K := ℚ)) := by
    simp [xfIter, exProg, specEvents, specFrom, mapEvent]
  rw [e]; exact h

/-- hypotheses of `flatten_commutes_builder_iter_concrete` -/
example : @CountLaws ℚ _ _ _ ratCeilTransc toyConst ∧ WellNested (exProg (K := ℚ))
    ∧ noCubic (exProg (K := ℚ)) = true
    ∧ (∃ out, @flatBuilderC ℚ _ ratCeilTransc toyConst (1 / 10) ⟨0, 0⟩ 1 exProg = some out)
    ∧ ∃ evs, @flatIterC ℚ _ ratCeilTransc toyConst 2 (1 / 10) (specEvents exProg) = some evs :=
  ⟨ratCeil_countLaws, by simp [exProg, WellNested, wellNestedFrom], by simp [exProg, noCubic],
   exBuilderOk ratCeilTransc toyConst,
   exIterOk ratCeilTransc toyConst (by show (0 : ℚ) - 1 / 10000 ≤ 1; norm_num)⟩

/-- the hypotheses on single curves (`cbModel_ends_at_to`, `itModel_ends_at_to`), quadratic and
cubic, over ℝ with the genuine `sqrt`/`ceil`/`floor` -/
example : @cbOkQuad ℝ _ exRealTransc exRealConst (1 / 10) ⟨0, 0⟩ ⟨1, 1 / 8⟩ ⟨2, 0⟩ = true
    ∧ @cbOkCubic ℝ _ exRealTransc exRealConst (1 / 10) ⟨0, 0⟩ ⟨0, 0⟩ ⟨0, 0⟩ ⟨0, 0⟩ = true
    ∧ @itOkCubic ℝ _ exRealTransc exRealConst 3 (1 / 10) ⟨0, 0⟩ ⟨0, 0⟩ ⟨0, 0⟩ ⟨0, 0⟩ = true
    ∧ (((one : ℝ)) == one) = true :=
  ⟨@cbOkQuad_of_isLinear ℝ _ _ _ exRealTransc exRealConst _ _ _ _ exLinear, exCbOkCubic,
   exItOkCubic, exOne⟩

/-- … and a program WITH A CUBIC (and two attributes) on which neither the builder-side nor the
iterator-side adapter panics: hypotheses of `flatten_keeps_endpoints_concrete`,
`flatten_attr_interp_concrete`, `flatten_commutes_with_attributes_concrete`,
`iter_flatten_keeps_endpoints_concrete`, `flatIter_wellformed_concrete` -/
example : (∃ out, @flatBuilderC ℝ _ exRealTransc exRealConst (1 / 10) ⟨0, 0⟩ 2 exProgC = some out)
    ∧ (∃ out, @flatIterC ℝ _ exRealTransc exRealConst 3 (1 / 10) (specEvents exProgC) = some out)
    ∧ attrsLen 2 exProgC = true ∧ WellNested exProgC
    ∧ @WellFormed (P ℝ) (@instBEqOfDecidableEq _ (Classical.decEq _)) (specEvents exProgC) := by
  refine ⟨exBuilderOkC, exIterOkC, by simp [exProgC, attrsLen],
    by simp [exProgC, WellNested, wellNestedFrom], ?_⟩
  let _ : DecidableEq (P ℝ) := Classical.decEq _
  simp [exProgC, specEvents, specFrom, WellFormed, wellFormedFrom]

end Examples

end Lyon.C16
