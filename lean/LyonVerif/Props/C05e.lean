/-
  C05e — PROGRAMS on one `StrokeBuilder` (`Model/Tess/StrokeBuilderProg.lean`): several sub-paths, the
  shape helpers (add_rectangle with its thin-rectangle fallback, add_polygon, add_line_segment,
  add_point; circle / ellipse / rounded rectangle arrive as the begin / curve / end calls lyon_path
  expands them to) and the option setters (set_line_join, set_start_cap, set_end_cap,
  set_miter_limit; also inside a sub-path) on the object `StrokeTessellator::builder` /
  `builder_with_attributes` returns.  The definitions are the ones the `prog` family of the C05 check
  executes and compares bit for bit with lyon (`tessellateProg` = `runProg`).

  What a program adds to the single event list of `Props/C05c.lean` / `C05d.lean` is state that
  SURVIVES between calls: `builder.options` (the setters; the thin rectangle widens `line_width` by
  `d` and replaces the caps for ONE segment, then restores), the endpoint id counter, the whole
  `StrokeBuilderImpl`.  The statements:

  §1  index validity at emission time (`VSteps`: every triangle, when `add_triangle` is called, has
      three distinct ids returned by an earlier `add_stroke_vertex`; `VertexId::INVALID` never reaches
      `add_triangle`) for whole programs, whatever options are in force for which call:
        * `prog_indices_valid_polyline`  every scalar type (floats included), every program without
                                         curve calls: all helpers, all setters, thin rectangles
        * `prog_indices_valid_variable`  every scalar type, variable width, curves: given `SkipApart`
        * `prog_indices_valid_partial`   ordered fields, ALL programs (curves included) unless the
                                         width is fixed AND `MiterClip` is the builder's join or the
                                         argument of a `set_line_join` call
      and with them the per-vertex clause `ProgVertexOK`: the source of every vertex names an endpoint
      the program created (or an edge between two), and - fixed width - ITS HALF WIDTH IS HALF THE LINE
      WIDTH THAT WAS IN FORCE WHEN THAT ENDPOINT WAS CREATED: the widened width for the two endpoints
      of a thin rectangle, the configured width for every other endpoint, in particular for every
      sub-path AFTER a thin rectangle (`prog_half_width`, `prog_half_width_no_rect`).
  §2  bookkeeping: ids are consecutive (`prog_ids_consecutive`, `prog_ids_nodup`: the item a source
      names is unique), the thin rectangle restores the options (`thin_rectangle_restores_options`),
      tolerance / variable_line_width never change (`prog_options_fixed_fields`).
  §3  a program without rectangle and setter calls is an ordinary event list:
      `prog_plain_eq_runEvents` (so every theorem of C05c / C05d applies to it, `MiterClip` + curves
      included: `prog_plain_indices_valid_sqrt`).
  §4  non-vacuity examples and a kernel-evaluated program (thin rectangle, then a polyline).
-/
import LyonVerif.Lemmas.StrokeProg
import LyonVerif.Props.C05d

set_option linter.unusedSectionVars false
set_option linter.unusedVariables false

namespace Lyon.C05e
open Lyon Scalar Lyon.Stroke Lyon.Stroke.Full Lyon.Stroke.Prog Lyon.C05 Lyon.C05b Lyon.C05c

/-! ## §1 index validity and per-vertex data of whole programs -/

section Generic
variable {α : Type} [Scalar α] [Transc α] [Asin α] [FlatConst α]

/-- **Polyline programs, every scalar type** (floats included), no hypothesis on the numbers: for
every sequence of begin / line_to / end calls (in any order), add_rectangle (thin or not, both
windings), add_polygon, add_line_segment, add_point and setter calls on one builder, all joins, caps,
miter limits, fixed and variable width: the emission sequence is valid and every vertex is
`ProgVertexOK`. -/
theorem prog_indices_valid_polyline (o : Opts α) (ix : Lyon.StrokeQuad.Ix α) (cmds : List (Cmd α))
    (hp : IsPolyProg cmds) :
    VSteps (ProgVertexOK (expand ⟨o, 0⟩ cmds)) (Out.empty 0) (runProg o ix cmds).st.out := by
  have h := runItems_spec (c := clsOf (ProgVertexOK (expand ⟨o, 0⟩ cmds)) (fun f _ => f = false) (fun _ _ h => h))
    (G := fun _ _ _ => True) (Env.new o ix) (storeOf (expand ⟨o, 0⟩ cmds)) (K := ProgId (expand ⟨o, 0⟩ cmds))
    (Or.inl rfl) (expand ⟨o, 0⟩ cmds)
    (fun it hit => ⟨reg_poly_cls _ _, evOK_prog _ _ _ _ _ it hit rfl (Or.inr (expand_poly cmds hp _ it hit))⟩)
  exact h.steps

/-- **Variable width, every scalar type**, all programs (curves included): the only arithmetic fact
needed is `SkipApart` for the merge threshold (computed once, when the builder is created). -/
theorem prog_indices_valid_variable (o : Opts α) (ix : Lyon.StrokeQuad.Ix α) (cmds : List (Cmd α))
    (hvw : o.varWidth = true) (hap : SkipApart (Env.new o ix).thr) :
    VSteps (ProgVertexOK (expand ⟨o, 0⟩ cmds)) (Out.empty 0) (runProg o ix cmds).st.out := by
  have h := runItems_spec (c := clsOf (ProgVertexOK (expand ⟨o, 0⟩ cmds)) (fun _ _ => True) (fun _ _ h => h))
    (G := fun _ _ _ => True) (Env.new o ix) (storeOf (expand ⟨o, 0⟩ cmds)) (K := ProgId (expand ⟨o, 0⟩ cmds))
    (Or.inl rfl) (expand ⟨o, 0⟩ cmds)
    (fun it hit => ⟨reg_variable_cls (envOf (Env.new o ix) it) _
        (by show it.o.varWidth = true; rw [(expand_opts cmds ⟨o, 0⟩ it hit).2.1]; exact hvw) hap,
      evOK_prog _ _ _ _ _ it hit trivial (Or.inl fun _ => trivial)⟩)
  exact h.steps

end Generic

section Field
variable {K : Type} [Field K] [LinearOrder K] [IsStrictOrderedRing K] [Transc K] [Asin K] [FlatConst K]

/-- **Ordered fields (exact arithmetic), ALL programs** (lines, quadratics, cubics, every helper,
every setter, thin rectangles; open / closed / empty / single-point sub-paths; calls in any order),
all caps, miter limits, tolerances; variable width with every join, fixed width as long as
`MiterClip` is neither the builder's join nor set by a `set_line_join` call.  `sqrt`, the
trigonometric functions, `asin`, `is_nan`, the curve flattening and the line intersection are
arbitrary functions.

`_partial`: fixed width + `LineJoin::MiterClip` + curves + option changes is missing (without
rectangle and setter calls it is `prog_plain_indices_valid_sqrt`; for polyline programs
`prog_indices_valid_polyline`): the linked window invariant of `Lemmas/StrokeIdxClipRun.lean` ties
the side points to `line_width`, which a thin rectangle changes. -/
theorem prog_indices_valid_partial (o : Opts K) (ix : Lyon.StrokeQuad.Ix K) (cmds : List (Cmd K))
    (h : o.varWidth = true ∨ (o.join ≠ .miterClip ∧ Cmd.setJoin .miterClip ∉ cmds)) :
    VSteps (ProgVertexOK (expand ⟨o, 0⟩ cmds)) (Out.empty 0) (runProg o ix cmds).st.out := by
  rcases Bool.eq_false_or_eq_true o.varWidth with hvw | hvw
  · exact prog_indices_valid_variable o ix cmds hvw (skipApart_field _)
  · have hj : o.join ≠ .miterClip ∧ Cmd.setJoin .miterClip ∉ cmds := by
      rcases h with h | h
      · rw [hvw] at h; cases h
      · exact h
    have hjoin : ∀ it ∈ expand ⟨o, 0⟩ cmds, it.o.join ≠ .miterClip := by
      intro it hit hc
      rcases expand_join cmds ⟨o, 0⟩ it hit with h1 | h1
      · exact hj.1 (h1 ▸ hc)
      · exact hj.2 (hc ▸ h1)
    have hr := runItems_spec (c := clsOf (ProgVertexOK (expand ⟨o, 0⟩ cmds)) NoClip noClip_miter)
      (G := Sym) (Env.new o ix) (storeOf (expand ⟨o, 0⟩ cmds)) (K := ProgId (expand ⟨o, 0⟩ cmds))
      (Or.inl rfl) (expand ⟨o, 0⟩ cmds)
      (fun it hit => ⟨reg_field_fixed_cls (envOf (Env.new o ix) it) _
          (by show it.o.varWidth = false; rw [(expand_opts cmds ⟨o, 0⟩ it hit).2.1]; exact hvw),
        evOK_prog _ _ _ _ _ it hit (hjoin it hit) (Or.inl fun _ => hjoin it hit)⟩)
    exact hr.steps

end Field

/-! ### what `ProgVertexOK` says about the line width -/

section Widths
variable {α : Type} [Scalar α] [Transc α]

/-- **the half width of every vertex of a fixed-width program** is half the configured line width,
or - only for a vertex whose source is one of the two endpoints of a thin rectangle - half of
`line_width + d` of that rectangle.  (`hC` is what `prog_indices_valid_*` + `mesh_of_vsteps` give
for every vertex.) -/
theorem prog_half_width (o : Opts α) (cmds : List (Cmd α)) (hfw : o.varWidth = false)
    (s : Src α) (hw : α) (hC : ProgVertexOK (expand ⟨o, 0⟩ cmds) s hw) :
    hw = o.lineWidth * half
    ∨ ∃ mn mx positive a, Cmd.rect mn mx positive a ∈ cmds ∧ hw = (o.lineWidth + (thinSegment mn mx).2.2) * half := by
  obtain ⟨_, it, hit, _, hhw⟩ := hC
  obtain ⟨_, hv, _, hl⟩ := expand_opts cmds ⟨o, 0⟩ it hit
  have hw' := hhw (hv.trans hfw)
  rcases hl with hl | ⟨_, mn, mx, positive, a, hc, hl⟩
  · exact Or.inl (by rw [hw', hl])
  · exact Or.inr ⟨mn, mx, positive, a, hc, by rw [hw', hl]⟩

/-- without `add_rectangle` calls every vertex of a fixed-width program carries half the configured
line width, whatever the setters did in between -/
theorem prog_half_width_no_rect (o : Opts α) (cmds : List (Cmd α)) (hfw : o.varWidth = false)
    (hnr : ∀ mn mx positive a, Cmd.rect mn mx positive a ∉ cmds)
    (s : Src α) (hw : α) (hC : ProgVertexOK (expand ⟨o, 0⟩ cmds) s hw) : hw = o.lineWidth * half := by
  rcases prog_half_width o cmds hfw s hw hC with h | ⟨mn, mx, positive, a, hc, _⟩
  · exact h
  · exact absurd hc (hnr mn mx positive a)

end Widths

section Mesh
variable {K : Type} [Field K] [LinearOrder K] [IsStrictOrderedRing K] [Transc K] [Asin K] [FlatConst K]

/-- the finished mesh of a program and its per-vertex data (exact arithmetic): ids are positions in
the vertex list; every triangle has three distinct valid ids; no `VertexId::INVALID`; every vertex is
`ProgVertexOK` and `position = position_on_path + normal * half_width`.  `_partial` as
`prog_indices_valid_partial`. -/
theorem prog_mesh_partial (o : Opts K) (ix : Lyon.StrokeQuad.Ix K) (cmds : List (Cmd K))
    (h : o.varWidth = true ∨ (o.join ≠ .miterClip ∧ Cmd.setJoin .miterClip ∉ cmds)) :
    let out := (runProg o ix cmds).st.out
    out.nextId = out.verts.length
    ∧ (∀ t ∈ out.tris, Tri.Distinct t ∧ Tri.Below t out.verts.length)
    ∧ (out.verts.length ≤ unset → ∀ t ∈ out.tris, t.1 ≠ unset ∧ t.2.1 ≠ unset ∧ t.2.2 ≠ unset)
    ∧ ∀ d ∈ out.verts, ProgVertexOK (expand ⟨o, 0⟩ cmds) d.src d.halfWidth
        ∧ d.read.position = d.positionOnPath + d.normal.smul d.halfWidth := by
  obtain ⟨a, b, c, d⟩ := mesh_of_vsteps (prog_indices_valid_partial o ix cmds h)
  exact ⟨a, b, d, fun v hv => ⟨c v hv, rfl⟩⟩

/-- whatever `build()` returns after a program is a valid emission sequence -/
theorem prog_indices_valid_tessellateProg_partial (o : Opts K) (ix : Lyon.StrokeQuad.Ix K) (cmds : List (Cmd K))
    (h : o.varWidth = true ∨ (o.join ≠ .miterClip ∧ Cmd.setJoin .miterClip ∉ cmds)) (out : Out K)
    (ho : tessellateProg o ix cmds = some out) :
    VSteps (ProgVertexOK (expand ⟨o, 0⟩ cmds)) (Out.empty 0) out := by
  have : out = (runProg o ix cmds).st.out := by
    unfold tessellateProg at ho
    simp only [] at ho
    split_ifs at ho
    exact (Option.some.inj ho).symm
  rw [this]
  exact prog_indices_valid_partial o ix cmds h

end Mesh

/-! ## §2 bookkeeping -/

section Book
variable {α : Type} [Scalar α]

/-- on a fresh builder the k-th endpoint a program creates has id k -/
theorem prog_ids_consecutive (o : Opts α) (cmds : List (Cmd α)) :
    idsOf (expand ⟨o, 0⟩ cmds) = List.range (finalBSt ⟨o, 0⟩ cmds).nextId := by
  rw [expand_ids, List.range_eq_range']
  simp

/-- no two endpoint events of a program share an id: the item a vertex source names is unique -/
theorem prog_ids_nodup (o : Opts α) (cmds : List (Cmd α)) : (idsOf (expand ⟨o, 0⟩ cmds)).Nodup := by
  rw [prog_ids_consecutive]
  exact List.nodup_range

/-- `approximate_thin_rectangle` restores the options: after `add_rectangle` - thin or not - the
builder's options are what they were -/
theorem thin_rectangle_restores_options (s : BSt α) (mn mx : P α) (positive : Bool) (a : List α) :
    (expandCmd s (.rect mn mx positive a)).1.o = s.o := by
  simp only [expandCmd]
  split_ifs <;> rfl

/-- tolerance, `variable_line_width` (and its attribute index) are the same for every call -/
theorem prog_options_fixed_fields (o : Opts α) (cmds : List (Cmd α)) : ∀ it ∈ expand ⟨o, 0⟩ cmds,
    it.o.tolerance = o.tolerance ∧ it.o.varWidth = o.varWidth ∧ it.o.varIdx = o.varIdx := by
  intro it hit
  obtain ⟨a, b, c, _⟩ := expand_opts cmds ⟨o, 0⟩ it hit
  exact ⟨a, b, c⟩

end Book

/-! ## §3 programs without rectangle and setter calls are ordinary event lists -/

section Plain
variable {α : Type} [Scalar α]

/-- no `add_rectangle`, no setter call: begin / line_to / curves / end, add_polygon,
add_line_segment, add_point only -/
def IsPlain (cmds : List (Cmd α)) : Prop :=
  ∀ c ∈ cmds, match c with
    | .rect _ _ _ _ => False
    | .setJoin _ => False
    | .setStartCap _ => False
    | .setEndCap _ => False
    | .setMiterLimit _ => False
    | _ => True

theorem expand_plain (cmds : List (Cmd α)) (hp : IsPlain cmds) (s : BSt α) : ∀ it ∈ expand s cmds, it.o = s.o := by
  refine expand_forall (Q := fun s' => s'.o = s.o) cmds s ?_ rfl
  intro s' c hc hq
  have hcp := hp c hc
  constructor
  · cases c with
    | rect mn mx positive a => exact hcp.elim
    | setJoin j => exact hcp.elim
    | setStartCap cp => exact hcp.elim
    | setEndCap cp => exact hcp.elim
    | setMiterLimit ml => exact hcp.elim
    | _ => simp only [expandCmd]; exact hq
  · intro it hit
    rcases expandCmd_item_opts s' c it hit with h | ⟨mn, mx, positive, a, rfl, _, _⟩
    · rw [h]; exact hq
    · exact hcp.elim

variable [Transc α] [Asin α] [FlatConst α]

theorem runItems_const (e0 : Env α) (store : Nat → List α) (its : List (Item α))
    (h : ∀ it ∈ its, it.o = e0.o) : runItems e0 store its = runEvents e0 store (evsOf its) := by
  unfold runItems runEvents evsOf
  rw [List.foldl_map]
  generalize (⟨St.new, unset, nanP, false⟩ : Run α) = r0
  induction its generalizing r0 with
  | nil => rfl
  | cons it l ih =>
    simp only [List.foldl_cons]
    have he : ({ e0 with o := it.o } : Env α) = e0 := by rw [h it (by simp)]
    rw [he]
    exact ih (fun x hx => h x (by simp [hx])) _

/-- **a program without rectangle and setter calls is an event list**: the builder runs
`Full.runEvents` on the events the calls expand to, with ids 0, 1, 2, … -/
theorem prog_plain_eq_runEvents (o : Opts α) (ix : Lyon.StrokeQuad.Ix α) (cmds : List (Cmd α)) (hp : IsPlain cmds) :
    runProg o ix cmds
      = runEvents (Env.new o ix) (storeOf (expand ⟨o, 0⟩ cmds)) (evsOf (expand ⟨o, 0⟩ cmds)) :=
  runItems_const _ _ _ (fun it hit => expand_plain cmds hp ⟨o, 0⟩ it hit)

end Plain

section PlainField
variable {K : Type} [Field K] [LinearOrder K] [IsStrictOrderedRing K] [Transc K] [Asin K] [FlatConst K]
open Lyon.C05d

/-- … so the all-joins theorem of C05d applies: fixed width + `MiterClip` + curves included, under
`ClipHyp` for that combination only -/
theorem prog_plain_indices_valid_sqrt (o : Opts K) (ix : Lyon.StrokeQuad.Ix K) (cmds : List (Cmd K)) (hp : IsPlain cmds)
    (eps : K) (h : o.varWidth = false → o.join = .miterClip → ClipHyp (Env.new o ix) eps) :
    VSteps (VertexOK (Env.new o ix) (storeOf (expand ⟨o, 0⟩ cmds)) (evIds (evsOf (expand ⟨o, 0⟩ cmds))))
      (Out.empty 0) (runProg o ix cmds).st.out := by
  rw [prog_plain_eq_runEvents o ix cmds hp]
  exact stroke_indices_valid_sqrt _ _ _ eps h

end PlainField

/-! ## §4 non-vacuity, kernel-evaluated instances -/

section Examples
variable {α : Type} [Scalar α]

/-- hypothesis of `prog_indices_valid_polyline`: a thin rectangle, a setter, a polyline, a polygon -/
example (p q r : P α) : IsPolyProg [Cmd.rect p q true [], .setJoin .round, .begin p [], .line q [], .line r [],
    .end_ true, .polygon [p, q, r] false []] := by
  intro c hc
  simp only [List.mem_cons, List.mem_nil_iff, or_false] at hc
  rcases hc with rfl | rfl | rfl | rfl | rfl | rfl | rfl <;> trivial

/-- hypothesis of `prog_plain_eq_runEvents` -/
example (p q r : P α) : IsPlain [Cmd.begin p [], .quad q r [], .end_ false, .segment p q [], .point r []] := by
  intro c hc
  simp only [List.mem_cons, List.mem_nil_iff, or_false] at hc
  rcases hc with rfl | rfl | rfl | rfl | rfl <;> trivial

/-- hypothesis of `prog_half_width_no_rect` -/
example (p q : P α) : ∀ mn mx positive a, Cmd.rect mn mx positive a ∉ [Cmd.begin p [], .line q [], .end_ false] := by
  intro mn mx positive a h
  simp at h

end Examples

section ExamplesQ
open Lyon.C05b (toyTransc)
attribute [local instance] toyTransc Lyon.C05c.toyAsin Lyon.C05c.toyFlat

/-- hypothesis `SkipApart` of `prog_indices_valid_variable` over `ℚ` -/
example (o : Opts ℚ) (ix : Lyon.StrokeQuad.Ix ℚ) : SkipApart (Env.new o ix).thr := skipApart_field _

noncomputable def exO (j : LineJoin) : Opts ℚ := ⟨1 / 10, 2, 4, j, .butt, .butt, false, 0⟩

/-- hypothesis of `prog_indices_valid_partial` / `prog_mesh_partial` -/
example : (exO .miter).varWidth = true ∨ ((exO .miter).join ≠ .miterClip
    ∧ Cmd.setJoin .miterClip ∉ [Cmd.rect (⟨0, 0⟩ : P ℚ) ⟨100, 1⟩ true [], .setJoin .bevel]) :=
  Or.inr ⟨by decide, by simp⟩

/-- the rectangle `(0,0)-(100,1)` is thin for a miter stroke of width 2: it becomes the segment
`(1/2, 1/2) → (199/2, 1/2)` stroked `d = 1/2` wider -/
example : rectIsThin (exO .miter) (⟨0, 0⟩ : P ℚ) ⟨100, 1⟩ = true
    ∧ (let t := thinSegment (⟨0, 0⟩ : P ℚ) ⟨100, 1⟩
       (t.1.x, t.1.y, t.2.1.x, t.2.1.y, t.2.2) = (1 / 2, 1 / 2, 199 / 2, 1 / 2, 1 / 2)) := by
  constructor <;> decide +kernel

/-- **the history of the missed seed, run by the kernel on the model**: a thin rectangle (line width
2, thickness 1: stroked with width 5/2, i.e. half width 5/4, square caps), then an open right-angle
polyline ON THE SAME BUILDER.  The four vertices of the rectangle's segment carry half width 5/4,
the seven vertices of the polyline the configured 1 - `vertex.half_width` is re-assigned at the
polyline's join (ids 2, 3, 4 of the second sub-path come first: `fixed_width_step_impl`) -/
example :
    (tessellateProg (exO .miter) (fun _ _ _ _ => none)
      [.rect ⟨0, 0⟩ ⟨100, 1⟩ true [], .begin ⟨0, 10⟩ [], .line ⟨10, 10⟩ [], .line ⟨10, 20⟩ [], .end_ false]).map
      (fun o => (o.verts.map (fun d => (srcTo d.src, d.halfWidth)), o.tris.length))
    = some ([(1, 5 / 4), (1, 5 / 4), (0, 5 / 4), (0, 5 / 4),
             (3, 1), (3, 1), (4, 1), (4, 1), (2, 1), (2, 1)], 6) := by
  decide +kernel

end ExamplesQ

end Lyon.C05e
