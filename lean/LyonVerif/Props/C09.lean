/-
  C09 — flattening yields a connected polyline from start to end within the tolerance.

  All statements are about the model of `Model/Geom/Flatten.lean` — the same `def`s the
  correspondence check runs at `Float32`/`Float` against lyon on every run — which mirrors the code
  as repaired by the `fix:` commits e20d2048, 6805acc4, 99a81005, d50cea5f, 3251fd3d, 014eb9a5.
  Helper lemmas (loop invariants) are in `Lemmas/Flatten.lean`.

  * Structure (`…_connected`, `…_ranges`, `…_vertices_on_curve`): the quadratic and arc statements
    hold for EVERY scalar type (`Float32` included: they only move values around), for every
    curve, tolerance and segment count / fuel; the cubic callback ones are over an arbitrary
    ordered field (they use `sample 0 = from`, `sample 1 = to`).
  * Iterators end exactly at the end point, for every scalar type: `quad_iter_final`,
    `cubic_iter_last_point`, `arc_iter_last_point` (full strength since e20d2048 / 6805acc4).
  * Parameters: `inv_integral_strict_mono`, `tAt_strict_mono`, `general_signs`, `tAt_zero`,
    `tAt_count`: 0 = t₀ < t₁ < … < t_count = 1 in exact arithmetic (`sqrt` is a parameter).
  * Tolerance clause:
      - `is_linear_sound`: whenever the repaired `is_linear` accepts, EVERY point of the curve is
        within the tolerance of the single emitted segment (hull argument). Full strength.
      - `quad_flat_within_tolerance_of_params`: every emitted chord whose parameter step Δ
        satisfies Δ⁴·|P0−2P1+P2|² ≤ 16·tol² keeps the curve within the tolerance (exact
        chord-deviation identity). NAMED GAP: that the steps produced by Levien's integral
        estimate satisfy this bound is not proved (it holds only approximately: oracle finding
        `approx-integral`).
      - `collinear_overshoot_witness` (residual defect, narrow): control points exactly collinear
        (`cross = 0`, e.g. `from == to`) with the control point outside the baseline: the code's
        parameters are NaN, the count falls back to 0, one segment is emitted and the curve is
        thousands of tolerances away. `collinear_overshoot_partial` is what is true there.
  * `chord_deviation`, `cubic_quad_deviation` with their extremal factors: exact identities.
-/
import LyonVerif.Model.Geom.Flatten
import LyonVerif.Lemmas.Field
import LyonVerif.Lemmas.Flatten

set_option linter.unusedSectionVars false
set_option linter.unusedVariables false

namespace Lyon.C09
open Lyon Scalar Lyon.Flat

/-! ## Quadratic Bézier: structure, for every scalar type -/

section quad_any
variable {α : Type} [Scalar α] [Transc α] [FlatConst α]

/-- **flat_connected (quadratic)**: whatever the tolerance and the count, the emitted segments
start exactly at `from`, each begins where the previous one ended, and the last one ends exactly
at `to`. Holds for every scalar type. -/
theorem quad_flat_connected (q : Quad α) (tol : α) (l : List (FlatSeg α))
    (h : q.forEachFlattenedWithT tol = some l) :
    l ≠ [] ∧ Chain q.a zero l ∧ lastPt q.a l = q.b := by
  obtain ⟨h1, h2, h3, _, _⟩ := quad_flat_structure q tol l h
  exact ⟨h1, h2, h3⟩

/-- **flat_ranges (quadratic)**: the ranges start at 0, abut, and end at exactly 1. -/
theorem quad_flat_ranges (q : Quad α) (tol : α) (l : List (FlatSeg α))
    (h : q.forEachFlattenedWithT tol = some l) :
    Chain q.a zero l ∧ lastT zero l = one := by
  obtain ⟨_, h2, _, h4, _⟩ := quad_flat_structure q tol l h
  exact ⟨h2, h4⟩

/-- **flat_vertices_on_curve (quadratic)**: every interior vertex is `sample` of its parameter. -/
theorem quad_flat_vertices_on_curve (q : Quad α) (tol : α) (l : List (FlatSeg α))
    (h : q.forEachFlattenedWithT tol = some l) : InteriorOn q.sample l :=
  (quad_flat_structure q tol l h).2.2.2.2

/-- the number of segments is `max(count, 1)` -/
theorem quad_flat_count (q : Quad α) (p : FlatParams α) (c : Nat) :
    (q.flatWith p c).length = max c 1 := by
  have := (quad_loop_structure q p (c - 1) one q.a zero).2.2.2.2
  simp only [Quad.flatWith, this]; omega

/-- the point iterator (`flattened()`): the point it yields when its guard `i ≥ count − ε` fires
is the stored end point, and it then stops. -/
theorem quad_iter_final (s : QuadIter α) (hd : s.done = false) (he : s.atEnd = true) :
    s.next = (some s.curve.b, { s with done := true }) ∧ (s.next.2).next.1 = none := by
  simp [QuadIter.next, hd, he]

/-- the parameter iterator (`flattened_t()`) ends with exactly 1 -/
theorem quad_titer_final (s : QuadTIter α) (hd : s.done = false) (he : s.atEnd = true) :
    s.next = (some one, { s with done := true }) ∧ (s.next.2).next.1 = none := by
  simp [QuadTIter.next, hd, he]

/-- before the guard fires both iterators use the same `t_at_iteration` as the callback form -/
theorem quad_iter_step (s : QuadIter α) (hd : s.done = false) (he : s.atEnd = false) :
    s.next.1 = some (s.curve.sample (s.params.tAt s.i)) := by
  simp [QuadIter.next, hd, he]

/-- **cubic_iter_last_point** (every scalar type; repair e20d2048): when the last sub-curve's
parameter iterator yields its final `1`, the cubic iterator yields the stored end point `to`
itself — on the path where the sub-curve was already running … -/
theorem cubic_iter_last_point (s : CubicIter α) (t : α) (cur : QuadTIter α)
    (h : s.current.next = (some t, cur)) (hr : s.remaining = 0) (ht : (t == one) = true) :
    s.next.1 = some s.curve.b := by
  simp [CubicIter.next, h, CubicIter.lastOr, hr, ht]

/-- … and on the path where `next` has just started the last sub-curve (`remaining = 1` before
the call) and that sub-curve consists of the single parameter `1`. -/
theorem cubic_iter_last_point_advance (s : CubicIter α) (cur : QuadTIter α)
    (h : s.current.next = (none, cur)) (hr : s.remaining = 1)
    (ht : ((((QuadTIter.new ((s.curve.splitRange (s.rangeStart + s.rangeStep)
        (s.rangeStart + s.rangeStep + s.rangeStep)).toQuadratic) s.tolerance).next.1).getD one) == one) = true) :
    s.next.1 = some s.curve.b := by
  simp [CubicIter.next, h, hr, CubicIter.advance, CubicIter.lastOr, ht]

/-- every other point of the cubic iterator is `curve.sample(range_start + t·range_step)` -/
theorem cubic_iter_point_is_sample (s : CubicIter α) (t : α) (cur : QuadTIter α)
    (h : s.current.next = (some t, cur)) (hn : ¬ (s.remaining = 0 ∧ (t == one) = true)) :
    s.next.1 = some (s.curve.sample (s.rangeStart + t * s.rangeStep)) := by
  simp only [CubicIter.next, h, CubicIter.lastOr, if_neg hn]

end quad_any

/-! ## Arc: structure, for every scalar type and every fuel -/

section arc_any
variable {α : Type} [Scalar α] [Transc α] [FlatConst α]

/-- **flat_connected / flat_ranges (arc)**: starts at `from()`, chained, ends at `to()` with
parameter exactly 1 — for every tolerance and however long the loop runs. -/
theorem arc_flat_connected (a : Arc α) (tol : α) (fuel : Nat) :
    a.forEachFlattenedWithT tol fuel ≠ []
    ∧ Chain a.fromPt zero (a.forEachFlattenedWithT tol fuel)
    ∧ lastPt a.fromPt (a.forEachFlattenedWithT tol fuel) = a.toPt
    ∧ lastT zero (a.forEachFlattenedWithT tol fuel) = one := by
  obtain ⟨h1, h2, h3, h4⟩ := arc_loop_structure a tol fuel a zero a.fromPt
  exact ⟨h4, h1, h2, h3⟩

/-- **arc_iter_last_point** (every scalar type; repair 6805acc4): after any number of `next`
calls the iterator still holds the ORIGINAL arc's `to()`, and that is the point it yields when
its guard `step ≥ 1` fires. -/
theorem arc_iter_last_point (a : Arc α) (tol : α) (n : Nat) :
    (arcIterRun n (ArcIter.new a tol)).to = a.toPt
    ∧ ((arcIterRun n (ArcIter.new a tol)).done = false →
        one ≤ (arcIterRun n (ArcIter.new a tol)).arc.flatteningStep (arcIterRun n (ArcIter.new a tol)).tolerance →
        (arcIterRun n (ArcIter.new a tol)).next.1 = some a.toPt) := by
  have hto : (arcIterRun n (ArcIter.new a tol)).to = a.toPt := by
    rw [arc_iter_run_to]; rfl
  refine ⟨hto, fun hd he => ?_⟩
  simp [ArcIter.next, ArcIter.step, hd, he, hto]

end arc_any

/-! ## Ordered-field statements -/

variable {K : Type} [Field K] [LinearOrder K] [IsStrictOrderedRing K]

/-! ### Deviation certificates -/

/-- **chord_deviation**: over the parameter range `[t0, t0+Δ]` the curve differs from its chord,
at relative position `s`, by exactly `−s(1−s)Δ²·(P0 − 2P1 + P2)`. Hence the (parametric)
deviation of a chord is at most `Δ²/4·|P0 − 2P1 + P2|`, attained at `s = 1/2`. -/
theorem chord_deviation (q : Quad K) (t0 d s : K) :
    q.sample (t0 + s * d) - (q.sample t0).lerp (q.sample (t0 + d)) s
      = ((q.a - q.c.smul 2) + q.b).smul (-(s * (1 - s) * (d * d))) := by
  geom_ring

/-- `s(1−s) ≤ 1/4`: the factor of `chord_deviation` is maximal at the middle of the chord -/
theorem chord_deviation_factor (s : K) : s * (1 - s) ≤ 1 / 4 := chord_factor s

/-- **cubic_quad_deviation**: a cubic differs from its `to_quadratic` approximation, at the same
parameter, by exactly `½·t(1−t)(1−2t)·(P3 − 3P2 + 3P1 − P0)`. -/
theorem cubic_quad_deviation (c : Cubic K) (t : K) :
    c.sample t - c.toQuadratic.sample t
      = (((c.b - c.c2.smul 3) + c.c1.smul 3) - c.a).smul (1 / 2 * (t * (1 - t) * (1 - 2 * t))) := by
  geom_ring

/-- `|t(1−t)(1−2t)| ≤ √3/18` on [0,1], squared: `(t(1−t)(1−2t))² ≤ 1/108` — so the constant
`√3/36` of `to_quadratic_error` (and `3/1296 = 1/432` of `is_quadratic`, the `432` of
`num_quadratics_impl`) is the right one. -/
theorem cubic_quad_deviation_factor (t : K) (h0 : 0 ≤ t) (h1 : t ≤ 1) :
    (t * (1 - t) * (1 - 2 * t)) ^ 2 ≤ 1 / 108 := by
  -- with u = t(1−t) ∈ [0,1/4]: u²(1−4u) ≤ 1/108  ⇔  (6u−1)²(12u+1)… ≥ 0
  have hu0 : 0 ≤ t * (1 - t) := mul_nonneg h0 (by linarith)
  have hu1 : t * (1 - t) ≤ 1 / 4 := chord_deviation_factor t
  have e : (t * (1 - t) * (1 - 2 * t)) ^ 2 = (t * (1 - t)) ^ 2 * (1 - 4 * (t * (1 - t))) := by ring
  rw [e]
  nlinarith [mul_nonneg (sq_nonneg (6 * (t * (1 - t)) - 1)) (by linarith : (0:K) ≤ 12 * (t * (1 - t)) + 1)]

example : (0:ℚ) ≤ 1/3 ∧ (1/3:ℚ) ≤ 1 := by norm_num

/-! ### Cubic and arc: structure -/

section cubic
variable [Transc K] [FlatConst K]

/-- **flat_connected / flat_ranges (cubic, callback with t)**: the segments start exactly at
`from`, are chained in points and parameters, end exactly at `to` with parameter exactly 1 —
for every cubic, tolerance and number of quadratics. -/
theorem cubic_flat_connected (c : Cubic K) (tol : K) (l : List (FlatSeg K))
    (h : c.forEachFlattenedWithT tol = some l) :
    l ≠ [] ∧ Chain c.a 0 l ∧ lastPt c.a l = c.b ∧ lastT 0 l = 1 := by
  simp only [Cubic.forEachFlattenedWithT, Cubic.forEachQuadraticWithT] at h
  obtain ⟨s1, s2, s3⟩ := cubic_quads_structure c
    (one / c.numQuadraticsImpl (tol * FlatConst.value 4 1))
    ((toU32 (c.numQuadraticsImpl (tol * FlatConst.value 4 1))).getD 1 - 1) zero
  have hne : c.quadsLoop (one / c.numQuadraticsImpl (tol * FlatConst.value 4 1))
      ((toU32 (c.numQuadraticsImpl (tol * FlatConst.value 4 1))).getD 1 - 1) zero ≠ [] := by
    intro hh; rw [hh] at s3; simp at s3
  obtain ⟨r1, r2, r3, r4⟩ := cubic_flat_structure c _ _ zero zero s1 hne s2 l h
  have z : (zero : K) = 0 := sc_zero
  have o : (one : K) = 1 := sc_one
  rw [z, cubic_sample_zero] at r2 r3
  rw [o, cubic_sample_one] at r3
  rw [z] at r4
  rw [o] at r4
  exact ⟨r1, r2, r3, r4⟩

/-- the quadratics of `for_each_quadratic_bezier_with_t` tile [0,1]: each runs from `sample t0`
to `sample t1`, consecutive ones share parameter and point, the last ends at parameter 1 -/
theorem cubic_quads_tile (c : Cubic K) (step : K) (n : Nat) :
    QuadChain c zero (c.quadsLoop step n zero) ∧ lastR1 zero (c.quadsLoop step n zero) = one
    ∧ (c.quadsLoop step n zero).length = n + 1 :=
  cubic_quads_structure c step n zero

/-- **flat_vertices_on_curve (arc)**: every interior vertex is `sample` of its parameter. -/
theorem arc_flat_vertices_on_curve (a : Arc K) (tol : K) (fuel : Nat) :
    InteriorOn a.sample (a.forEachFlattenedWithT tol fuel) := by
  apply arc_loop_vertices
  refine ⟨rfl, rfl, rfl, ?_, ?_⟩ <;> simp [sc_zero]

end cubic

/-! ### Parameters strictly increase (exact arithmetic; `sqrt` a parameter) -/

section mono
variable [Transc K] [FlatConst K]

/-- **inv_integral_strict_mono**: `approx_parabola_inv_integral` is strictly increasing, given
that `sqrt` is non-negative and monotone on non-negative arguments and `0 ≤ b < 1` for the
constant `b = 0.39`. -/
theorem inv_integral_strict_mono
    (hs0 : ∀ x : K, 0 ≤ Transc.sqrt x)
    (hsm : ∀ x y : K, 0 ≤ x → x ≤ y → Transc.sqrt x ≤ Transc.sqrt y)
    (hb : (FlatConst.value 39 2 : K) < 1)
    (x y : K) (hxy : x < y) :
    approxParabolaInvIntegral x < approxParabolaInvIntegral y := by
  -- f x = x · g x with g ≥ 1 − b > 0, g even and non-decreasing in |x|
  set b : K := FlatConst.value 39 2 with hbdef
  have g : ∀ z : K, approxParabolaInvIntegral z = z * (1 - b + Transc.sqrt (b * b + 1 / 2 * (1 / 2) * z * z)) := by
    intro z; simp only [approxParabolaInvIntegral, sc_one, sc_half, ← hbdef]
  have gpos : ∀ z : K, 0 < 1 - b + Transc.sqrt (b * b + 1 / 2 * (1 / 2) * z * z) := by
    intro z; have := hs0 (b * b + 1 / 2 * (1 / 2) * z * z); linarith
  have gmono : ∀ u v : K, u * u ≤ v * v →
      1 - b + Transc.sqrt (b * b + 1 / 2 * (1 / 2) * u * u) ≤ 1 - b + Transc.sqrt (b * b + 1 / 2 * (1 / 2) * v * v) := by
    intro u v huv
    have h1 : 0 ≤ b * b + 1 / 2 * (1 / 2) * u * u := by nlinarith [mul_self_nonneg b, mul_self_nonneg u]
    have := hsm _ (b * b + 1 / 2 * (1 / 2) * v * v) h1 (by nlinarith)
    linarith
  rw [g x, g y]
  rcases le_or_gt 0 x with hx | hx
  · -- 0 ≤ x < y
    have h1 := gmono x y (by nlinarith)
    calc x * (1 - b + Transc.sqrt (b * b + 1 / 2 * (1 / 2) * x * x))
        ≤ x * (1 - b + Transc.sqrt (b * b + 1 / 2 * (1 / 2) * y * y)) := mul_le_mul_of_nonneg_left h1 hx
      _ < y * (1 - b + Transc.sqrt (b * b + 1 / 2 * (1 / 2) * y * y)) := mul_lt_mul_of_pos_right hxy (gpos y)
  · rcases le_or_gt y 0 with hy | hy
    · -- x < y ≤ 0
      have h1 := gmono y x (by nlinarith)
      have h2 : x * (1 - b + Transc.sqrt (b * b + 1 / 2 * (1 / 2) * x * x))
          < y * (1 - b + Transc.sqrt (b * b + 1 / 2 * (1 / 2) * x * x)) := mul_lt_mul_of_pos_right hxy (gpos x)
      have h3 : y * (1 - b + Transc.sqrt (b * b + 1 / 2 * (1 / 2) * x * x))
          ≤ y * (1 - b + Transc.sqrt (b * b + 1 / 2 * (1 / 2) * y * y)) := by
        have := mul_le_mul_of_nonneg_left h1 (by linarith : 0 ≤ -y)
        linarith
      linarith
    · -- x < 0 < y
      have h1 := mul_neg_of_neg_of_pos hx (gpos x)
      have h2 := mul_pos hy (gpos y)
      linarith

/-- **flat_t_increasing**: `t_at_iteration` is strictly increasing in the iteration number when
the step and the normalising factor have the same sign (which `FlatteningParameters::new`
produces: both have the sign of `integral_to − integral_from`, see `general_signs`). -/
theorem tAt_strict_mono
    (hs0 : ∀ x : K, 0 ≤ Transc.sqrt x)
    (hsm : ∀ x y : K, 0 ≤ x → x ≤ y → Transc.sqrt x ≤ Transc.sqrt y)
    (hb : (FlatConst.value 39 2 : K) < 1)
    (p : FlatParams K) (i j : K) (hij : i < j)
    (hsign : (0 < p.integralStep ∧ 0 < p.divInvIntegralDiff) ∨ (p.integralStep < 0 ∧ p.divInvIntegralDiff < 0)) :
    p.tAt i < p.tAt j := by
  simp only [FlatParams.tAt]
  rcases hsign with ⟨h1, h2⟩ | ⟨h1, h2⟩
  · have := inv_integral_strict_mono hs0 hsm hb (p.integralFrom + p.integralStep * i)
      (p.integralFrom + p.integralStep * j) (by nlinarith)
    exact mul_lt_mul_of_pos_right (by linarith) h2
  · have := inv_integral_strict_mono hs0 hsm hb (p.integralFrom + p.integralStep * j)
      (p.integralFrom + p.integralStep * i) (by nlinarith)
    exact mul_lt_mul_of_neg_right (by linarith) h2

/-- the signs `tAt_strict_mono` asks for are those `FlatteningParameters::new` produces:
with `diff = integral_to − integral_from ≠ 0` and a positive count, `step = diff/count` and
`1/(inv(to) − inv(from))` both have the sign of `diff`. -/
theorem general_signs
    (hs0 : ∀ x : K, 0 ≤ Transc.sqrt x)
    (hsm : ∀ x y : K, 0 ≤ x → x ≤ y → Transc.sqrt x ≤ Transc.sqrt y)
    (hb : (FlatConst.value 39 2 : K) < 1)
    (i0 i1 count : K) (hc : 0 < count) (hd : i0 ≠ i1) :
    (0 < (i1 - i0) / count ∧ 0 < 1 / (approxParabolaInvIntegral i1 - approxParabolaInvIntegral i0))
    ∨ ((i1 - i0) / count < 0 ∧ 1 / (approxParabolaInvIntegral i1 - approxParabolaInvIntegral i0) < 0) := by
  rcases lt_or_gt_of_ne hd with h | h
  · left
    have := inv_integral_strict_mono hs0 hsm hb i0 i1 h
    exact ⟨div_pos (by linarith) hc, one_div_pos.mpr (by linarith)⟩
  · right
    have := inv_integral_strict_mono hs0 hsm hb i1 i0 h
    exact ⟨div_neg_of_neg_of_pos (by linarith) hc, one_div_neg.mpr (by linarith)⟩

/-- non-vacuity of the hypotheses of `inv_integral_strict_mono` / `tAt_strict_mono` /
`general_signs`: `x ↦ max x 0` is a non-negative monotone "sqrt" on ℚ, `0.39 < 1`, and concrete
parameters with step and factor of the same sign -/
example : (∀ x : ℚ, 0 ≤ Max.max x 0) ∧ (∀ x y : ℚ, 0 ≤ x → x ≤ y → Max.max x 0 ≤ Max.max y 0) ∧ ((39:ℚ) / 100 < 1) :=
  ⟨fun x => le_max_right _ _, fun x y _ h => max_le_max h le_rfl, by norm_num⟩
example : let p : FlatParams ℚ := ⟨4, -1, 1/2, -2, 1/4⟩
    (0 < p.integralStep ∧ 0 < p.divInvIntegralDiff) ∧ ((1:ℚ) < 2) := by
  constructor
  · constructor <;> norm_num
  · norm_num
example : (0:ℚ) < 4 ∧ (-1:ℚ) ≠ 1 := by norm_num

/-- `t_at_iteration(0) = 0` (the stored `inv_integral_from` being `inv(integral_from)`) -/
theorem tAt_zero (p : FlatParams K)
    (hinv : p.invIntegralFrom = approxParabolaInvIntegral p.integralFrom) : p.tAt 0 = 0 := by
  simp [FlatParams.tAt, hinv]

/-- `t_at_iteration(count) = 1` when `step·count = integral_to − integral_from` and the
normalising factor is the inverse of `inv(to) − inv(from) ≠ 0` -/
theorem tAt_count (p : FlatParams K) (i1 : K)
    (hstep : p.integralFrom + p.integralStep * p.count = i1)
    (hinv : p.invIntegralFrom = approxParabolaInvIntegral p.integralFrom)
    (hdiv : p.divInvIntegralDiff = 1 / (approxParabolaInvIntegral i1 - approxParabolaInvIntegral p.integralFrom))
    (hne : approxParabolaInvIntegral i1 ≠ approxParabolaInvIntegral p.integralFrom) :
    p.tAt p.count = 1 := by
  simp only [FlatParams.tAt, hstep, hinv, hdiv]
  field_simp [sub_ne_zero.mpr hne]

end mono

/-! ### The tolerance clause -/

section tolerance
variable [Transc K] [FlatConst K]

/-- **is_linear_sound** (repair 014eb9a5): if `is_linear` accepts, every point `Q(t)`, `t ∈ [0,1]`,
of the curve is within `tolerance` of the baseline segment — the single segment that is then
emitted. Hull argument: with `p` the baseline point closest to the control point and
`S = (1−t)²·from + 2t(1−t)·p + t²·to` (a point of the segment),
`Q(t) − S = 2t(1−t)·(ctrl − p)` and `|ctrl − p| ≤ 2·tolerance`, `2t(1−t) ≤ ½`.

Former statement here: `is_linear_unsound_witness` (from (0,0) ctrl (1000,0) to (1/100,0),
tolerance 1/10: `is_linear` held, one segment, curve at x = 500.0025) — true of the code before
014eb9a5, no longer true of the model; its residue is `collinear_overshoot_witness` below. -/
theorem is_linear_sound (q : Quad K) (tol t : K) (h : q.isLinear tol = true) (ht0 : 0 ≤ t) (ht1 : t ≤ 1) :
    ∃ s, 0 ≤ s ∧ s ≤ 1 ∧ (q.sample t - q.a.lerp q.b s).sqLen ≤ tol * tol := by
  have h := of_decide_eq_true h
  simp only [segSqDist, segClosestPoint] at h
  set u : K := Scalar.min (Scalar.max ((q.c - q.a).dot (q.b - q.a) / (q.b - q.a).dot (q.b - q.a)) zero) one with hu
  have hu0 : 0 ≤ u := by
    simp only [hu, sc_min, sc_max, sc_zero, sc_one]
    exact le_min (le_max_right _ _) zero_le_one
  have hu1 : u ≤ 1 := by
    simp only [hu, sc_min, sc_one]
    exact min_le_right _ _
  have hw0 : 0 ≤ t * (1 - t) := mul_nonneg ht0 (by linarith)
  have hw1 : t * (1 - t) ≤ 1 / 4 := chord_factor t
  refine ⟨2 * (t * (1 - t)) * u + t * t, ?_, ?_, ?_⟩
  · have := mul_nonneg (mul_nonneg (by norm_num : (0:K) ≤ 2) hw0) hu0
    nlinarith [mul_self_nonneg t]
  · have h1 : 2 * (t * (1 - t)) * u ≤ 2 * (t * (1 - t)) := by
      have := mul_le_mul_of_nonneg_left hu1 (mul_nonneg (by norm_num : (0:K) ≤ 2) hw0)
      linarith
    nlinarith [mul_self_nonneg (1 - t)]
  · -- the squared distance is (2t(1−t))² · |closest − ctrl|²
    have hD : (q.a + (q.b - q.a).smul u - q.c).sqLen ≤ tol * tol * 4 := by
      have e4 : (four : K) = 4 := sc_four
      rw [← e4]; exact h
    have e : (q.sample t - q.a.lerp q.b (2 * (t * (1 - t)) * u + t * t)).sqLen
        = (2 * (t * (1 - t))) ^ 2 * (q.a + (q.b - q.a).smul u - q.c).sqLen := by
      simp only [geom, Nat.cast_ofNat, Nat.cast_one]
      ring
    rw [e]
    have hD0 : 0 ≤ (q.a + (q.b - q.a).smul u - q.c).sqLen := by
      simp only [P.sqLen]; nlinarith [mul_self_nonneg (q.a + (q.b - q.a).smul u - q.c).x, mul_self_nonneg (q.a + (q.b - q.a).smul u - q.c).y]
    have hw2 : (2 * (t * (1 - t))) ^ 2 ≤ 1 / 4 := by nlinarith
    have hw3 : 0 ≤ (2 * (t * (1 - t))) ^ 2 := sq_nonneg _
    nlinarith [mul_le_mul hw2 hD hD0 (by norm_num : (0:K) ≤ 1 / 4)]

/-- non-vacuity of `is_linear_sound`: a quadratic the repaired `is_linear` accepts -/
example : (⟨⟨0, 0⟩, ⟨1, 1 / 8⟩, ⟨2, 0⟩⟩ : Quad ℚ).isLinear (1 / 10) = true := by
  simp only [Quad.isLinear, segSqDist, segClosestPoint, geom, decide_eq_true_eq]
  norm_num

/-- **quad_flat_within_tolerance_of_params**: for every emitted segment `[t0,t1]` of a quadratic's
flattening whose parameter step satisfies `(t1−t0)⁴·|P0−2P1+P2|² ≤ 16·tol²`, every curve point
over that range is within `tol` of the emitted segment (at the same relative position `s`).
The emitted segment's end points are exactly `Q(t0)`, `Q(t1)` (`quad_flat_ends_on`), the deviation
is exactly `−s(1−s)Δ²·(P0−2P1+P2)` (`chord_deviation`) and `s(1−s) ≤ ¼`.
Named gap: that the steps chosen through Levien's integral estimate satisfy the bound. -/
theorem quad_flat_within_tolerance_of_params (q : Quad K) (tol : K) (l : List (FlatSeg K))
    (h : q.forEachFlattenedWithT tol = some l) (sg : FlatSeg K) (hs : sg ∈ l)
    (hstep : (sg.t1 - sg.t0) ^ 4 * ((q.a - q.c.smul 2) + q.b).sqLen ≤ 16 * (tol * tol))
    (s : K) (hs0 : 0 ≤ s) (hs1 : s ≤ 1) :
    (q.sample (sg.t0 + s * (sg.t1 - sg.t0)) - sg.a.lerp sg.b s).sqLen ≤ tol * tol := by
  obtain ⟨ha, hb⟩ := quad_flat_ends_on q tol l h sg hs
  have hb' : sg.b = q.sample (sg.t0 + (sg.t1 - sg.t0)) := by rw [hb]; congr 1; ring
  rw [ha, hb', chord_deviation]
  have e : (((q.a - q.c.smul 2) + q.b).smul (-(s * (1 - s) * ((sg.t1 - sg.t0) * (sg.t1 - sg.t0))))).sqLen
      = (s * (1 - s)) ^ 2 * ((sg.t1 - sg.t0) ^ 4 * ((q.a - q.c.smul 2) + q.b).sqLen) := by
    simp only [geom]; ring
  rw [e]
  have hw0 : 0 ≤ s * (1 - s) := mul_nonneg hs0 (by linarith)
  have hw1 : s * (1 - s) ≤ 1 / 4 := chord_factor s
  have hw2 : (s * (1 - s)) ^ 2 ≤ 1 / 16 := by nlinarith
  have hE0 : 0 ≤ (sg.t1 - sg.t0) ^ 4 * ((q.a - q.c.smul 2) + q.b).sqLen := by
    apply mul_nonneg (by positivity)
    simp only [P.sqLen]; nlinarith [mul_self_nonneg ((q.a - q.c.smul 2) + q.b).x, mul_self_nonneg ((q.a - q.c.smul 2) + q.b).y]
  nlinarith [mul_le_mul hw2 hstep hE0 (by norm_num : (0:K) ≤ 1 / 16)]

/-- non-vacuity of the step hypothesis: parameter step 1/4 on `from (0,0) ctrl (1,1) to (2,0)`
(`|P0−2P1+P2|² = 4`) with tolerance 1/10: `(1/4)⁴·4 = 1/64 ≤ 16/100` -/
example : ((1:ℚ) / 4) ^ 4 * 4 ≤ 16 * (1 / 10 * (1 / 10)) := by norm_num

/-- **collinear_overshoot_witness** (residual defect after 014eb9a5 + 3251fd3d; narrow: control
points exactly collinear, control point outside the baseline — includes every `from == to`):
`from (0,0) ctrl (1000,0) to (1/100,0)`, tolerance `1/10`. `is_linear` now rejects, but
`cross = 0`, the code's parameters are NaN and the count falls back to 0 (explicit branch of
`FlatParams.general`): exactly one segment `from → to` is emitted, while the curve point at
`t = 1/2` is `(500 + 1/400, 0)`, more than 4999 tolerances beyond the segment's far end. -/
theorem collinear_overshoot_witness :
    let q : Quad ℚ := ⟨⟨0, 0⟩, ⟨1000, 0⟩, ⟨1 / 100, 0⟩⟩
    q.isLinear (1 / 10) = false
    ∧ (∀ (T : Transc ℚ) (F : FlatConst ℚ), (FlatParams.new q (1 / 10)).count = 0)
    ∧ (∀ (T : Transc ℚ) (F : FlatConst ℚ) (p : FlatParams ℚ), q.flatWith p 0 = [⟨q.a, q.b, zero, one⟩])
    ∧ q.sample (1 / 2) = ⟨500 + 1 / 400, 0⟩
    ∧ (500 + 1 / 400 : ℚ) - 1 / 100 > 4999 * (1 / 10) := by
  have hlin : (⟨⟨0, 0⟩, ⟨1000, 0⟩, ⟨1 / 100, 0⟩⟩ : Quad ℚ).isLinear (1 / 10) = false := by
    simp only [Quad.isLinear, segSqDist, segClosestPoint, geom, decide_eq_false_iff_not]
    norm_num
  have hcross : FlatParams.flatCross (⟨⟨0, 0⟩, ⟨1000, 0⟩, ⟨1 / 100, 0⟩⟩ : Quad ℚ) = 0 := by
    simp only [FlatParams.flatCross, geom]; norm_num
  refine ⟨hlin, ?_, ?_, ?_, by norm_num⟩
  · intro T F
    have hb : (FlatParams.flatCross (⟨⟨0, 0⟩, ⟨1000, 0⟩, ⟨1 / 100, 0⟩⟩ : Quad ℚ) == (0:ℚ)) = true :=
      (sc_beq _ _).mpr hcross
    simp only [FlatParams.new, hlin, FlatParams.general, hb, if_true, FlatParams.linear, sc_zero,
      Bool.false_eq_true, if_false]
  · intro T F p
    simp [Quad.flatWith, Quad.flatLoop]
  · apply P.ext' <;> simp only [geom] <;> norm_num

/-- **collinear_overshoot_partial**: what IS true in the residual case — the structural clauses
(`quad_flat_connected`, `quad_flat_ranges`: one segment `from → to`, range `0..1`), and the
tolerance clause exactly when the control point lies within `2·tolerance` of the baseline
segment (`is_linear_sound`); with `cross = 0` and the control point further out, the emitted
segment misses the curve by `|P0 − 2P1 + P2|/4` at `t = ½` (`chord_deviation` at `t0 = 0, Δ = 1`): -/
theorem collinear_overshoot_partial (q : Quad K) (s : K) :
    q.sample s - q.a.lerp q.b s = ((q.a - q.c.smul 2) + q.b).smul (-(s * (1 - s))) := by
  have h := chord_deviation q 0 1 s
  have e0 : q.sample 0 = q.a := quad_sample_zero q
  have e1 : q.sample (0 + 1) = q.b := by rw [zero_add]; exact quad_sample_one q
  rw [e0, e1] at h
  have e2 : (0:K) + s * 1 = s := by ring
  rw [e2] at h
  rw [h]; congr 2; ring

/-- the hypothesis `… = some l` of the structural theorems is satisfiable on a concrete curve
(toy instances of the non-field functions) -/
example : ∃ l, @Quad.forEachFlattenedWithT ℚ _ toyTransc toyConst ⟨⟨0, 0⟩, ⟨1000, 0⟩, ⟨1 / 100, 0⟩⟩ (1 / 10) = some l := by
  refine ⟨[⟨⟨0, 0⟩, ⟨1 / 100, 0⟩, zero, one⟩], ?_⟩
  have hc := collinear_overshoot_witness.2.1 toyTransc toyConst
  simp only [Quad.forEachFlattenedWithT, toU32, hc]
  norm_num [toyTransc, Quad.flatWith, ofNat_eq]
  have h0 : @Transc.toNat ℚ toyTransc 0 - 1 = 0 := rfl
  rw [h0]
  simp [Quad.flatLoop]

end tolerance

end Lyon.C09
