/-
  C09 — flattening yields a connected polyline from start to end within the tolerance.

  All statements are about the model of `Model/Geom/Flatten.lean` — the same `def`s the
  correspondence check runs at `Float32`/`Float` against lyon on every run.

  * Structure (`…_connected`, `…_ranges`, `…_vertices_on_curve`): the quadratic and arc statements
    hold for EVERY scalar type (`Float32` included: they only move values around), for every
    curve, tolerance and segment count / fuel; the cubic ones are over an arbitrary ordered field
    (they use `sample 0 = from`, `sample 1 = to`).
  * Parameters: `inv_integral_strict_mono`, `tAt_strict_mono`, `tAt_zero`, `tAt_count`:
    0 = t₀ < t₁ < … < t_count = 1 in exact arithmetic (`sqrt` is a parameter, its two laws are
    hypotheses).
  * Certificates: `chord_deviation`, `cubic_quad_deviation` (exact identities).
  * The tolerance clause itself is NOT a theorem: it is false of model and code.
    `is_linear_unsound_witness` is a concrete curve on which `is_linear` holds, one segment is
    emitted, and the curve is 4999 tolerances away from it; `is_linear_sound_partial` is the part
    that is true (control point projecting into the baseline). Levien's count being only
    asymptotically right (sharp turns), the 0.4+0.8 tolerance split of cubics and the radius drift
    of elliptic arcs are oracle findings (see findings.d/C09.json), not theorems.
  * `cubic_iter_point_is_sample` / `cubic_iter_last_point_partial`: the cubic iterator's points
    are always `curve.sample(range_start + t·range_step)`, never the stored end point; the last
    one equals `to` in exact arithmetic only.
-/
import LyonVerif.Model.Geom.Flatten
import LyonVerif.Lemmas.Field

set_option linter.unusedSectionVars false
set_option linter.unusedVariables false

geom_all Lyon.Seg
geom_all Lyon.Quad
geom_all Lyon.Cubic
geom_all Lyon.Arc

namespace Lyon.C09
open Lyon Scalar

/-! ## Polyline predicates -/

section defs
variable {α : Type}

/-- the segments form a chain starting at point `p` and parameter `t`: every `from` is the
previous `to` (the first one is `p`), every range starts where the previous one ended
(the first one at `t`). -/
def Chain (p : P α) (t : α) : List (FlatSeg α) → Prop
  | [] => True
  | s :: r => s.a = p ∧ s.t0 = t ∧ Chain s.b s.t1 r

/-- end point of the last segment (`p` for the empty list) -/
def lastPt (p : P α) : List (FlatSeg α) → P α
  | [] => p
  | s :: r => lastPt s.b r

/-- end parameter of the last segment (`t` for the empty list) -/
def lastT (t : α) : List (FlatSeg α) → α
  | [] => t
  | s :: r => lastT s.t1 r

/-- every segment but the last ends at `f` of its end parameter -/
def InteriorOn (f : α → P α) : List (FlatSeg α) → Prop
  | [] => True
  | [_] => True
  | s :: r => s.b = f s.t1 ∧ InteriorOn f r

theorem chain_append {p : P α} {t : α} {l r : List (FlatSeg α)} (hl : Chain p t l)
    (hr : Chain (lastPt p l) (lastT t l) r) : Chain p t (l ++ r) := by
  induction l generalizing p t with
  | nil => simpa [lastPt, lastT] using hr
  | cons s l ih => exact ⟨hl.1, hl.2.1, ih hl.2.2 hr⟩

theorem lastPt_append (p : P α) (l r : List (FlatSeg α)) : lastPt p (l ++ r) = lastPt (lastPt p l) r := by
  induction l generalizing p with
  | nil => rfl
  | cons s l ih => exact ih s.b

theorem lastT_append (t : α) (l r : List (FlatSeg α)) : lastT t (l ++ r) = lastT (lastT t l) r := by
  induction l generalizing t with
  | nil => rfl
  | cons s l ih => exact ih s.t1
end defs

/-! ## Quadratic Bézier: structure, for every scalar type -/

section quad_any
variable {α : Type} [Scalar α] [Transc α] [FlatConst α]

/-- the loop of `for_each_flattened_with_t`, any number of iterations, any state -/
theorem quad_loop_structure (q : Quad α) (p : FlatParams α) (n : Nat) (i : α) (frm : P α) (tFrom : α) :
    Chain frm tFrom (q.flatLoop p n i frm tFrom)
    ∧ lastPt frm (q.flatLoop p n i frm tFrom) = q.b
    ∧ lastT tFrom (q.flatLoop p n i frm tFrom) = one
    ∧ InteriorOn q.sample (q.flatLoop p n i frm tFrom)
    ∧ (q.flatLoop p n i frm tFrom).length = n + 1 := by
  induction n generalizing i frm tFrom with
  | zero => simp [Quad.flatLoop, Chain, lastPt, lastT, InteriorOn]
  | succ n ih =>
    obtain ⟨h1, h2, h3, h4, h5⟩ := ih (i + one) (q.sample (p.tAt i)) (p.tAt i)
    refine ⟨⟨rfl, rfl, h1⟩, h2, h3, ?_, by simp [Quad.flatLoop, h5]⟩
    cases hl : q.flatLoop p n (i + one) (q.sample (p.tAt i)) (p.tAt i) with
    | nil => simp [hl] at h5
    | cons s r =>
      simp only [Quad.flatLoop, hl]
      exact ⟨rfl, by simpa [hl] using h4⟩

/-- **flat_connected (quadratic)**: whatever the tolerance and the count, the emitted segments
start exactly at `from`, each begins where the previous one ended, and the last one ends exactly
at `to`. Holds for every scalar type. -/
theorem quad_flat_connected (q : Quad α) (tol : α) (l : List (FlatSeg α))
    (h : q.forEachFlattenedWithT tol = some l) :
    l ≠ [] ∧ Chain q.a zero l ∧ lastPt q.a l = q.b := by
  simp only [Quad.forEachFlattenedWithT, Option.map_eq_some_iff] at h
  obtain ⟨c, _, rfl⟩ := h
  obtain ⟨h1, h2, _, _, h5⟩ := quad_loop_structure q (FlatParams.new q tol) (c - 1) one q.a zero
  refine ⟨?_, h1, h2⟩
  intro hn
  rw [Quad.flatWith] at hn
  rw [hn] at h5
  simp at h5

/-- **flat_ranges (quadratic)**: the ranges start at 0, abut, and end at exactly 1. -/
theorem quad_flat_ranges (q : Quad α) (tol : α) (l : List (FlatSeg α))
    (h : q.forEachFlattenedWithT tol = some l) :
    Chain q.a zero l ∧ lastT zero l = one := by
  simp only [Quad.forEachFlattenedWithT, Option.map_eq_some_iff] at h
  obtain ⟨c, _, rfl⟩ := h
  obtain ⟨h1, _, h3, _, _⟩ := quad_loop_structure q (FlatParams.new q tol) (c - 1) one q.a zero
  exact ⟨h1, h3⟩

/-- **flat_vertices_on_curve (quadratic)**: every interior vertex is `sample` of its parameter. -/
theorem quad_flat_vertices_on_curve (q : Quad α) (tol : α) (l : List (FlatSeg α))
    (h : q.forEachFlattenedWithT tol = some l) : InteriorOn q.sample l := by
  simp only [Quad.forEachFlattenedWithT, Option.map_eq_some_iff] at h
  obtain ⟨c, _, rfl⟩ := h
  exact (quad_loop_structure q (FlatParams.new q tol) (c - 1) one q.a zero).2.2.2.1

/-- the number of segments is `max(count, 1)` -/
theorem quad_flat_count (q : Quad α) (p : FlatParams α) (c : Nat) :
    (q.flatWith p c).length = max c 1 := by
  have := (quad_loop_structure q p (c - 1) one q.a zero).2.2.2.2
  simp only [Quad.flatWith, this]; omega

/-- the point iterator (`flattened()`): the point it yields when its guard `i ≥ count − ε` fires
is the stored end point, and it then stops. -/
theorem quad_iter_final (s : QuadIter α) (hd : s.done = false) (he : s.atEnd = true) :
    s.next = (some s.curve.b, { s with done := true }) ∧ (s.next.2).next.1 = none := by
  simp [QuadIter.next, hd, he]

/-- the parameter iterator (`flattened_t()`) ends with exactly 1 -/
theorem quad_titer_final (s : QuadTIter α) (hd : s.done = false) (he : s.atEnd = true) :
    s.next = (some one, { s with done := true }) ∧ (s.next.2).next.1 = none := by
  simp [QuadTIter.next, hd, he]

/-- before the guard fires both iterators use the same `t_at_iteration` as the callback form -/
theorem quad_iter_step (s : QuadIter α) (hd : s.done = false) (he : s.atEnd = false) :
    s.next.1 = some (s.curve.sample (s.params.tAt s.i)) := by
  simp [QuadIter.next, hd, he]

end quad_any

/-! ## Arc: structure, for every scalar type and every fuel -/

section arc_any
variable {α : Type} [Scalar α] [Transc α] [FlatConst α]

theorem arc_loop_structure (a : Arc α) (tol : α) (f : Nat) (iter : Arc α) (t0 : α) (frm : P α) :
    Chain frm t0 (a.flatLoop tol f iter t0 frm)
    ∧ lastPt frm (a.flatLoop tol f iter t0 frm) = a.toPt
    ∧ lastT t0 (a.flatLoop tol f iter t0 frm) = one
    ∧ a.flatLoop tol f iter t0 frm ≠ [] := by
  induction f generalizing iter t0 frm with
  | zero => simp [Arc.flatLoop, Chain, lastPt, lastT]
  | succ f ih =>
    unfold Arc.flatLoop
    by_cases hs : one ≤ iter.flatteningStep tol
    · simp [hs, Chain, lastPt, lastT]
    · simp only [hs, if_false]
      obtain ⟨h1, h2, h3, _⟩ := ih (iter.afterSplit (iter.flatteningStep tol))
        (t0 + iter.flatteningStep tol * (one - t0)) (iter.afterSplit (iter.flatteningStep tol)).fromPt
      exact ⟨⟨rfl, rfl, h1⟩, h2, h3, by simp⟩

/-- **flat_connected / flat_ranges (arc)**: starts at `from()`, chained, ends at `to()` with
parameter exactly 1 — for every tolerance and however long the loop runs. -/
theorem arc_flat_connected (a : Arc α) (tol : α) (fuel : Nat) :
    a.forEachFlattenedWithT tol fuel ≠ []
    ∧ Chain a.fromPt zero (a.forEachFlattenedWithT tol fuel)
    ∧ lastPt a.fromPt (a.forEachFlattenedWithT tol fuel) = a.toPt
    ∧ lastT zero (a.forEachFlattenedWithT tol fuel) = one := by
  obtain ⟨h1, h2, h3, h4⟩ := arc_loop_structure a tol fuel a zero a.fromPt
  exact ⟨h4, h1, h2, h3⟩

/-- the arc iterator's final point is the REMAINING arc's `to()` (not the original's): equal in
exact arithmetic (`arc_iter_last_point_partial`), a rounding-size distance off in floats. -/
theorem arc_iter_final (s : ArcIter α) (hd : s.done = false) (he : one ≤ s.arc.flatteningStep s.tolerance) :
    s.next.1 = some s.arc.toPt := by
  simp [ArcIter.next, ArcIter.step, hd, he]

end arc_any

/-! ## Ordered-field statements -/

variable {K : Type} [Field K] [LinearOrder K] [IsStrictOrderedRing K]

theorem quad_sample_zero (q : Quad K) : q.sample 0 = q.a := by
  cases q with | mk a c b => cases a; cases c; cases b; geom_ring
theorem quad_sample_one (q : Quad K) : q.sample 1 = q.b := by
  cases q with | mk a c b => cases a; cases c; cases b; geom_ring
theorem cubic_sample_zero (c : Cubic K) : c.sample 0 = c.a := by
  cases c with | mk a c1 c2 b => cases a; cases c1; cases c2; cases b; geom_ring
theorem cubic_sample_one (c : Cubic K) : c.sample 1 = c.b := by
  cases c with | mk a c1 c2 b => cases a; cases c1; cases c2; cases b; geom_ring

/-! ### Deviation certificates -/

/-- **chord_deviation**: over the parameter range `[t0, t0+Δ]` the curve differs from its chord,
at relative position `s`, by exactly `−s(1−s)Δ²·(P0 − 2P1 + P2)`. Hence the (parametric)
deviation of a chord is at most `Δ²/4·|P0 − 2P1 + P2|`, attained at `s = 1/2`. -/
theorem chord_deviation (q : Quad K) (t0 d s : K) :
    q.sample (t0 + s * d) - (q.sample t0).lerp (q.sample (t0 + d)) s
      = ((q.a - q.c.smul 2) + q.b).smul (-(s * (1 - s) * (d * d))) := by
  geom_ring

/-- `s(1−s) ≤ 1/4`: the factor of `chord_deviation` is maximal at the middle of the chord -/
theorem chord_deviation_factor (s : K) : s * (1 - s) ≤ 1 / 4 := by
  nlinarith [sq_nonneg (s - 1 / 2)]

/-- **cubic_quad_deviation**: a cubic differs from its `to_quadratic` approximation, at the same
parameter, by exactly `½·t(1−t)(1−2t)·(P3 − 3P2 + 3P1 − P0)`. -/
theorem cubic_quad_deviation (c : Cubic K) (t : K) :
    c.sample t - c.toQuadratic.sample t
      = (((c.b - c.c2.smul 3) + c.c1.smul 3) - c.a).smul (1 / 2 * (t * (1 - t) * (1 - 2 * t))) := by
  geom_ring

/-- `|t(1−t)(1−2t)| ≤ √3/18` on [0,1], squared: `(t(1−t)(1−2t))² ≤ 1/108` — so the constant
`√3/36` of `to_quadratic_error` (and `3/1296 = 1/432` of `is_quadratic`, the `432` of
`num_quadratics_impl`) is the right one. -/
theorem cubic_quad_deviation_factor (t : K) (h0 : 0 ≤ t) (h1 : t ≤ 1) :
    (t * (1 - t) * (1 - 2 * t)) ^ 2 ≤ 1 / 108 := by
  -- with u = t(1−t) ∈ [0,1/4]: u²(1−4u) ≤ 1/108  ⇔  (6u−1)²(12u+1)… ≥ 0
  have hu0 : 0 ≤ t * (1 - t) := mul_nonneg h0 (by linarith)
  have hu1 : t * (1 - t) ≤ 1 / 4 := chord_deviation_factor t
  have e : (t * (1 - t) * (1 - 2 * t)) ^ 2 = (t * (1 - t)) ^ 2 * (1 - 4 * (t * (1 - t))) := by ring
  rw [e]
  nlinarith [mul_nonneg (sq_nonneg (6 * (t * (1 - t)) - 1)) (by linarith : (0:K) ≤ 12 * (t * (1 - t)) + 1)]

example : (0:ℚ) ≤ 1/3 ∧ (1/3:ℚ) ≤ 1 := by norm_num

/-! ### Cubic: structure -/

section cubic
variable [Transc K] [FlatConst K]

theorem one_beq_one : ((one : K) == one) = true := (sc_beq _ _).mpr rfl

/-- each quadratic of `for_each_quadratic_bezier_with_t` goes from `sample t0` to `sample t1`;
consecutive ones share parameter and point; the last one ends at parameter 1 -/
def QuadChain (c : Cubic K) : K → List (Quad K × K × K) → Prop
  | _, [] => True
  | t, (q, t0, t1) :: r => t0 = t ∧ q.a = c.sample t0 ∧ q.b = c.sample t1 ∧ QuadChain c t1 r

def lastR1 : K → List (Quad K × K × K) → K
  | t, [] => t
  | _, (_, _, t1) :: r => lastR1 t1 r

theorem cubic_quads_structure (c : Cubic K) (step : K) (n : Nat) (t0 : K) :
    QuadChain c t0 (c.quadsLoop step n t0) ∧ lastR1 t0 (c.quadsLoop step n t0) = one
    ∧ (c.quadsLoop step n t0).length = n + 1 := by
  induction n generalizing t0 with
  | zero =>
    refine ⟨⟨rfl, ?_, ?_, trivial⟩, rfl, rfl⟩ <;> simp [Cubic.splitRange, Cubic.toQuadratic]
  | succ n ih =>
    obtain ⟨h1, h2, h3⟩ := ih (t0 + step)
    refine ⟨⟨rfl, ?_, ?_, h1⟩, h2, by simp [Cubic.quadsLoop, h3]⟩ <;>
      simp [Cubic.splitRange, Cubic.toQuadratic]

/-- `rerange` keeps the points, threads the parameters, and (for the last quadratic, whose own
last range ends at 1) ends at exactly 1 -/
theorem rerange_structure (r0 len : K) (lastQuad : Bool) (l : List (FlatSeg K)) (p : P K) (t tFrom : K)
    (hc : Chain p t l) :
    Chain p tFrom (Cubic.rerange r0 len lastQuad l tFrom).1
    ∧ lastPt p (Cubic.rerange r0 len lastQuad l tFrom).1 = lastPt p l
    ∧ lastT tFrom (Cubic.rerange r0 len lastQuad l tFrom).1 = (Cubic.rerange r0 len lastQuad l tFrom).2
    ∧ ((Cubic.rerange r0 len lastQuad l tFrom).1 = [] ↔ l = [])
    ∧ (lastQuad = true → l ≠ [] → lastT t l = one → (Cubic.rerange r0 len lastQuad l tFrom).2 = one) := by
  induction l generalizing p t tFrom with
  | nil => simp [Cubic.rerange, Chain, lastPt, lastT]
  | cons s l ih =>
    obtain ⟨ha, ht, hrest⟩ := hc
    set tn := (if (lastQuad && (s.t1 == one)) = true then one else s.t1 * len + r0) with htn
    obtain ⟨h1, h2, h3, h4, h5⟩ := ih s.b s.t1 tn hrest
    refine ⟨⟨ha, rfl, h1⟩, h2, h3, by simp [Cubic.rerange], ?_⟩
    intro hq _ hlast
    cases l with
    | nil =>
      simp only [lastT] at hlast
      simp [Cubic.rerange, hq, hlast, one_beq_one]
    | cons s' l' =>
      exact h5 hq (by simp) hlast

theorem flatQuadsT_cons (tol : K) (q : Quad K) (r0 r1 : K) (rest : List (Quad K × K × K)) (tFrom : K)
    (l : List (FlatSeg K)) (h : Cubic.flatQuadsT tol ((q, r0, r1) :: rest) tFrom = some l) :
    ∃ lq lr, q.forEachFlattenedWithT tol = some lq
      ∧ Cubic.flatQuadsT tol rest (Cubic.rerange r0 (r1 - r0) (r1 == one) lq tFrom).2 = some lr
      ∧ l = (Cubic.rerange r0 (r1 - r0) (r1 == one) lq tFrom).1 ++ lr := by
  unfold Cubic.flatQuadsT at h
  split at h
  · cases h
  · rename_i lq hq
    cases hr : Cubic.flatQuadsT tol rest (Cubic.rerange r0 (r1 - r0) (r1 == one) lq tFrom).2 with
    | none => simp only [hr] at h; cases h
    | some lr =>
      simp only [hr, Option.some.injEq] at h
      exact ⟨lq, lr, hq, hr, h.symm⟩

/-- the nested loops of `for_each_flattened_with_t` over a chain of quadratics -/
theorem cubic_flat_structure (c : Cubic K) (tol : K) (qs : List (Quad K × K × K)) (t tFrom : K)
    (hq : QuadChain c t qs) (hne : qs ≠ []) (hl1 : lastR1 t qs = one)
    (l : List (FlatSeg K)) (h : Cubic.flatQuadsT tol qs tFrom = some l) :
    l ≠ [] ∧ Chain (c.sample t) tFrom l ∧ lastPt (c.sample t) l = c.sample one ∧ lastT tFrom l = one := by
  induction qs generalizing t tFrom l with
  | nil => exact absurd rfl hne
  | cons x rest ih =>
    obtain ⟨q, r0, r1⟩ := x
    obtain ⟨h0, hqa, hqb, hrest⟩ := hq
    subst h0
    obtain ⟨lq, lr, hf, hr, rfl⟩ := flatQuadsT_cons tol q r0 r1 rest tFrom l h
    obtain ⟨lne, lch, llast⟩ := quad_flat_connected q tol lq hf
    have lt := (quad_flat_ranges q tol lq hf).2
    obtain ⟨g1, g2, g3, g4, g5⟩ := rerange_structure r0 (r1 - r0) (r1 == one) lq q.a zero tFrom lch
    have gne : (Cubic.rerange r0 (r1 - r0) (r1 == one) lq tFrom).1 ≠ [] := fun hh => lne (g4.mp hh)
    rw [llast] at g2
    rw [hqa] at g1 g2
    rw [hqb] at g2
    cases rest with
    | nil =>
      have hlr : lr = [] := by
        unfold Cubic.flatQuadsT at hr
        exact (Option.some.inj hr).symm
      subst hlr
      have hr1 : r1 = one := hl1
      subst hr1
      rw [List.append_nil]
      exact ⟨gne, g1, g2, by rw [g3]; exact g5 one_beq_one lne lt⟩
    | cons y rest' =>
      obtain ⟨m1, m2, m3, m4⟩ := ih r1 _ hrest (by simp) hl1 lr hr
      refine ⟨fun hh => gne (List.append_eq_nil_iff.mp hh).1, chain_append g1 ?_, ?_, ?_⟩
      · rw [g2, g3]; exact m2
      · rw [lastPt_append, g2]; exact m3
      · rw [lastT_append, g3]; exact m4

/-- **flat_connected / flat_ranges (cubic, callback with t)**: the segments start exactly at
`from`, are chained in points and parameters, end exactly at `to` with parameter exactly 1 —
for every cubic, tolerance and number of quadratics. -/
theorem cubic_flat_connected (c : Cubic K) (tol : K) (l : List (FlatSeg K))
    (h : c.forEachFlattenedWithT tol = some l) :
    l ≠ [] ∧ Chain c.a 0 l ∧ lastPt c.a l = c.b ∧ lastT 0 l = 1 := by
  simp only [Cubic.forEachFlattenedWithT, Cubic.forEachQuadraticWithT] at h
  obtain ⟨s1, s2, s3⟩ := cubic_quads_structure c
    (one / c.numQuadraticsImpl (tol * FlatConst.value 4 1))
    ((toU32 (c.numQuadraticsImpl (tol * FlatConst.value 4 1))).getD 1 - 1) zero
  have hne : c.quadsLoop (one / c.numQuadraticsImpl (tol * FlatConst.value 4 1))
      ((toU32 (c.numQuadraticsImpl (tol * FlatConst.value 4 1))).getD 1 - 1) zero ≠ [] := by
    intro hh; rw [hh] at s3; simp at s3
  obtain ⟨r1, r2, r3, r4⟩ := cubic_flat_structure c _ _ zero zero s1 hne s2 l h
  have z : (zero : K) = 0 := sc_zero
  have o : (one : K) = 1 := sc_one
  rw [z, cubic_sample_zero] at r2 r3
  rw [o, cubic_sample_one] at r3
  rw [z] at r4
  rw [o] at r4
  exact ⟨r1, r2, r3, r4⟩

/-- **cubic_iter_point_is_sample**: whenever the inner parameter iterator yields `t`, the cubic
iterator yields `curve.sample(range_start + t·range_step)` — including the final `t = 1` of the
final sub-curve. It never returns the stored end point. -/
theorem cubic_iter_point_is_sample (s : CubicIter K) (t : K) (cur : QuadTIter K)
    (h : s.current.next = (some t, cur)) :
    s.next.1 = some (s.curve.sample (s.rangeStart + t * s.rangeStep)) := by
  simp [CubicIter.next, h]

/-- **cubic_iter_last_point_partial**: in exact arithmetic the final parameter
`(n−1)·(1/n) + 1·(1/n)` is 1 and the point is `to`. (Partial: the property demands the end point
exactly; in `f32`/`f64` the sum is not 1 for about half of all curves — known finding
`cubic-iter-last-point`; the proposed fix returns `curve.to` for the final point.) -/
theorem cubic_iter_last_point_partial (c : Cubic K) (n : K) (hn : n ≠ 0) :
    c.sample ((n - 1) * (1 / n) + 1 * (1 / n)) = c.b := by
  have : (n - 1) * (1 / n) + 1 * (1 / n) = 1 := by field_simp; ring
  rw [this, cubic_sample_one]

example : (3:ℚ) ≠ 0 := by norm_num

end cubic

/-! ### Arc: vertices lie on the arc at their parameter (sin/cos arbitrary functions) -/

section arc
variable [Transc K] [FlatConst K]

/-- invariant of the arc loop: the remaining arc is the original one from parameter `t0` on -/
def ArcInv (a iter : Arc K) (t0 : K) : Prop :=
  iter.center = a.center ∧ iter.radii = a.radii ∧ iter.xrot = a.xrot
  ∧ iter.start = a.start + a.sweep * t0 ∧ iter.sweep = a.sweep * (1 - t0)

theorem arc_inv_step (a iter : Arc K) (t0 step : K) (h : ArcInv a iter t0) :
    ArcInv a (iter.afterSplit step) (t0 + step * (one - t0))
    ∧ (iter.afterSplit step).fromPt = a.sample (t0 + step * (one - t0)) := by
  obtain ⟨h1, h2, h3, h4, h5⟩ := h
  have o : (one : K) = 1 := sc_one
  have z : (zero : K) = 0 := sc_zero
  refine ⟨⟨h1, h2, h3, ?_, ?_⟩, ?_⟩
  · simp only [Arc.afterSplit, h4, h5, o]; ring
  · simp only [Arc.afterSplit, h4, h5, o]; ring
  · simp only [Arc.fromPt, Arc.sample, Arc.afterSplit, Arc.getAngle, h1, h2, h3, h4, h5, o, z]
    congr 2; ring

/-- **flat_vertices_on_curve (arc)**: every interior vertex is `sample` of its parameter. -/
theorem arc_loop_vertices (a : Arc K) (tol : K) (f : Nat) (iter : Arc K) (t0 : K) (frm : P K)
    (h : ArcInv a iter t0) : InteriorOn a.sample (a.flatLoop tol f iter t0 frm) := by
  induction f generalizing iter t0 frm with
  | zero => simp [Arc.flatLoop, InteriorOn]
  | succ f ih =>
    unfold Arc.flatLoop
    by_cases hs : one ≤ iter.flatteningStep tol
    · rw [if_pos hs]; trivial
    · simp only [hs, if_false]
      obtain ⟨hi, hp⟩ := arc_inv_step a iter t0 (iter.flatteningStep tol) h
      have := ih (iter.afterSplit (iter.flatteningStep tol)) _ (iter.afterSplit (iter.flatteningStep tol)).fromPt hi
      obtain ⟨_, _, _, hne⟩ := arc_loop_structure a tol f (iter.afterSplit (iter.flatteningStep tol))
        (t0 + iter.flatteningStep tol * (one - t0)) (iter.afterSplit (iter.flatteningStep tol)).fromPt
      cases hl : a.flatLoop tol f (iter.afterSplit (iter.flatteningStep tol))
          (t0 + iter.flatteningStep tol * (one - t0)) (iter.afterSplit (iter.flatteningStep tol)).fromPt with
      | nil => exact absurd hl hne
      | cons s r =>
        rw [hl] at this
        exact ⟨hp, this⟩

theorem arc_flat_vertices_on_curve (a : Arc K) (tol : K) (fuel : Nat) :
    InteriorOn a.sample (a.forEachFlattenedWithT tol fuel) := by
  apply arc_loop_vertices
  refine ⟨rfl, rfl, rfl, ?_, ?_⟩ <;> simp [sc_zero]

/-- **arc_iter_last_point_partial**: under the loop invariant the remaining arc's `to()` is the
original arc's `to()` — in exact arithmetic. (Partial: in floats `start_k + sweep_k` is not
`start + sweep`; known finding `arc-iter-last-point`.) -/
theorem arc_iter_last_point_partial (a iter : Arc K) (t0 : K) (h : ArcInv a iter t0) :
    iter.toPt = a.toPt := by
  obtain ⟨h1, h2, h3, h4, h5⟩ := h
  simp only [Arc.toPt, Arc.sample, Arc.getAngle, h1, h2, h3, h4, h5, sc_one]
  congr 2; ring

example (a : Arc ℚ) [Transc ℚ] : ArcInv a a 0 := ⟨rfl, rfl, rfl, by ring, by ring⟩

end arc

/-! ### Parameters strictly increase (exact arithmetic; `sqrt` a parameter) -/

section mono
variable [Transc K] [FlatConst K]

/-- **inv_integral_strict_mono**: `approx_parabola_inv_integral` is strictly increasing, given
that `sqrt` is non-negative and monotone on non-negative arguments and `0 ≤ b < 1` for the
constant `b = 0.39`. -/
theorem inv_integral_strict_mono
    (hs0 : ∀ x : K, 0 ≤ Transc.sqrt x)
    (hsm : ∀ x y : K, 0 ≤ x → x ≤ y → Transc.sqrt x ≤ Transc.sqrt y)
    (hb : (FlatConst.value 39 2 : K) < 1)
    (x y : K) (hxy : x < y) :
    approxParabolaInvIntegral x < approxParabolaInvIntegral y := by
  -- f x = x · g x with g ≥ 1 − b > 0, g even and non-decreasing in |x|
  set b : K := FlatConst.value 39 2 with hbdef
  have g : ∀ z : K, approxParabolaInvIntegral z = z * (1 - b + Transc.sqrt (b * b + 1 / 2 * (1 / 2) * z * z)) := by
    intro z; simp only [approxParabolaInvIntegral, sc_one, sc_half, ← hbdef]
  have gpos : ∀ z : K, 0 < 1 - b + Transc.sqrt (b * b + 1 / 2 * (1 / 2) * z * z) := by
    intro z; have := hs0 (b * b + 1 / 2 * (1 / 2) * z * z); linarith
  have gmono : ∀ u v : K, u * u ≤ v * v →
      1 - b + Transc.sqrt (b * b + 1 / 2 * (1 / 2) * u * u) ≤ 1 - b + Transc.sqrt (b * b + 1 / 2 * (1 / 2) * v * v) := by
    intro u v huv
    have h1 : 0 ≤ b * b + 1 / 2 * (1 / 2) * u * u := by nlinarith [mul_self_nonneg b, mul_self_nonneg u]
    have := hsm _ (b * b + 1 / 2 * (1 / 2) * v * v) h1 (by nlinarith)
    linarith
  rw [g x, g y]
  rcases le_or_gt 0 x with hx | hx
  · -- 0 ≤ x < y
    have h1 := gmono x y (by nlinarith)
    calc x * (1 - b + Transc.sqrt (b * b + 1 / 2 * (1 / 2) * x * x))
        ≤ x * (1 - b + Transc.sqrt (b * b + 1 / 2 * (1 / 2) * y * y)) := mul_le_mul_of_nonneg_left h1 hx
      _ < y * (1 - b + Transc.sqrt (b * b + 1 / 2 * (1 / 2) * y * y)) := mul_lt_mul_of_pos_right hxy (gpos y)
  · rcases le_or_gt y 0 with hy | hy
    · -- x < y ≤ 0
      have h1 := gmono y x (by nlinarith)
      have h2 : x * (1 - b + Transc.sqrt (b * b + 1 / 2 * (1 / 2) * x * x))
          < y * (1 - b + Transc.sqrt (b * b + 1 / 2 * (1 / 2) * x * x)) := mul_lt_mul_of_pos_right hxy (gpos x)
      have h3 : y * (1 - b + Transc.sqrt (b * b + 1 / 2 * (1 / 2) * x * x))
          ≤ y * (1 - b + Transc.sqrt (b * b + 1 / 2 * (1 / 2) * y * y)) := by
        have := mul_le_mul_of_nonneg_left h1 (by linarith : 0 ≤ -y)
        linarith
      linarith
    · -- x < 0 < y
      have h1 := mul_neg_of_neg_of_pos hx (gpos x)
      have h2 := mul_pos hy (gpos y)
      linarith

/-- **flat_t_increasing**: `t_at_iteration` is strictly increasing in the iteration number when
the step and the normalising factor have the same sign (which `FlatteningParameters::new`
produces: both have the sign of `integral_to − integral_from`, see `general_signs`). -/
theorem tAt_strict_mono
    (hs0 : ∀ x : K, 0 ≤ Transc.sqrt x)
    (hsm : ∀ x y : K, 0 ≤ x → x ≤ y → Transc.sqrt x ≤ Transc.sqrt y)
    (hb : (FlatConst.value 39 2 : K) < 1)
    (p : FlatParams K) (i j : K) (hij : i < j)
    (hsign : (0 < p.integralStep ∧ 0 < p.divInvIntegralDiff) ∨ (p.integralStep < 0 ∧ p.divInvIntegralDiff < 0)) :
    p.tAt i < p.tAt j := by
  simp only [FlatParams.tAt]
  rcases hsign with ⟨h1, h2⟩ | ⟨h1, h2⟩
  · have := inv_integral_strict_mono hs0 hsm hb (p.integralFrom + p.integralStep * i)
      (p.integralFrom + p.integralStep * j) (by nlinarith)
    exact mul_lt_mul_of_pos_right (by linarith) h2
  · have := inv_integral_strict_mono hs0 hsm hb (p.integralFrom + p.integralStep * j)
      (p.integralFrom + p.integralStep * i) (by nlinarith)
    exact mul_lt_mul_of_neg_right (by linarith) h2

/-- the signs `tAt_strict_mono` asks for are those `FlatteningParameters::new` produces:
with `diff = integral_to − integral_from ≠ 0` and a positive count, `step = diff/count` and
`1/(inv(to) − inv(from))` both have the sign of `diff`. -/
theorem general_signs
    (hs0 : ∀ x : K, 0 ≤ Transc.sqrt x)
    (hsm : ∀ x y : K, 0 ≤ x → x ≤ y → Transc.sqrt x ≤ Transc.sqrt y)
    (hb : (FlatConst.value 39 2 : K) < 1)
    (i0 i1 count : K) (hc : 0 < count) (hd : i0 ≠ i1) :
    (0 < (i1 - i0) / count ∧ 0 < 1 / (approxParabolaInvIntegral i1 - approxParabolaInvIntegral i0))
    ∨ ((i1 - i0) / count < 0 ∧ 1 / (approxParabolaInvIntegral i1 - approxParabolaInvIntegral i0) < 0) := by
  rcases lt_or_gt_of_ne hd with h | h
  · left
    have := inv_integral_strict_mono hs0 hsm hb i0 i1 h
    exact ⟨div_pos (by linarith) hc, one_div_pos.mpr (by linarith)⟩
  · right
    have := inv_integral_strict_mono hs0 hsm hb i1 i0 h
    exact ⟨div_neg_of_neg_of_pos (by linarith) hc, one_div_neg.mpr (by linarith)⟩

/-- non-vacuity of the hypotheses of `inv_integral_strict_mono` / `tAt_strict_mono` /
`general_signs`: `x ↦ max x 0` is a non-negative monotone "sqrt" on ℚ, `0.39 < 1`, and concrete
parameters with step and factor of the same sign -/
example : (∀ x : ℚ, 0 ≤ Max.max x 0) ∧ (∀ x y : ℚ, 0 ≤ x → x ≤ y → Max.max x 0 ≤ Max.max y 0) ∧ ((39:ℚ) / 100 < 1) :=
  ⟨fun x => le_max_right _ _, fun x y _ h => max_le_max h le_rfl, by norm_num⟩
example : let p : FlatParams ℚ := ⟨4, -1, 1/2, -2, 1/4⟩
    (0 < p.integralStep ∧ 0 < p.divInvIntegralDiff) ∧ ((1:ℚ) < 2) := by
  constructor
  · constructor <;> norm_num
  · norm_num
example : (0:ℚ) < 4 ∧ (-1:ℚ) ≠ 1 := by norm_num

/-- `t_at_iteration(0) = 0` (the stored `inv_integral_from` being `inv(integral_from)`) -/
theorem tAt_zero (p : FlatParams K)
    (hinv : p.invIntegralFrom = approxParabolaInvIntegral p.integralFrom) : p.tAt 0 = 0 := by
  simp [FlatParams.tAt, hinv]

/-- `t_at_iteration(count) = 1` when `step·count = integral_to − integral_from` and the
normalising factor is the inverse of `inv(to) − inv(from) ≠ 0` -/
theorem tAt_count (p : FlatParams K) (i1 : K)
    (hstep : p.integralFrom + p.integralStep * p.count = i1)
    (hinv : p.invIntegralFrom = approxParabolaInvIntegral p.integralFrom)
    (hdiv : p.divInvIntegralDiff = 1 / (approxParabolaInvIntegral i1 - approxParabolaInvIntegral p.integralFrom))
    (hne : approxParabolaInvIntegral i1 ≠ approxParabolaInvIntegral p.integralFrom) :
    p.tAt p.count = 1 := by
  simp only [FlatParams.tAt, hstep, hinv, hdiv]
  field_simp [sub_ne_zero.mpr hne]

end mono

/-! ### The tolerance clause is false of model and code: `is_linear` -/

/-- **is_linear_unsound_witness**: `from (0,0) ctrl (1000,0) to (1/100,0)`, tolerance `1/10`:
`is_linear` holds (the control point is ON the baseline's line), so whatever the libm functions
are the parameters say "count 0" and exactly one segment `from → to` is emitted — while the curve
point at `t = 1/2` is `(500 + 1/400, 0)`, more than 4999 tolerances beyond the segment's far end. -/
theorem is_linear_unsound_witness :
    let q : Quad ℚ := ⟨⟨0, 0⟩, ⟨1000, 0⟩, ⟨1 / 100, 0⟩⟩
    q.isLinear (1 / 10) = true
    ∧ (∀ (T : Transc ℚ) (F : FlatConst ℚ), (FlatParams.new q (1 / 10)).count = 0)
    ∧ (∀ (T : Transc ℚ) (F : FlatConst ℚ) (p : FlatParams ℚ), q.flatWith p 0 = [⟨q.a, q.b, zero, one⟩])
    ∧ q.sample (1 / 2) = ⟨500 + 1 / 400, 0⟩
    ∧ (500 + 1 / 400 : ℚ) - 1 / 100 > 4999 * (1 / 10) := by
  have hlin : (⟨⟨0, 0⟩, ⟨1000, 0⟩, ⟨1 / 100, 0⟩⟩ : Quad ℚ).isLinear (1 / 10) = true := by
    simp only [Quad.isLinear, lineSqDist, P.cross, P.sqLen, P.sub_def, geom]
    norm_num [P.beq, BEq.beq]
  refine ⟨hlin, ?_, ?_, ?_, by norm_num⟩
  · intro T F
    simp only [FlatParams.new, hlin, if_true, FlatParams.linear, sc_zero]
  · intro T F p
    simp [Quad.flatWith, Quad.flatLoop]
  · apply P.ext' <;> simp only [geom] <;> norm_num

/-- a toy instance of the non-field functions, used only to show that the hypothesis
`… = some l` of the structural theorems is satisfiable on a concrete curve -/
@[instance_reducible] def toyTransc : Transc ℚ :=
  { sqrt := fun x => Max.max x 0, cbrt := id, sin := id, cos := id, tan := id, acos := id,
    atan2 := fun a _ => a, pow := fun a _ => a, log2 := id, ln := id, floor := id, ceil := id,
    toNat := fun _ => 0, fmod := fun a _ => a, eps := 0, pi := 3, isNaN := fun _ => false,
    isFinite := fun _ => true }
@[instance_reducible] def toyConst : FlatConst ℚ := ⟨1 / 10000, fun m e => (m : ℚ) / 10 ^ e, (67 / 100) ^ 4⟩

example : ∃ l, @Quad.forEachFlattenedWithT ℚ _ toyTransc toyConst ⟨⟨0, 0⟩, ⟨1000, 0⟩, ⟨1 / 100, 0⟩⟩ (1 / 10) = some l := by
  refine ⟨[⟨⟨0, 0⟩, ⟨1 / 100, 0⟩, zero, one⟩], ?_⟩
  have hlin := is_linear_unsound_witness.1
  have hc := is_linear_unsound_witness.2.1 toyTransc toyConst
  simp only [Quad.forEachFlattenedWithT, toU32, hc]
  norm_num [toyTransc, Quad.flatWith, ofNat_eq]
  have h0 : @Transc.toNat ℚ toyTransc 0 - 1 = 0 := rfl
  rw [h0]
  simp [Quad.flatLoop]

/-- **is_linear_sound_partial**: when `is_linear` holds through its distance test AND the
quadratic's control point lies on the baseline segment's side of things such that the chord in
question is the whole curve, the single chord's parametric deviation is at most
`|P0 − 2P1 + P2|/4` (`chord_deviation` at `t0 = 0`, `Δ = 1`) — i.e. half the distance of the
control point from the chord's midpoint. This is `≤ tolerance` when the control point is within
`2·tolerance` of the *midpoint region* of the baseline, not merely of its supporting line: the
property's tolerance clause holds only under that extra hypothesis. (Partial: the hypothesis
`is_linear` checks — distance to the infinite line — does not imply it; see the witness.) -/
theorem is_linear_sound_partial (q : Quad K) (s : K) :
    q.sample s - q.a.lerp q.b s = ((q.a - q.c.smul 2) + q.b).smul (-(s * (1 - s))) := by
  have h := chord_deviation q 0 1 s
  have e0 : q.sample 0 = q.a := quad_sample_zero q
  have e1 : q.sample (0 + 1) = q.b := by rw [zero_add]; exact quad_sample_one q
  rw [e0, e1] at h
  have e2 : (0:K) + s * 1 = s := by ring
  rw [e2] at h
  rw [h]; congr 2; ring

end Lyon.C09
