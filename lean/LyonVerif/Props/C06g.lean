/-
  C06g — the LOWER half of the round clause for one fan of `tessellate_arc` (round joins and round caps are made of
  such fans).

  `round_fan_covers_inner_sector`: for `tessellate_arc a0 a1 va vb n` around the centre `c` with radius `w/2`
  (start / end vertex at `c + w/2·(cos a0, sin a0)`, `c + w/2·(cos a1, sin a1)`), every point of the circular sector
  of radius `w/2 − tol` between the directions `a0` and `a1` lies in the triangle (centre, start, end) or in a
  triangle the fan emits — provided the sagitta `w/2·(1 − cos((a1 − a0)/2^(n+1)))` of one of the `2^n` chords is at most
  `tol`.  `round_fan_covers_inner_sector_tol` discharges that proviso through `C06.sagitta_within_tolerance` (half chord
  angle at most `acos((r − tol)/r)`, which is what `round_subdivision_enough` provides for the depth lyon chooses).
  Laws of `sin` / `cos` (hypotheses): `cos² + sin² = 1`, the two addition formulas, `sin`, `cos` positive on
  `(0, (a1 − a0)/2]` (an arc of less than half a turn); all hold over the reals (example below).

  Lemmas: `Lemmas/StrokeCoverRoundLow.lean` (`arc_covers`, plane geometry `sector_in_tri`, `quad_split`).
  NOT done here: `stroke_segment_round_caps_exact` (it needs laws that tie `angle_from_x_axis` / `angle_to` to the edge
  normals, and the bookkeeping of the two cap fans of a run).
-/
import LyonVerif.Props.C06f
import LyonVerif.Lemmas.StrokeCoverRoundLow
import Mathlib.Analysis.SpecialFunctions.Trigonometric.Basic
import Mathlib.Analysis.SpecialFunctions.Trigonometric.Inverse

set_option linter.unusedSectionVars false
set_option linter.unusedVariables false

namespace Lyon.C06g
open Lyon Scalar Lyon.Stroke Lyon.Stroke.Full Lyon.C05 Lyon.C05b Lyon.C05c Lyon.C06 Lyon.C06b

section
variable {K : Type} [Field K] [LinearOrder K] [IsStrictOrderedRing K] [Transc K]

/-- **the fan of `tessellate_arc` covers the sector of radius `w/2 − tol`** (sagitta of one chord at most `tol`) -/
theorem round_fan_covers_inner_sector
    (hpy : ∀ x : K, Transc.cos x * Transc.cos x + Transc.sin x * Transc.sin x = 1)
    (hac : ∀ x y : K, Transc.cos (x + y) = Transc.cos x * Transc.cos y - Transc.sin x * Transc.sin y)
    (has : ∀ x y : K, Transc.sin (x + y) = Transc.sin x * Transc.cos y + Transc.cos x * Transc.sin y)
    (c : P K) (hw : K) (hhw : 0 < hw) (n : Nat) (a0 a1 : K) (va vb : Nat) (d : VData K) (o : Out K)
    (h01 : a0 < a1) (hpos : ∀ x : K, 0 < x → x ≤ (a1 - a0) * half → 0 < Transc.sin x ∧ 0 < Transc.cos x)
    (hc : d.positionOnPath = c) (hhd : d.halfWidth = hw) (hn : o.nextId = o.verts.length)
    (hpa : PosAt o va (c + (uv a0).smul hw)) (hpb : PosAt o vb (c + (uv a1).smul hw))
    (tol : K) (hsag : hw * (1 - Transc.cos ((a1 - a0) * half ^ (n + 1))) ≤ tol)
    (w : P K) (ρ : K) (hwu : w.sqLen = 1) (h1 : 0 ≤ (uv a0).cross w) (h2 : 0 ≤ w.cross (uv a1))
    (hρ0 : 0 ≤ ρ) (hρ : ρ ≤ hw - tol) :
    InTri (c + w.smul ρ) (c, c + (uv a0).smul hw, c + (uv a1).smul hw)
    ∨ CoveredBy (tessellateArc a0 a1 va vb n d o) (c + w.smul ρ) :=
  arc_covers hpy hac has c hw hhw n a0 a1 va vb d o h01 hpos hc hhd hn hpa hpb w ρ hwu h1 h2 hρ0
    (by have : hw * (1 - Transc.cos ((a1 - a0) * half ^ (n + 1)))
          = hw - hw * Transc.cos ((a1 - a0) * half ^ (n + 1)) := by ring
        linarith)

/-- … with the proviso discharged by `sagitta_within_tolerance`: half the chord angle is at most
`acos((w/2 − tol)/(w/2))` -/
theorem round_fan_covers_inner_sector_tol
    (hpy : ∀ x : K, Transc.cos x * Transc.cos x + Transc.sin x * Transc.sin x = 1)
    (hac : ∀ x y : K, Transc.cos (x + y) = Transc.cos x * Transc.cos y - Transc.sin x * Transc.sin y)
    (has : ∀ x y : K, Transc.sin (x + y) = Transc.sin x * Transc.cos y + Transc.cos x * Transc.sin y)
    (hanti : ∀ x y : K, 0 ≤ x → x ≤ y → y ≤ Transc.pi → Transc.cos y ≤ Transc.cos x)
    (hacos : ∀ x : K, -1 ≤ x → x ≤ 1 → Transc.cos (Transc.acos x) = x ∧ 0 ≤ Transc.acos x ∧ Transc.acos x ≤ Transc.pi)
    (c : P K) (hw : K) (hhw : 0 < hw) (n : Nat) (a0 a1 : K) (va vb : Nat) (d : VData K) (o : Out K)
    (h01 : a0 < a1) (hpos : ∀ x : K, 0 < x → x ≤ (a1 - a0) * half → 0 < Transc.sin x ∧ 0 < Transc.cos x)
    (hc : d.positionOnPath = c) (hhd : d.halfWidth = hw) (hn : o.nextId = o.verts.length)
    (hpa : PosAt o va (c + (uv a0).smul hw)) (hpb : PosAt o vb (c + (uv a1).smul hw))
    (tol : K) (ht0 : 0 ≤ tol) (htr : tol ≤ hw)
    (hstep : (a1 - a0) * half ^ (n + 1) ≤ Transc.acos ((hw - tol) / hw))
    (w : P K) (ρ : K) (hwu : w.sqLen = 1) (h1 : 0 ≤ (uv a0).cross w) (h2 : 0 ≤ w.cross (uv a1))
    (hρ0 : 0 ≤ ρ) (hρ : ρ ≤ hw - tol) :
    InTri (c + w.smul ρ) (c, c + (uv a0).smul hw, c + (uv a1).smul hw)
    ∨ CoveredBy (tessellateArc a0 a1 va vb n d o) (c + w.smul ρ) := by
  have hh : (half : K) = 1 / 2 := sc_half
  have hstep0 : 0 ≤ (a1 - a0) * half ^ (n + 1) := by
    apply mul_nonneg (by linarith); rw [hh]; positivity
  exact round_fan_covers_inner_sector hpy hac has c hw hhw n a0 a1 va vb d o h01 hpos hc hhd hn hpa hpb tol
    (sagitta_within_tolerance hw tol _ hhw ht0 htr hanti hacos hstep0 hstep) w ρ hwu h1 h2 hρ0 hρ

end

/-! ### non-vacuity over the reals: a quarter-turn fan of depth 3 around the origin, radius 1 -/

section Real
attribute [local instance] Lyon.C05.realTransc

noncomputable def exD (x : ℝ) : VData ℝ := ⟨⟨0, 0⟩, 1, uv x, 0, .negative, .endpoint 0⟩
noncomputable def exO : Out ℝ := ((Out.empty 0).addVertex (exD 0)).addVertex (exD (Real.pi / 2))

example (w : P ℝ) (ρ : ℝ) (hwu : w.sqLen = 1) (h1 : 0 ≤ (uv (0 : ℝ)).cross w) (h2 : 0 ≤ w.cross (uv (Real.pi / 2)))
    (hρ0 : 0 ≤ ρ) (hρ : ρ ≤ 1 - (1 - Real.cos (Real.pi / 2 * half ^ (3 + 1)))) :
    InTri ((⟨0, 0⟩ : P ℝ) + w.smul ρ) (⟨0, 0⟩, (⟨0, 0⟩ : P ℝ) + (uv (0 : ℝ)).smul 1, (⟨0, 0⟩ : P ℝ) + (uv (Real.pi / 2)).smul 1)
    ∨ CoveredBy (tessellateArc 0 (Real.pi / 2) 0 1 3 (exD 0) exO) ((⟨0, 0⟩ : P ℝ) + w.smul ρ) := by
  have hh : (half : ℝ) = 1 / 2 := sc_half
  refine round_fan_covers_inner_sector (K := ℝ)
    (fun x => by
      show Real.cos x * Real.cos x + Real.sin x * Real.sin x = 1
      have := Real.cos_sq_add_sin_sq x; nlinarith)
    (fun x y => Real.cos_add x y) (fun x y => Real.sin_add x y)
    ⟨0, 0⟩ 1 one_pos 3 0 (Real.pi / 2) 0 1 (exD 0) exO (by positivity) ?_ rfl rfl rfl ?_ ?_
    (1 - Real.cos (Real.pi / 2 * half ^ (3 + 1))) ?_ w ρ hwu h1 h2 hρ0 hρ
  · intro x hx0 hx
    rw [hh] at hx
    have hpi := Real.pi_pos
    exact ⟨Real.sin_pos_of_pos_of_lt_pi hx0 (by linarith), Real.cos_pos_of_mem_Ioo ⟨by linarith, by linarith⟩⟩
  · refine ⟨exD 0, rfl, ?_⟩
    show (⟨0, 0⟩ : P ℝ) + (uv (0 : ℝ)).smul 1 = _
    rfl
  · refine ⟨exD (Real.pi / 2), rfl, ?_⟩
    show (⟨0, 0⟩ : P ℝ) + (uv (Real.pi / 2)).smul 1 = _
    rfl
  · show (1 : ℝ) * (1 - Real.cos ((Real.pi / 2 - 0) * half ^ (3 + 1))) ≤ _
    rw [sub_zero, one_mul]

end Real

/-! ### non-vacuity of `round_fan_covers_inner_sector_tol`: the same fan, `acos` the real `arccos`,
`tol = 1 − cos(π/32)` (the sagitta of one of the 8 chords) -/

section Real2

/-- `Transc ℝ` with the real `sqrt`, `sin`, `cos`, `arccos`, `π` -/
@[instance_reducible] noncomputable def realTranscA : Transc ℝ := { Lyon.C05.realTransc with acos := Real.arccos }
attribute [local instance] realTranscA

noncomputable def exDA (x : ℝ) : VData ℝ := ⟨⟨0, 0⟩, 1, uv x, 0, .negative, .endpoint 0⟩
noncomputable def exOA : Out ℝ := ((Out.empty 0).addVertex (exDA 0)).addVertex (exDA (Real.pi / 2))

example (w : P ℝ) (ρ : ℝ) (hwu : w.sqLen = 1) (h1 : 0 ≤ (uv (0 : ℝ)).cross w) (h2 : 0 ≤ w.cross (uv (Real.pi / 2)))
    (hρ0 : 0 ≤ ρ) (hρ : ρ ≤ 1 - (1 - Real.cos (Real.pi / 32))) :
    InTri ((⟨0, 0⟩ : P ℝ) + w.smul ρ) (⟨0, 0⟩, (⟨0, 0⟩ : P ℝ) + (uv (0 : ℝ)).smul 1, (⟨0, 0⟩ : P ℝ) + (uv (Real.pi / 2)).smul 1)
    ∨ CoveredBy (tessellateArc 0 (Real.pi / 2) 0 1 3 (exDA 0) exOA) ((⟨0, 0⟩ : P ℝ) + w.smul ρ) := by
  have hh : (half : ℝ) = 1 / 2 := sc_half
  have hpi := Real.pi_pos
  have hc0 : 0 ≤ Real.cos (Real.pi / 32) := Real.cos_nonneg_of_mem_Icc ⟨by linarith, by linarith⟩
  have hc1 : Real.cos (Real.pi / 32) ≤ 1 := Real.cos_le_one _
  refine round_fan_covers_inner_sector_tol (K := ℝ)
    (fun x => by
      show Real.cos x * Real.cos x + Real.sin x * Real.sin x = 1
      have := Real.cos_sq_add_sin_sq x; nlinarith)
    (fun x y => Real.cos_add x y) (fun x y => Real.sin_add x y)
    (fun x y hx hxy hy => Real.cos_le_cos_of_nonneg_of_le_pi hx hy hxy)
    (fun x hx0 hx1 => ⟨Real.cos_arccos hx0 hx1, Real.arccos_nonneg x, Real.arccos_le_pi x⟩)
    ⟨0, 0⟩ 1 one_pos 3 0 (Real.pi / 2) 0 1 (exDA 0) exOA (by positivity) ?_ rfl rfl rfl ?_ ?_
    (1 - Real.cos (Real.pi / 32)) (by linarith) (by linarith) ?_ w ρ hwu h1 h2 hρ0 hρ
  · intro x hx0 hx
    rw [hh] at hx
    exact ⟨Real.sin_pos_of_pos_of_lt_pi hx0 (by linarith), Real.cos_pos_of_mem_Ioo ⟨by linarith, by linarith⟩⟩
  · refine ⟨exDA 0, rfl, ?_⟩
    show (⟨0, 0⟩ : P ℝ) + (uv (0 : ℝ)).smul 1 = _
    rfl
  · refine ⟨exDA (Real.pi / 2), rfl, ?_⟩
    show (⟨0, 0⟩ : P ℝ) + (uv (Real.pi / 2)).smul 1 = _
    rfl
  · show (Real.pi / 2 - 0) * half ^ (3 + 1) ≤ Real.arccos ((1 - (1 - Real.cos (Real.pi / 32))) / 1)
    have e : (1 - (1 - Real.cos (Real.pi / 32))) / 1 = Real.cos (Real.pi / 32) := by ring
    rw [e, Real.arccos_cos (by linarith) (by linarith), hh]
    apply le_of_eq; ring

end Real2

end Lyon.C06g
