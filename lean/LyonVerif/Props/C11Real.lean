/-
  C11 over ℝ: the hypotheses of the arc theorems of `Props/C11.lean` discharged for the real
  trigonometric functions of Mathlib.

  `arc_box_contains` (any ordered field, trigonometry as parameters) takes `AngleLaws` and, per
  coordinate, the hypothesis that the coordinate of `Arc.sample` is monotone on parameter ranges
  avoiding the angles `x_ext_angle + kπ` (resp. `y_ext_angle + kπ`).  Here `Transc ℝ` is
  instantiated with `Real.sin/cos/tan/sqrt/π` and C's `fmod`, `Atan ℝ` with `Real.arctan` (and
  `atan(y/0) = ±π/2` for the IEEE quotient), and both hypotheses are *proved*: the x-coordinate of
  the rotated ellipse `rx cos θ cos φ − ry sin θ sin φ` equals `R cos(θ − θ₀)` with
  `θ₀ = −arctan((ry/rx) tan φ)`, so it is extremal exactly at `θ₀ + kπ` and monotone in between.
  Result: `arc_box_contains_real` — for real arcs with positive radii, `cos φ ≠ 0` and
  `0 < |sweep| ≤ 2π` the exact bounding box contains the arc, no hypothesis about trigonometry left.
  (`cos φ = 0` is excluded because Mathlib's `tan (π/2) = 0` is not what `tanf` returns; a float
  `x_rotation` is never exactly `π/2`.)
-/
import LyonVerif.Props.C11
import Mathlib.Analysis.SpecialFunctions.Trigonometric.Arctan
import Mathlib.Analysis.Real.Pi.Bounds

set_option linter.unusedSectionVars false
set_option linter.unusedVariables false
set_option linter.unusedSimpArgs false
set_option linter.style.haveILetI false
set_option warn.classDefReducibility false

namespace Lyon.C11
open Lyon Real

/-- C's `fmod`: `x − y·trunc(x/y)` -/
noncomputable def realFmod (x y : ℝ) : ℝ :=
  if 0 ≤ x / y then x - y * (⌊x / y⌋ : ℝ) else x - y * (⌈x / y⌉ : ℝ)

/-- `Transc ℝ` with Mathlib's real functions (fields the arc code does not use are placeholders) -/
noncomputable def realTransc : Transc ℝ where
  sqrt := Real.sqrt
  cbrt := fun _ => 0
  sin := Real.sin
  cos := Real.cos
  tan := Real.tan
  acos := Real.arccos
  atan2 := fun _ _ => 0
  pow := fun _ _ => 0
  log2 := fun _ => 0
  ln := Real.log
  floor := fun x => (⌊x⌋ : ℝ)
  ceil := fun x => (⌈x⌉ : ℝ)
  toNat := fun x => ⌊x⌋.toNat
  fmod := realFmod
  eps := 0
  pi := Real.pi
  isNaN := fun _ => false
  isFinite := fun _ => true

/-- `Atan ℝ`: `Real.arctan`, and the IEEE quotient form with `y / 0 = ±∞` -/
noncomputable def realAtan : Atan ℝ where
  atan := Real.arctan
  atanQuot := fun y x =>
    if x = 0 then (if 0 < y then π / 2 else if y < 0 then -(π / 2) else 0) else Real.arctan (y / x)

attribute [local instance] realTransc realAtan

theorem real_positive_spec (x : ℝ) :
    0 ≤ Arc.positive x ∧ Arc.positive x < π + π ∧ ∃ k : ℤ, Arc.positive x = x + k * (π + π) := by
  have hτ : (0 : ℝ) < π + π := by have := Real.pi_pos; linarith
  show 0 ≤ (if realFmod x (π + π) < Scalar.zero then realFmod x (π + π) + (π + π) else realFmod x (π + π)) ∧
    (if realFmod x (π + π) < Scalar.zero then realFmod x (π + π) + (π + π) else realFmod x (π + π)) < π + π ∧
    ∃ k : ℤ, (if realFmod x (π + π) < Scalar.zero then realFmod x (π + π) + (π + π) else realFmod x (π + π))
      = x + k * (π + π)
  simp only [Scalar.zero, sc_zero]
  unfold realFmod
  by_cases hq : 0 ≤ x / (π + π)
  · rw [if_pos hq]
    have h1 : ((⌊x / (π + π)⌋ : ℤ) : ℝ) ≤ x / (π + π) := Int.floor_le _
    have h2 : x / (π + π) < (⌊x / (π + π)⌋ : ℝ) + 1 := Int.lt_floor_add_one _
    rw [le_div_iff₀ hτ] at h1
    rw [div_lt_iff₀ hτ] at h2
    have nn : ¬ (x - (π + π) * (⌊x / (π + π)⌋ : ℝ) < 0) := by rw [not_lt]; linarith
    rw [if_neg nn]
    refine ⟨by linarith, by linarith, -⌊x / (π + π)⌋, by push_cast; ring⟩
  · rw [if_neg hq]
    have h1 : x / (π + π) ≤ ((⌈x / (π + π)⌉ : ℤ) : ℝ) := Int.le_ceil _
    have h2 : ((⌈x / (π + π)⌉ : ℤ) : ℝ) < x / (π + π) + 1 := Int.ceil_lt_add_one _
    rw [div_le_iff₀ hτ] at h1
    have h2' : ((⌈x / (π + π)⌉ : ℤ) : ℝ) * (π + π) < x + (π + π) := by
      have := mul_lt_mul_of_pos_right h2 hτ
      rw [add_mul, div_mul_cancel₀ _ (ne_of_gt hτ), one_mul] at this
      exact this
    by_cases hneg : x - (π + π) * (⌈x / (π + π)⌉ : ℝ) < 0
    · rw [if_pos hneg]
      refine ⟨by linarith, by linarith, -⌈x / (π + π)⌉ + 1, by push_cast; ring⟩
    · rw [if_neg hneg]
      refine ⟨not_lt.1 hneg, by linarith, -⌈x / (π + π)⌉, by push_cast; ring⟩

/-- **`AngleLaws` holds for the real functions** -/
theorem real_angle_laws : AngleLaws ℝ where
  pi_gt := Real.pi_gt_three
  pi_lt := Real.pi_lt_four
  range := fun x => ⟨(real_positive_spec x).1, (real_positive_spec x).2.1⟩
  cong := fun x => (real_positive_spec x).2.2

/-- a sinusoid `P cos θ + Q sin θ` with a critical angle `θ₀` is `R cos(θ − θ₀)` -/
theorem sinusoid_phase (P Q θ0 θ : ℝ) (h0 : -P * sin θ0 + Q * cos θ0 = 0) :
    P * cos θ + Q * sin θ = (P * cos θ0 + Q * sin θ0) * cos (θ - θ0) := by
  rw [Real.cos_sub]
  have e := Real.cos_sq_add_sin_sq θ0
  have hP : (P * cos θ0 + Q * sin θ0) * cos θ0 = P := by
    have : (P * cos θ0 + Q * sin θ0) * cos θ0 = P * (cos θ0 ^ 2 + sin θ0 ^ 2) + sin θ0 * (-P * sin θ0 + Q * cos θ0) := by ring
    rw [this, e, h0]; ring
  have hQ : (P * cos θ0 + Q * sin θ0) * sin θ0 = Q := by
    have : (P * cos θ0 + Q * sin θ0) * sin θ0 = Q * (cos θ0 ^ 2 + sin θ0 ^ 2) - cos θ0 * (-P * sin θ0 + Q * cos θ0) := by ring
    rw [this, e, h0]; ring
  calc P * cos θ + Q * sin θ
      = ((P * cos θ0 + Q * sin θ0) * cos θ0) * cos θ + ((P * cos θ0 + Q * sin θ0) * sin θ0) * sin θ := by rw [hP, hQ]
    _ = (P * cos θ0 + Q * sin θ0) * (cos θ * cos θ0 + sin θ * sin θ0) := by ring

/-- `C + c·cos(a + b s)` is monotone in `s` as long as the angle stays within `[0, π]` -/
theorem cos_comp_mono (C c a b lo hi : ℝ)
    (hr : ∀ s, lo ≤ s → s ≤ hi → 0 ≤ a + b * s ∧ a + b * s ≤ π) :
    MonoOn (fun s => C + c * cos (a + b * s)) lo hi := by
  rcases le_total 0 b with hb | hb <;> rcases le_total 0 c with hc | hc
  · right; intro s u h1 h2 h3
    have := Real.cos_le_cos_of_nonneg_of_le_pi (hr s h1 (le_trans h2 h3)).1 (hr u (le_trans h1 h2) h3).2
      (by nlinarith)
    have := mul_le_mul_of_nonneg_left this hc
    simp only; linarith
  · left; intro s u h1 h2 h3
    have := Real.cos_le_cos_of_nonneg_of_le_pi (hr s h1 (le_trans h2 h3)).1 (hr u (le_trans h1 h2) h3).2
      (by nlinarith)
    have := mul_le_mul_of_nonpos_left this hc
    simp only; linarith
  · left; intro s u h1 h2 h3
    have := Real.cos_le_cos_of_nonneg_of_le_pi (hr u (le_trans h1 h2) h3).1 (hr s h1 (le_trans h2 h3)).2
      (by nlinarith)
    have := mul_le_mul_of_nonneg_left this hc
    simp only; linarith
  · right; intro s u h1 h2 h3
    have := Real.cos_le_cos_of_nonneg_of_le_pi (hr u (le_trans h1 h2) h3).1 (hr s h1 (le_trans h2 h3)).2
      (by nlinarith)
    have := mul_le_mul_of_nonpos_left this hc
    simp only; linarith

/-- a parameter range whose interior avoids the angles `θ₀ + jπ` fits into one half-period -/
theorem angle_window (start sweep θ0 lo hi : ℝ) (hsw : sweep ≠ 0) (hlh : lo ≤ hi)
    (hfree : ∀ s, lo < s → s < hi → ∀ j : ℤ, start + sweep * s ≠ θ0 + j * π) :
    ∃ k : ℤ, ∀ s, lo ≤ s → s ≤ hi →
      0 ≤ (start - θ0 - k * π) + sweep * s ∧ (start - θ0 - k * π) + sweep * s ≤ π := by
  have hπ := Real.pi_pos
  rcases lt_or_gt_of_ne hsw with hneg | hpos
  · -- decreasing angle: the smallest angle is at `hi`
    refine ⟨⌊(start + sweep * hi - θ0) / π⌋, fun s h1 h2 => ?_⟩
    have f1 : ((⌊(start + sweep * hi - θ0) / π⌋ : ℤ) : ℝ) ≤ (start + sweep * hi - θ0) / π := Int.floor_le _
    have f2 : (start + sweep * hi - θ0) / π < (⌊(start + sweep * hi - θ0) / π⌋ : ℝ) + 1 := Int.lt_floor_add_one _
    rw [le_div_iff₀ hπ] at f1
    rw [div_lt_iff₀ hπ] at f2
    have ms : sweep * hi ≤ sweep * s := mul_le_mul_of_nonpos_left h2 (le_of_lt hneg)
    refine ⟨by linarith, ?_⟩
    by_contra hc
    rw [not_le] at hc
    set k := ⌊(start + sweep * hi - θ0) / π⌋ with hk
    -- the parameter at which the angle is θ0 + (k+1)π
    have hs' : start + sweep * ((θ0 + ((k : ℝ) + 1) * π - start) / sweep) = θ0 + ((k + 1 : ℤ) : ℝ) * π := by
      push_cast; field_simp; ring
    have hlt1 : s < (θ0 + ((k : ℝ) + 1) * π - start) / sweep := by
      rw [lt_div_iff_of_neg hneg]; nlinarith
    have hlt2 : (θ0 + ((k : ℝ) + 1) * π - start) / sweep < hi := by
      rw [div_lt_iff_of_neg hneg]; nlinarith
    exact hfree _ (lt_of_le_of_lt h1 hlt1) hlt2 (k + 1) hs'
  · refine ⟨⌊(start + sweep * lo - θ0) / π⌋, fun s h1 h2 => ?_⟩
    have f1 : ((⌊(start + sweep * lo - θ0) / π⌋ : ℤ) : ℝ) ≤ (start + sweep * lo - θ0) / π := Int.floor_le _
    have f2 : (start + sweep * lo - θ0) / π < (⌊(start + sweep * lo - θ0) / π⌋ : ℝ) + 1 := Int.lt_floor_add_one _
    rw [le_div_iff₀ hπ] at f1
    rw [div_lt_iff₀ hπ] at f2
    have ms : sweep * lo ≤ sweep * s := mul_le_mul_of_nonneg_left h1 (le_of_lt hpos)
    refine ⟨by linarith, ?_⟩
    by_contra hc
    rw [not_le] at hc
    set k := ⌊(start + sweep * lo - θ0) / π⌋ with hk
    have hs' : start + sweep * ((θ0 + ((k : ℝ) + 1) * π - start) / sweep) = θ0 + ((k + 1 : ℤ) : ℝ) * π := by
      push_cast; field_simp; ring
    have hlt1 : lo < (θ0 + ((k : ℝ) + 1) * π - start) / sweep := by
      rw [lt_div_iff₀ hpos]; nlinarith
    have hlt2 : (θ0 + ((k : ℝ) + 1) * π - start) / sweep < s := by
      rw [div_lt_iff₀ hpos]; nlinarith
    exact hfree _ hlt1 (lt_of_lt_of_le hlt2 h2) (k + 1) hs'

/-- **The characterisation used by `arc_box_contains`, proved for sinusoids.**  If `θ₀` is a
critical angle of `θ ↦ C + P cos θ + Q sin θ`, this function of the arc parameter is monotone on
every parameter range whose interior avoids the angles `θ₀ + k·2π` and `(π + θ₀) + k·2π`. -/
theorem sinusoid_mono_param (C P Q θ0 start sweep lo hi : ℝ) (h0 : -P * sin θ0 + Q * cos θ0 = 0)
    (hsw : sweep ≠ 0) (hlh : lo ≤ hi)
    (hfree : ∀ s, lo < s → s < hi → ∀ k : ℤ,
      ¬ (start + sweep * s = θ0 + k * (π + π) ∨ start + sweep * s = (π + θ0) + k * (π + π))) :
    MonoOn (fun s => C + (P * cos (start + sweep * s) + Q * sin (start + sweep * s))) lo hi := by
  have hfree' : ∀ s, lo < s → s < hi → ∀ j : ℤ, start + sweep * s ≠ θ0 + j * π := by
    intro s p q j e
    obtain ⟨m, hm | hm⟩ := Int.even_or_odd' j
    · exact hfree s p q m (Or.inl (by rw [e, hm]; push_cast; ring))
    · exact hfree s p q m (Or.inr (by rw [e, hm]; push_cast; ring))
  obtain ⟨k, hk⟩ := angle_window start sweep θ0 lo hi hsw hlh hfree'
  have key : ∀ s, C + (P * cos (start + sweep * s) + Q * sin (start + sweep * s)) =
      C + ((P * cos θ0 + Q * sin θ0) * (-1) ^ k) * cos ((start - θ0 - k * π) + sweep * s) := by
    intro s
    rw [sinusoid_phase P Q θ0 _ h0]
    have : start + sweep * s - θ0 = ((start - θ0 - k * π) + sweep * s) + k * π := by ring
    rw [this, Real.cos_add_int_mul_pi]; ring
  have := cos_comp_mono C ((P * cos θ0 + Q * sin θ0) * (-1) ^ k) (start - θ0 - k * π) sweep lo hi hk
  rcases this with m | m
  · left; intro s u a b c; beta_reduce; rw [key s, key u]; exact m s u a b c
  · right; intro s u a b c; beta_reduce; rw [key s, key u]; exact m s u a b c

/-- `x_ext_angle` is a critical angle of the x-coordinate of the rotated ellipse (`cos φ ≠ 0`) -/
theorem x_ext_angle_critical (arc : Arc ℝ) (hrx : arc.radii.x ≠ 0) (hc : cos arc.xrot ≠ 0) :
    -(arc.radii.x * cos arc.xrot) * sin arc.xExtAngle + (-(arc.radii.y * sin arc.xrot)) * cos arc.xExtAngle = 0 := by
  show -(arc.radii.x * cos arc.xrot) * sin (-(arctan (arc.radii.y * tan arc.xrot / arc.radii.x)))
    + (-(arc.radii.y * sin arc.xrot)) * cos (-(arctan (arc.radii.y * tan arc.xrot / arc.radii.x))) = 0
  rw [Real.sin_neg, Real.cos_neg, Real.sin_arctan, Real.cos_arctan]
  have hs : 0 < √(1 + (arc.radii.y * tan arc.xrot / arc.radii.x) ^ 2) :=
    Real.sqrt_pos.2 (by positivity)
  have ht := Real.tan_mul_cos hc
  field_simp
  linear_combination (arc.radii.y) * ht

/-- `y_ext_angle` is a critical angle of the y-coordinate (`cos φ ≠ 0`, positive radii) -/
theorem y_ext_angle_critical (arc : Arc ℝ) (hrx : 0 < arc.radii.x) (hry : 0 < arc.radii.y)
    (hc : cos arc.xrot ≠ 0) :
    -(arc.radii.x * sin arc.xrot) * sin arc.yExtAngle + (arc.radii.y * cos arc.xrot) * cos arc.yExtAngle = 0 := by
  show -(arc.radii.x * sin arc.xrot) * sin (Atan.atanQuot arc.radii.y (tan arc.xrot * arc.radii.x))
    + (arc.radii.y * cos arc.xrot) * cos (Atan.atanQuot arc.radii.y (tan arc.xrot * arc.radii.x)) = 0
  show -(arc.radii.x * sin arc.xrot) * sin (if tan arc.xrot * arc.radii.x = 0 then
        (if 0 < arc.radii.y then π / 2 else if arc.radii.y < 0 then -(π / 2) else 0)
        else arctan (arc.radii.y / (tan arc.xrot * arc.radii.x)))
    + (arc.radii.y * cos arc.xrot) * cos (if tan arc.xrot * arc.radii.x = 0 then
        (if 0 < arc.radii.y then π / 2 else if arc.radii.y < 0 then -(π / 2) else 0)
        else arctan (arc.radii.y / (tan arc.xrot * arc.radii.x))) = 0
  have ht := Real.tan_mul_cos hc
  by_cases hz : tan arc.xrot * arc.radii.x = 0
  · rw [if_pos hz, if_pos hry, Real.sin_pi_div_two, Real.cos_pi_div_two]
    have htan : tan arc.xrot = 0 := (mul_eq_zero.1 hz).resolve_right (ne_of_gt hrx)
    have hsin : sin arc.xrot = 0 := by rw [← ht, htan, zero_mul]
    rw [hsin]; ring
  · rw [if_neg hz, Real.sin_arctan, Real.cos_arctan]
    have hs : 0 < √(1 + (arc.radii.y / (tan arc.xrot * arc.radii.x)) ^ 2) := Real.sqrt_pos.2 (by positivity)
    have htan : tan arc.xrot ≠ 0 := fun h => hz (by rw [h, zero_mul])
    have hrx' : arc.radii.x ≠ 0 := ne_of_gt hrx
    field_simp
    linear_combination (arc.radii.y) * ht

/-- **The exact bounding box of a real arc contains the arc** — both sweep signs, any rotation
with `cos φ ≠ 0`, positive radii, `0 < |sweep| ≤ 2π`; trigonometry is Mathlib's, nothing assumed. -/
theorem arc_box_contains_real (arc : Arc ℝ) (hrx : 0 < arc.radii.x) (hry : 0 < arc.radii.y)
    (hc : cos arc.xrot ≠ 0) (hs : arc.sweep ≠ 0) (hb : |arc.sweep| ≤ π + π)
    (t : ℝ) (h0 : 0 ≤ t) (h1 : t ≤ 1) : Box.Contains arc.boundingBox (arc.sample t) := by
  refine arc_box_contains real_angle_laws arc hs hb ?_ ?_ t h0 h1
  · intro lo hi _ hlh _ hfree
    have e : ∀ s, (arc.sample s).x = arc.center.x + ((arc.radii.x * cos arc.xrot) * cos (arc.start + arc.sweep * s)
        + (-(arc.radii.y * sin arc.xrot)) * sin (arc.start + arc.sweep * s)) := by
      intro s
      show arc.center.x + (arc.radii.x * cos (arc.start + arc.sweep * s) * cos arc.xrot
        - arc.radii.y * sin (arc.start + arc.sweep * s) * sin arc.xrot) = _
      ring
    have := sinusoid_mono_param arc.center.x (arc.radii.x * cos arc.xrot) (-(arc.radii.y * sin arc.xrot))
      arc.xExtAngle arc.start arc.sweep lo hi (x_ext_angle_critical arc (ne_of_gt hrx) hc) hs hlh hfree
    rcases this with m | m
    · left; intro s u a b c; beta_reduce; rw [e s, e u]; exact m s u a b c
    · right; intro s u a b c; beta_reduce; rw [e s, e u]; exact m s u a b c
  · intro lo hi _ hlh _ hfree
    have e : ∀ s, (arc.sample s).y = arc.center.y + ((arc.radii.x * sin arc.xrot) * cos (arc.start + arc.sweep * s)
        + (arc.radii.y * cos arc.xrot) * sin (arc.start + arc.sweep * s)) := by
      intro s
      show arc.center.y + (arc.radii.y * sin (arc.start + arc.sweep * s) * cos arc.xrot
        + arc.radii.x * cos (arc.start + arc.sweep * s) * sin arc.xrot) = _
      ring
    have := sinusoid_mono_param arc.center.y (arc.radii.x * sin arc.xrot) (arc.radii.y * cos arc.xrot)
      arc.yExtAngle arc.start arc.sweep lo hi (y_ext_angle_critical arc hrx hry hc) hs hlh hfree
    rcases this with m | m
    · left; intro s u a b c; beta_reduce; rw [e s, e u]; exact m s u a b c
    · right; intro s u a b c; beta_reduce; rw [e s, e u]; exact m s u a b c

/-- … and the fast box contains every real arc (`|cos|, |sin| ≤ 1` are facts here) -/
theorem arc_fast_box_contains_real (arc : Arc ℝ) (t : ℝ) :
    Box.Contains arc.fastBoundingBox (arc.sample t) :=
  arc_fast_box_contains arc t (Real.abs_cos_le_one _) (Real.abs_sin_le_one _)

/-- non-vacuity of `arc_box_contains_real`: a rotated quarter-ish arc satisfying all side conditions -/
example : (0:ℝ) < 2 ∧ (0:ℝ) < 1 ∧ cos (0:ℝ) ≠ 0 ∧ (-2:ℝ) ≠ 0 ∧ |(-2:ℝ)| ≤ π + π := by
  refine ⟨by norm_num, by norm_num, by rw [Real.cos_zero]; norm_num, by norm_num, ?_⟩
  rw [abs_of_neg (by norm_num)]; have := Real.pi_gt_three; linarith

end Lyon.C11
