/-
  C07b - C07's record-level theorems lifted to the WHOLE modelled sweep.

  `Props/C07.lean` is about the edge-record operations (`Model/Tess/Sources.lean`); WHICH cut
  happens WHEN was outside it.  Here the object is the complete sweep model
  (`Model/Tess/Sweep.lean` + `EventQueue.lean`, tied bit-exactly to `FillTessellator` by C01's
  families `sweep:32` / `sweepc:32`, which compare every sibling record of every emitted vertex):
  an invariant on the sweep state (`Lemmas/SweepRepInv.lean`: queue records + active edges +
  pending edges + emitted records, on top of the structural well-formedness of the index-linked
  event queue, `Lemmas/SweepRepQueue.lean`) is shown to be preserved by every step function - on
  success and on failure (Hoare triples, `Lemmas/SweepRep{Steps,Active,Recover,Loop}.lean`) - and
  lifted through the fuel-bounded loop.  For every input, every outcome (`ok`, `Err`, `panic`,
  `unmodelled`, out of fuel: the prefix emitted before a failure is what the geometry builder saw).

  a. (discrete, ANY scalar type - `f32` with its NaNs, an ordered field, anything)
     * `sweep_sources_wellformed`      polygonal input, all five entry points: every record listed
                                       with an emitted vertex names endpoint ids handed out by the
                                       queue builder for this input (`u32::MAX` for the entry points
                                       without ids), and its id pair is the id pair of a record the
                                       builder stored (an edge `from → to` of the input, or an
                                       endpoint record `id, id`);
     * `sweep_impl_sources_from_queue` the same for `tessellate_impl` on any structurally well-formed
                                       queue;  `sweep_curves_sources_from_queue` and
                                       `sweep_curves_sources_wellformed` for curved input.
  b. (parameters) `sweep_records_range_partial` / `sweep_records_unit_partial`: every emitted record
     has both ends of its `t`-range in `[0,1]` (in the hull of the input records' ranges) - for every
     run that takes neither the `edge-split-at-vertex` nor the `coincident-split` branch.  ALL of
     `process_intersection` is covered without any hypothesis about the computed intersection:
     `handle_intersections` filters `0 < ta ≤ 1`, `0 < tb < tb_min ≤ 1` itself, so every cut-off part
     (straight, flipped, double flip, snapped by `is_near`, moved by the `next_after` fix-up, the
     intersection-at-current rewrite of `range.start`) gets `remap_t_in_range(t, range)` with `t` in
     `(0,1]` - a convex combination of the ends of the range of the record it descends from
     (`remap_between`).  Snapping changes positions, never parameters.
     `_partial` because of the two split branches.  Until lyon 96af7b62 their parameter `Sources.splitT`
     was NOT confined to `[0,1]` by the tests of the code - `is_edge_connecting` only requires the vertex
     to be within the tolerance of the edge, not between its ends (`split_parameter_not_confined_witness`:
     exact arithmetic, `t = 3/2`) - a genuine defect reachable end to end (`Props/C07c.lean`, finding
     `C07-split-parameter-beyond-edge-end`).  Since the fix (mirrored: `Sources.splitTAtVertex`, the guard
     `endsWithin`) the parameters ARE in `[0,1]` for a split point between the ends of the edge in sweep order
     (`C07c.split_edge_fixed_parameter_unit`, `merge_guard_parameter_unit`; unconditionally on the flat
     branch); the restriction stays because that hypothesis ("an active edge spans the current vertex in y")
     is a sweep invariant not yet proved for every step function.
  c. (positions) NOT lifted to the whole sweep.  In exact arithmetic "the record's position is its source
     edge's point at the reported t" holds where `Props/C07.lean` proves it for the record operations
     (`rep_intersection`, `rep_intersection_below`, `rep_touch`: the cut point is the exact crossing;
     `rep_coincident`, `rep_split_at_vertex`: the vertex is exactly on the edge) and fails by design where
     the code moves a position without moving the parameter or accepts a nearby position: both `is_near`
     snaps and the `next_after` fix-up of `process_intersection` (bits 11, 12, 10), `split_edge` and the
     split of `merge_coincident_edges` for a vertex within the tolerance of - not on - the edge (bits 5, 7).
     Lifting the exact cases needs, beyond this file's invariant: a ghost source edge per record, the
     position of every queue index (the link updates keep them), that siblings share their position
     (sortedness of the index-linked list), that an active edge's `src_edge` is not shared when
     `process_intersection` rewrites `range.start` (bit 9), and `Seg.intersectionT`'s exactness
     (C12) through the loop of `handle_intersections`.
-/
import LyonVerif.Lemmas.SweepRepLoop
import LyonVerif.Lemmas.SweepRepBuild
import LyonVerif.Lemmas.SweepIdxZ
import LyonVerif.Props.C07
import LyonVerif.Lemmas.IxField
import LyonVerif.Model.RatScalar

set_option linter.unusedSectionVars false
set_option linter.unusedVariables false
set_option linter.unusedSimpArgs false

namespace Lyon.C07b
open Lyon Lyon.Scalar Lyon.Sweep Lyon.EQ Lyon.SweepRep

/-! ## a. endpoint ids (any scalar type) -/

section discrete
variable {α : Type} [Scalar α] [Wide α]

/-- `d` is a record listed with some emitted vertex (`FillVertex::sources()` reads exactly these) -/
def Emitted (out : Array (Emit α)) (d : EdgeData α) : Prop :=
  ∃ pos recs p, Emit.vertex pos recs ∈ out ∧ (p, d) ∈ recs

theorem closure_true : Closure (fun _ : α => True) (fun _ : α => True) := ⟨fun _ _ _ _ _ _ => trivial⟩

theorem wclosure_true : WClosure (α := α) (fun _ => True) (fun _ => True) :=
  ⟨trivial, fun _ _ _ _ => trivial, fun _ _ => trivial, fun _ _ _ => trivial⟩

/-- the general form for polygonal input: whatever predicate `IdP` on id pairs and `U` on parameters
holds for the records the queue builder stored (with `Closure` / `WClosure`: remapping a parameter
satisfying `V` stays in `U`, `handle_intersections`' filter implies `V`), holds for every emitted
record - the `U` part unless the run is tainted by a split branch -/
theorem tessellate_records (IdP : Nat → Nat → Prop) (U V : α → Prop) (M : Wide.W α → Prop) (hcl : Closure U V)
    (hw : WClosure V M) (entry : Entry) (rule : Slab.Rule) (horizontal : Bool) (tol : α) (handleIx : Bool)
    (subs : List (SubPath α))
    (hd : ∀ d ∈ (buildQueue entry horizontal subs).edgeData, DOk IdP U d) :
    OutOkR IdP U (tessellate entry rule horizontal tol handleIx subs).2.2
      (tessellate entry rule horizontal tol handleIx subs).2.1 := by
  unfold tessellate
  dsimp only
  split
  · intro p r hm; simp at hm
  · have hq0 : QOk (buildQueue entry horizontal subs) := by unfold buildQueue; exact qok_ofRecs _
    have hs := qok_sort hq0
    apply tessellateImpl_records IdP U hcl hw _ hs.1
    intro i hi
    have hi' : i < (buildQueue entry horizontal subs).edgeData.size := by rw [← hs.2.1]; exact hi
    have : (buildQueue entry horizontal subs).sort.edgeData[i] = (buildQueue entry horizontal subs).edgeData[i] := by
      simp [hs.2.1]
    rw [this]
    exact hd _ (Array.getElem_mem hi')

theorem emitted_of_outOkR {IdP : Nat → Nat → Prop} {U : α → Prop} {c : Nat} {out : Array (Emit α)}
    (h : OutOkR IdP U c out) {d : EdgeData α} (hd : Emitted out d) : DOk IdP (Uc U c) d := by
  obtain ⟨pos, recs, p, hm, hr⟩ := hd
  exact h pos recs hm (p, d) hr

/-- **`sweep_sources_wellformed`** - every record listed with a vertex emitted by the modelled
`FillTessellator` on polygonal input (any of the five entry points, any fill rule, orientation,
tolerance, with or without intersection handling; any outcome) names endpoint ids that exist in the
input: `from_id` and `to_id` are ids the entry point handed to the queue builder for this very input
(`IdOk`: a member of `handedOut entry subs`; for the entry points without ids, `u32::MAX`), and the
pair `(from_id, to_id)` is the id pair of a record the builder stored for this input - an input edge
`from → to` (`is_edge`) or the endpoint record of a vertex (`from_id = to_id`).  Splits,
intersections and merges only ever copy the pair from an existing record. -/
theorem sweep_sources_wellformed (entry : Entry) (rule : Slab.Rule) (horizontal : Bool) (tol : α) (handleIx : Bool)
    (subs : List (SubPath α)) (d : EdgeData α)
    (hd : Emitted (tessellate entry rule horizontal tol handleIx subs).2.1 d) :
    IdOk entry subs d.fromId ∧ IdOk entry subs d.toId ∧
    ∃ d0 ∈ (buildQueue entry horizontal subs).edgeData, d0.fromId = d.fromId ∧ d0.toId = d.toId := by
  have h := tessellate_records
    (fun f t => IdOk entry subs f ∧ IdOk entry subs t ∧
      ∃ d0 ∈ (buildQueue entry horizontal subs).edgeData, d0.fromId = f ∧ d0.toId = t)
    (fun _ : α => True) (fun _ => True) (fun _ => True) closure_true wclosure_true entry rule horizontal tol handleIx subs
    (by
      intro d0 hd0
      have := buildQueue_recs (U := fun _ : α => True) entry horizontal subs trivial trivial d0 hd0
      exact ⟨⟨this.1, this.2.1, d0, hd0, rfl, rfl⟩, trivial, trivial⟩)
  exact (emitted_of_outOkR h hd).1

/-- **the same for `tessellate_impl` on ANY structurally well-formed event queue** (sorted or not): the
id pair of every emitted record is the id pair of a record of the queue -/
theorem sweep_impl_sources_from_queue (q : Queue α) (hq : QOk q) (rule : Slab.Rule) (horizontal : Bool) (tol : α)
    (handleIx : Bool) (d : EdgeData α) (hd : Emitted (tessellateImpl q rule horizontal tol handleIx).2.1 d) :
    ∃ d0 ∈ q.edgeData, d0.fromId = d.fromId ∧ d0.toId = d.toId := by
  have h := tessellateImpl_records (fun f t => ∃ d0 ∈ q.edgeData, d0.fromId = f ∧ d0.toId = t)
    (fun _ : α => True) closure_true wclosure_true q hq
    (fun i hi => ⟨⟨_, Array.getElem_mem hi, rfl, rfl⟩, trivial, trivial⟩) rule horizontal tol handleIx
  exact (emitted_of_outOkR h hd).1

/-- **curved input** (`SweepCurves.tessellate`: quadratic / cubic edges flattened inside the queue
builder, all id modes): the id pair of every emitted record is the id pair of a record the builder
stored - for a piece of a flattened curve that is the pair `prev_endpoint_id → to_id` of the curve -/
theorem sweep_curves_sources_from_queue [Transc α] [FlatConst α] (mode : SweepCurves.IdMode) (rule : Slab.Rule)
    (horizontal : Bool) (tol : α) (handleIx : Bool) (cmds : List (SweepCurves.Cmd α)) (d : EdgeData α)
    (hd : Emitted (SweepCurves.tessellate mode rule horizontal tol handleIx cmds).1.2.1 d) :
    ∃ q0 ids, SweepCurves.buildQueue mode horizontal tol cmds = some (q0, ids) ∧
      ∃ d0 ∈ q0.edgeData, d0.fromId = d.fromId ∧ d0.toId = d.toId := by
  unfold SweepCurves.tessellate at hd
  split at hd
  · obtain ⟨_, _, _, hm, _⟩ := hd; simp at hm
  · rename_i q0 ids hb
    dsimp only at hd
    split at hd
    · obtain ⟨_, _, _, hm, _⟩ := hd; simp at hm
    · refine ⟨q0, ids, hb, ?_⟩
      have hq0 : QOk q0 := by
        unfold SweepCurves.buildQueue at hb
        cases hf : SweepCurves.feedAll mode horizontal tol cmds ⟨Sources.Builder.init, {}, ⟨zero, zero⟩, #[]⟩ with
        | none => simp [hf] at hb
        | some f =>
          simp only [hf, Option.map_some, Option.some.injEq, Prod.mk.injEq] at hb
          rw [← hb.1]; exact qok_ofRecs _
      have hs := qok_sort hq0
      obtain ⟨d0, hd0, e⟩ := sweep_impl_sources_from_queue q0.sort hs.1 rule horizontal tol handleIx d hd
      exact ⟨d0, hs.2.1 ▸ hd0, e⟩

/-- **curved input, ids handed out**: for a command list that starts a sub-path with `begin` (path events
and `FillBuilder` calls always do), both ids of every emitted record are `u32::MAX` or endpoint ids the
entry point handed out (`SweepCurves.tessellate` returns them in command order) -/
theorem sweep_curves_sources_wellformed [Transc α] [FlatConst α] (mode : SweepCurves.IdMode) (rule : Slab.Rule)
    (horizontal : Bool) (tol : α) (handleIx : Bool) (cmds : List (SweepCurves.Cmd α))
    (hw : startsWithBegin cmds = true) (d : EdgeData α)
    (hd : Emitted (SweepCurves.tessellate mode rule horizontal tol handleIx cmds).1.2.1 d) :
    CS (SweepCurves.tessellate mode rule horizontal tol handleIx cmds).2 d.fromId ∧
    CS (SweepCurves.tessellate mode rule horizontal tol handleIx cmds).2 d.toId := by
  obtain ⟨q0, ids, hb, d0, hd0, e1, e2⟩ := sweep_curves_sources_from_queue mode rule horizontal tol handleIx cmds d hd
  have hids : (SweepCurves.tessellate mode rule horizontal tol handleIx cmds).2 = ids := by
    unfold SweepCurves.tessellate
    rw [hb]
    dsimp only
    split <;> rfl
  rw [hids, ← e1, ← e2]
  exact curves_buildQueue_recs mode horizontal tol cmds hw q0 ids hb d0 hd0

end discrete

/-! ## b. parameter ranges -/

section ranges
variable {α : Type} [Scalar α] [Wide α]

/-- the run took a branch whose split parameter is not confined by the code: coverage bit 5
(`edge-split-at-vertex`, `split_edge` in `process_edges_above`) or bit 7 (`coincident-split`,
`merge_coincident_edges`) -/
abbrev Tainted (cov : Nat) : Prop := Tnt cov

/-- **`sweep_records_range_partial`** (abstract form, any scalar type; the laws used are the
hypotheses): if `U` holds for `0`, `1` (the builder's parameters), remapping a cut parameter
satisfying `V` keeps `U` (`Closure`) and the filter of `handle_intersections` implies `V`
(`WClosure`), then both ends of the `t`-range of every record emitted by the modelled sweep on
polygonal input satisfy `U` - unless the run is `Tainted`.

`_partial`: runs through `split_edge` / the split of `merge_coincident_edges` are excluded
(see `split_parameter_not_confined_witness`). -/
theorem sweep_records_range_partial (U V : α → Prop) (M : Wide.W α → Prop) (hcl : Closure U V) (hw : WClosure V M)
    (hz : U (zero : α)) (ho : U (one : α))
    (entry : Entry) (rule : Slab.Rule) (horizontal : Bool) (tol : α) (handleIx : Bool)
    (subs : List (SubPath α)) (d : EdgeData α)
    (hd : Emitted (tessellate entry rule horizontal tol handleIx subs).2.1 d)
    (hclean : ¬ Tainted (tessellate entry rule horizontal tol handleIx subs).2.2) :
    U d.t0 ∧ U d.t1 := by
  have h := tessellate_records (fun _ _ => True) U V M hcl hw entry rule horizontal tol handleIx subs
    (by
      intro d0 hd0
      have := buildQueue_recs (U := U) entry horizontal subs hz ho d0 hd0
      exact ⟨trivial, this.2.2.1, this.2.2.2⟩)
  have := emitted_of_outOkR h hd
  exact ⟨this.2.1.resolve_left hclean, this.2.2.resolve_left hclean⟩

/-- the same for `tessellate_impl` on any well-formed queue whose records satisfy `U` (curved input:
`U` has to hold for the flattening parameters the builder stored) -/
theorem sweep_impl_records_range_partial (U V : α → Prop) (M : Wide.W α → Prop) (hcl : Closure U V) (hw : WClosure V M)
    (q : Queue α) (hq : QOk q) (hU : ∀ d0 ∈ q.edgeData, U d0.t0 ∧ U d0.t1)
    (rule : Slab.Rule) (horizontal : Bool) (tol : α) (handleIx : Bool) (d : EdgeData α)
    (hd : Emitted (tessellateImpl q rule horizontal tol handleIx).2.1 d)
    (hclean : ¬ Tainted (tessellateImpl q rule horizontal tol handleIx).2.2) :
    U d.t0 ∧ U d.t1 := by
  have h := tessellateImpl_records (fun _ _ => True) U hcl hw q hq
    (fun i hi => ⟨trivial, hU _ (Array.getElem_mem hi)⟩) rule horizontal tol handleIx
  have := emitted_of_outOkR h hd
  exact ⟨this.2.1.resolve_left hclean, this.2.2.resolve_left hclean⟩

open Std.Do in
/-- **`process_intersection` keeps the record invariant, every branch** (Hoare triple on the model's step
function; postcondition on success AND on failure): given cut parameters satisfying `V` and a pending
edge that is fine, afterwards the state invariant holds and the returned pending edge is fine -/
theorem process_intersection_keeps_records (IdP : Nat → Nat → Prop) (U V : α → Prop) (hcl : Closure U V)
    (ta tb : Wide.W α) (aei : Nat) (eb0 : PendingEdge α) (belowSeg : Seg (Wide.W α)) :
    ⦃fun s => ⌜SInv IdP U s ∧ BOk (Uc U s.cov) s.q.edgeData.size eb0 ∧ V (Wide.narrow ta) ∧ V (Wide.narrow tb)⌝⦄
    (processIntersection ta tb aei eb0 belowSeg : SM α (PendingEdge α))
    ⦃post⟨fun r s => ⌜SInv IdP U s ∧ BOk (Uc U s.cov) s.q.edgeData.size r⌝, fun _ s => ⌜SInv IdP U s⌝⟩⦄ :=
  processIntersection_spec IdP U hcl ta tb aei eb0 belowSeg

open Std.Do in
/-- **`handle_intersections` keeps the record invariant with NO hypothesis on the intersection routine**:
whatever `Seg.intersectionT` returns, the filter `tb < tb_min ∧ tb > 0 ∧ ta > 0 ∧ ta ≤ 1` of the loop
(with `tb_min` starting at `1`) hands `process_intersection` parameters satisfying `V` -/
theorem handle_intersections_keeps_records (IdP : Nat → Nat → Prop) (U V : α → Prop) (M : Wide.W α → Prop)
    (hcl : Closure U V) (hw : WClosure V M) (skipS skipE : Nat) :
    ⦃fun s => ⌜SInv IdP U s⌝⦄ (handleIntersectionsStep skipS skipE : SM α Unit)
    ⦃post⟨fun _ s => ⌜SInv IdP U s⌝, fun _ s => ⌜SInv IdP U s⌝⟩⦄ :=
  handleIntersectionsStep_spec IdP U hcl hw skipS skipE

end ranges

/-! ### the laws, over a linearly ordered field -/

section field
variable {K : Type} [Field K] [LinearOrder K] [IsStrictOrderedRing K]

/-- `remap_t_in_range(t, s..e)` with `t` in `[0,1]` lies between `s` and `e` (either orientation of
the range): the range of a record created by a cut lies in the range of the record it descends from -/
theorem remap_between (t s e : K) (h0 : 0 ≤ t) (h1 : t ≤ 1) :
    Min.min s e ≤ Sources.remapT t s e ∧ Sources.remapT t s e ≤ Max.max s e := by
  rw [C07.remapT_eq]
  rcases le_total s e with hse | hse
  · rw [min_eq_left hse, max_eq_right hse]
    constructor <;> nlinarith
  · rw [min_eq_right hse, max_eq_left hse]
    constructor <;> nlinarith

/-- parameters in `[lo, hi]` are kept by remapping with a cut parameter in `[0,1]` -/
theorem closure_interval (lo hi : K) :
    Closure (fun t : K => lo ≤ t ∧ t ≤ hi) (fun v : K => 0 ≤ v ∧ v ≤ 1) := by
  refine ⟨fun v s e hv hs he => ?_⟩
  have := remap_between v s e hv.1 hv.2
  exact ⟨le_trans (le_min hs.1 he.1) this.1, le_trans this.2 (max_le hs.2 he.2)⟩

/-- the canonical wide type over a field: the field itself (`f64 ⊇ f32` without rounding); the
remaining members are parameters (they are not used by the record theorems) -/
@[reducible] noncomputable def fieldWide (fmin eps : K) (nextUp sqrt : K → K) : Wide K where
  W := K
  scalarW := inferInstance
  sgnW := inferInstance
  widen := id
  narrow := id
  nextUp := nextUp
  fmin := fmin
  isNaN := fun _ => false
  sqrt := sqrt
  eps := eps

/-- what the range theorem needs from a `Wide K` instance: the wide type's `<`, `≤` are transitive
enough to inherit "at most one" and narrowing maps `(0, 1]` into `[0,1]` (monotone rounding that
fixes `0` and `1` - `f64 → f32` - does; the identity does) -/
def WideLaws (w : Wide K) : Prop :=
  ∃ M : w.W → Prop, @WClosure K w (fun v : K => 0 ≤ v ∧ v ≤ 1) M

theorem fieldWide_laws (fmin eps : K) (nextUp sqrt : K → K) :
    WideLaws (fieldWide fmin eps nextUp sqrt) := by
  refine Exists.intro (fun w : K => w ≤ 1) (@WClosure.mk K (fieldWide fmin eps nextUp sqrt) _ _ ?_ ?_ ?_ ?_)
  · show (Scalar.one : K) ≤ 1
    rw [C07.one_K]
  · intro (a : K) (b : K) (hab : a < b) (hb : b ≤ 1)
    exact le_trans (le_of_lt hab) hb
  · intro (a : K) (ha : a ≤ (Scalar.one : K))
    rw [C07.one_K] at ha
    exact ha
  · intro (w : K) (h0 : (Scalar.zero : K) < w) (h1 : w ≤ 1)
    rw [C07.zero_K] at h0
    exact ⟨le_of_lt h0, h1⟩

/-- **`sweep_records_unit_partial`** - over a linearly ordered field (exact arithmetic, exact
comparisons), for every polygonal input, every entry point, fill rule, orientation, tolerance, with
or without intersection handling and for every outcome: every record listed with an emitted vertex
has `0 ≤ range.start ≤ 1` and `0 ≤ range.end ≤ 1` (either orientation: an upward edge is stored with
the range `1..0`) - for every run that takes neither split branch.  No hypothesis about the computed
intersection parameters is needed. -/
theorem sweep_records_unit_partial [w : Wide K] (hW : WideLaws w)
    (entry : Entry) (rule : Slab.Rule) (horizontal : Bool) (tol : K) (handleIx : Bool)
    (subs : List (SubPath K)) (d : EdgeData K)
    (hd : Emitted (tessellate entry rule horizontal tol handleIx subs).2.1 d)
    (hclean : ¬ Tainted (tessellate entry rule horizontal tol handleIx subs).2.2) :
    (0 ≤ d.t0 ∧ d.t0 ≤ 1) ∧ (0 ≤ d.t1 ∧ d.t1 ≤ 1) := by
  obtain ⟨M, hw⟩ := hW
  exact sweep_records_range_partial (fun t : K => 0 ≤ t ∧ t ≤ 1) (fun v : K => 0 ≤ v ∧ v ≤ 1) M
    (closure_interval 0 1) hw (by simp) (by simp) entry rule horizontal tol handleIx subs d hd hclean

/-- **the range of a descendant lies in the hull of the input ranges** (`tessellate_impl` on any
well-formed queue, e.g. the queue of a curved path whose flattening parameters lie in `[lo, hi]`) -/
theorem sweep_impl_records_hull_partial [w : Wide K] (hW : WideLaws w) (lo hi : K)
    (q : Queue K) (hq : QOk q) (hU : ∀ d0 ∈ q.edgeData, (lo ≤ d0.t0 ∧ d0.t0 ≤ hi) ∧ (lo ≤ d0.t1 ∧ d0.t1 ≤ hi))
    (rule : Slab.Rule) (horizontal : Bool) (tol : K) (handleIx : Bool) (d : EdgeData K)
    (hd : Emitted (tessellateImpl q rule horizontal tol handleIx).2.1 d)
    (hclean : ¬ Tainted (tessellateImpl q rule horizontal tol handleIx).2.2) :
    (lo ≤ d.t0 ∧ d.t0 ≤ hi) ∧ (lo ≤ d.t1 ∧ d.t1 ≤ hi) := by
  obtain ⟨M, hw⟩ := hW
  exact sweep_impl_records_range_partial (fun t : K => lo ≤ t ∧ t ≤ hi) (fun v : K => 0 ≤ v ∧ v ≤ 1) M
    (closure_interval lo hi) hw q hq hU rule horizontal tol handleIx d hd hclean

/-! ### the two split branches -/

/-- the split parameter is in `[0,1]` when the split point lies between the ends of the edge along
the larger extent of the edge (in particular for a point exactly on a non-degenerate edge) -/
theorem splitT_unit (a b c : P K) (hne : a ≠ b)
    (hx : |b.y - a.y| < |b.x - a.x| → (a.x ≤ c.x ∧ c.x ≤ b.x) ∨ (b.x ≤ c.x ∧ c.x ≤ a.x))
    (hy : ¬ |b.y - a.y| < |b.x - a.x| → (a.y ≤ c.y ∧ c.y ≤ b.y) ∨ (b.y ≤ c.y ∧ c.y ≤ a.y)) :
    0 ≤ Sources.splitT a b c ∧ Sources.splitT a b c ≤ 1 := by
  unfold Sources.splitT
  split
  · rename_i h
    have h' : |b.y - a.y| < |b.x - a.x| := h
    have hd : b.x - a.x ≠ 0 := by
      intro h0; rw [h0, abs_zero] at h'; exact absurd h' (not_lt.mpr (abs_nonneg _))
    unfold Sources.solveTForX
    have hz : ¬ ((b.x - a.x == (Scalar.zero : K)) = true) := by
      rw [C07.zero_K]; intro hh; exact hd ((sc_beq _ _).mp hh)
    rw [if_neg hz]
    rcases hx h' with ⟨h1, h2⟩ | ⟨h1, h2⟩
    · have hp : 0 < b.x - a.x := lt_of_le_of_ne (by linarith) (Ne.symm hd)
      exact ⟨div_nonneg (by linarith) hp.le, (div_le_one hp).mpr (by linarith)⟩
    · have hn : b.x - a.x < 0 := lt_of_le_of_ne (by linarith) hd
      exact ⟨div_nonneg_of_nonpos (by linarith) hn.le, (div_le_one_of_neg hn).mpr (by linarith)⟩
  · rename_i h
    have h' : ¬ |b.y - a.y| < |b.x - a.x| := h
    have hd : b.y - a.y ≠ 0 := by
      intro h0
      rw [h0, abs_zero] at h'
      have hx0 : b.x - a.x = 0 := by
        by_contra hx0; exact h' (abs_pos.mpr hx0)
      exact hne (P.ext' (by linarith) (by linarith))
    unfold Sources.solveTForY
    have hz : ¬ ((b.y - a.y == (Scalar.zero : K)) = true) := by
      rw [C07.zero_K]; intro hh; exact hd ((sc_beq _ _).mp hh)
    rw [if_neg hz]
    rcases hy h' with ⟨h1, h2⟩ | ⟨h1, h2⟩
    · have hp : 0 < b.y - a.y := lt_of_le_of_ne (by linarith) (Ne.symm hd)
      exact ⟨div_nonneg (by linarith) hp.le, (div_le_one hp).mpr (by linarith)⟩
    · have hn : b.y - a.y < 0 := lt_of_le_of_ne (by linarith) hd
      exact ⟨div_nonneg_of_nonpos (by linarith) hn.le, (div_le_one_of_neg hn).mpr (by linarith)⟩

/-- the record `split_edge` pushes for the lower part (`{src with range.start := remap(splitT ..)}`)
and the record `merge_coincident_edges` inserts keep the range discipline whenever their split
parameter is in `[0,1]` -/
theorem split_records_range (lo hi t s e : K) (ht : 0 ≤ t ∧ t ≤ 1) (hs : lo ≤ s ∧ s ≤ hi) (he : lo ≤ e ∧ e ≤ hi) :
    lo ≤ Sources.remapT t s e ∧ Sources.remapT t s e ≤ hi :=
  (closure_interval lo hi).remap t s e ht hs he

end field

/-! ## witness and non-vacuity: kernel-evaluated runs of the model (exact rationals; exact integers) -/

section examples
open Lyon.SweepIdx (Z pz outcome)
attribute [local instance 2000] Lyon.instScalarRat

/-- exact rationals as the sweep's scalar AND wide type (computable: the kernel can run the model) -/
instance ratWide : Wide Rat where
  W := Rat
  scalarW := inferInstance
  sgnW := ⟨fun x => if x < 0 then -1 else 1⟩
  widen := id
  narrow := id
  nextUp a := a + 1 / 1000000
  fmin := -1000000000000
  isNaN := fun _ => false
  sqrt a := ((Nat.sqrt (a * 1000000).floor.toNat : Nat) : Rat) / 1000
  eps := 0

def pq (x y : Int) : P Rat := ⟨(x : Rat), (y : Rat)⟩

/-- the id pairs of the records emitted by a run, vertex by vertex -/
def idPairs {α : Type} (out : Array (Emit α)) : List (List (Nat × Nat)) :=
  out.toList.filterMap fun e =>
    match e with
    | .vertex _ recs => some (recs.map fun r => (r.2.fromId, r.2.toId))
    | .tri _ _ _ => none

/-- the `t`-ranges of the records emitted by a run, vertex by vertex -/
def ranges (out : Array (Emit Rat)) : List (List (Rat × Rat)) :=
  out.toList.filterMap fun e =>
    match e with
    | .vertex _ recs => some (recs.map fun r => (r.2.t0, r.2.t1))
    | .tri _ _ _ => none

/-- a state of the sweep in which the vertex `(10, 5)` is within the threshold `0.1` of the short
active edge `(9.97, 4.99) → (9.99, 5.005)` (record 0, range `0..1`, ids `7 → 8`) but beyond its lower
end in `x` -/
def witnessState : St Rat := {
  q := Queue.empty.pushUnsorted ⟨997/100, 499/100⟩ ⟨⟨999/100, 1001/200⟩, 0, 1, 1, true, 7, 8⟩
  curPos := ⟨10, 5⟩, curVertex := 1, curEvent := INVALID,
  active := #[⟨⟨997/100, 499/100⟩, ⟨999/100, 1001/200⟩, 1, false, 0, 0, 1⟩],
  below := #[], spans := #[], pool := [], rule := .nonZero, horizontal := false, tolerance := 1/10,
  handleIntersections := true, out := #[], nverts := 2 }

/-- **`split_parameter_not_confined_witness`** (exact rational arithmetic, the model's own functions
evaluated by the kernel): `is_edge_connecting` accepts the vertex `(10, 5)` as lying on the active edge
`(9.97, 4.99) → (9.99, 5.005)` - it is `0.017` to the right of the edge, within the threshold `0.1` - and
puts the edge into `edges_to_split`; the split parameter along the larger (`x`) extent, `Sources.splitT`, is
`t = 3/2`: outside `[0,1]`.  Until lyon 96af7b62 `split_edge` pushed the record of the lower part with
`range.start = remap(3/2, 0..1) = 3/2` (this theorem's third clause then read `some (3/2, 1, 7, 8)`; complete
runs reaching such parameters: `Props/C07c.lean`, finding `C07-split-parameter-beyond-edge-end`).  SINCE the
fix (`Sources.splitTAtVertex`, mirrored in `Sweep.splitEdge`) the x-parameter is only used when it is in
`[0,1]`; here `split_edge` falls back to the parameter at the vertex's own y, `(5 - 4.99)/0.015 = 2/3`, and
pushes `range.start = 2/3` with the ids `7 → 8` of the source record.  The run is still marked `Tainted`
(bit 5): the range theorems below keep excluding the split branches, because on the y-branch the parameter
is in `[0,1]` only for an active edge that spans the current vertex in sweep order, which is not proved as an
invariant of the sweep (see `Props/C07c.lean`). -/
theorem split_parameter_not_confined_witness :
    (match witnessState.active[0]? with
     | some e => (match isEdgeConnecting witnessState.curPos witnessState.tolerance e with
                  | .ok (true, true) => true
                  | _ => false)
     | none => false) = true ∧
    Sources.splitT (⟨997/100, 499/100⟩ : P Rat) ⟨999/100, 1001/200⟩ ⟨10, 5⟩ = 3/2 ∧
    (((splitEdge 0).run.run witnessState).2.q.edgeData.back?.map fun d => (d.t0, d.t1, d.fromId, d.toId))
      = some (2/3, 1, 7, 8) ∧
    Tainted ((splitEdge 0).run.run witnessState).2.cov := by
  refine ⟨by decide +kernel, by decide +kernel, by decide +kernel, ?_⟩
  left
  decide +kernel

/-- the state invariant (precondition of the step triples) holds in that state - with an active edge and a
stored record - and `split_edge` leaves it only through the taint -/
example : SInv (fun f t => f = 7 ∧ t = 8) (fun t : Rat => 0 ≤ t ∧ t ≤ 1) witnessState := by
  refine ⟨qok_pushUnsorted qok_empty _ _, Or.inl rfl, ?_, ?_, all_empty, ?_⟩
  · intro i hi
    have hi' : i < 1 := hi
    have h0 : i = 0 := by omega
    subst h0
    exact ⟨⟨rfl, rfl⟩, Or.inr (by show (0 : Rat) ≤ 0 ∧ (0 : Rat) ≤ 1; decide +kernel),
      Or.inr (by show (0 : Rat) ≤ 1 ∧ (1 : Rat) ≤ 1; decide +kernel)⟩
  · intro e he
    have : e = ⟨⟨997/100, 499/100⟩, ⟨999/100, 1001/200⟩, 1, false, 0, 0, 1⟩ := by
      simpa [witnessState] using he
    subst this
    exact ⟨by decide, Or.inr (by decide +kernel)⟩
  · intro p r hm
    simp [witnessState] at hm

/-- the laws hold for the computable rational instance too -/
theorem closure_rat : Closure (fun t : Rat => 0 ≤ t ∧ t ≤ 1) (fun v : Rat => 0 ≤ v ∧ v ≤ 1) := by
  refine ⟨fun v s e hv hs he => ?_⟩
  have h1 : Sources.remapT v s e = if s < e then s + v * (e - s) else e + (1 - v) * (s - e) := by
    unfold Sources.remapT
    rfl
  rw [h1]
  obtain ⟨v0, v1⟩ := hv
  obtain ⟨s0, s1⟩ := hs
  obtain ⟨e0, e1⟩ := he
  split
  · constructor <;> nlinarith
  · constructor <;> nlinarith

theorem wclosure_rat : WClosure (α := Rat) (fun v : Rat => 0 ≤ v ∧ v ≤ 1) (fun w : Rat => w ≤ 1) := by
  refine ⟨?_, ?_, ?_, ?_⟩
  · show ((1 : Nat) : Rat) ≤ 1
    simp
  · intro (a : Rat) (b : Rat) (hab : a < b) (hb : b ≤ 1)
    exact le_trans (le_of_lt hab) hb
  · intro (a : Rat) (ha : a ≤ ((1 : Nat) : Rat))
    show a ≤ 1
    simpa using ha
  · intro (w : Rat) (h0 : ((0 : Nat) : Rat) < w) (h1 : w ≤ 1)
    show (0 : Rat) ≤ w ∧ w ≤ 1
    exact ⟨le_of_lt (by simpa using h0), h1⟩

/-- **non-vacuity of a. and b.**: two crossing triangles through `tessellate_with_ids`, exact rationals.
The run is `ok`, takes the intersection branches (bits 8, 16) but no split branch; the six crossing
vertices list BOTH source edges; all ids are handed-out ids (`0 1 2` for the first sub-path, `4 5 6`
for the second: a closed sub-path stores its first point once more); all parameters are in `[0,1]`
(upward edges carry the range `1..0`) -/
example :
    let subs : List (SubPath Rat) := [([pq 0 0, pq 40 0, pq 20 40], true), ([pq 0 30, pq 20 (-10), pq 40 30], true)]
    let r := tessellate .ids .nonZero false (1 : Rat) true subs
    r.1.isNone = true ∧ handedOut .ids subs = [0, 1, 2, 4, 5, 6] ∧ ¬ Tainted r.2.2 ∧ r.2.2.testBit 8 = true ∧
    idPairs r.2.1 = [[(4, 5), (5, 6)], [(0, 1), (2, 0)], [(4, 5), (0, 1)], [(5, 6), (0, 1)], [(1, 2)], [(2, 0), (4, 5)],
      [(5, 6), (1, 2)], [(6, 4)], [(2, 0), (6, 4)], [(1, 2), (6, 4)], [(6, 6)], [(2, 2)]] ∧
    ranges r.2.1 = [[(1, 0), (0, 1)], [(0, 1), (1, 0)], [(3 / 4, 0), (3 / 8, 1)], [(1 / 4, 1), (5 / 8, 1)], [(0, 1)],
      [(5 / 8, 0), (3 / 8, 0)], [(5 / 8, 1), (3 / 8, 1)], [(1, 0)], [(1 / 4, 0), (5 / 8, 0)], [(3 / 4, 1), (3 / 8, 0)],
      [(0, 0)], [(0, 0)]] := by
  refine ⟨by decide +kernel, by decide +kernel, ?_, by decide +kernel, by decide +kernel, by decide +kernel⟩
  intro h
  rcases h with h | h <;> revert h <;> decide +kernel

/-- `Emitted` is inhabited on that run: the first vertex lists the record of the edge `4 → 5` -/
example : ∃ d : EdgeData Rat, Emitted (tessellate .ids .nonZero false (1 : Rat) true
    [([pq 0 0, pq 40 0, pq 20 40], true), ([pq 0 30, pq 20 (-10), pq 40 30], true)]).2.1 d ∧ d.fromId = 4 ∧ d.toId = 5 := by
  have key : (match (tessellate .ids .nonZero false (1 : Rat) true
      [([pq 0 0, pq 40 0, pq 20 40], true), ([pq 0 30, pq 20 (-10), pq 40 30], true)]).2.1[0]? with
    | some (Emit.vertex _ ((_, d) :: _)) => d.fromId == 4 && d.toId == 5
    | _ => false) = true := by decide +kernel
  split at key
  · rename_i pos p d rest h
    simp only [Bool.and_eq_true, beq_iff_eq] at key
    exact ⟨d, ⟨pos, _, p, SweepIdx.mem_of_getElem? h, List.mem_cons_self ..⟩, key.1, key.2⟩
  · cases key

/-- the range theorem applied to that run (hypotheses discharged: the laws by `closure_rat` /
`wclosure_rat`, the run is not tainted) -/
example (d : EdgeData Rat)
    (hd : Emitted (tessellate .ids .nonZero false (1 : Rat) true
      [([pq 0 0, pq 40 0, pq 20 40], true), ([pq 0 30, pq 20 (-10), pq 40 30], true)]).2.1 d) :
    (0 ≤ d.t0 ∧ d.t0 ≤ 1) ∧ (0 ≤ d.t1 ∧ d.t1 ≤ 1) := by
  refine sweep_records_range_partial (fun t : Rat => 0 ≤ t ∧ t ≤ 1) (fun v : Rat => 0 ≤ v ∧ v ≤ 1) (fun w : Rat => w ≤ 1)
    closure_rat wclosure_rat ?_ ?_ _ _ _ _ _ _ d hd ?_
  · show (0 : Rat) ≤ ((0 : Nat) : Rat) ∧ ((0 : Nat) : Rat) ≤ 1
    simp
  · show (0 : Rat) ≤ ((1 : Nat) : Rat) ∧ ((1 : Nat) : Rat) ≤ 1
    simp
  · intro h
    rcases h with h | h <;> revert h <;> decide +kernel

/-- the same input on the integer scalar `Z` (integer division: intersections are not found, the run
recovers from an order error and splits an edge at a vertex): tainted, and still every id is a
handed-out id - the id theorem needs no arithmetic law -/
example :
    let subs : List (SubPath Z) := [([pz 0 0, pz 40 0, pz 20 40], true), ([pz 0 30, pz 20 (-10), pz 40 30], true)]
    let r := tessellate .ids .nonZero false (⟨1⟩ : Z) true subs
    outcome r = "ok" ∧ Tainted r.2.2 ∧
    idPairs r.2.1 = [[(4, 5), (5, 6)], [(0, 1), (2, 0)], [(1, 2)], [(6, 4)], [(6, 6)], [(2, 2)]] := by
  refine ⟨by decide +kernel, ?_, by decide +kernel⟩
  left
  decide +kernel

/-- the hypothesis of `sweep_curves_sources_wellformed` holds for an ordinary curved sub-path -/
example : startsWithBegin [SweepCurves.Cmd.begin (pq 0 0), .quad (pq 1 2) (pq 2 0), .line (pq 1 (-1)), .end_ true] = true := rfl

/-- the structural invariant is not trivially true: a queue whose `first` points outside is rejected -/
example : ¬ QOk ({ events := #[], edgeData := #[], first := 3, sorted := true } : Queue Z) := by
  intro h
  rcases h.first with h | h
  · revert h; decide
  · simp at h

end examples

end Lyon.C07b
