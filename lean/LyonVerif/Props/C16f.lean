/-
  C16f — the iterator-side adapters on ARBITRARY event lists (partial streams).

  `iterator::Transformed`, `iterator::Flattened` and `for_each_flattened` are adapters over any
  `Iterator<Item = PathEvent>`: a stream from which events were taken before the adapter was
  attached (`let mut it = path.iter(); it.next(); it.transformed(&m)`), or filtered upstream
  (`skip`, `filter(is_edge)`, `take`, `chain`).  The statements below carry NO well-formedness
  hypothesis on the event list; the driver family `ip` runs exactly these definitions
  (`xfIter`, `flatIter`, `flatAttrIter`) on the event lists of the harness' partial streams.

  * `transform_iter_is_map`      for every event list the adapter's output is
                                 `events.map (mapEvent g)` (`PathEvent::transformed`): same
                                 length, the i-th output is the transform of the i-th input —
                                 nothing depends on the events seen before.
  * `transform_iter_partial`     hence attaching the adapter to a partial stream = taking the
                                 same part of the adapted stream: `drop` (events taken with
                                 `next()` / `skip`), `take`, `filter is_edge`, `++` (`chain`).
  * `flatten_iter_is_flatmap`    `iterator::Flattened` = `flatMap` of the per-event flattening
                                 (`flatEvent`: a curve event becomes the chain through lyon_geom's
                                 points for ITS OWN from / ctrl / to; other events pass).
  * `flatten_iter_partial`       … and commutes with `++`, and with `drop` / `take` of events
                                 that are not curves' interiors (stated for `++`, which gives both).
  * `flatten_attr_iter_is_flatmap`  the same for `for_each_flattened`.
  * `nesting_iter_is_flatmap`    both nesting orders, event by event.
-/
import LyonVerif.Props.C16
import LyonVerif.Model.Path.AdaptersHelpers

set_option linter.unusedSectionVars false
set_option linter.unusedVariables false

namespace Lyon.C16
open Lyon Lyon.Path Lyon.Adapt

variable {π π' : Type}

/-- `iterator::Transformed` is a per-event map, for EVERY event list (no well-formedness, no
`Begin` required at the start): the output is the list of `event.transformed(g)`; it has the same
length and its i-th event is the transform of the i-th input event alone. -/
theorem transform_iter_is_map (g : π → π') (evs : List (Event π)) :
    xfIter g evs = evs.map (mapEvent g) ∧
    (xfIter g evs).length = evs.length ∧
    ∀ i : Nat, (xfIter g evs)[i]? = (evs[i]?).map (mapEvent g) :=
  ⟨rfl, by simp [xfIter], fun i => by simp [xfIter]⟩

theorem isEdge_mapEvent (g : π → π') (e : Event π) :
    Event.isEdge (mapEvent g e) = Event.isEdge e := by
  cases e with
  | end_ l f cl => cases cl <;> rfl
  | _ => rfl

/-- Attaching the adapter to a partial stream gives the same part of the adapted stream: after
`k` events were taken out (`next()` k times, `skip(k)`), a sub-range (`skip(k).take(j)`), the
edges only (`filter(|e| e.is_edge())`), two streams chained. -/
theorem transform_iter_partial (g : π → π') (evs evs2 : List (Event π)) (k j : Nat) :
    xfIter g (evs.drop k) = (xfIter g evs).drop k ∧
    xfIter g ((evs.drop k).take j) = ((xfIter g evs).drop k).take j ∧
    xfIter g (evs.filter Event.isEdge) = (xfIter g evs).filter Event.isEdge ∧
    xfIter g (evs ++ evs2) = xfIter g evs ++ xfIter g evs2 := by
  refine ⟨by simp [xfIter, List.map_drop], by simp [xfIter, List.map_drop, List.map_take], ?_,
    by simp [xfIter]⟩
  simp only [xfIter, List.filter_map]
  congr 1
  apply List.filter_congr
  intro e _
  simp [Function.comp, isEdge_mapEvent]

/-- `iterator::Flattened` on ANY event list is the concatenation of the per-event flattenings:
each curve event is replaced by the flattening of that event's own `from / ctrl / to`, every
other event passes through; no state is carried from one event to the next. -/
theorem flatten_iter_is_flatmap (G : IterFlattener π) (evs : List (Event π)) :
    flatIter G evs = evs.flatMap (flatEvent G) := by
  induction evs with
  | nil => rfl
  | cons e r ih => cases e <;> simp [flatIter, flatEvent, ih]

/-- hence it distributes over chained streams, and a prefix of whole events taken out before
the adapter is attached removes exactly their flattenings -/
theorem flatten_iter_partial (G : IterFlattener π) (evs evs2 : List (Event π)) (k : Nat) :
    flatIter G (evs ++ evs2) = flatIter G evs ++ flatIter G evs2 ∧
    flatIter G evs = flatIter G (evs.take k) ++ flatIter G (evs.drop k) := by
  have app : ∀ a b : List (Event π), flatIter G (a ++ b) = flatIter G a ++ flatIter G b := by
    intro a b
    simp [flatten_iter_is_flatmap]
  exact ⟨app _ _, by rw [← app, List.take_append_drop]⟩

section
variable {α : Type} [Scalar α]

/-- `for_each_flattened` on ANY event list (with attributes), event by event -/
theorem flatten_attr_iter_is_flatmap (F : Flattener π α) (evs : List (Event (AP π α))) :
    flatAttrIter F evs = evs.flatMap (flatAttrEvent F) := by
  induction evs with
  | nil => rfl
  | cons e r ih => cases e <;> simp [flatAttrIter, flatAttrEvent, ih]

end

/-- both nesting orders on ANY event list, event by event -/
theorem nesting_iter_is_flatmap (G : IterFlattener π) (G' : IterFlattener π') (g : π → π')
    (evs : List (Event π)) :
    flatIter G' (xfIter g evs) = evs.flatMap (fun e => flatEvent G' (mapEvent g e)) ∧
    xfIter g (flatIter G evs) = evs.flatMap (fun e => (flatEvent G e).map (mapEvent g)) := by
  constructor
  · simp [flatten_iter_is_flatmap, xfIter, List.flatMap_map]
  · simp [flatten_iter_is_flatmap, xfIter, List.map_flatMap]

/-- a partial stream: the events of a closed sub-path after its `Begin` was taken out; the
adapter transforms `from` of the first edge and `first` of the `End` like every other point
(the stateful variant of the seeded defect would yield the origin there) -/
example : xfIter (fun p : Int × Int => (p.1 + 10, p.2 + 20))
      [.line (0, 0) (4, 0), .quad (4, 0) (5, 5) (0, 4), .end_ (0, 4) (0, 0) true]
    = [.line (10, 20) (14, 20), .quad (14, 20) (15, 25) (10, 24),
       .end_ (10, 24) (10, 20) true] := by decide

end Lyon.C16
