/-
  C16, third part — tolerance and parameters at the level of a whole flattened PATH, with the
  concrete flatteners of lyon_geom (`Model/Path/AdaptersConcrete.lean`).

  2. "stays within the tolerance of the original":
     * `flatten_runs_per_curve_concrete`   the path built through `Flattened` is the original path
       with every curve event `(from, ctrl.., to)` — `from` being the TRUE previous endpoint —
       replaced by the chain through the points of lyon_geom's flattening of THAT curve at THE
       SAME tolerance; nothing else changes.
     * `flatten_within_tolerance_concrete` hence C09's per-curve tolerance statements apply to
       every curve of the path, with the path's tolerance (`is_linear_sound`,
       `quad_flat_within_tolerance_of_params`; the named gap of C09 — Levien's step estimate —
       remains a gap here).
     * `flatten_transform_similarity_concrete`  where the tolerance is applied: for an
       orientation-preserving similarity `m` of scale `s`, `Transformed` then `Flattened` at
       `s·tol` (target space) = `Flattened` at `tol` (source space) then `Transformed`, call for
       call, panic for panic — exact arithmetic, `sqrt (s·s·x) = s·sqrt x`
       (`…_iter_concrete`, `…_attr_concrete`: the same at iteration time and for
       `for_each_flattened`).  For other affine
       maps, or the same `tol` on both sides, the inserted points differ (only
       `nesting_orders_concrete` holds).
  3. "linearly interpolated (by curve parameter)":
     * `flatten_quad_attr_concrete` / `flatten_cubic_attr_concrete`  the `t` used for the
       interpolation is the flattener's reported `t.end`; these are strictly increasing, lie in
       `(0, 1]` and end with exactly 1, so the attributes run from the start endpoint's
       (exclusive) to exactly the end endpoint's, each component staying between the two
       (`interp_between`).
-/
import LyonVerif.Props.C16b
import LyonVerif.Lemmas.AdaptersConcretePath
import LyonVerif.Lemmas.AdaptersConcreteSim
import LyonVerif.Lemmas.AdaptersConcreteSimIter
import LyonVerif.Lemmas.AdaptersConcreteTC
import LyonVerif.Lemmas.AdaptersConcreteReal

set_option linter.unusedSectionVars false
set_option linter.unusedVariables false

namespace Lyon.C16
open Lyon Lyon.Path Lyon.Adapt Scalar Lyon.Flat

section field
variable {K : Type} [Field K] [LinearOrder K] [IsStrictOrderedRing K] [Transc K] [FlatConst K]

/-! ## 2. Tolerance at the level of the path -/

/-- **flatten_runs_per_curve_concrete**: for every well-nested program, the events denoted by
what `Flattened::new(inner, tol)` hands down are the events of the original program in which
each curve event `Quadratic{from, ctrl, to}` / `Cubic{…}` is replaced by the chain
`from → p₁ → … → to` through the `line.to`s of `for_each_flattened_with_t(tol)` on exactly that
curve (the adapter's `current_position` IS the event's `from`), and every other event is
unchanged.  So each run of lines between two original endpoints is lyon_geom's flattening of
the curve between them, at the tolerance given to the adapter. -/
theorem flatten_runs_per_curve_concrete (tol : K) (o : P K) (n : Nat)
    (prog out : List (Call (P K) (List K))) (hn : WellNested prog)
    (h : flatBuilderC tol o n prog = some out) :
    specEvents out = flatIter (cbPoints (cbModel tol)) (specEvents prog) := by
  unfold flatBuilderC at h
  split at h
  · rename_i hok
    cases Option.some.inj h
    have e : flatBuilder (cbModel tol) o n prog = flatBuilder (cbTot tol) o n prog :=
      flatRun_cbTot tol (FlatB.init o n) prog hok
    have hp : cbOkPlain tol (specEvents prog) = true :=
      cbOkPlain_of_run tol none o prog hn (by intro f c h; cases h) hok
    rw [e, flatIter_cbPoints_congr tol (cbModel tol) (cbTot tol)
      (fun a c b hq => by simp [cbTot, hq]) (fun a c d b hc => by simp [cbTot, hc]) _ hp]
    exact flatten_commutes_builder_iter (cbTot tol) (cbPoints (cbTot tol)) (cbTot_endsAtTo tol)
      (fun _ _ _ => rfl) (fun _ _ _ _ => rfl) o n prog hn
  · cases h

/-- **flatten_within_tolerance_concrete**: C09's tolerance statements, for every quadratic OF A
PATH flattened by the adapter, with the adapter's tolerance.  For a curve event
`Quadratic{a, c, b}` of the original path the adapter emits the chain through `l.map (·.b)`
(`flatten_runs_per_curve_concrete`) where `l` is lyon_geom's callback list, and
* if `is_linear` accepts the curve (and `to_u32 0 = 0`: `CountLaws`), `l` is the single segment
  `a → b` and EVERY point of the curve is within `tol` of it;
* every segment `sg ∈ l` whose parameter step satisfies `Δ⁴·|a − 2c + b|² ≤ 16·tol²` has the
  curve over its range within `tol` of it (that Levien's estimate produces such steps is C09's
  named gap, finding `approx-integral`). -/
theorem flatten_within_tolerance_concrete (L : CountLaws K) (tol : K) (o : P K) (n : Nat)
    (prog out : List (Call (P K) (List K))) (hn : WellNested prog)
    (h : flatBuilderC tol o n prog = some out) (a c b : P K)
    (hev : Event.quad a c b ∈ specEvents prog) :
    ∃ l : List (FlatSeg K), Quad.forEachFlattenedWithT ⟨a, c, b⟩ tol = some l ∧
      (cbPoints (cbModel tol)).quad a c b = l.map (·.b) ∧
      ((⟨a, c, b⟩ : Quad K).isLinear tol = true →
        l = [⟨a, b, zero, one⟩] ∧
        ∀ t, 0 ≤ t → t ≤ 1 → ∃ s, 0 ≤ s ∧ s ≤ 1 ∧
          ((⟨a, c, b⟩ : Quad K).sample t - a.lerp b s).sqLen ≤ tol * tol) ∧
      (∀ sg ∈ l, (sg.t1 - sg.t0) ^ 4 * ((a - c.smul 2) + b).sqLen ≤ 16 * (tol * tol) →
        ∀ s, 0 ≤ s → s ≤ 1 →
          ((⟨a, c, b⟩ : Quad K).sample (sg.t0 + s * (sg.t1 - sg.t0)) - sg.a.lerp sg.b s).sqLen
            ≤ tol * tol) := by
  have hok : cbOkRun tol o prog = true := by
    unfold flatBuilderC at h
    split at h
    · assumption
    · cases h
  have hp : cbOkPlain tol (specEvents prog) = true :=
    cbOkPlain_of_run tol none o prog hn (by intro f c h; cases h) hok
  have hq := cbOkPlain_quad_mem tol _ hp a c b hev
  simp only [cbOkQuad, Option.isSome_iff_exists] at hq
  obtain ⟨l, hl⟩ := hq
  refine ⟨l, hl, by simp [cbPoints, cbModel, hl, segOf, Function.comp_def], ?_, ?_⟩
  · intro hlin
    constructor
    · have h0 : Transc.toNat (zero : K) = 0 := by
        have := L.toNat_natCast 0
        simpa [show (zero : K) = 0 from sc_zero] using this
      have : Quad.forEachFlattenedWithT (⟨a, c, b⟩ : Quad K) tol = some [⟨a, b, zero, one⟩] := by
        simp [Quad.forEachFlattenedWithT, FlatParams.new, hlin, FlatParams.linear, toU32,
          show (zero : K) = 0 from sc_zero, show (one : K) = 1 from sc_one, ofNat_eq,
          Quad.flatWith]
        have h0' : Transc.toNat (0 : K) = 0 := by simpa [show (zero : K) = 0 from sc_zero] using h0
        rw [h0']; simp [Quad.flatLoop]
      rw [this] at hl
      exact (Option.some.inj hl).symm
    · intro t ht0 ht1
      exact C09.is_linear_sound ⟨a, c, b⟩ tol t hlin ht0 ht1
  · intro sg hsg hstep s hs0 hs1
    exact C09.quad_flat_within_tolerance_of_params ⟨a, c, b⟩ tol l hl sg hsg hstep s hs0 hs1

/-! ### where the tolerance is applied: similarities -/

theorem cbModel_quad_sim (hsq : SqrtScales K) (m : Xf K) (s : K) (hm : IsSim m s) (tol : K)
    (a c b : P K) :
    (cbModel (s * tol)).quad (m.apply a) (m.apply c) (m.apply b)
      = ((cbModel tol).quad a c b).map (mapSeg m.apply) := by
  have := quad_flatten_sim hsq m s hm ⟨a, c, b⟩ tol
  simp only [Quad.transformed] at this
  simp only [cbModel, this]
  cases Quad.forEachFlattenedWithT (⟨a, c, b⟩ : Quad K) tol with
  | none => rfl
  | some l => simp [segOf, mapSeg, mapFlat, Function.comp_def]

theorem cbModel_cubic_sim (hsq : SqrtScales K) (m : Xf K) (s : K) (hm : IsSim m s) (tol : K)
    (a c d b : P K) :
    (cbModel (s * tol)).cubic (m.apply a) (m.apply c) (m.apply d) (m.apply b)
      = ((cbModel tol).cubic a c d b).map (mapSeg m.apply) := by
  have := cubic_flatten_sim hsq m s hm ⟨a, c, d, b⟩ tol
  simp only [Cubic.transformed] at this
  simp only [cbModel, this]
  cases Cubic.forEachFlattenedWithT (⟨a, c, d, b⟩ : Cubic K) tol with
  | none => rfl
  | some l => simp [segOf, mapSeg, mapFlat, Function.comp_def]

theorem cbOkRun_sim (hsq : SqrtScales K) (m : Xf K) (s : K) (hm : IsSim m s) (tol : K)
    (cur : P K) (prog : List (Call (P K) (List K))) :
    cbOkRun (s * tol) (m.apply cur) (prog.map (mapCall m.apply)) = cbOkRun tol cur prog := by
  induction prog generalizing cur with
  | nil => rfl
  | cons c r ih =>
    cases c with
    | begin p a => simpa [cbOkRun, mapCall] using ih p
    | line p a => simpa [cbOkRun, mapCall] using ih p
    | end_ cl => simpa [cbOkRun, mapCall] using ih cur
    | quad k p a =>
      have hq := quad_flatten_sim hsq m s hm ⟨cur, k, p⟩ tol
      simp only [Quad.transformed] at hq
      simp only [List.map_cons, mapCall, cbOkRun, cbOkQuad, hq, Option.isSome_map, ih p]
    | cubic k1 k2 p a =>
      have hq := cubic_flatten_sim hsq m s hm ⟨cur, k1, k2, p⟩ tol
      simp only [Cubic.transformed] at hq
      simp only [List.map_cons, mapCall, cbOkRun, cbOkCubic, hq, Option.isSome_map, ih p]

/-- **flatten_transform_similarity_concrete**: for an orientation-preserving similarity `m` of
scale `s > 0`, `builder.flattened(s·tol).transformed(m)` — the program is transformed first and
flattened in the target space at `s·tol` — hands down exactly the transformed calls of
`builder.transformed(m).flattened(tol)` — flattened in the source space at `tol`, then
transformed: same number of lines, same `t`s, same attributes, transformed positions; and one
panics iff the other does.  (In exact arithmetic, with `sqrt (s·s·x) = s·sqrt x`.) -/
theorem flatten_transform_similarity_concrete (hsq : SqrtScales K) (m : Xf K) (s : K)
    (hm : IsSim m s) (tol : K) (o : P K) (n : Nat) (prog : List (Call (P K) (List K))) :
    flatBuilderC (s * tol) (m.apply o) n (xfBuilder m.apply prog)
      = (flatBuilderC tol o n prog).map (xfBuilder m.apply) := by
  unfold flatBuilderC
  rw [xfBuilder, cbOkRun_sim hsq m s hm]
  split
  · simp only [Option.map_some, Option.some.injEq, flatBuilder, xfBuilder]
    exact flatRun_equivariant m.apply (cbModel tol) (cbModel (s * tol))
      (cbModel_quad_sim hsq m s hm tol) (cbModel_cubic_sim hsq m s hm tol) (FlatB.init o n) prog
  · rfl

/-- the same at iteration time: `events.transformed(m).flattened(s·tol)` =
`events.flattened(tol).transformed(m)`, event for event, with lyon_geom's `Flattened` iterators
(quadratic and cubic; same fuel; `none` iff `none`) -/
theorem flatten_transform_similarity_iter_concrete (hsq : SqrtScales K) (m : Xf K) (s : K)
    (hm : IsSim m s) (fuel : Nat) (tol : K) (evs : List (Event (P K))) :
    flatIterC fuel (s * tol) (xfIter m.apply evs)
      = (flatIterC fuel tol evs).map (xfIter m.apply) := by
  unfold flatIterC
  rw [xfIter, itOkEvents_sim hsq m s hm]
  split
  · simp only [Option.map_some, Option.some.injEq, xfIter]
    exact flatIter_equivariant m.apply (itModel fuel tol) (itModel fuel (s * tol))
      (itModel_quad_sim hsq m s hm fuel tol) (itModel_cubic_sim hsq m s hm fuel tol) evs
  · rfl

theorem cbOkEvents_sim (hsq : SqrtScales K) (m : Xf K) (s : K) (hm : IsSim m s) (tol : K)
    (aevs : List (Event (AP (P K) K))) :
    cbOkEvents (s * tol) (aevs.map (mapEvent (mapAP m.apply))) = cbOkEvents tol aevs := by
  induction aevs with
  | nil => rfl
  | cons e r ih =>
    cases e with
    | begin p => simpa [cbOkEvents, mapEvent] using ih
    | line a b => simpa [cbOkEvents, mapEvent] using ih
    | end_ l f cl => simpa [cbOkEvents, mapEvent] using ih
    | quad a c b =>
      have hq := quad_flatten_sim hsq m s hm ⟨a.1, c.1, b.1⟩ tol
      simp only [Quad.transformed] at hq
      simp only [List.map_cons, mapEvent, mapAP, cbOkEvents, cbOkQuad, hq, Option.isSome_map, ih]
    | cubic a c d b =>
      have hq := cubic_flatten_sim hsq m s hm ⟨a.1, c.1, d.1, b.1⟩ tol
      simp only [Cubic.transformed] at hq
      simp only [List.map_cons, mapEvent, mapAP, cbOkEvents, cbOkCubic, hq, Option.isSome_map, ih]

/-- … and for `for_each_flattened` over the stored path: transforming the path (positions;
attributes stay) and flattening at `s·tol` = flattening at `tol` and transforming the callbacks,
attributes included -/
theorem flatten_transform_similarity_attr_concrete (hsq : SqrtScales K) (m : Xf K) (s : K)
    (hm : IsSim m s) (tol : K) (aevs : List (Event (AP (P K) K))) :
    flatAttrIterC (s * tol) (aevs.map (mapEvent (mapAP m.apply)))
      = (flatAttrIterC tol aevs).map (List.map (mapEvent (mapAP m.apply))) := by
  unfold flatAttrIterC
  rw [cbOkEvents_sim hsq m s hm]
  split
  · simp only [Option.map_some, Option.some.injEq]
    exact flatAttrIter_equivariant m.apply (cbModel tol) (cbModel (s * tol))
      (cbModel_quad_sim hsq m s hm tol) (cbModel_cubic_sim hsq m s hm tol) aevs
  · rfl

/-! ## 3. The parameters used for the interpolation -/

/-- **flatten_quad_attr_concrete**: one `quadratic_bezier_to(ctrl, to, a_to)` on `Flattened` in a
state whose `prev_attributes = a_from` (always the case: `flatten_attr_interp_concrete`): the
calls handed down are `line_to(pᵢ, (1−tᵢ)·a_from + tᵢ·a_to)` for the callbacks `(pᵢ, tᵢ)` of
lyon_geom's flattener on the curve from the current position, and `0 < t₁ < t₂ < … < t_k = 1`:
strictly increasing, all in `(0, 1]`, the last exactly 1 (so the last call carries exactly
`a_to`, `interp_one`). -/
theorem flatten_quad_attr_concrete (S : SqrtLaws K) (L : CeilLaws K) (tol : K)
    (s : FlatB (P K) K) (c p : P K) (a : List K) (hlen : s.prev.length = a.length)
    (hok : cbOkQuad tol s.cur c p = true) :
    (s.step (cbModel tol) (.quad c p a)).2
      = ((cbModel tol).quad s.cur c p).map (fun g => Call.line g.b (interp s.prev a g.t)) ∧
    IncrFrom 0 (((cbModel tol).quad s.cur c p).map (·.t)) ∧
    (((cbModel tol).quad s.cur c p).map (·.t)).getLastD 0 = 1 ∧
    (∀ g ∈ (cbModel tol).quad s.cur c p, 0 < g.t ∧ g.t ≤ 1) := by
  refine ⟨flatten_step_interp (cbModel tol) s c p a hlen, ?_⟩
  simp only [cbOkQuad, Option.isSome_iff_exists] at hok
  obtain ⟨l, hl⟩ := hok
  obtain ⟨h1, h2⟩ := quad_flat_t_increasing S L ⟨s.cur, c, p⟩ tol l hl
  have h3 := quad_flat_t_range S L ⟨s.cur, c, p⟩ tol l hl
  have e : ((cbModel tol).quad s.cur c p).map (·.t) = l.map (·.t1) := by
    simp [cbModel, hl, segOf, Function.comp_def]
  rw [e]
  refine ⟨h1, h2, ?_⟩
  intro g hg
  simp only [cbModel, hl, Option.getD_some, List.mem_map] at hg
  obtain ⟨sg, hsg, rfl⟩ := hg
  exact h3 sg hsg

/-- the same for `cubic_bezier_to` -/
theorem flatten_cubic_attr_concrete (S : SqrtLaws K) (L : CeilLaws K) (tol : K)
    (s : FlatB (P K) K) (c1 c2 p : P K) (a : List K) (hlen : s.prev.length = a.length)
    (hok : cbOkCubic tol s.cur c1 c2 p = true) :
    (s.step (cbModel tol) (.cubic c1 c2 p a)).2
      = ((cbModel tol).cubic s.cur c1 c2 p).map (fun g => Call.line g.b (interp s.prev a g.t)) ∧
    IncrFrom 0 (((cbModel tol).cubic s.cur c1 c2 p).map (·.t)) ∧
    (((cbModel tol).cubic s.cur c1 c2 p).map (·.t)).getLastD 0 = 1 ∧
    (∀ g ∈ (cbModel tol).cubic s.cur c1 c2 p, 0 < g.t ∧ g.t ≤ 1) := by
  refine ⟨by simp [FlatB.step, emitLines_eq_specLines _ _ _ hlen, specLines], ?_⟩
  simp only [cbOkCubic, Option.isSome_iff_exists] at hok
  obtain ⟨l, hl⟩ := hok
  obtain ⟨h1, h2⟩ := cubic_flat_t_increasing S L ⟨s.cur, c1, c2, p⟩ tol l hl
  have h3 := cubic_flat_t_range S L ⟨s.cur, c1, c2, p⟩ tol l hl
  have e : ((cbModel tol).cubic s.cur c1 c2 p).map (·.t) = l.map (·.t1) := by
    simp [cbModel, hl, segOf, Function.comp_def]
  rw [e]
  refine ⟨h1, h2, ?_⟩
  intro g hg
  simp only [cbModel, hl, Option.getD_some, List.mem_map] at hg
  obtain ⟨sg, hsg, rfl⟩ := hg
  exact h3 sg hsg

/-- **cbModel_t_concrete**: whoever consumes them (`private::flatten_*` on the builder side,
`for_each_flattened` on the iterator side — `for_each_flattened_attr_interp` of `Props/C16.lean`
says the latter interpolates with the same `t`s), the `t.end`s lyon_geom's callback flattener
reports for a curve are `0 < t₁ < … < t_k = 1` -/
theorem cbModel_t_concrete (S : SqrtLaws K) (L : CeilLaws K) (tol : K) :
    (∀ a c b, cbOkQuad tol a c b = true →
      IncrFrom 0 (((cbModel tol).quad a c b).map (·.t)) ∧
      (((cbModel tol).quad a c b).map (·.t)).getLastD 0 = 1) ∧
    (∀ a c d b, cbOkCubic tol a c d b = true →
      IncrFrom 0 (((cbModel tol).cubic a c d b).map (·.t)) ∧
      (((cbModel tol).cubic a c d b).map (·.t)).getLastD 0 = 1) := by
  constructor
  · intro a c b hok
    have := flatten_quad_attr_concrete S L tol ⟨a, []⟩ c b [] rfl hok
    exact ⟨this.2.1, this.2.2.1⟩
  · intro a c d b hok
    have := flatten_cubic_attr_concrete S L tol ⟨a, []⟩ c d b [] rfl hok
    exact ⟨this.2.1, this.2.2.1⟩

end field

section interp
variable {K : Type} [Field K] [LinearOrder K] [IsStrictOrderedRing K]

/-- **interp_between**: for `t ∈ [0, 1]` every interpolated attribute lies between the
corresponding attributes of the two endpoints -/
theorem interp_between (fa ta : List K) (t : K) (h0 : 0 ≤ t) (h1 : t ≤ 1) :
    List.Forall₂ (fun (x : K) (fg : K × K) => Min.min fg.1 fg.2 ≤ x ∧ x ≤ Max.max fg.1 fg.2)
      (interp fa ta t) (fa.zip ta) := by
  induction fa generalizing ta with
  | nil => simp [interp]
  | cons f r ih =>
    cases ta with
    | nil => simp [interp]
    | cons g r' =>
      have hx : interp (f :: r) (g :: r') t = (f * (1 - t) + g * t) :: interp r r' t := by
        simp only [interp, List.zipWith_cons_cons]
        congr 1
        show f * (((1 : ℕ) : K) - t) + g * t = _
        push_cast; ring
      rw [hx, List.zip_cons_cons]
      refine List.Forall₂.cons ⟨?_, ?_⟩ (ih r')
      · have h1t : 0 ≤ 1 - t := by linarith
        have a1 := mul_le_mul_of_nonneg_right (min_le_left f g) h1t
        have a2 := mul_le_mul_of_nonneg_right (min_le_right f g) h0
        nlinarith
      · have h1t : 0 ≤ 1 - t := by linarith
        have a1 := mul_le_mul_of_nonneg_right (le_max_left f g) h1t
        have a2 := mul_le_mul_of_nonneg_right (le_max_right f g) h0
        nlinarith

end interp

/-! ## Non-vacuity of the hypotheses

Over ℝ with the genuine `sqrt`/`ceil`/`floor` (`exRealTransc`, `exRealConst` of
`Lemmas/AdaptersConcreteReal.lean`): ALL the laws assumed above hold together there, on the
program `exProg` (`begin (0,0) [1]; quadratic_bezier_to (1,1/8) (2,0) [3]; line_to (3,0) [4];
end(close)`) at tolerance `1/10`. -/

section Examples
open Lyon.Flat
attribute [local instance 2000] fieldScalar

/-- hypotheses of `flatten_runs_per_curve_concrete` -/
example : WellNested (exProg (K := ℝ))
    ∧ ∃ out, @flatBuilderC ℝ _ exRealTransc exRealConst (1 / 10) ⟨0, 0⟩ 1 exProg = some out :=
  ⟨by simp [exProg, WellNested, wellNestedFrom], exBuilderOk exRealTransc exRealConst⟩

/-- hypotheses of `flatten_within_tolerance_concrete`: the laws, a curve event of the path, the
`is_linear` premise, and the step premise on the single segment `[0, 1]`
(`1⁴·|a − 2c + b|² = 1/16 ≤ 16/100`) -/
example : @CountLaws ℝ _ _ _ exRealTransc exRealConst
    ∧ Event.quad (⟨0, 0⟩ : P ℝ) ⟨1, 1 / 8⟩ ⟨2, 0⟩ ∈ specEvents (exProg (K := ℝ))
    ∧ (⟨⟨0, 0⟩, ⟨1, 1 / 8⟩, ⟨2, 0⟩⟩ : Quad ℝ).isLinear (1 / 10) = true
    ∧ ((1 : ℝ) - 0) ^ 4 * ((((⟨0, 0⟩ : P ℝ) - (⟨1, 1 / 8⟩ : P ℝ).smul 2) + ⟨2, 0⟩).sqLen)
        ≤ 16 * (1 / 10 * (1 / 10)) := by
  refine ⟨real_countLaws, by simp [exProg, specEvents, specFrom], exLinear, ?_⟩
  simp only [geom]; norm_num

/-- hypotheses of `flatten_transform_similarity_concrete` and
`flatten_transform_similarity_iter_concrete`, `flatten_transform_similarity_attr_concrete`:
`sqrt (s·s·x) = s·sqrt x` on ℝ and a similarity of scale 5 -/
example : @SqrtScales ℝ _ _ _ exRealTransc ∧ IsSim (⟨3, 4, -4, 3, 1, 2⟩ : Xf ℝ) 5 :=
  ⟨real_sqrtScales, exSim⟩

/-- hypotheses of `flatten_quad_attr_concrete` -/
example : @SqrtLaws ℝ _ _ _ exRealTransc exRealConst ∧ @CeilLaws ℝ _ _ _ exRealTransc exRealConst
    ∧ ([1] : List ℝ).length = ([3] : List ℝ).length
    ∧ @cbOkQuad ℝ _ exRealTransc exRealConst (1 / 10) ⟨0, 0⟩ ⟨1, 1 / 8⟩ ⟨2, 0⟩ = true :=
  ⟨real_sqrtLaws, real_ceilLaws, rfl,
   @cbOkQuad_of_isLinear ℝ _ _ _ exRealTransc exRealConst _ _ _ _ exLinear⟩

/-- hypothesis `cbOkCubic` of `flatten_cubic_attr_concrete`: a degenerate cubic (all four points
equal) has `num_quadratics = ceil 0 ⊔ 1 = 1` and its one quadratic is accepted by `is_linear` -/
example : @cbOkCubic ℝ _ exRealTransc exRealConst (1 / 10) ⟨0, 0⟩ ⟨0, 0⟩ ⟨0, 0⟩ ⟨0, 0⟩ = true :=
  exCbOkCubic

/-- hypotheses of `interp_between` -/
example : (0 : ℚ) ≤ 1 / 3 ∧ (1 / 3 : ℚ) ≤ 1 := by norm_num

end Examples

end Lyon.C16
