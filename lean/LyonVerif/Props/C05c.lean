/-
  C05c — index validity and per-vertex data of the COMPLETE stroker model `Lyon.Stroke.Full`
  (`Model/Tess/StrokeFull.lean`: every `add_stroke_vertex` and every `add_triangle` of
  `StrokeBuilderImpl`, in emission order; tied bit-exactly to lyon through the `full` / `fulle`
  families of the C05 check, whose drivers call `tessellateFw` / `tessellateIds`, i.e. `runEvents`).

  The statements are about `(runEvents e store evs).st.out`: the output recorded so far for EVERY
  outcome (also when a flattening loop panicked: the output up to that event), for every event list
  (any order of begin / line_to / quadratic / cubic / end(close); the path iterator's contract
  "begin first" is not assumed), every `StrokeOptions` record (no `miter_limit ≥ 1`, no positivity).

  `VSteps C o o'` (`Lemmas/StrokeIdxBase.lean`) is validity AT EMISSION TIME: every triangle, when
  `add_triangle` is called, has three pairwise distinct ids that were all returned by an earlier
  `add_stroke_vertex`.  In particular `VertexId::INVALID` (`u32::MAX`, the default of
  `SidePoints::{prev,next}_vertex`) never reaches `add_triangle`.

  The id logic of stroke.rs is NOT purely discrete.  Two places rely on arithmetic
  (`Lemmas/StrokeIdxInv.lean`, `Reg`):
    (R1) fixed width: `fixed_width_step_impl` ignores `flattened_step`'s "skip this join" answer and
         goes on to connect the join's vertex ids — which `flattened_step` did not assign when it
         answered "skip".  Valid ids need: in fixed-width mode `flattened_step` never answers skip.
    (R2) variable width: a skipped join is dropped from the window (`replace_last`); `close` later
         relies on the first two kept points not being within merge distance of each other.  Needs:
         the point that replaces a skipped join is not within merge distance of the point before.
  Both hold in exact arithmetic, (R1) by a symmetry argument that `MiterClip` joins break.  Hence:

    * `stroke_indices_valid_of_reg`   any scalar type, given (R1), (R2) as hypotheses (`Reg`)
    * `stroke_indices_valid_polyline` any scalar type (floats included), no hypothesis: polylines
                                      (all joins, caps, miter limits, fixed / variable width)
    * `stroke_indices_valid_variable` any scalar type, variable width, curves: given `SkipApart`
    * `stroke_indices_valid_partial`  ordered fields, ALL events, all options EXCEPT the combination
                                      fixed width + `LineJoin::MiterClip` (+ curves; polylines with
                                      MiterClip are covered by the polyline theorem)
  Further sections: §3 the finished mesh, the entry points the tie drives, per-vertex data
  (`stroke_vertex_sides_partial`, `stroke_mesh_partial`); §3b side labels at the emission sites;
  §4 counts and shapes (`stroke_polyline_vertex_count`, `stroke_polyline_triangle_count`,
  `closed_subpath_no_caps`, single-point and zero-length sub-paths); §4b interpolated attributes with
  lyon's cached buffer (`stroke_attributes_consistent`: every vertex, empty caps included, after /repo fix
  f1c9127a of finding C05-empty-cap-stale-attributes); §5 non-vacuity examples and kernel-evaluated instances.

  `VertexOK e store ids s hw` (`Lemmas/StrokeIdxCls.lean`) is what every emitted vertex satisfies:
  its source names an endpoint / an edge between two endpoint ids of the input, its half width is
  the source's (own or interpolated width), and is `line_width * 0.5` when the width is fixed.
-/
import LyonVerif.Lemmas.StrokeIdxField
import LyonVerif.Lemmas.StrokeIdxCount
import LyonVerif.Lemmas.StrokeIdxTris
import LyonVerif.Model.Tess.StrokeAttrs
import Mathlib.Tactic.NormNum

set_option linter.unusedSectionVars false
set_option linter.unusedVariables false

namespace Lyon.C05c
open Lyon Scalar Lyon.Stroke Lyon.Stroke.Full Lyon.C05 Lyon.C05b

/-! ## §1 what `VSteps` gives for the finished mesh -/

section Mesh
variable {α : Type} {C : Src α → α → Prop}

/-- a run of valid emissions from the empty output: ids are positions in the vertex list, every
triangle has three distinct valid ids, every vertex is of the class, and `VertexId::INVALID` is
not used as long as ids fit `u32` at all -/
theorem mesh_of_vsteps {o : Out α} (h : VSteps C (Out.empty 0) o) :
    o.nextId = o.verts.length
    ∧ (∀ t ∈ o.tris, Tri.Distinct t ∧ Tri.Below t o.verts.length)
    ∧ (∀ d ∈ o.verts, C d.src d.halfWidth)
    ∧ (o.verts.length ≤ unset → ∀ t ∈ o.tris, t.1 ≠ unset ∧ t.2.1 ≠ unset ∧ t.2.2 ≠ unset) := by
  have hok : OutOK o := h.outSteps.ext.ok ⟨rfl, by simp [Out.empty]⟩
  obtain ⟨vs, e1, _, hv⟩ := h.verts
  have hvs : o.verts = vs := by simpa [Out.empty] using e1
  refine ⟨hok.1, fun t ht => by rw [← hok.1]; exact hok.2 t ht, fun d hd => hv d (hvs ▸ hd), ?_⟩
  intro hle t ht
  obtain ⟨_, h1, h2, h3⟩ := hok.2 t ht
  rw [hok.1] at h1 h2 h3
  exact ⟨by omega, by omega, by omega⟩

end Mesh

/-! ## §2 `stroke_indices_valid` -/

section Generic
variable {α : Type} [Scalar α] [Transc α] [Asin α] [FlatConst α]

/-- **General form** (any scalar type).  If the scalar arithmetic is regular for the environment
(`Reg`: (R1), (R2) of the header) and the events feed endpoints of the class `c` (`EvOK`), then the
whole emission sequence of the stroker is valid: every triangle, at the moment it is emitted,
refers to three distinct vertices emitted before it; every vertex carries a `(source, half width)`
pair of the class.  Also the window invariant holds at the end. -/
theorem stroke_indices_valid_of_reg {e : Env α} {c : Cls α} {G : P α → P α → P α → Prop}
    (hreg : Reg e c G) (store : Nat → List α) {K : Nat → Prop} (hk : K unset)
    (evs : List (IdEv α)) (hev : ∀ ev ∈ evs, EvOK e store c K ev) :
    VSteps c.C (Out.empty 0) (runEvents e store evs).st.out :=
  (runEvents_spec hreg store hk evs hev).steps

/-- **Polylines, every scalar type** (floats included), no hypothesis: for every sequence of
begin / line_to / end(close) events, all joins, caps, miter limits, tolerances, fixed and variable
width, the emission sequence is valid; every vertex is `VertexOK`. -/
theorem stroke_indices_valid_polyline (e : Env α) (store : Nat → List α) (evs : List (IdEv α))
    (hp : IsPolyline evs) :
    VSteps (VertexOK e store (evIds evs)) (Out.empty 0) (runEvents e store evs).st.out :=
  stroke_indices_valid_of_reg (reg_polyline e store (evIds evs)) store (K := fun id => id ∈ evIds evs ∨ id = unset)
    (Or.inr rfl) evs (evOK_std e store evs _ _ rfl (Or.inr hp))

/-- **Variable width, every scalar type**, all events (curves included): the only arithmetic fact
needed is `SkipApart` for the merge threshold. -/
theorem stroke_indices_valid_variable (e : Env α) (store : Nat → List α) (evs : List (IdEv α))
    (hvw : e.o.varWidth = true) (hap : SkipApart e.thr) :
    VSteps (VertexOK e store (evIds evs)) (Out.empty 0) (runEvents e store evs).st.out :=
  stroke_indices_valid_of_reg (reg_variable e store (evIds evs) hvw hap) store
    (K := fun id => id ∈ evIds evs ∨ id = unset) (Or.inr rfl) evs
    (evOK_std e store evs _ _ trivial (Or.inl fun _ => trivial))

end Generic

section Field
variable {K : Type} [Field K] [LinearOrder K] [IsStrictOrderedRing K] [Transc K] [Asin K] [FlatConst K]

/-- **Ordered fields (exact arithmetic), ALL event sequences** (lines, quadratics, cubics, open /
closed / empty / single-point / repeated-point sub-paths, events in any order), all caps, miter
limits, tolerances, attribute stores; variable width with every join, fixed width with `Miter`,
`Round`, `Bevel` joins.  `sqrt`, `sin`, `cos`, `asin`, `acos`, `is_nan`, the curve flattening and the
line intersection are arbitrary functions: no law is assumed.

`_partial`: the combination fixed width + `LineJoin::MiterClip` is missing (for polylines it is
covered by `stroke_indices_valid_polyline`); `stroke_indices_valid_of_reg` reduces it to (R1). -/
theorem stroke_indices_valid_partial (e : Env K) (store : Nat → List K) (evs : List (IdEv K))
    (h : e.o.varWidth = true ∨ e.o.join ≠ .miterClip) :
    VSteps (VertexOK e store (evIds evs)) (Out.empty 0) (runEvents e store evs).st.out := by
  rcases Bool.eq_false_or_eq_true e.o.varWidth with hvw | hvw
  · exact stroke_indices_valid_variable e store evs hvw (skipApart_field e.thr)
  · have hj : e.o.join ≠ .miterClip := by
      rcases h with h | h
      · rw [hvw] at h; cases h
      · exact h
    exact stroke_indices_valid_of_reg (reg_field_fixed e store (evIds evs) hvw) store
      (K := fun id => id ∈ evIds evs ∨ id = unset) (Or.inr rfl) evs
      (evOK_std e store evs _ _ hj (Or.inl fun _ => hj))

end Field

/-! ## §3 the finished mesh; the entry points the tie drives (`tessellateIds`, `tessellateFw`) -/

section Entry
variable {α : Type} [Scalar α] [Transc α] [Asin α] [FlatConst α]

theorem tessellateIds_out {e : Env α} {store : Nat → List α} {evs : List (IdEv α)} {out : Out α}
    (h : tessellateIds e store evs = some out) : out = (runEvents e store evs).st.out := by
  unfold tessellateIds at h
  simp only [] at h
  split_ifs at h
  simp only [Option.some.injEq] at h
  exact h.symm

/-- no curve events (path events of `StrokeTessellator::tessellate`) -/
def IsPolylineP (evs : List (PathEv α)) : Prop :=
  ∀ ev ∈ evs, match ev with
    | .quad _ _ => False
    | .cubic _ _ _ => False
    | _ => True

theorem assignIds_polyline : ∀ (evs : List (PathEv α)) (n : Nat), IsPolylineP evs → IsPolyline (assignIds evs n) := by
  intro evs
  induction evs with
  | nil => intro n _ ev hev; simp [assignIds] at hev
  | cons x xs ih =>
    intro n hp
    have hx := hp x (by simp)
    have hxs : IsPolylineP xs := fun ev hev => hp ev (by simp [hev])
    cases x with
    | begin p =>
      intro ev hev
      simp only [assignIds, List.mem_cons] at hev
      rcases hev with rfl | hev
      · trivial
      · exact ih _ hxs ev hev
    | line p =>
      intro ev hev
      simp only [assignIds, List.mem_cons] at hev
      rcases hev with rfl | hev
      · trivial
      · exact ih _ hxs ev hev
    | quad c p => exact absurd hx (by simp)
    | cubic c1 c2 p => exact absurd hx (by simp)
    | end_ cl =>
      intro ev hev
      simp only [assignIds, List.mem_cons] at hev
      rcases hev with rfl | hev
      · trivial
      · exact ih _ hxs ev hev

/-- **`stroke_indices_valid` for the public entry point `StrokeTessellator::tessellate`** (what the
`full` family of the tie calls) on polylines, every scalar type: whatever it returns is a valid
emission sequence. -/
theorem stroke_indices_valid_tessellate_polyline (e : Env α) (evs : List (PathEv α)) (hp : IsPolylineP evs)
    (out : Out α) (h : tessellateFw e evs = some out) :
    VSteps (VertexOK { e with o := { e.o with varWidth := false } } (fun _ => []) (evIds (assignIds evs 0)))
      (Out.empty 0) out := by
  unfold tessellateFw at h
  rw [tessellateIds_out h]
  exact stroke_indices_valid_polyline _ _ _ (assignIds_polyline evs 0 hp)

/-- the same for `tessellate_with_ids` / the `StrokeBuilder` interface (`fulle` family), fixed or
variable width -/
theorem stroke_indices_valid_tessellateIds_polyline (e : Env α) (store : Nat → List α) (evs : List (IdEv α))
    (hp : IsPolyline evs) (out : Out α) (h : tessellateIds e store evs = some out) :
    VSteps (VertexOK e store (evIds evs)) (Out.empty 0) out := by
  rw [tessellateIds_out h]
  exact stroke_indices_valid_polyline e store evs hp

/-- **(b) per-vertex data and the finished mesh, polylines, every scalar type.**  Ids are positions
in the vertex list; every triangle has three distinct valid ids; no `VertexId::INVALID`; every
vertex's source names an endpoint of the input (`SrcOK`), its half width is that endpoint's
(`HwOK`; `line_width * 0.5` with a fixed width), its `position` accessor is
`position_on_path + normal * half_width` and its `line_width` accessor `half_width * 2`.

`_partial`: the normal and the advancement of a vertex are numeric and not covered; the side label is
covered at the emission sites (`join_base_vertices_sides`, `flattened_step_sides`: the ids stored for a
side point to vertices labelled with that side), not as a geometric statement (which side of the path
a vertex lies on: oracle clause `stroke/side`). -/
theorem stroke_vertex_sides_partial (e : Env α) (store : Nat → List α) (evs : List (IdEv α))
    (hp : IsPolyline evs) :
    let o := (runEvents e store evs).st.out
    o.nextId = o.verts.length
    ∧ (∀ t ∈ o.tris, Tri.Distinct t ∧ Tri.Below t o.verts.length)
    ∧ (o.verts.length ≤ unset → ∀ t ∈ o.tris, t.1 ≠ unset ∧ t.2.1 ≠ unset ∧ t.2.2 ≠ unset)
    ∧ ∀ d ∈ o.verts, VertexOK e store (evIds evs) d.src d.halfWidth
        ∧ d.read.position = d.positionOnPath + d.normal.smul d.halfWidth
        ∧ d.read.lineWidth = d.halfWidth * two
        ∧ d.read.src = d.src := by
  obtain ⟨a, b, c, d⟩ := mesh_of_vsteps (stroke_indices_valid_polyline e store evs hp)
  exact ⟨a, b, d, fun v hv => ⟨c v hv, rfl, rfl, rfl⟩⟩

end Entry

section FieldMesh
variable {K : Type} [Field K] [LinearOrder K] [IsStrictOrderedRing K] [Transc K] [Asin K] [FlatConst K]

/-- the finished mesh and the per-vertex data over an ordered field, all events (see
`stroke_indices_valid_partial` for the one excluded option combination) -/
theorem stroke_mesh_partial (e : Env K) (store : Nat → List K) (evs : List (IdEv K))
    (h : e.o.varWidth = true ∨ e.o.join ≠ .miterClip) :
    let o := (runEvents e store evs).st.out
    o.nextId = o.verts.length
    ∧ (∀ t ∈ o.tris, Tri.Distinct t ∧ Tri.Below t o.verts.length)
    ∧ (o.verts.length ≤ unset → ∀ t ∈ o.tris, t.1 ≠ unset ∧ t.2.1 ≠ unset ∧ t.2.2 ≠ unset)
    ∧ ∀ d ∈ o.verts, VertexOK e store (evIds evs) d.src d.halfWidth
        ∧ d.read.position = d.positionOnPath + d.normal.smul d.halfWidth := by
  obtain ⟨a, b, c, d⟩ := mesh_of_vsteps (stroke_indices_valid_partial e store evs h)
  exact ⟨a, b, d, fun v hv => ⟨c v hv, rfl⟩⟩

/-- whatever `tessellate_with_ids` returns over an ordered field is a valid emission sequence -/
theorem stroke_indices_valid_tessellateIds_partial (e : Env K) (store : Nat → List K) (evs : List (IdEv K))
    (h : e.o.varWidth = true ∨ e.o.join ≠ .miterClip) (out : Out K) (ho : tessellateIds e store evs = some out) :
    VSteps (VertexOK e store (evIds evs)) (Out.empty 0) out := by
  rw [tessellateIds_out ho]
  exact stroke_indices_valid_partial e store evs h

end FieldMesh

/-! ## §3b side labels of the join vertices -/

section Sides
variable {α : Type} [Scalar α] [Transc α]

theorem baseVerticesSide_block (j : Join α) (s : SideGeom α) (d : VData α) (o : Out α) :
    ∃ b : List (VData α),
      (baseVerticesSide j s d o).2.verts = o.verts ++ b ∧ (∀ v ∈ b, v.side = d.side)
      ∧ (baseVerticesSide j s d o).2.nextId = o.nextId + b.length
      ∧ o.nextId ≤ (baseVerticesSide j s d o).1.prevVertex
      ∧ (baseVerticesSide j s d o).1.prevVertex ≤ (baseVerticesSide j s d o).1.nextVertex
      ∧ (baseVerticesSide j s d o).1.nextVertex < o.nextId + b.length := by
  unfold baseVerticesSide
  cases s.single with
  | some p => exact ⟨[{ d with normal := joinNormal j p }], by simp [Out.addVertex], by simp, by simp [Out.addVertex],
      by simp, by simp, by simp⟩
  | none => exact ⟨[{ d with normal := joinNormal j s.prev }, { d with normal := joinNormal j s.next }],
      by simp [Out.addVertex], by simp, by simp [Out.addVertex], by simp, by simp, by simp⟩

/-- **side labels as assigned**: the two `add_join_base_vertices` calls of a step emit a block of
vertices labelled `Side::Negative` followed by a block labelled `Side::Positive`, and the ids the
join stores for its negative / positive side (`side_points[s].{prev,next}_vertex`, the ids
`add_edge_triangles` and `tessellate_join` connect) point into the block with the matching label —
for every join state, every scalar type -/
theorem join_base_vertices_sides (j : EP α) (d : VData α) (o : Out α) :
    ∃ nb pb : List (VData α),
      (baseVertices j d o).2.verts = o.verts ++ nb ++ pb
      ∧ (∀ v ∈ nb, v.side = Side.negative) ∧ (∀ v ∈ pb, v.side = Side.positive)
      ∧ o.nextId ≤ (baseVertices j d o).1.neg.prevVertex
      ∧ (baseVertices j d o).1.neg.prevVertex ≤ (baseVertices j d o).1.neg.nextVertex
      ∧ (baseVertices j d o).1.neg.nextVertex < o.nextId + nb.length
      ∧ o.nextId + nb.length ≤ (baseVertices j d o).1.pos.prevVertex
      ∧ (baseVertices j d o).1.pos.prevVertex ≤ (baseVertices j d o).1.pos.nextVertex
      ∧ (baseVertices j d o).1.pos.nextVertex < o.nextId + nb.length + pb.length := by
  obtain ⟨nb, n1, n2, n3, n4, n5, n6⟩ := baseVerticesSide_block j.toJoin j.toJoin.neg { d with side := .negative } o
  obtain ⟨pb, p1, p2, p3, p4, p5, p6⟩ := baseVerticesSide_block j.toJoin j.toJoin.pos { d with side := .positive }
    (baseVerticesSide j.toJoin j.toJoin.neg { d with side := .negative } o).2
  refine ⟨nb, pb, ?_, n2, p2, n4, n5, n6, ?_, p5, ?_⟩
  · show (baseVerticesSide j.toJoin j.toJoin.pos { d with side := .positive }
      (baseVerticesSide j.toJoin j.toJoin.neg { d with side := .negative } o).2).2.verts = _
    rw [p1, n1]
  · rw [n3] at p4; exact p4
  · rw [n3] at p6; exact p6

/-- the same for the fast path of a flattened curve: `flattened_step` emits the positive vertex, then
the negative one, and stores their ids on the matching sides -/
theorem flattened_step_sides (prev join next : EP α) (d : VData α) (o : Out α)
    (h : (flattenedStep prev join next d o).skip = false) :
    ∃ vp vn : VData α, (flattenedStep prev join next d o).out.verts = o.verts ++ [vp, vn]
      ∧ vp.side = Side.positive ∧ vn.side = Side.negative
      ∧ (flattenedStep prev join next d o).join.pos.prevVertex = o.nextId
      ∧ (flattenedStep prev join next d o).join.pos.nextVertex = o.nextId
      ∧ (flattenedStep prev join next d o).join.neg.prevVertex = o.nextId + 1
      ∧ (flattenedStep prev join next d o).join.neg.nextVertex = o.nextId + 1 := by
  obtain ⟨jAdv, nAdv, p0, p1, nrm, c, dc, e⟩ := flattenedStep_shape prev join next d o
  rw [e] at h ⊢
  by_cases hc : c
  · rw [if_pos hc] at h; simp at h
  · rw [if_neg hc]
    exact ⟨{ d with advancement := jAdv, normal := nrm, side := .positive },
      { d with advancement := jAdv, normal := -nrm, side := .negative },
      by simp [Out.addVertex], rfl, rfl, rfl, rfl, rfl, rfl⟩

end Sides

/-! ## §4 counts and shapes -/

section Counts
variable {α : Type} [Scalar α] [Transc α] [Asin α] [FlatConst α]

/-- **(c) vertex count of an open polyline.**  Fixed line width; a sub-path
`begin p0, line_to p1, line_to …, end(false)` with `n ≥ 2` points none of which is merged
(`NoMerge`: consecutive points are not within the merge threshold); join kind Miter, MiterClip or
Bevel; butt or square caps.  The stroker emits exactly

    `4 + Σ over the n-2 interior joins of (4 if the join folds | 2 if its miter is kept | 3 otherwise)`

vertices: 2 + 2 at the two ends (a butt / square cap adds no vertex of its own), per join the inner
(back) vertex and one or two outer vertices, or 2 + 2 when the join folds back on itself
(`joinVertsFw` reads the decisions off `compute_join_side_positions_fixed_width`). -/
theorem stroke_polyline_vertex_count (e : Env α) (store : Nat → List α) (hfw : e.o.varWidth = false)
    (hj : e.o.join ≠ .round) (hs : e.o.startCap ≠ .round) (he : e.o.endCap ≠ .round)
    (i0 i1 : Nat) (p0 p1 : P α) (rest : List (Nat × P α))
    (hm : NoMerge e.thr (p0 :: p1 :: rest.map (·.2))) :
    (runEvents e store (IdEv.begin i0 p0 :: IdEv.line i1 p1 :: (lineEvs rest ++ [IdEv.end_ false]))).st.out.verts.length
      = 4 + joinCostFw e (p0 :: p1 :: rest.map (·.2)) :=
  polyline_vertex_count e store hfw hj hs he i0 i1 p0 p1 rest hm

/-- **(c) triangle count of an open polyline.**  Under the hypotheses of
`stroke_polyline_vertex_count` and if no join folds (`NoFoldFw`), the stroke is a triangle strip:
two triangles per edge and one more per join whose miter is not kept, i.e.

    `triangles = vertices - 2 = 2 + Σ over the joins of (2 if the miter is kept | 3 otherwise)`
                `= 2·(n - 1) + #{joins whose miter is not kept}`. -/
theorem stroke_polyline_triangle_count (e : Env α) (store : Nat → List α) (hfw : e.o.varWidth = false)
    (hj : e.o.join ≠ .round) (hs : e.o.startCap ≠ .round) (he : e.o.endCap ≠ .round)
    (i0 i1 : Nat) (p0 p1 : P α) (rest : List (Nat × P α))
    (hm : NoMerge e.thr (p0 :: p1 :: rest.map (·.2))) (hnf : NoFoldFw e (p0 :: p1 :: rest.map (·.2))) :
    (runEvents e store (IdEv.begin i0 p0 :: IdEv.line i1 p1 :: (lineEvs rest ++ [IdEv.end_ false]))).st.out.tris.length
      = 2 + joinCostFw e (p0 :: p1 :: rest.map (·.2)) := by
  have h1 := polyline_euler e store hfw hj hs he i0 i1 p0 p1 rest hm hnf
  have h2 := stroke_polyline_vertex_count e store hfw hj hs he i0 i1 p0 p1 rest hm
  omega

/-- bounds: between 2 and 4 vertices per interior join -/
theorem joinCostFw_bounds (e : Env α) : ∀ pts : List (P α),
    2 * (pts.length - 2) ≤ joinCostFw e pts ∧ joinCostFw e pts ≤ 4 * (pts.length - 2)
  | [] => by simp [joinCostFw]
  | [_] => by simp [joinCostFw]
  | [_, _] => by simp [joinCostFw]
  | a :: b :: c :: rest => by
    have ih := joinCostFw_bounds e (b :: c :: rest)
    have hr := joinVertsFw_range e a b c
    simp only [joinCostFw, List.length_cons] at ih ⊢
    omega

/-- a single segment (`n = 2`): exactly the 4 end vertices, whatever the (non-round) caps -/
theorem stroke_segment_vertex_count (e : Env α) (store : Nat → List α) (hfw : e.o.varWidth = false)
    (hj : e.o.join ≠ .round) (hs : e.o.startCap ≠ .round) (he : e.o.endCap ≠ .round)
    (i0 i1 : Nat) (p0 p1 : P α) (hm : pointsAreTooClose e.thr p0 p1 = false) :
    (runEvents e store [IdEv.begin i0 p0, IdEv.line i1 p1, IdEv.end_ false]).st.out.verts.length = 4 := by
  have := stroke_polyline_vertex_count e store hfw hj hs he i0 i1 p0 p1 [] ⟨hm, trivial⟩
  simpa [lineEvs, joinCostFw] using this

/-- **closed sub-paths produce no caps**: `end(true)` on a full window (at least three kept points)
is `close`, which does not look at the cap options at all — the same state closed under any two
option records gives the same result (`tessellate_last_edge`, `tessellate_first_edge`,
`tessellate_empty_cap` are not reached) -/
theorem closed_subpath_no_caps (e e' : Env α) (step : StepFn α) (st : St α) (h3 : st.buf.count > 2) :
    endSub e step st true = endSub e' step st true
    ∧ (endSub e step st true).out = (close step { st with mayNeedEmptyCap := st.mayNeedEmptyCap || (true && st.buf.count == 1) }).out := by
  have hc : ∀ x : Env α, endSub x step st true
      = { close step { st with mayNeedEmptyCap := st.mayNeedEmptyCap || (true && st.buf.count == 1) } with
          buf := (close step { st with mayNeedEmptyCap := st.mayNeedEmptyCap || (true && st.buf.count == 1) }).buf.clear,
          firsts := [] } := by
    intro x
    unfold endSub
    simp only [Bool.true_and, decide_eq_true_eq]
    rw [if_pos h3]
  exact ⟨by rw [hc e, hc e'], by rw [hc e]⟩

/-- the first point of a run: both step functions just push it -/
theorem step_first (e : Env α) (st : St α) (next : EP α) (h : st.buf.count = 0) :
    e.step st next = (st.push next, true) := by
  have hl : st.buf.last = none := last_none h
  have hc : st.tooClose e.thr next.position = false := tooClose_none hl _ _
  unfold Env.step
  cases e.o.varWidth
  · simpa using fwStep_eq_zero hc (lastTwo_none (by omega)) hl
  · simpa using vwStep_eq_zero hc hl

/-- **a single-point open sub-path** (`begin p, end(false)`) emits nothing -/
theorem stroke_single_point_open (e : Env α) (store : Nat → List α) (i : Nat) (p : P α) :
    (runEvents e store [IdEv.begin i p, IdEv.end_ false]).st.out = Out.empty 0 := by
  have h1 : (runEvents e store [IdEv.begin i p, IdEv.end_ false]).st
      = endSub e e.step ((St.new : St α).push (EP.mk' p (e.hwOf store i) zero e.o.join (.endpoint i) false)) false := by
    unfold runEvents
    simp only [List.foldl_cons, List.foldl_nil, Bool.false_eq_true, if_false]
    show endSub e e.step (e.step { (St.new : St α) with mayNeedEmptyCap := false } _).1 false = _
    rw [step_first e _ _ rfl]; rfl
  rw [h1]
  have hb : ((St.new : St α).push (EP.mk' p (e.hwOf store i) zero e.o.join (.endpoint i) false)).buf.count = 1 := by
    simp [St.push, St.new, PointBuffer.new, PointBuffer.push, PointBuffer.setSlot, PointBuffer.bumpCount]
  generalize hst : (St.new : St α).push (EP.mk' p (e.hwOf store i) zero e.o.join (.endpoint i) false) = st1 at hb
  have hm : st1.mayNeedEmptyCap = false := by subst hst; rfl
  have ho : st1.out = Out.empty 0 := by subst hst; rfl
  unfold endSub
  simp only [Bool.false_and, Bool.or_false, Bool.false_eq_true, if_false]
  rw [endWithCaps_eq_none (by simp [hm]) (lastTwo_none (by show st1.buf.count < 2; omega))]
  exact ho

/-- **a single-point closed sub-path** (`begin p, end(true)`): `may_need_empty_cap` is set and the
documented empty cap is emitted — a square (4 vertices, 2 triangles) for `LineCap::Square`, a disc
fan for `LineCap::Round`, nothing for `LineCap::Butt` -/
theorem stroke_single_point_closed (e : Env α) (store : Nat → List α) (i : Nat) (p : P α) :
    (runEvents e store [IdEv.begin i p, IdEv.end_ true]).st.out
      = match e.o.startCap with
        | .square => tessellateEmptySquareCap p (baseVertex (.endpoint i) p (e.hwOf store i) zero) (Out.empty 0)
        | .round => tessellateEmptyRoundCap p e.o.tolerance (baseVertex (.endpoint i) p (e.hwOf store i) zero) (Out.empty 0)
        | .butt => Out.empty 0 := by
  have h1 : (runEvents e store [IdEv.begin i p, IdEv.end_ true]).st
      = endSub e e.step ((St.new : St α).push (EP.mk' p (e.hwOf store i) zero e.o.join (.endpoint i) false)) true := by
    unfold runEvents
    simp only [List.foldl_cons, List.foldl_nil, Bool.false_eq_true, if_false]
    show endSub e e.step (e.step { (St.new : St α) with mayNeedEmptyCap := false } _).1 true = _
    rw [step_first e _ _ rfl]; rfl
  rw [h1]
  have hbuf : ((St.new : St α).push (EP.mk' p (e.hwOf store i) zero e.o.join (.endpoint i) false)).buf
      = ⟨EP.mk' p (e.hwOf store i) zero e.o.join (.endpoint i) false, EP.default, EP.default, 0, 1⟩ := by
    simp [St.push, St.new, PointBuffer.new, PointBuffer.push, PointBuffer.setSlot, PointBuffer.bumpCount]
  generalize hst : (St.new : St α).push (EP.mk' p (e.hwOf store i) zero e.o.join (.endpoint i) false) = st1 at hbuf
  have ho : st1.out = Out.empty 0 := by subst hst; rfl
  unfold endSub
  have hc : st1.buf.count = 1 := by rw [hbuf]
  simp only [Bool.true_and, hc, beq_self_eq_true, Bool.or_true, decide_eq_true_eq]
  rw [if_neg (by omega), endWithCaps_eq_cap (by simp [hc])]
  show emptyCap e _ = _
  unfold emptyCap
  simp only [hbuf, PointBuffer.get, PointBuffer.slot, ho]
  cases e.o.startCap <;> rfl

/-- the square empty cap: 4 vertices and 2 triangles -/
theorem stroke_single_point_closed_square (e : Env α) (store : Nat → List α) (i : Nat) (p : P α)
    (hc : e.o.startCap = .square) :
    (runEvents e store [IdEv.begin i p, IdEv.end_ true]).st.out.verts.length = 4
    ∧ (runEvents e store [IdEv.begin i p, IdEv.end_ true]).st.out.tris = [(0, 1, 2), (0, 2, 3)] := by
  rw [stroke_single_point_closed, hc]
  simp [tessellateEmptySquareCap, Out.empty, Out.addVertex, Out.addTri]

/-- a merged point: both step functions only remember that an empty cap may be needed -/
theorem step_merged_eq (e : Env α) (st : St α) (next : EP α) (h : st.tooClose e.thr next.position = true) :
    e.step st next = ({ st with mayNeedEmptyCap := st.mayNeedEmptyCap || st.buf.count == 1 }, false) := by
  unfold Env.step
  cases e.o.varWidth
  · simp only [Bool.false_eq_true, if_false]; unfold fwStep; rw [if_pos h]
  · simp only [if_true]; unfold vwStep; simp only []; rw [if_pos h]

/-- **a zero-length segment** (`begin p, line_to q, end(false)` with `q` within the merge threshold of
`p`): the second point is merged, `may_need_empty_cap` is set, and `end` emits the same empty cap as
for a closed single point -/
theorem stroke_zero_length_segment (e : Env α) (store : Nat → List α) (i j : Nat) (p q : P α)
    (hq : pointsAreTooClose e.thr p q = true) :
    (runEvents e store [IdEv.begin i p, IdEv.line j q, IdEv.end_ false]).st.out
      = (runEvents e store [IdEv.begin i p, IdEv.end_ true]).st.out := by
  have hbuf : ((St.new : St α).push (EP.mk' p (e.hwOf store i) zero e.o.join (.endpoint i) false)).buf
      = ⟨EP.mk' p (e.hwOf store i) zero e.o.join (.endpoint i) false, EP.default, EP.default, 0, 1⟩ := by
    simp [St.push, St.new, PointBuffer.new, PointBuffer.push, PointBuffer.setSlot, PointBuffer.bumpCount]
  have h2 : (runEvents e store [IdEv.begin i p, IdEv.end_ true]).st
      = endSub e e.step ((St.new : St α).push (EP.mk' p (e.hwOf store i) zero e.o.join (.endpoint i) false)) true := by
    unfold runEvents
    simp only [List.foldl_cons, List.foldl_nil, Bool.false_eq_true, if_false]
    show endSub e e.step (e.step { (St.new : St α) with mayNeedEmptyCap := false } _).1 true = _
    rw [step_first e _ _ rfl]; rfl
  have h1 : (runEvents e store [IdEv.begin i p, IdEv.line j q, IdEv.end_ false]).st
      = endSub e e.step { (St.new : St α).push (EP.mk' p (e.hwOf store i) zero e.o.join (.endpoint i) false) with
          mayNeedEmptyCap := true } false := by
    unfold runEvents
    simp only [List.foldl_cons, List.foldl_nil, Bool.false_eq_true, if_false]
    show endSub e e.step (e.step (e.step { (St.new : St α) with mayNeedEmptyCap := false } _).1 _).1 false = _
    rw [step_first e { (St.new : St α) with mayNeedEmptyCap := false } _ rfl]
    have hl : ({ (St.new : St α) with mayNeedEmptyCap := false } : St α).push
        (EP.mk' p (e.hwOf store i) (St.new : St α).subPathStartAdvancement e.o.join (.endpoint i) false)
        = (St.new : St α).push (EP.mk' p (e.hwOf store i) zero e.o.join (.endpoint i) false) := rfl
    simp only [hl]
    rw [step_merged_eq]
    · simp only [hbuf, beq_self_eq_true, Bool.or_true]
    · simp only [St.tooClose, hbuf, PointBuffer.last, PointBuffer.get, PointBuffer.slot]
      simpa [EP.mk'] using hq
  rw [h1, h2]
  generalize hst : (St.new : St α).push (EP.mk' p (e.hwOf store i) zero e.o.join (.endpoint i) false) = st1 at hbuf
  have hc : st1.buf.count = 1 := by rw [hbuf]
  unfold endSub
  simp only [Bool.false_and, Bool.or_false, Bool.true_and, hc, beq_self_eq_true, Bool.or_true, decide_eq_true_eq,
    Bool.false_eq_true, if_false]
  rw [if_neg (by omega), endWithCaps_eq_cap (by simp [hc])]

end Counts

/-! ## §4b interpolated attributes: the cached buffer (`Model/Tess/StrokeAttrs.lean`) -/

section Attrs
variable {α : Type} [Scalar α]

/-- a vertex whose emission site reset `buffer_is_valid` reports the attributes of its source,
whatever the cache held -/
theorem attrCache_read_reset (c : AttrCache α) (store : Nat → List α) (s : Src α) :
    (c.read store true s).1 = interpolatedAttributes store s := by
  unfold AttrCache.read
  cases s <;> simp [interpolatedAttributes]

/-- … and so does a vertex read through an invalid cache -/
theorem attrCache_read_invalid (buf : List α) (store : Nat → List α) (reset : Bool) (s : Src α) :
    ((⟨false, buf⟩ : AttrCache α).read store reset s).1 = interpolatedAttributes store s := by
  unfold AttrCache.read
  cases s <;> cases reset <;> simp [interpolatedAttributes]

/-- a second read of the same source WITHOUT a reset in between (a later vertex of the same emission
site) returns the same attributes: resetting once per site is the same as resetting per vertex -/
theorem attrCache_read_again (c : AttrCache α) (store : Nat → List α) (s : Src α) :
    ((c.read store true s).2.read store false s).1 = interpolatedAttributes store s := by
  unfold AttrCache.read
  cases s <;> simp [interpolatedAttributes]

/-- **attributes are consistent, for EVERY vertex** (empty caps included, since /repo fix f1c9127a):
the sequence of attribute lists the vertex constructor reads is, vertex by vertex, the attributes
of the vertex's source — the endpoint's own, or the two endpoints' interpolated at `t` -/
theorem stroke_attributes_consistent (store : Nat → List α) :
    ∀ (verts : List (VData α)) (c : AttrCache α),
      attrsSeq store verts c = verts.map (fun d => interpolatedAttributes store d.src) := by
  intro verts
  induction verts with
  | nil => intro c; rfl
  | cons v vs ih =>
    intro c
    simp only [attrsSeq, List.map_cons, ih]
    rw [attrCache_read_reset]

/-- the same, vertex by vertex -/
theorem stroke_attributes_consistent_get (store : Nat → List α) (verts : List (VData α)) (c : AttrCache α)
    (i : Nat) (d : VData α) (h : verts[i]? = some d) :
    (attrsSeq store verts c)[i]? = some (interpolatedAttributes store d.src) := by
  rw [stroke_attributes_consistent, List.getElem?_map, h]; rfl

/- The former defect (finding `C05-empty-cap-stale-attributes`, fixed by /repo commit f1c9127a; this
   was the theorem `stroke_attributes_stale_witness` while the finding was open): before the fix
   `tessellate_empty_cap` did not reset the cache, i.e. its vertices were read with `reset = false`.
   With `store 3 = [1]`, `store 4 = [2]`, `store 5 = [7]`, an edge vertex `Edge{3,4,t=1/2}` followed by
   an empty-cap vertex with source `Endpoint 5`:
     `(⟨false, []⟩.read store true (.edge 3 4 (1/2)))       = ([3/2], ⟨true, [3/2]⟩)`
     `(⟨true, [3/2]⟩.read store false (.endpoint 5)).1      = [3/2]`   -- stale, not `[7]`
   On lyon: thorough tier, seed 20260929, case 946223 (endpoint 5 reported 0.7478 instead of 1.7198). -/

end Attrs

section AttrsRun
variable {α : Type} [Scalar α] [Transc α] [Asin α] [FlatConst α]

/-- for the whole run: what the vertex constructor reads is the sources' attributes -/
theorem stroke_run_attributes (e : Env α) (store : Nat → List α) (evs : List (IdEv α)) :
    runAttrs e store evs
      = (runEvents e store evs).st.out.verts.map (fun d => interpolatedAttributes store d.src) :=
  stroke_attributes_consistent store _ _

end AttrsRun

/-! ## §5 the hypotheses are satisfiable; concrete instances -/

section Examples
variable {α : Type} [Scalar α] [Transc α] [Asin α] [FlatConst α]

/-- on polylines no flattening loop runs, so the entry points never report a panic: the hypothesis
`tessellateIds … = some out` of the entry-point theorems holds for every polyline -/
theorem tessellateIds_polyline_some (e : Env α) (store : Nat → List α) (evs : List (IdEv α))
    (hp : IsPolyline evs) : tessellateIds e store evs = some (runEvents e store evs).st.out := by
  have key : ∀ (evs : List (IdEv α)) (r : Run α), IsPolyline evs → r.panicked = false →
      (evs.foldl (fun r ev => if r.panicked then r else runEvent e store r ev) r).panicked = false := by
    intro evs
    induction evs with
    | nil => intro r _ h; exact h
    | cons ev evs ih =>
      intro r hp h
      refine ih _ (fun x hx => hp x (by simp [hx])) ?_
      show (if r.panicked = true then r else runEvent e store r ev).panicked = false
      rw [if_neg (by simp [h])]
      have := hp ev (by simp)
      cases ev with
      | begin id p => exact h
      | line id p => exact h
      | quad c id p => exact absurd this (by simp)
      | cubic c1 c2 id p => exact absurd this (by simp)
      | end_ cl => exact h
  have hpk : (runEvents e store evs).panicked = false := key evs _ hp rfl
  unfold tessellateIds
  simp [hpk]

/-- hypothesis of `stroke_indices_valid_polyline` -/
example (p q r : P α) : IsPolyline [IdEv.begin 0 p, .line 1 q, .line 2 r, .end_ true] := by
  intro ev hev
  simp only [List.mem_cons, List.mem_nil_iff, or_false] at hev
  rcases hev with rfl | rfl | rfl | rfl <;> trivial

/-- hypothesis of `mesh_of_vsteps` -/
example : VSteps (fun (_ : Src α) (_ : α) => True) (Out.empty 0) (Out.empty 0) := VSteps.refl _

/-- hypotheses of `stroke_indices_valid_of_reg` (`Reg`, `EvOK`): the polyline instance -/
example (e : Env α) (store : Nat → List α) (p q : P α) :
    Reg e (stdCls e store (evIds [IdEv.begin 0 p, .line 1 q, .end_ false]) (fun f _ => f = false) (fun _ _ h => h))
      (fun _ _ _ => True)
    ∧ ∀ ev ∈ [IdEv.begin 0 p, .line 1 q, .end_ false],
        EvOK e store (stdCls e store (evIds [IdEv.begin 0 p, .line 1 q, .end_ false]) (fun f _ => f = false) (fun _ _ h => h))
          (fun id => id ∈ evIds [IdEv.begin 0 p, .line 1 q, .end_ false] ∨ id = unset) ev :=
  ⟨reg_polyline _ _ _, evOK_std e store _ _ _ rfl (Or.inr (by
    intro ev hev
    simp only [List.mem_cons, List.mem_nil_iff, or_false] at hev
    rcases hev with rfl | rfl | rfl <;> trivial))⟩

end Examples

section ExamplesQ
open Lyon.C05b (toyTransc)
attribute [local instance] toyTransc

/-- toy instances so that the kernel can run the complete model on rationals (`asin` and the
flattening constants are not reached on polylines) -/
@[instance_reducible] noncomputable def toyAsin : Asin ℚ := ⟨id⟩
@[instance_reducible] noncomputable def toyFlat : FlatConst ℚ := ⟨1 / 10000, fun m e => (m : ℚ) / 10 ^ e, 1 / 5⟩
attribute [local instance] toyAsin toyFlat

/-- hypothesis `SkipApart` of `stroke_indices_valid_variable`: holds for every threshold over `ℚ` -/
example (thr : ℚ) : SkipApart thr := skipApart_field thr

noncomputable def exOpts (j : LineJoin) (vw : Bool) : Opts ℚ := ⟨1 / 10, 1, 4, j, .butt, .butt, vw, 0⟩
noncomputable def exEnv (j : LineJoin) (vw : Bool) : Env ℚ := Env.new (exOpts j vw) (fun _ _ _ _ => none)

/-- hypothesis of `stroke_indices_valid_partial` / `stroke_mesh_partial` -/
example : (exEnv .bevel false).o.varWidth = true ∨ (exEnv .bevel false).o.join ≠ .miterClip :=
  Or.inr (by decide)
example : (exEnv .miterClip true).o.varWidth = true ∨ (exEnv .miterClip true).o.join ≠ .miterClip :=
  Or.inl rfl

/-- hypotheses of `stroke_polyline_vertex_count` (`NoMerge`, non-round join and caps) on the
right-angle polyline; the join keeps neither a fold nor a miter: 3 vertices -/
example : NoMerge (exEnv .bevel false).thr [⟨0, 0⟩, ⟨10, 0⟩, ⟨10, 10⟩] := by
  simp [NoMerge, pointsAreTooClose, exEnv, exOpts, Env.new, squareMergeThreshold, geom]
  norm_num

example : (exEnv .bevel false).o.join ≠ .round ∧ (exEnv .bevel false).o.startCap ≠ .round
    ∧ (exEnv .bevel false).o.endCap ≠ .round := by decide

example : joinCostFw (exEnv .bevel false) [⟨0, 0⟩, ⟨10, 0⟩, ⟨10, 10⟩] = 3
    ∧ joinCostFw (exEnv .miter false) [⟨0, 0⟩, ⟨10, 0⟩, ⟨10, 10⟩] = 2
    ∧ joinCostFw (exEnv .bevel false) [⟨0, 0⟩, ⟨10, 0⟩, ⟨0, 0⟩] = 4 := by
  decide +kernel

/-- … so the theorem gives `4 + 3 = 7` vertices, as the kernel computed above -/
example : (runEvents (exEnv .bevel false) (fun _ => [])
    (IdEv.begin 0 ⟨0, 0⟩ :: IdEv.line 1 ⟨10, 0⟩ :: (lineEvs [(2, ⟨10, 10⟩)] ++ [IdEv.end_ false]))).st.out.verts.length = 7 := by
  rw [stroke_polyline_vertex_count _ _ rfl (by decide) (by decide) (by decide)]
  · decide +kernel
  · simp [NoMerge, pointsAreTooClose, exEnv, exOpts, Env.new, squareMergeThreshold, geom]
    norm_num

/-- hypothesis `NoFoldFw` of `stroke_polyline_triangle_count`: the right-angle join does not fold;
the theorem then gives `2 + 3 = 5` triangles, as the kernel computes below -/
example : NoFoldFw (exEnv .bevel false) [⟨0, 0⟩, ⟨10, 0⟩, ⟨10, 10⟩] := by
  refine ⟨?_, trivial⟩
  unfold noFoldAt
  decide +kernel

/-- hypothesis of `flattened_step_sides` (the join is not skipped) on a straight flattened step -/
example : (flattenedStep (EP.mk' (⟨0, 0⟩ : P ℚ) 1 0 .miter (.endpoint 0) false)
    (EP.mk' ⟨10, 0⟩ 1 0 .miter (.edge 0 1 (1 / 2)) true) (EP.mk' ⟨20, 0⟩ 1 0 .miter (.endpoint 1) false)
    (baseVertex (.edge 0 1 (1 / 2)) ⟨10, 0⟩ 1 0) (Out.empty 0)).skip = false := by
  decide +kernel

/-- hypothesis of `stroke_zero_length_segment`: a point within the merge threshold -/
example : pointsAreTooClose (exEnv .bevel false).thr ⟨0, 0⟩ ⟨1 / 1000, 0⟩ = true := by
  simp [pointsAreTooClose, exEnv, exOpts, Env.new, squareMergeThreshold, geom]
  norm_num

/-- hypothesis of `closed_subpath_no_caps`: a full window -/
example : (runEvents (exEnv .bevel false) (fun _ => [])
    [.begin 0 ⟨0, 0⟩, .line 1 ⟨10, 0⟩, .line 2 ⟨10, 10⟩]).st.buf.count > 2 := by
  decide +kernel

/-- the complete model run by the kernel: an open right-angle polyline, fixed width 1, bevel join,
butt caps: 7 vertices (join: 1 inner + 2 outer; 2 + 2 at the ends), 5 triangles, all over valid ids
(the same input at `Float` gives the same lists: `#eval`) -/
example :
    (tessellateFw (exEnv .bevel false) [.begin ⟨0, 0⟩, .line ⟨10, 0⟩, .line ⟨10, 10⟩, .end_ false]).map
      (fun o => (o.verts.length, o.tris))
    = some (7, [(0, 2, 1), (1, 2, 3), (1, 3, 4), (6, 5, 2), (6, 2, 0)]) := by
  decide +kernel

/-- a closed square: no caps, 3 vertices per join and the two re-created vertices of `close` -/
example :
    (tessellateFw (exEnv .bevel false)
      [.begin ⟨0, 0⟩, .line ⟨10, 0⟩, .line ⟨10, 10⟩, .line ⟨0, 10⟩, .end_ true]).map
      (fun o => (o.verts.length, o.tris))
    = some (14, [(0, 2, 1), (1, 2, 5), (1, 5, 3), (3, 5, 4), (4, 5, 8), (4, 8, 6), (6, 8, 7), (7, 8, 11),
        (7, 11, 9), (9, 11, 10), (13, 12, 2), (13, 2, 0)]) := by
  decide +kernel

end ExamplesQ

end Lyon.C05c
