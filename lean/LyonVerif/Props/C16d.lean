/-
  C16d — the PROVIDED methods of `PathBuilder` (`close`, `path_event`, `event`, `add_polygon`,
  `add_point`, `add_line_segment`, `add_rectangle`, `add_rounded_rectangle`, `add_circle`,
  `add_ellipse`) sent THROUGH the adapters.

  The model (`Model/Path/AdaptersHelpers.lean`): a builder program is a list of `Cmd`s; a
  provided method is its default body, i.e. the primitive calls `Cmd.expand` it makes on the
  builder that receives it; no adapter of lyon_path overrides a provided method, so
  `adapter(cmds) = adapter(expandProg cmds)` — the definition the driver runs against the real
  adapters driven through the real provided methods, bit for bit, on every check.

  * `helpers_expand_wellnested`        a helper program that follows the protocol
                                       `(begin edge* end | add_*)*` expands to a well-nested
                                       program of primitive calls (every `add_*` helper is empty
                                       or ONE complete sub-path: polygon, rectangle, rounded
                                       rectangle with any radii, circle, ellipse with any number
                                       of arcs, point, segment).
  * `helpers_commute_with_transform`   for EVERY point map `g` (every affine map included) and
                                       every helper call: `Transformed(g)` applied to the
                                       helper's expansion yields the expansion's events mapped by
                                       `g`; the adapter acts call by call; whole programs too.
  * `helpers_commute_with_transform_stored`  … and the stored route: the helper program stored by
                                       `Path::builder_with_attributes(n)`, transformed in place
                                       and iterated, gives the same events; in place = built
                                       through `Transformed`, slot for slot.
  * `helpers_no_attributes`            `NoAttributes<B>`'s inherent `add_x(..)` (forwarding to
                                       `B::add_x(.., NO_ATTRIBUTES)`) = its `PathBuilder` impl on
                                       the default body.
  * `helpers_flatten`                  flattening adapters on helper programs: well nested, only
                                       lines, both nesting orders; every endpoint of the expansion
                                       kept exactly, in order, with the helper's attributes.
  * `helpers_point_params_commute`     a helper whose parameters are all POINTS (polygon, point,
                                       segment, path_event, event, primitives) may equally be
                                       called with transformed parameters, for every map …
  * `rectangle_params_commute_diagonal`  … `add_rectangle` only for maps WITHOUT rotation / skew
                                       (diagonal linear part: translations, scales, mirrors), and
  * `rectangle_params_rotation_witness`  not for a quarter turn (kernel-evaluated on the model over
                                       ℚ): an override `Transformed::add_rectangle` that forwards
                                       the box spanned by the transformed `min` / `max` is not
                                       "transforming while being built".
  * `circle_params_commute_translation`  `add_circle` with a transformed centre: translations.
  * `stored_concat`, `stored_by_concatenation`, `helpers_stored_by_concatenation`
                                       a stored path put together with `extend_from_paths` from
                                       separately built well-nested pieces (any mixture with direct
                                       calls: `storePieces`, what the driver runs for the stored
                                       route) is the path of the whole program (points, verbs,
                                       attribute slots): the stored-route theorems apply to it.
-/
import LyonVerif.Props.C16
import LyonVerif.Lemmas.AdaptersHelpers
import LyonVerif.Lemmas.AdaptersHelpersStored

set_option linter.unusedSectionVars false
set_option linter.unusedVariables false

geom_all Lyon.PathShapes
geom_all Lyon.Xf

namespace Lyon.C16
open Lyon Lyon.Path Lyon.Adapt

/-! ## Stored by concatenation (`extend_from_paths`) -/

section Concat
variable {S : Type} [Inhabited S]

/-- A path stored from a program `p1`, extended with `extend_from_paths(&[path of p2])` (`p2`
a well-nested program built on its own), is the path of `p1 ++ p2`: same points (attribute
slots and the first-point copies of closed sub-paths included), same verbs.  The builder's
`first` / `first_attributes`, which `extend_from_paths` leaves stale, are never read before the
next `begin` overwrites them. -/
theorem stored_concat (n : Nat) (p1 p2 : List (Call (Pt S) (List S)))
    (h2 : WellNested p2) (a1 : attrsOk n p1 = true) (a2 : attrsOk n p2 = true) :
    buildWithAttributes n (p1 ++ p2) =
      (buildWithAttributes n p1).bind fun a => (buildWithAttributes n p2).bind fun b =>
        concatPaths a [b] := by
  rw [buildWithAttributes_emit n p1 a1, buildWithAttributes_emit n p2 a2,
    buildWithAttributes_emit n (p1 ++ p2) (by simp [attrsOk_append, a1, a2])]
  simp [concatPaths, emitVerbs_append,
    emitPts_append_wellNested zeroPt zeroPt (List.replicate n default) (List.replicate n default)
      p1 p2 h2]

/-- Any mixture of direct calls and `extend_from_paths` (`storePieces`: the way the harness
stores a program with `cut` marks, run by the driver of family `ix`): direct pieces driven into
the final builder, every other piece built by `Path::builder_with_attributes(n)` on its own and
each run of them appended with one `extend_from_paths` call.  If every piece is well nested the
result is the storage of the whole program — so everything proved about stored paths
(`transform_commutes`, `transform_commutes_stored`) holds for paths stored by concatenation. -/
theorem stored_by_concatenation (n : Nat) (pieces : List (List (Call (Pt S) (List S)) × Bool))
    (hq : ∀ p ∈ pieces, WellNested p.1) (hqa : ∀ p ∈ pieces, attrsOk n p.1 = true) :
    storePieces n (BuilderWithAttributes.new n) [] pieces
      = buildWithAttributes n (pieces.map (·.1)).flatten := by
  have h := storePieces_emit n (BuilderWithAttributes.new n) rfl
    (by simp [BuilderWithAttributes.new]) [] pieces (by simp) (by simp) hq hqa
  rw [buildWithAttributes_emit n _ (attrsOk_flatten n _ (by
    intro q hq'
    obtain ⟨x, hx, rfl⟩ := List.mem_map.1 hq'
    exact hqa x hx))]
  simpa [BuilderWithAttributes.new, BuilderImpl.new] using h

end Concat

/-! ## Any scalar type (Float32 included) -/

section General
variable {α : Type} [Scalar α] [Transc α]

/-- A program with helper calls that follows the protocol — `add_*` helpers only between
sub-paths, `close` / `path_event` / `event` where the primitive they stand for may be — expands
to a well-nested program of primitive calls: every `add_*` helper makes nothing or exactly one
complete sub-path, whatever its parameters (degenerate boxes, clamped / zero / negative radii,
empty polygons, any number of ellipse arcs). -/
theorem helpers_expand_wellnested (cmds : List (Cmd α)) (h : CmdsNested cmds) :
    WellNested (expandProg cmds) :=
  (wellNestedFrom_iff_nestState _ _).2 (nestState_expandProg false cmds h)

/-- Transforming while building commutes with every provided method: for every point map `g`
(in particular `Xf.apply m` for every affine `m`) and every helper call `c`, the events of
`Transformed(g)` applied to the helper's expansion are the events of the expansion mapped by
`g`; the adapter acts call by call (what it sends for a program is the concatenation of what it
sends for each call: no state is carried from one helper to the next); hence for whole
programs built = iterated.  No hypothesis: any program, well nested or not. -/
theorem helpers_commute_with_transform (g : P α → P α) (cmds : List (Cmd α)) :
    (∀ c ∈ cmds, specEvents (xfBuilder g c.expand) = xfIter g (specEvents c.expand)) ∧
    xfBuilder g (expandProg cmds) = cmds.flatMap (fun c => xfBuilder g c.expand) ∧
    specEvents (xfBuilder g (expandProg cmds)) = xfIter g (specEvents (expandProg cmds)) :=
  ⟨fun c _ => transform_commutes_builder_iter g c.expand,
   by simp [xfBuilder, expandProg, List.map_flatMap],
   transform_commutes_builder_iter g (expandProg cmds)⟩

/-- … and after storing: a helper program that follows the protocol, every call with `n`
attributes, stored by `Path::builder_with_attributes(n)`, transformed in place
(`Path::transformed`; no index of the walk outside the storage) and iterated gives exactly the
events of the program built through `Transformed(g)`; the transformed storage IS the storage
built through `Transformed(g)`, slot for slot. -/
theorem helpers_commute_with_transform_stored [Inhabited α] (g : P α → P α) (n : Nat)
    (cmds : List (Cmd α)) (hn : CmdsNested cmds) (ha : ∀ c ∈ cmds, c.attrsLen n = true) :
    (buildWithAttributes n (xfBuilder toPt (expandProg cmds))).bind
        (fun p => (applyTransform (onPt g) p).bind PathData.iter)
      = some (xfIter toPt (specEvents (xfBuilder g (expandProg cmds)))) ∧
    (buildWithAttributes n (xfBuilder toPt (expandProg cmds))).bind (applyTransform (onPt g))
      = buildWithAttributes n (xfBuilder toPt (xfBuilder g (expandProg cmds))) := by
  have hw : WellNested (xfBuilder toPt (expandProg cmds)) :=
    (flatten_wellnested (α := α) ⟨fun _ _ _ => [], fun _ _ _ _ => []⟩ ⟨Scalar.zero, Scalar.zero⟩ 0
      toPt _ (helpers_expand_wellnested cmds hn)).2.1
  have hok : attrsOk n (xfBuilder toPt (expandProg cmds)) = true := by
    rw [xfBuilder, attrsOk_toPt]
    exact attrsLen_expandProg n cmds ha
  refine ⟨?_, ?_⟩
  · rw [(transform_commutes (onPt g) n _ hw hok).2, ← transform_commutes_builder_iter,
      ← transform_commutes_builder_iter, xfBuilder_onPt]
  · rw [(transform_commutes_stored (onPt g) n _ hw hok).1, xfBuilder_onPt]

/-- `NoAttributes<B>`: its inherent helper methods forward to `B`'s provided method with
`NO_ATTRIBUTES`; its `PathBuilder` impl runs the default body on itself and strips the
attributes of every primitive call.  Both send `B` the same calls. -/
theorem helpers_no_attributes (cmds : List (Cmd α)) :
    expandProg (cmds.map noAttrCmd) = noAttrBuilder (B := α) (expandProg cmds) :=
  expandProg_noAttrCmd cmds

/-- A helper whose parameters are all points may be called with transformed parameters instead
of being transformed call by call: the same calls, for every point map. -/
theorem helpers_point_params_commute (g : P α → P α) (c : Cmd α) (h : c.pointParams = true) :
    (c.mapParams g).expand = xfBuilder g c.expand :=
  expand_mapParams_points g c h

/-- the concatenation mark is no call -/
theorem helpers_cut (l1 l2 : List (Cmd α)) :
    expandProg (l1 ++ Cmd.cut :: l2) = expandProg l1 ++ expandProg l2 := by
  simp [expandProg, Cmd.expand]

/-- A helper program with `cut` marks (between sub-paths), stored piece by piece with
`extend_from_paths` as the harness does, is stored exactly as the whole program. -/
theorem helpers_stored_by_concatenation [Inhabited α] (n : Nat) (cmds : List (Cmd α))
    (hn : ∀ p ∈ piecesOf cmds, CmdsNested p.1)
    (ha : ∀ p ∈ piecesOf cmds, ∀ c ∈ p.1, c.attrsLen n = true) :
    storePieces n (BuilderWithAttributes.new n) []
        ((piecesOf cmds).map fun p => (xfBuilder toPt (expandProg p.1), p.2))
      = buildWithAttributes n (xfBuilder toPt (expandProg cmds)) := by
  rw [stored_by_concatenation]
  · congr 1
    rw [← expandProg_piecesOf cmds]
    simp [xfBuilder, List.map_flatten, List.map_map, Function.comp_def]
  · intro p hp
    obtain ⟨x, hx, rfl⟩ := List.mem_map.1 hp
    exact (flatten_wellnested (α := α) ⟨fun _ _ _ => [], fun _ _ _ _ => []⟩
      ⟨Scalar.zero, Scalar.zero⟩ 0 toPt _ (helpers_expand_wellnested x.1 (hn x hx))).2.1
  · intro p hp
    obtain ⟨x, hx, rfl⟩ := List.mem_map.1 hp
    simp only [xfBuilder, attrsOk_toPt]
    exact attrsLen_expandProg n x.1 (ha x hx)

/-- Flattening adapters on helper programs that follow the protocol: the wrapped builder
receives a well-nested program in both nesting orders with a transform, made of
begin / line / end only. -/
theorem helpers_flatten {π' : Type} (F : Flattener (P α) α) (o : P α) (n : Nat) (g : P α → π')
    (cmds : List (Cmd α)) (h : CmdsNested cmds) :
    WellNested (flatBuilder F o n (expandProg cmds)) ∧
    WellNested (xfBuilder g (flatBuilder F o n (expandProg cmds))) ∧
    (∀ c ∈ flatBuilder F o n (expandProg cmds), Call.isFlat c = true) :=
  have hw := flatten_wellnested F o n g _ (helpers_expand_wellnested cmds h)
  ⟨hw.1, hw.2.2.2.1, (flatten_only_lines F ⟨fun _ _ _ => [], fun _ _ _ _ => []⟩ o n _ [] []).1⟩

end General

/-! ## Ordered fields: which maps commute with a helper's PARAMETERS -/

section Field
variable {K : Type} [Field K] [LinearOrder K] [IsStrictOrderedRing K] [Transc K]

/-- Flattening a helper program keeps every endpoint of the helper's expansion (the corners of a
rectangle, the arc ends of a circle / ellipse / rounded rectangle, …) exactly, in order, with
the attributes given to the helper, and the sub-path marks; both nesting orders with a map `g`
keep the transformed endpoints. -/
theorem helpers_flatten_keeps_endpoints (F F' : Flattener (P K) K) (hF : EndsAtTo F)
    (hF' : EndsAtTo F') (g : P K → P K) (o o' : P K) (n : Nat) (cmds : List (Cmd K)) :
    List.Sublist (endpoints (expandProg cmds)) (endpoints (flatBuilder F o n (expandProg cmds))) ∧
    (flatBuilder F o n (expandProg cmds)).filter Call.isMark
      = (expandProg cmds).filter Call.isMark ∧
    List.Sublist ((endpoints (expandProg cmds)).map fun e => (g e.1, e.2))
      (endpoints (xfBuilder g (flatBuilder F o n (expandProg cmds)))) ∧
    List.Sublist ((endpoints (expandProg cmds)).map fun e => (g e.1, e.2))
      (endpoints (flatBuilder F' o' n (xfBuilder g (expandProg cmds)))) :=
  have h := flatten_keeps_endpoints F hF o n (expandProg cmds)
  have h' := nesting_orders F F' hF hF' g o o' n (expandProg cmds)
  ⟨h.1, h.2, h'.1, h'.2⟩

/-- `add_rectangle` called with the transformed `min` / `max` (the box they span) sends the
transformed corners, in the same order, for every affine map WITHOUT rotation / skew
(`m12 = m21 = 0`: translations, scales — negative and non-uniform ones too), both windings. -/
theorem rectangle_params_commute_diagonal (m : Xf K) (h12 : m.m12 = 0) (h21 : m.m21 = 0)
    (mn mx : P K) (w : Bool) (a : List K) :
    ((Cmd.rectangle mn mx w a).mapParams m.apply).expand
      = xfBuilder m.apply (Cmd.rectangle mn mx w a).expand := by
  cases w <;>
    simp [Cmd.mapParams, Cmd.expand, xfBuilder, PathShapes.addRectangle, PathShapes.rectPoints,
      PathShapes.addPolygon, withAttr, mapCall, Xf.apply, h12, h21]

/-- `add_circle` called with the transformed centre sends the transformed calls for
translations. -/
theorem circle_params_commute_translation (tx ty : K) (c : P K) (r : K) (w : Bool) (a : List K) :
    ((Cmd.circle c r w a).mapParams (Xf.apply ⟨1, 0, 0, 1, tx, ty⟩)).expand
      = xfBuilder (Xf.apply ⟨1, 0, 0, 1, tx, ty⟩) (Cmd.circle c r w a).expand := by
  simp only [Cmd.mapParams, Cmd.expand, xfBuilder, PathShapes.addCircle, List.map_cons,
    List.map_nil, withAttr, mapCall, PathShapes.off, Xf.apply, List.cons.injEq, Call.begin.injEq,
    Call.cubic.injEq, and_true]
  refine ⟨?_, ⟨?_, ?_, ?_⟩, ⟨?_, ?_, ?_⟩, ⟨?_, ?_, ?_⟩, ⟨?_, ?_, ?_⟩⟩ <;> geom_ring

end Field

/-! ## The seeded-defect shape, evaluated: a quarter turn -/

/-- the x / y coordinates a program visits (ℚ has decidable equality; `P ℚ` derives none) -/
def coords {A : Type} : List (Call (P Rat) A) → List Rat
  | [] => []
  | .begin p _ :: r => p.x :: p.y :: coords r
  | .line p _ :: r => p.x :: p.y :: coords r
  | .quad c p _ :: r => c.x :: c.y :: p.x :: p.y :: coords r
  | .cubic c d p _ :: r => c.x :: c.y :: d.x :: d.y :: p.x :: p.y :: coords r
  | .end_ _ :: r => coords r

/-- `add_rectangle` with the quarter-turned `min` / `max` is NOT the quarter-turned rectangle:
box (1,2)-(5,4), `g(x, y) = (-y, x)`.  Transformed corners: (-2,1) (-2,5) (-4,5) (-4,1); the box
spanned by the transformed `min` / `max`: (-2,1) (-4,1) (-4,5) (-2,5) — same point set here,
other order (the winding flips), and for a box that is not mapped onto a box (any other angle,
any skew) other points altogether. -/
theorem rectangle_params_rotation_witness :
    coords (PathShapes.addRectangle (Xf.apply ⟨0, 1, -1, 0, 0, 0⟩ ⟨1, 2⟩)
        (Xf.apply ⟨0, 1, -1, 0, 0, 0⟩ ⟨5, 4⟩) true)
      = [-2, 1, -4, 1, -4, 5, -2, 5] ∧
    coords (xfBuilder (Xf.apply (⟨0, 1, -1, 0, 0, 0⟩ : Xf Rat))
        (PathShapes.addRectangle (⟨1, 2⟩ : P Rat) ⟨5, 4⟩ true))
      = [-2, 1, -2, 5, -4, 5, -4, 1] ∧
    PathShapes.addRectangle (Xf.apply ⟨0, 1, -1, 0, 0, 0⟩ ⟨1, 2⟩)
        (Xf.apply ⟨0, 1, -1, 0, 0, 0⟩ ⟨5, 4⟩) true
      ≠ xfBuilder (Xf.apply (⟨0, 1, -1, 0, 0, 0⟩ : Xf Rat))
        (PathShapes.addRectangle (⟨1, 2⟩ : P Rat) ⟨5, 4⟩ true) := by
  have h1 : coords (PathShapes.addRectangle (Xf.apply ⟨0, 1, -1, 0, 0, 0⟩ ⟨1, 2⟩)
        (Xf.apply ⟨0, 1, -1, 0, 0, 0⟩ ⟨5, 4⟩) true)
      = [-2, 1, -4, 1, -4, 5, -2, 5] := by decide +kernel
  have h2 : coords (xfBuilder (Xf.apply (⟨0, 1, -1, 0, 0, 0⟩ : Xf Rat))
        (PathShapes.addRectangle (⟨1, 2⟩ : P Rat) ⟨5, 4⟩ true))
      = [-2, 1, -2, 5, -4, 5, -4, 1] := by decide +kernel
  refine ⟨h1, h2, fun h => ?_⟩
  rw [h] at h1
  rw [h1] at h2
  exact absurd h2 (by decide +kernel)

/-! ## Non-vacuity -/

section Examples

/-- hypotheses of `helpers_expand_wellnested` / `helpers_commute_with_transform_stored` on a
program that uses every kind of entry point but `add_ellipse` (over ℚ) -/
def exampleCmds : List (Cmd Rat) :=
  [ .pathEvent (.begin ⟨0, 0⟩) [1], .event (.line (⟨9, 9⟩, [7]) (⟨4, 0⟩, [2])),
    .prim (.quad ⟨5, 5⟩ ⟨0, 4⟩ [3]), .close,
    .rectangle ⟨1, 2⟩ ⟨5, 4⟩ true [4], .cut, .circle ⟨0, 0⟩ 2 false [5],
    .roundedRectangle ⟨0, 0⟩ ⟨8, 6⟩ ⟨1, 0, 9, 2⟩ true [6], .polygon [] true [0],
    .polygon [⟨0, 0⟩, ⟨1, 0⟩, ⟨0, 1⟩] false [8], .point ⟨3, 3⟩ [9], .segment ⟨0, 0⟩ ⟨1, 1⟩ [10] ]

example : CmdsNested exampleCmds ∧ (∀ c ∈ exampleCmds, c.attrsLen 1 = true) := by
  decide +kernel

/-- … and of `helpers_stored_by_concatenation`: its two pieces -/
example : (∀ p ∈ piecesOf exampleCmds, CmdsNested p.1) ∧
    (∀ p ∈ piecesOf exampleCmds, ∀ c ∈ p.1, c.attrsLen 1 = true) ∧
    (piecesOf exampleCmds).length = 2 := by
  decide +kernel

/-- hypotheses of `rectangle_params_commute_diagonal`: a mirrored non-uniform scale with a
translation -/
example : (⟨-2, 0, 0, 3, 1, 1⟩ : Xf Rat).m12 = 0 ∧ (⟨-2, 0, 0, 3, 1, 1⟩ : Xf Rat).m21 = 0 :=
  ⟨rfl, rfl⟩

/-- hypotheses of `stored_concat` -/
example : WellNested ([.begin ((0:Int), (0:Int)) [1], .line (1, 1) [2], .end_ true]
      : List (Call (Pt Int) (List Int))) ∧
    attrsOk 1 ([.begin ((0:Int), (0:Int)) [1], .line (1, 1) [2], .end_ true]
      : List (Call (Pt Int) (List Int))) = true := by decide

end Examples

end Lyon.C16
