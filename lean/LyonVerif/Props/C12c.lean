/-
  C12, cubic × cubic: the fat-line (Bézier) clipper of `crates/geom/src/cubic_bezier_intersections.rs`.

  All statements are about the model functions of `Model/Geom/Clip.lean` (the same `def`s the
  correspondence check runs at `Float32`/`Float`, bit for bit against lyon) instantiated at an
  arbitrary linearly ordered field `K`.  `sqrt`, `is_nan`, the float→int cast (`Transc K`) and lyon's
  `EPSILON`/`epsilon_for` (`Eps K`) are arbitrary parameters: NO law about them is assumed anywhere
  in this file (the clip theorems hold whatever `1 / sqrt(a² + b²)` evaluates to, even 0).
  `S::value` literals are their exact decimal values (`Clip.fieldLit`); `signum` is the field sign.

  What is proved for ALL inputs (exact arithmetic):
   (a) the clip never throws away a common point (`clip_sound`, `clip_keeps_common_points`), from the
       convex-hull property of Bernstein polynomials, which is proved here, not assumed
       (`bernstein_le_line`, `hull_chains_bound`), and the fat-line property (`fat_line_contains_curve`);
   (b) every reported pair lies in [0,1]², for every fuel (`add_curve_intersections_in_unit_square`,
       `cubic_intersections_in_unit_square`);
   (c) domain bookkeeping: `domain_value_at_t` is the affine map, restriction composes, every
       recursive call works on the restriction of the ORIGINAL curves to the domains it is given
       (`reach_consistent`), and no step drops a crossing lying in its domains, except at the
       leaves where thresholds decide (`step_keeps_crossing`);
   (d) swapping the curves swaps the pairs — only in the branches where it is true
       (`swap_partial`); in the clipping branch it is FALSE of the code (open finding
       C12-cubic-cubic-unstable-miss).
  What is NOT a theorem: completeness/accuracy of the whole recursion under rounding, and what the
  leaves report (convergence thresholds, de-duplication, the sampling of
  `add_point_curve_intersection`): covered by the bit-level tie and the oracle only.
-/
import LyonVerif.Lemmas.ClipFat
import LyonVerif.Lemmas.ClipRec
import LyonVerif.Lemmas.ClipBook

set_option linter.unusedSectionVars false
set_option linter.unusedVariables false
set_option linter.unusedSimpArgs false

namespace Lyon.C12c
open Lyon Scalar Lyon.Clip
variable {K : Type} [Field K] [LinearOrder K] [IsStrictOrderedRing K]

/-- a dummy `Transc ℚ` / `Eps ℚ` for the non-vacuity examples (no law is assumed anywhere) -/
instance exTransc : Transc ℚ where
  sqrt x := x
  cbrt x := x
  sin x := x
  cos x := x
  tan x := x
  acos x := x
  atan2 x _ := x
  pow x _ := x
  log2 x := x
  ln x := x
  floor x := x
  ceil x := x
  toNat x := x.floor.toNat
  fmod x _ := x
  eps := 0
  pi := 3
  isNaN _ := false
  isFinite _ := true
instance exEps : Eps ℚ where
  epsilon := 1 / 10000
  epsilonFor _ := 1 / 10000

/-! ## (a) the clip keeps every common point -/

/-- The signed distance of the points of a cubic to a line `a x + b y + c` is the cubic Bernstein
polynomial of the four control points' distances. -/
theorem distance_is_bernstein (e : LineEq K) (c : Cubic K) (t : K) :
    LineEq.signedDistance e (c.sample t)
      = bern (LineEq.signedDistance e c.a) (LineEq.signedDistance e c.c1)
          (LineEq.signedDistance e c.c2) (LineEq.signedDistance e c.b) t :=
  signedDistance_sample e c t

/-- **Convex-hull property (proved).**  If the line `y = m x + k` is above the four control points
`(0, d0), (1/3, d1), (2/3, d2), (1, d3)` then it is above the Bernstein polynomial on [0,1]. -/
theorem bernstein_le_line (d0 d1 d2 d3 m k t : K) (h0 : d0 ≤ k) (h1 : d1 ≤ m * (1 / 3) + k)
    (h2 : d2 ≤ m * (2 / 3) + k) (h3 : d3 ≤ m + k) (ht0 : 0 ≤ t) (ht1 : t ≤ 1) :
    bern d0 d1 d2 d3 t ≤ m * t + k := by
  have h := (edgeAbove_of_ctrl d0 d1 d2 d3 ⟨0, k⟩ ⟨1, m + k⟩ (by norm_num)
    (by dsimp only; linarith) (by dsimp only; linarith) (by dsimp only; linarith)
    (by dsimp only; linarith)).2 t ht0 ht1
  dsimp only at h
  linarith

example : (0:ℚ) ≤ 1 ∧ (2:ℚ) ≤ 3 * (1 / 3) + 1 ∧ (1:ℚ) ≤ 3 * (2 / 3) + 1 ∧ (4:ℚ) ≤ 3 + 1 := by norm_num

/-- ... and symmetrically from below. -/
theorem line_le_bernstein (d0 d1 d2 d3 m k t : K) (h0 : k ≤ d0) (h1 : m * (1 / 3) + k ≤ d1)
    (h2 : m * (2 / 3) + k ≤ d2) (h3 : m + k ≤ d3) (ht0 : 0 ≤ t) (ht1 : t ≤ 1) :
    m * t + k ≤ bern d0 d1 d2 d3 t := by
  have h := (edgeBelow_of_ctrl d0 d1 d2 d3 ⟨0, k⟩ ⟨1, m + k⟩ (by norm_num)
    (by dsimp only; linarith) (by dsimp only; linarith) (by dsimp only; linarith)
    (by dsimp only; linarith)).2 t ht0 ht1
  dsimp only at h
  linarith

example : (0:ℚ) ≤ 1 ∧ (0:ℚ) * (1 / 3) + 0 ≤ 2 ∧ (0:ℚ) * (2 / 3) + 0 ≤ 1 ∧ (0:ℚ) + 0 ≤ 4 := by norm_num

/-- **The hull computed by `convex_hull_of_distance_curve` is a hull** in every branch (one control
point on each side, triangle on `p1`, triangle on `p2`, quadrilateral; flipped or not): both
chains run from `x = 0` to `x = 1` through a common first and last vertex, every edge of `top` is
a line above, every edge of `bottom` a line below the distance polynomial on [0,1]. -/
theorem hull_chains_bound (d0 d1 d2 d3 : K) :
    HullOK (bern d0 d1 d2 d3) (convexHull d0 d1 d2 d3).1 (convexHull d0 d1 d2 d3).2 :=
  convexHull_ok d0 d1 d2 d3

variable [Transc K]

/-- **Fat-line property.**  Every point of a cubic has its signed distance to the cubic's own
baseline equation inside `[d_min, d_max] = fat_line_min_max()` (factors 3/4 and 4/9). -/
theorem fat_line_contains_curve (c : Cubic K) (u : K) (h0 : 0 ≤ u) (h1 : u ≤ 1) :
    (fatLineMinMax c).1 ≤ LineEq.signedDistance (baselineEq c) (c.sample u)
    ∧ LineEq.signedDistance (baselineEq c) (c.sample u) ≤ (fatLineMinMax c).2 :=
  fatLine_contains c u h0 h1

example : (0:ℚ) ≤ 1 / 3 ∧ (1 / 3 : ℚ) ≤ 1 := by norm_num

/-- **Clipping soundness.**  If the point `curve1(t)`, `t ∈ [0,1]`, has its signed distance to
`curve2`'s baseline inside `curve2`'s fat line `[d_min, d_max]`, then
`restrict_curve_to_fat_line(curve1, curve2)` does not answer `None` and `t` lies in the returned
interval.  No hypothesis on the curves (degenerate baselines included), none on `sqrt`. -/
theorem clip_sound (c1 c2 : Cubic K) (t : K) (ht0 : 0 ≤ t) (ht1 : t ≤ 1)
    (hlo : (fatLineMinMax c2).1 ≤ LineEq.signedDistance (baselineEq c2) (c1.sample t))
    (hhi : LineEq.signedDistance (baselineEq c2) (c1.sample t) ≤ (fatLineMinMax c2).2) :
    ∃ lo hi, restrictCurveToFatLine c1 c2 = some (lo, hi) ∧ lo ≤ t ∧ t ≤ hi := by
  rw [signedDistance_sample] at hlo hhi
  unfold restrictCurveToFatLine
  exact clipHull_sound (convexHull_ok _ _ _ _) _ _ t ht0 ht1 hlo hhi

/-- **The clip never throws away a real crossing.**  If `curve1(t) = curve2(u)` with
`t, u ∈ [0,1]`, the clip of `curve1` against `curve2`'s fat line keeps `t`. -/
theorem clip_keeps_common_points (c1 c2 : Cubic K) (t u : K) (ht0 : 0 ≤ t) (ht1 : t ≤ 1)
    (hu0 : 0 ≤ u) (hu1 : u ≤ 1) (h : c1.sample t = c2.sample u) :
    ∃ lo hi, restrictCurveToFatLine c1 c2 = some (lo, hi) ∧ lo ≤ t ∧ t ≤ hi := by
  have hf := fatLine_contains c2 u hu0 hu1
  rw [← h] at hf
  exact clip_sound c1 c2 t ht0 ht1 hf.1 hf.2

/-- in particular the clip cannot answer "no intersection" when there is one -/
theorem clip_none_no_common_point (c1 c2 : Cubic K) (h : restrictCurveToFatLine c1 c2 = none)
    (t u : K) (ht0 : 0 ≤ t) (ht1 : t ≤ 1) (hu0 : 0 ≤ u) (hu1 : u ≤ 1) :
    c1.sample t ≠ c2.sample u := by
  intro hc
  obtain ⟨lo, hi, h', _⟩ := clip_keeps_common_points c1 c2 t u ht0 ht1 hu0 hu1 hc
  rw [h] at h'; cases h'

/-- non-vacuity: the arch (0,0) (1,2) (2,-2) (3,0) and the vertical "cubic" through (3/2, 0)
meet at t = u = 1/2 -/
example : (⟨⟨0, 0⟩, ⟨1, 2⟩, ⟨2, -2⟩, ⟨3, 0⟩⟩ : Cubic ℚ).sample (1/2)
    = (⟨⟨3/2, -1⟩, ⟨3/2, -1/3⟩, ⟨3/2, 1/3⟩, ⟨3/2, 1⟩⟩ : Cubic ℚ).sample (1/2) := by
  simp only [Cubic.sample, geom, P.mk.injEq]; norm_num

/-! ## (b) every reported parameter pair lies in [0,1] × [0,1] -/

variable [Eps K]

/-- the clip values are parameters of `curve1`: in [0,1] -/
theorem clip_values_in_unit (c1 c2 : Cubic K) (lo hi : K)
    (h : restrictCurveToFatLine c1 c2 = some (lo, hi)) : (0 ≤ lo ∧ lo ≤ 1) ∧ (0 ≤ hi ∧ hi ≤ 1) :=
  restrict_in01 c1 c2 lo hi h

example : restrictCurveToFatLine (⟨⟨0, 0⟩, ⟨0, 0⟩, ⟨0, 0⟩, ⟨0, 0⟩⟩ : Cubic ℚ) ⟨⟨0, 0⟩, ⟨0, 0⟩, ⟨0, 0⟩, ⟨0, 0⟩⟩
    = some (0, 1) := by
  obtain ⟨lo, hi, h, h1, h2⟩ := clip_keeps_common_points (⟨⟨0, 0⟩, ⟨0, 0⟩, ⟨0, 0⟩, ⟨0, 0⟩⟩ : Cubic ℚ)
    ⟨⟨0, 0⟩, ⟨0, 0⟩, ⟨0, 0⟩, ⟨0, 0⟩⟩ 0 0 (by norm_num) (by norm_num) (by norm_num) (by norm_num) rfl
  obtain ⟨lo', hi', h', h1', h2'⟩ := clip_keeps_common_points (⟨⟨0, 0⟩, ⟨0, 0⟩, ⟨0, 0⟩, ⟨0, 0⟩⟩ : Cubic ℚ)
    ⟨⟨0, 0⟩, ⟨0, 0⟩, ⟨0, 0⟩, ⟨0, 0⟩⟩ 1 1 (by norm_num) (by norm_num) (by norm_num) (by norm_num)
    (by simp only [Cubic.sample, geom, P.mk.injEq])
  rw [h] at h'
  obtain ⟨rfl, rfl⟩ : lo = lo' ∧ hi = hi' := by
    have := Option.some.inj h'
    exact ⟨congrArg Prod.fst this, congrArg Prod.snd this⟩
  have hb := clip_values_in_unit _ _ lo hi h
  have : lo = 0 := le_antisymm h1 hb.1.1
  have : hi = 1 := le_antisymm hb.2.2 h2'
  subst_vars; exact h

/-- **The recursion only reports pairs of the unit square — for every fuel, every budget state.**
If the two domains handed to `add_curve_intersections` are inside [0,1] and the pairs found so far
are, so are the pairs afterwards. -/
theorem add_curve_intersections_in_unit_square (fuel : Nat) (a : Args K) (st : State K)
    (hd : (0 ≤ a.d1.1 ∧ a.d1.1 ≤ 1) ∧ (0 ≤ a.d1.2 ∧ a.d1.2 ≤ 1) ∧ (0 ≤ a.d2.1 ∧ a.d2.1 ≤ 1)
      ∧ (0 ≤ a.d2.2 ∧ a.d2.2 ≤ 1))
    (hs : ∀ p ∈ st.ixs, (0 ≤ p.1 ∧ p.1 ≤ 1) ∧ (0 ≤ p.2 ∧ p.2 ≤ 1)) :
    ∀ p ∈ (addCurveIx fuel a st).ixs, (0 ≤ p.1 ∧ p.1 ≤ 1) ∧ (0 ≤ p.2 ∧ p.2 ≤ 1) :=
  addCurveIx_in01 fuel a st hd hs

example : ((0:ℚ) ≤ 0 ∧ (0:ℚ) ≤ 1) ∧ ((0:ℚ) ≤ 1 ∧ (1:ℚ) ≤ 1) := by norm_num

/-- **Every pair reported by `cubic_intersections_t` lies in [0,1] × [0,1]** — all inputs, all
branches (early exits, point × curve, line × curve, line × line, clipping). -/
theorem cubic_intersections_in_unit_square (c1 c2 : Cubic K) :
    ∀ p ∈ cubicIntersectionsT c1 c2, (0 ≤ p.1 ∧ p.1 ≤ 1) ∧ (0 ≤ p.2 ∧ p.2 ≤ 1) := by
  unfold cubicIntersectionsT cubicIntersectionsState
  split_ifs
  · exact pairsIn01_nil
  · exact pointCases_in01 c1 c2
  · exact lineCurveIntersections_in01 c1 c2 false
  · exact lineCurveIntersections_in01 c2 c1 true
  · exact lineLineIntersections_in01 c1 c2
  · unfold clipTop
    exact addCurveIx_in01 60 _ _ ⟨in01_zero, in01_one, in01_zero, in01_one⟩ pairsIn01_nil

/-- **The model's fuel never ends a recursion**: the top-level call (fuel 60) is always ended by
lyon's own budget test (`call_count >= 4096 || recursion_count >= 60`) or by leaves — the flag the
driver would print as `fuel-out` is never set, for any pair of curves. -/
theorem fuel_never_runs_out (c1 c2 : Cubic K) : (cubicIntersectionsState c1 c2).fuelOut = false := by
  unfold cubicIntersectionsState
  split_ifs <;> try rfl
  unfold clipTop
  rw [addCurveIx_fuelOut 60 _ _ (by norm_num) (by norm_num)]

/-! ## (c) domain bookkeeping -/

/-- `domain_value_at_t` is the affine map of [0,1] onto the domain -/
theorem domain_value_affine (d : K × K) (t : K) :
    domainValueAtT d t = (1 - t) * d.1 + t * d.2
    ∧ domainValueAtT d 0 = d.1 ∧ domainValueAtT d 1 = d.2 := by
  simp only [domainValueAtT]
  refine ⟨by ring, by ring, by ring⟩

/-- sub-domains compose: the domain value in the sub-domain `[dv d a, dv d b]` is the domain value
in `d` of the domain value in `[a, b]` -/
theorem domain_value_compose (d : K × K) (a b t : K) :
    domainValueAtT (domainValueAtT d a, domainValueAtT d b) t
      = domainValueAtT d (domainValueAtT (a, b) t) := by
  simp only [domainValueAtT]; ring

/-- `split_range` restricts: the sub-curve at `u` is the curve at the domain value of `u` -/
theorem split_range_sample (c : Cubic K) (d : K × K) (u : K) :
    (c.splitRange d.1 d.2).sample u = c.sample (domainValueAtT d u) :=
  splitRange_sample c d u

/-- **restriction composes**: `split_range` of a `split_range` is the `split_range` to the composed
domain (equality of control points) -/
theorem split_range_compose (c : Cubic K) (a b s t : K) :
    (c.splitRange a b).splitRange s t
      = c.splitRange (domainValueAtT (a, b) s) (domainValueAtT (a, b) t) :=
  splitRange_splitRange c a b s t

/-- the two halves used when a curve is subdivided are the restrictions to the two half domains -/
theorem split_halves_sample (o : Cubic K) (d : K × K) (u : K) :
    ((o.splitRange d.1 d.2).split half).1.sample u = o.sample (domainValueAtT (d.1, domMid d) u)
    ∧ ((o.splitRange d.1 d.2).split half).2.sample u = o.sample (domainValueAtT (domMid d, d.2) u) :=
  ⟨half_left_sample o d u, half_right_sample o d u⟩

/-- the calls the recursion can make below a call `a0`: `step` is applied to a call with its
`recursion_count` incremented (as `add_curve_intersections` does), and recurses on `one` / `two` -/
inductive Calls (a0 : Args K) : Args K → Prop
  | root : Calls a0 a0
  | one (a a1 : Args K) (st : State K) : Calls a0 a → step { a with rc := a.rc + 1 } st = .one a1 → Calls a0 a1
  | left (a a1 a2 : Args K) (st : State K) : Calls a0 a → step { a with rc := a.rc + 1 } st = .two a1 a2 → Calls a0 a1
  | right (a a1 a2 : Args K) (st : State K) : Calls a0 a → step { a with rc := a.rc + 1 } st = .two a1 a2 → Calls a0 a2

/-- **Every call works on the restriction of the original curves to the domains it is given**:
`curve_i(u) = orig_curve_i(domain_value_at_t(domain_i, u))` in every call below the top-level
call (which satisfies it trivially), whatever the path. -/
theorem reach_consistent (a0 a : Args K) (h0 : Consistent a0) (h : Calls a0 a) : Consistent a := by
  induction h with
  | root => exact h0
  | one a a1 st _ hs ih =>
    have := step_consistent { a with rc := a.rc + 1 } st ih
    rw [hs] at this; exact this
  | left a a1 a2 st _ hs ih =>
    have := step_consistent { a with rc := a.rc + 1 } st ih
    rw [hs] at this; exact this.1
  | right a a1 a2 st _ hs ih =>
    have := step_consistent { a with rc := a.rc + 1 } st ih
    rw [hs] at this; exact this.2

/-- the top-level call of `cubic_bezier_intersections_t` is consistent -/
theorem top_call_consistent (c1 c2 : Cubic K) :
    Consistent ({ c1 := c1, c2 := c2, d1 := (zero, one), d2 := (zero, one), flip := false, rc := 0,
                  o1 := c1, o2 := c2 } : Args K) :=
  consistent_top c1 c2

/-- **One step never drops a crossing (exact arithmetic).**  Let `(tA, tB)` be a common point of
the two top-level curves located inside the domains of a consistent call.  Then the step of that
call is not ended by "bounding boxes apart" nor by "clip = None"; if it recurses, the crossing lies
inside the domains of the recursive call (of one of the two), which is consistent again; if it
ends, it ends at a leaf (`IsLeaf`: point-like sub-curve, empty or converged domains), where the
thresholds of the implementation decide what is reported. -/
theorem step_keeps_crossing (a : Args K) (st : State K) (hc : Consistent a) (tA tB : K)
    (hx : CrossingAB a tA tB) : StepTracks a tA tB (step a st) :=
  step_tracks a st hc tA tB hx

/-- **A crossing is tracked down to any depth.**  For every `n` the call tree below a consistent
call whose domains contain the crossing has a call that still contains it, `n` levels down — or an
earlier one that is a leaf.  (The call tree is the one `step` defines; the budget
`call_count < 4096` may stop the implementation before it gets there.) -/
theorem crossing_tracked (a : Args K) (hc : Consistent a) (tA tB : K) (hx : CrossingAB a tA tB) :
    ∀ n : Nat, ∃ a', Calls a a' ∧ Consistent a' ∧ CrossingAB a' tA tB
      ∧ (a'.rc = a.rc + n ∨ IsLeaf a') := by
  intro n
  induction n with
  | zero => exact ⟨a, Calls.root, hc, hx, Or.inl rfl⟩
  | succ n ih =>
    obtain ⟨a', hcalls, hc', hx', hrc⟩ := ih
    rcases hrc with hrc | hleaf
    · have hc'' : Consistent ({ a' with rc := a'.rc + 1 } : Args K) := hc'
      have hx'' : CrossingAB ({ a' with rc := a'.rc + 1 } : Args K) tA tB := hx'
      have ht := step_tracks _ ⟨[], 0, false, false⟩ hc'' tA tB hx''
      have hr := step_rc ({ a' with rc := a'.rc + 1 } : Args K) ⟨[], 0, false, false⟩
      cases hs : step ({ a' with rc := a'.rc + 1 } : Args K) ⟨[], 0, false, false⟩ with
      | done s =>
        rw [hs] at ht
        exact ⟨a', hcalls, hc', hx', Or.inr ht⟩
      | one a1 =>
        rw [hs] at ht hr
        refine ⟨a1, Calls.one a' a1 _ hcalls hs, ht.1, ht.2, Or.inl ?_⟩
        have : a1.rc = a'.rc + 1 := hr
        omega
      | two a1 a2 =>
        rw [hs] at ht hr
        rcases ht.2.2 with h | h
        · refine ⟨a1, Calls.left a' a1 a2 _ hcalls hs, ht.1, h, Or.inl ?_⟩
          have : a1.rc = a'.rc + 1 := hr.1
          omega
        · refine ⟨a2, Calls.right a' a1 a2 _ hcalls hs, ht.2.1, h, Or.inl ?_⟩
          have : a2.rc = a'.rc + 1 := hr.2
          omega
    · exact ⟨a', hcalls, hc', hx', Or.inr hleaf⟩

/-- the two curves of the examples: an arch and a vertical "cubic" through (3/2, 0) -/
def exArch : Cubic ℚ := ⟨⟨0, 0⟩, ⟨1, 2⟩, ⟨2, -2⟩, ⟨3, 0⟩⟩
def exVert : Cubic ℚ := ⟨⟨3/2, -1⟩, ⟨3/2, -1/3⟩, ⟨3/2, 1/3⟩, ⟨3/2, 1⟩⟩

/-- non-vacuity of `step_keeps_crossing` / `crossing_tracked`: the arch and the vertical cubic
cross at (1/2, 1/2), inside the top-level domains -/
example : CrossingAB
    ({ c1 := exArch, c2 := exVert, d1 := (zero, one), d2 := (zero, one),
       flip := false, rc := 0, o1 := exArch, o2 := exVert } : Args ℚ) (1/2) (1/2) := by
  unfold CrossingAB Crossing InDom In01
  simp only [Bool.false_eq_true, if_false]
  refine ⟨⟨1/2, ⟨by norm_num, by norm_num⟩, by simp [domainValueAtT]⟩,
    ⟨1/2, ⟨by norm_num, by norm_num⟩, by simp [domainValueAtT]⟩, ?_⟩
  simp only [exArch, exVert, Cubic.sample, geom, P.mk.injEq]; norm_num

/-! ## (d) swapping the two curves -/

/-- In the branches decided before the clipper — early exits (boxes apart, same / reversed curve),
two point-like curves, point × curve — swapping the curves swaps the pairs.
Partial: in the line × curve, line × line and clipping branches this is FALSE of the code (the
de-duplication of `add_intersection` samples `orig_curve1` / `orig_curve2` with the parameters
swapped when `flip` is set, the nested loops of `line_line_intersections` run in the other order,
and the clipper clips `curve1` first): see the open finding C12-cubic-cubic-unstable-miss, whose
witness is re-run by the check. -/
theorem swap_partial (c1 c2 : Cubic K)
    (h : trivialReject c1 c2 = true ∨ isAPoint c1 Eps.epsilon = true ∨ isAPoint c2 Eps.epsilon = true) :
    cubicIntersectionsT c2 c1 = (cubicIntersectionsT c1 c2).map Prod.swap := by
  have hbeq : ∀ p q : P K, (p == q) = (q == p) := by
    intro p q
    by_cases hpq : p = q
    · subst hpq; rfl
    · have h1 : (p == q) = false := by
        cases hb : (p == q) with
        | false => rfl
        | true => exact absurd ((P.beq_iff p q).mp hb) hpq
      have h2 : (q == p) = false := by
        cases hb : (q == p) with
        | false => rfl
        | true => exact absurd ((P.beq_iff q p).mp hb).symm hpq
      rw [h1, h2]
  have hrej : trivialReject c2 c1 = trivialReject c1 c2 := by
    have hi : c2.ixFastBoundingBox.intersects c1.ixFastBoundingBox
        = c1.ixFastBoundingBox.intersects c2.ixFastBoundingBox := by
      unfold IxBox.intersects
      have e : ∀ a b : K, decide (a > b) = decide (b < a) := fun a b => rfl
      simp only [e]
      cases decide (c2.ixFastBoundingBox.min.x < c1.ixFastBoundingBox.max.x) <;>
      cases decide (c1.ixFastBoundingBox.min.x < c2.ixFastBoundingBox.max.x) <;>
      cases decide (c2.ixFastBoundingBox.min.y < c1.ixFastBoundingBox.max.y) <;>
      cases decide (c1.ixFastBoundingBox.min.y < c2.ixFastBoundingBox.max.y) <;> rfl
    unfold trivialReject cubicBeq cubicIsReverse
    rw [hi, hbeq c2.a c1.a, hbeq c2.c1 c1.c1, hbeq c2.c2 c1.c2, hbeq c2.b c1.b,
      hbeq c2.a c1.b, hbeq c2.c1 c1.c2, hbeq c2.c2 c1.c1, hbeq c2.b c1.a]
    cases (c1.a == c2.b) <;> cases (c1.c1 == c2.c2) <;> cases (c1.c2 == c2.c1) <;>
      cases (c1.b == c2.a) <;> rfl
  unfold cubicIntersectionsT cubicIntersectionsState
  rw [hrej]
  by_cases hr : trivialReject c1 c2 = true
  · rw [if_pos hr, if_pos hr]; rfl
  · rw [if_neg hr, if_neg hr]
    have hp : (isAPoint c1 Eps.epsilon || isAPoint c2 Eps.epsilon) = true := by
      rcases h with h | h | h
      · exact absurd h hr
      · rw [h]; rfl
      · rw [h]; simp
    have hp' : (isAPoint c2 Eps.epsilon || isAPoint c1 Eps.epsilon) = true := by
      rw [Bool.or_comm]; exact hp
    rw [if_pos hp, if_pos hp']
    show pointCases c2 c1 = (pointCases c1 c2).map Prod.swap
    unfold pointCases
    cases h1 : isAPoint c1 (Eps.epsilon : K) <;> cases h2 : isAPoint c2 (Eps.epsilon : K) <;>
      simp [List.map_map, Function.comp_def]

example : trivialReject (⟨⟨0, 0⟩, ⟨1, 2⟩, ⟨2, -2⟩, ⟨3, 0⟩⟩ : Cubic ℚ) ⟨⟨0, 0⟩, ⟨1, 2⟩, ⟨2, -2⟩, ⟨3, 0⟩⟩ = true := by
  unfold trivialReject cubicBeq
  have h : ∀ p : P ℚ, (p == p) = true := fun p => (P.beq_iff p p).mpr rfl
  simp [h]

/-! ## the panic of `epsilon_for_point` -/

/-- `epsilon_for_point` panics (`to_i32().unwrap()` / `to_i64().unwrap()` on `None`) exactly when
the larger coordinate magnitude is NaN or at least 2^31 (f32 inputs) / 2^63 (f64 inputs) -/
theorem epsilonForPoint_panics_iff (pt : P K) :
    epsilonForPoint pt = none ↔
      (Transc.isNaN (ptMax pt) = true
        ∨ (if inputsAreF32 K = true then (2147483648 : K) ≤ ptMax pt
           else (9223372036854775808 : K) ≤ ptMax pt)) := by
  have hp : epsPanics pt = true ↔ (Transc.isNaN (ptMax pt) = true
        ∨ (if inputsAreF32 K = true then (2147483648 : K) ≤ ptMax pt
           else (9223372036854775808 : K) ≤ ptMax pt)) := by
    unfold epsPanics
    rw [Bool.or_eq_true]
    cases hf : inputsAreF32 K
    · simp only [Bool.false_eq_true, if_false, decide_eq_true_eq, ge_iff_le, ofNat_eq, Nat.cast_ofNat]
    · simp only [if_true, decide_eq_true_eq, ge_iff_le, ofNat_eq, Nat.cast_ofNat]
  unfold epsilonForPoint
  rw [← hp]
  by_cases h : epsPanics pt = true
  · simp [h]
  · simp [h]

/-- the panic is recorded in the state and nothing is reported by that call -/
theorem add_point_curve_panics (ptCurve : Cubic K) (b : Bool) (curve : Cubic K) (pd cd : K × K)
    (flip : Bool) (st : State K) (h : epsilonForPoint ptCurve.a = none) :
    (addPointCurveIntersection ptCurve b curve pd cd flip st).panicked = true
    ∧ (addPointCurveIntersection ptCurve b curve pd cd flip st).ixs = st.ixs := by
  unfold addPointCurveIntersection
  rw [h]
  exact ⟨rfl, rfl⟩

/-- non-vacuity: with `EPSILON = 1e-4` (an "f32" instance) the point (3·10⁹, 0) makes it panic -/
example : epsilonForPoint (⟨3000000000, 0⟩ : P ℚ) = none := by
  rw [epsilonForPoint_panics_iff]
  right
  have hf : inputsAreF32 ℚ = true := by
    unfold inputsAreF32
    simp only [decide_eq_true_eq]
    show (1 / 10000 : ℚ) > ((1 : ℕ) : ℚ) / (10 : ℚ) ^ 6
    norm_num
  rw [if_pos hf]
  simp only [ptMax, sc_abs, sc_max]
  norm_num

end Lyon.C12c
