/-
  C06 — stroke triangles cover the band around the path and nothing far from it.

  Component theorems about `Model/Tess/StrokeQuad.lean` (+ `compute_normal` of
  `Model/Tess/StrokeParts.lean`), the same definitions the driver executes at Float32 against the
  real stroker (families `stroke2`, `normal`), instantiated at an arbitrary ordered field `K`.

  The END-TO-END claim (every generic point of every segment's rectangle is covered; no triangle
  point lies outside the reach region; round/round within tolerance of the exact neighbourhood)
  is NOT a theorem about lyon: it is decided per explored input by the slab checker
  (`Model/Slab.lean`, soundness in `Props/Slab.lean`) on the real output — translation validation.
  What is proved here for all inputs are the algebraic pieces that claim rests on:

  * `quad_covers_rectangle`, `quad_covers_core`: the two triangles of `add_edge_triangles` cover
    the rectangle / the trapezoid between the side points;
  * `ix_on_both_lines`, `cap_side_butt`, `cap_side_square`: cap clipping puts the side points
    exactly at the end point ± n (butt) or shifted by w/2 along the edge (square): reach √2·w/2;
  * `compute_normal_eq` and corollaries: the miter vector lies on both offset lines and has
    squared length 2/(1+v1·v2); `miter_kept_reach`: a kept miter reaches at most 2·limit·w/2;
  * `side_point_reach` (bevel/round/end side points at exactly w/2), `miter_point_on_offsets` (inner single
    vertex and kept miter tip lie on both offset lines), `front_side_cases`, `join_sides_nofold_left/right`
    (the branch structure of `compute_join_side_positions_fixed_width` when the join does not fold);
  * `join_triangle_contains_vertex`: the join triangle covers the join position;
  * `round_subdivision_enough` / `_tight`: `ceil(log2 n)` subdivisions give at least `n` chords (the
    repaired finding C06-round-arc-subdivision-rounded-down, lyon commit da84e187), fewer than `2n`;
    `chord_angle_le_step`, `sagitta_within_tolerance`: hence the flattening error of round joins/caps
    is within the tolerance; `arc_vertices_on_circle`: the fan is inscribed in the circle of radius w/2;
  * `square_cap_extension_covered`: cap shape at the model level (the oracle does not demand it).
-/
import LyonVerif.Model.Tess.StrokeQuad
import LyonVerif.Lemmas.Field
import Mathlib.Tactic.NormNum
import Mathlib.Tactic.Positivity

set_option linter.unusedSectionVars false
set_option linter.unusedVariables false

geom_all Lyon.StrokeQuad
geom_all Lyon.Stroke

namespace Lyon.C06
open Lyon Scalar Lyon.StrokeQuad Lyon.Stroke

variable {K : Type} [Field K] [LinearOrder K] [IsStrictOrderedRing K]

/-! ### the edge quad covers the band between its side points -/

/-- `q` lies in the closed triangle `a b c` (barycentric coordinates) -/
def InTri (q : P K) (t : P K × P K × P K) : Prop :=
  ∃ l m n : K, 0 ≤ l ∧ 0 ≤ m ∧ 0 ≤ n ∧ l + m + n = 1 ∧
    q.x = l * t.1.x + m * t.2.1.x + n * t.2.2.x ∧ q.y = l * t.1.y + m * t.2.1.y + n * t.2.2.y

/-- the point `A + s·(B − A) + u·n` -/
noncomputable def bandPoint (A B n : P K) (s u : K) : P K := A + (B - A).smul s + n.smul u

/-- General form: the side points may be shifted along the edge (by `a0`, `a1` at the start, `b0`,
`b1` at the end, in units of the edge: inner miter points shorten a side, outer ones lengthen it).
Every point of the trapezoid between them lies in one of the two triangles. -/
theorem quad_covers_core (A B n : P K) (a0 a1 b0 b1 s u : K)
    (h0 : a0 < 1 + b0) (h1 : a1 < 1 + b1) (hu : -1 ≤ u) (hu1 : u ≤ 1)
    (hlo : ((1 - u) * a0 + (1 + u) * a1) / 2 ≤ s)
    (hhi : s ≤ 1 + ((1 - u) * b0 + (1 + u) * b1) / 2) :
    let d := B - A
    let T := edgeQuad (A - n + d.smul a0) (A + n + d.smul a1) (B + n + d.smul b1) (B - n + d.smul b0)
    InTri (bandPoint A B n s u) T.1 ∨ InTri (bandPoint A B n s u) T.2 := by
  intro d T
  have hL1 : (0:K) < 1 + b1 - a1 := by linarith
  have hL0 : (0:K) < 1 + b0 - a0 := by linarith
  by_cases hd : s ≤ ((1 - u) * a0 + (1 + u) * (1 + b1)) / 2
  · left
    obtain ⟨lam, hlam⟩ : ∃ lam : K, lam * (1 + b1 - a1) = s - ((1 - u) * a0 + (1 + u) * a1) / 2 :=
      ⟨(s - ((1 - u) * a0 + (1 + u) * a1) / 2) / (1 + b1 - a1), div_mul_cancel₀ _ (ne_of_gt hL1)⟩
    have hlam0 : 0 ≤ lam := by
      by_contra hneg
      have : lam * (1 + b1 - a1) < 0 := mul_neg_of_neg_of_pos (lt_of_not_ge hneg) hL1
      linarith
    have hlam1 : lam ≤ (1 + u) / 2 := by
      by_contra hgt
      have : (1 + u) / 2 * (1 + b1 - a1) < lam * (1 + b1 - a1) :=
        mul_lt_mul_of_pos_right (lt_of_not_ge hgt) hL1
      linarith
    refine ⟨(1 - u) / 2, (1 + u) / 2 - lam, lam, by linarith, by linarith, hlam0, by ring, ?_, ?_⟩
    · simp only [T, d, edgeQuad, bandPoint, geom]
      linear_combination (A.x - B.x) * hlam
    · simp only [T, d, edgeQuad, bandPoint, geom]
      linear_combination (A.y - B.y) * hlam
  · right
    have hd' : ((1 - u) * a0 + (1 + u) * (1 + b1)) / 2 < s := lt_of_not_ge hd
    obtain ⟨lam, hlam⟩ : ∃ lam : K, lam * (1 + b0 - a0) = s - ((1 - u) * a0 + (1 + u) * (1 + b1)) / 2 :=
      ⟨(s - ((1 - u) * a0 + (1 + u) * (1 + b1)) / 2) / (1 + b0 - a0), div_mul_cancel₀ _ (ne_of_gt hL0)⟩
    have hlam0 : 0 ≤ lam := by
      by_contra hneg
      have : lam * (1 + b0 - a0) < 0 := mul_neg_of_neg_of_pos (lt_of_not_ge hneg) hL0
      linarith
    have hlam1 : lam ≤ (1 - u) / 2 := by
      by_contra hgt
      have : (1 - u) / 2 * (1 + b0 - a0) < lam * (1 + b0 - a0) :=
        mul_lt_mul_of_pos_right (lt_of_not_ge hgt) hL0
      linarith
    refine ⟨(1 - u) / 2 - lam, (1 + u) / 2, lam, by linarith, by linarith, hlam0, by ring, ?_, ?_⟩
    · simp only [T, d, edgeQuad, bandPoint, geom]
      linear_combination (A.x - B.x) * hlam
    · simp only [T, d, edgeQuad, bandPoint, geom]
      linear_combination (A.y - B.y) * hlam

/-- `quad_covers_rectangle`: for a segment `AB` and ANY offset vector `n`, every point
`A + s(B−A) + u·n`, `s ∈ [0,1]`, `u ∈ [−1,1]`, lies in one of the two triangles
`(A−n, A+n, B+n)`, `(A−n, B+n, B−n)` emitted by `add_edge_triangles`. -/
theorem quad_covers_rectangle (A B n : P K) (s u : K)
    (hs : 0 ≤ s) (hs1 : s ≤ 1) (hu : -1 ≤ u) (hu1 : u ≤ 1) :
    let T := edgeQuad (A - n) (A + n) (B + n) (B - n)
    InTri (bandPoint A B n s u) T.1 ∨ InTri (bandPoint A B n s u) T.2 := by
  have h := quad_covers_core A B n 0 0 0 0 s u (by norm_num) (by norm_num) hu hu1
    (by simpa using hs) (by simpa using hs1)
  have e : ∀ X : P K, X + (B - A).smul 0 = X := by
    intro X; apply P.ext' <;> simp [geom]
  simpa [e] using h

example : InTri (bandPoint (⟨0, 0⟩ : P ℚ) ⟨4, 0⟩ ⟨0, 1⟩ (1/2) (1/3)) (edgeQuad (⟨0, -1⟩ : P ℚ) ⟨0, 1⟩ ⟨4, 1⟩ ⟨4, -1⟩).1 ∨
    InTri (bandPoint (⟨0, 0⟩ : P ℚ) ⟨4, 0⟩ ⟨0, 1⟩ (1/2) (1/3)) (edgeQuad (⟨0, -1⟩ : P ℚ) ⟨0, 1⟩ ⟨4, 1⟩ ⟨4, -1⟩).2 := by
  have h := quad_covers_rectangle (⟨0, 0⟩ : P ℚ) ⟨4, 0⟩ ⟨0, 1⟩ (1/2) (1/3) (by norm_num) (by norm_num) (by norm_num) (by norm_num)
  simpa [geom] using h


/-! ### cap clipping: `Line::intersection` and the butt / square side points -/

/-- the point `Line::intersection` returns is THE common point of the two lines -/
theorem ix_unique (p1 v1 p2 v2 y : P K) (hdet : v1.cross v2 ≠ 0)
    (h1 : (y - p1).cross v1 = 0) (h2 : (y - p2).cross v2 = 0) : lineIxPoint p1 v1 p2 v2 = y := by
  simp only [geom] at hdet h1 h2
  have hi : 1 / (v1.x * v2.y - v1.y * v2.x) * (v1.x * v2.y - v1.y * v2.x) = 1 := by field_simp
  apply P.ext' <;> simp only [geom, Nat.cast_one]
  · generalize (1:K) / (v1.x * v2.y - v1.y * v2.x) = i at hi ⊢
    linear_combination y.x * hi + (i * v2.x) * h1 - (i * v1.x) * h2
  · generalize (1:K) / (v1.x * v2.y - v1.y * v2.x) = i at hi ⊢
    linear_combination y.y * hi + (i * v2.y) * h1 - (i * v1.y) * h2

/-- it lies on both lines -/
theorem ix_on_both_lines (p1 v1 p2 v2 : P K) (hdet : v1.cross v2 ≠ 0) :
    (lineIxPoint p1 v1 p2 v2 - p1).cross v1 = 0 ∧ (lineIxPoint p1 v1 p2 v2 - p2).cross v2 = 0 := by
  simp only [geom] at hdet
  have hi : 1 / (v1.x * v2.y - v1.y * v2.x) * (v1.x * v2.y - v1.y * v2.x) = 1 := by field_simp
  constructor <;> simp only [geom, Nat.cast_one]
  · generalize (1:K) / (v1.x * v2.y - v1.y * v2.x) = i at hi ⊢
    linear_combination (p1.x * v1.y - p1.y * v1.x) * hi
  · generalize (1:K) / (v1.x * v2.y - v1.y * v2.x) = i at hi ⊢
    linear_combination (p2.x * v2.y - p2.y * v2.x) * hi

example : lineIxPoint (⟨0, 0⟩ : P ℚ) ⟨1, 0⟩ ⟨3, -2⟩ ⟨0, 1⟩ = ⟨3, 0⟩ :=
  ix_unique _ _ _ _ _ (by norm_num [geom]) (by norm_num [geom]) (by norm_num [geom])



section caps
variable [Transc K]

/-- `tessellate_first_edge` / `tessellate_last_edge` with a butt or square cap: the side point is
moved to the common point `y` of the clip line and the side line. -/
theorem cap_side_clip (eps : K) (heps : 0 ≤ eps) (cap : Cap) (cl hw : K) (hcl : cap.clip hw = some cl) (p q sidePos other y : P K)
    (hdet : eps < |(perp (normalize (p - q))).cross (sidePos - other)|)
    (h1 : (y - (p + (normalize (p - q)).smul cl)).cross (perp (normalize (p - q))) = 0)
    (h2 : (y - sidePos).cross (sidePos - other) = 0) :
    capSide (lineIntersection eps) cap p q sidePos other hw = y := by
  have hne : (perp (normalize (p - q))).cross (sidePos - other) ≠ 0 := by
    intro h; rw [h, abs_zero] at hdet; exact absurd hdet (not_lt.mpr heps)
  unfold capSide
  rw [hcl]
  simp only [lineIntersection]
  have hguard : ¬ Scalar.abs ((perp (normalize (p - q))).cross (sidePos - other)) ≤ eps := by
    show ¬ |_| ≤ eps
    exact not_le.mpr hdet
  rw [if_neg hguard]
  simp only [Option.getD_some]
  exact ix_unique _ _ _ _ y hne h1 h2

/-- Butt cap (`clip = 0`): the side point `p + c·perp(t)`, `t = normalize (p − q)`, stays where it
is — the stroke ends exactly at the end point. -/
theorem cap_side_butt (eps : K) (heps : 0 ≤ eps) (p q other : P K) (c hw : K)
    (hdet : eps < |(perp (normalize (p - q))).cross ((p + (perp (normalize (p - q))).smul c) - other)|) :
    capSide (lineIntersection eps) .butt p q (p + (perp (normalize (p - q))).smul c) other hw
      = p + (perp (normalize (p - q))).smul c := by
  apply cap_side_clip eps heps .butt 0 hw (by simp [Cap.clip]) _ _ _ _ _ hdet
  · generalize normalize (p - q) = t
    geom_ring
  · generalize normalize (p - q) = t
    geom_ring

/-- Square cap (`clip = w/2`): when the side line runs along the edge (`sidePos − other = μ·t`) the
side point moves by `w/2` along the edge. -/
theorem cap_side_square (eps : K) (heps : 0 ≤ eps) (p q other : P K) (c hw mu : K)
    (hpar : (p + (perp (normalize (p - q))).smul c) - other = (normalize (p - q)).smul mu)
    (hdet : eps < |(perp (normalize (p - q))).cross ((p + (perp (normalize (p - q))).smul c) - other)|) :
    capSide (lineIntersection eps) .square p q (p + (perp (normalize (p - q))).smul c) other hw
      = p + (perp (normalize (p - q))).smul c + (normalize (p - q)).smul hw := by
  apply cap_side_clip eps heps .square hw hw (by simp [Cap.clip]) _ _ _ _ _ hdet
  · generalize normalize (p - q) = t
    geom_ring
  · rw [hpar]
    generalize normalize (p - q) = t
    geom_ring

/-- reach of the cap corners: for a unit tangent `t` and `c² = (w/2)²` the butt corner is at
squared distance `(w/2)²` and the square corner at `2·(w/2)²` from the end point (factor √2). -/
theorem cap_corner_reach (p t : P K) (c hw : K) (ht : t.sqLen = 1) (hc : c * c = hw * hw) :
    ((p + (perp t).smul c) - p).sqLen = hw * hw ∧
    ((p + (perp t).smul c + t.smul hw) - p).sqLen = 2 * (hw * hw) := by
  simp only [geom] at ht ⊢
  constructor
  · linear_combination (c * c) * ht + hc
  · linear_combination (c * c + hw * hw) * ht + hc
end caps


/-! ### the miter vector (`math_utils::compute_normal`) and the side points of a join -/

section normal
variable [Transc K]

/-- For unit tangents away from the two guards, `compute_normal` returns `perp(v1 + v2)/(1 + v1·v2)`.
`r` is the value `sqrt` returns for `|v1+v2|²` (law used: it is positive and squares back). -/
theorem compute_normal_eq (v1 v2 : P K) (r : K) (h1 : v1.sqLen = 1) (h2 : v2.sqLen = 1)
    (hr : Transc.sqrt (v1 + v2).sqLen = r) (hr0 : 0 < r) (hrr : r * r = (v1 + v2).sqLen)
    (hg1 : ¬ (v1 + v2).sqLen < normalEpsilon)
    (hg2 : ¬ Scalar.abs ((perp (normalize (v1 + v2))).dot (perp v1)) < normalEpsilon) :
    computeNormal v1 v2 = (perp (v1 + v2)).sdiv (1 + v1.dot v2) := by
  have hc : 1 + v1.dot v2 = r * r / 2 := by
    simp only [geom] at h1 h2 hrr ⊢
    linear_combination (-1/2 : K) * hrr - (1/2 : K) * h1 - (1/2 : K) * h2
  have hc0 : (1 + v1.dot v2) ≠ 0 := by rw [hc]; positivity
  unfold computeNormal
  simp only [if_neg hg1]
  unfold computeNormalTail
  simp only [if_neg hg2]
  unfold normalize
  rw [hr]
  simp only [geom] at hc hc0 h1 ⊢
  have hrne : r ≠ 0 := ne_of_gt hr0
  have hden : -((v1.y + v2.y) / r) * -v1.y + (v1.x + v2.x) / r * v1.x
      = (1 + (v1.x * v2.x + v1.y * v2.y)) / r := by
    field_simp
    linear_combination h1
  apply P.ext' <;> simp only [] <;> rw [hden] <;> field_simp

/-- the closed form of the miter vector -/
noncomputable def miterVec (v1 v2 : P K) : P K := (perp (v1 + v2)).sdiv (1 + v1.dot v2)

/-- extruding by the miter vector keeps both offset lines at distance 1: `m·perp(v1) = m·perp(v2) = 1` -/
theorem miter_on_offsets (v1 v2 : P K) (h1 : v1.sqLen = 1) (h2 : v2.sqLen = 1) (hc : 1 + v1.dot v2 ≠ 0) :
    (miterVec v1 v2).dot (perp v1) = 1 ∧ (miterVec v1 v2).dot (perp v2) = 1 := by
  simp only [miterVec, geom] at h1 h2 hc ⊢
  constructor <;> field_simp
  · linear_combination h1
  · linear_combination h2

/-- `|m|² = 2 / (1 + v1·v2)` -/
theorem miter_sqlen (v1 v2 : P K) (h1 : v1.sqLen = 1) (h2 : v2.sqLen = 1) (hc : 1 + v1.dot v2 ≠ 0) :
    (miterVec v1 v2).sqLen * (1 + v1.dot v2) = 2 := by
  simp only [miterVec, geom] at h1 h2 hc ⊢
  field_simp
  linear_combination h1 + h2

/-- a miter the stroker keeps (`!miter_limit_is_exceeded`) reaches at most `2·limit·(w/2)` from the join -/
theorem miter_kept_reach (m : P K) (ml hw : K) (hk : miterLimitIsExceeded m ml = false) :
    (m.smul hw).sqLen ≤ (2 * ml * hw) * (2 * ml * hw) := by
  have hk' : m.x * m.x + m.y * m.y ≤ ml * ml * 4 := by
    simpa [miterLimitIsExceeded, geom] using hk
  simp only [geom]
  have : 0 ≤ hw * hw := mul_self_nonneg hw
  nlinarith [mul_le_mul_of_nonneg_right hk' this]

/-- the single vertex of the inner (back) side and a kept miter tip: `join ± m·(w/2)` lies on both
offset lines of its side, i.e. at distance exactly w/2 from both segments' lines -/
theorem miter_point_on_offsets (j v1 v2 : P K) (hw : K) (h1 : v1.sqLen = 1) (h2 : v2.sqLen = 1)
    (hc : 1 + v1.dot v2 ≠ 0) :
    ((j + (miterVec v1 v2).smul hw) - j).dot (perp v1) = hw ∧ ((j + (miterVec v1 v2).smul hw) - j).dot (perp v2) = hw ∧
    ((j - (miterVec v1 v2).smul hw) - j).dot (perp v1) = -hw ∧ ((j - (miterVec v1 v2).smul hw) - j).dot (perp v2) = -hw := by
  obtain ⟨a, b⟩ := miter_on_offsets v1 v2 h1 h2 hc
  generalize miterVec v1 v2 = m at a b
  simp only [geom] at a b ⊢
  refine ⟨?_, ?_, ?_, ?_⟩
  · linear_combination hw * a
  · linear_combination hw * b
  · linear_combination (-hw) * a
  · linear_combination (-hw) * b

/-- bevel / round joins, a miter beyond the limit, and both ends of every edge: the side points
`p ± perp(t)·(w/2)` are at distance exactly w/2 from `p` -/
theorem side_point_reach (p t : P K) (hw : K) (ht : t.sqLen = 1) :
    ((p + (perp t).smul hw) - p).sqLen = hw * hw ∧ ((p - (perp t).smul hw) - p).sqLen = hw * hw := by
  simp only [geom] at ht ⊢
  constructor <;> linear_combination (hw * hw) * ht

/-- what `compute_join_side_positions_fixed_width` does to the front (outer) side -/
theorem front_side_cases (ix : Ix K) (s : Side2 K) (j fn mf : P K) (cd : K) :
    frontSide ix .bevel false s j fn mf cd = s ∧ frontSide ix .round false s j fn mf cd = s ∧
    frontSide ix .miter false s j fn mf cd = s ∧
    (∀ jn, frontSide ix jn true s j fn mf cd = s.setSingle mf) ∧
    frontSide ix .miterClip false s j fn mf cd = clipSide ix s j fn cd := by
  simp [frontSide]

/-- the result of `compute_join_side_positions_fixed_width` when the join does not fold, left turn
(`cross ≥ 0`: the front side is the negative one) -/
theorem join_sides_nofold_left (ix : Ix K) (t0 t1 j : P K) (l0 l1 hw ml : K) (join : Join)
    (hx : t0.cross t1 ≥ 0)
    (hf : foldTest ((decide (join = .miter) || decide (join = .miterClip)) && !miterLimitIsExceeded (-(computeNormal t0 t1)) ml)
            t0 t1 (computeNormal t0 t1) ((-(computeNormal t0 t1)).smul hw) l0 l1 = false) :
    let s := joinSidesT ix t0 t1 l0 l1 j hw ml join
    s.pos.single = some (j + (computeNormal t0 t1).smul hw) ∧ s.foldPos = false ∧ s.foldNeg = false ∧
    s.pos.prev = j + (perp t0).smul hw ∧ s.pos.next = j + (perp t1).smul hw ∧
    s.neg = frontSide ix join ((decide (join = .miter) || decide (join = .miterClip)) && !miterLimitIsExceeded (-(computeNormal t0 t1)) ml)
      ⟨j - (perp t0).smul hw, j - (perp t1).smul hw, none⟩ j (-(computeNormal t0 t1)) (j - (computeNormal t0 t1).smul hw) (ml * hw) := by
  have hx' : (t0.cross t1 ≥ Scalar.zero) := by simpa [geom] using hx
  simp only [joinSidesT, decide_eq_true hx', if_true, hf, Bool.false_eq_true, if_false, Side2.setSingle]
  simp

/-- right turn (`cross < 0`: the front side is the positive one) -/
theorem join_sides_nofold_right (ix : Ix K) (t0 t1 j : P K) (l0 l1 hw ml : K) (join : Join)
    (hx : ¬ t0.cross t1 ≥ 0)
    (hf : foldTest ((decide (join = .miter) || decide (join = .miterClip)) && !miterLimitIsExceeded (computeNormal t0 t1) ml)
            t0 t1 (computeNormal t0 t1) ((computeNormal t0 t1).smul hw) l0 l1 = false) :
    let s := joinSidesT ix t0 t1 l0 l1 j hw ml join
    s.neg.single = some (j - (computeNormal t0 t1).smul hw) ∧ s.foldPos = false ∧ s.foldNeg = false ∧
    s.neg.prev = j - (perp t0).smul hw ∧ s.neg.next = j - (perp t1).smul hw ∧
    s.pos = frontSide ix join ((decide (join = .miter) || decide (join = .miterClip)) && !miterLimitIsExceeded (computeNormal t0 t1) ml)
      ⟨j + (perp t0).smul hw, j + (perp t1).smul hw, none⟩ j (computeNormal t0 t1) (j + (computeNormal t0 t1).smul hw) (ml * hw) := by
  have hx' : ¬ (t0.cross t1 ≥ Scalar.zero) := by simpa [geom] using hx
  simp only [joinSidesT, decide_eq_false hx', hf, Bool.false_eq_true, if_false, Side2.setSingle]
  simp

/-- the join triangle `(front.prev, back single, front.next)` of `tessellate_join` contains the join
position (so the wedge between the two edge quads is covered), for any turn with `1 + v1·v2 > 0` -/
theorem join_triangle_contains_vertex (j v1 v2 : P K) (hw : K) (hc : 0 < 1 + v1.dot v2) :
    InTri j (j - (perp v1).smul hw, j + (miterVec v1 v2).smul hw, j - (perp v2).smul hw) := by
  have h3 : 0 < 3 + v1.dot v2 := by linarith
  refine ⟨1 / (3 + v1.dot v2), (1 + v1.dot v2) / (3 + v1.dot v2), 1 / (3 + v1.dot v2),
    by positivity, by positivity, by positivity, ?_, ?_, ?_⟩
  · field_simp; ring
  · simp only [miterVec, geom] at hc h3 ⊢
    field_simp
    ring
  · simp only [miterVec, geom] at hc h3 ⊢
    field_simp
    ring
end normal


/-! ### non-vacuity: concrete instances of the hypotheses -/

section examples
/-- a `Transc ℚ` whose `sqrt` is the given function (everything else is irrelevant here) -/
@[instance_reducible] def toyTransc (sq : ℚ → ℚ) : Transc ℚ :=
  ⟨sq, id, id, id, id, id, fun a _ => a, fun a _ => a, id, id, id, id, fun _ => 0, fun a _ => a, 0, 3, fun _ => false, fun _ => true⟩
/-- `sqrt 16 = 4`, `sqrt (36/25) = 6/5` -/
local instance toyT : Transc ℚ := toyTransc (fun x => if x = 16 then 4 else 6/5)
theorem toy_sqrt (x : ℚ) : (Transc.sqrt x : ℚ) = if x = 16 then 4 else 6/5 := rfl

example : InTri (bandPoint (⟨0, 0⟩ : P ℚ) ⟨4, 0⟩ ⟨0, 1⟩ (1/2) (1/2))
      (edgeQuad ((⟨0, 0⟩ : P ℚ) - ⟨0, 1⟩ + ((⟨4, 0⟩ : P ℚ) - ⟨0, 0⟩).smul (-1/4)) ((⟨0, 0⟩ : P ℚ) + ⟨0, 1⟩ + ((⟨4, 0⟩ : P ℚ) - ⟨0, 0⟩).smul (1/4))
        ((⟨4, 0⟩ : P ℚ) + ⟨0, 1⟩ + ((⟨4, 0⟩ : P ℚ) - ⟨0, 0⟩).smul (-1/4)) ((⟨4, 0⟩ : P ℚ) - ⟨0, 1⟩ + ((⟨4, 0⟩ : P ℚ) - ⟨0, 0⟩).smul (1/4))).1 ∨
    InTri (bandPoint (⟨0, 0⟩ : P ℚ) ⟨4, 0⟩ ⟨0, 1⟩ (1/2) (1/2))
      (edgeQuad ((⟨0, 0⟩ : P ℚ) - ⟨0, 1⟩ + ((⟨4, 0⟩ : P ℚ) - ⟨0, 0⟩).smul (-1/4)) ((⟨0, 0⟩ : P ℚ) + ⟨0, 1⟩ + ((⟨4, 0⟩ : P ℚ) - ⟨0, 0⟩).smul (1/4))
        ((⟨4, 0⟩ : P ℚ) + ⟨0, 1⟩ + ((⟨4, 0⟩ : P ℚ) - ⟨0, 0⟩).smul (-1/4)) ((⟨4, 0⟩ : P ℚ) - ⟨0, 1⟩ + ((⟨4, 0⟩ : P ℚ) - ⟨0, 0⟩).smul (1/4))).2 :=
  quad_covers_core (⟨0, 0⟩ : P ℚ) ⟨4, 0⟩ ⟨0, 1⟩ (-1/4) (1/4) (1/4) (-1/4) (1/2) (1/2)
    (by norm_num) (by norm_num) (by norm_num) (by norm_num) (by norm_num) (by norm_num)

/-- unit tangents (1,0) and (−7/25, 24/25): `|v1+v2| = 6/5`, the miter vector is (−4/3, 1) -/
example : computeNormal (⟨1, 0⟩ : P ℚ) ⟨-7/25, 24/25⟩ = ⟨-4/3, 1⟩ := by
  have h := compute_normal_eq (⟨1, 0⟩ : P ℚ) ⟨-7/25, 24/25⟩ (6/5)
    (by norm_num [geom]) (by norm_num [geom]) (by norm_num [geom, toy_sqrt]) (by norm_num) (by norm_num [geom])
    (by norm_num [geom, normalEpsilon]) (by norm_num [geom, normalEpsilon, toy_sqrt, abs_lt])
  rw [h]; apply P.ext' <;> norm_num [geom]

example : (miterVec (⟨1, 0⟩ : P ℚ) ⟨-7/25, 24/25⟩).dot (perp ⟨1, 0⟩) = 1 :=
  (miter_on_offsets _ _ (by norm_num [geom]) (by norm_num [geom]) (by norm_num [geom])).1

example : (miterVec (⟨1, 0⟩ : P ℚ) ⟨-7/25, 24/25⟩).sqLen * (1 + (⟨1, 0⟩ : P ℚ).dot ⟨-7/25, 24/25⟩) = 2 :=
  miter_sqlen _ _ (by norm_num [geom]) (by norm_num [geom]) (by norm_num [geom])

example : ((⟨-4/3, 1⟩ : P ℚ).smul (1/2)).sqLen ≤ (2 * 1 * (1/2)) * (2 * 1 * (1/2)) :=
  miter_kept_reach _ 1 (1/2) (by simp [miterLimitIsExceeded, geom]; norm_num)

example : InTri (⟨0, 0⟩ : P ℚ) ((⟨0, 0⟩ : P ℚ) - (perp ⟨1, 0⟩).smul (1/2), (⟨0, 0⟩ : P ℚ) + (miterVec ⟨1, 0⟩ ⟨0, 1⟩).smul (1/2),
    (⟨0, 0⟩ : P ℚ) - (perp ⟨0, 1⟩).smul (1/2)) :=
  join_triangle_contains_vertex _ _ _ _ (by norm_num [geom])

/-- a butt cap on the edge (0,0) → (4,0), `w/2 = 1`: the hypotheses of `cap_side_butt` hold -/
example : (1/100000000 : ℚ) < |(perp (normalize ((⟨4, 0⟩ : P ℚ) - ⟨0, 0⟩))).cross
      ((⟨4, 0⟩ + (perp (normalize ((⟨4, 0⟩ : P ℚ) - ⟨0, 0⟩))).smul 1) - ⟨0, 1⟩)| := by
  norm_num [geom, toy_sqrt, normalize, perp]

example : cap_corner_reach (⟨4, 0⟩ : P ℚ) ⟨1, 0⟩ (-1) 1 (by norm_num [geom]) (by norm_num) =
    cap_corner_reach (⟨4, 0⟩ : P ℚ) ⟨1, 0⟩ (-1) 1 (by norm_num [geom]) (by norm_num) := rfl

/-- a 90 degree left turn with a bevel join does not fold: the hypotheses of `join_sides_nofold_left` hold -/
example : (⟨1, 0⟩ : P ℚ).cross ⟨0, 1⟩ ≥ 0 ∧
    foldTest ((decide (Join.bevel = .miter) || decide (Join.bevel = .miterClip)) && !miterLimitIsExceeded (-(computeNormal (⟨1, 0⟩ : P ℚ) ⟨0, 1⟩)) 4)
      ⟨1, 0⟩ ⟨0, 1⟩ (computeNormal (⟨1, 0⟩ : P ℚ) ⟨0, 1⟩) ((-(computeNormal (⟨1, 0⟩ : P ℚ) ⟨0, 1⟩)).smul (1/2)) 4 4 = false := by
  constructor
  · norm_num [geom]
  · simp [foldTest, geom]

/-- the same turn taken the other way is a right turn -/
example : ¬ (⟨0, 1⟩ : P ℚ).cross ⟨1, 0⟩ ≥ 0 ∧
    foldTest ((decide (StrokeQuad.Join.round = .miter) || decide (StrokeQuad.Join.round = .miterClip)) && !miterLimitIsExceeded (computeNormal (⟨0, 1⟩ : P ℚ) ⟨1, 0⟩) 4)
      ⟨0, 1⟩ ⟨1, 0⟩ (computeNormal (⟨0, 1⟩ : P ℚ) ⟨1, 0⟩) ((computeNormal (⟨0, 1⟩ : P ℚ) ⟨1, 0⟩).smul (1/2)) 4 4 = false := by
  constructor
  · norm_num [geom]
  · simp [foldTest, geom]
end examples

/-! ### round joins and caps: the subdivision count and the flattening error

`tessellate_round_join` / `tessellate_round_cap` need `n = ceil(arc / step)` chords, where
`step = 2·acos((r − tol)/r)` (`circle_flattening_step`), and subdivide `ceil(log2 n)` times, i.e.
into `2^ceil(log2 n)` chords (lyon commit da84e187).  For an exact integer `n`, `ceil(log2 n)` is
`ceilLog2` below; the float evaluation is `Stroke.numSubdivisions` (C05).

History (finding C06-round-arc-subdivision-rounded-down, fixed by da84e187): the code used
`.log2().round()`; with `roundLog2 n := Nat.log2 (2*n*n) / 2` the former witness was
`roundLog2 5 = 2 ∧ 2 ^ roundLog2 5 < 5` (5 chords needed, 4 used: a 96° round join of width 1.13 at
tolerance 0.0113 had sagitta 0.0124), and only `n*n < 2 * (2 ^ roundLog2 n)^2` held. -/

/-- `ceil(log2 n)` for an exact integer `n` (0 for `n ≤ 1`) -/
def ceilLog2 (n : Nat) : Nat := if n ≤ 1 then 0 else Nat.log2 (n - 1) + 1

/-- enough chords: `2^⌈log₂ n⌉ ≥ n` -/
theorem round_subdivision_enough (n : Nat) : n ≤ 2 ^ ceilLog2 n := by
  unfold ceilLog2
  split
  · omega
  · have h := Nat.lt_log2_self (n := n - 1)
    omega

/-- and not more than twice too many: `2^(⌈log₂ n⌉ − 1) < n` for `n ≥ 2` -/
theorem round_subdivision_tight (n : Nat) (hn : 2 ≤ n) : 2 ^ (ceilLog2 n - 1) < n := by
  unfold ceilLog2
  rw [if_neg (by omega)]
  have h := Nat.log2_self_le (n := n - 1) (by omega)
  simp only [Nat.add_sub_cancel]
  omega

example : ceilLog2 5 = 3 ∧ ceilLog2 8 = 3 ∧ ceilLog2 9 = 4 ∧ ceilLog2 1 = 0 := by decide

/-- the angle of one chord: `arc / 2^k ≤ step` when `n ≥ arc/step` chords are needed and `2^k ≥ n` -/
theorem chord_angle_le_step (arc step : K) (n k : Nat) (hstep : 0 ≤ step)
    (hn : arc ≤ step * n) (hk : n ≤ 2 ^ k) : arc / (2:K) ^ k ≤ step := by
  have hp : (0:K) < (2:K) ^ k := by positivity
  rw [div_le_iff₀ hp]
  have : (n : K) ≤ (2:K) ^ k := by exact_mod_cast hk
  nlinarith [mul_le_mul_of_nonneg_left this hstep]

section sagitta
variable [Transc K]

/-- The flattening error of a round join / cap is within the tolerance: a chord of half-angle
`a ≤ step/2 = acos((r − tol)/r)` has sagitta `r·(1 − cos a) ≤ tol`.  Laws used (hypotheses): `cos` is
antitone on `[0, π]`, `cos (acos x) = x` on `[-1, 1]`, `acos x ∈ [0, π]`. -/
theorem sagitta_within_tolerance (r tol a : K) (hr : 0 < r) (ht0 : 0 ≤ tol) (htr : tol ≤ r)
    (hanti : ∀ x y : K, 0 ≤ x → x ≤ y → y ≤ Transc.pi → Transc.cos y ≤ Transc.cos x)
    (hacos : ∀ x : K, -1 ≤ x → x ≤ 1 → Transc.cos (Transc.acos x) = x ∧ 0 ≤ Transc.acos x ∧ Transc.acos x ≤ Transc.pi)
    (ha0 : 0 ≤ a) (ha : a ≤ Transc.acos ((r - tol) / r)) :
    r * (1 - Transc.cos a) ≤ tol := by
  have hx1 : (r - tol) / r ≤ 1 := by rw [div_le_one hr]; linarith
  have hx0 : -1 ≤ (r - tol) / r := by
    have : 0 ≤ (r - tol) / r := div_nonneg (by linarith) (le_of_lt hr)
    linarith
  obtain ⟨hc, _, hpi⟩ := hacos _ hx0 hx1
  have h := hanti a _ ha0 ha hpi
  rw [hc] at h
  have : r * ((r - tol) / r) = r - tol := by field_simp
  nlinarith [mul_le_mul_of_nonneg_left h (le_of_lt hr)]

/-- `circle_flattening_step` is twice that bound (the `min` clamps the tolerance to the radius) -/
theorem flattening_step_eq (r tol : K) (htr : tol ≤ r) :
    circleFlatteningStep r tol = 2 * Transc.acos ((r - tol) / r) := by
  simp [circleFlatteningStep, geom, min_eq_left htr]
end sagitta

/-- the laws are satisfiable together with the hypotheses: a piecewise-linear stand-in for `cos` on
`[0, 3]` (`cos x = 1 − 2x/3`, `acos x = 3(1 − x)/2`, `π = 3`), radius 2, tolerance 1/2 -/
example : (2:ℚ) * (1 - (1 - 2 * (1/4) / 3)) ≤ 1/2 := by
  let _ : Transc ℚ := ⟨id, id, id, fun x => 1 - 2 * x / 3, id, fun x => 3 * (1 - x) / 2, fun a _ => a, fun a _ => a, id, id, id, id,
    fun _ => 0, fun a _ => a, 0, 3, fun _ => false, fun _ => true⟩
  have h := sagitta_within_tolerance (K := ℚ) 2 (1/2) (1/4) (by norm_num) (by norm_num) (by norm_num)
    (fun x y _ hxy _ => by show 1 - 2 * y / 3 ≤ 1 - 2 * x / 3; linarith)
    (fun x h0 h1 => by
      refine ⟨?_, ?_, ?_⟩
      · show 1 - 2 * (3 * (1 - x) / 2) / 3 = x; ring
      · show 0 ≤ 3 * (1 - x) / 2; linarith
      · show 3 * (1 - x) / 2 ≤ 3; linarith)
    (by norm_num) (by show (1/4 : ℚ) ≤ 3 * (1 - (2 - 1/2) / 2) / 2; norm_num)
  exact h

example : (3:ℚ) / (2:ℚ) ^ 3 ≤ 1/2 := chord_angle_le_step 3 (1/2) 6 3 (by norm_num) (by norm_num) (by norm_num)

/-! ### the arc fan (`tessellate_arc`, C05's model): every new vertex is on the circle -/

section arc
variable [Transc K]

/-- every vertex `tessellate_arc` adds keeps the centre and radius of the record it was called with
and has a normal of unit length (`cos² + sin² = 1` is the law used): it lies on the circle of
radius `w/2` around the join / end point — the fan is inscribed, so it never leaves the disc. -/
theorem arc_vertices_on_circle (hcs : ∀ x : K, Transc.cos x * Transc.cos x + Transc.sin x * Transc.sin x = 1)
    (n : Nat) : ∀ (a0 a1 : K) (va vb : Nat) (d : VData K) (o : Out K) (v : VData K),
    v ∈ (tessellateArc a0 a1 va vb n d o).verts →
    v ∈ o.verts ∨ (v.normal.sqLen = 1 ∧ v.positionOnPath = d.positionOnPath ∧ v.halfWidth = d.halfWidth) := by
  induction n with
  | zero => intro a0 a1 va vb d o v h; left; simpa [tessellateArc] using h
  | succ n ih =>
    intro a0 a1 va vb d o v h
    simp only [tessellateArc] at h
    rcases ih _ _ _ _ _ _ v h with h1 | ⟨h1, h2, h3⟩
    · rcases ih _ _ _ _ _ _ v h1 with h4 | ⟨h4, h5, h6⟩
      · simp only [Out.addTri, Out.addVertex, List.mem_append, List.mem_singleton] at h4
        rcases h4 with h4 | h4
        · left; exact h4
        · right; subst h4
          refine ⟨?_, rfl, rfl⟩
          simp only [geom]; exact hcs _
      · right; exact ⟨h4, h5, h6⟩
    · right; exact ⟨h1, h2, h3⟩

/-- a vertex with a unit normal is emitted at distance exactly `half_width` from its centre -/
theorem unit_normal_position (d : VData K) (h : d.normal.sqLen = 1) :
    (d.position - d.positionOnPath).sqLen = d.halfWidth * d.halfWidth := by
  simp only [VData.position, geom] at h ⊢
  linear_combination (d.halfWidth * d.halfWidth) * h
end arc

/-! ### square caps at the model level

The property bounds only the REACH of a square cap (factor √2); it does not say the extension is
covered, so the oracle does not demand it.  At the model level (tied bit for bit through `stroke2`)
the extension is covered: with `cap_side_square` the first / last edge quad has its outer side points
shifted by `e = (w/2)/|AB|` edge units, and `quad_covers_core` gives the whole rectangle lengthened by `e`. -/
theorem square_cap_extension_covered (A B n : P K) (e s u : K) (he : 0 ≤ e)
    (hs : -e ≤ s) (hs1 : s ≤ 1 + e) (hu : -1 ≤ u) (hu1 : u ≤ 1) :
    let d := B - A
    let T := edgeQuad (A - n + d.smul (-e)) (A + n + d.smul (-e)) (B + n + d.smul e) (B - n + d.smul e)
    InTri (bandPoint A B n s u) T.1 ∨ InTri (bandPoint A B n s u) T.2 := by
  apply quad_covers_core A B n (-e) (-e) e e s u (by linarith) (by linarith) hu hu1
  · have : ((1 - u) * -e + (1 + u) * -e) / 2 = -e := by ring
    rw [this]; exact hs
  · have : ((1 - u) * e + (1 + u) * e) / 2 = e := by ring
    rw [this]; exact hs1

end Lyon.C06
