import LyonVerif.Model.Slab
import LyonVerif.Lemmas.Field
namespace Lyon.C06
theorem placeholder_rule_isIn_zero : Lyon.Slab.Rule.isIn .nonZero 0 = false := rfl
end Lyon.C06
