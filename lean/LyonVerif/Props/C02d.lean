/-
  C02 (part d) — the triangles of a fill as the CALLER reads them out of his buffers.

  The tiling statement of C02 is about the triangles "produced for a fill".  A caller of
  `FillTessellator` does not see vertex ids: he finds positions in `VertexBuffers.vertices` and
  numbers in `VertexBuffers.indices`, written by a `BuffersBuilder` that may have been handed buffers
  which already hold geometry, for an index type of his choice.  The theorems here are about the
  executable models the `bufidx` family of the C02 check runs against the real `BuffersBuilder`
  (`Model/Tess/GeomBuilder.lean`, `Model/Tess/Skeleton.lean`, shared with C04):

  * `fill_triangles_independent_of_prior_contents` — for every index configuration, every prior
    buffer contents `B` and every well-scoped request sequence of the fill core (in particular the
    modelled sweep's: `Lyon.SweepIdx.sweep_protocol_indices`): if prior and new vertices together
    fit the index type (`|B| + #vertices ≤ MAX`), the call succeeds, `B` is an untouched prefix,
    every new stored index names a vertex of THIS fill, and the list of triangles RESOLVED THROUGH
    THE BUFFER (index → vertex payload) is the very list obtained from the same fill into empty
    buffers.  So a whole-fill tiling verdict does not depend on what the buffers held before.
  * `fill_beyond_index_range_refused` — the other side of the fit hypothesis, for every `B` whose
    size itself still fits: when `|B| + #vertices > MAX` the call returns `TooManyVertices` and the
    buffers are exactly `B` again (no triangle with a wrapped index can be left behind).
  * `limit_counts_prior_vertices_witness` — why the limit has to count the vertices that were in the
    buffers before `begin_geometry`: ids are absolute positions, and `as u16` of an id ≥ 65536 names
    a PRIOR vertex (conv 65536 = 0).
-/
import LyonVerif.Props.C04

set_option linter.unusedVariables false
set_option linter.unusedSimpArgs false

namespace Lyon.C02d
open Lyon Lyon.Tess Lyon.C04

/-- The triangles a caller reads: the index slice resolved through the vertex buffer
(`none` = the index names no vertex of the buffer). -/
def resolved (vs : List Nat) (is : List Nat) : List (Option Nat) := is.map (fun i => vs[i]?)

theorem resolved_shift (Bv vs : List Nat) (is : List Nat) :
    resolved (Bv ++ vs) (is.map (· + Bv.length)) = resolved vs is := by
  simp only [resolved, List.map_map]
  apply List.map_congr_left
  intro i _
  simp only [Function.comp]
  rw [List.getElem?_append_right (by omega)]
  congr 1
  omega

theorem conv_le (b : BB) (h : b.vertexOffset = 0) (a : Nat) : b.conv a ≤ a := by
  simp only [BB.conv, h, Nat.add_zero]
  exact Nat.le_trans (Nat.mod_le _ _) (Nat.mod_le _ _)

/-- ids handed out and indices stored so far all name vertices of the buffer (no offset). -/
structure Inv (b : BB) (ids : List Nat) : Prop where
  off : b.vertexOffset = 0
  ids : ∀ id ∈ ids, id < b.buf.vertices.length
  idx : ∀ i ∈ b.buf.indices, i < b.buf.vertices.length

theorem runQ_inv : ∀ (core : List CReq) (b : BB) (ids : List Nat), Inv b ids →
    wellScoped ids.length core = true →
    Inv (runQ bbSink core b ids).st (runQ bbSink core b ids).ids := by
  intro core
  induction core with
  | nil => intro b ids h _; simpa [runQ] using h
  | cons r rest ih =>
    intro b ids h hw
    cases r with
    | v p =>
      simp only [wellScoped] at hw
      have hv : bbSink.vertex b p = b.addVertex p := rfl
      obtain ⟨c1, o1, _, v1, i1⟩ := addVertex_cfg b p
      have hgrow : ∀ x, x < b.buf.vertices.length → x < (b.addVertex p).1.buf.vertices.length := by
        intro x hx; rw [v1]; simp; omega
      cases hres : (b.addVertex p).2 with
      | ok i =>
        have hi := addVertex_ok b p i hres
        have e : b.addVertex p = ((b.addVertex p).1, .ok i) := by rw [← hres]
        have hs : Inv (b.addVertex p).1 (ids ++ [i]) := by
          refine ⟨by rw [o1]; exact h.off, ?_, ?_⟩
          · intro id hid
            rcases List.mem_append.mp hid with hh | hh
            · exact hgrow _ (h.ids id hh)
            · simp at hh; subst hh; rw [v1, hi]; simp
          · intro j hj; rw [i1] at hj; exact hgrow _ (h.idx j hj)
        have := ih (b.addVertex p).1 (ids ++ [i]) hs (by simpa using hw)
        rw [runQ, hv, e]
        exact this
      | error e' =>
        have e : b.addVertex p = ((b.addVertex p).1, .error e') := by rw [← hres]
        rw [runQ, hv, e]
        refine ⟨by show (b.addVertex p).1.vertexOffset = 0; rw [o1]; exact h.off, ?_, ?_⟩
        · intro id hid; exact hgrow _ (h.ids id hid)
        · intro j hj
          have hj' : j ∈ (b.addVertex p).1.buf.indices := hj
          rw [i1] at hj'; exact hgrow _ (h.idx j hj')
    | t x y z =>
      simp only [wellScoped, Bool.and_eq_true, decide_eq_true_eq] at hw
      obtain ⟨⟨⟨hx, hy⟩, hz⟩, hr⟩ := hw
      have ht : bbSink.tri b = b.addTriangle := rfl
      have res : ∀ a, a < ids.length → b.conv (resolve ids a) < b.buf.vertices.length := fun a ha =>
        Nat.lt_of_le_of_lt (conv_le b h.off _) (h.ids _ (resolve_mem ids a ha))
      have hs : Inv (b.addTriangle (resolve ids x) (resolve ids y) (resolve ids z)) ids := by
        refine ⟨h.off, h.ids, ?_⟩
        intro j hj
        simp only [BB.addTriangle, List.mem_append, List.mem_cons, List.not_mem_nil, or_false] at hj
        rcases hj with hj | hj | hj | hj
        · exact h.idx j hj
        · rw [hj]; exact res x hx
        · rw [hj]; exact res y hy
        · rw [hj]; exact res z hz
      have := ih _ ids hs hr
      rw [runQ, ht]
      exact this

/-- **Prior buffer contents do not change the triangles of a fill** (see the file header). -/
theorem fill_triangles_independent_of_prior_contents (B : Buffers) (cfg : IdxCfg) (core : List CReq)
    (hw : wellScoped 0 core = true)
    (hfit : B.vertices.length + nVerts core ≤ cfg.max) (hm1 : cfg.max ≤ cfg.modulus) (hm2 : cfg.max ≤ idxMod) :
    let o0 := tessellateImpl bbSink true core none (BB.new ⟨[], []⟩ cfg)
    let oB := tessellateImpl bbSink true core none (BB.new B cfg)
    oB.result = none ∧
    oB.st.buf.vertices.take B.vertices.length = B.vertices ∧
    oB.st.buf.indices.take B.indices.length = B.indices ∧
    (∀ i ∈ oB.st.buf.indices.drop B.indices.length, B.vertices.length ≤ i ∧ i < oB.st.buf.vertices.length) ∧
    resolved oB.st.buf.vertices (oB.st.buf.indices.drop B.indices.length)
      = resolved o0.st.buf.vertices o0.st.buf.indices := by
  intro o0 oB
  obtain ⟨h0, hB, hv, hi⟩ := offset_shift B cfg core hw hfit hm1 hm2
  have hv : oB.st.buf.vertices = B.vertices ++ o0.st.buf.vertices := hv
  have hi : oB.st.buf.indices = B.indices ++ o0.st.buf.indices.map (· + B.vertices.length) := hi
  -- the run on empty buffers: every stored index names one of its vertices
  have hinv0 : ∀ i ∈ o0.st.buf.indices, i < o0.st.buf.vertices.length := by
    have hI : Inv (bbSink.begin (BB.new ⟨[], []⟩ cfg)) [] :=
      ⟨rfl, by simp, by simp [bbSink, BB.begin, BB.new]⟩
    have hr := runQ_inv core _ [] hI hw
    have hst : o0.st = (runQ bbSink core (bbSink.begin (BB.new ⟨[], []⟩ cfg)) []).st := by
      have h0' := h0
      revert h0'
      simp only [o0, tessellateImpl, Bool.not_true, Bool.false_eq_true, if_false]
      cases (runQ bbSink core (bbSink.begin (BB.new ⟨[], []⟩ cfg)) []).err <;> simp [bbSink, BB.endG]
    rw [hst]; exact hr.idx
  have hdrop : oB.st.buf.indices.drop B.indices.length = o0.st.buf.indices.map (· + B.vertices.length) := by
    rw [hi]; simp
  refine ⟨hB, by rw [hv]; simp, by rw [hi]; simp, ?_, ?_⟩
  · intro i hi'
    rw [hdrop] at hi'
    obtain ⟨j, hj, rfl⟩ := List.mem_map.1 hi'
    have hjr := hinv0 j hj
    have hl : oB.st.buf.vertices.length = B.vertices.length + o0.st.buf.vertices.length := by
      rw [hv]; simp
    omega
  · rw [hdrop, hv]
    exact resolved_shift _ _ _

example : let core := [CReq.v 0, .v 1, .v 2, .v 3, .t 0 1 2, .t 0 2 3]
    let B : Buffers := ⟨[7, 7, 7], [1, 0, 2]⟩
    wellScoped 0 core = true ∧ B.vertices.length + nVerts core ≤ IndexTy.u16.cfg.max ∧
    IndexTy.u16.cfg.max ≤ IndexTy.u16.cfg.modulus ∧ IndexTy.u16.cfg.max ≤ idxMod ∧
    (tessellateImpl bbSink true core none (BB.new B IndexTy.u16.cfg)).st.buf = ⟨[7, 7, 7, 0, 1, 2, 3], [1, 0, 2, 3, 4, 5, 3, 5, 6]⟩ ∧
    resolved [7, 7, 7, 0, 1, 2, 3] [3, 4, 5, 3, 5, 6] = resolved [0, 1, 2, 3] [0, 1, 2, 0, 2, 3] := by decide

/-! ## beyond the index range -/

theorem runQ_refused : ∀ (core : List CReq) (b : BB) (ids : List Nat),
    b.buf.vertices.length ≤ b.cfg.max → b.buf.vertices.length + nVerts core > b.cfg.max →
    (runQ bbSink core b ids).err = some .tooManyVertices := by
  intro core
  induction core with
  | nil => intro b ids h1 h2; simp [nVerts] at h2; omega
  | cons r rest ih =>
    intro b ids h1 h2
    cases r with
    | v p =>
      simp only [nVerts] at h2
      have hv : bbSink.vertex b p = b.addVertex p := rfl
      obtain ⟨c1, _, _, v1, _⟩ := addVertex_cfg b p
      have r1 := too_many_vertices_aux b p
      by_cases hgt : b.buf.vertices.length + 1 > b.cfg.max
      · rw [if_pos hgt] at r1
        have e : b.addVertex p = ((b.addVertex p).1, .error .tooManyVertices) := by rw [← r1]
        rw [runQ, hv, e]
      · rw [if_neg hgt] at r1
        have e : b.addVertex p = ((b.addVertex p).1, .ok b.buf.vertices.length) := by rw [← r1]
        have := ih (b.addVertex p).1 (ids ++ [b.buf.vertices.length])
          (by rw [v1, c1]; simp; omega) (by rw [v1, c1]; simp; omega)
        rw [runQ, hv, e]
        exact this
    | t x y z =>
      simp only [nVerts] at h2
      have ht : bbSink.tri b = b.addTriangle := rfl
      have := ih (b.addTriangle (resolve ids x) (resolve ids y) (resolve ids z)) ids h1 h2
      rw [runQ, ht]
      exact this

/-- **A fill that would pass the index type's range is refused as a whole**: for every index
configuration, every prior contents `B` (itself within the range, fewer than 2^32 indices) and
every request sequence: if prior and new vertices together exceed `MaxIndex::MAX`, the call returns
`TooManyVertices` and the buffers are exactly `B` — no triangle whose index wrapped around onto a
prior vertex is ever left in the caller's buffers. -/
theorem fill_beyond_index_range_refused (B : Buffers) (cfg : IdxCfg) (core : List CReq)
    (hB : B.vertices.length ≤ cfg.max) (hm2 : cfg.max < idxMod) (hi : B.indices.length < idxMod)
    (hover : B.vertices.length + nVerts core > cfg.max) :
    let oB := tessellateImpl bbSink true core none (BB.new B cfg)
    oB.result = some (.geometryBuilder .tooManyVertices) ∧ oB.st.buf = B := by
  intro oB
  have hb : bbSink.begin (BB.new B cfg) = (BB.new B cfg).begin := rfl
  have herr := runQ_refused core (BB.new B cfg).begin [] (by simpa [BB.begin, BB.new] using hB)
    (by simpa [BB.begin, BB.new] using hover)
  have hex := exec_lower bbSink core (BB.new B cfg).begin []
  have hrest := buffers_abort_restores (BB.new B cfg) (lower bbSink core (BB.new B cfg).begin []) (lower_body _ _ _ _)
    (by simp only [BB.new]; omega) (by simpa [BB.new] using hi)
  rw [hex] at hrest
  simp only [oB, tessellateImpl, Bool.not_true, Bool.false_eq_true, if_false, hb, herr]
  exact ⟨trivial, hrest⟩

example : let core := [CReq.v 0, .v 1, .v 2, .t 0 1 2]
    let B : Buffers := ⟨[7, 7, 7], [1, 0, 2]⟩
    let cfg : IdxCfg := ⟨5, 8⟩
    B.vertices.length ≤ cfg.max ∧ cfg.max < idxMod ∧ B.indices.length < idxMod ∧
    B.vertices.length + nVerts core > cfg.max ∧
    (tessellateImpl bbSink true core none (BB.new B cfg)).result = some (.geometryBuilder .tooManyVertices) ∧
    (tessellateImpl bbSink true core none (BB.new B cfg)).st.buf = B := by decide

/-- **Why the limit counts the prior vertices**: vertex ids are absolute positions in
`VertexBuffers.vertices` and `add_triangle` stores `id as u16`.  An id past the range does not
name the vertex it was handed out for: 65536 is stored as 0, 65540 as 4 — vertices that were in
the buffers before this fill.  (A check of `len - first_vertex` against `MAX` would accept such
ids whenever the buffers were not empty at `begin_geometry`.) -/
theorem limit_counts_prior_vertices_witness :
    (BB.new ⟨[], []⟩ IndexTy.u16.cfg).conv 65536 = 0 ∧ (BB.new ⟨[], []⟩ IndexTy.u16.cfg).conv 65540 = 4 ∧
    (BB.new ⟨[], []⟩ IndexTy.u16.cfg).conv 65534 = 65534 := by decide

end Lyon.C02d
