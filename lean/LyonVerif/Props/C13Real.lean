/-
  C13 over ℝ — the main theorems of `Props/C13.lean` WITHOUT trigonometric hypotheses.

  The model of `Model/Geom/SvgArc.lean` (the same `def`s that run at `Float32`/`Float` against
  lyon_geom) is instantiated at `ℝ` with Mathlib's functions (`exampleTransc` of `Props/C13.lean`:
  `Real.sqrt`, `Real.sin`, `Real.cos`, `Real.tan`, `⌈·⌉`, C's `fmod`, `Real.pi`, and
  `atan2(y, x) = Complex.arg (x + iy)`, shown to follow libm's quadrant rules in
  `atan2_real_quadrants`).  No law of a transcendental function is assumed below: every
  hypothesis is a condition on the INPUT.

  §0  `atan2_quadrants_real`: the instance's `atan2` is libm's (quadrant rules, range, polar angle).
  §1  `Arc::from_svg_arc` / `Arc::to_svg_arc`, for every end-point arc with non-zero radii and
      `from ≠ to` (weaker than the function's own `assert!(!is_straight_line())`, for any
      `S::EPSILON ≥ 0`: `svg_arc_real`):
      * `svg_arc_endpoints_real`   the centre-form arc starts at `from` and ends at `to`;
      * `svg_arc_radii_real`       radii `|rx|, |ry|`, multiplied by `√rf` exactly when `rf > 1`;
        `radii_span_chord_iff_real`: `rf ≤ 1` iff an ellipse with radii `|rx|, |ry|` and the given
        rotation passes through both points ("scaled up exactly when too small"), and
        `scaled_radii_minimal_real`: the factor `√rf` is the least one that makes them fit;
      * `svg_arc_sweep_real`       `0 < sweep < 2π` iff the sweep flag, `−2π < sweep < 0` otherwise
        (never `0`); `|sweep| ≥ π` iff the large-arc flag when `rf < 1`; exactly `±π` when `rf ≥ 1`;
        closed form `|sweep| = arccos(1 − 2 rf)` / `2π − arccos(1 − 2 rf)`;
      * `svg_arc_roundtrip_real`   `to_svg_arc (from_svg_arc a)` = `a` with the radii replaced by the
        (scaled) absolute ones and the large-arc flag forced when `rf ≥ 1`; in particular it IS `a`
        for positive radii that strictly span the chord (`svg_arc_roundtrip_id_real`).
  §2  the Bézier sequences of a real arc, no cast / ceil hypotheses left:
      * `arc_beziers_on_arc_real`  (|sweep| ≤ 2π, full strength) piece `j` of `n` carries the range
        `[j/n, (j+1)/n]` (last end exactly 1) and runs from `arc.sample (j/n)` to
        `arc.sample ((j+1)/n)`; the first piece starts at `arc.from()`, the last ends at `arc.to()`;
      * `svg_arc_beziers_real`  every `SvgArc` (degenerate ones included): both sequences are non-empty,
        start exactly at `from` and end exactly at `to`;
      * `arc_beziers_beyond_turn_real`  (|sweep| > 2π, open finding C13-bezier-sweep-clamped) the exact
        behaviour of the code: 8 quadratics / 4 cubics, the last one ends at the START point
        `arc.sample 0`, which is `arc.to()` only if the sweep is a whole number of turns.
-/
import LyonVerif.Lemmas.SvgArcReal

set_option linter.unusedSectionVars false
set_option linter.unusedVariables false
set_option linter.unusedSimpArgs false

namespace Lyon.C13
open Lyon Scalar ArcConv

/-! ## §0 the angle function of the real instance is libm's `atan2` -/

/-- **`atan2_quadrants_real`**: the `atan2` with which the model is instantiated at `ℝ`
(`Complex.arg (x + iy)`) obeys the quadrant rules of C / IEEE-754 `atan2` by `Real.arctan`
(`atan2Quadrant`: `arctan(y/x)` for `x > 0`; `arctan(y/x) ± π` for `x < 0` by the sign of `y`, `+π` at
`y = 0`; `±π/2` on the `y` axis; `0` at the origin), has the range `(−π, π]`, and is the polar angle:
`(cos, sin)(atan2(y, x)) = (x, y)/√(x² + y²)` off the origin.  This is what discharges
`ExactTrig.angle_exact` for the code's angle function `exactAngle v = atan2(v.y, v.x)`. -/
theorem atan2_quadrants_real (y x : ℝ) :
    (Transc.atan2 y x : ℝ) = atan2Quadrant y x
    ∧ -Real.pi < (Transc.atan2 y x : ℝ) ∧ (Transc.atan2 y x : ℝ) ≤ Real.pi
    ∧ (x ≠ 0 ∨ y ≠ 0 → Real.cos (Transc.atan2 y x : ℝ) = x / Real.sqrt (x * x + y * y)
        ∧ Real.sin (Transc.atan2 y x : ℝ) = y / Real.sqrt (x * x + y * y)) :=
  ⟨atan2_real_quadrants y x, (atan2_real_range y x).1, (atan2_real_range y x).2, atan2_real_polar y x⟩

/-! ## §1 `from_svg_arc` and `to_svg_arc` over ℝ -/

section conv
variable (a : SvgArc ℝ) (hrx : a.radii.x ≠ 0) (hry : a.radii.y ≠ 0) (hne : a.from_ ≠ a.to)
include hrx hry hne

/-- **`svg_arc_endpoints_real`**: over ℝ, the centre-form arc computed by `Arc::from_svg_arc` starts
at the given start point and ends at the given end point — for all end points, x-rotations, all
four flag combinations and non-zero radii of any sign, spanning the chord or not. -/
theorem svg_arc_endpoints_real :
    (fromSvgArc a).sample 0 = a.from_ ∧ (fromSvgArc a).sample 1 = a.to :=
  svg_arc_endpoints_of_exact exactTrig_real a hrx hry hne

/-- **`svg_arc_radii_real`**: the arc uses `|rx|, |ry|` when they span the chord (`rf ≤ 1`) and
`|rx|·√rf, |ry|·√rf` when they do not (`rf > 1`, F.6.6.3); either way the radii are positive, at
least the given ones, and the chord fits the resulting ellipse exactly when scaled
(`(p.x/rx)² + (p.y/ry)² = min(rf, 1)`); the x-rotation is kept. -/
theorem svg_arc_radii_real :
    (rf a ≤ 1 → (fromSvgArc a).radii = ⟨|a.radii.x|, |a.radii.y|⟩)
    ∧ (1 < rf a → (fromSvgArc a).radii = ⟨|a.radii.x| * Real.sqrt (rf a), |a.radii.y| * Real.sqrt (rf a)⟩)
    ∧ 0 < (fromSvgArc a).radii.x ∧ 0 < (fromSvgArc a).radii.y
    ∧ |a.radii.x| ≤ (fromSvgArc a).radii.x ∧ |a.radii.y| ≤ (fromSvgArc a).radii.y
    ∧ qOf a = Min.min (rf a) 1
    ∧ (fromSvgArc a).xrot = a.xrot := by
  obtain ⟨r1, r2⟩ := svg_arc_radii exactAngle a
  obtain ⟨p1, p2⟩ := rx_ry_pos exactTrig_real a hrx hry hne
  refine ⟨r1, r2, p1, p2, ?_, ?_, qOf_eq_min a hrx hry hne, rfl⟩
  · show |a.radii.x| ≤ rx a
    simp only [rx, scaleRadius, rx0, sc_abs, sc_one, gt_iff_lt]
    split_ifs with h
    · have h1 : 1 ≤ Real.sqrt (rf a) := Real.one_le_sqrt.mpr (le_of_lt h)
      rw [transc_sqrt_real]
      nlinarith [abs_nonneg a.radii.x]
    · exact le_refl _
  · show |a.radii.y| ≤ ry a
    simp only [ry, scaleRadius, ry0, sc_abs, sc_one, gt_iff_lt]
    split_ifs with h
    · have h1 : 1 ≤ Real.sqrt (rf a) := Real.one_le_sqrt.mpr (le_of_lt h)
      rw [transc_sqrt_real]
      nlinarith [abs_nonneg a.radii.y]
    · exact le_refl _

/-- **`svg_arc_sweep_real`**: direction and size of the sweep are the ones selected by the flags.
* sweep flag set: `0 < sweep < 2π`; not set: `−2π < sweep < 0` (so `sweep > 0 ↔ flag`, never `0`);
* radii strictly spanning the chord (`rf < 1`): `|sweep| ≥ π` iff the large-arc flag, and
  `|sweep| = arccos(1 − 2·rf)` (small arc) resp. `2π − arccos(1 − 2·rf)` (large arc);
* otherwise (`rf ≥ 1`, the only candidates are the two half ellipses): `sweep = ±π`. -/
theorem svg_arc_sweep_real :
    (a.sweep = true → 0 < (fromSvgArc a).sweep ∧ (fromSvgArc a).sweep < 2 * Real.pi)
    ∧ (a.sweep = false → -(2 * Real.pi) < (fromSvgArc a).sweep ∧ (fromSvgArc a).sweep < 0)
    ∧ (0 < (fromSvgArc a).sweep ↔ a.sweep = true)
    ∧ (rf a < 1 → (Real.pi ≤ |(fromSvgArc a).sweep| ↔ a.large = true))
    ∧ (rf a < 1 → |(fromSvgArc a).sweep| =
        if a.large = true then 2 * Real.pi - Real.arccos (1 - 2 * rf a) else Real.arccos (1 - 2 * rf a))
    ∧ (1 ≤ rf a → (fromSvgArc a).sweep = if a.sweep = true then Real.pi else -Real.pi) := by
  obtain ⟨h1, h2⟩ := sweep_range_strict_real a hrx hry hne
  refine ⟨h1, h2, ?_, large_iff_real a hrx hry hne, abs_sweep_real a hrx hry hne,
    sweep_half_turn_real a hrx hry hne⟩
  cases hf : a.sweep
  · have := (h2 hf).2
    constructor
    · intro h; linarith
    · intro h; exact absurd h (by simp)
  · exact ⟨fun _ => rfl, fun _ => (h1 hf).1⟩

/-- **`svg_arc_roundtrip_real`**: `to_svg_arc ∘ from_svg_arc` returns the original end points,
x-rotation and sweep flag, the absolute (and, if too small, scaled) radii, and the large-arc flag —
which is forced to `true` in the half-turn case `rf ≥ 1`, where both candidate arcs coincide in
size.  An equality of `SvgArc` values: nothing else changes. -/
theorem svg_arc_roundtrip_real :
    toSvgArc (fromSvgArc a) =
      ⟨a.from_, a.to, ⟨rx a, ry a⟩, a.xrot, a.large || decide (1 ≤ rf a), a.sweep⟩ := by
  obtain ⟨e0, e1⟩ := svg_arc_endpoints_real a hrx hry hne
  obtain ⟨s1, s2, _, s4, _, s6⟩ := svg_arc_sweep_real a hrx hry hne
  have hpi := Real.pi_pos
  simp only [toSvgArc, SvgArc.mk.injEq, sc_zero, sc_one]
  refine ⟨e0, e1, rfl, rfl, ?_, ?_⟩
  · show decide (Scalar.abs (fromSvgArc a).sweep ≥ Transc.pi) = _
    simp only [sc_abs, ge_iff_le, transc_pi_real]
    rcases lt_or_ge (rf a) 1 with h | h
    · have hd : decide (1 ≤ rf a) = false := decide_eq_false (not_le.mpr h)
      rw [hd, Bool.or_false]
      cases hL : a.large
      · have := (s4 h).not.mpr (by rw [hL]; simp)
        exact decide_eq_false this
      · exact decide_eq_true ((s4 h).mpr hL)
    · have hd : decide (1 ≤ rf a) = true := decide_eq_true h
      rw [hd, Bool.or_true]
      apply decide_eq_true
      rw [s6 h]
      split_ifs
      · rw [abs_of_pos hpi]
      · rw [abs_neg, abs_of_pos hpi]
  · simp only [geom, ge_iff_le, Nat.cast_zero]
    cases hf : a.sweep
    · exact decide_eq_false (not_le.mpr (s2 hf).2)
    · exact decide_eq_true (le_of_lt (s1 hf).1)

/-- **the round trip is the identity** on end-point arcs with positive radii that strictly span the
chord ("converting back returns the original") -/
theorem svg_arc_roundtrip_id_real (hpx : 0 < a.radii.x) (hpy : 0 < a.radii.y) (hq : rf a < 1) :
    toSvgArc (fromSvgArc a) = a := by
  rw [svg_arc_roundtrip_real a hrx hry hne]
  have hd : decide (1 ≤ rf a) = false := decide_eq_false (not_le.mpr hq)
  have e1 : rx a = a.radii.x := by
    simp only [rx, scaleRadius, rx0, sc_abs, sc_one, gt_iff_lt, not_lt.mpr (le_of_lt hq), if_false,
      abs_of_pos hpx]
  have e2 : ry a = a.radii.y := by
    simp only [ry, scaleRadius, ry0, sc_abs, sc_one, gt_iff_lt, not_lt.mpr (le_of_lt hq), if_false,
      abs_of_pos hpy]
  rw [hd, Bool.or_false, e1, e2]

end conv

/-! ### "scaled up exactly when too small": what `rf ≤ 1` means -/

section span
variable (a : SvgArc ℝ) (hrx : a.radii.x ≠ 0) (hry : a.radii.y ≠ 0) (hne : a.from_ ≠ a.to)
include hrx hry hne

/-- **`radii_span_chord_iff_real`**: `rf ≤ 1` — the test after which `from_svg_arc` leaves the radii
alone — holds exactly when some ellipse with radii `|rx|, |ry|` and the given x-rotation passes
through both end points.  So the radii are scaled up exactly when they are too small.
(`SpansChord r1 r2 φ p q := ∃ c θ1 θ2, p = c + sampleEllipse (r1, r2) φ θ1 ∧ q = c + sampleEllipse (r1, r2) φ θ2`,
defined in `Lemmas/SvgArcReal.lean` with lyon's own `sample_ellipse`.) -/
theorem radii_span_chord_iff_real :
    rf a ≤ 1 ↔ SpansChord |a.radii.x| |a.radii.y| a.xrot a.from_ a.to := by
  constructor
  · intro h
    obtain ⟨e0, e1⟩ := svg_arc_endpoints_real a hrx hry hne
    have hr := (svg_arc_radii_real a hrx hry hne).1 h
    refine ⟨(fromSvgArc a).center, (fromSvgArc a).getAngle 0, (fromSvgArc a).getAngle 1, ?_, ?_⟩
    · rw [← hr]; exact e0.symm
    · rw [← hr]; exact e1.symm
  · intro h
    rw [rf_eq_rfWith]
    exact rfWith_le_one_of_spans a _ _ (abs_ne_zero.mpr hrx) (abs_ne_zero.mpr hry) h

/-- **`scaled_radii_minimal_real`**: when the radii are too small (`rf > 1`) the radii chosen by
`from_svg_arc`, `√rf·(|rx|, |ry|)`, do span the chord, and no smaller common factor does: for
`0 < k`, `k·(|rx|, |ry|)` spans the chord only if `k ≥ √rf` (F.6.6.3: "scale up uniformly until
there is exactly one solution"). -/
theorem scaled_radii_minimal_real (h : 1 < rf a) :
    SpansChord (|a.radii.x| * Real.sqrt (rf a)) (|a.radii.y| * Real.sqrt (rf a)) a.xrot a.from_ a.to
    ∧ ∀ k : ℝ, 0 < k → SpansChord (|a.radii.x| * k) (|a.radii.y| * k) a.xrot a.from_ a.to →
        Real.sqrt (rf a) ≤ k := by
  constructor
  · obtain ⟨e0, e1⟩ := svg_arc_endpoints_real a hrx hry hne
    have hr := (svg_arc_radii_real a hrx hry hne).2.1 h
    refine ⟨(fromSvgArc a).center, (fromSvgArc a).getAngle 0, (fromSvgArc a).getAngle 1, ?_, ?_⟩
    · rw [← hr]; exact e0.symm
    · rw [← hr]; exact e1.symm
  · intro k hk hsp
    have hx := abs_pos.mpr hrx
    have hy := abs_pos.mpr hry
    have := rfWith_le_one_of_spans a _ _ (ne_of_gt (mul_pos hx hk)) (ne_of_gt (mul_pos hy hk)) hsp
    have e : rfWith a (|a.radii.x| * k) (|a.radii.y| * k) = rf a / (k * k) := by
      rw [rf_eq_rfWith]
      simp only [rfWith]
      field_simp
    rw [e, div_le_one (by positivity)] at this
    rw [Real.sqrt_le_left (le_of_lt hk)]
    nlinarith

end span

/-! ### the same under the function's own precondition -/

/-- **`svg_arc_real`** — the first sentence of the property for the model over ℝ, under the
precondition that `Arc::from_svg_arc` asserts (`!arc.is_straight_line()`, for any value
`S::EPSILON ≥ 0`): the arc starts and ends at the given points; uses the radii `|rx|, |ry|`, scaled
by `√rf` exactly when they are too small; sweeps in the direction of the sweep flag by less than a
turn, by at least half a turn iff the large-arc flag (exactly half a turn when the radii do not
strictly span the chord); and `to_svg_arc` returns the original (with the normalised radii). -/
theorem svg_arc_real [Eps ℝ] (heps : 0 ≤ (Eps.eps : ℝ)) (a : SvgArc ℝ) (hs : isStraightLine a = false) :
    ((fromSvgArc a).sample 0 = a.from_ ∧ (fromSvgArc a).sample 1 = a.to)
    ∧ ((rf a ≤ 1 → (fromSvgArc a).radii = ⟨|a.radii.x|, |a.radii.y|⟩)
        ∧ (1 < rf a → (fromSvgArc a).radii = ⟨|a.radii.x| * Real.sqrt (rf a), |a.radii.y| * Real.sqrt (rf a)⟩)
        ∧ (rf a ≤ 1 ↔ SpansChord |a.radii.x| |a.radii.y| a.xrot a.from_ a.to))
    ∧ ((0 < (fromSvgArc a).sweep ↔ a.sweep = true) ∧ (fromSvgArc a).sweep ≠ 0
        ∧ |(fromSvgArc a).sweep| < 2 * Real.pi
        ∧ (rf a < 1 → (Real.pi ≤ |(fromSvgArc a).sweep| ↔ a.large = true))
        ∧ (1 ≤ rf a → |(fromSvgArc a).sweep| = Real.pi))
    ∧ toSvgArc (fromSvgArc a) =
        ⟨a.from_, a.to, ⟨rx a, ry a⟩, a.xrot, a.large || decide (1 ≤ rf a), a.sweep⟩ := by
  obtain ⟨hrx, hry, hne⟩ := nondegenerate_of_not_straight a heps hs
  obtain ⟨r1, r2, _⟩ := svg_arc_radii_real a hrx hry hne
  obtain ⟨s1, s2, s3, s4, _, s6⟩ := svg_arc_sweep_real a hrx hry hne
  have hpi := Real.pi_pos
  refine ⟨svg_arc_endpoints_real a hrx hry hne, ⟨r1, r2, radii_span_chord_iff_real a hrx hry hne⟩,
    ⟨s3, sweep_ne_zero_real a hrx hry hne, ?_, s4, ?_⟩, svg_arc_roundtrip_real a hrx hry hne⟩
  · cases hf : a.sweep
    · obtain ⟨l, u⟩ := s2 hf; rw [abs_of_neg u]; linarith
    · obtain ⟨l, u⟩ := s1 hf; rw [abs_of_pos l]; exact u
  · intro h
    rw [s6 h]
    split_ifs
    · exact abs_of_pos hpi
    · rw [abs_neg, abs_of_pos hpi]

/-! ## §2 the Bézier sequences of a real arc -/

/-- **`arc_beziers_on_arc_real`** (full strength for `|sweep| ≤ 2π`, every real arc, any radii,
centre, rotation; no hypothesis on casts or `ceil`).  With `nq`, `nc` the numbers of pieces:
* quadratic `j` carries the parameter range `[j/nq, (j+1)/nq]` and runs from `arc.sample (j/nq)` to
  `arc.sample ((j+1)/nq)`; cubic `j` runs from `arc.sample (j/nc)` to `arc.sample ((j+1)/nc)`:
  the pieces follow the arc's own parametrisation in order, each starts where the previous ends;
* for a non-zero sweep there is at least one piece, the first one starts at `arc.sample 0`
  (`arc.from()`) and the last one ends at `arc.sample 1` (`arc.to()`); for a zero sweep both
  sequences are empty. -/
theorem arc_beziers_on_arc_real (arc : Arc ℝ) (hsw : |arc.sweep| ≤ 2 * Real.pi) :
    (∀ j, j < nQ arc → ∃ q : Quad ℝ,
        (quadsWithT arc)[j]? = some (q, (j : ℝ) / (nQ arc : ℝ), ((j + 1 : Nat) : ℝ) / (nQ arc : ℝ))
        ∧ q.a = arc.sample ((j : ℝ) / (nQ arc : ℝ))
        ∧ q.b = arc.sample (((j + 1 : Nat) : ℝ) / (nQ arc : ℝ)))
    ∧ (∀ j, j < nC arc → ∃ c : Cubic ℝ, (cubics arc)[j]? = some c
        ∧ c.a = arc.sample ((j : ℝ) / (nC arc : ℝ))
        ∧ c.b = arc.sample (((j + 1 : Nat) : ℝ) / (nC arc : ℝ)))
    ∧ (quadsWithT arc).length = nQ arc ∧ (cubics arc).length = nC arc
    ∧ (arc.sweep ≠ 0 → 0 < nQ arc ∧ 0 < nC arc
        ∧ (∃ x, (quadsWithT arc)[0]? = some x ∧ x.1.a = arc.sample 0)
        ∧ (∃ x, (quadsWithT arc)[nQ arc - 1]? = some x ∧ x.1.b = arc.sample 1 ∧ x.2.2 = 1)
        ∧ (∃ x, (cubics arc)[0]? = some x ∧ x.a = arc.sample 0)
        ∧ (∃ x, (cubics arc)[nC arc - 1]? = some x ∧ x.b = arc.sample 1))
    ∧ (arc.sweep = 0 → quadsWithT arc = [] ∧ cubics arc = []) := by
  have hsw' : |arc.sweep| ≤ Transc.pi * 2 := by rw [transc_pi_real]; linarith
  obtain ⟨hq, hc, _, _⟩ := arc_beziers_endpoints_on_arc_partial arc hsw'
  obtain ⟨c1, c2⟩ := cast_faithful_real arc
  have hlenQ : (quadsWithT arc).length = nQ arc := by rw [quads_closed_form]; simp
  have hlenC : (cubics arc).length = nC arc := by rw [cubics_closed_form]; simp
  have HQ : ∀ j, j < nQ arc → ∃ q : Quad ℝ,
        (quadsWithT arc)[j]? = some (q, (j : ℝ) / (nQ arc : ℝ), ((j + 1 : Nat) : ℝ) / (nQ arc : ℝ))
        ∧ q.a = arc.sample ((j : ℝ) / (nQ arc : ℝ))
        ∧ q.b = arc.sample (((j + 1 : Nat) : ℝ) / (nQ arc : ℝ)) := by
    intro j hj
    refine ⟨quadPiece arc (stepQ arc) j, ?_, ?_, ?_⟩
    · rw [quads_get arc j hj, tSeq_all_real arc j (le_of_lt hj) (by omega),
        tSeq_all_real arc (j + 1) hj (by omega)]
    · rw [(hq j).1, c1]
    · rw [(hq j).2, c1]
  have HC : ∀ j, j < nC arc → ∃ c : Cubic ℝ, (cubics arc)[j]? = some c
        ∧ c.a = arc.sample ((j : ℝ) / (nC arc : ℝ))
        ∧ c.b = arc.sample (((j + 1 : Nat) : ℝ) / (nC arc : ℝ)) := by
    intro j hj
    refine ⟨cubicPiece arc (stepC arc) j, cubics_get arc j hj, ?_, ?_⟩
    · rw [(hc j).1, c2]
    · rw [(hc j).2, c2]
  refine ⟨HQ, HC, hlenQ, hlenC, ?_, ?_⟩
  · intro h0
    obtain ⟨_, _, nq, nc⟩ := nSteps_pos_real arc h0
    have hnq : (0 : ℝ) < (nQ arc : ℝ) := by exact_mod_cast nq
    have hnc : (0 : ℝ) < (nC arc : ℝ) := by exact_mod_cast nc
    refine ⟨nq, nc, ?_, ?_, ?_, ?_⟩
    · obtain ⟨q, e, ea, _⟩ := HQ 0 nq
      exact ⟨_, e, by rw [ea]; simp⟩
    · obtain ⟨q, e, _, eb⟩ := HQ (nQ arc - 1) (by omega)
      refine ⟨_, e, ?_, ?_⟩
      · rw [eb, Nat.sub_add_cancel nq, div_self (ne_of_gt hnq)]
      · show ((nQ arc - 1 + 1 : Nat) : ℝ) / (nQ arc : ℝ) = 1
        rw [Nat.sub_add_cancel nq, div_self (ne_of_gt hnq)]
    · obtain ⟨c, e, ea, _⟩ := HC 0 nc
      exact ⟨_, e, by rw [ea]; simp⟩
    · obtain ⟨c, e, _, eb⟩ := HC (nC arc - 1) (by omega)
      exact ⟨_, e, by rw [eb, Nat.sub_add_cancel nc, div_self (ne_of_gt hnc)]⟩
  · intro h0
    obtain ⟨z1, z2⟩ := nSteps_zero_real arc h0
    constructor
    · rw [quads_closed_form, z1]; rfl
    · rw [cubics_closed_form, z2]; rfl

/-- **`svg_arc_beziers_real`** — the consumer's view (`SvgArc::for_each_quadratic_bezier(_with_t)`,
`for_each_cubic_bezier`; `WithSvg::arc_to` and the parser's `A` command go through them): for EVERY
end-point arc over ℝ — degenerate ones included, which are replaced by the straight segment — both
sequences are non-empty, start exactly at `from` (range start `0`) and end exactly at `to` (range
end `1`). -/
theorem svg_arc_beziers_real [Eps ℝ] (heps : 0 ≤ (Eps.eps : ℝ)) (a : SvgArc ℝ) :
    (∃ x, (svgQuadsWithT a)[0]? = some x ∧ x.1.a = a.from_ ∧ x.2.1 = 0)
    ∧ (∃ x, (svgQuadsWithT a)[(svgQuadsWithT a).length - 1]? = some x ∧ x.1.b = a.to ∧ x.2.2 = 1)
    ∧ (∃ x, (svgCubics a)[0]? = some x ∧ x.a = a.from_)
    ∧ (∃ x, (svgCubics a)[(svgCubics a).length - 1]? = some x ∧ x.b = a.to) := by
  cases hs : isStraightLine a
  · obtain ⟨⟨e0, e1⟩, _, ⟨_, hne0, hlt, _, _⟩, _⟩ := svg_arc_real heps a hs
    obtain ⟨HQ, HC, lq, lc, hpos, _⟩ := arc_beziers_on_arc_real (fromSvgArc a) (le_of_lt hlt)
    obtain ⟨nq, nc, _, ⟨xq, eq1, eq2, eq3⟩, ⟨yc, ec0, ec1⟩, ⟨xc, ec2, ec3⟩⟩ := hpos hne0
    have hQ : svgQuadsWithT a = quadsWithT (fromSvgArc a) := by simp only [svgQuadsWithT, hs]; rfl
    have hC : svgCubics a = cubics (fromSvgArc a) := by simp only [svgCubics, hs]; rfl
    rw [hQ, hC, lq, lc]
    obtain ⟨q0, g0, g1, _⟩ := HQ 0 nq
    refine ⟨⟨_, g0, by rw [g1, ← e0]; simp, by simp⟩, ⟨xq, eq1, by rw [eq2, e1], eq3⟩,
      ⟨yc, ec0, by rw [ec1, e0]⟩, ⟨xc, ec2, by rw [ec3, e1]⟩⟩
  · have hQ : svgQuadsWithT a = [(⟨a.from_, a.from_, a.to⟩, Scalar.zero, Scalar.one)] := by
      simp only [svgQuadsWithT, hs, if_true]
    have hC : svgCubics a = [⟨a.from_, a.from_, a.to, a.to⟩] := by
      simp only [svgCubics, hs, if_true]
    rw [hQ, hC]
    refine ⟨⟨_, rfl, rfl, by simp only [geom, Nat.cast_zero]⟩, ⟨_, rfl, rfl, by simp only [geom, Nat.cast_one]⟩,
      ⟨_, rfl, rfl⟩, ⟨_, rfl, rfl⟩⟩

/-- **`arc_beziers_beyond_turn_real`** — the exact behaviour of the code beyond a full turn (open
finding C13-bezier-sweep-clamped).  For every real arc with `|sweep| > 2π`: both sequences cover
exactly ONE turn — 8 quadratics with the ranges `j/8 … (j+1)/8`, 4 cubics —; piece `j` runs between
the angles `start ± j·π/4` (resp. `± j·π/2`), NOT between the arc's own parameters `j/n`; the first
piece starts at `arc.from()` and the last piece ends at the START point `arc.sample 0` again.  With
non-zero radii that is the arc's end point `arc.sample 1` only if the sweep is a whole number of
turns: for every other sweep beyond `2π` the property's "end on the arc's end point" FAILS. -/
theorem arc_beziers_beyond_turn_real (arc : Arc ℝ) (hsw : 2 * Real.pi < |arc.sweep|) :
    (quadsWithT arc).length = 8 ∧ (cubics arc).length = 4
    ∧ (∀ j, j < 8 → (quadsWithT arc)[j]? =
        some (quadPiece arc (Real.pi / 4 * signum arc.sweep) j, (j : ℝ) / 8, ((j + 1 : Nat) : ℝ) / 8))
    ∧ (∀ j, j < 4 → (cubics arc)[j]? = some (cubicPiece arc (Real.pi / 2 * signum arc.sweep) j))
    ∧ (quadPiece arc (Real.pi / 4 * signum arc.sweep) 0).a = arc.sample 0
    ∧ (cubicPiece arc (Real.pi / 2 * signum arc.sweep) 0).a = arc.sample 0
    ∧ (quadPiece arc (Real.pi / 4 * signum arc.sweep) 7).b = arc.sample 0
    ∧ (cubicPiece arc (Real.pi / 2 * signum arc.sweep) 3).b = arc.sample 0
    ∧ (arc.radii.x ≠ 0 → arc.radii.y ≠ 0 →
        (arc.sample 0 = arc.sample 1 ↔ ∃ k : ℤ, arc.sweep = 2 * Real.pi * k)) := by
  have hpi := Real.pi_pos
  obtain ⟨he, hnq, hnc, nq, nc⟩ := nSteps_full_turn_real arc (by linarith)
  have hsq : stepQ arc = Real.pi / 4 * signum arc.sweep := by
    simp only [stepQ, stepOf, he, hnq]; ring
  have hsc : stepC arc = Real.pi / 2 * signum arc.sweep := by
    simp only [stepC, stepOf, he, hnc]; ring
  have hsg : signum arc.sweep = (1 : ℝ) ∨ signum arc.sweep = (-1 : ℝ) := by
    unfold signum; simp only [sc_zero, sc_one]; split_ifs <;> simp
  have hs0 : arc.sample 0 = pointAt arc arc.start := by
    simp only [Arc.sample, pointAt, Arc.getAngle, mul_zero, add_zero]
  have hs1 : arc.sample 1 = pointAt arc (arc.start + arc.sweep) := by
    simp only [Arc.sample, pointAt, Arc.getAngle, mul_one]
  have hturnQ : ∃ k : ℤ, angleAt arc (Real.pi / 4 * signum arc.sweep) (7 + 1)
      = arc.start + (k : ℝ) * (2 * Real.pi) := by
    rcases hsg with h | h
    · exact ⟨1, by simp only [angleAt, ofNat_eq, h]; push_cast; ring⟩
    · exact ⟨-1, by simp only [angleAt, ofNat_eq, h]; push_cast; ring⟩
  have hturnC : ∃ k : ℤ, angleAt arc (Real.pi / 2 * signum arc.sweep) (3 + 1)
      = arc.start + (k : ℝ) * (2 * Real.pi) := by
    rcases hsg with h | h
    · exact ⟨1, by simp only [angleAt, ofNat_eq, h]; push_cast; ring⟩
    · exact ⟨-1, by simp only [angleAt, ofNat_eq, h]; push_cast; ring⟩
  have hdt : dtQ arc = 1 / 8 := by rw [dtQ_eq, hnq]
  refine ⟨by rw [quads_closed_form]; simp [nq], by rw [cubics_closed_form]; simp [nc], ?_, ?_, ?_, ?_, ?_, ?_, ?_⟩
  · intro j hj
    rw [quads_get arc j (by omega), hsq]
    have t1 := tSeq_all_real arc j (by omega) (by omega)
    have t2 := tSeq_all_real arc (j + 1) (by omega) (by omega)
    rw [nq] at t1 t2
    rw [nq, hdt] at *
    rw [t1, t2]
    norm_num
  · intro j hj
    rw [cubics_get arc j (by omega), hsc]
  · rw [hs0]; simp only [quadPiece, angleAt, ofNat_eq, Nat.cast_zero, mul_zero, add_zero]
  · rw [hs0]; simp only [cubicPiece, angleAt, ofNat_eq, Nat.cast_zero, mul_zero, add_zero]
  · rw [hs0]
    show pointAt arc (angleAt arc (Real.pi / 4 * signum arc.sweep) (7 + 1)) = _
    obtain ⟨k, hk⟩ := hturnQ
    rw [hk, pointAt_add_turn_real]
  · rw [hs0]
    show pointAt arc (angleAt arc (Real.pi / 2 * signum arc.sweep) (3 + 1)) = _
    obtain ⟨k, hk⟩ := hturnC
    rw [hk, pointAt_add_turn_real]
  · intro h1 h2
    rw [hs0, hs1, pointAt_eq_iff_real arc h1 h2]
    constructor
    · rintro ⟨k, hk⟩
      exact ⟨-k, by push_cast; linarith⟩
    · rintro ⟨k, hk⟩
      exact ⟨-k, by push_cast; linarith⟩

/-! ## non-vacuity -/

/-- the hypotheses of the §1 theorems hold for a rotated arc with a negative radius whose radii are
too small (`rf = 4·(cos² + sin²/4)·… > 1` is not needed here: only non-degeneracy) -/
example : (⟨⟨0, 0⟩, ⟨1, 0⟩, ⟨1, -2⟩, 1 / 2, true, true⟩ : SvgArc ℝ).radii.x ≠ 0
    ∧ (⟨⟨0, 0⟩, ⟨1, 0⟩, ⟨1, -2⟩, 1 / 2, true, true⟩ : SvgArc ℝ).radii.y ≠ 0
    ∧ (⟨⟨0, 0⟩, ⟨1, 0⟩, ⟨1, -2⟩, 1 / 2, true, true⟩ : SvgArc ℝ).from_
        ≠ (⟨⟨0, 0⟩, ⟨1, 0⟩, ⟨1, -2⟩, 1 / 2, true, true⟩ : SvgArc ℝ).to := by
  refine ⟨by norm_num, by norm_num, ?_⟩
  intro h; have := congrArg P.x h; norm_num at this

/-- `svg_arc_real` applies to the example arc of `Props/C13.lean` (lyon's f64 epsilon) -/
example : (fromSvgArc exampleArc).sample 1 = exampleArc.to :=
  (svg_arc_real exampleEps_nonneg exampleArc exampleArc_not_straight).1.2

/-- `svg_arc_beziers_real` applies with lyon's f64 epsilon: the example arc's quadratics end at `to` -/
example : ∃ x, (svgQuadsWithT exampleArc)[(svgQuadsWithT exampleArc).length - 1]? = some x
    ∧ x.1.b = exampleArc.to ∧ x.2.2 = 1 :=
  (svg_arc_beziers_real exampleEps_nonneg exampleArc).2.1

/-- unit circle, chord (−1/2,0)–(1/2,0): `rf = 1/4 < 1`, positive radii — the round trip is the identity -/
example : ∃ a : SvgArc ℝ, a.radii.x ≠ 0 ∧ a.radii.y ≠ 0 ∧ a.from_ ≠ a.to ∧ 0 < a.radii.x ∧ 0 < a.radii.y
    ∧ rf a < 1 := by
  refine ⟨⟨⟨-1/2, 0⟩, ⟨1/2, 0⟩, ⟨1, 1⟩, 0, false, true⟩, by norm_num, by norm_num,
    by intro h; have := congrArg P.x h; norm_num at this, by norm_num, by norm_num, ?_⟩
  have hcs := exactTrig_real.cos_sq_add_sin_sq (xr (⟨⟨-1/2, 0⟩, ⟨1/2, 0⟩, ⟨1, 1⟩, 0, false, true⟩ : SvgArc ℝ))
  simp only [rf, pt, hd, rx0, ry0, cosPhi, sinPhi, geom, Nat.cast_ofNat] at hcs ⊢
  norm_num
  nlinarith [hcs]

/-- radii (1/4, 1/4) for the chord (0,0)–(1,0): `rf = 4 > 1` (hypothesis of `scaled_radii_minimal_real`) -/
example : ∃ a : SvgArc ℝ, a.radii.x ≠ 0 ∧ a.radii.y ≠ 0 ∧ a.from_ ≠ a.to ∧ 1 < rf a := by
  refine ⟨⟨⟨0, 0⟩, ⟨1, 0⟩, ⟨1/4, 1/4⟩, 0, false, true⟩, by norm_num, by norm_num,
    by intro h; have := congrArg P.x h; norm_num at this, ?_⟩
  have hcs := exactTrig_real.cos_sq_add_sin_sq (xr (⟨⟨0, 0⟩, ⟨1, 0⟩, ⟨1/4, 1/4⟩, 0, false, true⟩ : SvgArc ℝ))
  simp only [rf, pt, hd, rx0, ry0, cosPhi, sinPhi, geom, Nat.cast_ofNat] at hcs ⊢
  norm_num
  nlinarith [hcs]

/-- sweeps within and beyond a full turn exist -/
example : |(⟨⟨1, 2⟩, ⟨3, 1⟩, 1, -Real.pi, 1 / 3⟩ : Arc ℝ).sweep| ≤ 2 * Real.pi
    ∧ 2 * Real.pi < |(⟨⟨0, 0⟩, ⟨1, 1⟩, 0, 3 * Real.pi, 0⟩ : Arc ℝ).sweep| := by
  have hpi := Real.pi_pos
  constructor
  · show |(-Real.pi)| ≤ 2 * Real.pi
    rw [abs_neg, abs_of_pos hpi]; linarith
  · show 2 * Real.pi < |3 * Real.pi|
    rw [abs_of_pos (by positivity)]; linarith

end Lyon.C13
