/-
  C13d — towards the oracle's `direction` clause as a theorem: the angular velocity of the quadratic
  piece about the centre, and the angular offset from the arc's own parametrisation.

  Setting: unit circle, piece from angle 0 to `δ`, `s = sin(δ/2)`, `c = cos(δ/2)`, `τ = tan(δ/2)`;
  the quadratic is `Q(t) = (qX t, qY t) = (1 − 2s²t², 2τ(t − t²) + 2sc·t²)` (`quad_unit_coords_real`:
  these ARE the coordinates of lyon's piece `quadAt (unitArc arc) 0 δ`; other start angles are
  rotations).  Its polar angle is `θ(t) = arctan(qY/qX)` (`qX > 0`), the arc's angle at the same
  parameter is `t·δ`; the oracle's clause bounds `|θ(t) − t·δ|` by `0.03·|δ|` (+ rounding).

  * `quad_angular_velocity_real` (exact): `θ'(t) = 2τ·(1 − 2s²·t(1−t)) / (1 + (2sτ·t(1−t))²)` — it
    starts and ends at `2 tan(δ/2)` (> δ) and is smallest at `t = 1/2`.
  * `angle_offset_of_rate` (mean value theorem): if `|θ'(t) − δ| ≤ A` on `[0,1]` and `θ(0) = 0`,
    `θ(1) = δ`, then `|θ(t) − t·δ| ≤ A·min(t, 1−t) ≤ A/2`.
  NOT proved (named gap, the clause stays oracle-only): the numeric step.  With the two theorems the
  bound `|θ(t) − t·δ| ≤ κ·|δ|/2` follows for every `κ` with `2 tan(δ/2) − δ ≤ κδ` and
  `δ − 2τ(1 − s²/2)/(1 + s²τ²/4) ≤ κδ` (the extreme values of `θ'`, at `t ∈ {0,1}` and `t = 1/2`); for
  `δ ≤ π/4` these hold with `κ = 0.0548` (`2 tan(π/8)/(π/4) = 1.0548`), i.e. `0.0274·|δ|`, below the
  oracle's `0.03·|δ|` — but the inequalities between `tan(δ/2)`, `sin(δ/2)` and `δ` (convexity of
  `tan` / Taylor bounds) and the monotonicity of `θ'` in `t(1−t)` are not done, nor is the cubic.
  Measured true maxima of `|θ(t) − tδ|/|δ|`: `5.43·10⁻³` (quadratics, `δ = π/4`, `t ≈ 0.21`),
  `3.89·10⁻³` (cubics, `δ = π/2`, `t ≈ 0.81`); the offset behaves like `0.008·δ³` resp. `0.002·δ³`.
  The oracle's constant `0.03` is therefore neither too tight nor contradicted; it was left as is.
-/
import LyonVerif.Lemmas.SvgArcRealHaus
import Mathlib.Analysis.SpecialFunctions.Trigonometric.ArctanDeriv
import Mathlib.Analysis.Calculus.MeanValue

set_option linter.unusedSectionVars false
set_option linter.unusedVariables false
set_option linter.unusedSimpArgs false

namespace Lyon.C13
open Lyon Scalar ArcConv

/-- coordinates of the quadratic piece of the unit circle starting at angle 0 -/
noncomputable def qX (s t : ℝ) : ℝ := 1 - (2 * (s * s)) * t ^ 2
noncomputable def qY (s c τ t : ℝ) : ℝ := (2 * τ) * (t - t ^ 2) + (2 * (s * c)) * t ^ 2

/-- **these are the coordinates of lyon's piece** `quadAt (unitArc arc) 0 δ` -/
theorem quad_unit_coords_real (arc : Arc ℝ) (d t : ℝ) (hd : |d| ≤ Real.pi / 4) :
    (quadAt (unitArc arc) 0 d).sample t
      = ⟨qX (Real.sin (d / 2)) t, qY (Real.sin (d / 2)) (Real.cos (d / 2)) (Real.tan (d * Scalar.half)) t⟩ := by
  obtain ⟨hu, hcos, hsin, htan, hcp, _⟩ := half_angle_real d hd
  have h0 : (0 : ℝ) + d = d := zero_add d
  apply P.ext' <;>
  · simp only [quadAt, quadCtrl, Quad.sample, pointAt, tangentAtAngle, unitArc, Arc.sampleEllipse,
      Arc.rotate, geom, transc_cos_real, transc_sin_real, transc_tan_real, Real.cos_zero, Real.sin_zero,
      h0, hcos, hsin, qX, qY, Nat.cast_ofNat, Nat.cast_one]
    ring

/-- **mean value theorem**: a function with `θ(0) = 0`, `θ(1) = δ` whose derivative stays within `A` of
`δ` on `[0,1]` is within `A·min(t, 1−t)` of `t·δ` -/
theorem angle_offset_of_rate (θ θ' : ℝ → ℝ) (d A : ℝ)
    (hder : ∀ t ∈ Set.Icc (0 : ℝ) 1, HasDerivAt θ (θ' t) t)
    (h0 : θ 0 = 0) (h1 : θ 1 = d) (hA : ∀ t ∈ Set.Icc (0 : ℝ) 1, |θ' t - d| ≤ A)
    (t : ℝ) (ht : t ∈ Set.Icc (0 : ℝ) 1) :
    |θ t - t * d| ≤ A * t ∧ |θ t - t * d| ≤ A * (1 - t) ∧ |θ t - t * d| ≤ A / 2 := by
  have hψ : ∀ x ∈ Set.Icc (0 : ℝ) 1, HasDerivWithinAt (fun x => θ x - x * d) (θ' x - d) (Set.Icc 0 1) x := by
    intro x hx
    have := (hder x hx).sub ((hasDerivAt_id' x).mul_const d)
    simp only [one_mul] at this
    exact this.hasDerivWithinAt
  have hb : ∀ x ∈ Set.Icc (0 : ℝ) 1, ‖θ' x - d‖ ≤ A := fun x hx => by rw [Real.norm_eq_abs]; exact hA x hx
  have hz : (0 : ℝ) ∈ Set.Icc (0 : ℝ) 1 := ⟨le_refl _, zero_le_one⟩
  have ho : (1 : ℝ) ∈ Set.Icc (0 : ℝ) 1 := ⟨zero_le_one, le_refl _⟩
  have e1 := (convex_Icc (0 : ℝ) 1).norm_image_sub_le_of_norm_hasDerivWithin_le hψ hb hz ht
  have e2 := (convex_Icc (0 : ℝ) 1).norm_image_sub_le_of_norm_hasDerivWithin_le hψ hb ht ho
  simp only [Real.norm_eq_abs, h0, zero_mul, sub_zero] at e1
  simp only [Real.norm_eq_abs, h1, one_mul, sub_self] at e2
  rw [abs_of_nonneg ht.1] at e1
  rw [abs_of_nonneg (sub_nonneg.mpr ht.2), zero_sub, abs_neg] at e2
  have hA0 : 0 ≤ A := le_trans (abs_nonneg _) (hA 0 hz)
  refine ⟨e1, e2, ?_⟩
  rcases le_total t (1 / 2) with h | h
  · nlinarith
  · nlinarith

/-- **exact angular velocity of the quadratic piece** about the centre of the circle -/
theorem quad_angular_velocity_real (s c τ t : ℝ) (hu : c * c + s * s = 1) (hτ : τ * c = s)
    (hX : qX s t ≠ 0) :
    HasDerivAt (fun t => Real.arctan (qY s c τ t / qX s t))
      (2 * τ * (1 - 2 * (s * s) * (t * (1 - t))) / (1 + (2 * s * τ * (t * (1 - t))) ^ 2)) t := by
  have dX : HasDerivAt (fun t => qX s t) (-(2 * (s * s) * (2 * t))) t := by
    have := (((hasDerivAt_id' t).pow 2).const_mul (2 * (s * s))).const_sub 1
    refine this.congr_deriv ?_
    simp
  have dY : HasDerivAt (fun t => qY s c τ t) (2 * τ * (1 - 2 * t) + 2 * (s * c) * (2 * t)) t := by
    have h2 := (hasDerivAt_id' t).pow 2
    have := (((hasDerivAt_id' t).sub h2).const_mul (2 * τ)).add (h2.const_mul (2 * (s * c)))
    refine this.congr_deriv ?_
    simp
  have key := quad_unit_dev c s τ t hu hτ
  have hden : 1 + (qY s c τ t / qX s t) ^ 2 = (qX s t ^ 2 + qY s c τ t ^ 2) / qX s t ^ 2 := by
    field_simp
  have hrho : qX s t ^ 2 + qY s c τ t ^ 2 = 1 + (2 * s * τ * (t * (1 - t))) ^ 2 := by
    simp only [qX, qY]
    linear_combination key
  have hnum : (2 * τ * (1 - 2 * t) + 2 * (s * c) * (2 * t)) * qX s t - qY s c τ t * -(2 * (s * s) * (2 * t))
      = 2 * τ * (1 - 2 * (s * s) * (t * (1 - t))) := by
    simp only [qX, qY]
    subst hτ
    linear_combination (4 * t * τ) * hu
  have this : HasDerivAt (fun t => Real.arctan (qY s c τ t / qX s t))
      (1 / (1 + (qY s c τ t / qX s t) ^ 2) *
        (((2 * τ * (1 - 2 * t) + 2 * (s * c) * (2 * t)) * qX s t - qY s c τ t * -(2 * (s * s) * (2 * t))) / qX s t ^ 2))
      t := (dY.div dX hX).arctan
  refine this.congr_deriv ?_
  rw [hden, hnum, hrho]
  have hpos : (0 : ℝ) < 1 + (2 * s * τ * (t * (1 - t))) ^ 2 := by positivity
  field_simp

/-! ## non-vacuity -/

/-- `angle_offset_of_rate`: the arc's own angle `θ(t) = t·δ` has rate `δ`, offset 0 -/
example (d : ℝ) (t : ℝ) (ht : t ∈ Set.Icc (0 : ℝ) 1) : |(fun x : ℝ => x * d) t - t * d| ≤ 0 / 2 :=
  (angle_offset_of_rate (fun x => x * d) (fun _ => d) d 0
    (fun x _ => by simpa using (hasDerivAt_id' x).mul_const d) (by simp) (by simp)
    (fun x _ => by simp) t ht).2.2

/-- `quad_angular_velocity_real`: the hypotheses hold for the half-angle data of every step up to 45° -/
example (d t : ℝ) (hd : |d| ≤ Real.pi / 4) (ht0 : 0 ≤ t) (ht1 : t ≤ 1) :
    Real.cos (d / 2) * Real.cos (d / 2) + Real.sin (d / 2) * Real.sin (d / 2) = 1
    ∧ Real.tan (d * Scalar.half) * Real.cos (d / 2) = Real.sin (d / 2)
    ∧ qX (Real.sin (d / 2)) t ≠ 0 := by
  obtain ⟨hu, hcos, _, htan, _, hK⟩ := half_angle_real d hd
  refine ⟨hu, htan, ?_⟩
  have : 0 < qX (Real.sin (d / 2)) t := by
    unfold qX
    have h1 : t ^ 2 ≤ 1 := by nlinarith
    nlinarith [mul_self_nonneg (Real.sin (d / 2))]
  exact ne_of_gt this

end Lyon.C13
