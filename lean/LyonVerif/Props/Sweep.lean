/-
  Theorems about the sweep-line model (`Model/Tess/Sweep.lean`, `Model/Tess/EventQueue.lean`).
  The main deliverable for the sweep is the bit-exact TIE (family `sweep:32` of the C01 check); the
  theorems below are the cheaply provable facts about the model's discrete skeleton, for every
  input, over any linearly ordered field.

  * `compare_total`           — `fill::compare_positions` is a strict total order on points:
                                `eq` exactly on equal points, `lt`/`gt` swap with the arguments,
                                `lt` is transitive; `compare_gt_iff_isAfter`: `is_after` is its `>`.
  * `winding_prefix`          — `WindingState::update` folded over the windings of the first `k`
                                active edges: `number` is their sum, `is_in` is the fill rule of
                                that sum, and `span_index + 1` counts the prefixes that are `in`
                                (the spans to the left).
  * `merge_sort_sorted_perm`  — the event queue's sort, at the level of what the linked lists
                                enumerate (`EQ.Spec.sort`: list of sibling groups): the groups
                                enumerate a permutation of the pushed events `0 … n-1`, group
                                positions are strictly increasing in `compare_positions` order, and
                                ALL events of one position sit in one group.
                                The statement is about the list-level specification; that the
                                pointer-level `Queue.sort` (arrays `events`/`next_event`/
                                `next_sibling`, mirrored line by line) enumerates exactly
                                `Spec.sort` is CHECKED on every explored case by the driver
                                (`unmodelled sort-spec-mismatch` otherwise), not proved: the
                                separation argument for the in-place pointer updates is not done.
  Everything below is proved (kernel-checked).
-/
import LyonVerif.Lemmas.Sweep

set_option linter.unusedSectionVars false
set_option linter.unusedVariables false

namespace Lyon.SweepProps
open Lyon Lyon.EQ Lyon.Sweep Lyon.EQ.Spec

variable {K : Type} [Field K] [LinearOrder K] [IsStrictOrderedRing K]

/-- **`compare_positions` is a strict total order**: `Equal` exactly on equal points, swapping the
arguments swaps `Less`/`Greater`, `Less` is irreflexive and transitive, and any two points are
comparable. -/
theorem compare_total (a b c : P K) :
    (comparePositions a b = .eq ↔ a = b) ∧
    (comparePositions a b = .lt ↔ comparePositions b a = .gt) ∧
    comparePositions a a ≠ .lt ∧
    (comparePositions a b = .lt → comparePositions b c = .lt → comparePositions a c = .lt) ∧
    (comparePositions a b = .lt ∨ comparePositions a b = .eq ∨ comparePositions a b = .gt) := by
  refine ⟨compare_eq_iff a b, ?_, ?_, ?_, ?_⟩
  · rw [compare_lt_iff, compare_gt_iff]
  · rw [Ne, compare_lt_iff]; exact lexLt_irrefl a
  · simp only [compare_lt_iff]; exact lexLt_trans
  · rw [compare_lt_iff, compare_eq_iff, compare_gt_iff]; exact lexLt_total a b

/-- `is_after(a, b)` is the `Greater` of `compare_positions(a, b)` -/
theorem compare_gt_iff_isAfter (a b : P K) :
    comparePositions a b = .gt ↔ Sources.isAfter a b = true := by
  rw [compare_gt_iff]
  unfold lexLt Sources.isAfter
  simp only [Bool.or_eq_true, Bool.and_eq_true, decide_eq_true_eq, sc_beq]
  constructor
  · rintro (h | ⟨e, h⟩)
    · exact Or.inl h
    · exact Or.inr ⟨e.symm, h⟩
  · rintro (h | ⟨e, h⟩)
    · exact Or.inl h
    · exact Or.inr ⟨e.symm, h⟩

example : comparePositions (⟨1, 2⟩ : P ℚ) ⟨5, 2⟩ = .lt := by
  rw [compare_lt_iff]; right; constructor <;> norm_num

/-- **winding bookkeeping of the scan**: after `update` over the windings `ws` of the edges left of
the current point, `number` is their sum, `is_in` is the fill rule applied to it, and `span_index`
(which starts at `-1`) is the number of `in` prefixes minus one, i.e. the index of the span the
point is in when `is_in` holds. -/
theorem winding_prefix (rule : Slab.Rule) (ws : List Int) :
    (windingAfter rule ws).number = ws.sum ∧
    (windingAfter rule ws).isIn = rule.isIn ws.sum ∧
    (windingAfter rule ws).spanIndex + 1 = inPrefixes rule 0 ws := by
  have h := foldl_update rule ws WindingState.new
  simp only [WindingState.new, zero_add] at h
  obtain ⟨h1, h2, h3⟩ := h
  unfold windingAfter
  simp only [WindingState.new]
  refine ⟨h1, ?_, by rw [h3]; ring⟩
  by_cases hws : ws = []
  · subst hws; simp [isIn_zero]
  · exact h2 hws

example : (windingAfter .nonZero [1, 1, -1, -1]).spanIndex = 2 := by decide
example : (windingAfter .evenOdd [1, 1, -1, -1]).spanIndex = 1 := by decide

/-- **The event queue's sort** (list-level specification of `EventQueue::sort` /
`merge_sort` / `merge`): for `n` pushed events with positions `pos`, the sibling groups it produces
enumerate a permutation of the events `0 … n-1`; along the list the group positions are strictly
increasing in `compare_positions` order; every group is non-empty and holds events of ONE position
— hence all events of equal position are in the same group. -/
theorem merge_sort_sorted_perm (pos : Nat → P K) (n : Nat) :
    (Spec.sort pos n).flatten.Perm (List.range n) ∧
    (Spec.sort pos n).Pairwise (fun g h => comparePositions (key pos g) (key pos h) = .lt) ∧
    (∀ g ∈ Spec.sort pos n, g ≠ [] ∧ ∀ i ∈ g, comparePositions (pos i) (key pos g) = .eq) ∧
    (∀ g ∈ Spec.sort pos n, ∀ h ∈ Spec.sort pos n, ∀ i ∈ g, ∀ j ∈ h, pos i = pos j → g = h) := by
  unfold Spec.sort
  by_cases hn : n = 0
  · subst hn; simp
  · simp only [hn, ↓reduceIte]
    obtain ⟨hp, hs, ho⟩ := mergeSortG_spec pos 0 n (Nat.pos_of_ne_zero hn)
    refine ⟨by simpa [List.range_eq_range'] using hp, ?_, ?_, ?_⟩
    · exact hs.imp (fun h => (compare_lt_iff _ _).mpr h)
    · intro g hg; exact ⟨(ho g hg).1, fun i hi => (compare_eq_iff _ _).mpr ((ho g hg).2 i hi)⟩
    · intro g hg h hh i hi j hj hij
      have hk : key pos g = key pos h := by rw [← (ho g hg).2 i hi, ← (ho h hh).2 j hj, hij]
      by_contra hne
      -- two distinct members of a strictly sorted list have distinct keys
      rcases pairwise_mem_ne hs hg hh hne with h' | h'
      · rw [hk] at h'; exact lexLt_irrefl _ h'
      · rw [hk] at h'; exact lexLt_irrefl _ h'

example : (Spec.sort (fun i => (⟨(i : ℚ), 0⟩ : P ℚ)) 3).flatten.Perm (List.range 3) :=
  (merge_sort_sorted_perm _ 3).1

end Lyon.SweepProps
