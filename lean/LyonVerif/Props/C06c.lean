/-
  C06c — CLOSED sub-paths: the triangles the complete stroker model emits for a closed polygon cover the
  rectangle of every edge (the closing edge included) and stay within the reach of the path.  No caps.

  `Props/C06b.lean` treats open polylines.  Here the run is `begin p_0, line_to p_1, …, line_to p_m, end(true)`
  (`m ≥ 2`, i.e. at least three points), which goes through `StrokeBuilderImpl::close`: two more steps through
  the first two points, the two vertices `close` re-creates at the first point, the quad of the first edge.
  `pt` is continued periodically (`pt (i + (m+1)) = pt i`), so that edge and join indices need no wrap-around.

  * `stroke_polygon_emission_shape` (`Lemmas/StrokeCoverClosed.lean`): the run emits the edge quad of every edge
    (between the side points of the joins at its two ends), the join triangle of every join that has one
    (`m + 1` joins: every point is a join), and nothing else (`EmittedC`).
  * `stroke_polygon_covers_rectangles` (`Lemmas/StrokeCoverInner.lean`, `StrokeCoverClosedAsm.lean`): in the
    regime `RegimeC` (one period: no merged points, no U-turn, the model's fold test, every edge at least
    `w/2·(|tan(θ_a/2)| + |tan(θ_b/2)| + 1)` long) every point of every edge's rectangle lies in an emitted
    triangle.
  * `stroke_polygon_reach` (`Lemmas/StrokeCoverClosedReach.lean`): every emitted triangle stays within
    `w/2·√(1 + M²)` of the segment of an edge; `M = 0` with a Bevel join (`stroke_polygon_reach_bevel`: factor 1),
    `M ≤ |tan(θ/2)|` with a Miter join (`stroke_polygon_reach_factor`: the miter length).
  * `complete_model_join_is_component_model` (`Lemmas/StrokeCoverBridge.lean`): for EVERY scalar type (floats
    included) the join geometry of the complete model (`StrokeFull.joinSidesFw`) on an endpoint as `begin` /
    `line_to` create it equals the component model `StrokeQuad.joinSidesT` field by field — so the component
    theorems of `Props/C06.lean` (`join_sides_nofold_left/right`, `front_side_cases`, …) are statements about the
    complete model, all joins (`MiterClip` and the fold branch included).
  Same hypotheses `CoverHyp` as C06b (exact arithmetic, `sqrt` laws, Bevel or Miter join; the caps are not used).
-/
import LyonVerif.Lemmas.StrokeCoverClosedReach
import LyonVerif.Props.C06b
import LyonVerif.Lemmas.StrokeCoverBridge
import Mathlib.Analysis.SpecialFunctions.Sqrt
import Mathlib.Tactic.IntervalCases

set_option linter.unusedSectionVars false
set_option linter.unusedVariables false

namespace Lyon.C06c
open Lyon Scalar Lyon.Stroke Lyon.Stroke.Full Lyon.C05 Lyon.C05b Lyon.C05c Lyon.C06 Lyon.C06b
open Lyon.StrokeQuad (lineIntersection)

section
variable {K : Type} [Field K] [LinearOrder K] [IsStrictOrderedRing K] [Transc K] [Asin K] [FlatConst K]

/-- **emission shape of the complete model on a closed polygon**: any ordered field, every `sqrt` -/
theorem stroke_polygon_emission_shape (e : Env K) (store : Nat → List K) (hfw : e.o.varWidth = false)
    (hj : e.o.join ≠ .round) (hw0 : e.hwFw ≠ 0)
    (pt : Nat → P K) (m : Nat) (hm : 2 ≤ m) (hp0 : pt (m + 1) = pt 0) (hp1 : pt (m + 1 + 1) = pt 1)
    (hfar : ∀ i, i ≤ m + 1 → pointsAreTooClose e.thr (pt i) (pt (i + 1)) = false)
    (hnf : ∀ i, 1 ≤ i → i ≤ m + 1 → noFoldAt e (pt (i - 1)) (pt i) (pt (i + 1))) :
    EmittedC e pt m (runEvents e store (polyEvsC pt m)).st.out :=
  run_emitted_closed e store hfw (Or.inl hj) hw0 pt m hm hp0 hp1 hfar hnf

/-- **`stroke_polygon_covers_rectangles`.**  Complete stroker model, CLOSED polygon `pt 0 … pt m` (`m ≥ 2`;
`pt` continued `(m+1)`-periodically), fixed width, Bevel or Miter join, exact arithmetic, regime `RegimeC`:
for EVERY edge `pt k → pt (k+1)` (any `k`; `k = m` is the closing edge) and every point
`q = p_k + s·(p_{k+1} − p_k) + u·perp(t_k)·w/2` of its rectangle the output contains an index triple whose three
vertices exist and whose emitted positions span a triangle containing `q`. -/
theorem stroke_polygon_covers_rectangles (e : Env K) (eps : K) (h : CoverHyp e eps) (store : Nat → List K)
    (pt : Nat → P K) (m : Nat) (hm : 2 ≤ m) (hper : ∀ i, pt (i + (m + 1)) = pt i) (hr : RegimeC e eps pt m)
    (k : Nat) (s u : K) (hs : 0 ≤ s) (hs1 : s ≤ 1) (hu : -1 ≤ u) (hu1 : u ≤ 1) :
    ∃ t ∈ (runEvents e store (polyEvsC pt m)).st.out.tris, ∃ v1 v2 v3 : VData K,
      (runEvents e store (polyEvsC pt m)).st.out.verts[t.1]? = some v1
      ∧ (runEvents e store (polyEvsC pt m)).st.out.verts[t.2.1]? = some v2
      ∧ (runEvents e store (polyEvsC pt m)).st.out.verts[t.2.2]? = some v3
      ∧ InTri (bandPoint (pt k) (pt (k + 1)) ((perp (eT pt k)).smul e.hwFw) s u)
          (v1.read.position, v2.read.position, v3.read.position) := by
  obtain ⟨T, ⟨t, ht, ⟨v1, e1, p1⟩, ⟨v2, e2, p2⟩, ⟨v3, e3, p3⟩⟩, hin⟩ :=
    edge_cover_closed h hper hr (regimeC_emitted h store hper hm hr) hm k s u hs hs1 hu hu1
  refine ⟨t, ht, v1, v2, v3, e1, e2, e3, ?_⟩
  have : (v1.read.position, v2.read.position, v3.read.position) = T := by
    show (v1.position, v2.position, v3.position) = T
    rw [p1, p2, p3]
  rw [this]; exact hin

/-- **`stroke_polygon_reach`**: every index triple the closed run emits has three existing vertices, and every
point of the triangle they span lies within `reachSq e pt 0 (k+1) = (w/2)²·(1 + outK²)` (squared) of the
segment of the edge `pt (k+1) → pt (k+2)` for some `k` -/
theorem stroke_polygon_reach (e : Env K) (eps : K) (h : CoverHyp e eps) (store : Nat → List K)
    (pt : Nat → P K) (m : Nat) (hm : 2 ≤ m) (hper : ∀ i, pt (i + (m + 1)) = pt i) (hr : RegimeC e eps pt m)
    (t : Stroke.Tri) (ht : t ∈ (runEvents e store (polyEvsC pt m)).st.out.tris) :
    ∃ k, ∃ v1 v2 v3 : VData K,
      (runEvents e store (polyEvsC pt m)).st.out.verts[t.1]? = some v1
      ∧ (runEvents e store (polyEvsC pt m)).st.out.verts[t.2.1]? = some v2
      ∧ (runEvents e store (polyEvsC pt m)).st.out.verts[t.2.2]? = some v3
      ∧ ∀ q, InTri q (v1.read.position, v2.read.position, v3.read.position) →
          NearSeg (pt (k + 1)) (eT pt (k + 1)) (eL pt (k + 1)) (reachSq e pt 0 (k + 1)) q :=
  tri_reach_closed h hper hr (regimeC_emitted h store hper hm hr) t ht

/-- with a Bevel join the reach is exactly `w/2` (factor 1): no corner of any quad is shifted outwards -/
theorem stroke_polygon_reach_bevel (e : Env K) (eps : K) (h : CoverHyp e eps) (pt : Nat → P K) (m : Nat)
    (hper : ∀ i, pt (i + (m + 1)) = pt i) (hr : RegimeC e eps pt m) (hb : e.o.join = .bevel) (k : Nat) :
    reachSq e pt 0 (k + 1) = e.hwFw * e.hwFw := by
  obtain ⟨_, hjc, _⟩ := regimeC_all h hper hr
  unfold reachSq
  rw [outK_in_bevel k (Or.inl hb) (hjc k) (hjc (k + 1))]; ring

/-- in general (Miter) at most the miter length at the edge's ends: `(w/2)²·(1 + max(|tan(θ_a/2)|, |tan(θ_b/2)|)²)` -/
theorem stroke_polygon_reach_factor (e : Env K) (eps : K) (h : CoverHyp e eps) (pt : Nat → P K) (k : Nat) :
    reachSq e pt 0 (k + 1) ≤ e.hwFw * e.hwFw * (1 + (Max.max |jtau pt k| |jtau pt (k + 1)|) ^ 2) := by
  have h1 := outK_in_le e pt k
  have h0 := (outK_bounds e pt 0 (k + 1)).1
  have hw := h.hw
  unfold reachSq
  have : outK e pt 0 (k + 1) * outK e pt 0 (k + 1) ≤ (Max.max |jtau pt k| |jtau pt (k + 1)|) ^ 2 := by nlinarith
  nlinarith [mul_pos hw hw]

end

section Bridge
variable {α : Type} [Scalar α] [Transc α]
open Lyon.StrokeQuad (joinSidesT)

/-- **the complete model's join geometry is the component model of `Props/C06.lean`**, every scalar type, every
join kind, fold branch included: `compute_join_side_positions_fixed_width` as `StrokeBuilderImpl` runs it on a
fresh endpoint (`single_vertex = None`, `fold = [false, false]`) computes exactly `StrokeQuad.joinSidesT` of the
unit tangents, edge lengths, join position, half width, miter limit and join kind. -/
theorem complete_model_join_is_component_model (ix : Lyon.StrokeQuad.Ix α) (prev join next : EP α) (ml hw : α)
    (hps : join.pos.single = none) (hns : join.neg.single = none)
    (hfp : join.foldPos = false) (hfn : join.foldNeg = false) :
    let g := fwGeo prev join next ml hw
    let s := joinSidesT ix g.pt g.nt g.pl g.nl join.position hw ml join.lineJoin
    let J := joinSidesFw ix prev join next ml hw
    J.pos.prev = s.pos.prev ∧ J.pos.next = s.pos.next ∧ J.pos.single = s.pos.single
    ∧ J.neg.prev = s.neg.prev ∧ J.neg.next = s.neg.next ∧ J.neg.single = s.neg.single
    ∧ J.foldPos = s.foldPos ∧ J.foldNeg = s.foldNeg :=
  joinSidesFw_eq_joinSidesT ix prev join next ml hw hps hns hfp hfn

/-- the hypotheses hold for the endpoints `begin` / `line_to` create -/
example (ix : Lyon.StrokeQuad.Ix α) (e : Env α) (p j n : P α) :
    (joinSidesFw ix (linePt e (0, p)) (linePt e (1, j)) (linePt e (2, n)) e.o.miterLimit e.hwFw).foldPos
      = (joinSidesT ix (fwGeo (linePt e (0, p)) (linePt e (1, j)) (linePt e (2, n)) e.o.miterLimit e.hwFw).pt
          (fwGeo (linePt e (0, p)) (linePt e (1, j)) (linePt e (2, n)) e.o.miterLimit e.hwFw).nt
          (fwGeo (linePt e (0, p)) (linePt e (1, j)) (linePt e (2, n)) e.o.miterLimit e.hwFw).pl
          (fwGeo (linePt e (0, p)) (linePt e (1, j)) (linePt e (2, n)) e.o.miterLimit e.hwFw).nl j e.hwFw e.o.miterLimit
          e.o.join).foldPos :=
  (complete_model_join_is_component_model ix _ _ _ _ _ rfl rfl rfl rfl).2.2.2.2.2.2.1

end Bridge

/-! ### non-vacuity: the square `(0,0) (10,0) (10,10) (0,10)`, width 2, over `ℝ` -/

section Real
attribute [local instance] Lyon.C05.realTransc Lyon.C06b.realAsin Lyon.C06b.realFlat

/-- the square, continued periodically -/
noncomputable def exSq (i : Nat) : P ℝ :=
  match i % 4 with
  | 0 => ⟨0, 0⟩
  | 1 => ⟨10, 0⟩
  | 2 => ⟨10, 10⟩
  | _ => ⟨0, 10⟩

theorem exSq_per (i : Nat) : exSq (i + (3 + 1)) = exSq i := by
  unfold exSq; rw [Nat.add_mod_right]

theorem exSq_L (i : Nat) (hi : i < 6) : eL exSq i = 10 := by
  interval_cases i <;>
    exact len_of_sq _ 10 (by norm_num) (by simp only [exSq, geom]; norm_num)

theorem exSq_T (i : Nat) (hi : i < 6) :
    eT exSq i = (match i % 4 with | 0 => ⟨1, 0⟩ | 1 => ⟨0, 1⟩ | 2 => ⟨-1, 0⟩ | _ => ⟨0, -1⟩ : P ℝ) := by
  have hl : len (exSq (i + 1) - exSq i) = 10 := exSq_L i hi
  unfold eT; rw [hl]
  interval_cases i <;> (apply P.ext' <;> simp only [exSq, geom] <;> norm_num)

theorem exSq_tau (i : Nat) (hi : i < 5) : jtau exSq i = 1 := by
  unfold jtau
  rw [exSq_T i (by omega), exSq_T (i + 1) (by omega)]
  interval_cases i <;> (simp only [geom]; norm_num)

/-- the square is in the regime, for every join kind -/
theorem exSqRegime (lj : LineJoin) : RegimeC (exEnvJ lj) (1 / 10 ^ 8) exSq 3 := by
  have hhw : (exEnvJ lj).hwFw = 1 := by
    show (2 : ℝ) * half = 1
    have : (half : ℝ) = 1 / 2 := sc_half
    rw [this]; norm_num
  refine ⟨?_, ?_, ?_, ?_, ?_⟩
  · intro i hi
    interval_cases i <;>
      (simp [exEnvJ, exSq, pointsAreTooClose, Env.new, squareMergeThreshold, geom]; norm_num)
  · intro i hi
    rw [exSq_L i (by omega)]; norm_num
  · intro i hi
    rw [exSq_T i (by omega), exSq_T (i + 1) (by omega), normalEpsilon_eq]
    interval_cases i <;> (simp only [geom]; norm_num)
  · intro i hi
    apply noFoldAt_of_dot_nonneg
    have h1 : (exSq (i + 1 + 1) - exSq (i + 1)).sdiv (len (exSq (i + 1 + 1) - exSq (i + 1))) = eT exSq (i + 1) := rfl
    have h0 : (exSq (i + 1) - exSq i).sdiv (len (exSq (i + 1) - exSq i)) = eT exSq i := rfl
    rw [h1, h0, exSq_T i (by omega), exSq_T (i + 1) (by omega)]
    interval_cases i <;> (simp only [geom]; norm_num)
  · intro i hi
    rw [hhw, exSq_tau i (by omega), exSq_tau (i + 1) (by omega), exSq_L (i + 1) (by omega)]
    norm_num

/-- … so every point of every edge's rectangle — the closing edge `(0,10) → (0,0)` (`k = 3`) included — lies in a
triangle the complete model emits, with Bevel and with Miter joins -/
example (lj : LineJoin) (hlj : lj = .bevel ∨ lj = .miter ∨ lj = .miterClip ∨ lj = .round) (store : Nat → List ℝ) (s u : ℝ)
    (hs : 0 ≤ s) (hs1 : s ≤ 1) (hu : -1 ≤ u) (hu1 : u ≤ 1) :
    ∃ t ∈ (runEvents (exEnvJ lj) store (polyEvsC exSq 3)).st.out.tris, ∃ v1 v2 v3 : VData ℝ,
      (runEvents (exEnvJ lj) store (polyEvsC exSq 3)).st.out.verts[t.1]? = some v1
      ∧ (runEvents (exEnvJ lj) store (polyEvsC exSq 3)).st.out.verts[t.2.1]? = some v2
      ∧ (runEvents (exEnvJ lj) store (polyEvsC exSq 3)).st.out.verts[t.2.2]? = some v3
      ∧ InTri (bandPoint (exSq 3) (exSq (3 + 1)) ((perp (eT exSq 3)).smul (exEnvJ lj).hwFw) s u)
          (v1.read.position, v2.read.position, v3.read.position) :=
  stroke_polygon_covers_rectangles (exEnvJ lj) _ (exHypJ lj hlj) store exSq 3 (by norm_num) exSq_per (exSqRegime lj)
    3 s u hs hs1 hu hu1

/-- … and every emitted triangle stays within the reach; with the Bevel join the squared reach is `(w/2)² = 1` -/
example (store : Nat → List ℝ) (t : Stroke.Tri) (ht : t ∈ (runEvents (exEnvJ .bevel) store (polyEvsC exSq 3)).st.out.tris) :
    ∃ k, ∃ v1 v2 v3 : VData ℝ,
      (runEvents (exEnvJ .bevel) store (polyEvsC exSq 3)).st.out.verts[t.1]? = some v1
      ∧ (runEvents (exEnvJ .bevel) store (polyEvsC exSq 3)).st.out.verts[t.2.1]? = some v2
      ∧ (runEvents (exEnvJ .bevel) store (polyEvsC exSq 3)).st.out.verts[t.2.2]? = some v3
      ∧ ∀ q, InTri q (v1.read.position, v2.read.position, v3.read.position) →
          NearSeg (exSq (k + 1)) (eT exSq (k + 1)) (eL exSq (k + 1)) ((exEnvJ .bevel).hwFw * (exEnvJ .bevel).hwFw) q := by
  obtain ⟨k, v1, v2, v3, a, b, c, d⟩ := stroke_polygon_reach (exEnvJ .bevel) _ (exHypJ _ (Or.inl rfl)) store exSq 3
    (by norm_num) exSq_per (exSqRegime _) t ht
  refine ⟨k, v1, v2, v3, a, b, c, ?_⟩
  rw [← stroke_polygon_reach_bevel (exEnvJ .bevel) _ (exHypJ _ (Or.inl rfl)) exSq 3 exSq_per (exSqRegime _) rfl k]
  exact d

/-- the hypotheses of `stroke_polygon_emission_shape` hold for the square -/
example (store : Nat → List ℝ) : EmittedC (exEnvJ .miter) exSq 3 (runEvents (exEnvJ .miter) store (polyEvsC exSq 3)).st.out :=
  regimeC_emitted (exHypJ _ (Or.inr (Or.inl rfl))) store exSq_per (by norm_num) (exSqRegime _)

example : reachSq (exEnvJ .miter) exSq 0 (1 + 1) ≤ (exEnvJ .miter).hwFw * (exEnvJ .miter).hwFw * (1 + 1 ^ 2) := by
  have := stroke_polygon_reach_factor (exEnvJ .miter) _ (exHypJ _ (Or.inr (Or.inl rfl))) exSq 1
  rw [exSq_tau 1 (by norm_num), exSq_tau (1 + 1) (by norm_num)] at this
  simpa using this

end Real

end Lyon.C06c
