/-
  C07d - the sweep invariant `ActiveSpan` and what it buys for the parameter-range clause: the two split
  branches that `Props/C07b.lean` has to exclude (`Tainted`: `split_edge`, coverage bit 5; the split of
  `merge_coincident_edges`, bit 7) keep every stored parameter in `[0,1]`.

  Over a linearly ordered field (exact arithmetic), about the model's own step functions
  (`Model/Tess/Sweep.lean`, tied bit-exactly to `FillTessellator` by C01's `sweep:32` / `sweepc:32`),
  Hoare triples with the invariant as postcondition on success AND on failure
  (`Lemmas/SweepSpan{,Ix,Scan,Loop}.lean`):

  * `ActiveSpan` (`SweepSpan.ASpan`): every active edge that is no merge vertex has
    `from.y ≤ current.y ≤ to.y`, every pending edge has `current.y ≤ to.y`.  Only COMPARISONS of stored
    coordinates maintain it - `split_edge` ends the upper part AT the vertex, `update_active_edges` starts
    the new edges AT the vertex, `process_intersection` moves an end to a point that is `eb.to`, `ae.to`
    (both at or below the vertex by the invariant) or the point it ASSERTED to be after the current
    position (`assert!(is_after(..))`, incl. the `next_after` fix-up) - no property of the computed
    intersection is used;
  * `UInv`: the parameters (`range.start`, `range.end`) of every record of the queue, of every active and
    pending edge and of every record ALREADY EMITTED with a vertex are in `[0,1]`;
  * `event_keeps_span_and_unit`: ONE WHOLE EVENT (`process_events`: scan, `process_edges_above` with
    `split_edge`, `process_edges_below` with `handle_coincident_edges_below` / `merge_coincident_edges`,
    `update_active_edges` with `handle_intersections` / `process_intersection`) keeps `ActiveSpan ∧ UInv` -
    WITHOUT the `Tainted` restriction: under `ActiveSpan` the y-branch hypotheses of `Props/C07c.lean`'s
    split lemmas hold (`split_edge_parameter_unit_of_span`, `merge_parameter_unit_of_span`; the guard
    `endsWithin` the merge needs is the Boolean `handle_coincident_edges_below` computes; that the edges in
    `edges_to_split` are no merge vertices is proved about the scan, `scan_splits_no_merge`, every scalar
    type);
  * `recover_keeps_span_and_unit`: `recover_from_error` (the active list is permuted) keeps it;
  * `initialize_events_keeps_unit`: the advance to the next vertex keeps `UInv` (the emitted sibling records
    are records of the queue) and keeps `ActiveSpan` IF the next vertex is in sweep order (`AdvOK`).

  NOT obtained: `sweep_records_unit` for whole runs without `Tainted`.  What is missing is exactly `AdvOK`
  at every event of a run: "the position of the next event of the queue is spanned by every active edge and
  is not below the far end of the edge records of its sibling events".  That is the ORDER of the
  index-linked event queue (merge sort of the builder's events, `insert_sorted` of the sweep) together
  with "the far end of every active edge is the position of a pending event" - a pointer-level invariant of
  `Model/Tess/EventQueue.lean` that no file proves yet (the same gap as C01's winding conservation).  With it,
  the loop lift is the fuel induction of `Lemmas/SweepRepLoop.lean` with `Inv` in place of `SInv`.
-/
import LyonVerif.Lemmas.SweepSpanLoop

set_option linter.unusedSectionVars false
set_option linter.unusedVariables false

namespace Lyon.C07d
open Lyon Lyon.Scalar Lyon.Sweep Lyon.EQ Lyon.SweepSpan Lyon.SweepPos
open Std.Do

section field
variable {K : Type} [Field K] [LinearOrder K] [IsStrictOrderedRing K]

/-- **the repaired `split_edge` parameter under `ActiveSpan`**: for an edge that spans the vertex in y the
parameter `Sources.splitTAtVertex` is in `[0,1]` - degenerate edges included (no hypothesis `from ≠ to`) -/
theorem split_edge_parameter_unit_of_span (a b c : P K) (hya : a.y ≤ c.y) (hyb : c.y ≤ b.y) :
    0 ≤ Sources.splitTAtVertex a b c ∧ Sources.splitTAtVertex a b c ≤ 1 := splitAt_unit a b c hya hyb

/-- **the guarded split parameter of `merge_coincident_edges` under `ActiveSpan`**: both pending ends at or
below the vertex, the shorter not below the longer (what `compare_positions` decided) -/
theorem merge_parameter_unit_of_span (cur long short : P K) (hg : endsWithin (long - cur) (short - cur))
    (hy0 : cur.y ≤ short.y) (hy1 : short.y ≤ long.y) :
    0 ≤ Sources.splitT cur long short ∧ Sources.splitT cur long short ≤ 1 := merge_unit cur long short hg hy0 hy1

variable [w : Wide K]

/-- **`split_edge` keeps `ActiveSpan` and every stored parameter in `[0,1]`** (the branch `Props/C07b.lean`
excludes as coverage bit 5) -/
theorem split_edge_keeps_span_and_unit (ei : Nat) :
    ⦃fun s => ⌜Inv s ∧ ∀ e, s.active[ei]? = some e → e.isMerge = false⌝⦄ (splitEdge ei : SM K Unit)
    ⦃post⟨fun _ s => ⌜Inv s⌝, fun _ s => ⌜Inv s⌝⟩⦄ := splitEdge_inv ei

/-- **`handle_coincident_edges_below` (with the split of `merge_coincident_edges`, bit 7) keeps them** -/
theorem handle_coincident_keeps_span_and_unit :
    ⦃fun s => ⌜Inv s⌝⦄ (handleCoincidentEdgesBelow : SM K Unit)
    ⦃post⟨fun _ s => ⌜Inv s⌝, fun _ s => ⌜Inv s⌝⟩⦄ := handleCoincidentEdgesBelow_inv

/-- **one whole event keeps `ActiveSpan` and every parameter - stored or already emitted - in `[0,1]`**,
no `Tainted` restriction; `hw`: what is needed of the wide type of `handle_intersections`
(`C07b.WideLaws`; `fieldWide_laws` for the field itself) -/
theorem event_keeps_span_and_unit {M : w.W → Prop} (hw : SweepRep.WClosure (α := K) U M) :
    ⦃fun s => ⌜Inv s⌝⦄ (processEvents : SM K (Option IErr))
    ⦃post⟨fun _ s => ⌜Inv s⌝, fun _ s => ⌜Inv s⌝⟩⦄ := processEvents_inv hw

theorem recover_keeps_span_and_unit :
    ⦃fun s => ⌜Inv s⌝⦄ (recoverFromError : SM K Unit)
    ⦃post⟨fun _ s => ⌜Inv s⌝, fun _ s => ⌜Inv s⌝⟩⦄ := recoverFromError_inv

/-- **the advance to the next vertex**: the records emitted with the vertex have their parameters in `[0,1]`;
`ActiveSpan` is kept when the next vertex is in sweep order (`AdvOK` - the one missing step, see the header) -/
theorem initialize_events_keeps_unit :
    ⦃fun s => ⌜Inv s ∧ AdvOK s⌝⦄ (initializeEvents : SM K Unit)
    ⦃post⟨fun _ s => ⌜Inv s⌝, fun _ s => ⌜UInv s⌝⟩⦄ := initializeEvents_inv

/-- what `Inv` says about the output: every record listed with an emitted vertex is in `[0,1]` -/
theorem emitted_unit_of_inv {s : St K} (h : Inv s) (pos : P K) (recs : List (P K × EdgeData K))
    (hm : Emit.vertex pos recs ∈ s.out) (r : P K × EdgeData K) (hr : r ∈ recs) :
    (0 ≤ r.2.t0 ∧ r.2.t0 ≤ 1) ∧ (0 ≤ r.2.t1 ∧ r.2.t1 ≤ 1) := h.2.2.2.2 pos recs hm r hr

end field

/-- **the scan never asks to split a merge vertex** (every scalar type) -/
theorem scan_splits_no_merge {α : Type} [Scalar α] [Wide α] {s : St α} {scan : Scan}
    (h : scanActiveEdges s = .ok scan) :
    ∀ ei ∈ scan.edgesToSplit, ∀ e, s.active[ei]? = some e → e.isMerge = false := SweepSpanScan.scan_nm h

/-! ### non-vacuity: the invariant holds of the initial state of a run (nothing active, nothing emitted) -/

section examples
variable {K : Type} [Field K] [LinearOrder K] [IsStrictOrderedRing K] [w : Wide K]

example (q : Queue K) (hq : ∀ d ∈ q.edgeData, (0 ≤ d.t0 ∧ d.t0 ≤ 1) ∧ (0 ≤ d.t1 ∧ d.t1 ≤ 1)) (s : St K)
    (h1 : s.q = q) (h2 : s.active = #[]) (h3 : s.below = #[]) (h4 : s.out = #[]) : Inv s := by
  refine ⟨⟨?_, ?_⟩, ?_, ?_, ?_, ?_⟩
  · rw [h2]; intro e he; simp at he
  · rw [h3]; intro e he; simp at he
  · rw [h1]; exact hq
  · rw [h2]; intro e he; simp at he
  · rw [h3]; intro e he; simp at he
  · rw [h4]; intro pos recs hm; simp at hm

end examples

end Lyon.C07d
