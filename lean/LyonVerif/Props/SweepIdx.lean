/-
  INDEX VALIDITY OF THE MODELLED SWEEP (C01 / C04), for every input.

  `Model/Tess/Sweep.lean` is the statement-by-statement model of `FillTessellator` that family
  `sweep:32` of the C01 check ties bit for bit to the real code (complete emission sequence).
  The theorems below are about that model: for EVERY list of polygonal sub-paths, every fill rule,
  orientation, tolerance, `handle_intersections` flag and entry point, and for every scalar type
  with `Scalar` / `Wide` instances (no arithmetic law is used: `f32` with its NaNs, an ordered
  field, anything) —

  * `sweep_indices_valid`        every `.tri a b c` in the emission sequence names only vertices
                                 emitted strictly before it: `a, b, c <` number of `.vertex`
                                 emissions before that position.  Whatever the outcome (`ok`,
                                 `Err`, `panic`, `unmodelled`, out of fuel): the prefix emitted
                                 before a failure is what the geometry builder has seen.
  * `sweep_impl_indices_valid`   the same for `tessellate_impl` on ANY event queue (sorted or not,
                                 well-linked or not, with ids or not) — so also for
  * `sweep_curves_indices_valid` the curved-input entry points (`Model/Tess/SweepCurves.lean`:
                                 flattening feeds the same `tessellate_impl`).
  * `sweep_protocol_indices`     the emission sequence, read as a request sequence of the C04
                                 skeleton (`toReqs`: vertex ↦ `v ordinal`, triangle ↦ `t a b c`),
                                 is `wellScoped` — the hypothesis of C04's index theorems; hence
  * `sweep_ids_fresh`            C04's `ids_fresh_fill` for the concrete sweep: for every geometry
                                 builder and every fault position the fill skeleton driven by the
                                 modelled sweep issues only triangles whose ids were returned
                                 since `begin_geometry`;
  * `sweep_success_indices_valid` C04's `fill_success_indices_valid` for the concrete sweep: into a
                                 `BuffersBuilder` with prior contents, on `Ok` every new index
                                 points at a new vertex;
  * `sweep_offset_shift`         C04's `offset_shift` for the concrete sweep.

  How: an invariant on the sweep state (`Lemmas/SweepIdxInv.lean`: every id held by an active
  edge, by a live span's monotone tessellator — stacks, side chains, recorded triangles — and the
  current vertex is below the number of vertices emitted; the output emitted so far is valid),
  shown to be preserved by every step function on success AND on failure (Hoare triples in
  `Std.Do`, `Lemmas/SweepIdx{Spans,Below,Active,Recover,Loop}.lean`; the monotone stage in
  `Lemmas/SweepIdxMono.lean`), lifted through the fuel-bounded loop.

  Not proved: that the three ids of a triangle are pairwise distinct.  No violation occurs in the
  4.5 million triangles of the correspondence runs, but it is not a consequence of a discrete
  invariant for an arbitrary `Scalar`: `scan_active_edges` decides "the current point is on this
  edge" twice with two different tests (`edgeBefore`, `isEdgeConnecting`), and when they disagree a
  span could be handed the same vertex as a left and as a right vertex; excluding that needs
  the order laws of the scalar type and the geometry of the sweep.
-/
import LyonVerif.Lemmas.SweepIdxLoop
import LyonVerif.Lemmas.SweepIdxZ
import LyonVerif.Model.Tess.SweepCurves
import LyonVerif.Props.C04

set_option linter.unusedSectionVars false
set_option linter.unusedVariables false
set_option linter.unusedSimpArgs false

namespace Lyon.SweepIdx
open Lyon Lyon.Scalar Lyon.Mono Lyon.Sweep Lyon.EQ Lyon.Tess

variable {α : Type} [Scalar α] [Wide α]

/-- number of `.vertex` emissions strictly before position `i` -/
def vertsBefore (out : Array (Emit α)) (i : Nat) : Nat := nVerts (out.toList.take i)

/-- the index property of an emission sequence, positionally -/
def IndicesValid (out : Array (Emit α)) : Prop :=
  ∀ (i a b c : Nat), out[i]? = some (.tri a b c) →
    a < vertsBefore out i ∧ b < vertsBefore out i ∧ c < vertsBefore out i

theorem indicesValid_of_outOk {out : Array (Emit α)} {n : Nat} (h : OutOk out n) : IndicesValid out := by
  intro i a b c hi
  have := validFrom_getElem 0 out.toList h.1 i a b c (by simpa using hi)
  simpa [vertsBefore] using this

/-- **Main theorem.**  In the emission sequence of the modelled `FillTessellator`, for every
input, every triangle names only vertices emitted strictly before it — whatever the outcome. -/
theorem sweep_indices_valid (entry : Entry) (rule : Slab.Rule) (horizontal : Bool) (tol : α)
    (handleIx : Bool) (subs : List (SubPath α)) :
    IndicesValid (tessellate entry rule horizontal tol handleIx subs).2.1 := by
  obtain ⟨n, h⟩ := tessellate_outOk entry rule horizontal tol handleIx subs
  exact indicesValid_of_outOk h

/-- The same for `tessellate_impl` started on ANY event queue. -/
theorem sweep_impl_indices_valid (q : Queue α) (rule : Slab.Rule) (horizontal : Bool) (tol : α)
    (handleIx : Bool) : IndicesValid (tessellateImpl q rule horizontal tol handleIx).2.1 := by
  obtain ⟨n, h⟩ := tessellateImpl_outOk q rule horizontal tol handleIx
  exact indicesValid_of_outOk h

/-- The curved-input entry points (flattening feeds the same `tessellate_impl`). -/
theorem sweep_curves_indices_valid [Transc α] [FlatConst α] (mode : SweepCurves.IdMode) (rule : Slab.Rule) (horizontal : Bool) (tol : α)
    (handleIx : Bool) (cmds : List (SweepCurves.Cmd α)) :
    IndicesValid (SweepCurves.tessellate mode rule horizontal tol handleIx cmds).1.2.1 := by
  unfold SweepCurves.tessellate
  split
  · exact indicesValid_of_outOk outOk_empty
  · dsimp only
    split
    · exact indicesValid_of_outOk outOk_empty
    · exact sweep_impl_indices_valid _ _ _ _ _

theorem validFrom_mem : ∀ (n : Nat) (l : List (Emit α)), ValidFrom n l → ∀ a b c, Emit.tri a b c ∈ l →
    a < n + nVerts l ∧ b < n + nVerts l ∧ c < n + nVerts l
  | n, [], _, a, b, c, h => by cases h
  | n, .vertex _ _ :: r, hv, a, b, c, h => by
    have h' : Emit.tri a b c ∈ r := by
      rcases List.mem_cons.mp h with e | e
      · cases e
      · exact e
    have := validFrom_mem (n + 1) r hv a b c h'
    simp only [nVerts]
    omega
  | n, .tri x y z :: r, hv, a, b, c, h => by
    rcases List.mem_cons.mp h with e | e
    · cases e
      have := hv.1
      simp only [nVerts]
      omega
    · have := validFrom_mem n r hv.2 a b c e
      simpa only [nVerts] using this

/-- all triangle ids are below the total number of vertices emitted (the geometry builder hands
out the ids `0, 1, 2, …` in order, so every id names a vertex that exists) -/
theorem sweep_indices_lt_total (entry : Entry) (rule : Slab.Rule) (horizontal : Bool) (tol : α)
    (handleIx : Bool) (subs : List (SubPath α)) (a b c : Nat)
    (h : Emit.tri a b c ∈ (tessellate entry rule horizontal tol handleIx subs).2.1) :
    a < nVerts (tessellate entry rule horizontal tol handleIx subs).2.1.toList ∧
    b < nVerts (tessellate entry rule horizontal tol handleIx subs).2.1.toList ∧
    c < nVerts (tessellate entry rule horizontal tol handleIx subs).2.1.toList := by
  obtain ⟨n, hn⟩ := tessellate_outOk entry rule horizontal tol handleIx subs
  have := validFrom_mem 0 _ hn.1 a b c (Array.mem_toList_iff.mpr h)
  simpa using this

/-! ### the C04 request alphabet -/

/-- the emission sequence as requests of the C04 skeleton: the `k`-th vertex is `v k` (payload =
its ordinal), a triangle names its corners by ordinal — exactly the ids the model emits -/
def toReqsFrom : Nat → List (Emit α) → List CReq
  | _, [] => []
  | k, .vertex _ _ :: r => .v k :: toReqsFrom (k + 1) r
  | k, .tri a b c :: r => .t a b c :: toReqsFrom k r

def toReqs (out : Array (Emit α)) : List CReq := toReqsFrom 0 out.toList

theorem wellScoped_toReqsFrom : ∀ (n k : Nat) (l : List (Emit α)), ValidFrom n l →
    C04.wellScoped n (toReqsFrom k l) = true
  | n, k, [], _ => rfl
  | n, k, .vertex _ _ :: r, h => by
    simp only [toReqsFrom, C04.wellScoped]
    exact wellScoped_toReqsFrom (n + 1) (k + 1) r h
  | n, k, .tri a b c :: r, h => by
    simp only [toReqsFrom, C04.wellScoped, Bool.and_eq_true, decide_eq_true_eq]
    exact ⟨⟨⟨h.1.1, h.1.2.1⟩, h.1.2.2⟩, wellScoped_toReqsFrom n k r h.2⟩

theorem nVerts_toReqsFrom : ∀ (k : Nat) (l : List (Emit α)), Tess.nVerts (toReqsFrom k l) = nVerts l
  | k, [] => rfl
  | k, .vertex _ _ :: r => by simp only [toReqsFrom, Tess.nVerts, nVerts, nVerts_toReqsFrom (k + 1) r]
  | k, .tri _ _ _ :: r => by simp only [toReqsFrom, Tess.nVerts, nVerts, nVerts_toReqsFrom k r]

/-- **C04 hypothesis discharged for the concrete sweep**: the request sequence of the modelled
sweep is well scoped (the hypothesis `hw` of `C04.ids_fresh_fill`, `C04.fill_success_indices_valid`,
`C04.offset_shift`), for every input and every outcome. -/
theorem sweep_protocol_indices (entry : Entry) (rule : Slab.Rule) (horizontal : Bool) (tol : α)
    (handleIx : Bool) (subs : List (SubPath α)) :
    C04.wellScoped 0 (toReqs (tessellate entry rule horizontal tol handleIx subs).2.1) = true := by
  obtain ⟨n, h⟩ := tessellate_outOk entry rule horizontal tol handleIx subs
  exact wellScoped_toReqsFrom 0 0 _ h.1

/-- **`ids_fresh` for the modelled sweep**: whatever geometry builder `S` the fill skeleton
(`Tess.tessellateImpl`, C04) drives with the requests of the modelled sweep, whatever error the
loop ends with and wherever the builder refuses a vertex, every triangle call uses ids returned
since `begin_geometry`. -/
theorem sweep_ids_fresh {σ : Type} (S : Sink σ) (coreErr : Option TErr) (s : σ)
    (entry : Entry) (rule : Slab.Rule) (horizontal : Bool) (tol : α) (handleIx : Bool)
    (subs : List (SubPath α)) :
    C04.idsFresh [] (Tess.tessellateImpl S true
      (toReqs (tessellate entry rule horizontal tol handleIx subs).2.1) coreErr s).trace = true :=
  C04.ids_fresh_fill S _ coreErr s (sweep_protocol_indices entry rule horizontal tol handleIx subs)

/-- **Success gives valid indices, for the modelled sweep**: `C04.fill_success_indices_valid`
with its well-scopedness hypothesis discharged. -/
theorem sweep_success_indices_valid (b : BB) (entry : Entry) (rule : Slab.Rule) (horizontal : Bool) (tol : α)
    (handleIx : Bool) (subs : List (SubPath α))
    (hv : b.buf.vertices.length < idxMod)
    (hw1 : (Tess.tessellateImpl bbSink true (toReqs (tessellate entry rule horizontal tol handleIx subs).2.1) none b
      ).st.buf.vertices.length + b.vertexOffset ≤ idxMod)
    (hw2 : (Tess.tessellateImpl bbSink true (toReqs (tessellate entry rule horizontal tol handleIx subs).2.1) none b
      ).st.buf.vertices.length + b.vertexOffset ≤ b.cfg.modulus)
    (hok : (Tess.tessellateImpl bbSink true (toReqs (tessellate entry rule horizontal tol handleIx subs).2.1) none b
      ).result = none) :
    let f := (Tess.tessellateImpl bbSink true (toReqs (tessellate entry rule horizontal tol handleIx subs).2.1) none b
      ).st.buf
    ∃ vs is, f.vertices = b.buf.vertices ++ vs ∧ f.indices = b.buf.indices ++ is ∧
      ∀ i ∈ is, b.buf.vertices.length + b.vertexOffset ≤ i ∧ i < f.vertices.length + b.vertexOffset :=
  C04.fill_success_indices_valid b _ (sweep_protocol_indices entry rule horizontal tol handleIx subs) hv hw1 hw2 hok

/-- **Prior contents only shift the output, for the modelled sweep**: `C04.offset_shift` with its
well-scopedness hypothesis discharged (the vertex count is the number of `.vertex` emissions). -/
theorem sweep_offset_shift (B : Buffers) (cfg : IdxCfg) (entry : Entry) (rule : Slab.Rule) (horizontal : Bool)
    (tol : α) (handleIx : Bool) (subs : List (SubPath α))
    (hfit : B.vertices.length + nVerts (tessellate entry rule horizontal tol handleIx subs).2.1.toList ≤ cfg.max)
    (hm1 : cfg.max ≤ cfg.modulus) (hm2 : cfg.max ≤ idxMod) :
    let core := toReqs (tessellate entry rule horizontal tol handleIx subs).2.1
    let o0 := Tess.tessellateImpl bbSink true core none (BB.new ⟨[], []⟩ cfg)
    let oB := Tess.tessellateImpl bbSink true core none (BB.new B cfg)
    o0.result = none ∧ oB.result = none ∧
    oB.st.buf.vertices = B.vertices ++ o0.st.buf.vertices ∧
    oB.st.buf.indices = B.indices ++ o0.st.buf.indices.map (· + B.vertices.length) :=
  C04.offset_shift B cfg _ (sweep_protocol_indices entry rule horizontal tol handleIx subs)
    (by rw [toReqs, nVerts_toReqsFrom]; exact hfit) hm1 hm2

/-! ### examples (kernel-evaluated runs of the model on the exact scalar `Z`) -/

/-- a triangle through `tessellate(path_events)`: three vertices, one triangle -/
example :
    let r := tessellate .events .nonZero false (⟨1⟩ : Z) true [([pz 0 0, pz 4 1, pz 1 4], true)]
    outcome r = "ok" ∧ toReqs r.2.1 = [.v 0, .v 1, .v 2, .t 1 0 2] := by decide +kernel

/-- two polygons (one concave) through the `FillBuilder`, horizontal sweep: vertices and triangles
interleave, every triangle names earlier vertices only -/
example :
    let r := tessellate .builder .nonZero true (⟨1⟩ : Z) true
      [([pz 0 0, pz 40 0, pz 40 40, pz 20 10, pz 0 40], true), ([pz 100 0, pz 140 10, pz 110 40], true)]
    outcome r = "ok" ∧
    toReqs r.2.1 = [.v 0, .v 1, .v 2, .v 3, .v 4, .t 1 0 2, .t 1 2 4, .t 2 3 4, .v 5, .v 6, .v 7, .t 5 6 7] ∧
    C04.wellScoped 0 (toReqs r.2.1) = true := by decide +kernel

/-- a run that FAILS after output was emitted (`PositionIsNaN` at the fifth event): the prefix the
geometry builder has seen is covered by `sweep_indices_valid` too -/
example :
    let r := tessellate .events .nonZero false (⟨1⟩ : Z) true
      [([pz 0 0, pz 40 10, pz 10 40], true), ([pz 100 100, pz 777777 110, pz 110 140], true)]
    outcome r = "UnsupportedParamater(PositionIsNaN)" ∧
    toReqs r.2.1 = [.v 0, .v 1, .v 2, .t 1 0 2, .v 3] := by decide +kernel

/-- the property is not trivially true: a triangle before its vertices violates it, and a
well-formed sequence satisfies it -/
example : ¬ IndicesValid (#[.vertex (pz 0 0) [], .tri 0 1 0, .vertex (pz 1 1) []] : Array (Emit Z)) := by
  intro h
  have := (h 1 0 1 0 rfl).2.1
  simp [vertsBefore, nVerts] at this

example : IndicesValid (#[.vertex (pz 0 0) [], .vertex (pz 1 1) [], .tri 0 1 0] : Array (Emit Z)) :=
  indicesValid_of_outOk (n := 2) ⟨⟨⟨by omega, by omega, by omega⟩, trivial⟩, rfl⟩

/-- the state invariant is satisfiable with a live span: after `begin_span` + one vertex -/
example :
    let t : Adv Z := (Adv.begin Adv.new (pz 0 0) 0).vertex (pz 1 1) 1 true
    AdvOk 2 t ∧ ¬ AdvOk 1 t := by
  refine ⟨adv_vertex_ok (adv_begin_ok _ _ _ (by omega)) _ _ _ (by omega), ?_⟩
  intro h
  have := h.left.last
  revert this
  decide +kernel

end Lyon.SweepIdx
