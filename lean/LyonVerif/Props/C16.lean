/-
  C16 — flatten / transform adapters commute with building; attributes interpolate in t.

  All statements are about `Model/Path/Adapters.lean` — the definitions the driver runs at
  `Float32` against the real adapters on every check (lyon_geom's curve flattener is a parameter
  there: the tie feeds what the real flattener returned for each curve; C09 is about it).  They hold for EVERY builder program of any length, every point type,
  every point map and every curve flattener `F : Flattener π K` / `G : IterFlattener π`
  (hypotheses on the flattener, where needed, are stated: it ends at `(to, 1)`).

  * `transform_commutes`            builder-side = iterator-side = stored transform (positions).
  * `transform_commutes_stored`     build, then `apply_transform` = build through `Transformed`, slot
                                    for slot (every view), every index of the walk in bounds.
  * `flatten_only_lines`            every flattening adapter emits begin / line / end only.
  * `flatten_keeps_endpoints`       builder side: every original endpoint, exactly, in order, with
                                    its original attributes; sub-path marks untouched.
  * `iter_flatten_keeps_endpoints`  the same for `iterator::Flattened` and `for_each_flattened`.
  * `flatten_attr_interp`           builder side, EVERY program (curves that are the first edge of
                                    a sub-path included): the adapter's output is the reference
                                    flattening, whose inserted points carry (1−t)·a_from + t·a_to.
                                    Was `…_partial` (first curve after `begin` excluded, with
                                    kernel-checked counterexamples) until lyon commit babe4617
                                    repaired finding `C16-flattened-begin-prev-attributes`; the
                                    former witnesses are kept as a comment below.
  * `for_each_flattened_attr_interp` the same for the iterator-side `for_each_flattened`.
  * `flatten_wellnested`            adapters map well-nested call sequences to well-nested ones.
  * `flatten_commutes_builder_iter` flattening while building = flattening while iterating.
  * `flatten_commutes_with_attributes` … and = `for_each_flattened`, attributes included.
  * `flatIter_wellformed`           the iterator-side flattened stream is a well-formed path.
  * `nesting_orders`                flatten∘transform and transform∘flatten keep the same
                                    (transformed) endpoints; inserted points may differ.

  Not covered by theorems: the distance between the flattened and the original path (that is
  C09's statement about the flattener, a parameter here; the oracle checks that the adapters
  emit exactly the flattener's points) and IEEE rounding of the interpolation.
-/
import LyonVerif.Lemmas.Adapters
import LyonVerif.Lemmas.AdaptersStored
import LyonVerif.Lemmas.AdaptersField
import LyonVerif.Lemmas.Field
import LyonVerif.Model.Geom.Basic
import LyonVerif.Model.RatScalar

set_option linter.unusedSectionVars false
set_option linter.unusedVariables false

namespace Lyon.C16
open Lyon Lyon.Path Lyon.Adapt

variable {π π' : Type}

/-! ## Transforms -/

/-- Transforming while building (`builder::Transformed`), while iterating
(`iterator::Transformed` / `PathEvent::transformed`) or after storing (`Path::transformed`) gives
the same events, for EVERY point map `g` (in particular `Xf.apply m` for every affine map `m`)
and every program: the events of the transformed program are the transformed events of the
program, and a path stored from a valid program, transformed in place (no `points[…]` of the
walk outside the storage: `applyTransform` is `some`) and iterated, yields exactly those. -/
theorem transform_commutes {S : Type} [Inhabited S] (g : Pt S → Pt S) (n : Nat)
    (prog : List (Call (Pt S) (List S))) (hn : WellNested prog) (ha : attrsOk n prog = true) :
    -- builder side = iterator side
    specEvents (xfBuilder g prog) = xfIter g (specEvents prog) ∧
    -- stored = iterator side (and the stored route reads/writes nothing outside the storage)
    (buildWithAttributes n prog).bind (fun p => (applyTransform g p).bind PathData.iter)
      = some (xfIter g (specEvents prog)) := by
  refine ⟨by simpa [specEvents, xfBuilder, xfIter] using specFrom_map g none prog, ?_⟩
  rw [buildWithAttributes_emit n prog ha]
  simpa [xfIter] using stored_transform_iter g n prog hn ha

/-- Stored route at the level of the storage itself: building a path and transforming it in
place gives, slot for slot, the path built through `builder::Transformed` — positions, control
points, attribute slots and the copy of the first endpoint that `end(true)` stores (transformed
by `apply_transform` since lyon commit f78412c3; before it that slot stayed untransformed and
this statement was false for every program with a closed sub-path).  Hence every view
(`iter`, `iter_with_attributes`, `id_iter` + stores, `reversed`, `first/last_endpoint`) of the
transformed path is the view of the transformed program. -/
theorem transform_commutes_stored {S : Type} [Inhabited S] (g : Pt S → Pt S) (n : Nat)
    (prog : List (Call (Pt S) (List S))) (hn : WellNested prog) (ha : attrsOk n prog = true) :
    (buildWithAttributes n prog).bind (applyTransform g)
      = buildWithAttributes n (xfBuilder g prog) ∧
    ((buildWithAttributes n prog).bind (applyTransform g)).isSome = true := by
  have hb := buildWithAttributes_emit n (xfBuilder g prog)
    (by simpa [xfBuilder, attrsOk_map] using ha)
  rw [buildWithAttributes_emit n prog ha, hb]
  simp [xfBuilder, stored_transform g n prog hn ha]

/-- builder side = iterator side needs no hypothesis at all (any program, any point types) -/
theorem transform_commutes_builder_iter {A : Type} (g : π → π') (prog : List (Call π A)) :
    specEvents (xfBuilder g prog) = xfIter g (specEvents prog) := by
  simpa [specEvents, xfBuilder, xfIter] using specFrom_map g none prog

/-- … in particular for the affine maps of `euclid::Transform2D`, over any ordered field -/
theorem transform_commutes_affine {K A : Type} [Field K] [LinearOrder K] [IsStrictOrderedRing K]
    (m : Xf K) (prog : List (Call (P K) A)) :
    specEvents (xfBuilder m.apply prog) = xfIter m.apply (specEvents prog) :=
  transform_commutes_builder_iter m.apply prog

/-- attributes are not touched by a transform -/
theorem transform_keeps_attributes {A : Type} (g : π → π') (prog : List (Call π A)) :
    (endpoints (xfBuilder g prog)).map (·.2) = (endpoints prog).map (·.2) := by
  simp [xfBuilder, endpoints_map]

/-! ## Flattening: only lines -/

section
variable {α : Type} [Scalar α]

/-- The output of every flattening adapter consists of begin / line / end only. -/
theorem flatten_only_lines (F : Flattener π α) (G : IterFlattener π) (o : π) (n : Nat)
    (prog : List (Call π (List α))) (evs : List (Event π)) (aevs : List (Event (AP π α))) :
    (∀ c ∈ flatBuilder F o n prog, Call.isFlat c = true) ∧
    (∀ e ∈ flatIter G evs, Event.isFlat e = true) ∧
    (∀ e ∈ flatAttrIter F aevs, Event.isFlat e = true) :=
  ⟨isFlat_flatRun F _ prog, isFlat_flatIter G evs, isFlat_flatAttrIter F aevs⟩

/-- Adapters map well-nested call sequences to well-nested ones (and leave the wrapped builder
in the same protocol state after every prefix that was in place). -/
theorem flatten_wellnested {π' : Type} (F : Flattener π α) (o : π) (n : Nat) (g : π → π')
    (prog : List (Call π (List α))) (h : WellNested prog) :
    WellNested (flatBuilder F o n prog) ∧
    WellNested (xfBuilder g prog) ∧
    WellNested (noAttrBuilder (B := α) prog) ∧
    WellNested (xfBuilder g (flatBuilder F o n prog)) ∧
    WellNested (flatBuilder F o n (xfBuilder id prog)) := by
  have h0 := (wellNestedFrom_iff_nestState false prog).1 h
  have hf := nestState_flatRun F (FlatB.init o n) false false prog h0
  refine ⟨(wellNestedFrom_iff_nestState _ _).2 hf, (wellNestedFrom_iff_nestState _ _).2 ?_,
    (wellNestedFrom_iff_nestState _ _).2 ?_, (wellNestedFrom_iff_nestState _ _).2 ?_,
    (wellNestedFrom_iff_nestState _ _).2 ?_⟩
  · simpa [xfBuilder, nestState_map] using h0
  · simpa [noAttrBuilder, nestState_noAttr] using h0
  · simpa [xfBuilder, nestState_map, flatBuilder] using hf
  · apply nestState_flatRun
    simpa [xfBuilder, nestState_map] using h0

theorem flatten_prefix_valid (F : Flattener π α) (o : π) (n : Nat) (b : Bool)
    (prog : List (Call π (List α))) (h : nestState false prog = some b) :
    nestState false (flatBuilder F o n prog) = some b :=
  nestState_flatRun F _ false b prog h

end

/-! ## Flattening: endpoints -/

section Field
variable {K : Type} [Field K] [LinearOrder K] [IsStrictOrderedRing K]

/-- the hypothesis on the curve flattener (C09: `for_each_flattened_with_t` ends with the
segment reaching `to` at `t = 1`) -/
def EndsAtTo (F : Flattener π K) : Prop :=
  (∀ a c b, ∃ l x, F.quad a c b = l ++ [⟨x, b, 1⟩]) ∧
  (∀ a c d b, ∃ l x, F.cubic a c d b = l ++ [⟨x, b, 1⟩])

/-- … and on the curve iterators (`Flattened::next` ends with `to`) -/
def IterEndsAtTo (G : IterFlattener π) : Prop :=
  (∀ a c b, ∃ l, G.quad a c b = l ++ [b]) ∧ (∀ a c d b, ∃ l, G.cubic a c d b = l ++ [b])

theorem keeps_run (F : Flattener π K) (hF : EndsAtTo F) (s : FlatB π K)
    (prog : List (Call π (List K))) :
    List.Sublist (endpoints prog) (endpoints (FlatB.run F s prog)) := by
  induction prog generalizing s with
  | nil => simp [endpoints, FlatB.run]
  | cons c r ih =>
    cases c with
    | begin p a => simpa [endpoints, FlatB.run, FlatB.step] using ih _
    | line p a => simpa [endpoints, FlatB.run, FlatB.step] using ih _
    | end_ cl => simpa [endpoints, FlatB.run, FlatB.step] using ih _
    | quad k p a =>
      obtain ⟨l, x, hl⟩ := hF.1 s.cur k p
      simp only [endpoints, FlatB.run, FlatB.step, hl, endpoints_append, endpoints_emitLines_snoc,
        emitAttr_one]
      exact List.Sublist.append (List.sublist_append_right _ [(p, a)]) (ih _)
    | cubic k1 k2 p a =>
      obtain ⟨l, x, hl⟩ := hF.2 s.cur k1 k2 p
      simp only [endpoints, FlatB.run, FlatB.step, hl, endpoints_append, endpoints_emitLines_snoc,
        emitAttr_one]
      exact List.Sublist.append (List.sublist_append_right _ [(p, a)]) (ih _)

/-- Builder-side flattening keeps every original endpoint, exactly and in order, carrying its
original attributes (the endpoint list of the program is a subsequence of the endpoint list of
the output — everything else in the output is an inserted point), and forwards the sub-path
marks (`begin`, `end(close)`) unchanged.  Holds for every program, well nested or not, and in
particular also for the first curve after `begin` (only the INSERTED points are wrong there). -/
theorem flatten_keeps_endpoints (F : Flattener π K) (hF : EndsAtTo F) (o : π) (n : Nat)
    (prog : List (Call π (List K))) :
    List.Sublist (endpoints prog) (endpoints (flatBuilder F o n prog)) ∧
    (flatBuilder F o n prog).filter Call.isMark = prog.filter Call.isMark :=
  ⟨keeps_run F hF _ prog, marks_flatRun F _ prog⟩

/-- Iterator-side flattening (`iterator::Flattened`) keeps every endpoint the stream visits,
exactly and in order. -/
theorem iter_flatten_keeps_endpoints (G : IterFlattener π) (hG : IterEndsAtTo G)
    (evs : List (Event π)) :
    List.Sublist (eventEndpoints evs) (eventEndpoints (flatIter G evs)) := by
  induction evs with
  | nil => simp [eventEndpoints, flatIter]
  | cons e r ih =>
    cases e with
    | begin p => simpa [eventEndpoints, flatIter] using ih
    | line a b => simpa [eventEndpoints, flatIter] using ih
    | end_ l f cl => simpa [eventEndpoints, flatIter] using ih
    | quad a c b =>
      obtain ⟨l, hl⟩ := hG.1 a c b
      simp only [eventEndpoints, flatIter, eventEndpoints_append, eventEndpoints_chain, hl]
      exact List.Sublist.append (List.sublist_append_right _ [b]) ih
    | cubic a c d b =>
      obtain ⟨l, hl⟩ := hG.2 a c d b
      simp only [eventEndpoints, flatIter, eventEndpoints_append, eventEndpoints_chain, hl]
      exact List.Sublist.append (List.sublist_append_right _ [b]) ih

/-! ## Flattening: attributes of the inserted points -/

/-- the model's interpolation is the linear interpolation `(1−t)·a_from + t·a_to`, component
by component (both the builder-side and the `for_each_flattened` expression) -/
theorem interp_is_lerp (fromA toA : List K) (t : K) :
    interp fromA toA t = List.zipWith (fun f g => (1 - t) * f + t * g) fromA toA ∧
    interpI fromA toA t = List.zipWith (fun f g => (1 - t) * f + t * g) fromA toA := by
  constructor
  · simp only [interp]
    congr 1; funext f g
    show f * (((1 : ℕ) : K) - t) + g * t = _
    push_cast; ring
  · simp only [interpI]
    congr 1; funext f g
    show (((1 : ℕ) : K) - t) * f + t * g = _
    push_cast; ring

/-- One curve call in a state whose `prev_attributes` ARE the attributes of the current
endpoint: every inserted point carries `(1−t)·a_from + t·a_to` for the `t` the flattener
reported (and the last one, at `t = 1`, carries `a_to`). -/
theorem flatten_step_interp (F : Flattener π K) (s : FlatB π K) (c p : π) (a : List K)
    (h : s.prev.length = a.length) :
    (s.step F (.quad c p a)).2
      = (F.quad s.cur c p).map fun g => Call.line g.b (interp s.prev a g.t) := by
  simp [FlatB.step, emitLines_eq_specLines _ _ _ h, specLines]

/-- `flatten_attr_interp`: for EVERY program whose endpoints carry `n` attributes — curves that
are the first edge of their sub-path included — the builder-side adapter's output IS the
reference flattening `flatSpec`, in which every point inserted for a curve from an endpoint with
attributes `a_from` to one with `a_to` carries `interp a_from a_to t = (1−t)·a_from + t·a_to`
(`interp_is_lerp`) for the `t` the flattener reported. -/
theorem flatten_attr_interp (F : Flattener π K) (o : π) (n : Nat)
    (prog : List (Call π (List K))) (hlen : attrsLen n prog = true) :
    flatBuilder F o n prog = flatSpec F o n prog :=
  full_run F n _ prog hlen (by simp [FlatB.init])

/-- … and the reference flattening right after `begin` interpolates from the begin point's
attributes: `begin p [a_from]; quad → q [a_to]` emits `interp a_from a_to t` at every reported
`t` (the statement that was false before babe4617). -/
theorem flatten_attr_interp_first_curve (F : Flattener π K) (o p c q : π) (n : Nat)
    (a b : List K) (ha : a.length = n) (hb : b.length = n) :
    flatBuilder F o n [.begin p a, .quad c q b]
      = .begin p a :: (F.quad p c q).map fun g => Call.line g.b (interp a b g.t) := by
  rw [flatten_attr_interp F o n _ (by simp [attrsLen, ha, hb])]
  simp [flatSpec, FlatB.specRun, FlatB.specStep, specLines]

/-- The iterator-side `for_each_flattened` is right for EVERY curve (first edge of a sub-path or
not): the endpoints of the lines emitted for a curve event from `(a, fa)` to `(b, ta)` are the
flattener's points, each carrying `(1−t)·fa + t·ta` for the `t` the flattener reported — and the
last one is `(b, ta)` itself when the flattener ends at `(b, 1)`. -/
theorem for_each_flattened_attr_interp (F : Flattener π K) (a b : AP π K) (c : AP π K)
    (r : List (Event (AP π K))) :
    flatAttrIter F (.quad a c b :: r) = linesA a.2 b.2 a.2 (F.quad a.1 c.1 b.1) ++ flatAttrIter F r ∧
    eventEndpoints (linesA a.2 b.2 a.2 (F.quad a.1 c.1 b.1))
      = (F.quad a.1 c.1 b.1).map
          fun s => (s.b, List.zipWith (fun f g => (1 - s.t) * f + s.t * g) a.2 b.2) := by
  refine ⟨rfl, ?_⟩
  rw [eventEndpoints_linesA]
  congr 1; funext s
  rw [(interp_is_lerp a.2 b.2 s.t).2]

theorem for_each_flattened_attr_interp_cubic (F : Flattener π K) (a b : AP π K) (c d : AP π K)
    (r : List (Event (AP π K))) :
    flatAttrIter F (.cubic a c d b :: r)
      = linesA a.2 b.2 a.2 (F.cubic a.1 c.1 d.1 b.1) ++ flatAttrIter F r ∧
    eventEndpoints (linesA a.2 b.2 a.2 (F.cubic a.1 c.1 d.1 b.1))
      = (F.cubic a.1 c.1 d.1 b.1).map
          fun s => (s.b, List.zipWith (fun f g => (1 - s.t) * f + s.t * g) a.2 b.2) := by
  refine ⟨rfl, ?_⟩
  rw [eventEndpoints_linesA]
  congr 1; funext s
  rw [(interp_is_lerp a.2 b.2 s.t).2]

/-- `for_each_flattened` keeps the endpoint of every curve with its attributes: the last line
emitted for a curve ending in `(b, ta)` ends in `(b, ta)`. -/
theorem for_each_flattened_keeps_endpoint (fa ta ca : List K) (h : fa.length = ta.length)
    (l : List (FSeg π K)) (x b : π) :
    eventEndpoints (linesA fa ta ca (l ++ [⟨x, b, 1⟩]))
      = eventEndpoints (linesA fa ta ca l) ++ [(b, ta)] := by
  have h1 : interpI fa ta 1 = ta := by
    rw [(interp_is_lerp fa ta 1).2, ← (interp_is_lerp fa ta 1).1, interp_one fa ta h]
  simp [eventEndpoints_linesA, h1]

/-! ## Flattening while building = flattening while iterating -/

theorem flatRun_events (F : Flattener π K) (G : IterFlattener π) (hF : EndsAtTo F)
    (hq : ∀ a c b, G.quad a c b = (F.quad a c b).map (·.b))
    (hc : ∀ a c d b, G.cubic a c d b = (F.cubic a c d b).map (·.b))
    (st : Option (π × π)) (s : FlatB π K) (prog : List (Call π (List K)))
    (hn : wellNestedFrom st.isSome prog = true) (hs : ∀ f c, st = some (f, c) → s.cur = c) :
    specFrom st (FlatB.run F s prog) = flatIter G (specFrom st prog) := by
  induction prog generalizing st s with
  | nil => cases st <;> simp [FlatB.run, specFrom, flatIter]
  | cons c r ih =>
    cases st with
    | none =>
      cases c with
      | begin p a =>
        have := ih (some (p, p)) ⟨p, a⟩ (by simpa [wellNestedFrom] using hn)
          (by intro f c h; cases h; rfl)
        simpa [FlatB.run, FlatB.step, specFrom, flatIter] using this
      | line p a => simp [wellNestedFrom] at hn
      | quad k p a => simp [wellNestedFrom] at hn
      | cubic k1 k2 p a => simp [wellNestedFrom] at hn
      | end_ cl => simp [wellNestedFrom] at hn
    | some fc =>
      obtain ⟨f, c0⟩ := fc
      have hcur : s.cur = c0 := hs f c0 rfl
      cases c with
      | begin p a => simp [wellNestedFrom] at hn
      | line p a =>
        have := ih (some (f, p)) ⟨p, a⟩ (by simpa [wellNestedFrom] using hn)
          (by intro f c h; cases h; rfl)
        simpa [FlatB.run, FlatB.step, specFrom, flatIter] using this
      | quad k p a =>
        obtain ⟨l, x, hl⟩ := hF.1 c0 k p
        have := ih (some (f, p)) ⟨p, a⟩ (by simpa [wellNestedFrom] using hn)
          (by intro f c h; cases h; rfl)
        simp only [FlatB.run, FlatB.step, specFrom, flatIter, hcur, hl, hq,
          specFrom_emitLines_snoc, this]
      | cubic k1 k2 p a =>
        obtain ⟨l, x, hl⟩ := hF.2 c0 k1 k2 p
        have := ih (some (f, p)) ⟨p, a⟩ (by simpa [wellNestedFrom] using hn)
          (by intro f c h; cases h; rfl)
        simp only [FlatB.run, FlatB.step, specFrom, flatIter, hcur, hl, hc,
          specFrom_emitLines_snoc, this]
      | end_ cl =>
        have := ih none s (by simpa [wellNestedFrom] using hn) (by intro f c h; cases h)
        simpa [FlatB.run, FlatB.step, specFrom, flatIter] using this

/-- Flattening at build time and flattening at iteration time give the same path: for every
well-nested program, the events denoted by what the builder-side `Flattened` hands down are
exactly what `iterator::Flattened` yields over the events of the unflattened program — provided
the two lyon_geom entry points agree on the points (`G` yields the `line.to`s of `F`) and `F`
ends at `to`.  (Positions only: the events carry no attributes.) -/
theorem flatten_commutes_builder_iter (F : Flattener π K) (G : IterFlattener π) (hF : EndsAtTo F)
    (hq : ∀ a c b, G.quad a c b = (F.quad a c b).map (·.b))
    (hc : ∀ a c d b, G.cubic a c d b = (F.cubic a c d b).map (·.b))
    (o : π) (n : Nat) (prog : List (Call π (List K))) (h : WellNested prog) :
    specEvents (flatBuilder F o n prog) = flatIter G (specEvents prog) :=
  flatRun_events F G hF hq hc none _ prog h (by intro f c h; cases h)

/-! ## Builder-side flattening = `for_each_flattened`, attributes included -/

/-- the hypothesis on the callback flattener for the whole-stream statement: the segments of a
curve form a chain starting at `from` (C09 `connected`) and end with `(to, t = 1)` -/
def ChainedToEnd (F : Flattener π K) : Prop :=
  EndsAtTo F ∧ (∀ a c b, Chained a (F.quad a c b)) ∧ (∀ a c d b, Chained a (F.cubic a c d b))

theorem specRun_attrEvents (F : Flattener π K) (hF : ChainedToEnd F) (n : Nat)
    (st : Option (AP π K × AP π K)) (s : FlatB π K) (prog : List (Call π (List K)))
    (hn : wellNestedFrom st.isSome prog = true) (hlen : attrsLen n prog = true)
    (hs : ∀ f c, st = some (f, c) → s.cur = c.1 ∧ s.prev = c.2 ∧ c.2.length = n) :
    specFrom st ((FlatB.specRun F s prog).map Adapt.aCall) = flatAttrIter F (specFrom st (prog.map Adapt.aCall)) := by
  induction prog generalizing st s with
  | nil => cases st <;> simp [FlatB.specRun, specFrom, flatAttrIter]
  | cons c r ih =>
    cases st with
    | none =>
      cases c with
      | begin p a =>
        simp only [attrsLen, Bool.and_eq_true, beq_iff_eq] at hlen
        have := ih (some ((p, a), (p, a))) ⟨p, a⟩ (by simpa [wellNestedFrom] using hn) hlen.2
          (by intro f c h; cases h; exact ⟨rfl, rfl, hlen.1⟩)
        simpa [FlatB.specRun, FlatB.specStep, specFrom, flatAttrIter, Adapt.aCall] using this
      | line p a => simp [wellNestedFrom] at hn
      | quad k p a => simp [wellNestedFrom] at hn
      | cubic k1 k2 p a => simp [wellNestedFrom] at hn
      | end_ cl => simp [wellNestedFrom] at hn
    | some fc =>
      obtain ⟨f, c0⟩ := fc
      obtain ⟨hcur, hprev, hl⟩ := hs f c0 rfl
      cases c with
      | begin p a => simp [wellNestedFrom] at hn
      | line p a =>
        simp only [attrsLen, Bool.and_eq_true, beq_iff_eq] at hlen
        have := ih (some (f, (p, a))) ⟨p, a⟩ (by simpa [wellNestedFrom] using hn) hlen.2
          (by intro f c h; cases h; exact ⟨rfl, rfl, hlen.1⟩)
        simpa [FlatB.specRun, FlatB.specStep, specFrom, flatAttrIter, Adapt.aCall] using this
      | quad k p a =>
        simp only [attrsLen, Bool.and_eq_true, beq_iff_eq] at hlen
        obtain ⟨l, x, hlx⟩ := hF.1.1 c0.1 k p
        have hch := hF.2.1 c0.1 k p
        have := ih (some (f, (p, a))) ⟨p, a⟩ (by simpa [wellNestedFrom] using hn) hlen.2
          (by intro f c h; cases h; exact ⟨rfl, rfl, hlen.1⟩)
        have hend : endAP c0.2 a (c0.1, c0.2) (F.quad c0.1 k p) = (p, a) := by
          rw [hlx, endAP_snoc, interp_one c0.2 a (by rw [hl, hlen.1])]
        simp only [FlatB.specRun, FlatB.specStep, List.map_append, hcur, hprev, List.map_cons, Adapt.aCall,
          specFrom, flatAttrIter]
        rw [show (c0 : AP π K) = (c0.1, c0.2) from rfl,
          specFrom_specLines f c0.1 c0.2 c0.2 a _ hch, hend, this]
      | cubic k1 k2 p a =>
        simp only [attrsLen, Bool.and_eq_true, beq_iff_eq] at hlen
        obtain ⟨l, x, hlx⟩ := hF.1.2 c0.1 k1 k2 p
        have hch := hF.2.2 c0.1 k1 k2 p
        have := ih (some (f, (p, a))) ⟨p, a⟩ (by simpa [wellNestedFrom] using hn) hlen.2
          (by intro f c h; cases h; exact ⟨rfl, rfl, hlen.1⟩)
        have hend : endAP c0.2 a (c0.1, c0.2) (F.cubic c0.1 k1 k2 p) = (p, a) := by
          rw [hlx, endAP_snoc, interp_one c0.2 a (by rw [hl, hlen.1])]
        simp only [FlatB.specRun, FlatB.specStep, List.map_append, hcur, hprev, List.map_cons, Adapt.aCall,
          specFrom, flatAttrIter]
        rw [show (c0 : AP π K) = (c0.1, c0.2) from rfl,
          specFrom_specLines f c0.1 c0.2 c0.2 a _ hch, hend, this]
      | end_ cl =>
        simp only [attrsLen] at hlen
        have := ih none s (by simpa [wellNestedFrom] using hn) hlen (by intro f c h; cases h)
        simpa [FlatB.specRun, FlatB.specStep, specFrom, flatAttrIter, Adapt.aCall] using this

/-- Flattening while building and `for_each_flattened` over the stored, unflattened path give the
same stream INCLUDING attributes: for every well-nested program with `n` attributes, what
`iter_with_attributes` shows of the path built through `Flattened` is exactly what
`iter_with_attributes().for_each_flattened` yields for the path built without it (same
tolerance, i.e. same flattener `F`, which is chained and ends at `(to, 1)`). -/
theorem flatten_commutes_with_attributes (F : Flattener π K) (hF : ChainedToEnd F) (o : π) (n : Nat)
    (prog : List (Call π (List K))) (hn : WellNested prog) (hlen : attrsLen n prog = true) :
    attrEvents (flatBuilder F o n prog) = flatAttrIter F (attrEvents prog) := by
  rw [flatten_attr_interp F o n prog hlen]
  exact specRun_attrEvents F hF n none _ prog hn hlen (by intro f c h; cases h)

/-! ## The flattened stream is a well-formed path -/

theorem wellFormed_chain [DecidableEq π] (f a : π) (l : List π) (b : π) (rest : List (Event π)) :
    wellFormedFrom (some (f, a)) (chain a (l ++ [b]) ++ rest) = wellFormedFrom (some (f, b)) rest := by
  induction l generalizing a with
  | nil => simp [chain, wellFormedFrom]
  | cons p r ih => simpa [chain, wellFormedFrom] using ih p

theorem wellFormedFrom_flatIter [DecidableEq π] (G : IterFlattener π) (hG : IterEndsAtTo G)
    (evs : List (Event π)) (st : Option (π × π)) (h : wellFormedFrom st evs = true) :
    wellFormedFrom st (flatIter G evs) = true := by
  induction evs generalizing st with
  | nil => simpa [flatIter] using h
  | cons e r ih =>
    cases st with
    | none =>
      cases e with
      | begin p =>
        simp only [wellFormedFrom, flatIter] at h ⊢
        exact ih _ h
      | line a b => simp [wellFormedFrom] at h
      | quad a k b => simp [wellFormedFrom] at h
      | cubic a k1 k2 b => simp [wellFormedFrom] at h
      | end_ l fst cl => simp [wellFormedFrom] at h
    | some fc =>
      obtain ⟨f, c⟩ := fc
      cases e with
      | begin p => simp [wellFormedFrom] at h
      | line a b =>
        simp only [wellFormedFrom, flatIter, Bool.and_eq_true] at h ⊢
        exact ⟨h.1, ih _ h.2⟩
      | quad a k b =>
        simp only [wellFormedFrom, Bool.and_eq_true, beq_iff_eq] at h
        obtain ⟨rfl, h2⟩ := h
        obtain ⟨l, hl⟩ := hG.1 a k b
        rw [flatIter, hl, wellFormed_chain]
        exact ih _ h2
      | cubic a k1 k2 b =>
        simp only [wellFormedFrom, Bool.and_eq_true, beq_iff_eq] at h
        obtain ⟨rfl, h2⟩ := h
        obtain ⟨l, hl⟩ := hG.2 a k1 k2 b
        rw [flatIter, hl, wellFormed_chain]
        exact ih _ h2
      | end_ l fst cl =>
        simp only [wellFormedFrom, flatIter, Bool.and_eq_true] at h ⊢
        exact ⟨h.1, ih _ h.2⟩

/-- `iterator::Flattened` maps a well-formed event stream (every edge starts where the previous
one ended, `End` names the last and first point) to a well-formed one, when the curve iterators
end at `to`.  (In f32 this needed lyon commit e20d2048 for cubics.) -/
theorem flatIter_wellformed [DecidableEq π] (G : IterFlattener π) (hG : IterEndsAtTo G)
    (evs : List (Event π)) (h : WellFormed evs) : WellFormed (flatIter G evs) :=
  wellFormedFrom_flatIter G hG evs none h

/-! ## Both nesting orders -/

/-- `Flattened<Transformed<_>>` (flatten, then transform: `b.transformed(g).flattened(tol)`) and
`Transformed<Flattened<_>>` (transform, then flatten) both keep every original endpoint —
transformed, with its original attributes, in order.  The two flatteners may differ (the curve
is flattened in different spaces, so the INSERTED points differ in number and position; the
property allows that). -/
theorem nesting_orders {π' : Type} (F : Flattener π K) (F' : Flattener π' K) (hF : EndsAtTo F)
    (hF' : EndsAtTo F') (g : π → π') (o : π) (o' : π') (n : Nat) (prog : List (Call π (List K))) :
    List.Sublist ((endpoints prog).map fun e => (g e.1, e.2))
      (endpoints (xfBuilder g (flatBuilder F o n prog))) ∧
    List.Sublist ((endpoints prog).map fun e => (g e.1, e.2))
      (endpoints (flatBuilder F' o' n (xfBuilder g prog))) := by
  constructor
  · rw [xfBuilder, endpoints_map]
    exact (flatten_keeps_endpoints F hF o n prog).1.map _
  · have := (flatten_keeps_endpoints F' hF' o' n (xfBuilder g prog)).1
    rwa [xfBuilder, endpoints_map] at this

/-- the same for the iterator-side adapters -/
theorem nesting_orders_iter {π' : Type} (G : IterFlattener π) (G' : IterFlattener π')
    (hG : IterEndsAtTo G) (hG' : IterEndsAtTo G') (g : π → π') (evs : List (Event π)) :
    List.Sublist ((eventEndpoints evs).map g) (eventEndpoints (xfIter g (flatIter G evs))) ∧
    List.Sublist ((eventEndpoints evs).map g) (eventEndpoints (flatIter G' (xfIter g evs))) := by
  constructor
  · rw [xfIter, eventEndpoints_map]
    exact (iter_flatten_keeps_endpoints G hG evs).map _
  · have := iter_flatten_keeps_endpoints G' hG' (xfIter g evs)
    rwa [xfIter, eventEndpoints_map] at this

end Field

/-! ## The repaired defect: a curve directly after `begin` (builder side)

Evaluated on the model itself, over `ℚ`, with a two-segment flattener (midpoint at `t = 1/2`,
then the end point at `t = 1`).  Positions are integers (irrelevant here).

Before lyon commit babe4617 (`Flattened::begin` did not copy the attributes into
`prev_attributes`) the model mirrored the defect and these were theorems (`decide +kernel`):

  flatten_attr_interp_witness :
    flatBuilder midFlattener 0 1 [.begin 0 [10], .quad 3 10 [20], .end_ false]
      = [.begin 0 [10], .line 5 [10], .line 10 [20], .end_ false]       -- 10 = ½·0 + ½·20, wanted 15
  flatten_attr_interp_witness_stale :
    flatBuilder midFlattener 0 1
        [.begin 0 [1], .line 4 [7], .end_ false, .begin 0 [100], .cubic 1 2 10 [200], .end_ true]
      = [.begin 0 [1], .line 4 [7], .end_ false, .begin 0 [100], .line 5 [207/2], .line 10 [200],
         .end_ true]                                                    -- 103.5 = ½·7 + ½·200, wanted 150
  flatten_attr_interp_after_line :  (a line before the curve: was already right)
    flatBuilder midFlattener 0 1 [.begin 0 [10], .line 0 [10], .quad 3 10 [20], .end_ false]
      = [.begin 0 [10], .line 0 [10], .line 5 [15], .line 10 [20], .end_ false]

The same programs now evaluate as the property asks (they run as corpus/witness cases `wit` in
the harness, too). -/

/-- a flattener with one inserted point at `t = 1/2` -/
def midFlattener : Flattener Int Rat where
  quad a _ b := [⟨a, (a + b) / 2, 1/2⟩, ⟨(a + b) / 2, b, 1⟩]
  cubic a _ _ b := [⟨a, (a + b) / 2, 1/2⟩, ⟨(a + b) / 2, b, 1⟩]

theorem flatten_attr_interp_repaired :
    flatBuilder midFlattener 0 1 [.begin 0 [10], .quad 3 10 [20], .end_ false]
      = [.begin 0 [10], .line 5 [15], .line 10 [20], .end_ false] ∧
    flatBuilder midFlattener 0 1
        [.begin 0 [1], .line 4 [7], .end_ false, .begin 0 [100], .cubic 1 2 10 [200], .end_ true]
      = [.begin 0 [1], .line 4 [7], .end_ false, .begin 0 [100], .line 5 [150], .line 10 [200],
         .end_ true] := by
  decide +kernel

/-! ## Non-vacuity of the hypotheses -/

section Examples

/-- `EndsAtTo` / `IterEndsAtTo` are satisfiable (a flattener with an inserted point) -/
def qFlattener : Flattener Int Rat where
  quad a _ b := [⟨a, a, 1/2⟩, ⟨a, b, 1⟩]
  cubic a _ _ b := [⟨a, a, 1/3⟩, ⟨a, a, 2/3⟩, ⟨a, b, 1⟩]

example : EndsAtTo qFlattener :=
  ⟨fun a _ b => ⟨[⟨a, a, 1/2⟩], a, rfl⟩, fun a _ _ b => ⟨[⟨a, a, 1/3⟩, ⟨a, a, 2/3⟩], a, rfl⟩⟩

example : IterEndsAtTo (π := Int) ⟨fun a _ b => [a, b], fun a _ _ b => [a, a, b]⟩ :=
  ⟨fun a _ b => ⟨[a], rfl⟩, fun a _ _ b => ⟨[a, a], rfl⟩⟩

/-- the hypotheses of `flatten_commutes_builder_iter` together: an iterator flattener that yields
the `line.to`s of a callback flattener ending at `to` -/
example : ∃ G : IterFlattener Int, EndsAtTo qFlattener ∧
    (∀ a c b, G.quad a c b = (qFlattener.quad a c b).map (·.b)) ∧
    (∀ a c d b, G.cubic a c d b = (qFlattener.cubic a c d b).map (·.b)) :=
  ⟨⟨fun a _ b => [a, b], fun a _ _ b => [a, a, b]⟩,
   ⟨fun a _ b => ⟨[⟨a, a, 1/2⟩], a, rfl⟩, fun a _ _ b => ⟨[⟨a, a, 1/3⟩, ⟨a, a, 2/3⟩], a, rfl⟩⟩,
   fun _ _ _ => rfl, fun _ _ _ _ => rfl⟩

/-- `ChainedToEnd` is satisfiable (a chained flattener with inserted points) -/
example : ChainedToEnd midFlattener :=
  ⟨⟨fun a _ b => ⟨[⟨a, (a + b) / 2, 1/2⟩], (a + b) / 2, rfl⟩,
    fun a _ _ b => ⟨[⟨a, (a + b) / 2, 1/2⟩], (a + b) / 2, rfl⟩⟩,
   fun a _ b => ⟨rfl, rfl, trivial⟩, fun a _ _ b => ⟨rfl, rfl, trivial⟩⟩

/-- hypothesis of `flatten_attr_interp` on a program with a curve as FIRST edge and two
attributes -/
example : attrsLen 2 ([.begin (0:Int) [1, 2], .quad 2 3 [5, 6], .line 1 [3, 4], .end_ true]
      : List (Call Int (List Rat))) = true := by decide

/-- hypotheses of `transform_commutes` -/
example : WellNested ([.begin ((0:Int), (0:Int)) [1], .cubic (1, 1) (2, 2) (3, 0) [2], .end_ true]
      : List (Call (Pt Int) (List Int))) ∧
    attrsOk 1 ([.begin ((0:Int), (0:Int)) [1], .cubic (1, 1) (2, 2) (3, 0) [2], .end_ true]
      : List (Call (Pt Int) (List Int))) = true := by decide

/-- `transform_commutes_stored` computed on that (closed) program, translated by (10, 20): the
last two slots are the copy of the first endpoint stored by `end(true)` — transformed — and its
attribute — untouched -/
example : ((buildWithAttributes 1 ([.begin ((0:Int), (0:Int)) [1], .cubic (1, 1) (2, 2) (3, 0) [2],
        .end_ true] : List (Call (Pt Int) (List Int)))).bind
      (applyTransform fun p => (p.1 + 10, p.2 + 20))).map (·.points)
    = some [(10, 20), (1, 0), (11, 21), (12, 22), (13, 20), (2, 0), (10, 20), (1, 0)] := by decide

end Examples

end Lyon.C16
