/-
  C03 (growth f) — `tessellate_circle` is an EXACT TILING of the inscribed regular polygon.

  * `circle_tris_disjoint`       no point is strictly inside two of the triangles `fill_circle` emits
                                 (`meshTris m c`: the index buffer resolved to point triples, in
                                 emission order; `Disj`: no common strictly interior point).  Proof
                                 (`Lemmas/CircleCoverDisjoint{,Mesh}.lean`): the triangles of a
                                 `fill_border_radius` call have their vertices on the arc `[a0, a1]`,
                                 everything else has its vertices on the complementary arc
                                 `[a1, a0 + 2π]`, and the chord `a0 → a1` separates the two
                                 (`side_eq`: the side function is `4r²·sin η·sin((θ−a)/2)·sin((θ−b)/2)`);
                                 the two halves of the square are separated by its diagonal.
  * `fill_circle_exact_tiling`   cover + inside + disjoint + non-degenerate + counts: a point is in
                                 an emitted closed triangle iff it is in the inscribed regular
                                 `4·2ⁿ`-gon of the emitted vertices; the triangles are pairwise
                                 interior-disjoint, each non-degenerate with its vertices on the
                                 circle and three distinct valid ids; `4·2ⁿ` vertices, `4·2ⁿ − 2` triangles
  * `…_real`                     the same over ℝ with Mathlib's functions: no hypothesis but
                                 `fillCircle c r tol = some m` (i.e. `r ≠ 0`)
-/
import LyonVerif.Lemmas.CircleCoverDisjointMesh
import LyonVerif.Props.C03Real

set_option linter.unusedSectionVars false
set_option linter.unusedVariables false
set_option warn.classDefReducibility false

namespace Lyon.C03c
open Lyon Lyon.Shapes Lyon.C03

section
variable {K : Type} [Field K] [LinearOrder K] [IsStrictOrderedRing K] [Transc K]

theorem radius_pos_of_some (c : P K) (r tol : K) (m : Mesh K) (h : fillCircle c r tol = some m) :
    0 < Scalar.abs r := by
  unfold fillCircle at h
  simp only [] at h
  split at h
  · exact absurd h (by simp)
  · rename_i hz
    have hne : Scalar.abs r ≠ 0 := by
      intro h0
      apply hz
      rw [h0]
      exact (sc_beq _ _).2 sc_zero.symm
    exact lt_of_le_of_ne (abs_nonneg r) (Ne.symm hne)

/-- **The triangles `fill_circle` emits do not overlap**: no point of the plane is strictly inside
two of them (`meshTris m c` lists them as point triples in emission order). -/
theorem circle_tris_disjoint (L : CircTrig K) (c : P K) (r tol : K) (m : Mesh K)
    (h : fillCircle c r tol = some m) :
    (meshTris m c).Pairwise Disj ∧ (meshTris m c).length = m.tris.length := by
  rw [circle_meshTris c r tol m h]
  refine ⟨circleTris_pairwise L c _ (radius_pos_of_some c r tol m h) _, ?_⟩
  rw [← circle_meshTris c r tol m h]
  simp [meshTris]

/-- the same by positions in the index buffer: triangles number `i < j` share no interior point -/
theorem circle_tris_disjoint_get (L : CircTrig K) (c : P K) (r tol : K) (m : Mesh K)
    (h : fillCircle c r tol = some m) (i j : Nat) (hij : i < j) (hj : j < m.tris.length) (p : P K) :
    ¬ (StrictIn (ptsOf m.verts c (m.tris[i]'(by omega))) p ∧ StrictIn (ptsOf m.verts c (m.tris[j]'hj)) p) := by
  have hp := (circle_tris_disjoint L c r tol m h).1
  rw [List.pairwise_iff_getElem] at hp
  have hl : (meshTris m c).length = m.tris.length := by simp [meshTris]
  have := hp i j (by omega) (by omega) hij p
  simpa [meshTris] using this

/-- **`fill_circle` tiles the inscribed regular polygon exactly.**  With `n = circleRecursions |r| tol`
and `V k = c + |r|·(cos kδ, sin kδ)`, `δ = π/(2·2ⁿ)`:
1. (cover + inside) a point lies in an emitted closed triangle iff it is on the inner side of all
   `4·2ⁿ` sides `V k → V (k+1)`;
2. (no overlap) no point is strictly inside two emitted triangles;
3. (no degenerate triangle) every triangle has non-zero area, its vertices on the circle, three
   pairwise distinct valid ids;
4. (counts) `4·2ⁿ` vertices — all the `V k` —, `4·2ⁿ − 2` triangles. -/
theorem fill_circle_exact_tiling (L : CircTrig K) (c : P K) (r tol : K) (m : Mesh K)
    (h : fillCircle c r tol = some m) :
    (∀ p : P K, Covered m p ↔
      ∀ k : Nat, k < 4 * 2 ^ circleRecursions (Scalar.abs r) tol →
        Inner (regVert c (Scalar.abs r) (circleRecursions (Scalar.abs r) tol) k,
               regVert c (Scalar.abs r) (circleRecursions (Scalar.abs r) tol) (k + 1)) p) ∧
    (meshTris m c).Pairwise Disj ∧
    (Good c (Scalar.abs r) m ∧ ∀ t ∈ m.tris, TriOK m.verts.length t) ∧
    (m.verts.length = 4 * 2 ^ circleRecursions (Scalar.abs r) tol ∧
     m.tris.length + 2 = 4 * 2 ^ circleRecursions (Scalar.abs r) tol ∧
     ∀ k : Nat, k ≤ 4 * 2 ^ circleRecursions (Scalar.abs r) tol →
       regVert c (Scalar.abs r) (circleRecursions (Scalar.abs r) tol) k ∈ m.verts) :=
  ⟨fun p => circle_tris_union_eq_polygon L c r tol m h p,
   (circle_tris_disjoint L c r tol m h).1,
   ⟨circle_good L c r tol m h, circle_tris_distinct c r tol m h⟩,
   ⟨(circle_counts c r tol m h).1, (circle_counts c r tol m h).2,
    (circle_polygon_vertices_emitted L c r tol m h).2.1⟩⟩

end

/-! ### over ℝ -/

attribute [local instance] realTransc

/-- **no two triangles of `tessellate_circle` overlap** (model over ℝ, Mathlib's functions) -/
theorem circle_tris_disjoint_real (c : P ℝ) (r tol : ℝ) (m : Mesh ℝ) (h : fillCircle c r tol = some m) :
    (meshTris m c).Pairwise Disj :=
  (circle_tris_disjoint real_circTrig c r tol m h).1

/-- **`tessellate_circle` is an exact tiling of the inscribed regular `4·2ⁿ`-gon** (model over ℝ):
cover + inside + no overlap + no degenerate triangle + counts; together with
`fill_circle_within_tolerance_real` (that polygon contains every point farther than the tolerance
inside the circle and lies in the disc). -/
theorem fill_circle_exact_tiling_real (c : P ℝ) (r tol : ℝ) (m : Mesh ℝ) (h : fillCircle c r tol = some m) :
    (∀ p : P ℝ, Covered m p ↔
      ∀ k : Nat, k < 4 * 2 ^ circleRecursions |r| tol →
        Inner (regVert c |r| (circleRecursions |r| tol) k, regVert c |r| (circleRecursions |r| tol) (k + 1)) p) ∧
    (meshTris m c).Pairwise Disj ∧
    (Good c |r| m ∧ ∀ t ∈ m.tris, TriOK m.verts.length t) ∧
    (m.verts.length = 4 * 2 ^ circleRecursions |r| tol ∧ m.tris.length + 2 = 4 * 2 ^ circleRecursions |r| tol ∧
     ∀ k : Nat, k ≤ 4 * 2 ^ circleRecursions |r| tol → regVert c |r| (circleRecursions |r| tol) k ∈ m.verts) :=
  fill_circle_exact_tiling real_circTrig c r tol m h

/-- non-vacuity: the hypothesis is satisfiable for every `r ≠ 0`, `tol > 0` -/
example : ∃ m, fillCircle (⟨0, 0⟩ : P ℝ) 100 (1 / 100) = some m :=
  (fill_circle_within_tolerance_real ⟨0, 0⟩ 100 (1 / 100) (by norm_num) (by norm_num)).imp fun _ h => h.1

/-- `Disj` is not vacuous: a point strictly inside a triangle exists -/
example : StrictIn ((⟨0, 0⟩, ⟨4, 0⟩, ⟨0, 4⟩) : Tri3 ℚ) ⟨1, 1⟩ := by
  left; simp [geom]; norm_num

end Lyon.C03c
