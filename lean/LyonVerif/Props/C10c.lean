/-
  C10 (part c) — the inverse queries of a line segment are consistent with evaluation.

  `LineSegment::solve_t_for_x / solve_t_for_y` (crates/geom/src/line.rs) are the operations the
  sweep, the hatcher and the clipper use to go from a coordinate back to a parameter; the model
  functions `Seg.solveTForX / solveTForY` (Model/Geom/Basic.lean) are the ones the C10 driver runs
  bit for bit against lyon (token group `solve` of the `seg` family).  The statements are for ALL
  segments and ALL coordinates / parameters over any linearly ordered field:

  * on a segment that is not vertical, `x (solve_t_for_x x) = x` for every x (no range restriction)
    and `solve_t_for_x (x t) = t` for every t: the two maps are mutually inverse, so the parameter
    returned is the unique one whose sample has that abscissa;
  * on a vertical segment (the guarded branch `dx == 0`) the answer is the parameter 0 — stated
    outright, not hidden behind `x / 0 = 0`;
  * the same for y; and the composition used by `solve_y_for_x`: the sampled point at the solved
    parameter has abscissa x and lies on the segment's supporting line;
  * the solved parameter is in [0, 1] exactly when the coordinate lies between the end points.
-/
import LyonVerif.Model.Geom.Basic
import LyonVerif.Lemmas.Field
import Mathlib.Tactic.NormNum
import Mathlib.Tactic.FieldSimp
import Mathlib.Tactic.Linarith

set_option linter.unusedSectionVars false
set_option linter.unusedVariables false

geom_all Lyon.Seg

namespace Lyon.C10
open Lyon Scalar

variable {K : Type} [Field K] [LinearOrder K] [IsStrictOrderedRing K]

theorem c_zeroK : (Scalar.zero : K) = 0 := by simp
theorem c_oneK : (Scalar.one : K) = 1 := by simp

theorem c_beq_zero_iff (d : K) : ((d == (Scalar.zero : K)) = true) ↔ d = 0 := by
  rw [c_zeroK]; exact sc_beq _ _

/-- closed form of the model function in the non-degenerate branch -/
theorem seg_solve_t_for_x_eq (s : Seg K) (x : K) (h : s.b.x ≠ s.a.x) :
    s.solveTForX x = (x - s.a.x) / (s.b.x - s.a.x) := by
  have hne : s.b.x - s.a.x ≠ 0 := sub_ne_zero.mpr h
  unfold Seg.solveTForX
  simp only []
  rw [if_neg (fun hh => hne ((c_beq_zero_iff _).mp hh))]

theorem seg_solve_t_for_y_eq (s : Seg K) (y : K) (h : s.b.y ≠ s.a.y) :
    s.solveTForY y = (y - s.a.y) / (s.b.y - s.a.y) := by
  have hne : s.b.y - s.a.y ≠ 0 := sub_ne_zero.mpr h
  unfold Seg.solveTForY
  simp only []
  rw [if_neg (fun hh => hne ((c_beq_zero_iff _).mp hh))]

/-- the guarded branch: a vertical segment answers parameter 0 for every abscissa -/
theorem seg_solve_t_for_x_vertical (s : Seg K) (x : K) (h : s.b.x = s.a.x) :
    s.solveTForX x = 0 := by
  unfold Seg.solveTForX
  simp only []
  rw [if_pos ((c_beq_zero_iff _).mpr (sub_eq_zero.mpr h)), c_zeroK]

theorem seg_solve_t_for_y_horizontal (s : Seg K) (y : K) (h : s.b.y = s.a.y) :
    s.solveTForY y = 0 := by
  unfold Seg.solveTForY
  simp only []
  rw [if_pos ((c_beq_zero_iff _).mpr (sub_eq_zero.mpr h)), c_zeroK]

/-- `x(solve_t_for_x(x)) = x`: the returned parameter does locate the abscissa (every x) -/
theorem seg_x_solve_t_for_x (s : Seg K) (x : K) (h : s.b.x ≠ s.a.x) :
    s.x (s.solveTForX x) = x := by
  have hne : s.b.x - s.a.x ≠ 0 := sub_ne_zero.mpr h
  rw [seg_solve_t_for_x_eq s x h]
  unfold Seg.x
  rw [c_oneK]
  field_simp
  ring

theorem seg_y_solve_t_for_y (s : Seg K) (y : K) (h : s.b.y ≠ s.a.y) :
    s.y (s.solveTForY y) = y := by
  have hne : s.b.y - s.a.y ≠ 0 := sub_ne_zero.mpr h
  rw [seg_solve_t_for_y_eq s y h]
  unfold Seg.y
  rw [c_oneK]
  field_simp
  ring

/-- `solve_t_for_x(x(t)) = t`: together with the previous one, the two maps are mutually inverse -/
theorem seg_solve_t_for_x_x (s : Seg K) (t : K) (h : s.b.x ≠ s.a.x) :
    s.solveTForX (s.x t) = t := by
  have hne : s.b.x - s.a.x ≠ 0 := sub_ne_zero.mpr h
  rw [seg_solve_t_for_x_eq s _ h]
  unfold Seg.x
  rw [c_oneK]
  field_simp
  ring

theorem seg_solve_t_for_y_y (s : Seg K) (t : K) (h : s.b.y ≠ s.a.y) :
    s.solveTForY (s.y t) = t := by
  have hne : s.b.y - s.a.y ≠ 0 := sub_ne_zero.mpr h
  rw [seg_solve_t_for_y_eq s _ h]
  unfold Seg.y
  rw [c_oneK]
  field_simp
  ring

/-- uniqueness: any parameter whose abscissa is x is the one returned -/
theorem seg_solve_t_for_x_unique (s : Seg K) (x t : K) (h : s.b.x ≠ s.a.x) (ht : s.x t = x) :
    s.solveTForX x = t := by
  rw [← ht]; exact seg_solve_t_for_x_x s t h

theorem seg_solve_t_for_y_unique (s : Seg K) (y t : K) (h : s.b.y ≠ s.a.y) (ht : s.y t = y) :
    s.solveTForY y = t := by
  rw [← ht]; exact seg_solve_t_for_y_y s t h

/-- the solved parameter is in [0,1] exactly when x lies between the end points
(left-to-right segment; the right-to-left case is the flipped statement below) -/
theorem seg_solve_t_for_x_unit_iff (s : Seg K) (x : K) (h : s.a.x < s.b.x) :
    (0 ≤ s.solveTForX x ∧ s.solveTForX x ≤ 1) ↔ (s.a.x ≤ x ∧ x ≤ s.b.x) := by
  have hpos : 0 < s.b.x - s.a.x := sub_pos.mpr h
  rw [seg_solve_t_for_x_eq s x (ne_of_gt h), div_nonneg_iff, div_le_one hpos]
  constructor
  · rintro ⟨h0 | h0, h1⟩
    · exact ⟨by linarith [h0.1], by linarith⟩
    · exact absurd h0.2 (not_le.mpr hpos)
  · rintro ⟨h0, h1⟩
    exact ⟨Or.inl ⟨by linarith, le_of_lt hpos⟩, by linarith⟩

theorem seg_solve_t_for_x_unit_iff_rev (s : Seg K) (x : K) (h : s.b.x < s.a.x) :
    (0 ≤ s.solveTForX x ∧ s.solveTForX x ≤ 1) ↔ (s.b.x ≤ x ∧ x ≤ s.a.x) := by
  have hneg : s.b.x - s.a.x < 0 := sub_neg.mpr h
  rw [seg_solve_t_for_x_eq s x (ne_of_lt h), div_nonneg_iff, div_le_one_of_neg hneg]
  constructor
  · rintro ⟨h0 | h0, h1⟩
    · exact absurd h0.2 (not_le.mpr hneg)
    · exact ⟨by linarith, by linarith [h0.1]⟩
  · rintro ⟨h0, h1⟩
    exact ⟨Or.inr ⟨by linarith, le_of_lt hneg⟩, by linarith⟩

/-- `solve_y_for_x` = `y(solve_t_for_x(x))`: the point it denotes has abscissa x and is the
sample at the solved parameter (so it lies on the supporting line of the segment) -/
theorem seg_solve_y_for_x_on_line (s : Seg K) (x : K) (h : s.b.x ≠ s.a.x) :
    (s.sample (s.solveTForX x)).x = x ∧ (s.sample (s.solveTForX x)).y = s.y (s.solveTForX x) := by
  have kx : ∀ t : K, (s.sample t).x = s.x t := by intro t; geom_ring
  have ky : ∀ t : K, (s.sample t).y = s.y t := by intro t; geom_ring
  exact ⟨by rw [kx, seg_x_solve_t_for_x s x h], ky _⟩

/-! ### squared length under split / flip (no square root: exact over any field) -/

/-- the left piece of `split(t)` has `t²` times the squared length -/
theorem seg_sqLength_split_left (s : Seg K) (t : K) :
    (s.split t).1.sqLength = t * t * s.sqLength := by
  geom_ring
/-- the right piece has `(1 − t)²` times the squared length -/
theorem seg_sqLength_split_right (s : Seg K) (t : K) :
    (s.split t).2.sqLength = (1 - t) * (1 - t) * s.sqLength := by
  geom_ring
/-- flipping keeps the squared length -/
theorem seg_sqLength_flip (s : Seg K) : s.flip.sqLength = s.sqLength := by
  geom_ring
/-- a sub-range `a..b` has `(b − a)²` times the squared length -/
theorem seg_sqLength_split_range (s : Seg K) (a b : K) :
    (s.splitRange a b).sqLength = (b - a) * (b - a) * s.sqLength := by
  geom_ring

/-! non-vacuity: a concrete slanted segment meets the hypotheses and the laws compute -/
example : (⟨⟨1, 2⟩, ⟨5, 4⟩⟩ : Seg ℚ).b.x ≠ (⟨⟨1, 2⟩, ⟨5, 4⟩⟩ : Seg ℚ).a.x := by norm_num
example : (⟨⟨1, 2⟩, ⟨5, 4⟩⟩ : Seg ℚ).solveTForX 2 = 1 / 4 := by
  rw [seg_solve_t_for_x_eq _ _ (by norm_num)]; norm_num
example : (⟨⟨1, 2⟩, ⟨1, 4⟩⟩ : Seg ℚ).solveTForX 7 = 0 :=
  seg_solve_t_for_x_vertical _ _ rfl

end Lyon.C10
