/-
  C08 — the STROKE tessellator, attribute-carrying entry points, INCLUDING the attribute buffer.

  `Props/C08c.lean` (`stroke_full_call_fresh`) compares the complete output of the stroker model
  (`Out`: every vertex with all accessors and its source, every triangle) on a used and on a new
  `StrokeTessellator`; the object's attribute BUFFER never reaches that model, and the values of
  `StrokeVertex::interpolated_attributes()` are not part of `Out`.  The code reads the buffer's LENGTH
  (`for i in 0..self.0.buffer.len()`), which is exactly what the stored seeds C05-r3-2 / C08-r3-1
  break (a scratch buffer that is only grown, never cleared).  `Model/Tess/ResetStrokeAttrs.lean` (on
  top of `StrokeAttrBuffer.lean`) hands the buffer — as the prologue of each entry point leaves it — to a model of
  `interpolated_attributes` that loops over `buffer.len()`, and adds the attributes every vertex
  constructor reads to the output.  Theorems:

  * `stroke_full_call_fresh_attrs`      one call of any entry point (`tessellate`, `tessellate_path`,
      `tessellate_with_ids` with n attributes, `builder`, `builder_with_attributes(n)`, dropped builders)
      on a used object — any buffer of any length, any store — = the same call on a new one: complete
      output AND the interpolated attributes of every vertex AND whether a read goes out of bounds.
  * `stroke_history_fresh_full_attrs`, `stroke_history_outputs_full_attrs`   after every history.
  * `stroke_attrs_buffer_sized`         with the buffer the prologue builds (n zeros) and a store whose
      slices have n entries, the length-driven reads never go out of bounds and are the attributes
      of `Full.attrsSeq` — the model family `fulle:32` of C05 ties — i.e. `interpolatedAttributes` of
      every vertex's source.
  * `stroke_buffer_length_observable_witness`   the length IS observable: with the grow-only prologue
      of the stored seeds, a 1-attribute call after a 3-attribute call reads out of bounds, the real
      prologue does not.

  Tie: the buffer-level definitions (`Model/Tess/StrokeAttrBuffer.lean`) are run by the checker family
  `chk_stroke_attrs` of this check against ONE reused real `StrokeTessellator` whose calls change the
  attribute count; the stroker that produces the vertices is C05's tie (`full:32` / `fulle:32`).
-/
import LyonVerif.Props.C08c
import LyonVerif.Lemmas.ResetStrokeAttrs

set_option linter.unusedSectionVars false
set_option linter.unusedVariables false
set_option linter.unusedSimpArgs false

namespace Lyon.C08
open Lyon Lyon.Reset Lyon.Stroke Lyon.Stroke.Full
open Lyon.StrokeQuad (Ix)

variable {α : Type} [Scalar α]

/-! ## The buffer the stroker borrows -/

/-- **`clear()` + `push(0.0)` × n forgets the buffer**: what `StrokeBuilderImpl::new` borrows does not
depend on what the object's buffer held — contents or LENGTH -/
theorem stroke_prologue_buffer_fresh (old old' : List α) (e : StrokeEntry) :
    prologueBuffer old e = prologueBuffer old' e := by
  cases e <;> rfl

theorem prologueBuffer_length (old : List α) (e : StrokeEntry) :
    (prologueBuffer old e).length = match e with | .events => 0 | .withIds n => n | .builder n => n | .builderDropped n => n := by
  cases e <;> simp [prologueBuffer, clearPush]

/-! ## Length-driven reads on a buffer of the right size = the tied reads -/

/-- **On the buffer the prologue builds the length-driven reads are the tied ones**: a buffer of
`n` entries (any contents) and a store with `n` attributes per endpoint — no read goes out of
bounds, and every vertex constructor reads the attributes of its vertex's source
(`interpolatedAttributes`: the endpoint's own, or the two endpoints' interpolated at `t`), which is
also what `Full.attrsSeq` — the model family `fulle:32` of C05 ties — computes. -/
theorem stroke_attrs_buffer_sized (store : Nat → List α) (n : Nat) (hs : ∀ id, (store id).length = n)
    (verts : List (VData α)) (buf : List α) (hb : buf.length = n) :
    (attrsSeqB store (verts.map (·.src)) ⟨false, buf⟩).1 = some (attrsSeq store verts ⟨false, buf⟩) ∧
    attrsSeq store verts ⟨false, buf⟩ = verts.map (fun d => interpolatedAttributes store d.src) :=
  ⟨attrsSeqB_sized store n hs verts ⟨false, buf⟩ hb, attrsSeq_eq_map store verts _⟩

example : ∃ (store : Nat → List Int') (buf : List Int'), (∀ id, (store id).length = 2) ∧ buf.length = 2 :=
  ⟨fun id => [⟨id⟩, ⟨7⟩], [⟨5⟩, ⟨6⟩], fun _ => rfl, rfl⟩

/-- **The buffer's length is observable** — what the stored seeds C05-r3-2 / C08-r3-1 exploit: after a
call with 3 attributes a grow-only prologue leaves 3 entries for a call with 1 attribute, and the
read of an `Edge` vertex indexes past the end of the store's slices; the real prologue
(`clear` + `push`) leaves 1 entry and the read succeeds. -/
theorem stroke_buffer_length_observable_witness :
    let store : Nat → List Int' := fun id => [⟨(id : Int) * 10⟩]
    let after3 : List Int' := clearPush [] 3
    ((⟨false, growOnly after3 1⟩ : BufCache Int').readB store true (.edge 1 2 ⟨1⟩)).1 = none ∧
    ((⟨false, prologueBuffer after3 (.withIds 1)⟩ : BufCache Int').readB store true (.edge 1 2 ⟨1⟩)).1 = some [⟨20⟩] := by
  decide

/-! ## One call, histories -/

section
variable [Transc α] [Asin α] [FlatConst α]

theorem callStore_fresh (t : StrokeT α) (c : StrokeCall α) : callStore t c = callStore StrokeT.new c := by
  unfold callStore
  cases c.entry <;> rfl

/-- the output of `strokeFullCallB` as a function of what the prologue hands to the stroker -/
theorem strokeFullCallB_snd (ix : Ix α) (t : StrokeT α) (c : StrokeCall α) :
    (strokeFullCallB ix t c).2 =
      (strokeFullCall ix t c).2.bind fun out =>
        (attrsSeqB (callStore t c) (out.verts.map (·.src)) ⟨false, prologueBuffer t.attribBuffer c.entry⟩).1.map fun l => (out, l) := by
  cases h : (strokeFullCall ix t c).2 <;> simp [strokeFullCallB, h]

/-- **One call of a used `StrokeTessellator` = the same call of a new one, attribute buffer
included**: the complete output of the full stroker model, the attributes every vertex constructor
reads through the object's own buffer (length-driven loop), and whether a read goes out of bounds —
for every entry point, every option set, every path, fixed or variable width, any attribute
vectors, and WHATEVER the object's buffer (any length) and builder store held. -/
theorem stroke_full_call_fresh_attrs (ix : Ix α) (t : StrokeT α) (c : StrokeCall α) :
    (strokeFullCallB ix t c).2 = (strokeFullCallB ix StrokeT.new c).2 := by
  rw [strokeFullCallB_snd, strokeFullCallB_snd, stroke_full_call_fresh ix t c, callStore_fresh t c,
    stroke_prologue_buffer_fresh t.attribBuffer StrokeT.new.attribBuffer]

theorem strokeObjB_stateless (ix : Ix α) : Stateless (strokeObjB ix) := by
  intro s s' c
  show (strokeFullCallB ix s c).2 = (strokeFullCallB ix s' c).2
  rw [stroke_full_call_fresh_attrs ix s, stroke_full_call_fresh_attrs ix s']

/-- **After every history** (any calls, any entry points, any attribute counts — growing or
shrinking —, builders dropped without `build`, whatever they left in the buffer and the store) the
next call's complete output and interpolated attributes are a new tessellator's. -/
theorem stroke_history_fresh_full_attrs (ix : Ix α) (t0 : StrokeT α) (hist : List (StrokeCall α)) (c : StrokeCall α) :
    ((strokeObjB ix).call ((strokeObjB ix).run t0 hist) c).2 = ((strokeObjB ix).call StrokeT.new c).2 :=
  strokeObjB_stateless ix _ _ c

theorem stroke_history_outputs_full_attrs (ix : Ix α) (t0 : StrokeT α) (hist : List (StrokeCall α)) :
    (strokeObjB ix).outputs t0 hist = hist.map (fun c => ((strokeObjB ix).call StrokeT.new c).2) :=
  (strokeObjB_stateless ix).outputs StrokeT.new hist t0

end

end Lyon.C08
