/-
  C08 — tessellators carry no state from one call to the next: the FILL tessellator on polygonal
  input, end to end, on the complete sweep model.

  `Props/C08.lean` proves the reset discipline with the sweep as a PARAMETER (an arbitrary function
  of an explicit read-set).  Here the parameter is instantiated by the model of the sweep itself
  (`Model/Tess/Sweep.lean`: `tessellate_impl`, `tessellator_loop` and everything below it, statement
  by statement; tied bit for bit to the real code by family `sweep:32` of C01 and, on a REUSED real
  object after histories with aborted calls, by family `sweep_reuse:32` of C08), composed with the
  event-queue builder and sort (`EventQueue.lean`, `Sources.lean`) and the pooled monotone
  tessellators (`Monotone.lean`).  `Model/Tess/ResetSweep.lean` makes the call on a USED object
  explicit — `tessellateImplFrom old …` mirrors `FillTessellator::reset` + `tessellate_impl`; what
  survives `reset` in the model's own state is `St.pool`: the recycled `AdvancedMonotoneTessellator`s
  with whatever they held, of any number.

  Main theorems (no hypotheses: every object state `old`, every input):
  * `fill_sweep_call_fresh`      the emission sequence (outcome + every `add_fill_vertex` /
                                 `add_triangle` in order) of `tessellate_impl` on ANY used object =
                                 that of `Sweep.tessellateImpl` (a freshly constructed tessellator).
  * `fill_sweep_refused_fresh`   the same against a geometry builder that refuses the k-th vertex.
  * `fill_entry_fresh`           a whole entry point (queue rebuilt in recycled storage, sorted,
                                 swept) on any used object = `Sweep.tessellate`.
  * `fill_history_fresh_sweep`   after EVERY history of calls on one object — other inputs, options,
                                 entry points, invalid tolerances, calls aborted by the builder at any
                                 vertex, sweeps that failed (`Err`) or panicked part-way leaving spans,
                                 edges and a half-processed event behind, builders dropped without
                                 `build` — the next call emits exactly what a new tessellator emits;
                                 `fill_history_outputs_sweep`: call by call along the history.

  The proof is a simulation (`Lemmas/ResetSweep{Core,Ops,Ops2,Loop}.lean`): two runs of the loop from
  states that agree on every field except `pool` (unrelated) and `spans` (slot-wise `AdvSim`: equal up
  to a `SideEvents::prev` that cannot be read yet — `Lemmas/Reset.lean`) stay so related through every
  statement of every step, return the same values and emit the same output.

  What stays outside `St` (and is covered by `Props/C08.lean`): the attribute buffer
  (`attrib_buffer_fresh`) and the prior contents of the output buffers (`offset_shift`).
-/
import LyonVerif.Lemmas.ResetSweepLoop

set_option linter.unusedSectionVars false
set_option linter.unusedVariables false

namespace Lyon.C08
open Lyon Lyon.Mono Lyon.Sweep Lyon.EQ

variable {α : Type} [Scalar α] [Wide α]

/-! ## What the object keeps and what a call overwrites -/

/-- `ActiveEdgeScan::reset` restores the all-default scan, whatever the scan held -/
theorem scan_reset_default (dirty : Scan) : Scan.reset dirty = {} := rfl

/-- `scan_active_edges` on a dirty scan = on a new one: `reset` comes first and every field is reset -/
theorem scan_dirty_fresh (dirty : Scan) (s : St α) : scanActiveEdgesFrom dirty s = scanActiveEdges s := by
  unfold scanActiveEdgesFrom
  cases scanActiveEdges s <;> rfl

/-- `EventQueue::reset` (inside `into_builder`) forgets the recycled queue -/
theorem queue_reset_fresh (q : Queue α) : queueReset q = Queue.empty := rfl

/-- the event queue an entry point builds in recycled storage is the one it builds from scratch -/
theorem build_queue_fresh (old : Queue α) (entry : Entry) (hz : Bool) (subs : List (SubPath α)) :
    buildQueueFrom old entry hz subs = buildQueue entry hz subs := rfl

/-- `FillTessellator::reset` + the option writes leave exactly ONE field of the old object in place:
the pool (`reset` clears `fill.spans`, never `fill.pool`) -/
theorem prologue_keeps_pool_only (old : St α) (q : Queue α) (rule : Slab.Rule) (hz : Bool) (tol : α) (hi : Bool) :
    old.prologue q rule hz tol hi = { (St.fresh.prologue q rule hz tol hi) with pool := old.pool } := rfl

/-- the stale state is really there: a pooled tessellator with junk in every field survives the
prologue, and `begin_span` will hand it out -/
theorem pool_survives_witness (junk : Adv α) (q : Queue α) (tol : α) :
    let old : St α := { (St.fresh : St α) with pool := [junk, junk] }
    (old.prologue q .evenOdd false tol true).pool = [junk, junk] := rfl

/-! ## The sweep reads the pool through `begin` only -/

/-- **What `Props/C08.lean` had to ASSUME of the sweep is a theorem about the modelled sweep**: its
read-set `SweepView` leaves out the contents of `fill.pool`.  Run the loop (any fuel, any builder
refusal) from a state `s` and from the same state with ANY other pool: the same result (normal end,
`Err`, panic), the same emissions, and the same sweep state afterwards up to pool, coverage bits and
`AdvSim` on the live spans. -/
theorem sweep_loop_pool_independent (s : St α) (pool' : List (Adv α)) (limit : Option Nat) (f : Nat) :
    let r := (tessellatorLoopB limit f).run.run s
    let r' := (tessellatorLoopB limit f).run.run { s with pool := pool' }
    r.1 = r'.1 ∧ r.2.out = r'.2.out ∧ r.2.active.size = r'.2.active.size ∧ r.2.spans.size = r'.2.spans.size := by
  intro r r'
  have h := (tessellatorLoopB_sim limit f).out s { s with pool := pool' } ⟨s.spans, pool', s.cov, rfl, SpansSim.rfl' _⟩
  obtain ⟨h1, sp, pl, c, h2, h3⟩ := h
  refine ⟨h1, ?_, ?_, ?_⟩
  · show r.2.out = r'.2.out
    have : r'.2 = with3 r.2 sp pl c := h2
    rw [this]
  · show r.2.active.size = r'.2.active.size
    have : r'.2 = with3 r.2 sp pl c := h2
    rw [this]
  · show r.2.spans.size = r'.2.spans.size
    have : r'.2 = with3 r.2 sp pl c := h2
    rw [this]
    exact h3.size.symm

/-- the same for `Sweep.tessellatorLoop` itself -/
theorem sweep_loop_pool_independent_plain (s : St α) (pool' : List (Adv α)) (f : Nat) :
    ((tessellatorLoop f).run.run s).1 = ((tessellatorLoop f).run.run { s with pool := pool' }).1 ∧
    ((tessellatorLoop f).run.run s).2.out = ((tessellatorLoop f).run.run { s with pool := pool' }).2.out := by
  have h := sweep_loop_pool_independent s pool' none f
  rw [tessellatorLoopB_none] at h
  exact ⟨h.1, h.2.1⟩

/-! ## One call -/

/-- a fresh object and no refusing builder: `tessellateImplFrom` IS `Sweep.tessellateImpl`
(outcome, emissions and coverage bits) -/
theorem tessellateImplFrom_fresh (q : Queue α) (rule : Slab.Rule) (hz : Bool) (tol : α) (hi : Bool) :
    (tessellateImplFrom St.fresh none q rule hz tol hi).1 = tessellateImpl q rule hz tol hi := by
  unfold tessellateImplFrom tessellateImpl
  split
  · rfl
  · rw [tessellatorLoopB_none]
    have key : ∀ r : Except Fail Unit × St α,
        (match r.1 with
          | .error f => ((some f, r.2.out, r.2.cov), r.2)
          | .ok _ =>
            ((none, flushLeftover r.2.spans r.2.out,
              if (flushLeftover r.2.spans r.2.out).size == r.2.out.size then r.2.cov else r.2.cov ||| (1 <<< 22)),
             { r.2 with spans := #[] }) : (Option Fail × Array (Emit α) × Nat) × St α).1 =
        (match r.1 with
          | .error f => (some f, r.2.out, r.2.cov)
          | .ok _ =>
            (none, flushLeftover r.2.spans r.2.out,
              if (flushLeftover r.2.spans r.2.out).size == r.2.out.size then r.2.cov else r.2.cov ||| (1 <<< 22))) := by
      rintro ⟨r1, r2⟩
      cases r1 <;> rfl
    exact key _

/-- **`tessellate_impl` on a used object.**  For EVERY state `old` of the object (whatever earlier
calls left in the pool, the spans, the edge lists, the position / vertex / event registers, the
options, the queue), every queue, fill rule, orientation, tolerance (valid or not) and
intersection flag: the outcome and the complete emission sequence are those of
`Sweep.tessellateImpl`, which starts from a freshly constructed tessellator. -/
theorem fill_sweep_call_fresh (old : St α) (q : Queue α) (rule : Slab.Rule) (hz : Bool) (tol : α) (hi : Bool) :
    emission (tessellateImplFrom old none q rule hz tol hi).1 = emission (tessellateImpl q rule hz tol hi) := by
  rw [tessellateImplFrom_sim old St.fresh, tessellateImplFrom_fresh]

/-- **… against a geometry builder that refuses a vertex** (the call is aborted part-way): the
emission up to the refusal and the error are the same from any two objects. -/
theorem fill_sweep_refused_fresh (old old' : St α) (limit : Option Nat) (q : Queue α) (rule : Slab.Rule) (hz : Bool)
    (tol : α) (hi : Bool) :
    emission (tessellateImplFrom old limit q rule hz tol hi).1 = emission (tessellateImplFrom old' limit q rule hz tol hi).1 :=
  tessellateImplFrom_sim old old' limit q rule hz tol hi

/-- one call of an entry point: the emission does not depend on the object -/
theorem tessellateFrom_sim (old old' : St α) (c : FillCall α) :
    emission (tessellateFrom old c).1 = emission (tessellateFrom old' c).1 := by
  unfold tessellateFrom
  rw [build_queue_fresh old.q, build_queue_fresh old'.q]
  dsimp only
  split
  · rfl
  · split
    · rfl
    · exact tessellateImplFrom_sim old old' _ _ _ _ _ _

/-- on a fresh object, with a builder that accepts everything and is not dropped, `tessellateFrom`
IS `Sweep.tessellate` -/
theorem tessellateFrom_fresh (c : FillCall α) (hr : c.refuse = none) (hd : c.dropped = false) :
    (tessellateFrom St.fresh c).1 = tessellate c.entry c.rule c.horizontal c.tol c.handleIx c.subs := by
  unfold tessellateFrom tessellate
  simp only [build_queue_fresh, hd, hr, Bool.false_eq_true, if_false]
  split
  · rfl
  · exact tessellateImplFrom_fresh _ _ _ _ _

example : ∃ c : FillCall Nat, c.refuse = none ∧ c.dropped = false :=
  ⟨{ entry := .events, rule := .evenOdd, horizontal := false, tol := 1, handleIx := true, subs := [([], true)] }, rfl, rfl⟩

/-- **A whole entry point on a used object = `Sweep.tessellate`** (the five entry points on
polygonal input: the queue rebuilt in the recycled storage, sorted, swept). -/
theorem fill_entry_fresh (old : St α) (c : FillCall α) (hr : c.refuse = none) (hd : c.dropped = false) :
    emission (tessellateFrom old c).1 = emission (tessellate c.entry c.rule c.horizontal c.tol c.handleIx c.subs) := by
  rw [tessellateFrom_sim old St.fresh, tessellateFrom_fresh c hr hd]

/-! ## Histories -/

/-- the output of a call of the object does not depend on its state -/
theorem fillObj_stateless : Stateless (fillObj (α := α)) :=
  fun s s' c => tessellateFrom_sim s s' c

/-- **After every history the next call emits what a new tessellator emits.**  `s0` is ANY initial
object, `hist` ANY sequence of calls (each with its own input, entry point, fill rule, orientation,
tolerance — valid or not —, intersection flag, a geometry builder refusing any vertex, a builder
dropped without `build`); a call of the history may succeed, return `Err`, be aborted by the
builder or panic part-way: the object is left as the modelled loop left it (spans alive, edges,
a half-processed event, pooled tessellators with stale fields) and the next call starts from THAT. -/
theorem fill_history_fresh_sweep (s0 : St α) (hist : List (FillCall α)) (c : FillCall α) :
    (fillObj.call (fillObj.run s0 hist) c).2 = (fillObj.call St.fresh c).2 :=
  fillObj_stateless _ _ c

/-- … and for an ordinary last call that is `Sweep.tessellate` of its input -/
theorem fill_history_fresh_sweep_tessellate (s0 : St α) (hist : List (FillCall α)) (c : FillCall α)
    (hr : c.refuse = none) (hd : c.dropped = false) :
    (fillObj.call (fillObj.run s0 hist) c).2 =
      emission (tessellate c.entry c.rule c.horizontal c.tol c.handleIx c.subs) :=
  fill_entry_fresh _ c hr hd

/-- call by call along the history: what family `sweep_reuse:32` observes on the real object -/
theorem fill_history_outputs_sweep (s0 : St α) (hist : List (FillCall α)) :
    fillObj.outputs s0 hist = hist.map (fun c => (fillObj.call St.fresh c).2) :=
  fillObj_stateless.outputs St.fresh hist s0

end Lyon.C08
