/-
  C16, part g — mirror images (orientation-reversing similarities) at ITERATION time and for
  `for_each_flattened`, with the concrete flatteners of lyon_geom; companion of
  `flatten_transform_reflection_concrete` (`Props/C16e.lean`, building time).

  * `flatten_transform_reflection_iter_concrete`: `events.transformed(m).flattened(s·tol)` =
    `events.flattened(tol).transformed(m)`, event for event (`none` iff `none`), for every event
    stream on which the flattener's sign test `(parabola_from < 0) == (parabola_to < 0)` is
    symmetric (`reflGenericEvents`: for a quadratic event the test on that quadratic; for a cubic
    event on the quadratic approximation of every sub-range — the cubic iterator approximates
    the ranges `[k·step, (k+1)·step]` it accumulates itself).
  * `flatten_transform_reflection_attr_concrete`: the same for
    `iter_with_attributes().for_each_flattened`, attributes included (`reflGenericAttrEvents`:
    for a cubic event the test on the quadratics of `for_each_quadratic_bezier`).

  On the REAL adapters the statement and its exception are exercised by family `mir` of the C16
  harness (a program and its mirror image under `(x,y) ↦ (x,−y)`, exact in floats): equal counts →
  mirrored call for call; the counts differ only where a quadratic has `parabola_from` or
  `parabola_to` exactly 0 (witnesses of observation `C16-obs-flatten-mirror-asymmetry`:
  `(0,0) (1,0) (2,1)` at 0.0573 / 0.0572 / 0.0571 / 0.0254 — lyon and the model agree bit for bit).
-/
import LyonVerif.Props.C16e
import LyonVerif.Lemmas.AdaptersConcreteSimNegIter

set_option linter.unusedSectionVars false
set_option linter.unusedVariables false

namespace Lyon.C16
open Lyon Lyon.Path Lyon.Adapt Scalar Lyon.Flat

section field
variable {K : Type} [Field K] [LinearOrder K] [IsStrictOrderedRing K] [Transc K] [FlatConst K]

/-- the sign test is symmetric for every curve `iterator::Flattened` flattens -/
def reflGenericEvents : List (Event (P K)) → Prop
  | [] => True
  | .quad a c b :: r =>
    ParabolaGeneric (parabolaFromOf ⟨a, c, b⟩) (parabolaToOf ⟨a, c, b⟩) ∧ reflGenericEvents r
  | .cubic a c d b :: r => CubicGenericAll ⟨a, c, d, b⟩ ∧ reflGenericEvents r
  | _ :: r => reflGenericEvents r

/-- … and for every curve `for_each_flattened` flattens -/
def reflGenericAttrEvents (tol : K) : List (Event (AP (P K) K)) → Prop
  | [] => True
  | .quad a c b :: r =>
    ParabolaGeneric (parabolaFromOf ⟨a.1, c.1, b.1⟩) (parabolaToOf ⟨a.1, c.1, b.1⟩)
      ∧ reflGenericAttrEvents tol r
  | .cubic a c d b :: r =>
    QuadsGeneric ((⟨a.1, c.1, d.1, b.1⟩ : Cubic K).forEachQuadraticWithT (tol * FlatConst.value 4 1))
      ∧ reflGenericAttrEvents tol r
  | _ :: r => reflGenericAttrEvents tol r

theorem itModel_quad_simneg (hsq : SqrtScales K) (m : Xf K) (s : K) (hm : IsSimNeg m s) (fuel : ℕ)
    (tol : K) (a c b : P K)
    (hg : ParabolaGeneric (parabolaFromOf ⟨a, c, b⟩) (parabolaToOf ⟨a, c, b⟩)) :
    (itModel fuel (s * tol)).quad (m.apply a) (m.apply c) (m.apply b)
      = ((itModel fuel tol).quad a c b).map m.apply ∧
    itOkQuad fuel (s * tol) (m.apply a) (m.apply c) (m.apply b) = itOkQuad fuel tol a c b := by
  have hr := quadIter_new_simneg hsq m s hm ⟨a, c, b⟩ tol hg
  simp only [Quad.transformed] at hr
  exact ⟨quadIter_collect_rel m fuel _ _ hr,
    by simp only [itOkQuad, quadIter_collectDone_rel m fuel _ _ hr, Option.isSome_map]⟩

theorem itModel_cubic_simneg (hsq : SqrtScales K) (m : Xf K) (s : K) (hm : IsSimNeg m s) (fuel : ℕ)
    (tol : K) (a c d b : P K) (hg : CubicGenericAll ⟨a, c, d, b⟩) :
    (itModel fuel (s * tol)).cubic (m.apply a) (m.apply c) (m.apply d) (m.apply b)
      = ((itModel fuel tol).cubic a c d b).map m.apply ∧
    itOkCubic fuel (s * tol) (m.apply a) (m.apply c) (m.apply d) (m.apply b)
      = itOkCubic fuel tol a c d b := by
  have h := cubicIter_new_simneg hsq m s hm ⟨a, c, d, b⟩ tol hg
  simp only [Cubic.transformed] at h
  rcases h with ⟨h1, h2⟩ | ⟨a', a0, h1, h2, hr, hcv⟩
  · simp [itModel, itOkCubic, h1, h2]
  · have hg' : CubicGenericAll a0.curve := hcv ▸ hg
    refine ⟨?_, ?_⟩
    · simp only [itModel, h1, h2]
      exact cubicIter_collect_rel hsq m s hm fuel a' a0 hr hg'
    · simp only [itOkCubic, h1, h2, cubicIter_collectDone_rel hsq m s hm fuel a' a0 hr hg',
        Option.isSome_map]

theorem flatIter_reflection (hsq : SqrtScales K) (m : Xf K) (s : K) (hm : IsSimNeg m s) (fuel : ℕ)
    (tol : K) (evs : List (Event (P K))) (hg : reflGenericEvents evs) :
    itOkEvents fuel (s * tol) (evs.map (mapEvent m.apply)) = itOkEvents fuel tol evs ∧
    flatIter (itModel fuel (s * tol)) (evs.map (mapEvent m.apply))
      = (flatIter (itModel fuel tol) evs).map (mapEvent m.apply) := by
  induction evs with
  | nil => exact ⟨rfl, rfl⟩
  | cons e r ih =>
    cases e with
    | begin p =>
      obtain ⟨h1, h2⟩ := ih hg
      exact ⟨by simpa [itOkEvents, mapEvent] using h1, by simp [flatIter, mapEvent, h2]⟩
    | line a b =>
      obtain ⟨h1, h2⟩ := ih hg
      exact ⟨by simpa [itOkEvents, mapEvent] using h1, by simp [flatIter, mapEvent, h2]⟩
    | end_ l f cl =>
      obtain ⟨h1, h2⟩ := ih hg
      exact ⟨by simpa [itOkEvents, mapEvent] using h1, by simp [flatIter, mapEvent, h2]⟩
    | quad a c b =>
      obtain ⟨h1, h2⟩ := ih hg.2
      obtain ⟨g1, g2⟩ := itModel_quad_simneg hsq m s hm fuel tol a c b hg.1
      exact ⟨by simp only [List.map_cons, mapEvent, itOkEvents, g2, h1],
        by simp [flatIter, mapEvent, h2, g1, chain_map]⟩
    | cubic a c d b =>
      obtain ⟨h1, h2⟩ := ih hg.2
      obtain ⟨g1, g2⟩ := itModel_cubic_simneg hsq m s hm fuel tol a c d b hg.1
      exact ⟨by simp only [List.map_cons, mapEvent, itOkEvents, g2, h1],
        by simp [flatIter, mapEvent, h2, g1, chain_map]⟩

/-- **flatten_transform_reflection_iter_concrete** -/
theorem flatten_transform_reflection_iter_concrete (hsq : SqrtScales K) (m : Xf K) (s : K)
    (hm : IsSimNeg m s) (fuel : Nat) (tol : K) (evs : List (Event (P K)))
    (hg : reflGenericEvents evs) :
    flatIterC fuel (s * tol) (xfIter m.apply evs)
      = (flatIterC fuel tol evs).map (xfIter m.apply) := by
  obtain ⟨h1, h2⟩ := flatIter_reflection hsq m s hm fuel tol evs hg
  unfold flatIterC
  rw [xfIter, h1]
  split
  · simp only [Option.map_some, Option.some.injEq, xfIter]; exact h2
  · rfl

theorem flatAttrIter_reflection (hsq : SqrtScales K) (m : Xf K) (s : K) (hm : IsSimNeg m s)
    (tol : K) (aevs : List (Event (AP (P K) K))) (hg : reflGenericAttrEvents tol aevs) :
    cbOkEvents (s * tol) (aevs.map (mapEvent (mapAP m.apply))) = cbOkEvents tol aevs ∧
    flatAttrIter (cbModel (s * tol)) (aevs.map (mapEvent (mapAP m.apply)))
      = (flatAttrIter (cbModel tol) aevs).map (mapEvent (mapAP m.apply)) := by
  induction aevs with
  | nil => exact ⟨rfl, rfl⟩
  | cons e r ih =>
    cases e with
    | begin p =>
      obtain ⟨h1, h2⟩ := ih hg
      exact ⟨by simpa [cbOkEvents, mapEvent] using h1, by simp [flatAttrIter, mapEvent, h2]⟩
    | line a b =>
      obtain ⟨h1, h2⟩ := ih hg
      exact ⟨by simpa [cbOkEvents, mapEvent] using h1, by simp [flatAttrIter, mapEvent, h2]⟩
    | end_ l f cl =>
      obtain ⟨h1, h2⟩ := ih hg
      exact ⟨by simpa [cbOkEvents, mapEvent] using h1, by simp [flatAttrIter, mapEvent, h2]⟩
    | quad a c b =>
      obtain ⟨h1, h2⟩ := ih hg.2
      have hf := quad_flatten_simneg hsq m s hm ⟨a.1, c.1, b.1⟩ tol hg.1
      simp only [Quad.transformed] at hf
      have hseg : (cbModel (s * tol)).quad (m.apply a.1) (m.apply c.1) (m.apply b.1)
          = ((cbModel tol).quad a.1 c.1 b.1).map (mapSeg m.apply) := by
        simp only [cbModel, hf]
        cases Quad.forEachFlattenedWithT (⟨a.1, c.1, b.1⟩ : Quad K) tol with
        | none => rfl
        | some l => simp [segOf, mapSeg, mapFlat, Function.comp_def]
      exact ⟨by simp only [List.map_cons, mapEvent, mapAP, cbOkEvents, cbOkQuad, hf,
          Option.isSome_map, h1],
        by simp [flatAttrIter, mapEvent, mapAP, h2, hseg, linesA_mapSeg]⟩
    | cubic a c d b =>
      obtain ⟨h1, h2⟩ := ih hg.2
      have hf := cubic_flatten_simneg hsq m s hm ⟨a.1, c.1, d.1, b.1⟩ tol hg.1
      simp only [Cubic.transformed] at hf
      have hseg : (cbModel (s * tol)).cubic (m.apply a.1) (m.apply c.1) (m.apply d.1) (m.apply b.1)
          = ((cbModel tol).cubic a.1 c.1 d.1 b.1).map (mapSeg m.apply) := by
        simp only [cbModel, hf]
        cases Cubic.forEachFlattenedWithT (⟨a.1, c.1, d.1, b.1⟩ : Cubic K) tol with
        | none => rfl
        | some l => simp [segOf, mapSeg, mapFlat, Function.comp_def]
      exact ⟨by simp only [List.map_cons, mapEvent, mapAP, cbOkEvents, cbOkCubic, hf,
          Option.isSome_map, h1],
        by simp [flatAttrIter, mapEvent, mapAP, h2, hseg, linesA_mapSeg]⟩

/-- **flatten_transform_reflection_attr_concrete** -/
theorem flatten_transform_reflection_attr_concrete (hsq : SqrtScales K) (m : Xf K) (s : K)
    (hm : IsSimNeg m s) (tol : K) (aevs : List (Event (AP (P K) K)))
    (hg : reflGenericAttrEvents tol aevs) :
    flatAttrIterC (s * tol) (aevs.map (mapEvent (mapAP m.apply)))
      = (flatAttrIterC tol aevs).map (List.map (mapEvent (mapAP m.apply))) := by
  obtain ⟨h1, h2⟩ := flatAttrIter_reflection hsq m s hm tol aevs hg
  unfold flatAttrIterC
  rw [h1]
  split
  · simp only [Option.map_some, Option.some.injEq]; exact h2
  · rfl

end field

/-! ## Non-vacuity (ℝ with the genuine functions; the events of `exProg`, whose quadratic
`(0,0) (1,1/8) (2,0)` has `parabola_from = 1/16`, `parabola_to = −1/16`) -/

section Examples
attribute [local instance 2000] fieldScalar

theorem exParabolaGeneric :
    ParabolaGeneric (parabolaFromOf (⟨⟨0, 0⟩, ⟨1, 1 / 8⟩, ⟨2, 0⟩⟩ : Quad ℝ))
      (parabolaToOf (⟨⟨0, 0⟩, ⟨1, 1 / 8⟩, ⟨2, 0⟩⟩ : Quad ℝ)) := by
  let _ := exRealTransc; let _ := exRealConst
  apply parabolaGeneric_of_ne
  · simp only [parabolaFromOf, ddOf, FlatParams.flatCross, geom]; norm_num
  · simp only [parabolaToOf, ddOf, FlatParams.flatCross, geom]; norm_num

example : @SqrtScales ℝ _ _ _ exRealTransc ∧ IsSimNeg (⟨3, 4, 4, -3, 1, 2⟩ : Xf ℝ) 5
    ∧ reflGenericEvents (specEvents (exProg (K := ℝ)))
    ∧ @reflGenericAttrEvents ℝ _ _ exRealTransc exRealConst (1 / 10) (attrEvents (exProg (K := ℝ))) := by
  refine ⟨real_sqrtScales, exSimNeg, ?_, ?_⟩
  · simp only [exProg, specEvents, specFrom, reflGenericEvents, and_true]
    exact exParabolaGeneric
  · simp only [exProg, attrEvents, specEvents, List.map_cons, List.map_nil, Adapt.aCall, specFrom,
      reflGenericAttrEvents, and_true]
    exact exParabolaGeneric

end Examples

end Lyon.C16
