/-
  C15b — the arc commands of `WithSvg` with the CONCRETE arc geometry, over ℝ.

  `Props/C15.lean` proves the protocol and the SVG rules for every arc geometry `Geo` (a parameter).
  Here `Geo` is instantiated with what `WithSvg::arc_to` / `arc` really call
  (`Model/Path/SvgConcrete.lean`: `SvgArc::is_straight_line`, `SvgArc::to_arc`, the `atan2` start
  angle of `WithSvg::arc` after lyon commits 20bcfb88 / 40e30eb0, `Arc::from`, the `approx_eq` and
  `< 0.01` tests, `for_each_quadratic_bezier`), the model of `Model/Geom/SvgArc.lean` that C13 ties
  bit-exactly to lyon_geom, at ℝ with Mathlib's `sin cos tan sqrt atan2` (`Props/C13Real.lean`).
  No trigonometric law is assumed; the only hypothesis on constants is `S::EPSILON ≥ 2·10⁻⁶`
  (lyon's f32 value is `10⁻⁴`; euclid's `approx_eq` box is `10⁻⁶`).

  * `svg_arc_to_semantics_real`, `svg_relative_arc_to_semantics_real` (full strength): for EVERY
    state (inside or outside a sub-path, empty or not) and every operands, `arc_to` hands the wrapped
    builder — after the implicit `begin` at the current position if needed — a connected run of
    quadratic pieces that starts exactly at the current position and ends exactly at the target
    (one `line_to(target)` for a straight arc); the adapter's `current_position` afterwards is the
    target, and it is the last point handed to the builder.
  * `svg_arc_semantics_real` (centre form `arc(center, radii, sweep, x_rotation)`, full strength): the
    calls are the `move_to` / `line_to` to the ellipse point at the start angle that the code issues,
    then a connected run from that point to `arc.sample 1` (`|sweep| ≤ 2π`) resp. back to
    `arc.sample 0` after 8 pieces (`|sweep| > 2π`, the clamp of finding C13-bezier-sweep-clamped);
    `current_position` afterwards is the last point handed to the builder in EVERY case.  (Before lyon
    commit 250152af this failed for a zero sweep inside a sub-path with the start point off the
    current position by less than 0.1 — finding C15-arc-zero-sweep-stale-position, found here;
    `svg_arc_zero_sweep_repaired` is its former witness input, now in sync.)
  * `svg_current_position_synced`: for every scalar type, every geometry, every command sequence:
    `current_position` is the wrapped builder's current point whenever a sub-path is open.
  * `svg_arc_on_curve_real`: centre form with the current position on the ellipse: the arc starts
    exactly at the current position.
  * `svg_path_connected_real`, `svg_path_connected_svg_commands_real`, `svg_path_connected_of_laws`:
    whole sequences: every edge the wrapped builder receives starts, in the path being built,
    exactly where the adapter means it to start (its `current_position` for lines / curves, the
    piece's own start point for arc pieces), and `current_position` is the builder's current point
    whenever a sub-path is open.

  Definitions used in the statements: `Lemmas/SvgGeoConcrete.lean` (`lastPoint`, `edgeStarts`: the
  wrapped builder's own current point after / in front of each call; `Run`; `GeoQ`, `froms`,
  `runFroms`; `Synced`; `RunOk`, `NoCenterArc`) and `Lemmas/SvgGeoConcreteSem.lean` (`realGeo`,
  `realGeoQ`, `ArcToSem`, `arcOf`, `arcStart`, `arcLead`, `CenterArcsOk`, `f32Eps`, the
  witness state `wS`, `wR`).  The same `concreteGeo` runs at `Float32` (pieces at `Float`) against
  the real `WithSvg` with no advice in family `svg_arc_e2e` of the check.
-/
import LyonVerif.Lemmas.SvgGeoConcreteSem

set_option linter.unusedSectionVars false
set_option linter.unusedVariables false
set_option linter.unusedSimpArgs false

namespace Lyon.C15b
open Lyon Lyon.Path Lyon.Svg Lyon.ArcConv Lyon.C13

/-- **`svg_arc_to_semantics_real`** — `SvgPathBuilder::arc_to` on `WithSvg`, every state, every
operands.  A straight arc (`|rx| ≤ ε`, `|ry| ≤ ε` or `to = current`) is `line_to(to)`.  Otherwise
the wrapped builder receives — after `end`/`begin(current_position)` if no sub-path is open,
after a zero-length `line_to(current_position)` if one is — the non-empty sequence of quadratic
pieces of `to_arc`, which is a connected run from EXACTLY the current position to EXACTLY `to`.
In every case `current_position` afterwards is `to`, a sub-path is open, and `to` is the last
point handed to the wrapped builder. -/
theorem svg_arc_to_semantics_real [Eps ℝ] (heps : 2 / 10 ^ 6 ≤ (Eps.eps : ℝ)) (s : St ℝ)
    (r : ArcArgs ℝ) (tgt : Pt ℝ) :
    (ArcConv.isStraightLine (svgArcOf r s.cur tgt) = true →
        step realGeo s (.arcTo r tgt) = lineTo s tgt)
    ∧ (ArcConv.isStraightLine (svgArcOf r s.cur tgt) = false →
        quadsOf (fromSvgArc (svgArcOf r s.cur tgt)) ≠ []
        ∧ Run (toP s.cur) (quadsOf (fromSvgArc (svgArcOf r s.cur tgt))) (toP tgt)
        ∧ (step realGeo s (.arcTo r tgt)).2 =
            (if s.needMoveTo then endIfNeeded s ++ [.begin s.cur ()] else [.line s.cur ()])
              ++ quadCalls ((quadsOf (fromSvgArc (svgArcOf r s.cur tgt))).map pieceCall)
        ∧ (step realGeo s (.arcTo r tgt)).1.first = (if s.needMoveTo then s.cur else s.first))
    ∧ (step realGeo s (.arcTo r tgt)).1.cur = tgt
    ∧ (step realGeo s (.arcTo r tgt)).1.needMoveTo = false
    ∧ ∀ p, lastPoint p (step realGeo s (.arcTo r tgt)).2 = some tgt :=
  arcTo_sem heps s r tgt

/-- **`svg_relative_arc_to_semantics_real`** — the relative form: the same statement
(`ArcToSem`, `Lemmas/SvgGeoConcreteSem.lean`, is the conjunction spelled out above) with the target
`current_position + offset`. -/
theorem svg_relative_arc_to_semantics_real [Eps ℝ] (heps : 2 / 10 ^ 6 ≤ (Eps.eps : ℝ)) (s : St ℝ)
    (r : ArcArgs ℝ) (v : Pt ℝ) : ArcToSem s r (s.cur + v) (step realGeo s (.relArcTo r v)) :=
  arcTo_sem heps s r (s.cur + v)

/-! ### the centre form -/

/-- **`svg_arc_semantics_real`** — the centre form `WithSvg::arc(center, radii, sweep, x_rotation)`,
every state, every operands (any radii, any sweep).
* current position `approx_eq` the centre: nothing happens (`last_ctrl` is reset).
* otherwise, with `arc` the arc whose start angle is the `atan2` parameter of the current position
  and `start = arc.from()`: the wrapped builder receives `end`/`begin(start)` if no sub-path is
  open, else `line_to(start)` if `start` is less than 0.1 away, else nothing; then the quadratic
  pieces of `arc`, a connected run from `start` to `e`, where `e = arc.sample 1 = arc.to()` for
  `|sweep| ≤ 2π` and `e = arc.sample 0` after exactly 8 pieces for `|sweep| > 2π`; there is no piece
  iff `sweep = 0`;
* `current_position` afterwards is `e` if there is a piece, else `start` after an implicit move-to
  or a connecting line, else the old position; `last_ctrl` is `current_position`;
* in EVERY case `current_position` is the wrapped builder's current point afterwards (`Synced`):
  full strength since lyon commit 250152af repaired finding C15-arc-zero-sweep-stale-position
  (before, this failed for a zero sweep inside a sub-path with the start point off the current
  position by less than 0.1: `line_to(start)` did not update `current_position`). -/
theorem svg_arc_semantics_real [Eps ℝ] (s : St ℝ) (r : ArcArgs ℝ) :
    (approxEqPt s.cur r.center = true → step realGeo s (.arc r) = ({ s with lastCtrl := s.cur }, []))
    ∧ (approxEqPt s.cur r.center = false →
        ∃ e, Run ((arcOf s r).sample 0) (quadsOf (arcOf s r)) e
          ∧ (|r.sweepAngle| ≤ 2 * Real.pi → e = (arcOf s r).sample 1)
          ∧ (2 * Real.pi < |r.sweepAngle| → e = (arcOf s r).sample 0 ∧ (quadsOf (arcOf s r)).length = 8)
          ∧ (quadsOf (arcOf s r) = [] ↔ r.sweepAngle = 0)
          ∧ (step realGeo s (.arc r)).2 =
              arcLead s (arcStart s r) ++ quadCalls ((quadsOf (arcOf s r)).map pieceCall)
          ∧ (step realGeo s (.arc r)).1.cur =
              (if r.sweepAngle = 0 then
                (if s.needMoveTo then arcStart s r
                 else if nearStart (arcStart s r) s.cur then arcStart s r else s.cur)
               else ofP e)
          ∧ (step realGeo s (.arc r)).1.lastCtrl = (step realGeo s (.arc r)).1.cur)
    ∧ (∀ p, Synced s p →
        Synced (step realGeo s (.arc r)).1 (lastPoint p (step realGeo s (.arc r)).2)) := by
  refine ⟨?_, ?_, fun p hp => step_synced realGeo s (.arc r) p hp⟩
  · intro h
    show arc s (centerOutQ quadsOf r s.cur).erase = _
    have h' : approxEqPt s.cur (ofP (toP r.center)) = true := h
    simp only [centerOutQ, arcOutQ, h', if_true, ArcOutQ.erase, arc]
  · intro h
    have h' : approxEqPt s.cur (ofP (toP r.center)) = false := h
    obtain ⟨e, hrun, h1, h2, hnil⟩ := quadsOf_run_real (arcOf s r)
    have hsw : (arcOf s r).sweep = r.sweepAngle := rfl
    rw [hsw] at h1 h2 hnil
    have hout : realGeo.center r s.cur =
        .curve (arcStart s r) (nearStart (arcStart s r) s.cur) ((quadsOf (arcOf s r)).map pieceCall) := by
      show (centerOutQ quadsOf r s.cur).erase = _
      simp only [centerOutQ, arcOutQ, h', Bool.false_eq_true, if_false, ArcOutQ.erase, arcStart, arcOf,
        Scalar.zero, sc_zero]
    have hst : toP (arcStart s r) = (arcOf s r).sample 0 := rfl
    have hlastS : lastTo (arcStart s r) ((quadsOf (arcOf s r)).map pieceCall) = ofP e := by
      rw [lastTo_pieces, hst, hrun.end_eq]
    -- the last `to` from an arbitrary default, when there is a piece
    have hlastAny : ∀ d : Pt ℝ, quadsOf (arcOf s r) ≠ [] →
        lastTo d ((quadsOf (arcOf s r)).map pieceCall) = ofP e := by
      intro d hq
      cases hl : quadsOf (arcOf s r) with
      | nil => exact absurd hl hq
      | cons q rest =>
        have := hlastS
        rw [hl] at this
        simpa [lastTo, pieceCall] using this
    have hcur : (step realGeo s (.arc r)).1.cur =
        (if r.sweepAngle = 0 then
          (if s.needMoveTo then arcStart s r
           else if nearStart (arcStart s r) s.cur then arcStart s r else s.cur)
         else ofP e) := by
      show (arc s (realGeo.center r s.cur)).1.cur = _
      rw [hout, arc_curve_eq]
      by_cases h0 : r.sweepAngle = 0
      · have hq := hnil.mpr h0
        cases hn : s.needMoveTo <;> cases hnear : nearStart (arcStart s r) s.cur <;>
          simp [h0, hq, lastTo]
      · have hq : quadsOf (arcOf s r) ≠ [] := fun hq => h0 (hnil.mp hq)
        cases hn : s.needMoveTo <;> simp [h0, hlastAny _ hq]
    have hcalls : (step realGeo s (.arc r)).2 =
        arcLead s (arcStart s r) ++ quadCalls ((quadsOf (arcOf s r)).map pieceCall) := by
      show (arc s (realGeo.center r s.cur)).2 = _
      rw [hout, arc_curve_eq]
      unfold arcLead
      cases hn : s.needMoveTo <;> simp
    refine ⟨e, hrun, h1, h2, hnil, hcalls, hcur, ?_⟩
    show (arc s (realGeo.center r s.cur)).1.lastCtrl = (arc s (realGeo.center r s.cur)).1.cur
    exact arc_lastCtrl s _

/-- **`svg_arc_on_curve_real`** — centre form, non-zero radii, current position ON the ellipse
(`current = center + sample_ellipse(radii, x_rotation, t)` for some `t`): the arc starts exactly at
the current position (so the connecting `line_to`, if any, has zero length and the first piece
starts at the path's current point). -/
theorem svg_arc_on_curve_real (s : St ℝ) (r : ArcArgs ℝ) (hx : r.radii.x ≠ 0) (hy : r.radii.y ≠ 0)
    (t : ℝ) (ht : toP s.cur = toP r.center + Arc.sampleEllipse (toP r.radii) r.xrot t) :
    arcStart s r = s.cur :=
  arcStart_on_curve s r hx hy t ht

/-! ### the formerly stale position (finding C15-arc-zero-sweep-stale-position, repaired) -/

/-
  Former witness (true of the model of lyon BEFORE commit 250152af, no longer true): in the state
  `wS` (sub-path open at (21/20, 0)) the command `wR` = `arc(center (0,0), radii (1,1), sweep 0,
  rotation 0)` handed `line_to(1, 0)` to the wrapped builder and left `current_position` at (21/20, 0):

      step realGeo wS (.arc wR) = ({ wS with lastCtrl := wS.cur }, [.line ⟨1, 0⟩ ()])
      (step realGeo (step realGeo wS (.arc wR)).1 (.relLineTo ⟨1, 0⟩)).2 = [.line ⟨41 / 20, 0⟩ ()]

  so the following `relative_line_to(1, 0)` drew an edge of offset (1.05, 0).  The same input now:
-/

/-- **`svg_arc_zero_sweep_repaired`** (concrete geometry over ℝ, lyon's f32 epsilon): inside a
sub-path at (1.05, 0), `arc(center (0,0), radii (1,1), sweep 0, rotation 0)` hands `line_to(1, 0)` to
the wrapped builder AND moves `current_position` to (1, 0): it is the last point handed to the
builder, and the following `relative_line_to(1, 0)` is `line_to(2, 0)`. -/
theorem svg_arc_zero_sweep_repaired :
    step (@realGeo f32Eps) wS (.arc wR)
      = ({ wS with cur := ⟨1, 0⟩, lastCtrl := ⟨1, 0⟩ }, [.line ⟨1, 0⟩ ()])
    ∧ wS.needMoveTo = false ∧ wS.cur = ⟨21 / 20, 0⟩
    ∧ lastPoint (some wS.cur) (step (@realGeo f32Eps) wS (.arc wR)).2 = some ⟨1, 0⟩
    ∧ (step (@realGeo f32Eps) wS (.arc wR)).1.cur = ⟨1, 0⟩
    ∧ (step (@realGeo f32Eps) (step (@realGeo f32Eps) wS (.arc wR)).1 (.relLineTo ⟨1, 0⟩)).2
        = [.line ⟨2, 0⟩ ()] := by
  let _ := f32Eps
  have hskip : approxEqPt wS.cur (ofP (toP wR.center)) = false := by
    simp only [approxEqPt, wS, wR, moveTo, ofP, toP, sc_abs, ofSci_eq, Bool.and_eq_false_iff,
      decide_eq_false_iff_not, not_lt]
    left; norm_num
  have hq : quadsOf (arcOf wS wR) = [] := by
    obtain ⟨_, _, _, _, hnil⟩ := quadsOf_run_real (arcOf wS wR)
    exact hnil.mpr rfl
  have hnear : nearStart (⟨1, 0⟩ : Pt ℝ) wS.cur = true := by
    simp only [nearStart, wS, moveTo, decide_eq_true_eq, ofSci_eq]
    norm_num
  have hout : realGeo.center wR wS.cur = .curve ⟨1, 0⟩ true [] := by
    show (centerOutQ quadsOf wR wS.cur).erase = _
    have h0 : (centerArc (toP wR.center) (toP wR.radii) wR.sweepAngle wR.xrot (toP wS.cur)).sample 0
        = ⟨1, 0⟩ := wArc_start
    have hq' : quadsOf (centerArc (toP wR.center) (toP wR.radii) wR.sweepAngle wR.xrot (toP wS.cur))
        = [] := hq
    simp only [centerOutQ, arcOutQ, hskip, Bool.false_eq_true, if_false, ArcOutQ.erase, Scalar.zero,
      sc_zero, h0, hq', List.map_nil]
    have : ofP (⟨1, 0⟩ : P ℝ) = (⟨1, 0⟩ : Pt ℝ) := rfl
    rw [this, hnear]
  have hstep : step realGeo wS (.arc wR)
      = ({ wS with cur := ⟨1, 0⟩, lastCtrl := ⟨1, 0⟩ }, [.line ⟨1, 0⟩ ()]) := by
    show arc wS (realGeo.center wR wS.cur) = _
    rw [hout, arc_curve_eq]
    simp [wS, moveTo, lastTo, quadCalls]
  refine ⟨hstep, rfl, rfl, ?_, ?_, ?_⟩
  · rw [hstep]; rfl
  · rw [hstep]
  · rw [hstep]
    simp [step, lineTo, beginIfNeeded, relToAbs, wS, moveTo]
    show (⟨1 + 1, 0 + 0⟩ : Pt ℝ) = ⟨2, 0⟩
    norm_num

/-- the name under which the witness of the finding was stated before the repair; now the statement
that the witness input is in sync (same as `svg_arc_zero_sweep_repaired`) -/
theorem svg_arc_zero_sweep_stale_witness :
    lastPoint (some wS.cur) (step (@realGeo f32Eps) wS (.arc wR)).2
      = some (step (@realGeo f32Eps) wS (.arc wR)).1.cur := by
  obtain ⟨_, _, _, h1, h2, _⟩ := svg_arc_zero_sweep_repaired
  rw [h1, h2]

/-! ### whole sequences -/

/-- over any scalar type, for any geometry that satisfies the laws `RunOk` along the sequence (pieces
form a run from the arc's start point; inside a sub-path that start point is the current
position): every edge starts in the built path where the adapter means it to start, and
`current_position` is the builder's current point whenever a sub-path is open -/
theorem svg_path_connected_of_laws {α ρ : Type} [Add α] [Sub α] (g : GeoQ α ρ) (zero : α)
    (cmds : List (Cmd α ρ)) (ho : RunOk g (St.init zero) cmds) :
    edgeStarts none (run g.erase (St.init zero) cmds).2 = (runFroms g (St.init zero) cmds).map some
      ∧ Synced (run g.erase (St.init zero) cmds).1 (lastPoint none (run g.erase (St.init zero) cmds).2) :=
  run_connected g cmds _ _ (synced_init zero) ho

/-- **`svg_current_position_synced`** — for EVERY scalar type, EVERY arc geometry and EVERY command
sequence (all 19 commands and `arc`, no side condition): whenever a sub-path is open afterwards, the
adapter's `current_position` is the last point handed to the wrapped builder.  (Needed the laws
of the geometry and excluded the stale case before lyon commit 250152af.) -/
theorem svg_current_position_synced {α ρ : Type} [Add α] [Sub α] (g : Geo α ρ) (zero : α)
    (cmds : List (Cmd α ρ)) :
    Synced (run g (St.init zero) cmds).1 (lastPoint none (run g (St.init zero) cmds).2) :=
  run_synced g cmds _ _ (synced_init zero)

/-- **`svg_path_connected_real`** — whole sequences with the concrete geometry over ℝ.  For EVERY
command sequence over the 19 `SvgPathBuilder` commands and the centre-form `arc`, from the empty
builder.  `CenterArcsOk` is needed for the chain statement only (`Synced` holds without it:
`svg_current_position_synced`); it excludes exactly a centre-form arc with non-zero sweep issued
inside a sub-path, not skipped, whose start point is 0.1 or more away from a current position that
is not on its ellipse — there the code draws no connecting line and the first piece does not start
at the path's current point.
* `edgeStarts`: in front of every edge call the wrapped builder's current point — where the edge
  starts in the path being built — is exactly the point the adapter means it to start
  (`runFroms`: `current_position` for lines and curves, the piece's own start point for every
  quadratic of an arc), so the edges form a connected chain per sub-path, arcs included;
* `Synced`: whenever a sub-path is open afterwards, `current_position` is the last point handed to
  the wrapped builder. -/
theorem svg_path_connected_real [Eps ℝ] (heps : 2 / 10 ^ 6 ≤ (Eps.eps : ℝ))
    (cmds : List (Cmd ℝ (ArcArgs ℝ))) (hc : CenterArcsOk (St.init 0) cmds) :
    edgeStarts none (run realGeo (St.init 0) cmds).2 = (runFroms realGeoQ (St.init 0) cmds).map some
      ∧ Synced (run realGeo (St.init 0) cmds).1 (lastPoint none (run realGeo (St.init 0) cmds).2) :=
  svg_path_connected_of_laws realGeoQ 0 cmds (runOk_real heps cmds _ hc)

/-- **`svg_path_connected_svg_commands_real`** — no hypothesis on the sequence at all when it
consists of the 19 SVG commands (`arc_to` / `relative_arc_to` included, any operands). -/
theorem svg_path_connected_svg_commands_real [Eps ℝ] (heps : 2 / 10 ^ 6 ≤ (Eps.eps : ℝ))
    (cmds : List (Cmd ℝ (ArcArgs ℝ))) (h : NoCenterArc cmds) :
    edgeStarts none (run realGeo (St.init 0) cmds).2 = (runFroms realGeoQ (St.init 0) cmds).map some
      ∧ Synced (run realGeo (St.init 0) cmds).1 (lastPoint none (run realGeo (St.init 0) cmds).2) :=
  svg_path_connected_real heps cmds (centerArcsOk_of_noCenterArc cmds _ h)

/-! ### non-vacuity -/

/-- the hypothesis on the constants holds for lyon's f32 epsilon `1e-4` -/
example : (2 / 10 ^ 6 : ℝ) ≤ (@Eps.eps ℝ f32Eps) := by
  show (2 / 10 ^ 6 : ℝ) ≤ 1 / 10 ^ 4
  norm_num

/-- both branches of `ArcToSem` occur (lyon's f32 epsilon): radii (1, −2) from (0,0) to (1,0) is a
true arc, radii (1/100000, 1) a straight line -/
example :
    @ArcConv.isStraightLine ℝ _ f32Eps
        (svgArcOf ⟨⟨1, -2⟩, 1 / 2, true, true, ⟨0, 0⟩, 0⟩ (⟨0, 0⟩ : Pt ℝ) ⟨1, 0⟩) = false
    ∧ @ArcConv.isStraightLine ℝ _ f32Eps
        (svgArcOf ⟨⟨1 / 100000, 1⟩, 0, true, true, ⟨0, 0⟩, 0⟩ (⟨0, 0⟩ : Pt ℝ) ⟨1, 0⟩) = true := by
  constructor
  · simp only [ArcConv.isStraightLine, svgArcOf, toP, sc_abs, Bool.or_eq_false_iff,
      decide_eq_false_iff_not, not_le]
    refine ⟨⟨?_, ?_⟩, ?_⟩
    · refine decide_eq_false (not_le.mpr ?_); show (1 / 10 ^ 4 : ℝ) < |1|; norm_num
    · refine decide_eq_false (not_le.mpr ?_); show (1 / 10 ^ 4 : ℝ) < |(-2 : ℝ)|; norm_num
    · show P.beq _ _ = false
      simp [P.beq]
  · simp only [ArcConv.isStraightLine, svgArcOf, toP, sc_abs, Bool.or_eq_true, decide_eq_true_eq]
    left; left
    refine decide_eq_true ?_
    show |(1 / 100000 : ℝ)| ≤ 1 / 10 ^ 4
    rw [abs_of_pos (by norm_num)]; norm_num

/-- `CenterArcsOk` holds for `M 1,0` followed by a centre-form arc on the unit circle (sweep 1), and
the sequence also contains an `arc_to` -/
example : @CenterArcsOk f32Eps (St.init 0)
    [.moveTo ⟨1, 0⟩, .arc ⟨⟨1, 1⟩, 0, false, false, ⟨0, 0⟩, 1⟩] := by
  refine ⟨trivial, ?_, trivial⟩
  right; right; right; right
  refine ⟨by norm_num, by norm_num, 0, ?_⟩
  exact on_unit_circle

/-- both cases of `svg_arc_semantics_real` occur: at the centre the arc is skipped, at (21/20, 0) it
is not (the formerly stale input of `svg_arc_zero_sweep_repaired`) -/
example : approxEqPt (⟨0, 0⟩ : Pt ℝ) ⟨0, 0⟩ = true ∧ approxEqPt wS.cur wR.center = false := by
  constructor
  · simp [approxEqPt, sc_abs, ofSci_eq]
  · simp only [approxEqPt, wS, wR, moveTo, sc_abs, ofSci_eq, Bool.and_eq_false_iff,
      decide_eq_false_iff_not, not_lt]
    left; norm_num

/-- hypothesis `RunOk` of `svg_path_connected_of_laws` -/
example : RunOk lawfulGeoQ (St.init 0)
    [.moveTo ⟨0, 0⟩, .arcTo () ⟨20, 0⟩, .relLineTo ⟨1, 1⟩, .close, .arcTo () ⟨3, 3⟩, .arc ()] := by
  simp [RunOk, StepOk, SvgOutOk, OutOk, lawfulGeoQ, Run]

/-- hypothesis `NoCenterArc` of `svg_path_connected_svg_commands_real` -/
example : NoCenterArc ([.lineTo ⟨1, 0⟩, .arcTo ⟨⟨1, -2⟩, 1 / 2, true, true, ⟨0, 0⟩, 0⟩ ⟨3, 0⟩, .close,
    .relArcTo ⟨⟨1, 1⟩, 0, false, true, ⟨0, 0⟩, 0⟩ ⟨1, 1⟩] : List (Cmd ℝ (ArcArgs ℝ))) := by
  simp [NoCenterArc]

end Lyon.C15b
