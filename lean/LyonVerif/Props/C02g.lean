/-
  C02 (growth 4) — POINT-SET tiling for the ADVANCED monotone tessellator (general position).

  `Props/C02f.lean` proved point-set tiling (inside / pairwise interior-disjoint / covering) for the
  basic tessellator and the exact area sum for the advanced one.  The advanced tessellator emits two
  kinds of triangles: the FANS `flush_side` cuts out of a buffered chain (`flushLevels`, the doubling
  loop) and the triangles of the INNER basic tessellator, which is fed the chain ends only.  First
  the fans, as point sets, over an ordered field:

  * `flush_fan_is_ear_sequence` — for ANY chain `e_0 … e_{len−1}` that is strictly sorted in sweep
    order and strictly convex to its side, the triangles of the doubling loop, in lyon's emission
    order, are an ear sequence of the CHAIN POLYGON (the region between the chain and its chord
    `e_0 → e_{len−1}`): at level `s` the ears at the odd multiples of `s`, then the left-over triangle
    `(e_0, e_b, e_c)`, which cuts the last live vertex off across the chord.  Hence (`Tiles`): every
    fan triangle lies in the chain polygon, the fan triangles are pairwise interior-disjoint, and
    their closures cover the chain polygon.
  * `adv_flush_fans_tile_chain_polygons` — in EVERY state the advanced tessellator reaches on a valid
    sweep sequence in general position, this applies to both buffered chains (`CInv`: what
    `outward_turn` maintains; `NoCollinear` for strictness).
  * `adv_chain_polygon_inside` — and the chain polygon lies strictly inside the monotone polygon
    (`InsidePoly`): on its own side its edges are polygon edges; on the opposite side `ChordClear`
    (`adv_chord_clear_run`) + convexity keep every opposite edge off it.
  * `adv_fan_triangles_inside` — so every triangle `flush_side` emits for a buffered chain of a
    reached state lies strictly inside the polygon (every flush of the run is a flush of a chain of a
    reached state; for the two flushes of `end` the triangles are shown to be in the output:
    `adv_final_fans_in_output`).
  * `adv_fan_tiling` — the bundle.

  And the WHOLE output of the advanced tessellator (`Lemmas/MonotoneTileAdvSet{Gen,Cut,FF,Pop,FwdFan,Step,All,
  Final}.lean`): the run is a sequence of cuts of the FINE remaining polygon (inner stack, then the buffered
  chain of that side, then the not yet fed vertices; the stack's bottom entry, the other buffered chain, the
  not yet fed vertices of that side):
    - a flush first cuts the chain polygon off (`chain_fan_tiles0`), leaving the chord;
    - the forward of the chain's end to the inner tessellator then pops ears whose opposite side still
      contains the OTHER buffered chain — `ChordClear` of that chain puts the inner stack and the forwarded
      vertex strictly on their side of its chord, convexity puts its buffered vertices on the far side, so
      `chain_side` shows the ears do not reach it (`ff_pop`); or it fans over the inner stack, whose own chain
      may continue with buffered vertices that come BEFORE the forwarded vertex: they are on the stack's side
      of the diagonal (`turn_fan_le`, `ff_fan`);
    - buffering a vertex leaves the region unchanged; `end` flushes both chains, forwards in sweep order,
      and closes (`end_t`; the emitted order is a permutation of the cutting order).
  * `adv_triangles_inside`   — every point strictly inside a triangle of `Adv.run` is strictly inside the polygon;
  * `adv_triangles_disjoint` — no point is strictly inside two triangles of `Adv.run`;
  * `adv_triangles_cover`    — every point strictly inside the polygon lies in a closed triangle of `Adv.run`
                               (for the points of a chain's chord: the chain polygon is taken closed on its chord
                               side, `Lemmas/MonotoneTileAdvSetClosed.lean`; `Lemmas/MonotoneTileAdvSetCov{1,2,3}.lean`
                               repeat the cut sequence with the covering clause);
  * `adv_tiling`             — the three with `n − 2`, distinct ids, non-degeneracy and the exact area sum: the
                               triangles of the ADVANCED monotone tessellator TILE the monotone piece — the strength of
                               `basic_tiling`, under the general-position hypothesis `NoCollinear` (which the basic
                               theorems do without: the degenerate ear of three collinear chain vertices is not
                               treated here; `flush_side`'s fans need strict convexity).
-/
import LyonVerif.Lemmas.MonotoneTileAdvSetCov3

set_option linter.unusedSectionVars false
set_option linter.unusedVariables false

namespace Lyon.C02g
open Lyon Lyon.Mono Lyon.C02 Lyon.C02c Lyon.C02f

section Geometry
variable {K : Type} [Field K] [LinearOrder K] [IsStrictOrderedRing K]

/-- **`flush_side`'s fan is an ear sequence of the chain polygon** (any strictly sorted, strictly
convex chain; `right` = the side flag `flush_side` is called with, the chain bulges to side `!right`) -/
theorem flush_fan_is_ear_sequence (pos : Nat → P K) (ev : Array Nat) (right : Bool) (len : Nat) (hl : 1 ≤ len)
    (hsort : ∀ a b, a < b → b < len → After (pos (ev.getD b 0)) (pos (ev.getD a 0)))
    (hconv : ∀ a b d, a < b → b < d → d < len →
      0 < sg (!right) * wind (pos (ev.getD a 0)) (pos (ev.getD b 0)) (pos (ev.getD d 0))) :
    (∀ t ∈ flushLevels ev len right (len + 1) 1, ∀ q, TriIn pos t q →
      InPoly (!right) ((List.range len).map (fun i => pos (ev.getD i 0))) [pos (ev.getD 0 0), pos (ev.getD (len - 1) 0)] q) ∧
    (flushLevels ev len right (len + 1) 1).Pairwise (fun t t' => ∀ q, ¬ (TriIn pos t q ∧ TriIn pos t' q)) ∧
    (∀ q, InPoly (!right) ((List.range len).map (fun i => pos (ev.getD i 0))) [pos (ev.getD 0 0), pos (ev.getD (len - 1) 0)] q →
      ∃ t ∈ flushLevels ev len right (len + 1) 1, TriInC pos t q) := by
  have t := flush_fan_tiles pos ev right len hl ⟨hsort, hconv⟩
  refine ⟨t.inside, t.disj, ?_⟩
  intro q hq
  rcases t.cover q hq with g | g
  · exact absurd g id
  · exact g

/-- **every reached state: `flush_side` on either buffered chain tiles its chain polygon** -/
theorem adv_flush_fans_tile_chain_polygons (seq : List (P K × Bool)) (hval : SweepValid seq) (hnc : NoCollinear seq)
    (h2 : 2 ≤ seq.length) (i : Nat) (l : Bool) (s : SideEv K)
    (hs : s = (if l then (advState seq i).left else (advState seq i).right)) :
    (∀ t ∈ flushLevels s.events.toArray s.events.length (!l) (s.events.length + 1) 1, ∀ q, TriIn (posOf seq) t q →
      InPoly l (s.events.map (posOf seq)) [posOf seq (s.events.headD 0), s.last.pos] q) ∧
    (flushLevels s.events.toArray s.events.length (!l) (s.events.length + 1) 1).Pairwise
      (fun t t' => ∀ q, ¬ (TriIn (posOf seq) t q ∧ TriIn (posOf seq) t' q)) ∧
    (∀ q, InPoly l (s.events.map (posOf seq)) [posOf seq (s.events.headD 0), s.last.pos] q →
      ∃ t ∈ flushLevels s.events.toArray s.events.length (!l) (s.events.length + 1) 1, TriInC (posOf seq) t q) := by
  have t := adv_state_fan_tiles seq hval hnc h2 i l s hs
  obtain ⟨hz, _, _, hk⟩ := adv_state_facts seq hval h2 i
  have hc : SideChain seq l (1 + ((midsOf seq).take i).length) s := by
    cases l
    · simp only [Bool.false_eq_true, if_false] at hs; rw [hs]; exact hz.cb
    · simp only [if_true] at hs; rw [hs]; exact hz.ca
  rw [chain_poly_eq seq hc] at t
  refine ⟨t.inside, t.disj, ?_⟩
  intro q hq
  rcases t.cover q hq with g | g
  · exact absurd g id
  · exact g

/-- **the chain polygon of a buffered chain lies inside the monotone polygon** -/
theorem adv_chain_polygon_inside (seq : List (P K × Bool)) (hval : SweepValid seq) (hnc : NoCollinear seq)
    (h2 : 2 ≤ seq.length) (i : Nat) (l : Bool) (s : SideEv K)
    (hs : s = (if l then (advState seq i).left else (advState seq i).right)) (hl2 : 2 ≤ s.events.length) :
    ∀ q, InPoly l (s.events.map (posOf seq)) [posOf seq (s.events.headD 0), s.last.pos] q → InsidePoly seq q :=
  fun q hq => adv_state_chain_poly_inside seq hval hnc h2 i l s hs hl2 q hq

/-- **every triangle `flush_side` emits for a buffered chain lies strictly inside the polygon** -/
theorem adv_fan_triangles_inside (seq : List (P K × Bool)) (hval : SweepValid seq) (hnc : NoCollinear seq)
    (h2 : 2 ≤ seq.length) (i : Nat) (l : Bool) (s : SideEv K)
    (hs : s = (if l then (advState seq i).left else (advState seq i).right)) :
    ∀ t ∈ flushLevels s.events.toArray s.events.length (!l) (s.events.length + 1) 1,
      ∀ q, TriIn (posOf seq) t q → InsidePoly seq q :=
  fun t ht q hq => adv_state_fan_inside seq hval hnc h2 i l s hs t ht q hq

/-- the two fans `end` emits are triangles of `Adv.run seq` -/
theorem adv_final_fans_in_output (seq : List (P K × Bool)) (h2 : 2 ≤ seq.length) (l : Bool) (s : SideEv K)
    (hs : s = (if l then (advState seq (midsOf seq).length).left else (advState seq (midsOf seq).length).right))
    (hl2 : 2 ≤ s.events.length) :
    ∀ t ∈ flushLevels s.events.toArray s.events.length (!l) (s.events.length + 1) 1, t ∈ Adv.run seq :=
  adv_final_fans_emitted seq h2 l s hs hl2

/-- **the fans of `flush_side` as point sets**, bundled.
On a valid sweep sequence in general position, for every reached state and either side: the fan of
the buffered chain lies strictly inside the polygon, is pairwise interior-disjoint, and covers the
chain polygon, which lies inside the polygon; the fans of the final state are in the output. -/
theorem adv_fan_tiling (seq : List (P K × Bool)) (hval : SweepValid seq) (hnc : NoCollinear seq)
    (h2 : 2 ≤ seq.length) (i : Nat) (l : Bool) (s : SideEv K)
    (hs : s = (if l then (advState seq i).left else (advState seq i).right)) :
    (∀ t ∈ flushLevels s.events.toArray s.events.length (!l) (s.events.length + 1) 1,
      ∀ q, TriIn (posOf seq) t q → InsidePoly seq q) ∧
    (flushLevels s.events.toArray s.events.length (!l) (s.events.length + 1) 1).Pairwise
      (fun t t' => ∀ q, ¬ (TriIn (posOf seq) t q ∧ TriIn (posOf seq) t' q)) ∧
    (∀ q, InPoly l (s.events.map (posOf seq)) [posOf seq (s.events.headD 0), s.last.pos] q →
      InsidePoly seq q ∧ ∃ t ∈ flushLevels s.events.toArray s.events.length (!l) (s.events.length + 1) 1,
        TriInC (posOf seq) t q) ∧
    (i = (midsOf seq).length → 2 ≤ s.events.length →
      ∀ t ∈ flushLevels s.events.toArray s.events.length (!l) (s.events.length + 1) 1, t ∈ Adv.run seq) := by
  obtain ⟨_, h2', h3⟩ := adv_flush_fans_tile_chain_polygons seq hval hnc h2 i l s hs
  refine ⟨adv_fan_triangles_inside seq hval hnc h2 i l s hs, h2', ?_, ?_⟩
  · intro q hq
    refine ⟨?_, h3 q hq⟩
    by_cases hl2 : 2 ≤ s.events.length
    · exact adv_chain_polygon_inside seq hval hnc h2 i l s hs hl2 q hq
    · obtain ⟨t, ht, _⟩ := h3 q hq
      have hlen : s.events.length - 2 = 0 := by omega
      have := flushLevels_count s.events.toArray s.events.length (!l)
      rw [hlen] at this
      rw [List.length_eq_zero_iff.mp this] at ht
      cases ht
  · intro hi hl2
    subst hi
    exact adv_final_fans_in_output seq h2 l s hs hl2

/-! ### the whole output -/

/-- a strictly positively oriented triangle contains its centroid strictly -/
theorem centroid_inside (a b c : P K) (h : 0 < wind a b c) :
    InTri a b c ⟨(a.x + b.x + c.x) / 3, (a.y + b.y + c.y) / 3⟩ := by
  have e1 : wind a b ⟨(a.x + b.x + c.x) / 3, (a.y + b.y + c.y) / 3⟩ = wind a b c / 3 := by
    simp only [wind, geom]; ring
  have e2 : wind b c ⟨(a.x + b.x + c.x) / 3, (a.y + b.y + c.y) / 3⟩ = wind a b c / 3 := by
    simp only [wind, geom]; ring
  have e3 : wind c a ⟨(a.x + b.x + c.x) / 3, (a.y + b.y + c.y) / 3⟩ = wind a b c / 3 := by
    simp only [wind, geom]; ring
  refine ⟨?_, ?_, ?_⟩ <;> simp only [e1, e2, e3] <;> positivity

/-- **(a) every triangle of the advanced tessellator lies inside the monotone polygon** -/
theorem adv_triangles_inside (seq : List (P K × Bool)) (h : 2 ≤ seq.length) (hval : SweepValid seq)
    (hnc : NoCollinear seq) :
    ∀ t ∈ Adv.run seq, ∀ q, TriIn (posOf seq) t q → InsidePoly seq q := by
  obtain ⟨_, t⟩ := adv_run_tiles0 seq h hval hnc
  exact t.inside

/-- **(b) the triangles of the advanced tessellator are pairwise interior-disjoint** -/
theorem adv_triangles_disjoint (seq : List (P K × Bool)) (h : 2 ≤ seq.length) (hval : SweepValid seq)
    (hnc : NoCollinear seq) :
    (Adv.run seq).Pairwise (fun t t' => ∀ q, ¬ (TriIn (posOf seq) t q ∧ TriIn (posOf seq) t' q)) := by
  obtain ⟨_, t⟩ := adv_run_tiles0 seq h hval hnc
  exact t.disj

/-- **(c) nothing is left out**: every point strictly inside the polygon lies in a closed triangle of the
advanced tessellator -/
theorem adv_triangles_cover (seq : List (P K × Bool)) (h : 2 ≤ seq.length) (hval : SweepValid seq)
    (hnc : NoCollinear seq) :
    ∀ q, InsidePoly seq q → ∃ t ∈ Adv.run seq, TriInC (posOf seq) t q := by
  obtain ⟨R', t, hemp⟩ := adv_run_tiles0C seq h hval hnc
  intro q hq
  rcases t.cover q hq with g | g
  · exact absurd g (hemp q)
  · exact g

/-- **the advanced monotone tessellator tiles the monotone piece** (C02, second sentence, for
`AdvancedMonotoneTessellator` — the one `FillTessellator` uses — in exact arithmetic and general
position): a valid sweep sequence with `n` boundary vertices, no three of them collinear, is cut into
exactly `n − 2` triangles, each on three distinct fed vertices, non-degenerate (it contains its centroid
strictly), each lying strictly inside the polygon, pairwise interior-disjoint, together covering the
polygon's interior, with areas adding up exactly to the polygon's area. -/
theorem adv_tiling (seq : List (P K × Bool)) (h : 2 ≤ seq.length) (hval : SweepValid seq)
    (hnc : NoCollinear seq) :
    (Adv.run seq).length = seq.length - 2 ∧
    (∀ t ∈ Adv.run seq, TriDistinct t ∧ (∃ q, TriIn (posOf seq) t q) ∧
      ∀ q, TriIn (posOf seq) t q → InsidePoly seq q) ∧
    (Adv.run seq).Pairwise (fun t t' => ∀ q, ¬ (TriIn (posOf seq) t q ∧ TriIn (posOf seq) t' q)) ∧
    (∀ q, InsidePoly seq q → ∃ t ∈ Adv.run seq, TriInC (posOf seq) t q) ∧
    sumW (posOf seq) (Adv.run seq) = shoelaceW (polygonOf seq) := by
  refine ⟨(run_spec seq).1 h, fun t ht => ⟨(run_spec seq).2 t ht, ?_, adv_triangles_inside seq h hval hnc t ht⟩,
    adv_triangles_disjoint seq h hval hnc, adv_triangles_cover seq h hval hnc, adv_run_area_eq seq h hval⟩
  have h1 := adv_run_nonneg seq hval.1 t ht
  have h2 := (run_spec seq).2 t ht
  have h3 := run_ids_lt seq t ht
  have h4 := hnc t.1 h3.1 t.2.1 h3.2.1 t.2.2 h3.2.2 h2.1 h2.2.1 h2.2.2
  exact ⟨_, centroid_inside _ _ _ (lt_of_le_of_ne h1 (Ne.symm h4))⟩

end Geometry

/-! ### non-vacuity over ℚ -/

section Examples

noncomputable instance (a b : P ℚ) : Decidable (a = b) :=
  decidable_of_iff (a.x = b.x ∧ a.y = b.y) ⟨fun h => P.ext' h.1 h.2, fun h => by rw [h]; exact ⟨rfl, rfl⟩⟩
noncomputable instance (q a : P ℚ) : Decidable (AfterEq q a) := by unfold AfterEq; infer_instance
noncomputable instance (a b q : P ℚ) : Decidable (Span a b q) := by unfold Span; infer_instance
noncomputable def decChainInQ (c : Bool) : (l : List (P ℚ)) → (q : P ℚ) → Decidable (ChainIn c l q)
  | [], _ => isFalse id
  | [_], _ => isFalse id
  | a :: b :: r, q => by
    have := decChainInQ c (b :: r) q
    unfold ChainIn; infer_instance
noncomputable instance (c : Bool) (l : List (P ℚ)) (q : P ℚ) : Decidable (ChainIn c l q) := decChainInQ c l q
noncomputable instance (c : Bool) (C O : List (P ℚ)) (q : P ℚ) : Decidable (InPoly c C O q) := by
  unfold InPoly; infer_instance
noncomputable instance (seq : List (P ℚ × Bool)) (q : P ℚ) : Decidable (InsidePoly seq q) := by
  unfold InsidePoly; infer_instance
noncomputable instance (a b c q : P ℚ) : Decidable (InTri a b c q) := by unfold InTri; infer_instance
noncomputable instance (pos : Nat → P ℚ) (t : Tri) (q : P ℚ) : Decidable (TriIn pos t q) := by
  unfold TriIn; infer_instance

/-- the polygon `exC` of `Props/C02f.lean`: after its five middle vertices the left chain `1, 3, 5`
is buffered (three ids); `end` flushes it into the fan triangle `(1, 3, 5)` -/
def exC : List (P ℚ × Bool) :=
  [(⟨0, 0⟩, true), (⟨-10, 1⟩, true), (⟨10, 2⟩, false), (⟨-12, 3⟩, true), (⟨11, 4⟩, false), (⟨-13, 5⟩, true),
   (⟨0, 7⟩, true)]

example : SweepValid exC ∧ NoCollinear exC ∧ 2 ≤ exC.length := by decide +kernel

example : (midsOf exC).length = 5 ∧ (advState exC 5).left.events = [1, 3, 5] ∧
    flushLevels (advState exC 5).left.events.toArray 3 false 4 1 = [(1, 3, 5)] := by decide +kernel

/-- the output of the advanced tessellator on `exC`; the point `(-47/4, 3)` is strictly inside the polygon
and strictly inside the fan triangle `(1, 3, 5)` only -/
example : InsidePoly exC ⟨-47/4, 3⟩ ∧ (1, 3, 5) ∈ Adv.run exC ∧ TriIn (posOf exC) (1, 3, 5) ⟨-47/4, 3⟩ := by
  decide +kernel

/-- a strictly sorted, strictly convex chain of 6 points on a parabola (left side): the hypotheses
of `flush_fan_is_ear_sequence`, and its fan -/
def parab (i : Nat) : P ℚ := ⟨-((i : ℚ) * (10 - i)), i⟩

example : (∀ a b, a < b → b < 6 → After (parab (#[0, 1, 2, 3, 4, 5].getD b 0)) (parab (#[0, 1, 2, 3, 4, 5].getD a 0))) ∧
    (∀ a b d, a < b → b < d → d < 6 → 0 < sg (!false) * wind (parab (#[0, 1, 2, 3, 4, 5].getD a 0))
      (parab (#[0, 1, 2, 3, 4, 5].getD b 0)) (parab (#[0, 1, 2, 3, 4, 5].getD d 0))) := by
  have h1 : ∀ b, b < 6 → ∀ a, a < b → After (parab (#[0, 1, 2, 3, 4, 5].getD b 0)) (parab (#[0, 1, 2, 3, 4, 5].getD a 0)) := by
    decide +kernel
  have h2 : ∀ d, d < 6 → ∀ b, b < d → ∀ a, a < b → 0 < sg (!false) * wind (parab (#[0, 1, 2, 3, 4, 5].getD a 0))
      (parab (#[0, 1, 2, 3, 4, 5].getD b 0)) (parab (#[0, 1, 2, 3, 4, 5].getD d 0)) := by
    decide +kernel
  exact ⟨fun a b hab hb => h1 b hb a hab, fun a b d hab hbd hd => h2 d hd b hbd a hab⟩

example : flushLevels #[0, 1, 2, 3, 4, 5] 6 false 7 1 = [(0, 1, 2), (2, 3, 4), (0, 4, 5), (0, 2, 4)] := by decide

end Examples

end Lyon.C02g
